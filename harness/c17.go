package main

import (
	"bytes"
	"fmt"
	"math/big"
	"os"
	"path/filepath"

	otr3 "github.com/coyim/otr3"
)

func init() { generators["C17"] = genC17 }

func tlvVal(t otr3.VerifTLV) Val { return L(N(int(t.Type)), N(int(t.Length)), B(t.Value)) }
func tlvsVal(ts []otr3.VerifTLV) Val {
	vs := make([]Val, len(ts))
	for i, t := range ts {
		vs[i] = tlvVal(t)
	}
	return VL(vs)
}

func (c *Ctx) genTLV() otr3.VerifTLV {
	v := c.genBytes()
	t := otr3.VerifTLV{Type: uint16(c.R.Intn(10)), Length: uint16(len(v)), Value: v}
	if c.R.Chance(1, 12) {
		t.Type = uint16(c.R.Intn(65536))
	}
	return t
}

func dataMsgArgs(d otr3.VerifDataMsg) []Val {
	ks := make([]Val, len(d.OldMACKeys))
	for i, k := range d.OldMACKeys {
		ks[i] = B(k)
	}
	return []Val{N(int(d.Flag)), NU(uint64(d.SenderKeyID)), NU(uint64(d.RecipientKeyID)), NB(d.Y),
		B(d.TopHalfCtr[:]), B(d.EncryptedMsg), B(d.Authenticator), VL(ks)}
}
func dataMsgVal(d otr3.VerifDataMsg) Val {
	return VL(append(dataMsgArgs(d), B(d.Cache)))
}

func (c *Ctx) genDataMsg() otr3.VerifDataMsg {
	d := otr3.VerifDataMsg{Flag: byte(c.R.Intn(3)), SenderKeyID: uint32(c.R.Intn(5)), RecipientKeyID: uint32(c.R.Intn(5)),
		Y: c.genMPI(), EncryptedMsg: c.genBytes(), Authenticator: c.R.Bytes(20)}
	if c.R.Chance(1, 8) {
		d.SenderKeyID = uint32(c.R.U64())
		d.RecipientKeyID = uint32(c.R.U64())
	}
	copy(d.TopHalfCtr[:], c.R.Bytes(8))
	if c.R.Chance(1, 2) {
		d.TopHalfCtr = [8]byte{0, 0, 0, 0, 0, 0, 0, byte(1 + c.R.Intn(20))}
	}
	for i := c.R.Intn(4); i > 0; i-- {
		d.OldMACKeys = append(d.OldMACKeys, c.R.Bytes(20))
	}
	return d
}

func eqDataMsg(a, b otr3.VerifDataMsg) bool {
	if a.Flag != b.Flag || a.SenderKeyID != b.SenderKeyID || a.RecipientKeyID != b.RecipientKeyID ||
		a.Y.Cmp(b.Y) != 0 || a.TopHalfCtr != b.TopHalfCtr || !bytes.Equal(a.EncryptedMsg, b.EncryptedMsg) ||
		!bytes.Equal(a.Authenticator, b.Authenticator) || len(a.OldMACKeys) != len(b.OldMACKeys) {
		return false
	}
	for i := range a.OldMACKeys {
		if !bytes.Equal(a.OldMACKeys[i], b.OldMACKeys[i]) {
			return false
		}
	}
	return true
}

func genC17(c *Ctx) {
	c.Rep.Rule = "structured values of every wire structure (boundary lengths, leading-zero MPIs, all TLV types) serialised and parsed by the Go code and by the Gallina mirror; parsers additionally fed truncated/extended/bit-flipped/huge-length variants; a case is distinct by (function, arguments), non-trivial = every case (each runs a codec on a generated value)"
	n := 40
	if c.Thorough() {
		n = 1500
	}
	for i := 0; i < n; i++ {
		c17Wire(c)
		c17Ake(c)
		c17Data(c)
		c17Tlv(c)
		c17Smp(c)
		c17Keys(c)
	}
	c17Boundaries(c)
	c17KeyFile(c, n)
}

// the largest values the wire format can express: TLV lengths at and just below 65535 (a 16-bit length plus the
// 4-byte TLV header must not wrap), data fields and texts around 64 kB
func c17Boundaries(c *Ctx) {
	pat := func(n int) []byte {
		b := make([]byte, n)
		for i := range b {
			b[i] = byte(1 + i%7)
		}
		return b
	}
	lens := []int{65531, 65532, 65535}
	if c.Thorough() {
		lens = []int{65531, 65532, 65533, 65534, 65535}
	}
	for _, l := range lens {
		c.Count("tlv-length:max-" + fmt.Sprint(65535-l))
		v := pat(l)
		copy(v, []byte{0, 1, 0, 0, 0, 1, 0, 0}) // bytes that would parse as further TLVs (type 1, length 0)
		ts := []otr3.VerifTLV{{Type: 8, Length: uint16(l), Value: v}, {Type: 0, Length: 3, Value: []byte{9, 9, 9}}}
		msg := []byte("max")
		ps := otr3.VerifPlainSer(msg, ts)
		c.AddCase(33, "plainDataMsg.serialize", B(ps), B(msg), tlvsVal(ts))
		out := guard(func() Val {
			m, bt, ok := otr3.VerifPlainDeser(ps)
			if !ok {
				return VNone{}
			}
			if !bytes.Equal(m, msg) || len(bt) != len(ts) || bt[0].Length != ts[0].Length || !bytes.Equal(bt[0].Value, ts[0].Value) || bt[1].Type != 0 {
				c.Violate("roundtrip-mismatch", fmt.Sprintf("plainDataMsg,tlv-length=%d", l), "a maximal TLV does not survive serialize/deserialize", map[string]string{"tlv_length": fmt.Sprint(l), "parsed_tlvs": fmt.Sprint(len(bt))})
			}
			return L(B(m), tlvsVal(bt))
		})
		if _, isNone := out.(VNone); isNone {
			c.Violate("roundtrip-mismatch", fmt.Sprintf("plainDataMsg,tlv-length=%d", l), "a maximal TLV does not parse back", map[string]string{"tlv_length": fmt.Sprint(l)})
		}
		c.AddCase(35, "plainDataMsg.deserialize", out, B(ps))
		ser := otr3.VerifTLVSer(ts[0])
		c.AddCase(31, "tlv.serialize", B(ser), tlvVal(ts[0]))
	}
	// degenerate MPI lists: empty, all zero-valued (exactly four bytes per element), zero among others, with a tail
	for _, vals := range [][]int64{{}, {0}, {0, 0}, {0, 0, 0, 0, 0, 0}, {0, 5, 0}, {7, 0}, {0, 0, 255}} {
		ms := make([]*big.Int, len(vals))
		for i, v := range vals {
			ms[i] = big.NewInt(v)
		}
		for _, tail := range [][]byte{nil, {9}, {0, 0, 0, 1}} {
			in := append(otr3.AppendMPIs(otr3.AppendWord(nil, uint32(len(ms))), ms...), tail...)
			out := guard(func() Val {
				r, vs, ok := otr3.ExtractMPIs(in)
				if !ok {
					return VNone{}
				}
				return L(B(r), mpisVal(vs))
			})
			if _, none := out.(VNone); none {
				c.Violate("roundtrip-mismatch", fmt.Sprintf("MPIs,count=%d", len(ms)), "a list of MPIs written by AppendMPIs does not parse back", map[string]string{"in": hex(in)})
			}
			c.AddCase(17, "ExtractMPIs", out, B(in))
		}
		c.Count("mpi-list:degenerate")
	}
	for _, l := range []int{65536} {
		d := pat(l)
		c.AddCase(4, "AppendData", B(otr3.AppendData([]byte{7}, d)), B([]byte{7}), B(d))
		in := otr3.AppendData(nil, d)
		r, v, ok := otr3.ExtractData(append(in, 5, 6))
		c.AddCase(14, "ExtractData", restB(r, v, ok), B(append(in, 5, 6)))
	}
}

func hex(b []byte) string { return fmt.Sprintf("%x", b) }

func c17Wire(c *Ctx) {
	l := c.genBytes()
	s := uint16(c.R.U64())
	w := uint32(c.R.U64())
	if c.R.Chance(1, 3) {
		w = uint32(c.R.Intn(300))
	}
	lg := c.R.U64()
	d := c.genBytes()
	m := c.genMPI()
	c.AddCase(1, "AppendShort", B(otr3.AppendShort(l, s)), B(l), N(int(s)))
	c.AddCase(2, "AppendWord", B(otr3.AppendWord(l, w)), B(l), NU(uint64(w)))
	c.AddCase(3, "AppendLong", B(otr3.AppendLong(l, lg)), B(l), NU(lg))
	c.AddCase(4, "AppendData", B(otr3.AppendData(l, d)), B(l), B(d))
	c.AddCase(5, "AppendMPI", B(otr3.AppendMPI(l, m)), B(l), NB(m))
	var ms []*big.Int
	for i := c.R.Intn(5); i > 0; i-- {
		ms = append(ms, c.genMPI())
	}
	c.AddCase(6, "AppendMPIs", B(otr3.AppendMPIs(l, ms...)), B(l), mpisVal(ms))

	// oracle: round trips on the implementation
	tail := c.genBytes()
	if rest, v, ok := otr3.ExtractMPI(append(otr3.AppendMPI(nil, m), tail...)); !ok || v.Cmp(m) != 0 || !bytes.Equal(rest, tail) {
		c.Violate("roundtrip-mismatch", "MPI", "ExtractMPI(AppendMPI(m)++tail) != (tail,m)", map[string]string{"mpi": m.Text(16), "tail": hex(tail)})
	}
	if rest, v, ok := otr3.ExtractData(append(otr3.AppendData(nil, d), tail...)); !ok || !bytes.Equal(v, d) || !bytes.Equal(rest, tail) {
		c.Violate("roundtrip-mismatch", "DATA", "ExtractData(AppendData(d)++tail) != (tail,d)", map[string]string{"data": hex(d), "tail": hex(tail)})
	}
	ser := otr3.AppendMPI(nil, m)
	if len(ser) > 4 && ser[4] == 0 {
		c.Violate("non-minimal", "MPI", "AppendMPI emitted a leading zero byte", map[string]string{"mpi": m.Text(16)})
	}
	cnt := otr3.AppendMPIs(otr3.AppendWord(nil, uint32(len(ms))), ms...)
	if rest, vs, ok := otr3.ExtractMPIs(append(cnt, tail...)); !ok || len(vs) != len(ms) || !bytes.Equal(rest, tail) {
		c.Violate("roundtrip-mismatch", "MPIs", "ExtractMPIs(count++AppendMPIs(ms)++tail) failed", map[string]string{"ser": hex(cnt)})
	}

	// parsers on valid, mutated and random inputs
	var in []byte
	switch c.R.Intn(7) {
	case 0:
		in = otr3.AppendData(nil, d)
	case 1:
		in = append(otr3.AppendMPI(nil, m), tail...)
	case 2:
		in = append(cnt, tail...)
	case 3: // leading-zero MPI
		in = otr3.AppendData(nil, append([]byte{0, 0}, m.Bytes()...))
	case 4:
		in = otr3.AppendLong(nil, lg)
	default:
		in = c.genBytes()
	}
	kind := "valid"
	if c.R.Chance(1, 2) {
		in, kind = c.mutate(in)
	}
	c.Count("wire-input:" + kind)
	{
		r, v, ok := otr3.ExtractByte(in)
		c.AddCase(10, "ExtractByte", restN(r, N(int(v)), ok), B(in))
	}
	{
		r, v, ok := otr3.ExtractShort(in)
		c.AddCase(11, "ExtractShort", restN(r, N(int(v)), ok), B(in))
	}
	{
		r, v, ok := otr3.ExtractWord(in)
		c.AddCase(12, "ExtractWord", restN(r, NU(uint64(v)), ok), B(in))
	}
	{
		r, v, ok := otr3.ExtractLong(in)
		c.AddCase(13, "ExtractLong", restN(r, NU(v), ok), B(in))
	}
	{
		r, v, ok := otr3.ExtractData(in)
		c.AddCase(14, "ExtractData", restB(r, v, ok), B(in))
	}
	{
		l := c.R.Intn(len(in) + 3)
		r, v, ok := otr3.ExtractFixedData(in, l)
		c.AddCase(15, "ExtractFixedData", restB(r, v, ok), B(in), N(l))
	}
	{
		r, v, ok := otr3.ExtractMPI(in)
		var vv Val = VNone{}
		if ok {
			vv = NB(v)
		}
		c.AddCase(16, "ExtractMPI", restN(r, vv, ok), B(in))
		if ok { // re-serialisation of a parsed value parses to the same value
			if _, v2, ok2 := otr3.ExtractMPI(otr3.AppendMPI(nil, v)); !ok2 || v2.Cmp(v) != 0 {
				c.Violate("reparse-mismatch", "MPI", "parse(ser(parse(b))) != parse(b)", map[string]string{"in": hex(in)})
			}
		}
	}
	{
		out := guard(func() Val {
			r, vs, ok := otr3.ExtractMPIs(in)
			if !ok {
				return VNone{}
			}
			return L(B(r), mpisVal(vs))
		})
		c.AddCase(17, "ExtractMPIs", out, B(in))
	}
	c.Sample(map[string]string{"fn": "Extract*", "input": hex(in), "kind": kind})
}

func c17Ake(c *Ctx) {
	enc, hash := c.genBytes(), c.R.Bytes(32)
	ser := otr3.VerifDHCommitSer(enc, hash)
	c.AddCase(20, "dhCommit.serialize", B(ser), B(enc), B(hash))
	if e, h, ok := otr3.VerifDHCommitDeser(ser); !ok || !bytes.Equal(e, enc) || !bytes.Equal(h, hash) {
		c.Violate("roundtrip-mismatch", "dhCommit", "deserialize(serialize(v)) != v", map[string]string{"enc": hex(enc), "hash": hex(hash)})
	}
	gy := c.genMPI()
	ks := otr3.VerifDHKeySer(gy)
	c.AddCase(22, "dhKey.serialize", B(ks), NB(gy))
	if g, ok := otr3.VerifDHKeyDeser(ks); !ok || g.Cmp(gy) != 0 {
		c.Violate("roundtrip-mismatch", "dhKey", "deserialize(serialize(v)) != v", map[string]string{"gy": gy.Text(16)})
	}
	var r [16]byte
	copy(r[:], c.R.Bytes(16))
	xb := c.genBytes()
	encSig := otr3.AppendData(nil, xb)
	mac := c.R.Bytes(32)
	v := 2 + c.R.Intn(2)
	rs := otr3.VerifRevealSigSer(r, encSig, mac, v)
	c.AddCase(24, "revealSig.serialize", B(rs), B(r[:]), B(encSig), B(mac))
	if rr, e, m, ok := otr3.VerifRevealSigDeser(rs, v); !ok || !bytes.Equal(rr, r[:]) || !bytes.Equal(e, xb) || !bytes.Equal(m, mac[:20]) {
		c.Violate("roundtrip-mismatch", "revealSig", "deserialize(serialize(v)) != v", map[string]string{"ser": hex(rs)})
	}
	ss := otr3.VerifSigSer(encSig, mac, v)
	c.AddCase(26, "sig.serialize", B(ss), B(encSig), B(mac))
	if e, m, ok := otr3.VerifSigDeser(ss); !ok || !bytes.Equal(e, xb) || !bytes.Equal(m, mac[:20]) {
		c.Violate("roundtrip-mismatch", "sig", "deserialize(serialize(v)) != v", map[string]string{"ser": hex(ss)})
	}
	// parsers on variants
	for _, base := range [][]byte{ser, ks, rs, ss, c.genBytes()} {
		in, kind := base, "valid"
		if c.R.Chance(2, 3) {
			in, kind = c.mutate(base)
		}
		c.Count("ake-input:" + kind)
		switch c.R.Intn(4) {
		case 0:
			e, h, ok := otr3.VerifDHCommitDeser(in)
			var o Val = VNone{}
			if ok {
				o = L(B(e), B(h))
			}
			c.AddCase(21, "dhCommit.deserialize", o, B(in))
		case 1:
			g, ok := otr3.VerifDHKeyDeser(in)
			var o Val = VNone{}
			if ok {
				o = NB(g)
			}
			c.AddCase(23, "dhKey.deserialize", o, B(in))
		case 2:
			rr, e, m, ok := otr3.VerifRevealSigDeser(in, v)
			var o Val = VNone{}
			if ok {
				o = L(B(rr), B(e), B(m))
			}
			c.AddCase(25, "revealSig.deserialize", o, B(in))
		case 3:
			e, m, ok := otr3.VerifSigDeser(in)
			var o Val = VNone{}
			if ok {
				o = L(B(e), B(m))
			}
			c.AddCase(27, "sig.deserialize", o, B(in))
		}
	}
}

func c17Data(c *Ctx) {
	d := c.genDataMsg()
	v := 2 + c.R.Intn(2)
	c.AddCase(28, "dataMsg.serializeUnsigned", B(otr3.VerifDataMsgSerUnsigned(d)), dataMsgArgs(d)...)
	ser := otr3.VerifDataMsgSer(d, v)
	c.AddCase(29, "dataMsg.serialize", B(ser), dataMsgArgs(d)...)
	ctrZero := d.TopHalfCtr == [8]byte{}
	back, ok := otr3.VerifDataMsgDeser(ser, v)
	if !ctrZero && (!ok || !eqDataMsg(back, d)) {
		c.Violate("roundtrip-mismatch", "dataMsg", "deserialize(serialize(v)) != v", map[string]string{"ser": hex(ser)})
	}
	if ok && !bytes.Equal(back.Cache, otr3.VerifDataMsgSerUnsigned(d)) {
		c.Violate("mac-range", "dataMsg", "authenticated range differs from serializeUnsigned", map[string]string{"ser": hex(ser)})
	}
	in, kind := ser, "valid"
	switch c.R.Intn(4) {
	case 0:
	case 1:
		in, kind = c.genBytes(), "random"
	default:
		in, kind = c.mutate(ser)
	}
	if c.R.Chance(1, 4) && len(ser) > 0 { // every truncation class near the MAC
		cut := c.R.Intn(30)
		if cut < len(ser) {
			in, kind = ser[:len(ser)-cut], "truncate-tail"
		}
	}
	c.Count("data-input:" + kind)
	out := guard(func() Val {
		m, ok := otr3.VerifDataMsgDeser(in, v)
		if !ok {
			return VNone{}
		}
		// re-serialisation parses to the same value
		if m2, ok2 := otr3.VerifDataMsgDeser(otr3.VerifDataMsgSer(m, v), v); !ok2 || !eqDataMsg(m, m2) {
			c.Violate("reparse-mismatch", "dataMsg", "parse(ser(parse(b))) != parse(b)", map[string]string{"in": hex(in)})
		}
		return dataMsgVal(m)
	})
	if _, isPanic := out.(VPanic); isPanic {
		c.Violate("panic", "dataMsg.deserialize", "panic in dataMsg.deserialize", map[string]string{"in": hex(in)})
	}
	c.AddCase(30, "dataMsg.deserialize", out, B(in))
	c.Sample(map[string]string{"fn": "dataMsg.deserialize", "input": hex(in), "kind": kind})
}

func c17Tlv(c *Ctx) {
	t := c.genTLV()
	ser := otr3.VerifTLVSer(t)
	c.AddCase(31, "tlv.serialize", B(ser), tlvVal(t))
	if b, ok := otr3.VerifTLVDeser(ser); !ok || b.Type != t.Type || b.Length != t.Length || !bytes.Equal(b.Value, t.Value) {
		c.Violate("roundtrip-mismatch", "tlv", "deserialize(serialize(v)) != v", map[string]string{"ser": hex(ser)})
	}
	msg := c.genBytes()
	msg = bytes.ReplaceAll(msg, []byte{0}, []byte{1})
	var ts []otr3.VerifTLV
	for i := c.R.Intn(4); i > 0; i-- {
		ts = append(ts, c.genTLV())
	}
	ps := otr3.VerifPlainSer(msg, ts)
	c.AddCase(33, "plainDataMsg.serialize", B(ps), B(msg), tlvsVal(ts))
	pp := otr3.VerifPlainPadSer(msg, ts)
	c.AddCase(34, "plainDataMsg.pad.serialize", B(pp), B(msg), tlvsVal(ts))
	if len(pp)%256 != 0 && len(ts) == 0 {
		c.Violate("padding", "plainDataMsg", "padded length is not a multiple of 256", map[string]string{"msg": hex(msg)})
	}
	if m, bt, ok := otr3.VerifPlainDeser(ps); !ok || !bytes.Equal(m, msg) || len(bt) != len(ts) {
		c.Violate("roundtrip-mismatch", "plainDataMsg", "deserialize(serialize(v)) != v", map[string]string{"ser": hex(ps)})
	} else {
		for i := range ts {
			if bt[i].Type != ts[i].Type || bt[i].Length != ts[i].Length || !bytes.Equal(bt[i].Value, ts[i].Value) {
				c.Violate("roundtrip-mismatch", "plainDataMsg", "tlv differs after round trip", map[string]string{"ser": hex(ps)})
			}
		}
	}
	for _, base := range [][]byte{ser, ps, pp} {
		in, kind := base, "valid"
		if c.R.Chance(1, 2) {
			in, kind = c.mutate(base)
		}
		c.Count("tlv-input:" + kind)
		if c.R.Chance(1, 2) {
			b, ok := otr3.VerifTLVDeser(in)
			var o Val = VNone{}
			if ok {
				o = tlvVal(b)
			}
			c.AddCase(32, "tlv.deserialize", o, B(in))
		} else {
			out := guard(func() Val {
				m, bt, ok := otr3.VerifPlainDeser(in)
				if !ok {
					return VNone{}
				}
				return L(B(m), tlvsVal(bt))
			})
			c.AddCase(35, "plainDataMsg.deserialize", out, B(in))
		}
	}
}

var smpCounts = map[uint16]int{2: 6, 7: 6, 3: 11, 4: 8, 5: 3, 6: 0}

func c17Smp(c *Ctx) {
	tps := []int{2, 3, 4, 5, 6, 7}
	tp := uint16(c.R.Pick(tps))
	n := smpCounts[tp]
	if c.R.Chance(1, 4) {
		n = c.R.Intn(14)
	}
	var ms []*big.Int
	for i := 0; i < n; i++ {
		ms = append(ms, c.genMPI())
	}
	t := otr3.VerifGenSMPTLV(tp, ms...)
	c.AddCase(36, "genSMPTLV", tlvVal(t), N(int(tp)), mpisVal(ms))
	if int(t.Length) != len(t.Value) {
		c.Violate("length-mismatch", "genSMPTLV", "tlvLength != len(tlvValue)", map[string]int{"type": int(tp), "len": len(t.Value)})
	}
	var six [6]*big.Int
	var sixl []*big.Int
	for i := range six {
		six[i] = c.genMPI()
		sixl = append(sixl, six[i])
	}
	q := ""
	hasQ := c.R.Chance(1, 2)
	var qv Val = VNone{}
	if hasQ {
		qb := bytes.ReplaceAll(c.genBytes(), []byte{0}, []byte{'x'})
		q = string(qb)
		qv = B(qb)
	}
	t1 := otr3.VerifSMP1TLV(six, hasQ, q)
	c.AddCase(37, "smp1Message.tlv", tlvVal(t1), mpisVal(sixl), qv)
	if int(t1.Length) != len(t1.Value) {
		c.Violate("length-mismatch", "smp1Message.tlv", "tlvLength != len(tlvValue)", map[string]int{"len": len(t1.Value)})
	}
	// round trip through the parser
	if qq, hq, back, ok := otr3.VerifToSmpMessage(t1); !ok || hq != hasQ || qq != q || len(back) != 6 {
		c.Violate("roundtrip-mismatch", "smp1", "smpMessage(tlv(m)) != m", map[string]string{"value": hex(t1.Value)})
	} else {
		for i := range back {
			if back[i].Cmp(six[i]) != 0 {
				c.Violate("roundtrip-mismatch", "smp1", "MPI differs after round trip", map[string]string{"value": hex(t1.Value)})
			}
		}
	}
	// parser on variants
	for _, base := range []otr3.VerifTLV{t, t1} {
		in := base
		kind := "valid"
		if c.R.Chance(1, 2) {
			in.Value, kind = c.mutate(base.Value)
		}
		if c.R.Chance(1, 5) {
			in.Type = uint16(c.R.Intn(10))
		}
		c.Count("smp-input:" + kind)
		out := guard(func() Val {
			qq, hq, back, ok := otr3.VerifToSmpMessage(in)
			if !ok {
				return VNone{}
			}
			var qv Val = VNone{}
			if hq {
				qv = B([]byte(qq))
			}
			return L(qv, mpisVal(back))
		})
		c.AddCase(38, "tlv.smpMessage", out, tlvVal(in))
	}
}

func (c *Ctx) genPub() (p, q, g, y *big.Int) { return c.genMPI(), c.genMPI(), c.genMPI(), c.genMPI() }

func c17Keys(c *Ctx) {
	p, q, g, y := c.genPub()
	x := c.genMPI()
	pub := &otr3.DSAPublicKey{}
	pub.P, pub.Q, pub.G, pub.Y = p, q, g, y
	priv := &otr3.DSAPrivateKey{}
	priv.DSAPublicKey = *pub
	priv.PrivateKey.PublicKey = pub.PublicKey
	priv.X = x
	ps := priv.Serialize()
	pubSer := ps[:len(ps)-len(otr3.AppendMPI(nil, x))]
	c.AddCase(40, "DSAPublicKey.serialize", B(pubSer), NB(p), NB(q), NB(g), NB(y))
	c.AddCase(42, "DSAPrivateKey.serialize", B(ps), NB(p), NB(q), NB(g), NB(y), NB(x))
	tail := c.genBytes()
	rest, ok, k := otr3.ParsePublicKey(append(append([]byte{}, pubSer...), tail...))
	if !ok || !bytes.Equal(rest, tail) {
		c.Violate("roundtrip-mismatch", "DSAPublicKey", "ParsePublicKey(serialize(k)++tail) failed", map[string]string{"ser": hex(pubSer)})
	} else if kk := k.(*otr3.DSAPublicKey); kk.P.Cmp(p) != 0 || kk.Q.Cmp(q) != 0 || kk.G.Cmp(g) != 0 || kk.Y.Cmp(y) != 0 {
		c.Violate("roundtrip-mismatch", "DSAPublicKey", "ParsePublicKey(serialize(k)) != k", map[string]string{"ser": hex(pubSer)})
	}
	rest2, ok2, k2 := otr3.ParsePrivateKey(append(append([]byte{}, ps...), tail...))
	if !ok2 || !bytes.Equal(rest2, tail) || k2.(*otr3.DSAPrivateKey).X.Cmp(x) != 0 {
		c.Violate("roundtrip-mismatch", "DSAPrivateKey", "ParsePrivateKey(serialize(k)++tail) failed", map[string]string{"ser": hex(ps)})
	}
	for _, base := range [][]byte{pubSer, ps} {
		in, kind := base, "valid"
		if c.R.Chance(1, 2) {
			in, kind = c.mutate(base)
		}
		c.Count("key-input:" + kind)
		{
			r, ok, k := otr3.ParsePublicKey(in)
			var o Val = VNone{}
			if ok {
				kk := k.(*otr3.DSAPublicKey)
				o = L(B(r), L(NB(kk.P), NB(kk.Q), NB(kk.G), NB(kk.Y)))
			}
			c.AddCase(41, "ParsePublicKey", o, B(in))
		}
		{
			r, ok, k := otr3.ParsePrivateKey(in)
			var o Val = VNone{}
			if ok {
				kk := k.(*otr3.DSAPrivateKey)
				o = L(B(r), L(NB(kk.DSAPublicKey.P), NB(kk.DSAPublicKey.Q), NB(kk.DSAPublicKey.G), NB(kk.DSAPublicKey.Y)), NB(kk.X))
			}
			c.AddCase(43, "ParsePrivateKey", o, B(in))
		}
	}
}

func c17KeyFile(c *Ctx, n int) {
	sexpInputs(c, n/4)
	c17KeyFileRoundTrip(c, 6+n/40)
	keyFileCases(c, 10+n/20)
}

// libotr key files: exporting any list of accounts (names made of the characters libotr permits, any protocol symbol)
// and importing the file again yields the same accounts and keys, and exporting what was imported yields the same bytes
func c17KeyFileRoundTrip(c *Ctx, n int) {
	nameChars := "abcdefghijklmnopqrstuvwxyzABCDEFGHIJKLMNOPQRSTUVWXYZ0123456789@._-+/ "
	protos := []string{"prpl-jabber", "libpurple-Jabber", "xmpp", "irc", "prpl-icq"}
	dir := os.Getenv("VERIF_SCRATCH")
	if dir == "" {
		dir = os.TempDir()
	}
	for i := 0; i < n; i++ {
		var acs []*otr3.Account
		k := 1 + c.R.Intn(3)
		if i == 0 {
			k = 0
		}
		for j := 0; j < k; j++ {
			ln := 1 + c.R.Intn(24)
			if i == 1 {
				ln = 1
			}
			nm := make([]byte, ln)
			for x := range nm {
				nm[x] = nameChars[c.R.Intn(len(nameChars))]
			}
			acs = append(acs, &otr3.Account{Name: string(nm), Protocol: protos[c.R.Intn(len(protos))], Key: partyKeys[1+c.R.Intn(4)]})
		}
		f1 := filepath.Join(dir, fmt.Sprintf("verif-keys-%d-%d.txt", os.Getpid(), i))
		f2 := f1 + ".again"
		func() {
			defer os.Remove(f1)
			defer os.Remove(f2)
			if err := otr3.ExportKeysToFile(acs, f1); err != nil {
				c.Violate("roundtrip-mismatch", "key-file", "ExportKeysToFile failed: "+err.Error(), nil)
				return
			}
			got, err := otr3.ImportKeysFromFile(f1)
			desc := func() map[string]string {
				b, _ := os.ReadFile(f1)
				names := ""
				for _, a := range acs {
					names += fmt.Sprintf("%q/%s ", a.Name, a.Protocol)
				}
				return map[string]string{"accounts": names, "file_head": string(trunc200(b))}
			}
			if err != nil {
				c.Violate("roundtrip-mismatch", "key-file", "the exported file does not import: "+err.Error(), desc())
				return
			}
			if len(got) != len(acs) {
				c.Violate("roundtrip-mismatch", "key-file", fmt.Sprintf("%d accounts exported, %d imported", len(acs), len(got)), desc())
				return
			}
			for j := range acs {
				w, g := acs[j], got[j]
				wk, gk := w.Key.(*otr3.DSAPrivateKey), g.Key.(*otr3.DSAPrivateKey)
				if g.Name != w.Name || g.Protocol != w.Protocol || !bytes.Equal(wk.Serialize(), gk.Serialize()) ||
					!bytes.Equal(wk.PublicKey().Fingerprint(), gk.PublicKey().Fingerprint()) {
					c.Violate("roundtrip-mismatch", "key-file", fmt.Sprintf("account %d: exported %q/%s, imported %q/%s (keys equal: %v)", j, w.Name, w.Protocol, g.Name, g.Protocol, bytes.Equal(wk.Serialize(), gk.Serialize())), desc())
					return
				}
			}
			if err := otr3.ExportKeysToFile(got, f2); err == nil {
				b1, _ := os.ReadFile(f1)
				b2, _ := os.ReadFile(f2)
				if !bytes.Equal(b1, b2) {
					c.Violate("roundtrip-mismatch", "key-file", "exporting what was imported gives other bytes", desc())
				}
			}
		}()
		c.Rep.Evaluations++
		c.Count("key-file-roundtrip")
	}
}
