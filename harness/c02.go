package main

import "fmt"

func init() {
	generators["C02"] = genC02
	generators["C05"] = genC05
	generators["C06"] = genC06
}

// session: parties 1,2 with policy pol after a completed handshake and some traffic (rot ping-pongs)
func sessionWithTraffic(c *Ctx, pol int, rot int) (*Sys, []int, bool) {
	pols := []int{pol, pol}
	s := newSys(pols, c.R.U64())
	if !s.Handshake(1, 2) {
		return s, pols, false
	}
	for i := 0; i < rot; i++ {
		a := 1 + i%2
		s.Send(a, []byte(fmt.Sprintf("warm%d", i)))
		s.Pump(1, 2, 10)
	}
	return s, pols, true
}

func (c *Ctx) pickVersionPolicy() int { return []int{polV3, polV2, polV2 | polV3}[c.R.Intn(3)] }

func dataMutations(c *Ctx, s *Sys, from int) []Mut {
	ms := []Mut{MFlipMac(), MFlipEnc(), MCtr(1 + c.R.Intn(1000)), MSk(c.R.Intn(6)), MRk(c.R.Intn(6)), MFlag(1 + c.R.Intn(3)), MY(), MTruncate(),
		MVersion(2 + c.R.Intn(2)), MNonCanon()}
	ms = append(ms, MTag(true, c.R.Intn(5)), MTag(false, c.R.Intn(5)))
	for w := 1; w <= 2; w++ {
		if n := len(s.disclosed[w]); n > 0 {
			ms = append(ms, MReMac(w, c.R.Intn(n)))
		}
	}
	return ms
}

// rejectedExpected: does the mutation change an authenticated byte (so the message must be rejected)?
func mutationMustReject(s *Sys, m Mut, from, idx, to int) bool {
	orig := s.ps[from].outs[idx]
	mutd := m.f(s, from, to, orig)
	if string(orig) == string(mutd) {
		return false
	}
	if m.Kind == "drop-revealed-keys" {
		return false
	}
	return true
}

// C02: only authentic, unmodified data messages are delivered
func genC02(c *Ctx) {
	c.Rep.Rule = "sessions at 0..6 rotations; for an in-flight data message every mutation class (MAC, ciphertext, counter, key ids, flag, next key, truncation, tags, version, re-MAC with a disclosed key) is delivered before the genuine message; each step compared with the abstract machine; oracle: a mutated message yields no plaintext and no TLV effect, the genuine one is still delivered; plaintext injected while encrypted carries the unencrypted event"
	c02PlainInjection(c)
	n := 16
	if c.Thorough() {
		n = 160
	}
	for i := 0; i < n; i++ {
		pol := c.pickVersionPolicy()
		s, pols, ok := sessionWithTraffic(c, pol, c.R.Intn(7))
		if !ok {
			c.Violate("handshake-failed", fmt.Sprint(pol), "handshake did not complete", s.trace)
			continue
		}
		for round := 0; round < 4; round++ {
			a := 1 + c.R.Intn(2)
			b := 3 - a
			text := []byte(fmt.Sprintf("secret-%d-%d", i, round))
			s.Send(a, text)
			idx := len(s.ps[a].outs) - 1
			s.ps[a].pending = idx + 1
			muts := dataMutations(c, s, a)
			delivered := false
			// every mutation class on the first message of a session, a sample on the others
			order := c.R.Intn(len(muts))
			for k := 0; k < len(muts); k++ {
				if round > 0 && k >= 3 {
					break
				}
				m := muts[(order+k)%len(muts)]
				must := mutationMustReject(s, m, a, idx, b)
				before := len(s.ps[b].events)
				_ = before
				plain, _ := s.Deliver(a, idx, b, m)
				c.Count("mutation:" + m.Kind)
				if plain != nil {
					delivered = true
				}
				if must && plain != nil {
					c.Violate("forged-accepted", m.Kind, fmt.Sprintf("mutated message delivered plaintext %q", plain), s.trace)
				}
				if must {
					for _, e := range s.ps[b].events {
						if e >= 100 {
							c.Violate("forged-tlv-effect", m.Kind, fmt.Sprintf("mutated message caused event %d", e), s.trace)
						}
					}
				}
			}
			// plaintext injected while encrypted must be flagged
			if c.R.Chance(1, 3) {
				p := s.Inject(b, []byte("plain-injection"), fmt.Sprintf("WPlain %s None", coqBytes([]byte("plain-injection"))))
				flagged := false
				for _, e := range s.ps[b].events {
					if e == 13 {
						flagged = true
					}
				}
				if p != nil && !flagged {
					c.Violate("unflagged-plaintext", "inject", "plaintext returned while encrypted without the unencrypted event", s.trace)
				}
			}
			plain, _ := s.Deliver(a, idx, b, MNone)
			if !delivered && string(plain) != string(text) {
				c.Violate("genuine-lost", "after-forgery", fmt.Sprintf("genuine message after forgeries returned %q", plain), s.trace)
			}
			s.Pump(1, 2, 10)
		}
		c.AddScenario(s, pols)
		if i == 0 {
			c.Sample(s.trace[len(s.trace)-min2(10, len(s.trace)):])
		}
	}
}

// plaintext that arrives while a session exists is never passed off as authenticated: however the session was
// opened (query, whitespace tag, error message, refresh), for either party, for the first and for later lines
func c02PlainInjection(c *Ctx) {
	type mode struct {
		name string
		pols []int
		open func(s *Sys) bool
	}
	enc := func(s *Sys) bool { return s.ps[1].c.IsEncrypted() && s.ps[2].c.IsEncrypted() }
	modes := []mode{
		{"query", []int{polV3, polV3}, func(s *Sys) bool { return s.Handshake(1, 2) }},
		{"query-v2", []int{polV2, polV2}, func(s *Sys) bool { return s.Handshake(2, 1) }},
		{"whitespace", []int{polV3 | polSendWS, polV3 | polWSStart}, func(s *Sys) bool {
			s.Send(1, []byte("tagged line"))
			s.Pump(1, 2, 20)
			return enc(s)
		}},
		{"whitespace-v2", []int{polV2 | polV3 | polSendWS, polV2 | polWSStart}, func(s *Sys) bool {
			s.Send(1, []byte("tagged line"))
			s.Pump(1, 2, 20)
			return enc(s)
		}},
		{"error-start", []int{polV3, polV3 | polErrStart}, func(s *Sys) bool {
			s.Inject(2, []byte("?OTR Error: oops"), fmt.Sprintf("WError %s", coqBytes([]byte("oops"))))
			s.Pump(1, 2, 20)
			return enc(s)
		}},
		{"refresh", []int{polV2 | polV3, polV2 | polV3}, func(s *Sys) bool {
			if !s.Handshake(1, 2) {
				return false
			}
			s.tick(130)
			return s.Handshake(2, 1)
		}},
		{"require", []int{polV3 | polRequire, polV3 | polRequire}, func(s *Sys) bool { return s.Handshake(1, 2) }},
	}
	for _, m := range modes {
		for _, first := range []int{1, 2} {
			s := newSys(m.pols, c.R.U64())
			if !m.open(s) {
				c.Violate("handshake-failed", m.name, "the session could not be opened", s.trace)
				continue
			}
			c.Count("plain-injection:" + m.name)
			for k, to := range []int{first, first, 3 - first} {
				line := []byte(fmt.Sprintf("injected line %d", k))
				p := s.Inject(to, line, fmt.Sprintf("WPlain %s None", coqBytes(line)))
				flagged := false
				for _, e := range s.ps[to].events {
					if e == 13 {
						flagged = true
					}
				}
				if p != nil && !flagged {
					c.Violate("unflagged-plaintext", "session-opened-by="+m.name, fmt.Sprintf("line %d injected into the encrypted conversation of party %d was returned without the received-unencrypted event", k, to), s.trace)
				}
			}
			s.Send(1, []byte("still works"))
			s.Pump(1, 2, 10)
			c.AddScenario(s, m.pols)
		}
	}
}

// C05: no data message is ever accepted twice
func genC05(c *Ctx) {
	c.Rep.Rule = "every data message recorded in a session is re-delivered later: immediately, after further traffic and rotations, out of order, and after End + a new key exchange; compared with the abstract machine; oracle: a replay never yields plaintext nor SMP/security/key events"
	// directed: a burst in one direction of which some messages are lost or overtaken (gaps in the counters under one key
	// pair), then every message that did arrive is delivered again - at once, and after the rest of the burst
	for _, pol := range []int{polV3, polV2} {
		for variant := 0; variant < 3; variant++ {
			s, pols, ok := sessionWithTraffic(c, pol, variant)
			if !ok {
				continue
			}
			var idxs []int
			for k := 0; k < 6; k++ {
				s.Send(1, []byte(fmt.Sprintf("burst-%d", k)))
				idxs = append(idxs, len(s.ps[1].outs)-1)
			}
			s.ps[1].pending = len(s.ps[1].outs)
			order := [][]int{{0, 2, 3, 5}, {1, 0, 4, 5}, {2, 5}}[variant] // which of the six arrive, in which order
			var arrived []int
			for _, k := range order {
				plain, _ := s.Deliver(1, idxs[k], 2, MNone)
				if plain != nil {
					arrived = append(arrived, idxs[k])
				}
				for _, r := range arrived {
					if p2, _ := s.Deliver(1, r, 2, MNone); p2 != nil {
						c.Violate("replay-accepted", "after-gap", fmt.Sprintf("replayed message delivered %q again (burst with lost / overtaken messages)", p2), s.trace)
					}
					c.Count("replay:after-gap")
				}
			}
			s.Pump(1, 2, 10)
			c.AddScenario(s, pols)
		}
	}
	n := 5
	if c.Thorough() {
		n = 100
	}
	for i := 0; i < n; i++ {
		pol := c.pickVersionPolicy()
		s, pols, ok := sessionWithTraffic(c, pol, c.R.Intn(3))
		if !ok {
			continue
		}
		type rec struct{ from, idx int }
		var seen []rec
		replay := func(r rec, when string) {
			to := 3 - r.from
			plain, _ := s.Deliver(r.from, r.idx, to, MNone)
			c.Count("replay:" + when)
			if plain != nil {
				c.Violate("replay-accepted", when, fmt.Sprintf("replayed message delivered %q again", plain), s.trace)
			}
			for _, e := range s.ps[to].events {
				if e >= 100 {
					c.Violate("replay-tlv-effect", when, fmt.Sprintf("replayed message caused event %d", e), s.trace)
				}
			}
		}
		for round := 0; round < 8; round++ {
			a := 1 + c.R.Intn(2)
			switch c.R.Intn(6) {
			case 0:
				s.ExtraKey(a, 7, []byte("u"))
			default:
				s.Send(a, []byte(fmt.Sprintf("m%d-%d", i, round)))
			}
			for s.ps[a].pending < len(s.ps[a].outs) {
				idx := s.ps[a].pending
				s.ps[a].pending++
				s.Deliver(a, idx, 3-a, MNone)
				if parseWire(s.ps[a].outs[idx]).kind == 4 {
					seen = append(seen, rec{a, idx})
				}
				if c.R.Chance(1, 2) {
					replay(rec{a, idx}, "immediately")
				}
			}
			s.Pump(1, 2, 10)
			if len(seen) > 0 && c.R.Chance(1, 2) {
				replay(seen[c.R.Intn(len(seen))], "after-traffic")
			}
		}
		// new session with the same peer
		if c.R.Chance(1, 2) {
			s.End(1)
			s.Pump(1, 2, 10)
			s.End(2)
			s.tick(130)
			if s.Handshake(1, 2) {
				for k := 0; k < 3 && len(seen) > 0; k++ {
					replay(seen[c.R.Intn(len(seen))], "later-session")
				}
				s.Send(1, []byte("after-replays"))
				s.Pump(1, 2, 10)
			}
		}
		c.AddScenario(s, pols)
		if i == 0 {
			c.Sample(s.trace[len(s.trace)-min2(8, len(s.trace)):])
		}
	}
}

// C06: a rejected message leaves the session exactly as it was.
// The same scripted history is run twice on identical seeds: once with a rejected message inserted,
// once without. Every later observation of both parties must be identical.
type scriptOp struct {
	kind string // send, deliver, tick, reject
	a    int
	text string
	mut  int
}

func runScript(c *Ctx, seed uint64, pol int, script []scriptOp, withReject bool, muts []Mut) (*Sys, []int, int) {
	pols := []int{pol, pol}
	s := newSys(pols, seed)
	rejIdx := -1
	if !s.Handshake(1, 2) {
		return s, pols, rejIdx
	}
	for _, op := range script {
		switch op.kind {
		case "send":
			s.Send(op.a, []byte(op.text))
		case "deliver":
			if idx := s.next(op.a); idx >= 0 {
				s.Deliver(op.a, idx, 3-op.a, MNone)
			}
		case "tick":
			s.tick(70)
		case "reject":
			if withReject && s.ps[op.a].pending < len(s.ps[op.a].outs) {
				// a damaged copy of the next in-flight message arrives first
				rejIdx = len(s.obs)
				before := len(s.ps[3-op.a].outs)
				s.Deliver(op.a, s.ps[op.a].pending, 3-op.a, muts[op.mut])
				s.dropFrom(3-op.a, before) // the optional error reply is not delivered
			}
		}
	}
	s.Pump(1, 2, 50)
	return s, pols, rejIdx
}

func genC06(c *Ctx) {
	c.Rep.Rule = "scripted histories (sends, FIFO deliveries, ticks) run twice on identical seeds, once with a rejected message (damaged copy of an in-flight message) inserted at a random point; both runs compared with the abstract machine; oracle: all later observations (plaintexts, outputs, events, state projections) of both parties are identical"
	// key-exchange phase: every AKE message x every mutation x both orders, twin runs
	akeSweep(c, !c.Thorough(), func(with, without *sweepRun) {
		sweepInert(c, with, without)
		c.AddScenario(with.s, with.pols)
	})
	akeCrossSweep(c, !c.Thorough(), func(with, without *sweepRun) {
		sweepInert(c, with, without)
		c.AddScenario(with.s, with.pols)
	})
	akeAfterSweep(c, func(with, without *sweepRun) {
		sweepInert(c, with, without)
		c.AddScenario(with.s, with.pols)
	})
	n := 30
	if c.Thorough() {
		n = 200
	}
	for i := 0; i < n; i++ {
		pol := c.pickVersionPolicy()
		seed := c.R.U64()
		var script []scriptOp
		steps := 12 + c.R.Intn(25)
		tn := 0
		for k := 0; k < steps; k++ {
			a := 1 + c.R.Intn(2)
			switch x := c.R.Intn(10); {
			case x < 4:
				tn++
				script = append(script, scriptOp{kind: "send", a: a, text: fmt.Sprintf("x%d", tn)})
			case x < 9:
				script = append(script, scriptOp{kind: "deliver", a: a})
			default:
				script = append(script, scriptOp{kind: "tick"})
			}
		}
		// a throw-away system to build mutation objects (they are stateless apart from s.disclosed)
		proto := newSys([]int{pol, pol}, seed)
		muts := []Mut{MFlipMac(), MFlipEnc(), MCtr(500), MSk(9), MRk(9), MTruncate(), MTag(true, 1), MTag(false, 4), MTag(true, 4), MY(), MVersion(5 - versionOf(pol)), MNonCanon()}
		_ = proto
		pos := c.R.Intn(len(script))
		mi := c.R.Intn(len(muts))
		rej := scriptOp{kind: "reject", a: 1 + c.R.Intn(2), mut: mi}
		full := append(append(append([]scriptOp{}, script[:pos]...), rej), script[pos:]...)
		s1, pols, rejIdx := runScript(c, seed, pol, full, true, muts)
		s2, _, _ := runScript(c, seed, pol, full, false, muts)
		c.Count("reject:" + muts[mi].Kind)
		if rejIdx >= 0 {
			// is it really a rejected message? (no plaintext, nothing to send but an optional error reply)
			ro := coqStr(s1.obs[rejIdx])
			rejected := contains(ro, "VL [(VNone)") && !contains(ro, "(VL [(VN 3)") && !contains(ro, "(VL [(VN 4)")
			var o1, o2 []string
			for k := range s1.obs {
				if k != rejIdx {
					o1 = append(o1, coqStr(s1.obs[k]))
				}
			}
			for k := range s2.obs {
				o2 = append(o2, coqStr(s2.obs[k]))
			}
			if rejected {
				c.Count("rejected:yes")
				if len(o1) != len(o2) {
					c.Violate("continuation-differs", muts[mi].Kind, fmt.Sprintf("runs have %d vs %d steps", len(o1), len(o2)), map[string]interface{}{"with": s1.trace, "without": s2.trace})
				} else {
					for k := range o1 {
						if o1[k] != o2[k] {
							c.Violate("continuation-differs", muts[mi].Kind, fmt.Sprintf("step %d differs: %s", k, s2.trace[k]), map[string]interface{}{"with": s1.trace, "without": s2.trace})
							break
						}
					}
				}
			} else {
				c.Count("rejected:no(accepted-variant)")
			}
		}
		c.AddScenario(s1, pols)
		if i == 0 {
			c.Sample(s1.trace[:min2(12, len(s1.trace))])
		}
	}
}

func versionOf(pol int) int {
	if pol&polV3 != 0 {
		return 3
	}
	return 2
}

func contains(s, sub string) bool {
	return len(sub) <= len(s) && (func() bool { return indexOf(s, sub) >= 0 })()
}
func indexOf(s, sub string) int {
	for i := 0; i+len(sub) <= len(s); i++ {
		if s[i:i+len(sub)] == sub {
			return i
		}
	}
	return -1
}
