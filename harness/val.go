package main

import (
	"fmt"
	"math/big"
	"strings"
)

// Val mirrors coq/Corr/Val.v.
type Val interface{ Coq(sb *strings.Builder) }

type VN struct{ N *big.Int }
type VB []byte
type VL []Val
type VNone struct{}
type VErr int
type VPanic struct{}

func N(i int) Val        { return VN{big.NewInt(int64(i))} }
func NU(i uint64) Val    { return VN{new(big.Int).SetUint64(i)} }
func NB(i *big.Int) Val  { return VN{new(big.Int).Set(i)} }
func B(b []byte) Val     { return VB(append([]byte{}, b...)) }
func L(vs ...Val) Val    { return VL(vs) }
func Bool(b bool) Val {
	if b {
		return N(1)
	}
	return N(0)
}

func (v VN) Coq(sb *strings.Builder) { fmt.Fprintf(sb, "VN %s", v.N.String()) }
func (v VB) Coq(sb *strings.Builder) {
	sb.WriteString("VB [")
	for i, x := range v {
		if i > 0 {
			sb.WriteByte(';')
		}
		fmt.Fprintf(sb, "%d", x)
	}
	sb.WriteString("]")
}
func (v VL) Coq(sb *strings.Builder) {
	sb.WriteString("VL [")
	for i, x := range v {
		if i > 0 {
			sb.WriteByte(';')
		}
		sb.WriteByte('(')
		x.Coq(sb)
		sb.WriteByte(')')
	}
	sb.WriteString("]")
}
func (VNone) Coq(sb *strings.Builder)  { sb.WriteString("VNone") }
func (v VErr) Coq(sb *strings.Builder) { fmt.Fprintf(sb, "VErr %d", int(v)) }
func (VPanic) Coq(sb *strings.Builder) { sb.WriteString("VPanic") }

func coqStr(v Val) string {
	var sb strings.Builder
	v.Coq(&sb)
	return sb.String()
}

// Case is one function-level correspondence case.
type Case struct {
	Fn   int
	Name string
	Args []Val
	Out  Val
}

// guard runs f and maps a panic to VPanic.
func guard(f func() Val) (out Val) {
	defer func() {
		if r := recover(); r != nil {
			out = VPanic{}
		}
	}()
	return f()
}
