package main

import (
	"fmt"
	"math/big"
	"strings"
)

// Val mirrors coq/Corr/Val.v.
type Val interface{ Coq(sb *strings.Builder) }

type VN struct{ N *big.Int }
type VB []byte
type VL []Val
type VNone struct{}
type VErr int
type VPanic struct{}

func N(i int) Val       { return VN{big.NewInt(int64(i))} }
func NU(i uint64) Val   { return VN{new(big.Int).SetUint64(i)} }
func NB(i *big.Int) Val { return VN{new(big.Int).Set(i)} }
func B(b []byte) Val    { return VB(append([]byte{}, b...)) }
func L(vs ...Val) Val   { return VL(vs) }
func Bool(b bool) Val {
	if b {
		return N(1)
	}
	return N(0)
}

func (v VN) Coq(sb *strings.Builder) {
	// a decimal numeral of hundreds of digits takes Coq a noticeable fraction of a second to read: large numbers
	// are written as their big-endian bytes and converted by Corr.Val.nb
	if v.N.BitLen() <= 128 {
		fmt.Fprintf(sb, "VN %s", v.N.String())
		return
	}
	sb.WriteString("VN (nb [")
	for i, b := range v.N.Bytes() {
		if i > 0 {
			sb.WriteByte(';')
		}
		fmt.Fprintf(sb, "%d", b)
	}
	sb.WriteString("])")
}
func (v VB) Coq(sb *strings.Builder) {
	// a list literal of tens of thousands of numerals takes Coq minutes to parse (and overflows its stack): long
	// runs of the test pattern x, x%7+1, ... are written as (patb len first), literal pieces in chunks
	lit := func(b []byte) {
		sb.WriteString("[")
		for i, x := range b {
			if i > 0 {
				sb.WriteByte(';')
			}
			fmt.Fprintf(sb, "%d", x)
		}
		sb.WriteString("]")
	}
	sb.WriteString("VB ")
	if len(v) <= 1500 {
		lit(v)
		return
	}
	var segs []string
	flush := func(b []byte) {
		for len(b) > 0 {
			n := len(b)
			if n > 1500 {
				n = 1500
			}
			var t strings.Builder
			old := sb
			sb = &t
			lit(b[:n])
			sb = old
			segs = append(segs, t.String())
			b = b[n:]
		}
	}
	start := 0
	for i := 0; i < len(v); {
		j := i
		for j+1 < len(v) && v[j] >= 1 && v[j] <= 7 && v[j+1] == v[j]%7+1 {
			j++
		}
		if j-i+1 >= 200 {
			flush(v[start:i])
			segs = append(segs, fmt.Sprintf("(patb (N.to_nat %d) %d)", j-i+1, v[i]))
			i = j + 1
			start = i
		} else {
			i = j + 1
		}
	}
	flush(v[start:])
	for i, sg := range segs {
		if i < len(segs)-1 {
			sb.WriteString("(app " + sg + " ")
		} else {
			sb.WriteString(sg)
		}
	}
	sb.WriteString(strings.Repeat(")", len(segs)-1))
}
func (v VL) Coq(sb *strings.Builder) {
	sb.WriteString("VL [")
	for i, x := range v {
		if i > 0 {
			sb.WriteByte(';')
		}
		sb.WriteByte('(')
		x.Coq(sb)
		sb.WriteByte(')')
	}
	sb.WriteString("]")
}
func (VNone) Coq(sb *strings.Builder)  { sb.WriteString("VNone") }
func (v VErr) Coq(sb *strings.Builder) { fmt.Fprintf(sb, "VErr %d", int(v)) }
func (VPanic) Coq(sb *strings.Builder) { sb.WriteString("VPanic") }

func coqStr(v Val) string {
	var sb strings.Builder
	v.Coq(&sb)
	return sb.String()
}

// Case is one function-level correspondence case.
type Case struct {
	Fn   int
	Name string
	Args []Val
	Out  Val
}

// guard runs f and maps a panic to VPanic.
func guard(f func() Val) (out Val) {
	watch("a guarded library call (see the last recorded case)")
	defer watch("")
	defer func() {
		if r := recover(); r != nil {
			out = VPanic{}
		}
	}()
	return f()
}
