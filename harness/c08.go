package main

import (
	"bytes"
	"fmt"
	"math/big"
	"sort"
	"strings"
	"unsafe"

	otr3 "github.com/coyim/otr3"
)

func init() { generators["C08"] = genC08 }

// ---- what a party's conversation still holds ----
type holdings struct {
	exps                 []int    // indices (into the party's draws) of DH private exponents found in the graph
	rs                   []int    // AKE commitment keys r
	smps                 []int    // SMP exponents
	derived              []string // names of derived secrets found (session keys, AKE keys)
	texts                []string // texts given to Send that are found, in the order they were given
	dropped              []string // sites of buffers that held a secret, are no longer reachable and were not zeroed
	smpNonNil, akeNonNil bool
	where                map[string][]string
}

type secretBook struct {
	derivedCache map[string]map[string][]byte
	pubCache     map[string][]byte
}

func (b *secretBook) derivedFor(x []byte, y []byte) map[string][]byte {
	if b.derivedCache == nil {
		b.derivedCache = map[string]map[string][]byte{}
	}
	k := string(x) + "|" + string(y)
	if d, ok := b.derivedCache[k]; ok {
		return d
	}
	xi, yi := new(big.Int).SetBytes(x), new(big.Int).SetBytes(y)
	gx := new(big.Int).Exp(big.NewInt(2), xi, groupP)
	gy := new(big.Int).Exp(big.NewInt(2), yi, groupP)
	sk := refSessionKeysFor(x, gx, gy)
	s := new(big.Int).Exp(gy, xi, groupP)
	ak := refAKEKeysFor(s)
	d := map[string][]byte{"sendAES": sk.sendAES, "recvAES": sk.recvAES, "sendMAC": sk.sendMAC, "recvMAC": sk.recvMAC, "extraKey": sk.extra,
		"ake.c": ak.c, "ake.c'": ak.cp, "ake.m1": ak.m1, "ake.m2": ak.m2, "ake.m1'": ak.m1p, "ake.m2'": ak.m2p, "dh-shared-secret": s.Bytes()}
	b.derivedCache[k] = d
	return d
}

func allExps(p *Party) [][]byte { return lastExps(p, 1<<30) }

// publicFor: the bytes of g^y (cached)
func (b *secretBook) publicFor(y []byte) []byte {
	if b.pubCache == nil {
		b.pubCache = map[string][]byte{}
	}
	if v, ok := b.pubCache[string(y)]; ok {
		return v
	}
	v := new(big.Int).Exp(big.NewInt(2), new(big.Int).SetBytes(y), groupP).Bytes()
	b.pubCache[string(y)] = v
	return v
}

func lastExps(p *Party, n int) [][]byte {
	var out [][]byte
	for i := len(p.rnd.draws) - 1; i >= 0 && len(out) < n; i-- {
		if len(p.rnd.draws[i].val) == 40 {
			out = append(out, p.rnd.draws[i].val)
		}
	}
	return out
}

func (s *Sys) holdingsOf(who int, book *secretBook) holdings {
	p := s.ps[who]
	sc := scanGraph(p.c)
	h := holdings{where: map[string][]string{}}
	// copies: every place that held a secret at the previous scan and is no longer part of the conversation must
	// have been zeroed (this follows copies made by the library itself, not only the buffers the random source filled)
	for _, hs := range p.held {
		if hs.reg.ptr == 0 || sc.holds(hs.reg.ptr) {
			continue
		}
		if t := bytes.TrimLeft(hs.secret, "\x00"); bytes.Contains(hs.reg.current(), t) {
			where := hs.reg.path
			if strings.HasPrefix(where, ".smp.") {
				where = ".smp" // one finding for the whole SMP state, whichever exponent is looked at
			}
			d := hs.what + "@" + where
			dup := false
			for _, x := range h.dropped {
				dup = dup || x == d
			}
			if !dup {
				h.dropped = append(h.dropped, d)
			}
		}
	}
	p.held = nil
	hold := func(what string, secret []byte) {
		for _, r := range sc.findRegions(secret) {
			if what == "r" && strings.HasSuffix(r.path, "revealSigMsg") {
				continue // the Reveal Signature message that was sent: r is public from then on
			}
			p.held = append(p.held, heldSecret{r, secret, what})
		}
	}
	seenVal := map[string]bool{}
	seenPtr := map[uintptr]bool{}
	for i, d := range p.rnd.draws {
		if len(d.val) < 16 || allZero(d.val) || strings.Contains(d.site, "Sign") {
			continue // instance tags; nonces drawn inside crypto/dsa (the standard library's buffers)
		}
		kind := "r"
		switch {
		case len(d.val) == 40:
			kind = "exp"
		case d.site == "smp":
			kind = "smp"
		}
		if !seenVal[string(d.val)] {
			seenVal[string(d.val)] = true
			if paths := sc.find(d.val); len(paths) > 0 {
				hold(kind, d.val)
				h.where[fmt.Sprintf("%s#%d", kind, i)] = paths
				switch kind {
				case "exp":
					h.exps = append(h.exps, i)
				case "smp":
					h.smps = append(h.smps, i)
				default:
					h.rs = append(h.rs, i)
				}
			}
		}
		ap := uintptr(unsafe.Pointer(&d.alias[0]))
		if !seenPtr[ap] {
			seenPtr[ap] = true
			if !allZero(d.alias) && !sc.reachable(ap) {
				h.dropped = append(h.dropped, kind+"@"+d.site)
			}
		}
	}
	// derived secrets of the most recent generations
	for _, q := range s.ps[1:] {
		if q == p {
			continue
		}
		// candidate pairs: our recent exponents x the peer's recent ones and, however old, every exponent of the peer
		// whose public value is still somewhere in this conversation (a long flood of stale key-exchange messages can
		// leave keys derived from a peer value of many generations ago)
		ys := lastExps(q, 5)
		for _, y := range allExps(q) {
			known := false
			for _, y0 := range ys {
				known = known || bytes.Equal(y0, y)
			}
			if !known && len(sc.find(book.publicFor(y))) > 0 {
				ys = append(ys, y)
			}
		}
		xs := lastExps(p, 5)
		for _, i := range h.exps { // and every exponent of ours that is still held
			known := false
			for _, x0 := range xs {
				known = known || bytes.Equal(x0, p.rnd.draws[i].val)
			}
			if !known {
				xs = append(xs, p.rnd.draws[i].val)
			}
		}
		for _, x := range xs {
			for _, y := range ys {
				for name, v := range book.derivedFor(x, y) {
					if paths := sc.find(v); len(paths) > 0 {
						h.derived = append(h.derived, name)
						h.where[name] = paths
						if !strings.HasSuffix(name, "MAC") { // MAC keys are published once retired
							hold(name, v)
						}
					}
				}
			}
		}
	}
	sort.Strings(h.derived)
	for _, t := range p.texts {
		if len(t) >= 8 && len(sc.find(t)) > 0 {
			h.texts = append(h.texts, string(t))
		}
	}
	h.smpNonNil = sc.has(".smp.secret") || sc.has(".smp.s1") || sc.has(".smp.s2") || sc.has(".smp.s3")
	h.akeNonNil = sc.has(".ake")
	return h
}

func hasPrefixAny(xs []string, pre string) bool {
	for _, x := range xs {
		if strings.HasPrefix(x, pre) {
			return true
		}
	}
	return false
}

// Probe: record, as a step of the scenario, which secrets party who still holds; and judge it against the
// property directly.
func (s *Sys) Probe(c *Ctx, who int, book *secretBook) holdings {
	h := s.holdingsOf(who, book)
	p := s.ps[who]
	texts := make([]Val, len(h.texts))
	for i, t := range h.texts {
		texts[i] = B([]byte(t))
	}
	b2n := func(b bool) Val {
		if b {
			return N(1)
		}
		return N(0)
	}
	s.ops = append(s.ops, fmt.Sprintf("OProbe %d", who))
	s.obs = append(s.obs, L(N(len(h.exps)), b2n(len(h.rs) > 0), b2n(hasPrefixAny(h.derived, "ake.")), b2n(h.smpNonNil || len(h.smps) > 0), VL(texts)))
	s.trace = append(s.trace, fmt.Sprintf("Probe(%d) -> exps=%v r=%v smp=%v derived=%v texts=%q dropped=%v", who, h.exps, h.rs, h.smps, h.derived, h.texts, h.dropped))
	s.calls = append(s.calls, callRec{who: who, human: "probe"})

	st := otr3.VerifSnapshot(p.c)
	state := []string{"plaintext", "encrypted", "finished"}[st.MsgState]
	ctx := func() map[string]interface{} {
		return map[string]interface{}{"party": who, "state": state, "ake_in_progress": st.AKEState != 0, "found_at": h.where,
			"history": s.trace[max2(0, len(s.trace)-14):]}
	}
	for _, d := range h.dropped {
		c.Violate("dropped-unwiped", d, "a buffer that received a secret from the random source is no longer reachable from the conversation but was not zeroed", ctx())
	}
	limit := 2
	if st.AKEState != 0 {
		limit = 3
	}
	if len(h.exps) > limit {
		c.Violate("old-dh-private-key-retained", fmt.Sprintf("state=%s,ake=%v", state, st.AKEState != 0), fmt.Sprintf("%d DH private exponents are reachable (allowed: current, previous and the one of a key exchange in progress)", len(h.exps)), ctx())
	}
	if st.AKEState == 0 {
		if len(h.rs) > 0 {
			c.Violate("ake-ephemeral-retained", "r,state="+state, "the AKE commitment key r is still reachable although no key exchange is in progress", ctx())
		}
		if hasPrefixAny(h.derived, "ake.") {
			c.Violate("ake-ephemeral-retained", "ake-keys,state="+state, "keys derived for the key exchange (c, m1, m2, ...) are still reachable although no key exchange is in progress", ctx())
		}
	}
	if strings.HasPrefix(s.lastOp[who], "End(") {
		if len(h.exps) > 0 || len(h.rs) > 0 || len(h.smps) > 0 || len(h.derived) > 0 || h.smpNonNil || h.akeNonNil {
			c.Violate("secret-survives-End", "state="+state, fmt.Sprintf("right after End(): exps=%v r=%v smp=%v derived=%v ake-context=%v", h.exps, h.rs, len(h.smps) > 0 || h.smpNonNil, h.derived, h.akeNonNil), ctx())
		}
	}
	// sent text: only the most recent message may be kept once it has been transmitted
	if len(p.texts) > 0 {
		latest := ""
		for i := len(p.texts) - 1; i >= 0 && latest == ""; i-- {
			if !s.refused[string(p.texts[i])] {
				latest = string(p.texts[i])
			}
		}
		for _, t := range h.texts {
			if t != latest && s.sentEnc[t] {
				c.Violate("old-text-retained", "state="+state, fmt.Sprintf("text %q was transmitted earlier and is not the most recent message, but is still reachable", t), ctx())
			}
		}
	}
	if st.MsgState != 1 && st.AKEState == 0 {
		if len(h.exps) > 0 || len(h.smps) > 0 || len(h.derived) > 0 || h.smpNonNil {
			c.Violate("session-secret-survives-teardown", "state="+state, fmt.Sprintf("not encrypted and no key exchange in progress, but still reachable: exps=%v smp=%v derived=%v", h.exps, len(h.smps) > 0 || h.smpNonNil, h.derived), ctx())
		}
	}
	return h
}

func max2(a, b int) int {
	if a > b {
		return a
	}
	return b
}

func (s *Sys) keepSecrets() {
	for _, p := range s.ps[1:] {
		p.rnd.keep = true
	}
}

// one history: sessions, rotations, refresh AKE, abandoned AKE, SMP, End, peer disconnect, queued texts,
// error messages; both parties probed after every call
func c08History(c *Ctx, steps int) *Sys {
	pa, pb := c.pickVersionPolicy(), 0
	pb = pa
	if c.R.Chance(1, 3) {
		pa |= polRequire
	}
	if c.R.Chance(1, 4) {
		pb |= polErrStart
	}
	pols := []int{pa, pb}
	s := newSys(pols, c.R.U64())
	s.keepSecrets()
	book := &secretBook{}
	tn := 0
	probe := func() {
		s.Probe(c, 1, book)
		s.Probe(c, 2, book)
	}
	if c.R.Chance(3, 4) {
		func() { a := 1 + c.R.Intn(2); s.Handshake(a, 3-a) }()
		probe()
	}
	for k := 0; k < steps; k++ {
		a := 1 + c.R.Intn(2)
		b := 3 - a
		switch x := c.R.Intn(24); {
		case x < 6:
			tn++
			s.Send(a, []byte(fmt.Sprintf("text-%d-%x", tn, c.R.Bytes(6))))
			c.Count("op:send")
		case x < 14:
			if idx := s.next(a); idx >= 0 {
				s.Deliver(a, idx, b, MNone)
				c.Count("op:deliver")
			}
		case x < 16:
			s.Query(a, b) // starts a (refresh) key exchange; often left unfinished for a while
			c.Count("op:query")
		case x < 18:
			s.End(a)
			c.Count("op:end")
		case x < 19:
			s.Inject(a, []byte("?OTR Error: oops"), fmt.Sprintf("WError %s", coqBytes([]byte("oops"))))
			c.Count("op:error-message")
		case x < 21:
			if s.ps[a].c.IsEncrypted() && pa&polV3 != 0 && pa&polV2 == 0 {
				switch c.R.Intn(3) {
				case 0:
					s.StartSMP(a, "", []byte("sec"))
				case 1:
					s.ProvideSMP(a, []byte("sec"))
				default:
					s.AbortSMP(a)
				}
				c.Count("op:smp")
			}
		case x < 22 && c.R.Chance(1, 2):
			// the peer reports an error, then the user writes again
			s.Inject(a, []byte("?OTR Error: oops"), fmt.Sprintf("WError %s", coqBytes([]byte("oops"))))
			probe()
			tn++
			s.Send(a, []byte(fmt.Sprintf("text-%d-%x", tn, c.R.Bytes(6))))
			c.Count("op:error-then-send")
		case x < 22:
			// lose what is in flight (an abandoned exchange stays abandoned)
			s.dropFrom(a, s.ps[a].pending)
			c.Count("op:drop-in-flight")
		default:
			s.tick(70)
			c.Count("op:tick")
		}
		probe()
	}
	s.Pump(1, 2, 40)
	probe()
	s.End(1)
	probe()
	s.Pump(1, 2, 10)
	probe()
	s.End(2)
	probe()
	c.AddScenario(s, pols)
	return s
}

func genC08(c *Ctx) {
	c.Rep.Rule = "histories of sends, deliveries, (refresh) key exchanges left unfinished or completed, losses, End, peer disconnect, SMP, error messages and clock ticks; after every call the object graph reachable from each *Conversation (pointers, slices and big.Int limb arrays to their full capacity, maps, interfaces) is searched for every value the party's random source handed out, for the session and AKE keys an independent derivation gives for the recent exponents, and for every text given to Send; the projection (number of DH private keys, r, AKE keys, SMP state, retained texts) is compared with the Coq machine as a scenario step; oracles: at most current+previous(+exchange in progress) private keys, no AKE ephemerals without an exchange in progress, nothing at all when not encrypted and no exchange in progress, every buffer that received a secret is zeroed once it is unreachable"
	{ // corpus: the recorded known finding (SMP exponents dropped without zeroing) runs first
		pols := []int{polV3, polV3}
		s := newSys(pols, 777)
		s.keepSecrets()
		book := &secretBook{}
		if s.Handshake(1, 2) {
			s.StartSMP(1, "", []byte("corpus"))
			s.Probe(c, 1, book)
			s.Pump(1, 2, 2)
			s.Probe(c, 2, book)
			s.End(1)
			s.Probe(c, 1, book)
			s.Pump(1, 2, 4)
			s.Probe(c, 2, book)
			c.AddScenario(s, pols)
		}
	}
	// directed: the peer's disconnect (or our own End) arrives at every point of a refresh exchange of an established
	// session, in both roles: whatever the exchange context holds at that moment must be erased, not just dropped
	for _, pol := range []int{polV3, polV2} {
		for starter := 1; starter <= 2; starter++ {
			for cut := 0; cut <= 4; cut++ {
				for mode := 0; mode < 4; mode++ {
					local := mode == 1
					pols := []int{pol, pol}
					s := newSys(pols, c.R.U64())
					s.keepSecrets()
					book := &secretBook{}
					if !s.Handshake(1, 2) {
						continue
					}
					s.Send(1, []byte("directed-text-one"))
					s.Pump(1, 2, 6)
					s.Probe(c, 1, book)
					s.Probe(c, 2, book)
					s.tick(200)
					other := 3 - starter
					s.Query(other, starter) // starter receives the query and sends its D-H Commit
					from, to := starter, other
					for k := 0; k < cut; k++ { // the exchange runs for [cut] messages
						idx := s.next(from)
						if idx < 0 {
							break
						}
						s.Deliver(from, idx, to, MNone)
						s.Probe(c, 1, book)
						s.Probe(c, 2, book)
						from, to = to, from
					}
					switch {
					case mode >= 2:
						// the exchange is abandoned for a new one: a further query arrives (at the side that started this
						// one, or at the other) after the waiting time; what the abandoned exchange held must be erased
						s.tick(200)
						if mode == 2 {
							s.Query(other, starter)
						} else {
							s.Query(starter, other)
						}
						c.Count("query-inside-refresh-exchange")
					case local:
						s.End(1) // our own End in the middle of the exchange
					default:
						s.End(2) // the peer ends: its disconnect travels behind whatever it has already sent
					}
					s.Probe(c, 1, book)
					s.Probe(c, 2, book)
					s.Pump(1, 2, 12)
					s.Probe(c, 1, book)
					s.Probe(c, 2, book)
					c.Count("end-inside-refresh-exchange")
					c.AddScenario(s, pols)
				}
			}
		}
	}
	n, steps := 30, 40
	if c.Thorough() {
		n, steps = 300, 90
	}
	for i := 0; i < n; i++ {
		s := c08History(c, steps)
		c.Rep.Evaluations += len(s.ops)
		if i == 0 {
			c.Sample(map[string]interface{}{"history_tail": s.trace[max2(0, len(s.trace)-8):]})
		}
	}
}
