package main

import (
	"bytes"
	"fmt"
	"runtime"
	"sort"
	"strings"
	"sync"

	otr3 "github.com/coyim/otr3"
)

func init() { generators["C20"] = genC20 }

// one independent pair of conversations, driven by its own PRNG: plaintext with whitespace tags, key exchange,
// traffic (fragmented for some), error messages, SMP, extra key, teardown. Returns the system; its trace,
// outputs and observations are the transcript.
func c20Script(i int, seed uint64) (*Sys, []int) {
	r := NewRNG(seed*7919 + uint64(i))
	variants := [][]int{
		{polV2 | polSendWS, polV2 | polWSStart},
		{polV3 | polSendWS, polV3 | polWSStart},
		{polV2 | polV3 | polSendWS, polV2 | polV3 | polWSStart},
		{polV3 | polRequire, polV3 | polErrStart},
		{polV2 | polV3, polV2},
		{polV3, polV2 | polV3},
		{polV2 | polSendWS | polRequire, polV2 | polV3 | polWSStart | polErrStart},
		{polV3 | polSendWS, polV2 | polV3},
	}
	pols := variants[i%len(variants)]
	s := newSys(pols, seed*131+uint64(i))
	// plaintext phase: tagged texts (the whitespace tag is built from a package-level prefix)
	for k := 0; k < 3; k++ {
		s.Send(1, []byte(fmt.Sprintf("hello %d from pair %d", k, i)))
	}
	s.Pump(1, 2, 30)
	if !(s.ps[1].c.IsEncrypted() && s.ps[2].c.IsEncrypted()) {
		s.Handshake(2, 1)
	}
	if i%3 == 1 {
		s.SetFragmentSize(1, 60+r.Intn(80))
	}
	smpDone := false
	for k := 0; k < 24; k++ {
		a := 1 + r.Intn(2)
		b := 3 - a
		switch x := r.Intn(20); {
		case x < 7:
			s.Send(a, []byte(fmt.Sprintf("pair %d text %d %x", i, k, r.Bytes(6))))
		case x < 13:
			if idx := s.next(a); idx >= 0 {
				s.Deliver(a, idx, b, MNone)
			}
		case x < 14:
			s.Inject(a, []byte("?OTR Error: oops"), fmt.Sprintf("WError %s", coqBytes([]byte("oops"))))
		case x < 15:
			// an undecodable message makes the receiver answer with an error message (package-level prefix)
			s.Inject(a, []byte("?OTR:AAMD*not*base64*."), "WUndecodable")
		case x < 17:
			if !smpDone && s.ps[1].c.IsEncrypted() && s.ps[2].c.IsEncrypted() {
				smpDone = true
				s.Pump(1, 2, 30)
				sec := []byte(fmt.Sprintf("secret-%d", i))
				s.StartSMP(a, "", sec)
				s.Pump(1, 2, 4)
				s.ProvideSMP(b, sec)
				s.Pump(1, 2, 30)
			}
		case x < 18:
			if s.ps[a].c.IsEncrypted() {
				s.ExtraKey(a, 7, []byte("use"))
			}
		case x < 19:
			s.Query(a, b)
		default:
			s.tick(70)
		}
	}
	s.Pump(1, 2, 60)
	s.End(1)
	s.Pump(1, 2, 10)
	s.Send(2, []byte("after the end"))
	s.End(2)
	return s, pols
}

func c20Transcript(s *Sys) string {
	var sb strings.Builder
	for i, t := range s.trace {
		fmt.Fprintf(&sb, "%d %s => %s\n", i, t, coqStr(s.obs[i]))
	}
	for w := 1; w < len(s.ps); w++ {
		for _, o := range s.ps[w].outs {
			// DSA signing in the standard library consumes a random byte or not at random (randutil.MaybeReadByte), so
			// ciphertext bytes are not reproducible from run to run even alone: compare kind and type of encoded messages, every byte of the others
			pw := parseWire(o)
			if pw.kind == 3 || pw.kind == 4 { // lengths of MPIs depend on the random values
				fmt.Fprintf(&sb, "%d> kind=%d ver=%d type=%d\n", w, pw.kind, pw.ver, pw.typ)
			} else {
				fmt.Fprintf(&sb, "%d> %q\n", w, o)
			}
		}
		for _, o := range s.ps[w].plains {
			fmt.Fprintf(&sb, "%d< %q\n", w, o)
		}
		fmt.Fprintf(&sb, "%d! %v\n", w, s.ps[w].events)
	}
	return sb.String()
}

// small calls that go through every package-level append prefix, in a tight loop
func c20Hot(i, rounds int) []string {
	pol := []int{polV2 | polSendWS, polV3 | polSendWS, polV2 | polV3 | polSendWS}[i%3]
	c := &otr3.Conversation{}
	otr3.VerifSetPolicies(c, pol)
	c.Rand = NewRNG(uint64(i) + 99)
	c.SetOurKeys([]otr3.PrivateKey{partyKeys[1+i%4]})
	var out []string
	text := []byte(fmt.Sprintf("hot %d", i))
	for k := 0; k < rounds; k++ {
		ms, _ := c.Send(text) // plaintext + whitespace tag (sent once per conversation state, so re-arm below)
		for _, m := range ms {
			out = append(out, string(m))
		}
		out = append(out, string(otr3.VerifGenWhitespaceTag(pol)))
		out = append(out, string(otr3.VerifEncode(text)))
		out = append(out, string(partyKeys[1+i%4].PublicKey().Fingerprint()))
		out = append(out, string(otr3.VerifQueryMessage(pol, "")))
		for _, f := range otr3.VerifFragment(2+i%2, uint32(0x100+i), uint32(0x200+i), bytes.Repeat(text, 9), uint16(40+i)) {
			out = append(out, string(f))
		}
		// an undecodable message: the reply is built from the package-level error prefix
		_, ms, _ = c.Receive([]byte("?OTR:AAMD*not*base64*."))
		for _, m := range ms {
			out = append(out, string(m))
		}
	}
	return out
}

func genC20(c *Ctx) {
	c.Rep.Rule = "package-level slices used as append prefixes have len = cap in the running program (hook); N independent scripted pairs (whitespace tags, AKE, traffic, fragments, error replies, SMP, extra key, End; eight policy variants) are run alone and then all at once on N goroutines: transcripts (every output byte, plaintext, event and state projection) must be identical, the package-level values unchanged, and the concurrently run histories are also replayed on the Coq machine; tight loops through every append-prefix site with differing policies on all cores; the binary is built with the race detector and any report is a violation"
	// ---- capacities ----
	caps := otr3.VerifGlobalSlices()
	names := make([]string, 0, len(caps))
	for n := range caps {
		names = append(names, n)
	}
	sort.Strings(names)
	for _, n := range names {
		lc := caps[n]
		c.Count(fmt.Sprintf("global-slice:len=cap:%v", lc[0] == lc[1]))
		if lc[0] != lc[1] {
			c.Violate("global-slice-spare-capacity", n, fmt.Sprintf("package-level slice %s has len %d cap %d: append(%s, ...) writes shared memory", n, lc[0], lc[1], n), map[string]int{"len": lc[0], "cap": lc[1]})
		}
	}
	c.Rep.Evaluations += len(names)
	before := otr3.VerifGlobalSnapshot()

	n, rounds, hot := 8, 2, 150
	if c.Thorough() {
		n, rounds, hot = 16, 10, 1500
	}
	seed := c.R.U64() % 100000
	// ---- alone ----
	alone := make([]string, n)
	for i := 0; i < n; i++ {
		s, _ := c20Script(i, seed)
		alone[i] = c20Transcript(s)
	}
	hotAlone := make([][]string, n)
	for i := 0; i < n; i++ {
		hotAlone[i] = c20Hot(i, hot)
	}
	runtime.GOMAXPROCS(runtime.NumCPU())
	// ---- all at once ----
	for rd := 0; rd < rounds; rd++ {
		got := make([]string, n)
		syss := make([]*Sys, n)
		polss := make([][]int, n)
		hotGot := make([][]string, n)
		var wg sync.WaitGroup
		start := make(chan struct{})
		for i := 0; i < n; i++ {
			wg.Add(2)
			go func(i int) {
				defer wg.Done()
				<-start
				s, pols := c20Script(i, seed)
				syss[i], polss[i] = s, pols
				got[i] = c20Transcript(s)
			}(i)
			go func(i int) {
				defer wg.Done()
				<-start
				hotGot[i] = c20Hot(i, hot)
			}(i)
		}
		close(start)
		wg.Wait()
		for i := 0; i < n; i++ {
			c.Rep.Evaluations += 2
			c.Count("concurrent-pair")
			if got[i] != alone[i] {
				c.Violate("transcript-differs-under-concurrency", fmt.Sprintf("script=%d", i), "a pair run concurrently with others behaves differently from the same pair run alone", map[string]string{"first_difference": firstDiff(alone[i], got[i])})
			}
			if strings.Join(hotGot[i], "\x00") != strings.Join(hotAlone[i], "\x00") {
				c.Violate("output-differs-under-concurrency", fmt.Sprintf("hot=%d", i%3), "outputs built from package-level prefixes differ when other conversations run at the same time", map[string]string{"first_difference": firstDiff(strings.Join(hotAlone[i], "\n"), strings.Join(hotGot[i], "\n"))})
			}
			if rd == 0 && syss[i] != nil {
				c.AddScenario(syss[i], polss[i]) // the concurrently run history against the (sequential) Coq machine
			}
		}
	}
	if after := otr3.VerifGlobalSnapshot(); after != before {
		c.Violate("package-level-value-changed", "snapshot", "a package-level value differs after the run", map[string]string{"before": before, "after": after})
	}
	c.Sample(map[string]string{"script0_transcript_head": head(alone[0], 600)})
}

func head(s string, n int) string {
	if len(s) > n {
		return s[:n]
	}
	return s
}

func firstDiff(a, b string) string {
	la, lb := strings.Split(a, "\n"), strings.Split(b, "\n")
	for i := 0; i < len(la) && i < len(lb); i++ {
		if la[i] != lb[i] {
			return fmt.Sprintf("line %d: alone=%q concurrent=%q", i, head(la[i], 300), head(lb[i], 300))
		}
	}
	return fmt.Sprintf("lengths differ: %d vs %d lines", len(la), len(lb))
}
