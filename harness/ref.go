package main

import (
	"crypto/hmac"
	"crypto/sha1"
	"crypto/sha256"
	"encoding/base64"
	"encoding/binary"
	"fmt"
	"math/big"

	otr3 "github.com/coyim/otr3"
)

// Independent reference computations written from the OTR v2/v3 specification (not from the library):
// key derivation for data messages and for the AKE. Uses only math/big and crypto/sha*.

func refMPI(x *big.Int) []byte {
	b := x.Bytes()
	n := len(b)
	return append([]byte{byte(n >> 24), byte(n >> 16), byte(n >> 8), byte(n)}, b...)
}

type refSessionKeys struct {
	sendAES, recvAES, sendMAC, recvMAC, extra []byte
}

// refSessionKeysFor: "Computing AES keys, MAC keys, and the secure session id" / data exchange part of the spec
func refSessionKeysFor(ourPriv []byte, ourPub, theirPub *big.Int) refSessionKeys {
	s := new(big.Int).Exp(theirPub, new(big.Int).SetBytes(ourPriv), groupP)
	sec := refMPI(s)
	sendbyte, recvbyte := byte(0x02), byte(0x01)
	if ourPub.Cmp(theirPub) > 0 { // we are the "high" end
		sendbyte, recvbyte = 0x01, 0x02
	}
	h1 := func(b byte) []byte {
		h := sha1.New()
		h.Write([]byte{b})
		h.Write(sec)
		return h.Sum(nil)
	}
	var k refSessionKeys
	k.sendAES = h1(sendbyte)[:16]
	k.recvAES = h1(recvbyte)[:16]
	sm := sha1.Sum(k.sendAES)
	rm := sha1.Sum(k.recvAES)
	k.sendMAC, k.recvMAC = sm[:], rm[:]
	h2 := sha256.New()
	h2.Write([]byte{0xff})
	h2.Write(sec)
	k.extra = h2.Sum(nil)
	return k
}

// window: the receiving MAC keys of every key pair the conversation currently accepts, keyed by (ourID, theirID)
func refWindowRecvMACs(c *otr3.Conversation) map[[2]uint32][]byte {
	km := otr3.VerifKeys(c)
	out := map[[2]uint32][]byte{}
	type ours struct {
		id   uint32
		priv []byte
		pub  *big.Int
	}
	var os []ours
	if len(km.OurCurrentPriv) > 0 && km.OurCurrentPub != nil {
		os = append(os, ours{km.OurKeyID, km.OurCurrentPriv, km.OurCurrentPub})
	}
	if len(km.OurPreviousPriv) > 0 && km.OurPreviousPub != nil && km.OurKeyID > 0 {
		os = append(os, ours{km.OurKeyID - 1, km.OurPreviousPriv, km.OurPreviousPub})
	}
	type theirs struct {
		id  uint32
		pub *big.Int
	}
	var ts []theirs
	if km.TheirCurrentPub != nil && km.TheirCurrentPub.Sign() > 0 {
		ts = append(ts, theirs{km.TheirKeyID, km.TheirCurrentPub})
	}
	if km.TheirPreviousPub != nil && km.TheirPreviousPub.Sign() > 0 && km.TheirKeyID > 0 {
		ts = append(ts, theirs{km.TheirKeyID - 1, km.TheirPreviousPub})
	}
	for _, o := range os {
		for _, t := range ts {
			out[[2]uint32{o.id, t.id}] = refSessionKeysFor(o.priv, o.pub, t.pub).recvMAC
		}
	}
	return out
}

// ---- AKE key derivation (spec: "Computing AES keys, MAC keys, and the secure session id") ----
type refAKEKeys struct {
	ssid                    []byte
	c, cp, m1, m2, m1p, m2p []byte
}

func refAKEKeysFor(s *big.Int) refAKEKeys {
	sec := refMPI(s)
	h2 := func(b byte) []byte {
		h := sha256.New()
		h.Write([]byte{b})
		h.Write(sec)
		return h.Sum(nil)
	}
	var k refAKEKeys
	k.ssid = h2(0x00)[:8]
	cc := h2(0x01)
	k.c, k.cp = cc[:16], cc[16:]
	k.m1, k.m2, k.m1p, k.m2p = h2(0x02), h2(0x03), h2(0x04), h2(0x05)
	return k
}

// ---- the reference as a sender: a data message built from the sender's secrets alone, as the specification
// prescribes it (no padding, nothing disclosed); the sending conversation itself is not touched ----
func refBuildData(c *otr3.Conversation, flags byte, text []byte, tlvs []byte) (msg []byte, sk, rk uint32, ctr uint64, ok bool) {
	km := otr3.VerifKeys(c)
	st := otr3.VerifSnapshot(c)
	if km.OurKeyID == 0 || len(km.OurPreviousPriv) == 0 || km.OurPreviousPub == nil || km.TheirCurrentPub == nil || km.OurCurrentPub == nil {
		return nil, 0, 0, 0, false
	}
	sk, rk = km.OurKeyID-1, km.TheirKeyID
	ctr = otr3.VerifNextCounter(c)
	keys := refSessionKeysFor(km.OurPreviousPriv, km.OurPreviousPub, km.TheirCurrentPub)
	payload := append([]byte{}, text...)
	if len(tlvs) > 0 {
		payload = append(append(payload, 0), tlvs...)
	}
	ctr8 := make([]byte, 8)
	binary.BigEndian.PutUint64(ctr8, ctr)
	enc := refAESCTR(keys.sendAES, ctr8, payload)
	word := func(x uint32) []byte { b := make([]byte, 4); binary.BigEndian.PutUint32(b, x); return b }
	hdr := []byte{0, byte(st.Version), 3}
	if st.Version == 3 {
		hdr = append(append(hdr, word(st.OurTag)...), word(st.TheirTag)...)
	}
	body := []byte{flags}
	body = append(body, word(sk)...)
	body = append(body, word(rk)...)
	body = append(body, refMPI(km.OurCurrentPub)...)
	body = append(body, ctr8...)
	body = append(append(body, word(uint32(len(enc)))...), enc...)
	mac := hmac.New(sha1.New, keys.sendMAC)
	mac.Write(hdr)
	mac.Write(body)
	all := append(append(append([]byte{}, hdr...), body...), mac.Sum(nil)...)
	all = append(all, 0, 0, 0, 0)
	return []byte("?OTR:" + base64.StdEncoding.EncodeToString(all) + "."), sk, rk, ctr, true
}

// Forge: the reference sender acts for party from; the message is logged as one of from's outputs
func (s *Sys) Forge(from int, coqCall string, flags byte, text []byte, tlvs []byte) bool {
	p := s.ps[from]
	msg, sk, rk, ctr, ok := refBuildData(p.c, flags, text, tlvs)
	if !ok {
		return false
	}
	st := otr3.VerifSnapshot(p.c)
	p.outs = append(p.outs, msg)
	p.pieces = append(p.pieces, [][]byte{msg})
	s.ops = append(s.ops, fmt.Sprintf("OForge %d %d (%s)", from, s.now, coqCall))
	s.obs = append(s.obs, L(L(N(4), N(st.Version), N(int(flags)), NU(uint64(sk)), NU(uint64(rk)), NU(ctr))))
	s.trace = append(s.trace, fmt.Sprintf("Forge(%d, flags=%d, text=%q, tlvs=%x)", from, flags, text, tlvs))
	s.calls = append(s.calls, callRec{who: from, human: "probe"})
	return true
}
