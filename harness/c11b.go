package main

import (
	"bytes"
	"fmt"

	otr3 "github.com/coyim/otr3"
)

// smpRestarts: a user starts SMP again while a run is in progress - after k messages of the run have been delivered, on
// either side, with the same secret (the new run must then succeed on both sides), or with a request that fails (a question
// too long for a TLV, or the randomness source failing during the restart), after which the peer's messages still in
// flight are delivered (no panic) and a fresh honest run must succeed. The successful restarts are scenarios for the
// correspondence with the machine as well.
func smpRestarts(c *Ctx) {
	sec := []byte("same secret")
	huge := string(bytes.Repeat([]byte("q"), 70000))
	for _, pol := range []int{polV3, polV2} {
		for k := 0; k <= 3; k++ {
			for _, who := range []int{1, 2} {
				for variant := 0; variant < 3; variant++ {
					pols := []int{pol, pol}
					s := newSys(pols, c.R.U64())
					if !s.Handshake(1, 2) {
						continue
					}
					trig := fmt.Sprintf("v%d,after=%d,by=%d,variant=%d", versionOf(pol), k, who, variant)
					s.StartSMP(1, "", sec)
					from, to := 1, 2
					for st := 0; st < k; st++ {
						idx := s.next(from)
						if idx < 0 {
							break
						}
						s.Deliver(from, idx, to, MNone)
						if otr3.VerifSnapshot(s.ps[2].c).SMPState == 5 && k > 1 {
							s.ProvideSMP(2, sec)
						}
						from, to = to, from
					}
					start := len(s.calls)
					smpBefore := otr3.VerifSnapshot(s.ps[who].c).SMPState
					switch variant {
					case 0:
						s.StartSMP(who, "", sec)
					case 1:
						s.StartSMP(who, huge, sec)
					default:
						s.ps[who].rnd.fail = 1 + c.R.Intn(4)
						s.StartSMP(who, "", sec)
						s.ps[who].rnd.fail = 0
					}
					// a start that is refused (error returned, nothing sent) leaves the SMP machine where it was: otherwise the
					// next message of the peer meets a state the user knows nothing of
					if variant != 0 && len(s.calls) > start && s.calls[start].err && len(s.calls[start].outs) == 0 {
						if after := otr3.VerifSnapshot(s.ps[who].c).SMPState; after != smpBefore && !(smpBefore == 0 && after == 1) {
							c.Violate("smp-refused-start-moves-state", trig, fmt.Sprintf("StartAuthenticate returned an error and sent nothing, but the SMP state went from %d to %d", smpBefore, after), s.trace)
						}
					}
					s.Pump(1, 2, 12)
					other := 3 - who
					if otr3.VerifSnapshot(s.ps[other].c).SMPState == 5 {
						s.ProvideSMP(other, sec)
					}
					s.Pump(1, 2, 12)
					c.Count(fmt.Sprintf("smp-restart:variant=%d", variant))
					if s.panicked {
						c.Violate("panic", "smp-restart:"+trig, "panic after SMP was started again while a run was in progress", s.trace)
						continue
					}
					if variant == 0 {
						var ev1, ev2 []int
						for _, call := range s.calls[start:] {
							for _, e := range call.events {
								if e >= 200 && e < 300 {
									if call.who == who {
										ev1 = append(ev1, e-200)
									} else {
										ev2 = append(ev2, e-200)
									}
								}
							}
						}
						// only when nothing of the old run crosses the restart can the outcome be predicted: the initiator
						// starts again before the responder has answered (k = 0: message 1 still in flight, k = 1: the
						// responder is waiting for its user's secret)
						if who == 1 && k <= 1 && !(has(ev1, 6) && has(ev2, 6)) {
							c.Violate("smp-restart-fails", trig, fmt.Sprintf("SMP started again with equal secrets while a run was in progress did not succeed on both sides (events %v / %v)", ev1, ev2), s.trace)
						}
						c.AddScenario(s, pols)
					}
					// whatever happened, a fresh honest run works
					s.Pump(1, 2, 12)
					for w := 1; w <= 2; w++ {
						if st := otr3.VerifSnapshot(s.ps[w].c).SMPState; st != 1 && st != 0 {
							s.AbortSMP(w)
							s.Pump(1, 2, 6)
						}
					}
					evA, evB := smpRun(c, s, 1, 2, "", sec, sec)
					if s.panicked {
						c.Violate("panic", "smp-restart:"+trig, "panic in the run after a restart", s.trace)
					} else if !(has(evA, 6) && has(evB, 6)) {
						c.Violate("smp-wedged", trig, fmt.Sprintf("after the restart an honest run with equal secrets did not succeed (events %v / %v)", evA, evB), s.trace)
					}
					c.Rep.Evaluations++
				}
			}
		}
	}
}

// an abort TLV ends the receiver's run whatever its value looks like (libotr sends an empty value; others send an
// empty MPI list or more): the abort of the initiator is lost, a deviant one built by the reference sender arrives
// instead, then the initiator starts again with the same secret
func smpDeviantAborts(c *Ctx) {
	sec := []byte("same secret")
	values := [][]byte{{}, {0, 0, 0, 0}, {0, 0, 0, 1, 0, 0, 0, 1, 5}, {0, 0, 0, 2}, {0xff}}
	for _, pol := range []int{polV3, polV2} {
		for vi, val := range values {
			for k := 1; k <= 2; k++ {
				pols := []int{pol, pol}
				s := newSys(pols, c.R.U64())
				if !s.Handshake(1, 2) {
					continue
				}
				trig := fmt.Sprintf("v%d,value=%x,after=%d", versionOf(pol), val, k)
				s.StartSMP(1, "", sec)
				from, to := 1, 2
				for st := 0; st < k; st++ {
					idx := s.next(from)
					if idx < 0 {
						break
					}
					s.Deliver(from, idx, to, MNone)
					if otr3.VerifSnapshot(s.ps[2].c).SMPState == 5 && k > 1 {
						s.ProvideSMP(2, sec)
					}
					from, to = to, from
				}
				// what is in flight is lost, and so is the initiator's own abort
				s.dropFrom(1, s.ps[1].pending)
				s.dropFrom(2, s.ps[2].pending)
				lo := len(s.ps[1].outs)
				s.AbortSMP(1)
				s.dropFrom(1, lo)
				val := val
				s.record(1, fmt.Sprintf("OSendTLVs 1 %d [TSmp 6 {| sp_question := None; sp_vals := [] |}]", s.now), fmt.Sprintf("SendTLV(1, type 6, value %x)", val),
					func(p *Party) ([]byte, []otr3.ValidMessage, error) {
						o, e := otr3.VerifSendTLVs(p.c, []otr3.VerifTLV{{Type: 6, Length: uint16(len(val)), Value: val}})
						return nil, o, e
					})
				s.Pump(1, 2, 6)
				if st := otr3.VerifSnapshot(s.ps[2].c).SMPState; st != 1 && st != 0 {
					c.Violate("smp-wedged", trig, fmt.Sprintf("an abort TLV with value %x left the receiver's run in progress (state %d)", val, st), s.trace)
				}
				evA, evB := smpRun(c, s, 1, 2, "", sec, sec)
				if s.panicked {
					c.Violate("panic", "smp-deviant-abort:"+trig, "panic after an abort TLV with a deviant value", s.trace)
				} else if !(has(evA, 6) && has(evB, 6)) {
					c.Violate("smp-wedged", trig, fmt.Sprintf("after an abort TLV with value %x an honest run with equal secrets did not succeed (events %v / %v)", val, evA, evB), s.trace)
				}
				if vi < 2 {
					c.AddScenario(s, pols)
				}
				c.Count("smp-deviant-abort")
				c.Rep.Evaluations++
			}
		}
	}
}

// the user's key list changes while a session is up (a new key is added in front, the list is reordered): the secret
// stays bound to the key the session was authenticated with, so equal secrets still give success on both sides
func smpAfterKeyListChange(c *Ctx) {
	sec := []byte("same secret")
	for _, pol := range []int{polV3, polV2} {
		for who := 1; who <= 2; who++ {
			for variant := 0; variant < 2; variant++ {
				pols := []int{pol, pol}
				s := newSys(pols, c.R.U64())
				if !s.Handshake(1, 2) {
					continue
				}
				cur := partyKeys[who]
				switch variant {
				case 0:
					s.ps[who].c.SetOurKeys([]otr3.PrivateKey{partyKeys[3], cur})
				default:
					s.ps[who].c.SetOurKeys([]otr3.PrivateKey{partyKeys[4], partyKeys[3], cur})
				}
				trig := fmt.Sprintf("v%d,party=%d,variant=%d", versionOf(pol), who, variant)
				evA, evB := smpRun(c, s, 1, 2, "", sec, sec)
				c.Count("smp-after-key-list-change")
				c.Rep.Evaluations++
				if s.panicked {
					c.Violate("panic", "smp-key-list:"+trig, "panic in an SMP run after the key list changed", s.trace)
				} else if !(has(evA, 6) && has(evB, 6)) {
					c.Violate("honest-smp-failed", trig, fmt.Sprintf("after SetOurKeys put other keys in front of the session's key an honest run with equal secrets did not succeed (events %v / %v)", evA, evB), s.trace)
				}
			}
		}
	}
}

// records behind a disconnect record: the disconnect ends the session the data message belongs to (keys wiped, version
// forgotten), so whatever follows it in the same TLV list - an SMP message, an abort, an extra-key request - has no
// session to be processed in: nothing may crash, nothing of it may take effect, the receiver ends up finished, and a new
// session works.  The forms the machine can express (abort, extra key) are scenarios for the correspondence as well.
func tlvsBehindDisconnect(c *Ctx) {
	smp1 := []byte{0, 0, 0, 6}
	for i := 0; i < 6; i++ {
		smp1 = append(smp1, 0, 0, 0, 1, byte(2+i))
	}
	type form struct {
		name string
		coq  string // "" = oracle only
		tlvs []otr3.VerifTLV
	}
	disc := otr3.VerifTLV{Type: 1, Length: 0, Value: nil}
	forms := []form{
		{"abort", "[TDisconnected; TSmp 6 {| sp_question := None; sp_vals := [] |}]", []otr3.VerifTLV{disc, {Type: 6, Length: 0, Value: nil}}},
		{"extra-key", "[TDisconnected; TExtraKey 1 []]", []otr3.VerifTLV{disc, {Type: 8, Length: 4, Value: []byte{0, 0, 0, 1}}}},
		{"smp1", "", []otr3.VerifTLV{disc, {Type: 2, Length: uint16(len(smp1)), Value: smp1}}},
		{"smp1q", "", []otr3.VerifTLV{disc, {Type: 7, Length: uint16(len(smp1) + 2), Value: append([]byte{'q', 0}, smp1...)}}},
		{"smp2-3-4", "", []otr3.VerifTLV{disc, {Type: 3, Length: uint16(len(smp1)), Value: smp1}, {Type: 4, Length: uint16(len(smp1)), Value: smp1}, {Type: 5, Length: uint16(len(smp1)), Value: smp1}}},
	}
	sec := []byte("same secret")
	for _, pol := range []int{polV3, polV2} {
		for _, f := range forms {
			for inRun := 0; inRun < 2; inRun++ {
				pols := []int{pol, pol}
				s := newSys(pols, c.R.U64())
				if !s.Handshake(1, 2) {
					continue
				}
				trig := fmt.Sprintf("v%d,behind-disconnect=%s,smp-in-progress=%d", versionOf(pol), f.name, inRun)
				if inRun == 1 {
					s.StartSMP(2, "", sec)
					s.dropFrom(2, s.ps[2].pending)
				}
				f := f
				op := ""
				if f.coq != "" {
					op = fmt.Sprintf("OSendTLVs 1 %d %s", s.now, f.coq)
				}
				s.record(1, op, fmt.Sprintf("SendTLVs(1, disconnect + %s)", f.name),
					func(p *Party) ([]byte, []otr3.ValidMessage, error) {
						o, e := otr3.VerifSendTLVs(p.c, f.tlvs)
						return nil, o, e
					})
				s.Pump(1, 2, 6)
				c.Count("tlvs-behind-disconnect:" + f.name)
				c.Rep.Evaluations++
				if s.panicked {
					c.Violate("panic", "tlvs-behind-disconnect:"+trig, "panic on a data message that carries records behind the disconnect record", s.trace)
					continue
				}
				if s.ps[2].c.IsEncrypted() {
					c.Violate("disconnect-ignored", trig, "the receiver of a disconnect record is still encrypted", s.trace)
				}
				if f.coq != "" {
					c.AddScenario(s, pols)
				}
			}
		}
	}
}
