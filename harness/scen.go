package main

import (
	"bytes"
	"crypto/hmac"
	"crypto/sha1"
	"encoding/base64"
	"fmt"
	"math/big"
	"runtime"
	"strings"
	"time"

	otr3 "github.com/coyim/otr3"
)

// ---------------------------------------------------------------------------
// Scenario runner: the same operation list is executed on real Conversations here and on the
// abstract conversation machine inside coqc (coq/Proto/Run.v); both print one observation per step.

const (
	polV2        = 2
	polV3        = 4
	polRequire   = 8
	polSendWS    = 16
	polWSStart   = 32
	polErrStart  = 64
	smpParamLenV = 192
)

// randLog is the Conversation.Rand of a party: deterministic, keeps small values for SMP-sized reads
// (so that the symbolic SMP model can recompute with cheap arithmetic), records every read.
type randLog struct {
	r         *RNG
	reads     [][]byte
	fail      int // fail the n-th next read (1-based); 0 = never
	owner     *Party
	zeroSMP   bool            // SMP-parameter sized reads return zero (a peer that chooses degenerate exponents)
	shortPub  bool            // C10: 40-byte values are re-drawn until g^x has a leading zero byte
	shortWith func() [][]byte // C10: when set, 40-byte values are re-drawn until the D-H secret with one of these exponents has a leading zero byte
	keep      bool            // C08: keep every value handed out, the buffer it was written to, and the call site
	draws     []draw
	dsa       *RNG // reads made from inside crypto/dsa are served from a stream of their own (see inDSA)
	lowTags   []byte // C10: the next 4-byte reads (instance tag draws) return these reserved values (< 0x100)
}

// draw: one read from the random source (kept when randLog.keep is set)
type draw struct {
	val   []byte // copy of what was handed out
	alias []byte // the caller's buffer itself
	site  string // exp (DH private key), r (AKE commitment key), smp, tag, other
}

func drawSite() string {
	pcs := make([]uintptr, 24)
	n := runtime.Callers(3, pcs)
	fr := runtime.CallersFrames(pcs[:n])
	for {
		f, more := fr.Next()
		name := f.Function
		if i := strings.LastIndex(name, "/"); i >= 0 {
			name = name[i+1:]
		}
		if strings.HasPrefix(name, "otr3.") && !strings.Contains(name, "rand") && !strings.Contains(name, "Rand") {
			switch {
			case strings.Contains(name, "generateSMP"):
				return "smp"
			case strings.Contains(name, "generateInstanceTag"):
				return "tag"
			default:
				return name
			}
		}
		if !more {
			return "other"
		}
	}
}

// inDSA: is this read made by the standard library's DSA signing?  dsa.Sign consumes one byte of the source or not
// *at random* (randutil.MaybeReadByte) before drawing its nonce; served from the main stream this would shift every
// later value (DH exponents, r, instance tags) by one byte in some runs and not in others, so that two runs on the
// same seed differ wherever an outcome depends on the values drawn (e.g. who wins a D-H Commit collision).
func inDSA() bool {
	pcs := make([]uintptr, 16)
	n := runtime.Callers(3, pcs)
	fr := runtime.CallersFrames(pcs[:n])
	for {
		f, more := fr.Next()
		if strings.HasPrefix(f.Function, "crypto/dsa.") || strings.HasPrefix(f.Function, "crypto/internal/randutil.") {
			return true
		}
		if strings.Contains(f.Function, "otr3.") || !more {
			return false
		}
	}
}

func (l *randLog) Read(p []byte) (int, error) {
	if l.fail == 0 && l.dsa != nil && inDSA() {
		return l.dsa.Read(p)
	}
	if l.fail > 0 {
		l.fail--
		if l.fail == 0 {
			return 0, fmt.Errorf("injected randomness failure")
		}
	}
	n := len(p)
	for i := range p {
		p[i] = 0
	}
	if l.zeroSMP && (n == smpParamLenV || n == 16) {
		// all zero
	} else if n == smpParamLenV {
		copy(p[n-5:], l.r.Bytes(5))
	} else {
		copy(p, l.r.Bytes(n))
	}
	if n == 4 && len(l.lowTags) > 0 {
		p[0], p[1], p[2], p[3] = 0, 0, 0, l.lowTags[0]
		l.lowTags = l.lowTags[1:]
	}
	if n == 40 && l.shortPub {
		// re-draw until the public value g^x has a leading zero byte
		for try := 0; try < 6000; try++ {
			if len(new(big.Int).Exp(big.NewInt(2), new(big.Int).SetBytes(p), groupP).Bytes()) < 192 {
				break
			}
			copy(p, l.r.Bytes(n))
		}
	}
	if n == 40 && l.shortWith != nil {
		if peers := l.shortWith(); len(peers) > 0 {
		search:
			for try := 0; try < 4000; try++ {
				x := new(big.Int).SetBytes(p)
				for _, y := range peers {
					gy := new(big.Int).Exp(big.NewInt(2), new(big.Int).SetBytes(y), groupP)
					if len(new(big.Int).Exp(gy, x, groupP).Bytes()) < 192 {
						break search
					}
				}
				copy(p, l.r.Bytes(n))
			}
		}
	}
	l.reads = append(l.reads, append([]byte{}, p...))
	if l.keep {
		l.draws = append(l.draws, draw{append([]byte{}, p...), p, drawSite()})
	}
	if n == 40 && l.owner != nil {
		l.owner.akeExp = append([]byte{}, p...)
	}
	return n, nil
}

type Party struct {
	id      int
	c       *otr3.Conversation
	pol     int
	rnd     *randLog
	events  []int
	storm   int // message events seen (every 256th one looks at the stack depth)
	outs    [][]byte   // every wire message emitted (reassembled if it was fragmented), oldest first
	pieces  [][][]byte // the pieces each output was actually emitted as
	frag    int
	pending int      // index of the first output not yet delivered in FIFO order
	texts   [][]byte // texts passed to Send
	plains  [][]byte // plaintexts returned by Receive
	keyFp   []byte
	skip    map[int]bool // outputs the network drops (never delivered in FIFO order)
	akeExp  []byte       // the most recent 40-byte value drawn (DH exponent)
	held    []heldSecret // C08: where secrets were found by the previous scan of this party's conversation
}

// heldSecret: a region of the conversation's object graph that contained a secret when it was last scanned
type heldSecret struct {
	reg    *region
	secret []byte
	what   string
}

func (p *Party) HandleSMPEvent(e otr3.SMPEvent, pct int, q string) {
	p.events = append(p.events, 200+int(e))
}
func (p *Party) HandleMessageEvent(e otr3.MessageEvent, m []byte, err error, trace ...interface{}) {
	p.events = append(p.events, int(e))
	// a call that re-enters itself without end would finish as a fatal stack overflow of the whole harness: every 256th
	// event the depth of the call stack is looked at, and a depth no legitimate call comes near is turned into a panic
	// the guards can report
	p.storm++
	if p.storm%256 == 0 {
		var pcs [4096]uintptr
		if runtime.Callers(0, pcs[:]) == len(pcs) {
			panic("runaway recursion: the message event handler was called more than 4096 frames deep")
		}
	}
}
func (p *Party) HandleSecurityEvent(e otr3.SecurityEvent)   { p.events = append(p.events, 100+int(e)) }
func (p *Party) HandleErrorMessage(e otr3.ErrorCode) []byte { return []byte{byte(e)} }
func (p *Party) ReceivedSymmetricKey(usage uint32, data []byte, key []byte) {
	p.events = append(p.events, 300)
}

var partyKeys = []*otr3.DSAPrivateKey{nil, aliceKey, bobKey, eveKey, malKey}

func newParty(id, pol int, seed uint64) *Party {
	p := &Party{id: id, pol: pol, rnd: &randLog{r: NewRNG(seed*977 + uint64(id)), dsa: NewRNG(seed*7717 + 31*uint64(id) + 5)}}
	p.rnd.owner = p
	c := &otr3.Conversation{}
	otr3.VerifSetPolicies(c, pol)
	c.Rand = p.rnd
	c.SetOurKeys([]otr3.PrivateKey{partyKeys[id]})
	c.SetSMPEventHandler(p)
	c.SetMessageEventHandler(p)
	c.SetSecurityEventHandler(p)
	c.SetErrorMessageHandler(p)
	c.SetReceivedKeyHandler(p)
	p.c = c
	p.keyFp = partyKeys[id].PublicKey().Fingerprint()
	return p
}

// Sys is the system under test: parties 1..n.
type callRec struct {
	who       int
	human     string
	preState  int // msgState before the call
	postState int
	outs      [][]byte
	events    []int
	plain     []byte
	err       bool
}

type Sys struct {
	calls     []callRec
	ps        []*Party // index 0 unused
	now       int
	ops       []string // Coq terms
	obs       []Val
	trace     []string // human readable
	disclosed [][][]byte
	panicked  bool
	fragEarly bool            // a piece other than the last one of a unit produced something
	sentEnc   map[string]bool // texts given to Send while the sender was encrypted (i.e. transmitted at once)
	refused   map[string]bool // texts whose Send call returned an error
	lastOp    map[int]string  // the most recent API call of each party
}

func newSys(pols []int, seed uint64) *Sys {
	s := &Sys{ps: []*Party{nil}, now: 1000, disclosed: make([][][]byte, len(pols)+1)}
	for i, p := range pols {
		s.ps = append(s.ps, newParty(i+1, p, seed))
	}
	return s
}

// SetFragmentSize makes party who fragment its output
func (s *Sys) SetFragmentSize(who, size int) {
	s.ps[who].frag = size
	s.ps[who].c.SetFragmentSize(uint16(size))
}

func (s *Sys) tick(secs int) {
	s.now += secs
	for _, p := range s.ps[1:] {
		otr3.VerifShiftClock(p.c, time.Duration(secs)*time.Second)
	}
}

// ---- wire parsing (for observations and mutations) ----
type parsedWire struct {
	kind       int // 0 plain, 1 query, 2 error, 3 ake, 4 data, 9 other
	ver        int
	typ        byte
	stag, rtag uint32
	hdr, body  []byte
	data       otr3.VerifDataMsg
	text       []byte
	versions   int
}

var wsHeader = otr3.VerifConvertToWhitespace("OT")

func parseWire(m []byte) parsedWire {
	w := parsedWire{kind: 9}
	switch {
	case bytes.HasPrefix(m, []byte("?OTR:")) && len(m) > 6:
		dec, err := base64.StdEncoding.DecodeString(string(m[5 : len(m)-1]))
		if err != nil || len(dec) < 3 {
			return w
		}
		w.ver = int(dec[0])<<8 | int(dec[1])
		w.typ = dec[2]
		hl := 3
		if w.ver == 3 {
			hl = 11
			if len(dec) < 11 {
				return w
			}
			w.stag = uint32(dec[3])<<24 | uint32(dec[4])<<16 | uint32(dec[5])<<8 | uint32(dec[6])
			w.rtag = uint32(dec[7])<<24 | uint32(dec[8])<<16 | uint32(dec[9])<<8 | uint32(dec[10])
		}
		w.hdr, w.body = dec[:hl], dec[hl:]
		if w.typ == 3 {
			d, ok := otr3.VerifDataMsgDeser(append([]byte{}, w.body...), w.ver)
			if !ok {
				return w
			}
			w.kind, w.data = 4, d
		} else {
			w.kind = 3
		}
	case bytes.HasPrefix(m, []byte("?OTR Error:")):
		w.kind = 2
		w.text = m[len("?OTR Error:"):]
		if len(w.text) > 0 && w.text[0] == ' ' {
			w.text = w.text[1:]
		}
	case bytes.HasPrefix(m, []byte("?OTRv")) || bytes.HasPrefix(m, []byte("?OTR?")):
		w.kind = 1
		w.versions = otr3.VerifQueryVersions(polV2|polV3, m)
	case bytes.HasPrefix(m, []byte("?OTR")):
		w.kind = 9
	default:
		w.kind = 0
		w.text = m
		if bytes.Contains(m, wsHeader) {
			w.text, w.versions = otr3.VerifExtractWhitespaceTag(m)
		}
	}
	return w
}

func encodeWire(hdr, body []byte) []byte {
	return otr3.VerifEncode(append(append([]byte{}, hdr...), body...))
}

func (s *Sys) tagClass(t uint32, from int) int {
	switch {
	case t == 0:
		return 0
	case t < 0x100:
		return 1
	case t == otr3.VerifSnapshot(s.ps[from].c).OurTag:
		return 2
	}
	for _, p := range s.ps[1:] {
		if otr3.VerifSnapshot(p.c).OurTag == t {
			return 3
		}
	}
	return 4
}

func (s *Sys) obsWire(from int, m []byte) Val {
	w := parseWire(m)
	switch w.kind {
	case 0:
		return L(N(0), B(w.text), N(w.versions))
	case 1:
		return L(N(1), N(w.versions))
	case 2:
		return L(N(2), B(w.text))
	case 3:
		return L(N(3), N(w.ver), N(int(w.typ)), N(s.tagClass(w.stag, from)), N(s.tagClass(w.rtag, from)))
	case 4:
		d := w.data
		ctr := new(big.Int).SetBytes(d.TopHalfCtr[:])
		return L(N(4), N(w.ver), N(s.tagClass(w.stag, from)), N(s.tagClass(w.rtag, from)), N(int(d.Flag)),
			NU(uint64(d.SenderKeyID)), NU(uint64(d.RecipientKeyID)), NB(ctr), N(len(d.OldMACKeys)))
	}
	return L(N(9))
}

func fpID(k otr3.PublicKey) int {
	if k == nil {
		return 0
	}
	fp := k.Fingerprint()
	for i := 1; i < len(partyKeys); i++ {
		if bytes.Equal(fp, partyKeys[i].PublicKey().Fingerprint()) {
			return i
		}
	}
	return 99
}

func (s *Sys) obsState(who int) Val {
	p := s.ps[who]
	st := otr3.VerifSnapshot(p.c)
	ssid := p.c.GetSSID()
	eqs := []Val{}
	for _, o := range s.ps[1:] {
		eqs = append(eqs, Bool(o.c.GetSSID() == ssid))
	}
	bound := 0
	if st.TheirTag != 0 {
		bound = 1
	}
	return L(N(st.MsgState), N(st.Version), N(bound), N(fpID(p.c.GetTheirKey())), VL(eqs), Bool(st.SentRevealSig),
		L(NU(uint64(st.OurKeyID)), NU(uint64(st.TheirKeyID)), N(st.NCounters), N(st.NMacHistory), N(st.NOldMACKeys)),
		N(st.NResend), N(st.MayRetransmit), N(st.SMPState), N(st.AKEState))
}

// record runs one API call on party who and records the observation
func (s *Sys) record(who int, coq string, human string, f func(p *Party) (plain []byte, out []otr3.ValidMessage, err error)) ([]byte, [][]byte, bool) {
	p := s.ps[who]
	p.events = nil
	var plain []byte
	var out []otr3.ValidMessage
	var err error
	panicked := false
	pre := otr3.VerifSnapshot(p.c).MsgState
	watch(human)
	func() {
		defer func() {
			if r := recover(); r != nil {
				panicked = true
			}
		}()
		plain, out, err = f(p)
	}()
	watch("")
	errc := 0
	if err != nil {
		errc = 1
	}
	if panicked {
		errc = 9
		s.panicked = true
	}
	rawOuts := otr3.Bytes(out)
	outs, pcs := groupFragments(rawOuts)
	base := len(p.outs)
	p.outs = append(p.outs, outs...)
	p.pieces = append(p.pieces, pcs...)
	ows := make([]Val, len(outs))
	for i, m := range outs {
		ows[i] = s.obsWire(who, m)
		if w := parseWire(m); w.kind == 4 {
			s.disclosed[who] = append(s.disclosed[who], w.data.OldMACKeys...)
		}
	}
	_ = base
	evs := make([]Val, len(p.events))
	for i, e := range p.events {
		evs[i] = N(e)
	}
	var pv Val = VNone{}
	if plain != nil {
		pv = B(plain)
	}
	if s.lastOp == nil {
		s.lastOp = map[int]string{}
	}
	s.lastOp[who] = human
	s.ops = append(s.ops, coq)
	s.obs = append(s.obs, L(pv, N(errc), VL(evs), VL(ows), s.obsState(who)))
	s.calls = append(s.calls, callRec{who: who, human: human, preState: pre, postState: otr3.VerifSnapshot(p.c).MsgState,
		outs: outs, events: append([]int{}, p.events...), plain: plain, err: err != nil})
	s.trace = append(s.trace, fmt.Sprintf("%s -> plain=%q err=%v events=%v outs=%d", human, plain, err, p.events, len(outs)))
	return plain, outs, panicked
}

// groupFragments reassembles fragmented outputs: every run of pieces k=1..n becomes one unit
func groupFragments(raw [][]byte) (units [][]byte, pieces [][][]byte) {
	var cur [][]byte
	var buf []byte
	for _, m := range raw {
		isFrag := bytes.HasPrefix(m, []byte("?OTR|")) || bytes.HasPrefix(m, []byte("?OTR,"))
		if !isFrag {
			units = append(units, m)
			pieces = append(pieces, [][]byte{m})
			continue
		}
		parts := bytes.Split(m, []byte(","))
		// v3: ?OTR|s|r , k , n , payload , ""   v2: ?OTR , k , n , payload , ""
		if len(parts) < 5 {
			units = append(units, m)
			pieces = append(pieces, [][]byte{m})
			continue
		}
		k, n, payload := string(parts[1]), string(parts[2]), parts[3]
		cur = append(cur, m)
		buf = append(buf, payload...)
		if k == n {
			units = append(units, buf)
			pieces = append(pieces, cur)
			cur, buf = nil, nil
		}
	}
	if cur != nil { // incomplete run (should not happen)
		units = append(units, buf)
		pieces = append(pieces, cur)
	}
	return
}

// smpRands: the SMP-parameter sized reads made during the last call of party p, as numbers
func (p *Party) takeRands() (string, []*big.Int) {
	var xs []*big.Int
	ver := otr3.VerifSnapshot(p.c).Version
	want := smpParamLenV
	if ver == 2 {
		want = 16
	}
	for _, r := range p.rnd.reads {
		if len(r) == want {
			xs = append(xs, new(big.Int).SetBytes(r))
		}
	}
	p.rnd.reads = nil
	ss := make([]string, len(xs))
	for i, x := range xs {
		ss[i] = x.String()
	}
	return "[" + strings.Join(ss, "; ") + "]", xs
}

func coqBytes(b []byte) string {
	var sb strings.Builder
	VB(b).Coq(&sb)
	return strings.TrimPrefix(sb.String(), "VB ")
}

// ---- operations ----
func (s *Sys) Send(who int, text []byte) [][]byte {
	p := s.ps[who]
	p.texts = append(p.texts, text)
	if s.sentEnc == nil {
		s.sentEnc = map[string]bool{}
	}
	s.sentEnc[string(text)] = p.c.IsEncrypted()
	_, outs, _ := s.record(who, fmt.Sprintf("OSend %d %d %s", who, s.now, coqBytes(text)), fmt.Sprintf("Send(%d,%q)", who, text),
		func(p *Party) ([]byte, []otr3.ValidMessage, error) {
			o, e := p.c.Send(text)
			return nil, o, e
		})
	if s.calls[len(s.calls)-1].err {
		if s.refused == nil {
			s.refused = map[string]bool{}
		}
		s.refused[string(text)] = true
	}
	return outs
}

func (s *Sys) End(who int) {
	s.record(who, fmt.Sprintf("OEnd %d %d", who, s.now), fmt.Sprintf("End(%d)", who),
		func(p *Party) ([]byte, []otr3.ValidMessage, error) {
			o, e := p.c.End()
			return nil, o, e
		})
}

// Mutation of a wire message; Coq is the symbolic twin (coq/Proto/Run.v mutation)
type Mut struct {
	Coq  string
	Kind string
	f    func(s *Sys, from, to int, m []byte) []byte
}

var MNone = Mut{"MNone", "none", nil}

func mutData(coq, kind string, f func(s *Sys, w *parsedWire)) Mut {
	return Mut{coq, kind, func(s *Sys, from, to int, m []byte) []byte {
		w := parseWire(m)
		if w.kind != 4 {
			return m
		}
		f(s, &w)
		return encodeWire(w.hdr, otr3.VerifDataMsgSer(w.data, w.ver))
	}}
}

func MFlipMac() Mut {
	return mutData("MFlipMac", "flip-mac", func(s *Sys, w *parsedWire) {
		w.data.Authenticator = append([]byte{}, w.data.Authenticator...)
		w.data.Authenticator[7] ^= 0x10
	})
}
func MFlipEnc() Mut {
	return mutData("MFlipEnc", "flip-ciphertext", func(s *Sys, w *parsedWire) {
		w.data.EncryptedMsg = append([]byte{}, w.data.EncryptedMsg...)
		if len(w.data.EncryptedMsg) > 0 {
			w.data.EncryptedMsg[len(w.data.EncryptedMsg)/2] ^= 1
		}
	})
}
func MCtr(delta int) Mut {
	return mutData(fmt.Sprintf("(MCtr %d)", delta), "raise-counter", func(s *Sys, w *parsedWire) {
		c := new(big.Int).SetBytes(w.data.TopHalfCtr[:])
		c.Add(c, big.NewInt(int64(delta)))
		b := c.Bytes()
		w.data.TopHalfCtr = [8]byte{}
		copy(w.data.TopHalfCtr[8-len(b):], b)
	})
}
func MSk(v int) Mut {
	return mutData(fmt.Sprintf("(MSk %d)", v), "sender-keyid", func(s *Sys, w *parsedWire) { w.data.SenderKeyID = uint32(v) })
}
func MRk(v int) Mut {
	return mutData(fmt.Sprintf("(MRk %d)", v), "recipient-keyid", func(s *Sys, w *parsedWire) { w.data.RecipientKeyID = uint32(v) })
}
func MFlag(v int) Mut {
	return mutData(fmt.Sprintf("(MFlag %d)", v), "flag", func(s *Sys, w *parsedWire) { w.data.Flag = byte(v) })
}
func MY() Mut {
	return mutData("MY", "next-dh-key", func(s *Sys, w *parsedWire) {
		w.data.Y = new(big.Int).Add(w.data.Y, big.NewInt(12345))
	})
}
// MNonCanon: the same field values in another encoding - the next-D-H-key MPI with a leading zero byte and a length word one
// higher (which = 0), or the ciphertext DATA length word unchanged but one zero byte appended to the revealed-keys field is
// NOT covered (unauthenticated).  The authenticated bytes differ, so the MAC no longer matches: for the machine this is the
// same as a damaged ciphertext (MFlipEnc): authentic fields, authenticator over other bytes.
func MNonCanon() Mut {
	return Mut{"MFlipEnc", "noncanonical-mpi", func(s *Sys, from, to int, m []byte) []byte {
		w := parseWire(m)
		if w.kind != 4 || len(w.body) < 13 {
			return m
		}
		// body: flag(1) sender key id(4) recipient key id(4) y: MPI(len 4 + bytes) ...
		l := int(w.body[9])<<24 | int(w.body[10])<<16 | int(w.body[11])<<8 | int(w.body[12])
		if 13+l > len(w.body) {
			return m
		}
		nb := append([]byte{}, w.body[:9]...)
		nl := l + 1
		nb = append(nb, byte(nl>>24), byte(nl>>16), byte(nl>>8), byte(nl), 0)
		nb = append(nb, w.body[13:]...)
		return encodeWire(w.hdr, nb)
	}}
}
func MDropOldKeys() Mut {
	return mutData("MDropOldKeys", "drop-revealed-keys", func(s *Sys, w *parsedWire) { w.data.OldMACKeys = nil })
}
func MReMac(who, idx int) Mut {
	return mutData(fmt.Sprintf("(MReMac %d %d)", who, idx), "remac-with-disclosed-key", func(s *Sys, w *parsedWire) {
		if idx < len(s.disclosed[who]) {
			mac := hmac.New(sha1.New, s.disclosed[who][idx])
			mac.Write(w.hdr)
			mac.Write(otr3.VerifDataMsgSerUnsigned(w.data))
			w.data.Authenticator = mac.Sum(nil)
		} else {
			w.data.Authenticator = append([]byte{}, w.data.Authenticator...)
			w.data.Authenticator[3] ^= 4
		}
	})
}
func MTruncate() Mut {
	return Mut{"MTruncate", "truncate", func(s *Sys, from, to int, m []byte) []byte {
		w := parseWire(m)
		if w.kind != 3 && w.kind != 4 {
			return m
		}
		return encodeWire(w.hdr, w.body[:len(w.body)/2])
	}}
}
func (s *Sys) tagOfClass(cls, from, to int) uint32 {
	switch cls {
	case 0:
		return 0
	case 1:
		return 5
	case 2:
		return otr3.VerifSnapshot(s.ps[from].c).OurTag
	case 3:
		return otr3.VerifSnapshot(s.ps[to].c).OurTag
	}
	return 0x100 + 900000
}
func putWord(b []byte, v uint32) {
	b[0], b[1], b[2], b[3] = byte(v>>24), byte(v>>16), byte(v>>8), byte(v)
}
func MTag(sender bool, cls int) Mut {
	name := "MRtag"
	if sender {
		name = "MStag"
	}
	return Mut{fmt.Sprintf("(%s %d)", name, cls), strings.ToLower(name), func(s *Sys, from, to int, m []byte) []byte {
		w := parseWire(m)
		if (w.kind != 3 && w.kind != 4) || w.ver != 3 {
			return m
		}
		h := append([]byte{}, w.hdr...)
		if sender {
			putWord(h[3:], s.tagOfClass(cls, from, to))
		} else {
			putWord(h[7:], s.tagOfClass(cls, from, to))
		}
		return encodeWire(h, w.body)
	}}
}

var groupP, _ = new(big.Int).SetString("FFFFFFFFFFFFFFFFC90FDAA22168C234C4C6628B80DC1CD129024E088A67CC74020BBEA63B139B22514A08798E3404DDEF9519B3CD3A431B302B0A6DF25F14374FE1356D6D51C245E485B576625E7EC6F44C42E9A637ED6B0BFF5CB6F406B7EDEE386BFB5A899FA5AE9F24117C4B1FE649286651ECE45B3DC2007CB8A163BF0598DA48361C55D39A69163FA8FD24CF5F83655D23DCA3AD961C62F356208552BB9ED529077096966D670C354E4ABC9804F1746C08CA237327FFFFFFFFFFFFFFFF", 16)

func badGroupValue(v int) *big.Int {
	switch v {
	case 0:
		return big.NewInt(0)
	case 1:
		return big.NewInt(1)
	case 2:
		return new(big.Int).Sub(groupP, big.NewInt(1))
	case 3:
		return new(big.Int).Set(groupP)
	default:
		return new(big.Int).Add(groupP, big.NewInt(1))
	}
}

// MAkeDamage damages the field-th component of an AKE message
func MAkeDamage(field int) Mut {
	return Mut{fmt.Sprintf("(MAkeDamage %d)", field), "ake-field", func(s *Sys, from, to int, m []byte) []byte {
		w := parseWire(m)
		if w.kind != 3 {
			return m
		}
		b := append([]byte{}, w.body...)
		switch w.typ {
		case 0x02: // commit: DATA enc, DATA hash
			if field == 0 {
				b[4+10] ^= 1
			} else {
				b[len(b)-1] ^= 1
			}
		case 0x0a: // key: MPI
			b[len(b)-2] ^= 1
		case 0x11: // reveal: DATA r, DATA encsig, mac
			switch field {
			case 0:
				b[4+3] ^= 1
			case 1:
				b[4+16+4+20] ^= 1
			default:
				b[len(b)-1] ^= 1
			}
		case 0x12: // sig: DATA encsig, mac
			if field == 1 {
				b[4+20] ^= 1
			} else {
				b[len(b)-1] ^= 1
			}
		}
		return encodeWire(w.hdr, b)
	}}
}
// MCommitHashLen: the D-H Commit's commitment field cut to (or extended to) n bytes, length word adjusted: a well-formed
// message whose hash cannot match; for the machine the same as a damaged hash (MAkeDamage 1)
func MCommitHashLen(n int) Mut {
	return Mut{"(MAkeDamage 1)", fmt.Sprintf("commit-hash-len-%d", n), func(s *Sys, from, to int, m []byte) []byte {
		w := parseWire(m)
		if w.kind != 3 || w.typ != 0x02 {
			return m
		}
		rest, enc, ok := otr3.ExtractData(w.body)
		_, h, ok2 := otr3.ExtractData(rest)
		if !ok || !ok2 {
			return m
		}
		nh := append([]byte{}, h...)
		for len(nh) < n {
			nh = append(nh, 0x5a)
		}
		nh = nh[:n]
		return encodeWire(w.hdr, otr3.AppendData(otr3.AppendData(nil, enc), nh))
	}}
}
func MAkeGroup(v int) Mut {
	return Mut{fmt.Sprintf("(MAkeGroup %d)", v), "dh-out-of-range", func(s *Sys, from, to int, m []byte) []byte {
		w := parseWire(m)
		if w.kind != 3 || w.typ != 0x0a {
			return m
		}
		return encodeWire(w.hdr, otr3.AppendMPI(nil, badGroupValue(v)))
	}}
}
func MVersion(v int) Mut {
	return Mut{fmt.Sprintf("(MVersion %d)", v), "version", func(s *Sys, from, to int, m []byte) []byte {
		w := parseWire(m)
		if w.kind != 3 && w.kind != 4 {
			return m
		}
		h := []byte{0, byte(v), w.typ}
		if v == 3 {
			h = append(h, 0, 0, 1, 1, 0, 0, 0, 0)
			if w.ver == 3 {
				copy(h[3:], w.hdr[3:])
			}
		}
		return encodeWire(h, w.body)
	}}
}

// Deliver hands output idx of party from to party to, through mutation mut. aux resolves the
// commit-hash comparison when both sides have sent a DH-Commit.
func (s *Sys) Deliver(from, idx, to int, mut Mut) ([]byte, bool) {
	msg := s.ps[from].outs[idx]
	if mut.f != nil {
		msg = mut.f(s, from, to, msg)
	}
	aux := s.commitAux(to, msg)
	rcv := s.ps[to]
	rcv.rnd.reads = nil
	var plain []byte
	var panicked bool
	// the randomness used is only known afterwards; record with a placeholder and patch the op
	pcs := s.ps[from].pieces[idx]
	plain, _, panicked = s.record(to, "", fmt.Sprintf("Deliver(%d#%d -> %d, %s)", from, idx, to, mut.Kind),
		func(p *Party) ([]byte, []otr3.ValidMessage, error) {
			if mut.f != nil || len(pcs) <= 1 {
				return p.c.Receive(msg)
			}
			// a fragmented unit: every piece in order; only the last one may produce anything
			var pl []byte
			var out []otr3.ValidMessage
			var err error
			for i, pc := range pcs {
				pl2, out2, err2 := p.c.Receive(pc)
				if i < len(pcs)-1 && (pl2 != nil || len(out2) > 0 || err2 != nil) {
					s.fragEarly = true
				}
				if pl2 != nil {
					pl = pl2
				}
				out = append(out, out2...)
				if err2 != nil {
					err = err2
				}
			}
			return pl, out, err
		})
	rs, _ := rcv.takeRands()
	s.ops[len(s.ops)-1] = fmt.Sprintf("ODeliver %d %d %d %s %d %s %d", from, idx, to, mut.Coq, aux, rs, s.now)
	if plain != nil {
		rcv.plains = append(rcv.plains, plain)
	}
	return plain, panicked
}

// commitAux: 1 iff party to is awaiting a DH-Key, msg is a DH-Commit and to's own commitment hash is the higher one
func (s *Sys) commitAux(to int, msg []byte) int {
	w := parseWire(msg)
	if w.kind != 3 || w.typ != 0x02 {
		return 0
	}
	if otr3.VerifSnapshot(s.ps[to].c).AKEState != 1 {
		return 0
	}
	// the last DH-Commit the receiver sent carries its own hash
	var own []byte
	for i := len(s.ps[to].outs) - 1; i >= 0; i-- {
		ow := parseWire(s.ps[to].outs[i])
		if ow.kind == 3 && ow.typ == 0x02 {
			own = ow.body
			break
		}
	}
	h := func(b []byte) []byte {
		r, _, ok := otr3.ExtractData(b)
		if !ok {
			return nil
		}
		_, hh, ok := otr3.ExtractData(r)
		if !ok {
			return nil
		}
		return hh
	}
	if own == nil || h(own) == nil || h(w.body) == nil {
		return 0
	}
	if bytes.Compare(h(own), h(w.body)) == 1 {
		return 1
	}
	return 0
}

// Inject delivers a message the network made up. coqWire is its symbolic form.
func (s *Sys) Inject(to int, msg []byte, coqWire string) []byte {
	plain, _, _ := s.record(to, fmt.Sprintf("OInject %d (%s) %d", to, coqWire, s.now), fmt.Sprintf("Inject(%d,%q)", to, trunc(msg)),
		func(p *Party) ([]byte, []otr3.ValidMessage, error) { return p.c.Receive(msg) })
	return plain
}

func trunc(b []byte) []byte {
	if len(b) > 40 {
		return b[:40]
	}
	return b
}

// Query: party from's query message delivered to party to
func (s *Sys) Query(from, to int) {
	q := s.ps[from].c.QueryMessage()
	w := parseWire(q)
	s.Inject(to, q, fmt.Sprintf("WQuery %d", w.versions))
}

func (s *Sys) StartSMP(who int, question string, secret []byte) {
	p := s.ps[who]
	p.rnd.reads = nil
	s.record(who, "", fmt.Sprintf("StartSMP(%d,%q,%q)", who, question, secret),
		func(p *Party) ([]byte, []otr3.ValidMessage, error) {
			o, e := p.c.StartAuthenticate(question, secret)
			return nil, o, e
		})
	rs, _ := p.takeRands()
	s.ops[len(s.ops)-1] = fmt.Sprintf("OSmp %d %d (SStart %s %s) %s", who, s.now, coqBytes([]byte(question)), coqBytes(secret), rs)
}
func (s *Sys) ProvideSMP(who int, secret []byte) {
	p := s.ps[who]
	p.rnd.reads = nil
	s.record(who, "", fmt.Sprintf("ProvideSecret(%d,%q)", who, secret),
		func(p *Party) ([]byte, []otr3.ValidMessage, error) {
			o, e := p.c.ProvideAuthenticationSecret(secret)
			return nil, o, e
		})
	rs, _ := p.takeRands()
	s.ops[len(s.ops)-1] = fmt.Sprintf("OSmp %d %d (SProvide %s) %s", who, s.now, coqBytes(secret), rs)
}
func (s *Sys) AbortSMP(who int) {
	s.record(who, fmt.Sprintf("OSmp %d %d SAbort []", who, s.now), fmt.Sprintf("AbortSMP(%d)", who),
		func(p *Party) ([]byte, []otr3.ValidMessage, error) {
			o, e := p.c.AbortAuthentication()
			return nil, o, e
		})
}
func (s *Sys) ExtraKey(who int, usage uint32, data []byte) []byte {
	var key []byte
	s.record(who, fmt.Sprintf("OExtraKey %d %d %d %s", who, s.now, usage, coqBytes(data)), fmt.Sprintf("ExtraKey(%d)", who),
		func(p *Party) ([]byte, []otr3.ValidMessage, error) {
			k, o, e := p.c.UseExtraSymmetricKey(usage, data)
			key = k
			return nil, o, e
		})
	return key
}

// AKE: query from 'from' to 'to', then FIFO delivery until both are quiet. Returns true if both encrypted.
func (s *Sys) Handshake(from, to int) bool {
	s.Query(from, to)
	s.Pump(from, to, 20)
	return s.ps[from].c.IsEncrypted() && s.ps[to].c.IsEncrypted()
}

// Pump delivers pending outputs between a and b in FIFO order, alternating, up to max deliveries
// next returns the index of the next output of party f to deliver in FIFO order, or -1
func (s *Sys) next(f int) int {
	p := s.ps[f]
	for p.pending < len(p.outs) && p.skip[p.pending] {
		p.pending++
	}
	if p.pending < len(p.outs) {
		p.pending++
		return p.pending - 1
	}
	return -1
}

// dropFrom marks every output of party f from index lo on as dropped by the network
func (s *Sys) dropFrom(f, lo int) {
	p := s.ps[f]
	if p.skip == nil {
		p.skip = map[int]bool{}
	}
	for i := lo; i < len(p.outs); i++ {
		p.skip[i] = true
	}
}

func (s *Sys) Pump(a, b int, max int) {
	for n := 0; n < max; n++ {
		progressed := false
		for _, pr := range [][2]int{{a, b}, {b, a}} {
			f, t := pr[0], pr[1]
			if idx := s.next(f); idx >= 0 {
				s.Deliver(f, idx, t, MNone)
				progressed = true
			}
		}
		if !progressed {
			return
		}
	}
}

// Coq renders the scenario as a record of coq/Proto/Run.v
func (s *Sys) Coq(pols []int) string {
	var sb strings.Builder
	ps := make([]string, len(pols))
	for i, p := range pols {
		ps[i] = fmt.Sprint(p)
	}
	sb.WriteString("{| sc_policies := [" + strings.Join(ps, "; ") + "];\n   sc_ops := [\n     ")
	sb.WriteString(strings.Join(s.ops, ";\n     "))
	sb.WriteString("];\n   sc_observed := [\n     ")
	for i, o := range s.obs {
		if i > 0 {
			sb.WriteString(";\n     ")
		}
		o.Coq(&sb)
	}
	sb.WriteString("] |}")
	return sb.String()
}
