package main

import (
	"bytes"
	"encoding/binary"
	"math/big"
	"reflect"
	"strings"
	"unsafe"
)

// Object-graph scan (C08): everything reachable from a *Conversation through pointers, slices (to their full
// capacity), arrays, maps, interfaces and big.Int limb arrays (to their full capacity), as byte regions that can
// be searched for secrets. Values of the harness's own types (handlers, the random source) are not followed.

type region struct {
	ptr   uintptr
	b     []byte // a view of the live memory for slices, a copy for values that are not addressable
	path  string
	big   bool
	words []uint // big.Int: a view of the live limb array (b is its big-endian rendering at scan time)
}

// current: the bytes of the region as they are now (a region may have been wiped since it was scanned)
func (r *region) current() []byte {
	if !r.big {
		return r.b
	}
	b := make([]byte, 8*len(r.words))
	for i, w := range r.words {
		binary.BigEndian.PutUint64(b[(len(r.words)-1-i)*8:], uint64(w))
	}
	return b
}

// holds: is the memory starting at p part of what this scan reached
func (sc *scanner) holds(p uintptr) bool {
	for _, r := range sc.regions {
		n := uintptr(len(r.b))
		if r.big {
			n = uintptr(8 * len(r.words))
		}
		if r.ptr != 0 && p >= r.ptr && p < r.ptr+n {
			return true
		}
	}
	return false
}

type scanner struct {
	regions []region
	seen    map[[2]uintptr]bool
	nonNil  map[string]bool
	n       int
}

var bigIntType = reflect.TypeOf(big.Int{})

func scanGraph(root interface{}) *scanner {
	sc := &scanner{seen: map[[2]uintptr]bool{}, nonNil: map[string]bool{}}
	sc.walk(reflect.ValueOf(root), "")
	return sc
}

func typeKey(t reflect.Type) uintptr {
	// the address of the runtime type descriptor identifies the type
	return (*[2]uintptr)(unsafe.Pointer(&t))[1]
}

func (sc *scanner) walk(v reflect.Value, path string) {
	sc.n++
	if sc.n > 2000000 || len(path) > 400 {
		return
	}
	if !v.IsValid() {
		return
	}
	t := v.Type()
	if t.PkgPath() == "main" { // the harness's own objects (event handlers, random source)
		return
	}
	switch v.Kind() {
	case reflect.Ptr:
		if v.IsNil() {
			return
		}
		sc.nonNil[path] = true
		if t.Elem().PkgPath() == "main" {
			return
		}
		k := [2]uintptr{v.Pointer(), typeKey(t)}
		if sc.seen[k] {
			return
		}
		sc.seen[k] = true
		sc.walk(v.Elem(), path)
	case reflect.Interface:
		if v.IsNil() {
			return
		}
		sc.nonNil[path] = true
		sc.walk(v.Elem(), path)
	case reflect.Struct:
		if t == bigIntType {
			abs := v.Field(1) // nat = []Word
			if abs.Cap() > 0 {
				words := unsafe.Slice((*uint)(unsafe.Pointer(abs.Pointer())), abs.Cap())
				b := make([]byte, 8*len(words))
				for i, w := range words {
					binary.BigEndian.PutUint64(b[(len(words)-1-i)*8:], uint64(w))
				}
				sc.regions = append(sc.regions, region{abs.Pointer(), b, path, true, words})
			}
			return
		}
		if pk := t.PkgPath(); pk == "time" || pk == "sync" || pk == "reflect" {
			return
		}
		for i := 0; i < v.NumField(); i++ {
			sc.walk(v.Field(i), path+"."+t.Field(i).Name)
		}
	case reflect.Slice:
		if v.IsNil() {
			return
		}
		sc.nonNil[path] = true
		if t.Elem().Kind() == reflect.Uint8 {
			if v.Cap() > 0 {
				sc.regions = append(sc.regions, region{v.Pointer(), unsafe.Slice((*byte)(unsafe.Pointer(v.Pointer())), v.Cap()), path, false, nil})
			}
			return
		}
		k := [2]uintptr{v.Pointer(), typeKey(t)}
		if sc.seen[k] && v.Len() > 0 {
			return
		}
		sc.seen[k] = true
		// elements beyond len are not reachable through this slice value, but their memory is: follow them too
		full := v
		if v.Cap() > v.Len() {
			full = v.Slice3(0, v.Cap(), v.Cap())
		}
		for i := 0; i < full.Len(); i++ {
			sc.walk(full.Index(i), path+"[]")
		}
	case reflect.Array:
		if t.Elem().Kind() == reflect.Uint8 {
			if v.CanAddr() {
				sc.regions = append(sc.regions, region{v.UnsafeAddr(), unsafe.Slice((*byte)(unsafe.Pointer(v.UnsafeAddr())), v.Len()), path, false, nil})
			} else {
				b := make([]byte, v.Len())
				for i := range b {
					b[i] = byte(v.Index(i).Uint())
				}
				sc.regions = append(sc.regions, region{0, b, path, false, nil})
			}
			return
		}
		for i := 0; i < v.Len(); i++ {
			sc.walk(v.Index(i), path+"[]")
		}
	case reflect.Map:
		if v.IsNil() {
			return
		}
		it := v.MapRange()
		for it.Next() {
			sc.walk(it.Key(), path+"{k}")
			sc.walk(it.Value(), path+"{v}")
		}
	case reflect.String:
		if s := v.String(); len(s) > 0 {
			sc.regions = append(sc.regions, region{0, []byte(s), path, false, nil})
		}
	}
}

// find: paths of the regions that contain the secret (leading zero bytes ignored: a big.Int drops them)
func (sc *scanner) find(secret []byte) []string {
	t := bytes.TrimLeft(secret, "\x00")
	if len(t) < 5 {
		return nil
	}
	var out []string
	for _, r := range sc.regions {
		if bytes.Contains(r.b, t) {
			out = append(out, r.path)
		}
	}
	return out
}

// findRegions: the regions that contain the secret
func (sc *scanner) findRegions(secret []byte) []*region {
	t := bytes.TrimLeft(secret, "\x00")
	if len(t) < 5 {
		return nil
	}
	var out []*region
	for i := range sc.regions {
		if bytes.Contains(sc.regions[i].b, t) {
			out = append(out, &sc.regions[i])
		}
	}
	return out
}

// reachable: is the buffer starting at p inside one of the regions
func (sc *scanner) reachable(p uintptr) bool {
	for _, r := range sc.regions {
		if r.ptr != 0 && !r.big && p >= r.ptr && p < r.ptr+uintptr(len(r.b)) {
			return true
		}
	}
	return false
}

func (sc *scanner) has(pathSuffix string) bool {
	for p := range sc.nonNil {
		if strings.HasSuffix(p, pathSuffix) {
			return true
		}
	}
	return false
}

func allZero(b []byte) bool {
	for _, x := range b {
		if x != 0 {
			return false
		}
	}
	return true
}
