package main

import (
	"strings"
	"bytes"
	"crypto/aes"
	"crypto/cipher"
	"crypto/hmac"
	"crypto/sha256"
	"fmt"
	"math/big"

	otr3 "github.com/coyim/otr3"
)

func init() {
	generators["C01"] = genC01
	generators["C07"] = genC07
}

func aesCTRZero(key, data []byte) []byte {
	blk, _ := aes.NewCipher(key)
	out := make([]byte, len(data))
	cipher.NewCTR(blk, make([]byte, aes.BlockSize)).XORKeyStream(out, data)
	return out
}

// akeSecretsFor: the keys of the exchange between from (sender of a Reveal-Signature or Signature message) and to,
// recomputed from the exponents the two random sources handed out (needs randLog.keep)
func akeSecretsFor(s *Sys, from, to int, typ byte) (refAKEKeys, bool) {
	var xf, xt []byte
	if typ == 0x11 { // from committed, to answered with its D-H key
		xf, xt = lastDraw(s.ps[from], 40, "dhCommitMessage"), lastDraw(s.ps[to], 40, "dhKeyMessage")
	} else {
		xf, xt = lastDraw(s.ps[from], 40, "dhKeyMessage"), lastDraw(s.ps[to], 40, "dhCommitMessage")
	}
	if xf == nil || xt == nil {
		return refAKEKeys{}, false
	}
	gt := new(big.Int).Exp(big.NewInt(2), new(big.Int).SetBytes(xt), groupP)
	return refAKEKeysFor(new(big.Int).Exp(gt, new(big.Int).SetBytes(xf), groupP)), true
}

// rewriteX: decrypt the encrypted signature of a Reveal-Signature / Signature message, let f rewrite X, encrypt
// and MAC again with the right keys (what a peer that takes part in the exchange can do)
func rewriteX(s *Sys, from, to int, m []byte, f func(x []byte) []byte) []byte {
	w := parseWire(m)
	if w.kind != 3 || (w.typ != 0x11 && w.typ != 0x12) {
		return m
	}
	keys, ok := akeSecretsFor(s, from, to, w.typ)
	if !ok {
		return m
	}
	ck, mk := keys.c, keys.m2
	if w.typ == 0x12 {
		ck, mk = keys.cp, keys.m2p
	}
	rest := w.body
	var r []byte
	if w.typ == 0x11 {
		var ok1 bool
		if rest, r, ok1 = otr3.ExtractData(rest); !ok1 {
			return m
		}
	}
	rest2, enc, ok2 := otr3.ExtractData(rest)
	if !ok2 || len(rest2) != 20 {
		return m
	}
	newEnc := aesCTRZero(ck, f(aesCTRZero(ck, enc)))
	mac := hmac.New(sha256.New, mk)
	mac.Write(otr3.AppendData(nil, newEnc))
	var body []byte
	if w.typ == 0x11 {
		body = otr3.AppendData(nil, r)
	}
	body = otr3.AppendData(body, newEnc)
	body = append(body, mac.Sum(nil)[:20]...)
	return encodeWire(w.hdr, body)
}

// MImpersonate: the public key inside X is replaced by the victim's, the sender's own signature stays
func MImpersonate(victim int) Mut {
	return Mut{fmt.Sprintf("(MImpersonate %d)", victim), "impersonate", func(s *Sys, from, to int, m []byte) []byte {
		return rewriteX(s, from, to, m, func(xb []byte) []byte {
			after, ok, _ := otr3.ParsePublicKey(xb)
			if !ok {
				return xb
			}
			victimSer := partyKeys[victim].Serialize()
			victimPub := victimSer[:len(victimSer)-len(otr3.AppendMPI(nil, partyKeys[victim].X))]
			return append(append([]byte{}, victimPub...), after...)
		})
	}}
}

// MBadX: X is replaced by bytes that do not parse as public key, key id, signature
func MBadX(kind int) Mut {
	return Mut{fmt.Sprintf("(MBadX %d)", kind), "unparsable-x", func(s *Sys, from, to int, m []byte) []byte {
		return rewriteX(s, from, to, m, func(xb []byte) []byte {
			x := append([]byte{}, xb...)
			switch kind {
			case 0: // unknown key type
				x[1] = 1
			case 1: // the first MPI of the key announces more bytes than there are
				x[2], x[3], x[4], x[5] = 0xff, 0xff, 0xff, 0xf0
			case 2: // cut inside the key
				x = x[:40]
			case 3: // key and key id, no signature
				if after, ok, _ := otr3.ParsePublicKey(xb); ok {
					x = x[:len(xb)-len(after)+4]
				}
			default: // nothing at all
				x = nil
			}
			return x
		})
	}}
}

func akeMutations(c *Ctx) []Mut {
	return []Mut{MAkeDamage(0), MAkeDamage(1), MAkeDamage(2), MAkeGroup(c.R.Intn(5)), MTruncate(), MTag(true, c.R.Intn(5)), MTag(false, c.R.Intn(5)), MVersion(2 + c.R.Intn(2))}
}

// C01: the key exchange authenticates the peer and both sides agree on the session
func genC01(c *Ctx) {
	c.Rep.Rule = "handshakes (query / refresh while encrypted / third party with its own key) in which AKE messages are damaged per field, replaced by out-of-range DH values, truncated, re-tagged, duplicated, replayed from another session, or re-signed by an impersonator advertising the victim's key; every step compared with the abstract machine; oracle: an encrypted conversation reports a peer key whose owner's genuine signature message it has received, equal SSID implies complementary highlight and mutual readability"
	groupRangeCases(c)
	// systematic part: every AKE message x every mutation x both orders
	akeSweep(c, !c.Thorough(), func(with, without *sweepRun) {
		s := with.s
		signed := map[int]map[int]bool{1: {2: true}, 2: {1: true}} // both parties' genuine signature messages are delivered
		c01Check(c, s, signed)
		// right after the damaged copy: a conversation that is encrypted reports the key of the party it has a session with
		if with.mutIdx >= 0 && with.encAfter && with.keyAfter != 1 && with.keyAfter != 2 {
			c.Violate("wrong-peer-key", with.label, fmt.Sprintf("after a rejected key-exchange message the encrypted conversation reports the key of party %d, who signed nothing", with.keyAfter), s.trace)
		}
		if with.panicked {
			c.Violate("panic", with.label, "a call panicked", s.trace)
		}
		for who := 1; who <= 2; who++ {
			if !s.ps[who].c.IsEncrypted() && with.rejected {
				c.Violate("ake-incomplete-after-rejected-message", with.label, "the genuine messages were all delivered, the damaged copy was rejected, yet the exchange did not complete", s.trace)
				break
			}
		}
		if s.panicked {
			c.Violate("panic", "ake", "a call panicked", s.trace)
		}
		c.AddScenario(s, with.pols)
	})
	n := 25
	if c.Thorough() {
		n = 300
	}
	for i := 0; i < n; i++ {
		pol := c.pickVersionPolicy()
		pols := []int{pol, pol, pol}
		s := newSys(pols, c.R.U64())
		s.keepSecrets()
		signedTo := map[int]map[int]bool{1: {}, 2: {}, 3: {}}
		deliver := func(from, idx, to int, m Mut) {
			w := parseWire(s.ps[from].outs[idx])
			s.Deliver(from, idx, to, m)
			// a mutation other than the impersonation leaves from's own signature in the message: if it is accepted
			// all the same (e.g. the receiver tag replaced by an equally valid one), from still signed this exchange
			if m.Kind != "impersonate" && w.kind == 3 && (w.typ == 0x11 || w.typ == 0x12) {
				signedTo[to][from] = true
			}
			c01Check(c, s, signedTo)
		}
		// optionally an earlier session whose messages are replayed later
		var old [][2]int
		if c.R.Chance(1, 3) {
			s.Handshake(1, 2)
			for idx := range s.ps[1].outs {
				old = append(old, [2]int{1, idx})
			}
			for idx := range s.ps[2].outs {
				old = append(old, [2]int{2, idx})
			}
			for who := 1; who <= 2; who++ {
				signedTo[3-who][who] = true
			}
			if c.R.Chance(1, 2) {
				s.End(1)
				s.Pump(1, 2, 10)
				s.End(2)
			}
			s.tick(130)
			c.Count("with-earlier-session")
		}
		a, b := 1, 2
		attacker := c.R.Chance(1, 4)
		if attacker { // party 3 (own key) starts an exchange with 2 and impersonates 1
			a = 3
			c.Count("impersonator")
		}
		s.Query(b, a) // a receives b's query and commits
		for round := 0; round < 12; round++ {
			progressed := false
			for _, pr := range [][2]int{{a, b}, {b, a}} {
				f, t := pr[0], pr[1]
				idx := s.next(f)
				if idx < 0 {
					continue
				}
				progressed = true
				w := parseWire(s.ps[f].outs[idx])
				if w.kind == 3 && c.R.Chance(1, 2) {
					muts := akeMutations(c)
					m := muts[c.R.Intn(len(muts))]
					if attacker && f == 3 && w.typ == 0x11 {
						m = MImpersonate(1)
					}
					c.Count("ake-mutation:" + m.Kind)
					deliver(f, idx, t, m)
					if attacker && m.Kind == "impersonate" {
						continue // the genuine one is not delivered: the impersonator only has the forged one
					}
				}
				if len(old) > 0 && c.R.Chance(1, 6) {
					o := old[c.R.Intn(len(old))]
					if o[0] != t {
						c.Count("cross-session-replay")
						deliver(o[0], o[1], t, MNone)
					}
				}
				deliver(f, idx, t, MNone)
				if c.R.Chance(1, 8) {
					c.Count("duplicate")
					deliver(f, idx, t, MNone)
				}
			}
			if !progressed {
				break
			}
		}
		// agreement: equal ssid => complementary halves, each reads the other
		for _, pr := range [][2]int{{1, 2}, {3, 2}} {
			x, y := s.ps[pr[0]], s.ps[pr[1]]
			if x.c.IsEncrypted() && y.c.IsEncrypted() && x.c.GetSSID() == y.c.GetSSID() {
				_, hx := x.c.SecureSessionID()
				_, hy := y.c.SecureSessionID()
				if hx == hy {
					c.Violate("ssid-halves-not-complementary", fmt.Sprintf("%d-%d", pr[0], pr[1]), "both sides highlight the same half", s.trace)
				}
				for _, d := range [][2]int{{pr[0], pr[1]}, {pr[1], pr[0]}} {
					t := []byte(fmt.Sprintf("probe-%d-%d", d[0], d[1]))
					s.Send(d[0], t)
					idx := len(s.ps[d[0]].outs) - 1
					s.ps[d[0]].pending = idx + 1
					plain, _ := s.Deliver(d[0], idx, d[1], MNone)
					if !bytes.Equal(plain, t) {
						c.Violate("same-session-cannot-read", fmt.Sprintf("%d->%d", d[0], d[1]), fmt.Sprintf("probe came back as %q", plain), s.trace)
					}
				}
			}
		}
		if s.panicked {
			c.Violate("panic", "ake", "a call panicked", s.trace)
		}
		c.AddScenario(s, pols)
		if i == 0 {
			c.Sample(s.trace[:min2(12, len(s.trace))])
		}
	}
}

func c01Check(c *Ctx, s *Sys, signedTo map[int]map[int]bool) {
	for who := 1; who < len(s.ps); who++ {
		p := s.ps[who]
		if !p.c.IsEncrypted() {
			continue
		}
		k := fpID(p.c.GetTheirKey())
		if k == 0 || k == 99 || !signedTo[who][k] {
			c.Violate("wrong-peer-key", fmt.Sprintf("party=%d reports=%d", who, k), "an encrypted conversation reports a peer key whose owner did not sign an exchange with it", s.trace)
		}
	}
}

// C07: the key exchange always completes on a reliable network, however it is started
type startKind int

func genC07(c *Ctx) {
	c.Rep.Rule = "start configurations {query by one side, queries by both, whitespace tag sent once / twice, error-triggered, Send under require-encryption once / twice, refresh by one / both} x version-policy pairs; the user actions of a configuration and the deliveries of the two FIFO queues are interleaved in EVERY possible order (stateless exploration with backtracking; capped per configuration in the quick tier, the cap is reported); every schedule's quiescent state is judged: both sides encrypted with one common SSID; a sample of the schedules is replayed on the abstract machine"
	cap := 120
	if c.Thorough() {
		cap = 4000
	}
	renegotiations(c)
	type action func(s *Sys)
	type config struct {
		name    string
		pa, pb  int
		prefix  func(s *Sys) bool
		actions []action
	}
	q12 := func(s *Sys) { s.Query(1, 2) }
	q21 := func(s *Sys) { s.Query(2, 1) }
	send1 := func(t string) action { return func(s *Sys) { s.Send(1, []byte(t)) } }
	errTo2 := func(s *Sys) {
		s.Inject(2, []byte("?OTR Error: please"), fmt.Sprintf("WError %s", coqBytes([]byte("please"))))
	}
	// the same while a session is up: the side that is told about an error (and has ERROR_START_AKE) asks for a new
	// exchange, whatever state its last exchange was left in
	errTo2enc := func(s *Sys) {
		before := len(s.ps[2].outs)
		errTo2(s)
		asked := false
		for _, o := range s.ps[2].outs[before:] {
			if parseWire(o).kind == 1 {
				asked = true
			}
		}
		if !asked {
			c.Violate("ake-incomplete", "error-start-while-encrypted", "an error message from the peer did not make the side with ERROR_START_AKE ask for a new key exchange", s.trace)
		}
	}
	established := func(s *Sys) bool {
		if !s.Handshake(1, 2) {
			return false
		}
		s.tick(130)
		return true
	}
	endedNow := func(s *Sys) bool { // party 1 ends the session, party 2 learns it; no time passes
		if !s.Handshake(1, 2) {
			return false
		}
		s.End(1)
		s.Pump(1, 2, 6)
		return true
	}
	var configs []config
	for _, vp := range [][2]int{{polV3, polV3}, {polV2, polV2 | polV3}, {polV2 | polV3, polV3}, {polV2 | polV3, polV2}, {polV3, polV2 | polV3},
		{polV2, polV2}, {polV2 | polV3, polV2 | polV3}} {
		configs = append(configs,
			config{"query-one", vp[0], vp[1], nil, []action{q12}},
			config{"query-both", vp[0], vp[1], nil, []action{q12, q21}},
			config{"whitespace", vp[0] | polSendWS, vp[1] | polWSStart, nil, []action{send1("hello")}},
			config{"whitespace-twice", vp[0] | polSendWS, vp[1] | polWSStart, nil, []action{send1("hello"), send1("hello again")}},
			config{"error-start", vp[0], vp[1] | polErrStart, nil, []action{errTo2}},
			config{"error-start-encrypted", vp[0], vp[1] | polErrStart, established, []action{errTo2enc}},
			config{"require-send", vp[0] | polRequire, vp[1], nil, []action{send1("needs encryption")}},
			config{"require-send-twice", vp[0] | polRequire, vp[1], nil, []action{send1("needs encryption"), send1("this one too")}},
			config{"after-end-at-once", vp[0], vp[1], endedNow, []action{q12}},
			config{"after-end-at-once-other-side", vp[0], vp[1], endedNow, []action{q21}},
			config{"refresh", vp[0], vp[1], established, []action{q12}},
			config{"refresh-both", vp[0], vp[1], established, []action{q12, q21}},
		)
	}
	for ci, cf := range configs {
		// quick: every configuration with the first policy pair; with the other pairs every single-start configuration
		// (one schedule each) and a third of the rest
		single := cf.name == "query-one" || cf.name == "whitespace" || cf.name == "error-start" || cf.name == "error-start-encrypted" || cf.name == "require-send" || cf.name == "refresh" ||
			strings.HasPrefix(cf.name, "after-end")
		if !c.Thorough() && ci >= 12 && !single && ci%3 != 0 { // quick: all twelve with the first policy pair, a third of the rest
			continue
		}
		seed := c.R.U64()
		// one execution: follow the choices (0 = next user action, 1 / 2 = deliver the head of that party's queue),
		// then always the first enabled choice; record what was enabled at every step
		run := func(choices []int) (s *Sys, taken []int, enabled [][]int, collision bool, ok bool) {
			pols := []int{cf.pa, cf.pb}
			s = newSys(pols, seed)
			if cf.prefix != nil && !cf.prefix(s) {
				return s, nil, nil, false, false
			}
			next := 0
			for step := 0; step < 80; step++ {
				var en []int
				if next < len(cf.actions) {
					en = append(en, 0)
				}
				for who := 1; who <= 2; who++ {
					p := s.ps[who]
					for p.pending < len(p.outs) && p.skip[p.pending] {
						p.pending++
					}
					if p.pending < len(p.outs) {
						en = append(en, who)
					}
				}
				if len(en) == 0 {
					break
				}
				ch := en[0]
				if step < len(choices) {
					ch = choices[step]
				}
				enabled = append(enabled, en)
				taken = append(taken, ch)
				if ch == 0 {
					cf.actions[next](s)
					next++
				} else {
					idx := s.next(ch)
					w := parseWire(s.ps[ch].outs[idx])
					if w.kind == 3 && w.typ == 0x02 && otr3.VerifSnapshot(s.ps[3-ch].c).AKEState == 1 {
						collision = true
					}
					s.Deliver(ch, idx, 3-ch, MNone)
				}
			}
			return s, taken, enabled, collision, true
		}
		explored, capped := 0, false
		var choices []int
		for {
			s, taken, enabled, collision, ok := run(choices)
			if !ok {
				c.Violate("handshake-failed", cf.name, "initial handshake did not complete", s.trace)
				break
			}
			explored++
			good := s.ps[1].c.IsEncrypted() && s.ps[2].c.IsEncrypted() && s.ps[1].c.GetSSID() == s.ps[2].c.GetSSID()
			if !good {
				trig := cf.name
				if collision {
					trig = "commit-collision"
				}
				c.Violate("ake-incomplete", trig, fmt.Sprintf("schedule %v: at quiescence encrypted=%v/%v, same ssid=%v", taken, s.ps[1].c.IsEncrypted(), s.ps[2].c.IsEncrypted(), s.ps[1].c.GetSSID() == s.ps[2].c.GetSSID()), s.trace)
			}
			if s.panicked {
				c.Violate("panic", cf.name, "a call panicked", s.trace)
			}
			if explored%6 == 1 {
				c.AddScenario(s, []int{cf.pa, cf.pb})
			} else {
				c.Rep.Evaluations++
			}
			// backtrack: the last step at which another enabled choice has not been taken yet
			k := len(taken) - 1
			for ; k >= 0; k-- {
				pos := 0
				for i, e := range enabled[k] {
					if e == taken[k] {
						pos = i
					}
				}
				if pos+1 < len(enabled[k]) {
					choices = append(append([]int{}, taken[:k]...), enabled[k][pos+1])
					break
				}
			}
			if k < 0 {
				break
			}
			if explored >= cap {
				capped = true
				break
			}
		}
		c.Count(fmt.Sprintf("start:%s:schedules=%d:exhaustive=%v", cf.name, explored, !capped))
	}
}
