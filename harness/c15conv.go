package main

import (
	"bytes"
	"fmt"

	otr3 "github.com/coyim/otr3"
)

// C15, conversation level: a conversation talks to one peer instance. Three parties (1 and 2 talk to each other, 3
// is another client instance); version 3 throughout.
//
// Oracle (stated on the real conversations): once a conversation is bound to a peer instance, a message whose sender
// tag is another one, or whose receiver tag is neither zero nor the conversation's own, yields no plaintext and no
// reply and leaves the state projection unchanged; and the genuine peer keeps working afterwards.

func c15Bound(s *Sys, who int) uint32 { return otr3.VerifSnapshot(s.ps[who].c).TheirTag }

// deliverForeign delivers output idx of party from to party to and checks that it is ignored
func c15DeliverForeign(c *Ctx, s *Sys, from, idx, to int, m Mut, what string) {
	before := otr3.VerifSnapshot(s.ps[to].c)
	nOut := len(s.ps[to].outs)
	plain, _ := s.Deliver(from, idx, to, m)
	after := otr3.VerifSnapshot(s.ps[to].c)
	replied := false
	for _, o := range s.ps[to].outs[nOut:] {
		if parseWire(o).kind != 2 {
			replied = true
		}
	}
	if plain != nil || replied || before != after {
		c.Violate("foreign-instance-message-processed", what, fmt.Sprintf("party %d processed a message of/for another instance: plaintext=%v reply=%v state %+v -> %+v", to, plain != nil, replied, before, after), s.trace)
	}
	s.dropFrom(to, nOut)
}

func c15Works(c *Ctx, s *Sys, a, b int, what string) {
	if !(s.ps[a].c.IsEncrypted() && s.ps[b].c.IsEncrypted()) {
		s.tick(130)
		s.Query(b, a)
		s.Pump(a, b, 24)
	}
	t := []byte("after " + what)
	s.Send(a, t)
	s.Pump(a, b, 10)
	pl := s.ps[b].plains
	if len(pl) == 0 || string(pl[len(pl)-1]) != string(t) {
		c.Violate("genuine-peer-cut-off", what, "after the foreign message the genuine peer instance can no longer establish a session / deliver text", s.trace)
	}
}

func c15Conv(c *Ctx) {
	pols := []int{polV3, polV3, polV3}
	// 1. the first message a fresh conversation sees is addressed to another instance / carries a bad sender tag
	for _, snd := range []bool{false, true} {
		for cls := 0; cls < 5; cls++ {
			if snd && cls == 4 {
				continue // a fresh conversation may be addressed by any valid instance: nothing to isolate yet
			}
			s := newSys(pols, c.R.U64())
			s.Query(2, 1) // 1 commits; 2 has not sent or received anything yet
			m := MTag(snd, cls)
			genuine := s.ps[1].outs[0]
			changed := string(m.f(s, 1, 2, genuine)) != string(genuine)
			accept := !snd && cls == 0 || !changed // receiver tag 0 is allowed on a message that starts an exchange
			what := fmt.Sprintf("fresh,%s", m.Coq)
			if accept {
				s.Deliver(1, 0, 2, m)
			} else {
				c15DeliverForeign(c, s, 1, 0, 2, m, what)
				s.Deliver(1, 0, 2, MNone)
			}
			s.ps[1].pending = 1
			s.Pump(1, 2, 20)
			c15Works(c, s, 1, 2, what)
			c.Count("c15:first-message")
			c.AddScenario(s, pols)
		}
	}
	// 2. bound to an instance: messages from the third party in every later phase
	for phase := 0; phase < 6; phase++ {
		for variant := 0; variant < 3; variant++ {
			s := newSys(pols, c.R.U64())
			if !s.Handshake(1, 2) {
				c.Violate("handshake-failed", "c15", "plain handshake failed", s.trace)
				continue
			}
			bound := c15Bound(s, 1)
			name := []string{"encrypted", "after-End", "after-peer-disconnect", "refresh-in-flight", "after-End-and-tick", "after-End-twice"}[phase]
			switch phase {
			case 1:
				s.End(1)
				s.Pump(1, 2, 6)
			case 2:
				s.End(2)
				s.Pump(1, 2, 6)
			case 3:
				s.tick(130)
				s.Query(2, 1)
			case 4:
				s.End(1)
				s.Pump(1, 2, 6)
				s.tick(400)
			case 5:
				s.End(1)
				s.Pump(1, 2, 6)
				s.End(1)
			}
			if b := c15Bound(s, 1); b != bound {
				c.Violate("peer-instance-forgotten", name, fmt.Sprintf("the peer instance tag changed from %#x to %#x without a message from another instance being accepted", bound, b), s.trace)
			}
			what := fmt.Sprintf("%s,variant=%d", name, variant)
			switch variant {
			case 0: // the other instance answers a query of party 1 with its own D-H Commit
				s.Query(1, 3)
				idx := len(s.ps[3].outs) - 1
				s.ps[3].pending = idx + 1
				c15DeliverForeign(c, s, 3, idx, 1, MNone, what)
			case 1: // a data message of the genuine peer with the sender tag replaced by another valid one
				if s.ps[2].c.IsEncrypted() {
					s.Send(2, []byte("from the right instance"))
					idx := len(s.ps[2].outs) - 1
					c15DeliverForeign(c, s, 2, idx, 1, MTag(true, 4), what)
					s.Deliver(2, idx, 1, MNone)
					s.ps[2].pending = idx + 1
				}
			case 2: // a whole exchange attempted by the other instance
				s.Query(1, 3)
				idx := len(s.ps[3].outs) - 1
				s.ps[3].pending = idx + 1
				c15DeliverForeign(c, s, 3, idx, 1, MNone, what)
				if n := s.next(1); n >= 0 { // anything party 1 answered goes to the other instance
					s.Deliver(1, n, 3, MNone)
				}
			}
			s.Pump(1, 2, 20)
			c15Works(c, s, 1, 2, what)
			c.Count("c15:bound:" + name)
			c.AddScenario(s, pols)
		}
	}
	// 3. the key-exchange sweep restricted to tag mutations (every AKE message, both orders)
	akeSweepTags(c)
}

func akeSweepTags(c *Ctx) {
	for _, typ := range akeTypes {
		for _, snd := range []bool{false, true} {
			for cls := 0; cls < 5; cls++ {
				for _, late := range []bool{false, true} {
					m := MTag(snd, cls)
					seed := c.R.U64()
					with := akeSweepRun(polV3, seed, typ, m, late, true, false)
					if with.mutIdx < 0 {
						continue
					}
					without := akeSweepRun(polV3, seed, typ, m, late, false, false)
					sweepInert(c, with, without)
					c.Count("c15:ake-tag-sweep")
					c.AddScenario(with.s, with.pols)
				}
			}
		}
	}
}

// a fragment that is rejected (well-formed tags, a body that does not parse) must not bind a fresh conversation to the
// instance it claims to come from: afterwards the genuine peer still gets through
func c15RejectedFragments(c *Ctx) {
	bodies := []string{"70000,00004,x,", "00001,0000x,x,", "00001,00002", ",,,", "00001,00002,x", "1,2,3"}
	for _, b := range bodies {
		for _, rt := range []string{"00000000", "own"} {
			pols := []int{polV3, polV3}
			s := newSys(pols, c.R.U64())
			// party 1 draws its own tag by sending a query answer later; before anything else it is shown the fragment
			r := rt
			if rt == "own" {
				s.Query(2, 1) // makes party 1 draw its tag (D-H Commit)
				s.dropFrom(1, 0)
				r = fmt.Sprintf("%08x", otr3.VerifSnapshot(s.ps[1].c).OurTag)
				s.End(1)
			}
			frag := []byte("?OTR|0badc0de|" + r + "," + b)
			before := c15Bound(s, 1)
			_, _, err := s.ps[1].c.Receive(frag)
			after := c15Bound(s, 1)
			what := fmt.Sprintf("rejected-fragment,body=%q,receiver=%s", b, rt)
			c.Count("c15:rejected-fragment")
			c.Rep.Evaluations++
			if err != nil && before == 0 && after != 0 {
				c.Violate("bound-by-rejected-message", what, fmt.Sprintf("a fragment that Receive rejected (%v) bound the conversation to instance %#x", err, after), map[string]string{"fragment": string(frag)})
				continue
			}
			s.tick(200)
			if !s.Handshake(2, 1) {
				c.Violate("genuine-peer-cut-off", what, "after a rejected fragment claiming another instance the genuine peer can no longer establish a session", map[string]string{"fragment": string(frag)})
			}
		}
	}
}

// a fragment without tags (version 2 format) is not for a version 3 conversation: shown between the pieces of the
// peer's message it must not disturb their reassembly
func c15TaglessFragments(c *Ctx) {
	const our = 0x205
	for _, intr := range []string{"?OTR,00001,00002,zz,", "?OTR,00001,00001,zz,", "?OTR,00002,00003,zz,"} {
		for at := 1; at <= 2; at++ {
			conv := newPlainConv(3, our)
			data := c.genPayload(80)
			pieces := otr3.VerifFragment(3, 0x301, our, data, 70)
			if len(pieces) < 3 {
				continue
			}
			var got [][]byte
			for i, p := range pieces {
				if i == at {
					if pl, _, _ := conv.Receive([]byte(intr)); pl != nil {
						got = append(got, pl)
					}
				}
				if pl, _, _ := conv.Receive(p); pl != nil {
					got = append(got, pl)
				}
			}
			// the same in an established session, where the version is fixed and the reassembled message is a data message
			func() {
				pols := []int{polV3, polV3}
				s := newSys(pols, c.R.U64())
				if !s.Handshake(1, 2) {
					return
				}
				a, b := s.ps[1].c, s.ps[2].c
				a.SetFragmentSize(120)
				text := []byte("in pieces, please")
				msgs, err := a.Send(text)
				if err != nil || len(msgs) < 3 {
					return
				}
				var plains [][]byte
				for i, m := range msgs {
					if i == at {
						if pl, _, _ := b.Receive([]byte(intr)); pl != nil {
							plains = append(plains, pl)
						}
					}
					if pl, _, _ := b.Receive(m); pl != nil {
						plains = append(plains, pl)
					}
				}
				if len(plains) != 1 || !bytes.Equal(plains[0], text) {
					c.Violate("foreign-instance-message-processed", "tagless-fragment,established", fmt.Sprintf("a version 2 format fragment %q shown to an established version 3 conversation after piece %d of %d changed what was delivered: %q", intr, at, len(msgs), plains), nil)
				}
			}()
			c.Count("c15:tagless-fragment")
			c.Rep.Evaluations++
			if len(got) != 1 || !bytes.Equal(got[0], data) {
				c.Violate("foreign-instance-message-processed", "tagless-fragment", fmt.Sprintf("a version 2 format fragment %q shown to a version 3 conversation after piece %d changed what was delivered: %q instead of the peer's message", intr, at, got), nil)
			}
		}
	}
}
