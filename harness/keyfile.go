package main

import (
	"bytes"
	"fmt"
	"math/big"
	"os"
	"path/filepath"

	otr3 "github.com/coyim/otr3"
)

// libotr key-file layer above the s-expression reader: ExportKeysToFile, ImportKeys and DSAPrivateKey.Import against
// Bytes/KeyFile.v (fn 121, 122, 123), plus the round-trip oracles export -> ImportKeys and export -> Import.

func renderBig(n *big.Int) Val {
	if n == nil {
		return VNone{}
	}
	neg := 0
	if n.Sign() < 0 {
		neg = 1
	}
	return L(N(neg), NB(new(big.Int).Abs(n)))
}

func renderAccount(a *otr3.Account) Val {
	k, _ := a.Key.(*otr3.DSAPrivateKey)
	if k == nil {
		return VErr(996)
	}
	return L(B([]byte(a.Name)), B([]byte(a.Protocol)),
		L(renderBig(k.PrivateKey.P), renderBig(k.PrivateKey.Q), renderBig(k.PrivateKey.G), renderBig(k.PrivateKey.Y), renderBig(k.PrivateKey.X)))
}

func importKeysCase(c *Ctx, in []byte) {
	out := guard(func() Val {
		acs, err := otr3.ImportKeys(bytes.NewReader(in))
		if err != nil {
			return VNone{}
		}
		vs := []Val{}
		for _, a := range acs {
			vs = append(vs, renderAccount(a))
		}
		return VL(vs)
	})
	if _, isP := out.(VPanic); isP {
		c.Violate("panic", "ImportKeys", "panic while importing a key file", map[string]string{"input": string(trunc200(in))})
	}
	c.AddCase(121, "ImportKeys", out, B(in))
}

func importPrivCase(c *Ctx, in []byte) {
	var ret bool
	var k otr3.DSAPrivateKey
	out := guard(func() Val {
		ret = k.Import(in)
		pk := k.PrivateKey
		if pk.P == nil && pk.Q == nil && pk.G == nil && pk.Y == nil && pk.X == nil {
			return VNone{}
		}
		return L(NB(pk.P), NB(pk.Q), NB(pk.G), NB(pk.Y), NB(pk.X))
	})
	if _, isP := out.(VPanic); isP {
		// the numbers are assigned before the consistency check; a panic inside that check (e.g. modulus 0) is C13's
		// business (guarded there); for the correspondence take what was assigned
		pk := k.PrivateKey
		if pk.P != nil && pk.Q != nil && pk.G != nil && pk.Y != nil && pk.X != nil {
			out = L(NB(pk.P), NB(pk.Q), NB(pk.G), NB(pk.Y), NB(pk.X))
		}
		c.Count("import-check-panics")
	} else if l, isL := out.(VL); isL && len(l) == 5 {
		pk := k.PrivateKey
		// (the constant-time exponentiation is defined for odd moduli only, which every DSA prime is,
		// and for a base below the modulus; the answer on degenerate parameter sets is not the property's business)
		if pk.P.Bit(0) == 1 && pk.P.BitLen() >= 512 && pk.P.BitLen() <= 2048 && pk.X.BitLen() <= 512 && pk.G.Sign() > 0 && pk.G.Cmp(pk.P) < 0 && pk.Y.Sign() > 0 && pk.Y.Cmp(pk.P) < 0 {
			want := new(big.Int).Exp(pk.G, pk.X, pk.P).Cmp(pk.Y) == 0
			if want != ret {
				c.Violate("roundtrip-mismatch", "DSAPrivateKey.Import", fmt.Sprintf("Import answered %v but g^x mod p == y is %v", ret, want), map[string]string{"input": string(trunc200(in))})
			}
		}
	} else if ret {
		c.Violate("roundtrip-mismatch", "DSAPrivateKey.Import", "Import answered true without assigning a key", map[string]string{"input": string(trunc200(in))})
	}
	c.AddCase(123, "DSAPrivateKey.Import", out, B(in))
}

// an account with synthetic numbers (small, odd digit counts, zero, occasionally nil or negative)
func (c *Ctx) synthAccount(plainOnly bool) *otr3.Account {
	num := func() *big.Int {
		switch c.R.Intn(12) {
		case 0:
			return big.NewInt(0)
		case 1:
			return big.NewInt(int64(c.R.Intn(16)))
		case 2:
			if !plainOnly {
				return nil
			}
		case 3:
			if !plainOnly {
				return big.NewInt(-int64(c.R.Intn(5000)))
			}
		}
		return new(big.Int).SetBytes(c.R.Bytes(1 + c.R.Intn(12)))
	}
	nameChars := "abcdefghijklmnopqrstuvwxyzABCDEFGHIJKLMNOPQRSTUVWXYZ0123456789@._-+/ ()#\n\t'\\"
	if plainOnly {
		nameChars = "abcdefghijklmnopqrstuvwxyzABCDEFGHIJKLMNOPQRSTUVWXYZ0123456789@._-+/ ()\n\t'\\"
	}
	nm := make([]byte, c.R.Intn(14))
	for i := range nm {
		nm[i] = nameChars[c.R.Intn(len(nameChars))]
	}
	if c.R.Intn(6) == 0 {
		nm = append(nm, byte(0x80+c.R.Intn(0x80)))
	}
	protos := []string{"prpl-jabber", "libpurple-Jabber", "xmpp", "irc", "p", "a.b/c", "x\"y", "q#"}
	if plainOnly {
		protos = protos[:7]
	}
	var k otr3.DSAPrivateKey
	k.PrivateKey.P, k.PrivateKey.Q, k.PrivateKey.G, k.PrivateKey.Y, k.PrivateKey.X = num(), num(), num(), num(), num()
	k.DSAPublicKey.PublicKey = k.PrivateKey.PublicKey
	return &otr3.Account{Name: string(nm), Protocol: protos[c.R.Intn(len(protos))], Key: &k}
}

func exportBytes(acs []*otr3.Account, tag string) ([]byte, error) {
	dir := os.Getenv("VERIF_SCRATCH")
	if dir == "" {
		dir = os.TempDir()
	}
	f := filepath.Join(dir, fmt.Sprintf("verif-kf-%d-%s.txt", os.Getpid(), tag))
	defer os.Remove(f)
	if err := otr3.ExportKeysToFile(acs, f); err != nil {
		return nil, err
	}
	return os.ReadFile(f)
}

func keyFileCases(c *Ctx, n int) {
	fixed := []string{"", "(", "(privkeys)", "(privkeys\n)\n", "(privkeys (account))", "(privkeys (account (name \"a\") (protocol p) (private-key (dsa (p #1#) (q #2#) (g #3#) (y #4#) (x #5#)))))",
		"(privkeys (account (name a) (protocol p) (private-key (dsa (p #1#) (z #2#)))))", "(privkeys (account (name \"a\") (protocol \"p\") (private-key (dsa))))",
		"(privkeys (account (name \"a\") (protocol p) (private-key (dsa (p #1# junk)))))", "(privkeys (account (name \"a\") (protocol p) (private-key (dsa (p #xyz#)))) )",
		"(privkeys (account (name \"a\") (protocol p) (private-key (dsa (p \"1\")))))", "(privkeys (account (name \"a\") (protocol p) (private-key (dsa (p #1#)))) (account",
		"(other (account (name \"a\") (protocol p) (private-key (dsa (p #1#)))))", " #1# #22# #333# #4# #5# ", " #1# #22# #333# #4# #5", " #1# #22# #333# #4#", " #1 #2 #3 #4 #5 ", " # # # # # ",
		"x #0A# #0b# #C# #dd# #EEE#)", " #1#2 #3# #4 #5# #6# #7#"}
	for _, s := range fixed {
		importKeysCase(c, []byte(s))
		importPrivCase(c, []byte(s))
	}
	alphabet := []byte("()\"# \nabF0-1")
	for i := 0; i < n; i++ {
		var acs []*otr3.Account
		plain := c.R.Intn(3) != 0
		for k := c.R.Intn(3); k >= 0; k-- {
			if i%10 == 9 {
				acs = append(acs, &otr3.Account{Name: "full@size", Protocol: "prpl-jabber", Key: partyKeys[1+c.R.Intn(4)]})
			} else {
				acs = append(acs, c.synthAccount(plain))
			}
		}
		if i == 0 {
			acs = nil
		}
		file, err := exportBytes(acs, fmt.Sprint(i))
		if err != nil {
			c.Violate("roundtrip-mismatch", "key-file", "ExportKeysToFile failed: "+err.Error(), nil)
			continue
		}
		vs := []Val{}
		for _, a := range acs {
			vs = append(vs, renderAccount(a))
		}
		c.AddCase(122, "exportAccounts", B(file), VL(vs))
		importKeysCase(c, file)
		importPrivCase(c, file)
		// damaged variants
		for m := 0; m < 3; m++ {
			b := append([]byte{}, file...)
			if len(b) > 700 {
				b = b[:700]
			}
			switch c.R.Intn(4) {
			case 0:
				b = b[:c.R.Intn(len(b)+1)]
			case 1:
				if len(b) > 0 {
					p := c.R.Intn(len(b))
					b = append(b[:p], b[p+1:]...)
				}
			case 2:
				p := c.R.Intn(len(b) + 1)
				b = append(b[:p], append([]byte{alphabet[c.R.Intn(len(alphabet))]}, b[p:]...)...)
			default:
				if len(b) > 0 {
					b[c.R.Intn(len(b))] = alphabet[c.R.Intn(len(alphabet))]
				}
			}
			importKeysCase(c, b)
			importPrivCase(c, b)
		}
		// oracles: what was exported comes back, through both readers
		if plain {
			got, err := otr3.ImportKeys(bytes.NewReader(file))
			if err != nil || len(got) != len(acs) {
				c.Violate("roundtrip-mismatch", "key-file", fmt.Sprintf("exported %d accounts, ImportKeys: %d accounts, error %v", len(acs), len(got), err), map[string]string{"file_head": string(trunc200(file))})
			} else {
				for j := range acs {
					if coqStr(renderAccount(acs[j])) != coqStr(renderAccount(got[j])) {
						c.Violate("roundtrip-mismatch", "key-file", fmt.Sprintf("account %d differs after export and ImportKeys", j), map[string]string{"file_head": string(trunc200(file))})
					}
				}
			}
			if len(acs) > 0 {
				var k otr3.DSAPrivateKey
				w := acs[0].Key.(*otr3.DSAPrivateKey).PrivateKey
				pan := guard(func() Val { k.Import(file); return VNone{} })
				_, isP := pan.(VPanic)
				g := k.PrivateKey
				if !isP && (g.P == nil || g.P.Cmp(w.P) != 0 || g.Q.Cmp(w.Q) != 0 || g.G.Cmp(w.G) != 0 || g.Y.Cmp(w.Y) != 0 || g.X.Cmp(w.X) != 0) {
					c.Violate("roundtrip-mismatch", "key-file", "the first exported key does not come back through DSAPrivateKey.Import", map[string]string{"file_head": string(trunc200(file)), "account": fmt.Sprintf("%q/%s", acs[0].Name, acs[0].Protocol)})
				}
			}
		}
		c.Count("key-file-exports")
	}
}
