package main

import (
	"bytes"
	"fmt"

	otr3 "github.com/coyim/otr3"
)

func init() {
	generators["C09"] = genC09
	generators["C19"] = genC19
}

type usedKey struct {
	pair      [2]uint32
	key       []byte
	retiredAt int // number of data messages the party had emitted when the pair was seen retired; -1 = live
	disclosed bool
	old       bool // belongs to a session that a refresh exchange has replaced
}

// C09: MAC keys are disclosed only once retired, and then they are disclosed
func genC09(c *Ctx) {
	c.Rep.Rule = "sessions with random interleavings (ping-pong, one-directional streams, crossings); every emitted data message is audited: each disclosed key is compared with the receiving MAC keys of the discloser's live key pairs, recomputed independently from the DH values; every receiving key used to accept a message must be disclosed in the first data message sent after its pair retired; steps compared with the abstract machine (key counts)"
	n := 120
	steps := 50
	if c.Thorough() {
		n, steps = 800, 120
	}
	for i := 0; i < n; i++ {
		pol := c.pickVersionPolicy()
		pols := []int{pol, pol}
		s := newSys(pols, c.R.U64())
		if !s.Handshake(1, 2) {
			continue
		}
		used := map[int][]*usedKey{1: nil, 2: nil}
		emitted := map[int]int{1: 0, 2: 0}
		audit := func(who int, outs [][]byte, windowBefore map[[2]uint32][]byte) {
			for _, m := range outs {
				w := parseWire(m)
				if w.kind != 4 {
					continue
				}
				// safety: against the window at the moment of sending (after the call the window is the same: sending does not rotate)
				win := refWindowRecvMACs(s.ps[who].c)
				for _, dk := range w.data.OldMACKeys {
					for pair, k := range win {
						if bytes.Equal(dk, k) {
							c.Violate("live-key-disclosed", fmt.Sprintf("pair=%v", pair), "a data message discloses the receiving MAC key of a key pair the discloser still accepts", s.trace)
						}
					}
					for _, u := range used[who] {
						if bytes.Equal(u.key, dk) {
							u.disclosed = true
						}
					}
				}
				// completeness: keys retired before this message must be in it (or have been disclosed before)
				for _, u := range used[who] {
					if u.retiredAt >= 0 && u.retiredAt <= emitted[who] && !u.disclosed {
						c.Violate("used-key-not-disclosed", fmt.Sprintf("pair=%v", u.pair), "a receiving MAC key that accepted a message was not disclosed in the first data message after its pair retired", s.trace)
						u.disclosed = true
					}
				}
				emitted[who]++
			}
		}
		sess := map[int][8]byte{1: s.ps[1].c.GetSSID(), 2: s.ps[2].c.GetSSID()}
		afterCall := func(who int) {
			km := otr3.VerifKeys(s.ps[who].c)
			if id := s.ps[who].c.GetSSID(); id != sess[who] {
				// a refresh exchange has replaced the session: every key pair of the old one is retired by that
				sess[who] = id
				for _, u := range used[who] {
					if u.retiredAt < 0 {
						u.retiredAt = emitted[who]
					}
					u.old = true
				}
				c.Count("session-replaced-by-refresh")
			}
			for _, u := range used[who] {
				if u.old {
					continue
				}
				if u.retiredAt < 0 && (u.pair[0]+1 < km.OurKeyID || u.pair[1]+1 < km.TheirKeyID) {
					u.retiredAt = emitted[who]
				}
			}
		}
		tn := 0
		mode := c.R.Intn(3) // 0 random, 1 one-directional bursts, 2 crossing-heavy
		faulty := i%5 == 4  // the random source fails now and then (a rotation that cannot draw its new key)
		if faulty {
			c.Count("history:with-randomness-faults")
		}
		refreshes := 0
		if i%3 == 1 && !faulty {
			refreshes = 1 + c.R.Intn(2)
			c.Count("history:with-refresh-exchange")
		}
		for k := 0; k < steps; k++ {
			a := 1 + c.R.Intn(2)
			if mode == 1 && c.R.Chance(4, 5) {
				a = 1
			}
			b := 3 - a
			if refreshes > 0 && k > 6 && c.R.Chance(1, 8) {
				// a key exchange while encrypted: b's query arrives at a, the exchange runs inside the traffic that follows
				refreshes--
				before := len(s.ps[a].outs)
				s.tick(200) // (a query that follows a key exchange within a minute is taken for an echo and ignored)
				s.Query(b, a)
				afterCall(a)
				audit(a, s.ps[a].outs[before:], nil)
				continue
			}
			sendP := 4
			if mode == 2 {
				sendP = 6
			}
			if c.R.Intn(10) < sendP {
				tn++
				outs := s.Send(a, []byte(fmt.Sprintf("k%d", tn)))
				audit(a, outs, nil)
				afterCall(a)
				c.Count("op:send")
			} else if idx := s.next(a); idx >= 0 {
				win := refWindowRecvMACs(s.ps[b].c)
				w := parseWire(s.ps[a].outs[idx])
				before := len(s.ps[b].outs)
				if faulty && c.R.Chance(1, 4) {
					s.ps[b].rnd.fail = 1
				}
				plain, _ := s.Deliver(a, idx, b, MNone)
				s.ps[b].rnd.fail = 0
				if w.kind == 4 && (plain != nil || eventsHave(s.ps[b].events, 10)) {
					pair := [2]uint32{w.data.RecipientKeyID, w.data.SenderKeyID}
					if k, ok := win[pair]; ok {
						dup := false
						for _, u := range used[b] {
							if bytes.Equal(u.key, k) {
								dup = true
							}
						}
						if !dup {
							used[b] = append(used[b], &usedKey{pair: pair, key: k, retiredAt: -1})
						}
					}
				}
				afterCall(b)
				audit(b, s.ps[b].outs[before:], nil)
				c.Count("op:deliver")
			}
		}
		s.Pump(1, 2, 100)
		if faulty {
			c.Rep.Evaluations += len(s.ops) // (the abstract machine has no failing random source: oracle only)
		} else {
			c.AddScenario(s, pols)
		}
		if i == 0 {
			c.Sample(s.trace[:min2(10, len(s.trace))])
		}
	}
}

func eventsHave(evs []int, e int) bool {
	for _, x := range evs {
		if x == e {
			return true
		}
	}
	return false
}

// C19: retained state is bounded whatever the traffic
func genC19(c *Ctx) {
	c.Rep.Rule = "traffic patterns (ping-pong, one-directional stream, forged/garbage flood, crossing bursts, repeated error+re-AKE) run for n, 2n and 4n rounds; internal sizes (counters, MAC-key history, undisclosed keys, resend queue, injections) and the length of the last emitted message must not grow with n; shorter runs compared step by step with the abstract machine"
	base := 12
	if c.Thorough() {
		base = 100
	}
	patterns := []string{"pingpong", "oneway", "listen-heartbeat", "listen-rekey", "forged-flood", "crossing", "error-reake", "answers-lost", "answers-late", "bad-fragment-flood", "plaintext-flood"}
	for _, pat := range patterns {
		var sizes [][]int
		for _, mult := range []int{1, 2, 4} {
			pol := polV3
			if c.R.Chance(1, 3) {
				pol = polV2
			}
			if pat == "error-reake" {
				pol |= polErrStart
			}
			if pat == "bad-fragment-flood" {
				pol = polV3
			}
			pols := []int{pol, pol}
			if pat == "listen-rekey" {
				// party 1 only listens and lets a whitespace tag start a key exchange; party 2 tags what it writes in the clear
				pols = []int{pol | polWSStart, pol | polSendWS}
			}
			s := newSys(pols, c.R.U64())
			if pat == "listen-rekey" {
				s.Send(2, []byte("hello"))
				s.Pump(1, 2, 20)
				if !(s.ps[1].c.IsEncrypted() && s.ps[2].c.IsEncrypted()) {
					continue
				}
			} else if !s.Handshake(1, 2) {
				continue
			}
			n := base * mult
			lastLen := 0
			for r := 0; r < n; r++ {
				switch pat {
				case "pingpong":
					a := 1 + r%2
					o := s.Send(a, []byte("pp"))
					lastLen = len(o[len(o)-1])
					s.Pump(1, 2, 10)
				case "oneway":
					o := s.Send(1, []byte("ow"))
					lastLen = len(o[len(o)-1])
					s.Pump(1, 2, 10)
				case "listen-heartbeat":
					// the peer writes once a minute or so, we only listen: what goes back are heartbeats (sent by Receive
					// itself), which acknowledge keys, so both sides keep rotating; at the end we write one real message
					s.tick(70)
					s.Send(1, []byte("lh"))
					s.Pump(1, 2, 10)
					if r == n-1 {
						o := s.Send(2, []byte("finally an answer"))
						lastLen = len(o[len(o)-1])
						s.Pump(1, 2, 10)
					}
				case "listen-rekey":
					// no time passes: the peer writes one line, forgets the session (its notice is lost) and writes in the
					// clear again, which makes us run a new key exchange over the old session - again and again, while
					// we never write anything ourselves; at the end the peer writes once more and we answer
					s.Send(2, []byte("lr"))
					s.Pump(1, 2, 10)
					before := len(s.ps[2].outs)
					s.End(2)
					s.dropFrom(2, before)
					s.Send(2, []byte("in the clear"))
					s.Pump(1, 2, 20)
					if r == n-1 {
						s.Send(2, []byte("one more"))
						s.Pump(1, 2, 10)
						o := s.Send(1, []byte("finally an answer"))
						lastLen = 0
						for _, m := range o {
							lastLen += len(m)
						}
						s.Pump(1, 2, 10)
					}
				case "forged-flood":
					o := s.Send(1, []byte("ff"))
					lastLen = len(o[len(o)-1])
					idx := len(s.ps[1].outs) - 1
					for _, m := range []Mut{MFlipMac(), MCtr(1000 + r), MSk(7), MRk(7), MTruncate()} {
						before := len(s.ps[2].outs)
						s.Deliver(1, idx, 2, m)
						s.dropFrom(2, before)
					}
					s.Inject(2, []byte("?OTR:garbage!!."), "WUnknown")
					s.Inject(2, []byte("?OTR:AAMD*not*base64*."), "WUndecodable")
					s.Pump(1, 2, 10)
				case "crossing":
					s.Send(1, []byte("c1"))
					o := s.Send(2, []byte("c2"))
					lastLen = len(o[len(o)-1])
					s.Send(1, []byte("c3"))
					s.Pump(1, 2, 10)
				case "answers-lost", "answers-late":
					// the peer streams, we answer every message, our answers do not arrive (yet): sending and receiving
					// alternate while no key rotates
					s.Send(1, []byte("st"))
					s.Pump(1, 2, 1)
					before := len(s.ps[2].outs)
					o := s.Send(2, []byte("an"))
					lastLen = len(o[len(o)-1])
					if pat == "answers-lost" {
						s.dropFrom(2, before)
					} else if r == n-1 {
						s.Pump(1, 2, 4*n)
						o := s.Send(2, []byte("an-last"))
						lastLen = len(o[len(o)-1])
						s.Pump(1, 2, 10)
					} else {
						// keep party 2's answers in flight: deliver only party 1's
						s.ps[2].pending = before
					}
				case "bad-fragment-flood":
					// fragments that are refused (malformed instance tag, illegal index, garbage): nothing may pile up
					for _, f := range []string{"?OTR|00000005|00000000,00001,00002,xx,", "?OTR|00000100|00000007,00001,00002,xx,", "?OTR,00000,00002,xx,", "?OTR|zz", "?OTR,00003,00002,xx,"} {
						func() {
							defer func() { recover() }()
							s.ps[2].c.Receive([]byte(f))
						}()
					}
					if r == n-1 {
						o := s.Send(2, []byte("after the flood"))
						lastLen = 0
						for _, m := range o {
							lastLen += len(m)
						}
					}
				case "plaintext-flood":
					for _, f := range []string{"hello", "?OTR Error: x", "?OTRv9?", "?OTR:AAEK."} {
						func() {
							defer func() { recover() }()
							s.ps[2].c.Receive([]byte(f))
						}()
					}
					if r == n-1 {
						o := s.Send(2, []byte("after the flood"))
						lastLen = 0
						for _, m := range o {
							lastLen += len(m)
						}
					}
				case "error-reake":
					o := s.Send(1, []byte("er"))
					lastLen = len(o[len(o)-1])
					s.Pump(1, 2, 10)
					if r%4 == 3 {
						s.tick(130)
						s.Inject(1, []byte("?OTR Error: x"), "WError [120]")
						s.Pump(1, 2, 20)
					}
				}
			}
			total := 0
			for who := 1; who <= 2; who++ {
				st := otr3.VerifSnapshot(s.ps[who].c)
				total += st.NCounters + st.NMacHistory + st.NOldMACKeys + st.NResend
			}
			sizes = append(sizes, []int{n, total, lastLen})
			if mult == 1 && pat != "bad-fragment-flood" && pat != "plaintext-flood" && pat != "answers-late" {
				c.AddScenario(s, pols)
			} else {
				c.Rep.Evaluations++
			}
			if s.panicked {
				c.Violate("panic", pat, "a call panicked", s.trace[len(s.trace)-min2(6, len(s.trace)):])
			}
		}
		c.Count("pattern:" + pat)
		c.Sample(map[string]interface{}{"pattern": pat, "n_total_lastlen": sizes})
		if len(sizes) == 3 {
			if sizes[2][1] > sizes[0][1]+2 || sizes[2][1] > 30 {
				c.Violate("state-grows", pat, fmt.Sprintf("retained entries (n,total,len) = %v", sizes), sizes)
			}
			if sizes[2][2] > sizes[0][2]+64 {
				c.Violate("message-grows", pat, fmt.Sprintf("message length grows with history: %v", sizes), sizes)
			}
		}
	}
}
