package main

import (
	"bufio"
	enchex "encoding/hex"
	"fmt"
	"os"
	"os/exec"
	"path/filepath"
	"runtime/debug"
	"strings"
	"time"
)

// A receiver that re-enters itself without end on a crafted input dies of a stack overflow, which Go cannot recover
// from: the probes that could do that (fragments that carry a fragment) are therefore run first in a child process
// (this same binary, generator "C13nested"), which prints every input before it is fed.  If the child dies, the last
// line it printed is the failing input.
func init() { generators["C13nested"] = genC13Nested }

func genC13Nested(c *Ctx) {
	debug.SetMaxStack(64 << 20)
	for _, pol := range []int{polV3, polV2, polV2 | polV3} {
		for st := 0; st <= 6; st++ {
			s := c13State(c, st, pol)
			for to := 1; to <= 2; to++ {
				for i, in := range nestedFragments(s, to) {
					fmt.Printf("NESTED pol=%d state=%d to=%d i=%d %s\n", pol, st, to, i, enchex.EncodeToString(in))
					s.ps[to].c.Receive(in)
					c.Rep.Evaluations++
				}
			}
		}
	}
	fmt.Println("NESTED-DONE")
}

// runs the child; true = the child got through every probe
func nestedFragmentsInChild(c *Ctx) bool {
	dir := filepath.Join(c.Out, "nested")
	cmd := exec.Command(os.Args[0], "C13nested", c.Tier, fmt.Sprint(c.Seed), dir)
	cmd.Env = os.Environ()
	out, _ := cmd.StdoutPipe()
	cmd.Stderr = nil
	if err := cmd.Start(); err != nil {
		return true // cannot measure: the in-process probes still run
	}
	last, done := "", false
	timer := time.AfterFunc(120*time.Second, func() { _ = cmd.Process.Kill() })
	sc := bufio.NewScanner(out)
	sc.Buffer(make([]byte, 1<<20), 1<<20)
	n := 0
	for sc.Scan() {
		l := sc.Text()
		if l == "NESTED-DONE" {
			done = true
		} else if strings.HasPrefix(l, "NESTED ") {
			last = l
			n++
		}
	}
	err := cmd.Wait()
	timer.Stop()
	c.Rep.Distribution["nested-fragment-probes-in-child"] = n
	if done && err == nil {
		return true
	}
	f := strings.Fields(last)
	input := ""
	if len(f) > 0 {
		if b, e := enchex.DecodeString(f[len(f)-1]); e == nil {
			input = string(b)
		}
	}
	c.Violate("crash", "nested-fragment", fmt.Sprintf("Receive did not return on a fragment that carries a fragment: the probing process died (%v) - unbounded re-entry / stack overflow", err),
		map[string]string{"probe": strings.Join(f[:max0(len(f)-1)], " "), "input": input})
	return false
}

func max0(n int) int {
	if n < 0 {
		return 0
	}
	return n
}
