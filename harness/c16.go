package main

import (
	"bytes"
	"fmt"

	otr3 "github.com/coyim/otr3"
)

func init() { generators["C16"] = genC16 }

func (c *Ctx) genText() []byte {
	n := c.R.Intn(24)
	b := make([]byte, n)
	for i := range b {
		switch c.R.Intn(8) {
		case 0:
			b[i] = ' '
		case 1:
			b[i] = '\t'
		case 2:
			b[i] = byte(c.R.U64())
		default:
			b[i] = byte('a' + c.R.Intn(26))
		}
	}
	return b
}

var queryForms = []string{"?OTR?", "?OTRv2?", "?OTRv3?", "?OTRv23?", "?OTR?v2?", "?OTR?v23?", "?OTRv?", "?OTRv4?", "?OTRv24x?",
	"?OTRv32?", "?OTRv", "?OTR", "?OTRv2", "?OTRv3? hello", "?OTRv1?", "?OTR?v", "?OTRv9923?", "?OTRv 2?", "?OTRv?3",
	"?OTRv3? this is OTR 2 or later?", "?OTRv2? 3?", "?OTR?v3? 2?", "?OTRv? 23?", "?OTRv3?2", "?OTRv3?? 2"}

func genC16(c *Ctx) {
	c.Rep.Rule = "message-type guess, query parsing, version selection, query generation and whitespace-tag handling on the full policy product (64 sets) x offer forms (incl. unknown versions, v1) x random texts, Go vs. model; pass-through oracle on the implementation; distinct by arguments"
	n := 120
	if c.Thorough() {
		n = 3000
	}
	for p := 0; p < 128; p += 2 { // all 64 policy sets (bit 0 unused)
		c.AddCase(74, "genWhitespaceTag", B(otr3.VerifGenWhitespaceTag(p)), N(p))
		fr := ""
		if p%8 == 2 {
			fr = "hi there"
		}
		c.AddCase(73, "QueryMessage", B(otr3.VerifQueryMessage(p, fr)), N(p), B([]byte(fr)))
		for _, q := range queryForms {
			c.AddCase(72, "extractVersionsFromQueryMessage", N(otr3.VerifQueryVersions(p, []byte(q))), N(p), B([]byte(q)))
		}
	}
	for _, q := range queryForms {
		vs := otr3.VerifParseQuery([]byte(q))
		vv := make([]Val, len(vs))
		for i, v := range vs {
			vv[i] = N(v)
		}
		c.AddCase(71, "parseOTRQueryMessage", VL(vv), B([]byte(q)))
	}
	c.AddCase(76, "convertToWhitespace", B(otr3.VerifConvertToWhitespace("OT23")), B([]byte("OT23")))
	prefixes := []string{"?OTR:AAMC", "?OTR:AAIC", "?OTR:AAMK", "?OTR:AAIK", "?OTR:AAMR", "?OTR:AAIR", "?OTR:AAMS", "?OTR:AAIS",
		"?OTR:AAED", "?OTR:AAID", "?OTR:AAMD", "?OTR?", "?OTRv", "?OTR:AAEK", "?OTR Error:", "?OTR|", "?OTR,", "?OTR", "?OT", "?OTR:AAM", "?OTR:", "x?OTR:AAMC"}
	hdr := otr3.VerifConvertToWhitespace("OT")
	{ // corpus: the recorded known finding (header self-overlap, period 15) runs first
		txt := append([]byte("x"), hdr[:15]...)
		in := append(append([]byte{}, txt...), otr3.VerifGenWhitespaceTag(4)...)
		got, _ := otr3.VerifExtractWhitespaceTag(in)
		if !bytes.Equal(got, txt) {
			c.Violate("tag-removal-changes-text", "text-ends-with-header-prefix", fmt.Sprintf("text %q came back as %q", txt, got), map[string]string{"text": hex(txt), "policy": "4"})
		}
	}
	for i := 0; i < n; i++ {
		var m []byte
		switch c.R.Intn(4) {
		case 0:
			m = append([]byte(prefixes[c.R.Intn(len(prefixes))]), c.genText()...)
		case 1:
			m = append(append(c.genText(), otr3.VerifGenWhitespaceTag(c.R.Intn(64)*2)...), c.genText()...)
		case 2:
			m = append(append(c.genText(), hdr[:c.R.Intn(17)]...), c.genText()...)
		default:
			m = c.genText()
		}
		c.AddCase(70, "guessMessageType", N(otr3.VerifGuessMessageType(m)), B(m))
		c.Count(fmt.Sprintf("guess:%d", otr3.VerifGuessMessageType(m)))
		if bytes.Contains(m, hdr) {
			out := guard(func() Val {
				p, v := otr3.VerifExtractWhitespaceTag(m)
				return L(B(p), N(v))
			})
			c.AddCase(75, "extractWhitespaceTag", out, B(m))
		}
		// tags as other implementations emit them: the base followed by any sequence of 8-character groups, known
		// (v1, v2, v3) and unknown ones, possibly cut short or followed by more text
		{
			groups := [][]byte{otr3.VerifConvertToWhitespace("1"), otr3.VerifConvertToWhitespace("2"), otr3.VerifConvertToWhitespace("3"),
				otr3.VerifConvertToWhitespace("4"), []byte(" \t \t  \t \t \t"), []byte("\t\t\t\t\t\t\t\t")}
			// (the v1 group of libotr is " \t \t  \t "; "1" rendered by this library differs, both are 'unknown' here)
			groups[0] = []byte(" \t \t  \t ")
			txt := c.genText()
			in := append(append([]byte{}, txt...), hdr...)
			var names []string
			for k := c.R.Intn(5); k > 0; k-- {
				g := c.R.Intn(len(groups))
				in = append(in, groups[g][:8]...)
				names = append(names, fmt.Sprint(g))
			}
			switch c.R.Intn(4) {
			case 0:
				in = append(in, c.genText()...)
			case 1:
				in = append(in, " \t"[c.R.Intn(2)])
			}
			c.Count("foreign-tag-groups:" + fmt.Sprint(len(names)))
			out := guard(func() Val {
				p, v := otr3.VerifExtractWhitespaceTag(in)
				return L(B(p), N(v))
			})
			c.AddCase(75, "extractWhitespaceTag", out, B(in))
		}
		// pass-through oracle: text ++ tag comes back as text
		txt := c.genText()
		pol := c.R.Intn(64) * 2
		tag := otr3.VerifGenWhitespaceTag(pol)
		in := append(append([]byte{}, txt...), tag...)
		overlap := bytes.Index(in, hdr) != len(txt)
		got, _ := otr3.VerifExtractWhitespaceTag(in)
		c.AddCase(75, "extractWhitespaceTag", L(B(got), N(func() int { _, v := otr3.VerifExtractWhitespaceTag(in); return v }())), B(in))
		if !bytes.Equal(got, txt) {
			trig := "no-overlap"
			if overlap {
				trig = "text-ends-with-header-prefix"
			}
			c.Violate("tag-removal-changes-text", trig, fmt.Sprintf("text %q came back as %q", txt, got), map[string]string{"text": hex(txt), "policy": fmt.Sprint(pol)})
		}
		if i < 3 {
			c.Sample(map[string]string{"msg": string(m), "guess": fmt.Sprint(otr3.VerifGuessMessageType(m))})
		}
	}
	c16Conv(c)
	renegotiations(c)
}
