package main

import (
	"bufio"
	"bytes"
	"math/big"

	"github.com/coyim/otr3/sexp"
)

// renderSexp: the value sexp.Read returns, in the form Corr.Dispatch.v_sx renders the mirror's value
func renderSexp(v sexp.Value) Val {
	switch x := v.(type) {
	case nil:
		return VNone{}
	case sexp.Snil:
		return L(N(0))
	case sexp.Cons:
		return L(N(1), renderSexp(x.First()), renderSexp(x.Second()))
	case sexp.Symbol:
		return L(N(2), B([]byte(string(x))))
	case sexp.Sstring:
		return L(N(3), B([]byte(string(x))))
	case sexp.BigNum:
		n, _ := x.Value().(*big.Int)
		if n == nil {
			return L(N(4), VNone{})
		}
		neg := 0
		if n.Sign() < 0 {
			neg = 1
		}
		return L(N(4), L(N(neg), NB(new(big.Int).Abs(n))))
	}
	return VErr(997)
}

func sexpCase(c *Ctx, in []byte) {
	out := guard(func() Val { return renderSexp(sexp.Read(bufio.NewReader(bytes.NewReader(in)))) })
	if _, isP := out.(VPanic); isP {
		c.Violate("panic", "sexp.Read", "panic in the s-expression reader", map[string]string{"input": string(trunc200(in))})
	}
	c.AddCase(120, "sexp.Read", out, B(in))
}

// s-expression inputs: well-formed key-file pieces, damaged ones, nesting, unterminated things, stray delimiters
func sexpInputs(c *Ctx, n int) {
	corpus := []string{"", " ", "(", ")", "()", "(a)", "(a b)", "(a (b c) d)", "((((", "))))", "(a", "(a \"b", "(a #1F", "#1F#", "#xyz#", "##", "#-1f#", "#+A#",
		"\"str\"", "\"unterminated", "sym", "sym(", " \t\n(x\r\n y )", "(privkeys (account (name \"a\") (protocol p)))", "(a . b)", "(\"a\" #00# ())",
		"(a))", "a b", "(#", "(\"", "( ( ) ( ) )", "#1#2#"}
	for _, s := range corpus {
		sexpCase(c, []byte(s))
	}
	alphabet := []byte("()\"# \nabF0-")
	for i := 0; i < n; i++ {
		var in []byte
		switch c.R.Intn(3) {
		case 0:
			for k := c.R.Intn(24); k > 0; k-- {
				in = append(in, alphabet[c.R.Intn(len(alphabet))])
			}
		case 1:
			base := []byte(keyFileSample)
			lo := c.R.Intn(len(base))
			hi := lo + c.R.Intn(min2(120, len(base)-lo))
			in = append([]byte{}, base[lo:hi]...)
		default:
			in = c.hostileKeyFile()
			if len(in) > 400 {
				in = in[:400]
			}
		}
		sexpCase(c, in)
	}
	// deep nesting (recursion depth of the reader is proportional to the nesting)
	sexpCase(c, bytes.Repeat([]byte("("), 300))
	sexpCase(c, append(bytes.Repeat([]byte("(a "), 200), bytes.Repeat([]byte(")"), 200)...))
	c.Count("sexp-cases")
}
