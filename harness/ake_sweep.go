package main

import (
	"bytes"
	"fmt"

)

// Systematic sweep over the key exchange: every AKE message type x every mutation x both orders (the damaged copy
// arrives before, or after, the genuine message), each as its own short scenario, run twice on the same seeds -
// with and without the damaged copy. Used by C01 (authentication) and C06 (a rejected message is inert).

func allAkeMutations() []Mut {
	ms := []Mut{MAkeDamage(0), MAkeDamage(1), MAkeDamage(2), MTruncate(), MVersion(2), MVersion(3)}
	for v := 0; v < 5; v++ {
		ms = append(ms, MAkeGroup(v), MTag(true, v), MTag(false, v), MBadX(v))
	}
	// a participant that claims somebody else's key (its own signature does not match it)
	ms = append(ms, MImpersonate(3), MImpersonate(4))
	// a commitment field of another length than the hash (well-formed message)
	ms = append(ms, MCommitHashLen(10), MCommitHashLen(40))
	return ms
}

var akeTypes = []byte{0x02, 0x0a, 0x11, 0x12}

type sweepRun struct {
	s        *Sys
	pols     []int
	mutIdx   int  // step index of the damaged delivery, -1 if it was not made
	rejected bool // the damaged delivery produced no plaintext and nothing to send but error replies
	label    string
	encAfter bool // right after the damaged delivery: is the receiver encrypted, and whose key does it report
	keyAfter int
	panicked bool
}

// akeSweepRun: party 1 receives party 2's query and the exchange runs in FIFO order; when a message of type typ is
// first about to be delivered, the damaged copy is delivered before (late=false) or after (late=true) it.
// refresh: the exchange happens inside an established session.
func akeSweepRun(pol int, seed uint64, typ byte, m Mut, late, withMut, refresh bool) *sweepRun {
	pols := []int{pol, pol}
	s := newSys(pols, seed)
	s.keepSecrets()
	r := &sweepRun{s: s, pols: pols, mutIdx: -1, label: fmt.Sprintf("type=%#x,%s,late=%v,refresh=%v", typ, m.Coq, late, refresh)}
	if refresh {
		s.Handshake(1, 2)
		s.tick(130)
	}
	s.Query(2, 1)
	done := false
	for round := 0; round < 14; round++ {
		progressed := false
		for _, pr := range [][2]int{{1, 2}, {2, 1}} {
			f, t := pr[0], pr[1]
			idx := s.next(f)
			if idx < 0 {
				continue
			}
			progressed = true
			w := parseWire(s.ps[f].outs[idx])
			hit := !done && w.kind == 3 && w.typ == typ
			if hit && withMut && !late {
				r.deliverMut(f, idx, t, m)
			}
			s.Deliver(f, idx, t, MNone)
			if hit && withMut && late {
				r.deliverMut(f, idx, t, m)
			}
			if hit {
				done = true
			}
		}
		if !progressed {
			break
		}
	}
	// one text in each direction afterwards
	for _, d := range [][2]int{{1, 2}, {2, 1}} {
		s.Send(d[0], []byte(fmt.Sprintf("after-%d", d[0])))
		s.Pump(1, 2, 6)
	}
	return r
}

func (r *sweepRun) deliverMut(f, idx, t int, m Mut) {
	s := r.s
	genuine := s.ps[f].outs[idx]
	if m.f == nil || bytes.Equal(m.f(s, f, t, genuine), genuine) {
		return // this mutation does not apply to this message (e.g. a tag class that is the genuine tag)
	}
	before := len(s.ps[t].outs)
	r.mutIdx = len(s.ops)
	plain, pan := s.Deliver(f, idx, t, m)
	r.panicked = r.panicked || pan
	r.encAfter, r.keyAfter = s.ps[t].c.IsEncrypted(), fpID(s.ps[t].c.GetTheirKey())
	// rejected: no plaintext, nothing to send but error replies - and not silently accepted either: an accepted
	// Signature message also yields neither plaintext nor a reply, but it raises a security event (every other
	// accepted key-exchange message produces a reply)
	r.rejected = plain == nil
	for _, e := range s.calls[len(s.calls)-1].events {
		if e >= 100 && e < 200 {
			r.rejected = false
		}
	}
	for _, o := range s.ps[t].outs[before:] {
		if w := parseWire(o); w.kind != 2 { // anything but an error message
			r.rejected = false
		}
	}
	// error replies are not part of the genuine traffic that follows
	if r.rejected {
		s.dropFrom(t, before)
	}
}

// akeCrossRun: at delivery point p (the p-th key-exchange delivery), a damaged copy of the most recent message of
// type src - whoever produced it - is handed to party target first (reflection to its sender included)
func akeCrossRun(pol int, seed uint64, point int, src byte, target int, m Mut, withMut bool) *sweepRun {
	pols := []int{pol, pol}
	s := newSys(pols, seed)
	r := &sweepRun{s: s, pols: pols, mutIdx: -1, label: fmt.Sprintf("point=%d,copy-of=%#x,to=%d,%s", point, src, target, m.Kind)}
	s.Query(2, 1)
	n := 0
	for round := 0; round < 14; round++ {
		progressed := false
		for _, pr := range [][2]int{{1, 2}, {2, 1}} {
			f, t := pr[0], pr[1]
			idx := s.next(f)
			if idx < 0 {
				continue
			}
			progressed = true
			if parseWire(s.ps[f].outs[idx]).kind == 3 {
				if n == point && withMut {
					// the most recent message of type src
					for _, owner := range []int{1, 2} {
						for i := len(s.ps[owner].outs) - 1; i >= 0; i-- {
							if w := parseWire(s.ps[owner].outs[i]); w.kind == 3 && w.typ == src {
								r.deliverMut(owner, i, target, m)
								i = -1
							}
						}
					}
				}
				n++
			}
			s.Deliver(f, idx, t, MNone)
		}
		if !progressed {
			break
		}
	}
	for _, d := range [][2]int{{1, 2}, {2, 1}} {
		s.Send(d[0], []byte(fmt.Sprintf("after-%d", d[0])))
		s.Pump(1, 2, 6)
	}
	return r
}

func akeCrossSweep(c *Ctx, quick bool, each func(with, without *sweepRun)) {
	muts := []Mut{MTruncate(), MAkeDamage(0)}
	if !quick {
		muts = allAkeMutations()
	}
	for point := 0; point < 4; point++ {
		for si := 0; si <= point; si++ { // only message types that exist at that point
			for target := 1; target <= 2; target++ {
				for _, m := range muts {
					pol := []int{polV2, polV3}[(point+si+target)%2]
					if !quick {
						pol = c.pickVersionPolicy()
					}
					seed := c.R.U64()
					with := akeCrossRun(pol, seed, point, akeTypes[si], target, m, true)
					if with.mutIdx < 0 {
						continue
					}
					without := akeCrossRun(pol, seed, point, akeTypes[si], target, m, false)
					c.Count("ake-cross:" + m.Kind)
					if with.rejected {
						c.Count("ake-cross:rejected")
					} else {
						c.Count("ake-cross:not-rejected")
					}
					each(with, without)
				}
			}
		}
	}
}

// akeSweep runs the sweep; each(run with the damaged copy, twin without it)
func akeSweep(c *Ctx, quick bool, each func(with, without *sweepRun)) {
	muts := allAkeMutations()
	k := 0
	for _, typ := range akeTypes {
		for mi := range muts {
			for _, late := range []bool{false, true} {
				k++
				// quick tier: every (type, mutation, order) once, versions and refresh alternating; thorough: all four
				variants := [][2]bool{{k%2 == 0, k%3 == 0}}
				if !quick {
					variants = [][2]bool{{false, false}, {true, false}, {false, true}, {true, true}}
				}
				for _, vr := range variants {
					pol := polV3
					if vr[0] {
						pol = polV2
					}
					seed := c.R.U64()
					with := akeSweepRun(pol, seed, typ, muts[mi], late, true, vr[1])
					without := akeSweepRun(pol, seed, typ, muts[mi], late, false, vr[1])
					c.Count(fmt.Sprintf("ake-sweep:type=%#x", typ))
					c.Count("ake-sweep:" + muts[mi].Kind)
					if with.rejected {
						c.Count("ake-sweep:rejected")
					} else {
						c.Count("ake-sweep:not-rejected")
					}
					each(with, without)
				}
			}
		}
	}
}

// inertness oracle: if the damaged copy was rejected, everything after it is observed exactly as in the twin run
func sweepInert(c *Ctx, with, without *sweepRun) {
	if with.mutIdx < 0 || !with.rejected {
		return
	}
	var o1, o2 []string
	for k := range with.s.obs {
		if k != with.mutIdx {
			o1 = append(o1, coqStr(with.s.obs[k]))
		}
	}
	for k := range without.s.obs {
		o2 = append(o2, coqStr(without.s.obs[k]))
	}
	rep := map[string]interface{}{"with": with.s.trace, "without": without.s.trace}
	if len(o1) != len(o2) {
		c.Violate("continuation-differs", "ake:"+with.label, fmt.Sprintf("runs have %d vs %d steps", len(o1), len(o2)), rep)
		return
	}
	for k := range o1 {
		if o1[k] != o2[k] {
			c.Violate("continuation-differs", "ake:"+with.label, fmt.Sprintf("after a rejected key-exchange message step %d differs: %s", k, without.s.trace[k]), rep)
			return
		}
	}
}

// akeAfterRun: a damaged copy of an old key-exchange message arrives long after the exchange; then the peer asks
// for a refresh. The rejected message must not change how the query is handled.
func akeAfterRun(pol int, seed uint64, src byte, m Mut, withMut bool) *sweepRun {
	pols := []int{pol, pol}
	s := newSys(pols, seed)
	r := &sweepRun{s: s, pols: pols, mutIdx: -1, label: fmt.Sprintf("after-exchange,copy-of=%#x,%s", src, m.Kind)}
	if !s.Handshake(2, 1) {
		return r
	}
	s.tick(130)
	if withMut {
		for owner := 1; owner <= 2; owner++ {
			for i := len(s.ps[owner].outs) - 1; i >= 0; i-- {
				if w := parseWire(s.ps[owner].outs[i]); w.kind == 3 && w.typ == src {
					r.deliverMut(owner, i, 3-owner, m)
					i = -1
				}
			}
		}
	}
	s.tick(5)
	s.Query(1, 2) // (one side only: with both, who wins the collision depends on random values, and the standard
	// library's DSA signing consumes randomness at random, so twin runs would not be comparable)
	s.Pump(1, 2, 30)
	for _, d := range [][2]int{{1, 2}, {2, 1}} {
		s.Send(d[0], []byte(fmt.Sprintf("after-%d", d[0])))
		s.Pump(1, 2, 6)
	}
	return r
}

func akeAfterSweep(c *Ctx, each func(with, without *sweepRun)) {
	for _, typ := range akeTypes {
		for _, m := range []Mut{MTruncate(), MAkeDamage(0), MAkeDamage(2)} {
			pol := []int{polV2, polV3}[int(typ)%2]
			seed := c.R.U64()
			with := akeAfterRun(pol, seed, typ, m, true)
			if with.mutIdx < 0 {
				continue
			}
			without := akeAfterRun(pol, seed, typ, m, false)
			c.Count("ake-after:" + m.Kind)
			each(with, without)
		}
	}
}
