package main

import (
	"bytes"
	"fmt"

	otr3 "github.com/coyim/otr3"
)

func init() { generators["C14"] = genC14 }

func newPlainConv(v int, ourTag uint32) *otr3.Conversation {
	c := &otr3.Conversation{}
	if v == 2 {
		c.Policies.AllowV2()
	} else {
		c.Policies.AllowV3()
	}
	c.Rand = NewRNG(7)
	c.SetOurKeys([]otr3.PrivateKey{bobKey})
	if ourTag != 0 {
		c.InitializeInstanceTag(ourTag)
	}
	return c
}

// payload bytes: no comma, no OTR marker, no whitespace tag (letters and digits)
func (c *Ctx) genPayload(n int) []byte {
	b := make([]byte, n)
	for i := range b {
		b[i] = "abcdefghijklmnopqrstuvwxyz0123456789+/="[c.R.Intn(39)]
	}
	return b
}

func hdrLen(v int) int {
	if v == 2 {
		return 17
	}
	return 35
}

func genC14(c *Ctx) {
	c.Rep.Rule = "(length,size,version) triples around the header length, powers of two and the 16-bit boundary fragmented by the Go code and the model and reassembled through Receive; arrival sequences from a grammar (next, restart, wrong total, duplicate, illegal index, garbage, interleaved text) run through Receive on a v2 conversation, compared with the model and with a reference reassembler; distinct by arguments"
	n := 60
	if c.Thorough() {
		n = 1500
	}
	// formatting / parsing helpers
	for i := 0; i < n; i++ {
		v := 2 + c.R.Intn(2)
		k, tot := c.R.Intn(70000), c.R.Intn(70000)
		if c.R.Chance(1, 2) {
			k, tot = c.R.Intn(12), c.R.Intn(12)+1
		}
		its, itr := uint32(c.R.U64()), uint32(c.R.U64())
		if c.R.Chance(1, 3) {
			its, itr = uint32(c.R.Intn(0x200)), 0
		}
		c.AddCase(60, "fragmentPrefix", B(otr3.VerifFragmentPrefix(v, k, tot, its, itr)), N(v), N(k), N(tot), NU(uint64(its)), NU(uint64(itr)))
		var num []byte
		switch c.R.Intn(8) {
		case 0:
			num = []byte(fmt.Sprintf("%05d", c.R.Intn(70000)))
		case 1:
			num = []byte(fmt.Sprintf("%d", c.R.Intn(200000)-1000))
		case 2:
			num = []byte(fmt.Sprintf("+%d", c.R.Intn(100)))
		case 3:
			num = []byte("9223372036854775807")
		case 4:
			num = []byte("9223372036854775808")
		case 5:
			num = []byte(fmt.Sprintf("%x", c.R.U64()))
		case 6:
			num = []byte{}
		default:
			num = c.genPayload(c.R.Intn(4))
		}
		{
			r, ok := otr3.VerifBytesToUint16(num)
			var o Val = VNone{}
			if ok {
				o = N(int(r))
			}
			c.AddCase(63, "bytesToUint16", o, B(num))
		}
		{
			var h []byte
			switch c.R.Intn(6) {
			case 0:
				h = []byte(fmt.Sprintf("%08x", uint32(c.R.U64())))
			case 1:
				h = []byte(fmt.Sprintf("-%x", c.R.Intn(1000)))
			case 2:
				h = []byte(fmt.Sprintf("%X", c.R.U64()))
			case 3:
				h = []byte("7fffffffffffffff")
			case 4:
				h = []byte("8000000000000000")
			default:
				h = num
			}
			r, ok := otr3.VerifParseItag(h)
			var o Val = VNone{}
			if ok {
				o = NU(uint64(r))
			}
			c.AddCase(64, "parseItag", o, B(h))
		}
		// parseFragment bodies
		pay := c.genPayload(c.R.Intn(8))
		body := []byte(fmt.Sprintf("%05d,%05d,%s,", c.R.Intn(9), c.R.Intn(9), pay))
		switch c.R.Intn(12) {
		case 0, 1, 2:
			body, _ = c.mutate(body)
		case 3: // a separator inside the payload
			body = []byte(fmt.Sprintf("%05d,%05d,%s,%s,", 1+c.R.Intn(3), 3, pay, c.genPayload(1+c.R.Intn(4))))
		case 4: // data after the terminating separator
			body = append(body, c.genPayload(1+c.R.Intn(5))...)
		case 5: // several terminating separators
			body = append(body, ',')
		case 6: // no terminating separator
			body = body[:len(body)-1]
		case 7: // empty fields
			body = []byte(fmt.Sprintf(",%05d,%s,", c.R.Intn(9), pay))
		case 8:
			body = []byte(fmt.Sprintf("%05d,,%s,", c.R.Intn(9), pay))
		case 9: // empty payload
			body = []byte(fmt.Sprintf("%05d,%05d,,", 1+c.R.Intn(3), 3))
		}
		{
			d, ix, l, ok := otr3.VerifParseFragment(body)
			var o Val = VNone{}
			if ok {
				o = L(B(d), N(int(ix)), N(int(l)))
			}
			c.AddCase(62, "parseFragment", o, B(body))
		}
	}
	c14Fragment(c, n)
	c14CutStreams(c)
	c14V3Arrivals(c, n)
	c14Arrivals(c, n)
	c14Special(c)
}

// fragments of messages that are not data or key-exchange messages (error message, version 1 key exchange, query,
// tagged plaintext), followed by fragments that must be ignored: each unit is handled exactly once, an ignored
// fragment yields nothing
func c14Special(c *Ctx) {
	units := []string{"?OTR Error: something went wrong", "?OTR:AAEKAAAAxx.", "?OTRv23?", "just text", "?OTR Error:"}
	for _, v := range []int{2, 3} {
		for ui, u := range units {
			for np := 1; np <= 3; np++ {
				for _, pol := range []int{polV2 | polV3, polV2 | polV3 | polErrStart} {
					p := newParty(1, pol, c.R.U64())
					p.c.SetOurKeys([]otr3.PrivateKey{partyKeys[1]})
					var trace []string
					feed := func(m []byte) (plain []byte, outs int, evs int, panicked bool) {
						p.events = nil
						o := guard(func() Val {
							pl, out, _ := p.c.Receive(m)
							plain, outs = pl, len(out)
							return VNone{}
						})
						_, panicked = o.(VPanic)
						trace = append(trace, fmt.Sprintf("%q -> plain=%q outs=%d events=%v", m, plain, outs, p.events))
						return plain, outs, len(p.events), panicked
					}
					// split u into np pieces
					var pieces [][]byte
					for i := 0; i < np; i++ {
						lo, hi := i*len(u)/np, (i+1)*len(u)/np
						if v == 2 {
							pieces = append(pieces, []byte(fmt.Sprintf("?OTR,%05d,%05d,%s,", i+1, np, u[lo:hi])))
						} else {
							pieces = append(pieces, []byte(fmt.Sprintf("?OTR|%08x|%08x,%05d,%05d,%s,", 0x1234, 0, i+1, np, u[lo:hi])))
						}
					}
					unitEvents := map[int]bool{}
					unitOuts := 0
					for i, pc := range pieces {
						_, outs, evs, pan := feed(pc)
						if pan {
							c.Violate("panic", "Receive(fragment)", "panic while receiving a fragment", trace)
						}
						if i < len(pieces)-1 && (outs > 0 || evs > 0) {
							c.Violate("early-fragment-effect", fmt.Sprintf("unit=%d", ui), "a piece other than the last one had an effect", trace)
						}
						for _, e := range p.events {
							unitEvents[e] = true
						}
						unitOuts += outs
					}
					// fragments that must be ignored (the one with a malformed tag may be answered with an error message and the
					// malformed-message event, one for another instance raises that event): whatever the completed unit
					// caused must not happen again
					ign := [][]byte{
						[]byte("?OTR,00000,00002,xx,"), []byte("?OTR,00003,00002,xx,"), []byte("?OTR,00001,00000,xx,"),
						[]byte("?OTR,garbage"), []byte("?OTR|00000005|00000000,00001,00002,xx,"),
						[]byte("?OTR|0000abcd|0000ef01,00002,00002,xx,"), []byte("?OTR,00002,00002,xx,"),
					}
					for gi, g := range ign {
						plain, outs, _, pan := feed(g)
						if pan {
							c.Violate("panic", "Receive(fragment)", "panic while receiving a fragment", trace)
						}
						again := plain != nil || (unitOuts > 0 && outs > 0 && gi != 4)
						for _, e := range p.events {
							if unitEvents[e] {
								again = true
							}
						}
						if again {
							c.Violate("completed-message-handled-again", fmt.Sprintf("unit=%d,v=%d", ui, v), "a fragment that does not complete anything produced the effects of the previous message again", trace)
							break
						}
					}
					c.Count(fmt.Sprintf("special-unit:%d", ui))
					c.Rep.Evaluations++
				}
			}
		}
	}
}

// sizes near the header, powers of two, and lengths incl. > 65535
func c14Fragment(c *Ctx, n int) {
	// corpus: the recorded known finding (more pieces than the 16-bit index can express) runs first
	c14One(c, 2, 0x100, 0x200, c.genPayload(70000), 19, true)
	lens := []int{0, 1, 5, 17, 18, 19, 20, 35, 36, 37, 38, 50, 99, 100, 101, 255, 256, 257, 600}
	big := []int{65530, 65535, 65536, 65540, 131072}
	for i := 0; i < n; i++ {
		v := 2 + c.R.Intn(2)
		l := c.R.Pick(lens)
		if c.R.Chance(1, 4) {
			l = c.R.Intn(700)
		}
		size := hdrLen(v) - 2 + c.R.Intn(44)
		switch c.R.Intn(6) {
		case 0:
			size = c.R.Intn(hdrLen(v) + 3)
		case 1:
			p := 1 << uint(c.R.Intn(10)+5)
			size = p - 1 + c.R.Intn(3)
		}
		isBig := false
		if i%20 == 0 || (c.Thorough() && i%7 == 0) {
			l = c.R.Pick(big)
			size = []int{100, 1000, 40000, 65535, hdrLen(v) + 3}[c.R.Intn(5)]
			isBig = true
		}
		if size > 65535 {
			size = 65535
		}
		data := c.genPayload(l)
		its, itr := uint32(0x100+c.R.Intn(0xffff)), uint32(0x100+c.R.Intn(0xffff))
		c14One(c, v, its, itr, data, size, isBig)
	}
}

func c14One(c *Ctx, v int, its, itr uint32, data []byte, size int, isBig bool) {
	desc := map[string]interface{}{"version": v, "len": len(data), "size": size, "sender_tag": its, "receiver_tag": itr}
	var pieces [][]byte
	out := guard(func() Val {
		pieces = otr3.VerifFragment(v, its, itr, data, uint16(size))
		vs := make([]Val, len(pieces))
		for i, p := range pieces {
			vs[i] = B(p)
		}
		return VL(vs)
	})
	if _, isPanic := out.(VPanic); isPanic {
		c.Violate("panic", "fragment", "fragment panicked", desc)
		c.AddCase(61, "fragment", out, N(v), NU(uint64(its)), NU(uint64(itr)), B(data), N(size))
		return
	}
	// the model evaluates big cases too, but keep the case files small: only a sample of the big ones
	if !isBig || len(pieces) <= 3000 && c.R.Chance(1, 3) { // (a literal list of tens of thousands of pieces is beyond Coq's parser)
		c.AddCase(61, "fragment", out, N(v), NU(uint64(its)), NU(uint64(itr)), B(data), N(size))
	} else {
		c.Rep.Evaluations++
	}
	c.Count(fmt.Sprintf("fragment:v%d:pieces=%s", v, bucket(len(pieces))))
	room := size >= hdrLen(v)+2
	if !room || size == 0 || len(data) <= size {
		return
	}
	if len(pieces) > 65535 {
		c.Violate("unrepresentable-count", "pieces>65535", "more than 65535 pieces cannot be indexed in 5 digits/16 bits", desc)
		return
	}
	for i, p := range pieces {
		if len(p) > size {
			c.Violate("piece-too-long", "fragment", fmt.Sprintf("piece %d has %d bytes > size %d", i, len(p), size), desc)
			break
		}
	}
	// in-order reassembly by a fresh peer through Receive
	peer := newPlainConv(v, itr)
	var got []byte
	deliveries := 0
	for i, p := range pieces {
		plain, _, _ := peer.Receive(p)
		if plain != nil {
			deliveries++
			got = plain
			if i != len(pieces)-1 {
				c.Violate("early-delivery", "fragment", fmt.Sprintf("delivery after piece %d of %d", i+1, len(pieces)), desc)
			}
		}
	}
	if deliveries != 1 || !bytes.Equal(got, data) {
		c.Violate("reassembly-mismatch", "fragment", fmt.Sprintf("deliveries=%d, equal=%v", deliveries, bytes.Equal(got, data)), desc)
	}
	c.Sample(desc)
}

func bucket(n int) string {
	switch {
	case n <= 1:
		return "1"
	case n <= 4:
		return "2-4"
	case n <= 20:
		return "5-20"
	case n <= 1000:
		return "21-1000"
	default:
		return ">1000"
	}
}

// reference reassembler (independent of the Go code and of the model)
type refCtx struct {
	buf  []byte
	k, n int
}

func (r *refCtx) arrive(k, n int, piece []byte) []byte {
	switch {
	case k == 0 || n == 0 || k > n:
		return nil
	case k == 1:
		r.buf, r.k, r.n = append([]byte{}, piece...), 1, n
	case k == r.k+1 && n == r.n && r.k > 0:
		r.buf, r.k = append(r.buf, piece...), k
	default:
		r.buf, r.k, r.n = nil, 0, 0
		return nil
	}
	if r.k == r.n {
		out := r.buf
		r.buf, r.k, r.n = nil, 0, 0
		return out
	}
	return nil
}

func c14Arrivals(c *Ctx, n int) {
	for s := 0; s < n; s++ {
		conv := newPlainConv(2, 0)
		ref := &refCtx{}
		var msgs [][]byte
		var outs []Val
		var trace []string
		steps := 3 + c.R.Intn(12)
		k, tot := 0, 2+c.R.Intn(3)
		bad := false
		for i := 0; i < steps; i++ {
			var m []byte
			kind := ""
			refOut := []byte(nil)
			piece := c.genPayload(1 + c.R.Intn(4))
			switch x := c.R.Intn(13); {
			case x == 12:
				// a whole message that is not a fragment and is rejected: it ends the fragment stream like any other
				kind = "rejected-encoded"
				m = []byte([]string{"?OTR:AAMD!!!!.", "?OTR:AAID.", "?OTR:AAIK", "?OTR:.", "?OTR:AAEDAAAA."}[c.R.Intn(5)])
				ref.buf, ref.k, ref.n = nil, 0, 0
				refOut = nil
				k = 0
			case x < 5: // next in sequence
				k++
				if k > tot {
					k, tot = 1, 2+c.R.Intn(3)
				}
				kind = "next"
				m = []byte(fmt.Sprintf("?OTR,%05d,%05d,%s,", k, tot, piece))
				refOut = ref.arrive(k, tot, piece)
			case x == 5:
				kind = "restart"
				k, tot = 1, 1+c.R.Intn(3)
				m = []byte(fmt.Sprintf("?OTR,%05d,%05d,%s,", k, tot, piece))
				refOut = ref.arrive(k, tot, piece)
			case x == 6:
				kind = "wrong-total"
				m = []byte(fmt.Sprintf("?OTR,%05d,%05d,%s,", k+1, tot+1, piece))
				refOut = ref.arrive(k+1, tot+1, piece)
				k = 0
			case x == 7:
				kind = "duplicate"
				m = []byte(fmt.Sprintf("?OTR,%05d,%05d,%s,", k, tot, piece))
				if k == 1 {
					refOut = ref.arrive(k, tot, piece)
				} else {
					refOut = ref.arrive(k, tot, piece)
					if !(k == 0 || k > tot) {
						k = 0
					}
				}
			case x == 8:
				kind = "illegal-index"
				ik := []int{0, tot + 1, 65536, 65537, 70000}[c.R.Intn(5)]
				m = []byte(fmt.Sprintf("?OTR,%05d,%05d,%s,", ik, tot, piece))
				if ik <= 65535 {
					refOut = ref.arrive(ik, tot, piece)
				}
			case x == 9:
				kind = "garbage-fragment"
				m = []byte(fmt.Sprintf("?OTR,%s", c.genPayload(c.R.Intn(12))))
			case x == 10:
				kind = "text"
				m = append([]byte("t"), c.genPayload(c.R.Intn(5))...)
				ref.buf, ref.k, ref.n = nil, 0, 0
				refOut = m
				k = 0
			default:
				kind = "zero-total"
				m = []byte(fmt.Sprintf("?OTR,%05d,%05d,%s,", 1, 0, piece))
				refOut = ref.arrive(1, 0, piece)
			}
			c.Count("arrival:" + kind)
			trace = append(trace, kind+":"+string(m))
			msgs = append(msgs, m)
			var plain []byte
			o := guard(func() Val {
				p, _, _ := conv.Receive(m)
				plain = p
				if p == nil {
					return VNone{}
				}
				return B(p)
			})
			outs = append(outs, o)
			if _, isPanic := o.(VPanic); isPanic {
				c.Violate("panic", "Receive(fragment)", "panic while receiving a fragment", trace)
				bad = true
				break
			}
			if !bytes.Equal(plain, refOut) {
				c.Violate("delivery-differs-from-reference", kind, fmt.Sprintf("Receive returned %q, reference reassembler %q", plain, refOut), trace)
				bad = true
				break
			}
		}
		if bad {
			continue
		}
		ms := make([]Val, len(msgs))
		for i, m := range msgs {
			ms[i] = B(m)
		}
		c.AddCase(65, "Receive(v2 fragment sequence)", VL(outs), VL(ms))
		if s < 2 {
			c.Sample(trace)
		}
	}
}

// directed: a fragment stream cut at every position by a whole message that is rejected (or by plain text); what
// follows the cut must not complete the old stream
func c14CutStreams(c *Ctx) {
	cuts := []string{"?OTR:AAMD!!!!.", "?OTR:AAID.", "?OTR:AAIK", "?OTR:.", "?OTR:AAEDAAAA.", "hello"}
	for _, cut := range cuts {
		for tot := 2; tot <= 4; tot++ {
			for at := 1; at < tot; at++ {
				conv := newPlainConv(2, 0)
				var msgs [][]byte
				var outs []Val
				for k := 1; k <= tot; k++ {
					msgs = append(msgs, []byte(fmt.Sprintf("?OTR,%05d,%05d,p%d,", k, tot, k)))
					if k == at {
						msgs = append(msgs, []byte(cut))
					}
				}
				ok := true
				for i, m := range msgs {
					var plain []byte
					o := guard(func() Val {
						p, _, _ := conv.Receive(m)
						plain = p
						if p == nil {
							return VNone{}
						}
						return B(p)
					})
					outs = append(outs, o)
					want := []byte(nil)
					if string(m) == "hello" {
						want = m
					}
					if !bytes.Equal(plain, want) {
						c.Violate("delivery-differs-from-reference", "cut-stream", fmt.Sprintf("message %d of a fragment stream cut by %q: Receive returned %q, expected %q", i, cut, plain, want), map[string]string{"cut": cut, "total": fmt.Sprint(tot), "after": fmt.Sprint(at)})
						ok = false
						break
					}
				}
				if !ok {
					continue
				}
				ms := make([]Val, len(msgs))
				for i, m := range msgs {
					ms[i] = B(m)
				}
				c.AddCase(65, "Receive(v2 fragment sequence)", VL(outs), VL(ms))
				c.Count("arrival:cut-stream")
			}
		}
	}
}

// arrival sequences for a version 3 conversation (own tag 0x205): the 23-byte prefix with its tags in front of the same
// index / total / payload grammar; what Receive returns and the peer instance the conversation is bound to after each
// call, compared with Bytes/FragV3.v (fn 66)
func c14V3Arrivals(c *Ctx, n int) {
	const our = 0x205
	for s := 0; s < n; s++ {
		conv := newPlainConv(3, our)
		var msgs [][]byte
		var outs []Val
		var trace []string
		steps := 3 + c.R.Intn(12)
		k, tot := 0, 2+c.R.Intn(3)
		peer := uint32(0x301)
		bad := false
		for i := 0; i < steps; i++ {
			st, rt := peer, uint32(our)
			if c.R.Intn(3) == 0 {
				rt = 0
			}
			kk, tt := 0, 0
			kind := ""
			piece := c.genPayload(1 + c.R.Intn(4))
			var m []byte
			switch x := c.R.Intn(20); {
			case x == 19:
				// a fragment in the version 2 format (no tags): not for a version 3 conversation
				kind = "v2-format"
				m = []byte(fmt.Sprintf("?OTR,%05d,%05d,%s,", k+1, tot, piece))
			case x == 16:
				kind = "one-bar"
				m = []byte(fmt.Sprintf("?OTR|%08x%08x,%05d,%05d,%s,", st, rt, k+1, tot, piece))
			case x == 17:
				kind = "extra-bar"
				m = []byte(fmt.Sprintf("?OTR|%08x|%07x|,%05d,%05d,%s,", st, rt, k+1, tot, piece))
			case x == 18:
				kind = "comma-for-bar"
				m = []byte(fmt.Sprintf("?OTR|%08x,%08x,%05d,%05d,%s,", st, rt, k+1, tot, piece))
			case x < 6:
				k++
				if k > tot {
					k, tot = 1, 2+c.R.Intn(3)
				}
				kind, kk, tt = "next", k, tot
			case x == 6:
				k, tot = 1, 1+c.R.Intn(3)
				kind, kk, tt = "restart", k, tot
			case x == 7:
				kind, kk, tt = "wrong-total", k+1, tot+1
				k = 0
			case x == 8:
				kind, kk, tt = "duplicate", k, tot
			case x == 9:
				kind, kk, tt = "illegal-index", []int{0, tot + 1, 65536, 70000}[c.R.Intn(4)], tot
			case x == 10:
				kind, kk, tt = "foreign-receiver", k+1, tot
				rt = 0x777
			case x == 11:
				kind, kk, tt = "other-sender", k+1, tot
				st = 0x302
			case x == 12:
				kind, kk, tt = "reserved-sender", k+1, tot
				st = uint32(c.R.Intn(0x100))
			case x == 13:
				kind, kk, tt = "reserved-receiver", k+1, tot
				rt = uint32(1 + c.R.Intn(0xff))
			case x == 14:
				kind = "short-prefix"
				m = []byte(fmt.Sprintf("?OTR|%08x|%07x", st, rt))
			default:
				kind = "bad-tag-digits"
				m = []byte(fmt.Sprintf("?OTR|%08x|zz%06x,%05d,%05d,%s,", st, rt, k+1, tot, piece))
			}
			if m == nil {
				m = []byte(fmt.Sprintf("?OTR|%08x|%08x,%05d,%05d,%s,", st, rt, kk, tt, piece))
			}
			c.Count("arrival-v3:" + kind)
			trace = append(trace, kind+":"+string(m))
			msgs = append(msgs, m)
			o := guard(func() Val {
				p, _, _ := conv.Receive(m)
				their := N(int(otr3.VerifSnapshot(conv).TheirTag))
				if p == nil {
					return L(VNone{}, their)
				}
				return L(B(p), their)
			})
			outs = append(outs, o)
			if _, isPanic := o.(VPanic); isPanic {
				c.Violate("panic", "Receive(v3 fragment)", "panic while receiving a fragment", trace)
				bad = true
				break
			}
		}
		if bad {
			continue
		}
		ms := make([]Val, len(msgs))
		for i, m := range msgs {
			ms[i] = B(m)
		}
		c.AddCase(66, "Receive(v3 fragment sequence)", VL(outs), N(our), VL(ms))
	}
	// in order, the pieces the library cuts give the message back (tags: ours as receiver or none)
	for _, rt := range []uint32{our, 0} {
		for _, size := range []int{40, 41, 57, 100} {
			conv := newPlainConv(3, our)
			data := c.genPayload(30 + c.R.Intn(200))
			pieces := otr3.VerifFragment(3, 0x301, rt, data, uint16(size))
			var got []byte
			for _, p := range pieces {
				pl, _, _ := conv.Receive(p)
				if pl != nil {
					got = append(got, pl...)
				}
			}
			if len(pieces) > 1 && !bytes.Equal(got, data) {
				c.Violate("delivery-differs-from-reference", "v3-in-order", fmt.Sprintf("%d pieces of size %d delivered in order gave %q for %q", len(pieces), size, got, data), nil)
			}
			c.Count("v3-in-order")
		}
	}
}
