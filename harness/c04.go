package main

import (
	"bytes"
	"fmt"

	otr3 "github.com/coyim/otr3"
)

func init() { generators["C04"] = genC04 }

// C04: exactly-once in-order delivery over FIFO channels, any interleaving, across rotations
func genC04(c *Ctx) {
	c.Rep.Rule = "two real conversations after a real key exchange; random interleavings of Send by either side and FIFO deliveries (with clock ticks that force heartbeats); every step compared with the abstract conversation machine; oracle: per direction the plaintext sequence received equals the sequence sent; distinct = scenario"
	n := 20
	steps := 40
	if c.Thorough() {
		n, steps = 200, 120
	}
	for i := 0; i < n; i++ {
		ver := []int{polV3, polV2, polV2 | polV3}[c.R.Intn(3)]
		pols := []int{ver, ver}
		s := newSys(pols, c.R.U64())
		// every other scenario fragments (sizes around the header length and larger)
		if i%2 == 1 {
			for who := 1; who <= 2; who++ {
				s.SetFragmentSize(who, []int{40, 43, 50, 64, 85, 100, 134, 200, 355, 379}[c.R.Intn(10)]+c.R.Intn(3))
			}
			c.Count("fragmenting")
		}
		if !s.Handshake(1, 2) {
			c.Violate("handshake-failed", fmt.Sprint(ver), "plain handshake did not complete", s.trace)
			continue
		}
		c04Traffic(c, s, steps)
		c.AddScenario(s, pols)
		if i < 2 {
			c.Sample(s.trace[:min2(len(s.trace), 14)])
		}
	}
}

func min2(a, b int) int {
	if a < b {
		return a
	}
	return b
}

func c04Traffic(c *Ctx, s *Sys, steps int) {
	tn := 0
	for k := 0; k < steps; k++ {
		a := 1 + c.R.Intn(2)
		b := 3 - a
		switch x := c.R.Intn(10); {
		case x < 4:
			tn++
			if s.ps[a].frag > 0 && c.R.Chance(1, 2) {
				// pick a piece size that divides the encoded length of this party's previous data message exactly (the
				// next one is most likely as long): the boundary where the last piece is full - or empty
				if sz := exactFragmentSizes(s, a); len(sz) > 0 {
					s.SetFragmentSize(a, sz[c.R.Intn(len(sz))])
					c.Count("fragment-size:exact-multiple")
				}
			}
			s.Send(a, []byte(fmt.Sprintf("t%d-%d", a, tn)))
			c.Count("op:send")
		case x < 9:
			if idx := s.next(a); idx >= 0 {
				s.Deliver(a, idx, b, MNone)
				c.Count("op:deliver")
			}
		default:
			s.tick(70)
			c.Count("op:tick")
		}
	}
	// drain
	s.Pump(1, 2, 200)
	c04Oracle(c, s)
}

// exactFragmentSizes: the fragment sizes for which party a's most recent data message splits into pieces whose
// last one is empty or exactly full
func exactFragmentSizes(s *Sys, a int) []int {
	p := s.ps[a]
	var last []byte
	for i := len(p.outs) - 1; i >= 0 && last == nil; i-- {
		if w := parseWire(p.outs[i]); w.kind == 4 {
			last = p.outs[i]
		}
	}
	if last == nil {
		return nil
	}
	st := otr3.VerifSnapshot(p.c)
	var out []int
	for size := hdrLen(st.Version) + 2; size < 420; size++ {
		pieces := otr3.VerifFragment(st.Version, st.OurTag, st.TheirTag, last, uint16(size))
		if len(pieces) < 2 {
			continue
		}
		lp := pieces[len(pieces)-1]
		// payload of the last piece: between the last two commas
		parts := bytes.Split(lp, []byte(","))
		if len(parts) >= 2 {
			pay := parts[len(parts)-2]
			if len(pay) == 0 || len(lp) == size {
				out = append(out, size)
			}
		}
	}
	return out
}

func c04Oracle(c *Ctx, s *Sys) {
	for _, pr := range [][2]int{{1, 2}, {2, 1}} {
		snd, rcv := s.ps[pr[0]], s.ps[pr[1]]
		if len(snd.texts) != len(rcv.plains) {
			c.Violate("delivery-count", fmt.Sprintf("%d->%d", pr[0], pr[1]),
				fmt.Sprintf("sent %d texts, peer received %d", len(snd.texts), len(rcv.plains)), s.trace)
			return
		}
		for i := range snd.texts {
			if string(snd.texts[i]) != string(rcv.plains[i]) {
				c.Violate("delivery-order-or-content", fmt.Sprintf("%d->%d", pr[0], pr[1]),
					fmt.Sprintf("position %d: sent %q received %q", i, snd.texts[i], rcv.plains[i]), s.trace)
				return
			}
		}
	}
	if s.panicked {
		c.Violate("panic", "traffic", "a call panicked", s.trace)
	}
	if s.fragEarly {
		c.Violate("early-fragment-effect", "fragmented-unit", "a piece other than the last produced plaintext, output or an error", s.trace)
	}
}
