package main

import "fmt"

func init() { generators["C04"] = genC04 }

// C04: exactly-once in-order delivery over FIFO channels, any interleaving, across rotations
func genC04(c *Ctx) {
	c.Rep.Rule = "two real conversations after a real key exchange; random interleavings of Send by either side and FIFO deliveries (with clock ticks that force heartbeats); every step compared with the abstract conversation machine; oracle: per direction the plaintext sequence received equals the sequence sent; distinct = scenario"
	n := 8
	steps := 40
	if c.Thorough() {
		n, steps = 150, 120
	}
	for i := 0; i < n; i++ {
		ver := []int{polV3, polV2, polV2 | polV3}[c.R.Intn(3)]
		pols := []int{ver, ver}
		s := newSys(pols, c.R.U64())
		// every other scenario fragments (sizes around the header length and larger)
		if i%2 == 1 {
			for who := 1; who <= 2; who++ {
				s.SetFragmentSize(who, []int{40, 43, 50, 64, 85, 100, 134, 200, 355, 379}[c.R.Intn(10)]+c.R.Intn(3))
			}
			c.Count("fragmenting")
		}
		if !s.Handshake(1, 2) {
			c.Violate("handshake-failed", fmt.Sprint(ver), "plain handshake did not complete", s.trace)
			continue
		}
		c04Traffic(c, s, steps)
		c.AddScenario(s, pols)
		if i < 2 {
			c.Sample(s.trace[:min2(len(s.trace), 14)])
		}
	}
}

func min2(a, b int) int {
	if a < b {
		return a
	}
	return b
}

func c04Traffic(c *Ctx, s *Sys, steps int) {
	tn := 0
	for k := 0; k < steps; k++ {
		a := 1 + c.R.Intn(2)
		b := 3 - a
		switch x := c.R.Intn(10); {
		case x < 4:
			tn++
			s.Send(a, []byte(fmt.Sprintf("t%d-%d", a, tn)))
			c.Count("op:send")
		case x < 9:
			if idx := s.next(a); idx >= 0 {
				s.Deliver(a, idx, b, MNone)
				c.Count("op:deliver")
			}
		default:
			s.tick(70)
			c.Count("op:tick")
		}
	}
	// drain
	s.Pump(1, 2, 200)
	c04Oracle(c, s)
}

func c04Oracle(c *Ctx, s *Sys) {
	for _, pr := range [][2]int{{1, 2}, {2, 1}} {
		snd, rcv := s.ps[pr[0]], s.ps[pr[1]]
		if len(snd.texts) != len(rcv.plains) {
			c.Violate("delivery-count", fmt.Sprintf("%d->%d", pr[0], pr[1]),
				fmt.Sprintf("sent %d texts, peer received %d", len(snd.texts), len(rcv.plains)), s.trace)
			return
		}
		for i := range snd.texts {
			if string(snd.texts[i]) != string(rcv.plains[i]) {
				c.Violate("delivery-order-or-content", fmt.Sprintf("%d->%d", pr[0], pr[1]),
					fmt.Sprintf("position %d: sent %q received %q", i, snd.texts[i], rcv.plains[i]), s.trace)
				return
			}
		}
	}
	if s.panicked {
		c.Violate("panic", "traffic", "a call panicked", s.trace)
	}
	if s.fragEarly {
		c.Violate("early-fragment-effect", "fragmented-unit", "a piece other than the last produced plaintext, output or an error", s.trace)
	}
}
