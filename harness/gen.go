package main

import (
	"math/big"
)

// shared input generators (structured, mostly valid, plus a malformed stream)

var byteLens = []int{0, 0, 1, 1, 2, 3, 4, 5, 7, 8, 15, 16, 19, 20, 21, 32, 40}

func (c *Ctx) genLen() int {
	switch c.R.Intn(10) {
	case 0:
		return c.R.Intn(70)
	case 1:
		return 200 + c.R.Intn(120)
	default:
		return c.R.Pick(byteLens)
	}
}

func (c *Ctx) genBytes() []byte {
	n := c.genLen()
	b := c.R.Bytes(n)
	switch c.R.Intn(6) {
	case 0: // many zeros (NULs matter to several parsers)
		for i := range b {
			if c.R.Chance(1, 2) {
				b[i] = 0
			}
		}
	case 1: // printable
		for i := range b {
			b[i] = 32 + b[i]%95
		}
	}
	return b
}

func (c *Ctx) genMPI() *big.Int {
	switch c.R.Intn(9) {
	case 0:
		return big.NewInt(0)
	case 1:
		return big.NewInt(1)
	case 2:
		return big.NewInt(255)
	case 3:
		return big.NewInt(256)
	case 4:
		return new(big.Int).SetUint64(0xffffffff)
	case 5:
		return new(big.Int).SetBytes(c.R.Bytes(192))
	default:
		return new(big.Int).SetBytes(c.R.Bytes(1 + c.R.Intn(40)))
	}
}

// mutate derives a malformed / boundary variant of a valid serialisation.
func (c *Ctx) mutate(b []byte) ([]byte, string) {
	b = append([]byte{}, b...)
	switch c.R.Intn(8) {
	case 0:
		if len(b) > 0 {
			return b[:c.R.Intn(len(b))], "truncate"
		}
		return b, "same"
	case 1:
		return append(b, c.R.Bytes(1+c.R.Intn(6))...), "extend"
	case 2:
		if len(b) > 0 {
			i := c.R.Intn(len(b))
			b[i] ^= byte(1 << uint(c.R.Intn(8)))
			return b, "bitflip"
		}
		return b, "same"
	case 3: // blow up a 4-byte field somewhere (length / count prefixes)
		if len(b) >= 4 {
			i := c.R.Intn(len(b) - 3)
			copy(b[i:], []byte{0xff, 0xff, 0xff, 0xff})
			return b, "hugeword"
		}
		return b, "same"
	case 4:
		if len(b) >= 4 {
			i := c.R.Intn(len(b) - 3)
			copy(b[i:], []byte{0, 0, 0, byte(c.R.Intn(4))})
			return b, "smallword"
		}
		return b, "same"
	case 5:
		if len(b) > 0 {
			i := c.R.Intn(len(b))
			b[i] = 0
			return b, "zerobyte"
		}
		return b, "same"
	case 6:
		if len(b) > 1 {
			i := c.R.Intn(len(b))
			return append(b[:i], b[i+1:]...), "delete"
		}
		return b, "same"
	default:
		return b, "same"
	}
}

func mpisVal(ms []*big.Int) Val {
	vs := make([]Val, len(ms))
	for i, m := range ms {
		vs[i] = NB(m)
	}
	return VL(vs)
}

func restN(rest []byte, n Val, ok bool) Val {
	if !ok {
		return VNone{}
	}
	return L(B(rest), n)
}
func restB(rest, d []byte, ok bool) Val {
	if !ok {
		return VNone{}
	}
	return L(B(rest), B(d))
}
