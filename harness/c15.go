package main

import (
	"fmt"

	otr3 "github.com/coyim/otr3"
)

func init() { generators["C15"] = genC15 }

func tagClass(c *Ctx, own, peer uint32) uint32 {
	switch c.R.Intn(6) {
	case 0:
		return 0
	case 1:
		return uint32(1 + c.R.Intn(0xff))
	case 2:
		return own
	case 3:
		return peer
	case 4:
		return 0x100
	default:
		return uint32(0x100 + c.R.Intn(0x7fffff00))
	}
}

func v3Header(msgType byte, s, r uint32) []byte {
	h := otr3.AppendShort(nil, 3)
	h = append(h, msgType)
	h = otr3.AppendWord(h, s)
	return otr3.AppendWord(h, r)
}

func genC15(c *Ctx) {
	c.Rep.Rule = "ExtractInstanceTags on encoded v3/v2 messages and v3/v2 fragments built from tag classes {0, 1..0xff, own, peer, 0x100, other} and on mutated variants, compared with the model and with the tags the builder wrote; conversation-level tag handling is exercised by the scenario runs; distinct by arguments"
	n := 150
	if c.Thorough() {
		n = 4000
	}
	types := []byte{0x02, 0x0a, 0x11, 0x12, 0x03}
	for i := 0; i < n; i++ {
		s, r := tagClass(c, 0x1234, 0x5678), tagClass(c, 0x1234, 0x5678)
		var m []byte
		kind := ""
		expectOK := false
		switch c.R.Intn(6) {
		case 0, 1:
			kind = "v3-encoded"
			m = otr3.VerifEncode(append(v3Header(types[c.R.Intn(5)], s, r), c.genBytes()...))
			expectOK = true
		case 2:
			kind = "v3-fragment"
			m = append(otr3.VerifFragmentPrefix(3, c.R.Intn(3), 3, s, r), c.genPayload(c.R.Intn(9))...)
			m = append(m, ',')
			expectOK = true
		case 3:
			kind = "v2-encoded"
			body := append(otr3.AppendShort(nil, 2), types[c.R.Intn(5)])
			m = otr3.VerifEncode(append(body, c.R.Bytes(8+c.R.Intn(20))...))
		case 4:
			kind = "v2-fragment"
			m = append(otr3.VerifFragmentPrefix(2, 0, 2, 0, 0), c.genPayload(5)...)
		default:
			kind = "other"
			m = [][]byte{[]byte("?OTR:"), []byte("?OTR|"), []byte("?OTR:A"), []byte("?OTR?v3?"), []byte("hello"), []byte("?OTR:AAMC."), {}}[c.R.Intn(7)]
		}
		if c.R.Chance(1, 4) {
			var mk string
			m, mk = c.mutate(m)
			kind += "+" + mk
			expectOK = false
		}
		c.Count("input:" + kind)
		var ours, theirs uint32
		var ok bool
		out := guard(func() Val {
			ours, theirs, ok = otr3.ExtractInstanceTags(m)
			if !ok {
				return VNone{}
			}
			return L(NU(uint64(ours)), NU(uint64(theirs)))
		})
		c.AddCase(68, "ExtractInstanceTags", out, B(m))
		desc := map[string]string{"kind": kind, "msg": string(m), "sender": fmt.Sprintf("%#x", s), "receiver": fmt.Sprintf("%#x", r)}
		if _, isPanic := out.(VPanic); isPanic {
			c.Violate("panic", "ExtractInstanceTags", "ExtractInstanceTags panicked", desc)
			continue
		}
		if expectOK && (!ok || ours != r || theirs != s) {
			c.Violate("wrong-tags", kind, fmt.Sprintf("got ours=%#x theirs=%#x ok=%v", ours, theirs, ok), desc)
		}
		if (kind == "v2-encoded" || kind == "v2-fragment") && ok {
			c.Violate("tags-on-v2", kind, "helper reports tags for a message that carries none", desc)
		}
		c.Sample(desc)
	}
	c15Conv(c)
	c15RejectedFragments(c)
	c15TaglessFragments(c)
	c14V3Arrivals(c, 40)
	c10ReservedTagDraws(c) // every output of the random source when the own tag is drawn
}
