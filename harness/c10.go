package main

import (
	"bytes"
	"crypto/aes"
	"crypto/cipher"
	"crypto/dsa"
	"crypto/hmac"
	"crypto/sha1"
	"crypto/sha256"
	"encoding/base64"
	"encoding/binary"
	"fmt"
	"math/big"
	"strings"

	otr3 "github.com/coyim/otr3"
)

func init() { generators["C10"] = genC10 }

// ---- independent reference (written from the specification; only math/big and crypto/*) ----

type refData struct {
	flags      byte
	sk, rk     uint32
	y          *big.Int
	ctr        []byte
	enc        []byte
	mac        []byte
	old        []byte
	signedPart []byte // header + everything up to the end of the encrypted message
}

func refWord(b []byte) (uint32, []byte, bool) {
	if len(b) < 4 {
		return 0, nil, false
	}
	return binary.BigEndian.Uint32(b), b[4:], true
}
func refDataField(b []byte) ([]byte, []byte, bool) {
	n, r, ok := refWord(b)
	if !ok || uint64(n) > uint64(len(r)) {
		return nil, nil, false
	}
	return r[:n], r[n:], true
}

// refDecode: "?OTR:" base64 "." -> header, body
func refDecode(m []byte) (ver int, typ byte, hdr, body []byte, ok bool) {
	if !bytes.HasPrefix(m, []byte("?OTR:")) || len(m) < 7 || m[len(m)-1] != '.' {
		return
	}
	dec, err := base64.StdEncoding.DecodeString(string(m[5 : len(m)-1]))
	if err != nil || len(dec) < 3 {
		return
	}
	ver, typ = int(dec[0])<<8|int(dec[1]), dec[2]
	hl := 3
	if ver == 3 {
		hl = 11
	}
	if len(dec) < hl {
		return
	}
	return ver, typ, dec[:hl], dec[hl:], true
}

func refParseData(hdr, body []byte) (d refData, ok bool) {
	if len(body) < 1 {
		return
	}
	d.flags = body[0]
	b := body[1:]
	var okk bool
	if d.sk, b, okk = refWord(b); !okk {
		return
	}
	if d.rk, b, okk = refWord(b); !okk {
		return
	}
	var yb []byte
	if yb, b, okk = refDataField(b); !okk {
		return
	}
	d.y = new(big.Int).SetBytes(yb)
	if len(b) < 8 {
		return
	}
	d.ctr, b = b[:8], b[8:]
	if d.enc, b, okk = refDataField(b); !okk {
		return
	}
	d.signedPart = append(append([]byte{}, hdr...), body[:len(body)-len(b)]...)
	if len(b) < 20 {
		return
	}
	d.mac, b = b[:20], b[20:]
	if d.old, b, okk = refDataField(b); !okk || len(b) != 0 {
		return
	}
	return d, true
}

func refAESCTR(key, ctr8, data []byte) []byte {
	blk, _ := aes.NewCipher(key)
	iv := make([]byte, 16)
	copy(iv, ctr8)
	out := make([]byte, len(data))
	cipher.NewCTR(blk, iv).XORKeyStream(out, data)
	return out
}

// refPayload: text, then optionally NUL and TLVs
func refParsePayload(p []byte) (text []byte, tlvs [][2]interface{}, ok bool) {
	i := bytes.IndexByte(p, 0)
	if i < 0 {
		return p, nil, true
	}
	text = p[:i]
	b := p[i+1:]
	for len(b) > 0 {
		if len(b) < 4 {
			return text, tlvs, false
		}
		ty, l := int(b[0])<<8|int(b[1]), int(b[2])<<8|int(b[3])
		if len(b) < 4+l {
			return text, tlvs, false
		}
		tlvs = append(tlvs, [2]interface{}{ty, append([]byte{}, b[4:4+l]...)})
		b = b[4+l:]
	}
	return text, tlvs, true
}

// ---- tracking the DH keys of both parties by key id ----
type c10Keys struct {
	priv map[int]map[uint32][]byte
	pub  map[int]map[uint32]*big.Int
}

func newC10Keys() *c10Keys {
	return &c10Keys{priv: map[int]map[uint32][]byte{1: {}, 2: {}}, pub: map[int]map[uint32]*big.Int{1: {}, 2: {}}}
}
func (k *c10Keys) observe(s *Sys) {
	for who := 1; who <= 2; who++ {
		km := otr3.VerifKeys(s.ps[who].c)
		if km.OurKeyID == 0 {
			continue
		}
		if len(km.OurCurrentPriv) > 0 && km.OurCurrentPub != nil {
			k.priv[who][km.OurKeyID], k.pub[who][km.OurKeyID] = km.OurCurrentPriv, km.OurCurrentPub
		}
		if len(km.OurPreviousPriv) > 0 && km.OurPreviousPub != nil {
			k.priv[who][km.OurKeyID-1], k.pub[who][km.OurKeyID-1] = km.OurPreviousPriv, km.OurPreviousPub
		}
	}
}
func (k *c10Keys) reset() {
	k.priv = map[int]map[uint32][]byte{1: {}, 2: {}}
	k.pub = map[int]map[uint32]*big.Int{1: {}, 2: {}}
}

func pubArgs(id int) []Val {
	k := partyKeys[id].PublicKey().(*otr3.DSAPublicKey)
	return []Val{NB(k.P), NB(k.Q), NB(k.G), NB(k.Y)}
}

func lastDraw(p *Party, n int, site string) []byte {
	for i := len(p.rnd.draws) - 1; i >= 0; i-- {
		if len(p.rnd.draws[i].val) == n && strings.Contains(p.rnd.draws[i].site, site) {
			return p.rnd.draws[i].val
		}
	}
	return nil
}

// c10CheckAKE: the four messages of the exchange that just completed (committer a, responder b), their outputs
// from index froma / fromb on
func c10CheckAKE(c *Ctx, s *Sys, a, b, froma, fromb int, what string) {
	var commit, key, reveal, sig []byte
	for _, m := range s.ps[a].outs[froma:] {
		if _, t, _, _, ok := refDecode(m); ok && t == 0x02 {
			commit = m
		} else if ok && t == 0x11 {
			reveal = m
		}
	}
	for _, m := range s.ps[b].outs[fromb:] {
		if _, t, _, _, ok := refDecode(m); ok && t == 0x0a {
			key = m
		} else if ok && t == 0x12 {
			sig = m
		}
	}
	if commit == nil || key == nil || reveal == nil || sig == nil {
		c.Violate("ake-messages-missing", what, "the four key-exchange messages were not all found", s.trace)
		return
	}
	x := lastDraw(s.ps[a], 40, "dhCommitMessage")
	r := lastDraw(s.ps[a], 16, "dhCommitMessage")
	y := lastDraw(s.ps[b], 40, "dhKeyMessage")
	if x == nil || r == nil || y == nil {
		c.Violate("ake-secrets-missing", what, "could not identify the exponents / r among the values drawn", s.trace)
		return
	}
	two := big.NewInt(2)
	gx := new(big.Int).Exp(two, new(big.Int).SetBytes(x), groupP)
	gy := new(big.Int).Exp(two, new(big.Int).SetBytes(y), groupP)
	sh := new(big.Int).Exp(gy, new(big.Int).SetBytes(x), groupP)
	ver, _, ch, cb, _ := refDecode(commit)
	tags := func(h []byte) (Val, Val) {
		if len(h) == 11 {
			return NU(uint64(binary.BigEndian.Uint32(h[3:]))), NU(uint64(binary.BigEndian.Uint32(h[7:])))
		}
		return N(0), N(0)
	}
	raw := func(h, b []byte) []byte { return append(append([]byte{}, h...), b...) }
	st, rt := tags(ch)
	c.AddCase(112, "spec:dh-commit", B(raw(ch, cb)), N(ver), st, rt, B(r), NB(gx))
	_, _, kh, kb, _ := refDecode(key)
	st, rt = tags(kh)
	c.AddCase(113, "spec:dh-key", B(raw(kh, kb)), N(ver), st, rt, NB(gy))
	// keys: the implementation's derivation (hook) against the specification (Coq) and the reference (Go)
	impl := otr3.VerifAKEKeys(sh, ver)
	ref := refAKEKeysFor(sh)
	vs := make([]Val, len(impl))
	for i, k := range impl {
		vs[i] = B(k)
	}
	c.AddCase(110, "spec:ake-keys", VL(vs), NB(sh))
	for i, rk := range [][]byte{ref.ssid, ref.c, ref.cp, ref.m1, ref.m2, ref.m1p, ref.m2p} {
		if !bytes.Equal(rk, impl[i]) {
			c.Violate("ake-key-differs-from-specification", fmt.Sprintf("%s,key#%d", what, i), "calculateAKEKeys differs from the reference derivation", s.trace)
		}
	}
	for who := 1; who <= 2; who++ {
		id := s.ps[who].c.GetSSID()
		if !bytes.Equal(id[:], ref.ssid) {
			c.Violate("ssid-differs-from-specification", fmt.Sprintf("%s,party=%d", what, who), fmt.Sprintf("GetSSID() = %x, the specification gives %x for the secrets of this exchange", id, ref.ssid), s.trace)
		}
	}
	// reveal signature: r, AES_c(X_B), MAC_m2
	_, _, rh, rb, _ := refDecode(reveal)
	rr, rest, ok1 := refDataField(rb)
	enc, rest2, ok2 := refDataField(rest)
	if !ok1 || !ok2 || len(rest2) != 20 || !bytes.Equal(rr, r) {
		c.Violate("reveal-signature-layout", what, "the Reveal Signature message is not DATA r, DATA enc, MAC(20) with the r of the commitment", s.trace)
		return
	}
	xb := refAESCTR(ref.c, nil, enc)
	pubSer := partyKeys[a].Serialize()
	pubSer = pubSer[:len(pubSer)-len(refMPI(partyKeys[a].X))]
	if !bytes.HasPrefix(xb, pubSer) || len(xb) != len(pubSer)+4+40 {
		c.Violate("encrypted-signature-layout", what+",reveal", "X_B is not pubkey, keyid, 40-byte signature under key c", s.trace)
		return
	}
	keyidB := binary.BigEndian.Uint32(xb[len(pubSer):])
	sigB := xb[len(pubSer)+4:]
	st, rt = tags(rh)
	args := append([]Val{N(ver), st, rt, B(r), NB(sh)}, pubArgs(a)...)
	args = append(args, NU(uint64(keyidB)), B(sigB))
	c.AddCase(114, "spec:reveal-signature", B(raw(rh, rb)), args...)
	mac := hmac.New(sha256.New, ref.m1)
	mac.Write(refMPI(gx))
	mac.Write(refMPI(gy))
	mac.Write(pubSer)
	mac.Write(xb[len(pubSer) : len(pubSer)+4])
	mb := mac.Sum(nil)
	c.AddCase(117, "spec:M_B", B(mb), append(append([]Val{B(ref.m1), NB(gx), NB(gy)}, pubArgs(a)...), NU(uint64(keyidB)))...)
	pk := partyKeys[a].PublicKey().(*otr3.DSAPublicKey)
	if !dsa.Verify(&dsa.PublicKey{Parameters: dsa.Parameters{P: pk.P, Q: pk.Q, G: pk.G}, Y: pk.Y}, mb, new(big.Int).SetBytes(sigB[:20]), new(big.Int).SetBytes(sigB[20:])) {
		c.Violate("signature-does-not-verify", what+",reveal", "sig_B does not verify over M_B computed from the specification", s.trace)
	}
	// signature message
	_, _, shd, sb, _ := refDecode(sig)
	enc2, rest3, ok3 := refDataField(sb)
	if !ok3 || len(rest3) != 20 {
		c.Violate("signature-layout", what, "the Signature message is not DATA enc, MAC(20)", s.trace)
		return
	}
	xa := refAESCTR(ref.cp, nil, enc2)
	pubSerB := partyKeys[b].Serialize()
	pubSerB = pubSerB[:len(pubSerB)-len(refMPI(partyKeys[b].X))]
	if !bytes.HasPrefix(xa, pubSerB) || len(xa) != len(pubSerB)+4+40 {
		c.Violate("encrypted-signature-layout", what+",signature", "X_A is not pubkey, keyid, 40-byte signature under key c'", s.trace)
		return
	}
	keyidA := binary.BigEndian.Uint32(xa[len(pubSerB):])
	sigA := xa[len(pubSerB)+4:]
	st, rt = tags(shd)
	args = append([]Val{N(ver), st, rt, NB(sh)}, pubArgs(b)...)
	args = append(args, NU(uint64(keyidA)), B(sigA))
	c.AddCase(115, "spec:signature", B(raw(shd, sb)), args...)
	mac = hmac.New(sha256.New, ref.m1p)
	mac.Write(refMPI(gy))
	mac.Write(refMPI(gx))
	mac.Write(pubSerB)
	mac.Write(xa[len(pubSerB) : len(pubSerB)+4])
	ma := mac.Sum(nil)
	pkb := partyKeys[b].PublicKey().(*otr3.DSAPublicKey)
	if !dsa.Verify(&dsa.PublicKey{Parameters: dsa.Parameters{P: pkb.P, Q: pkb.Q, G: pkb.G}, Y: pkb.Y}, ma, new(big.Int).SetBytes(sigA[:20]), new(big.Int).SetBytes(sigA[20:])) {
		c.Violate("signature-does-not-verify", what+",signature", "sig_A does not verify over M_A computed from the specification", s.trace)
	}
	c.Count("ake-checked:" + what)
}

// c10CheckData: every data message among outs (just emitted by party who) against the specification
func c10CheckData(c *Ctx, s *Sys, keys *c10Keys, who int, outs [][]byte, sentText []byte, coq bool) {
	peer := 3 - who
	for _, m := range outs {
		ver, typ, hdr, body, ok := refDecode(m)
		if !ok || typ != 0x03 {
			continue
		}
		d, ok := refParseData(hdr, body)
		if !ok {
			c.Violate("data-message-layout", fmt.Sprintf("party=%d", who), "an emitted data message does not have the layout the specification prescribes", s.trace)
			continue
		}
		priv, ourPub, theirPub := keys.priv[who][d.sk], keys.pub[who][d.sk], keys.pub[peer][d.rk]
		if priv == nil || ourPub == nil || theirPub == nil {
			c.Violate("data-message-key-ids", fmt.Sprintf("party=%d,sk=%d,rk=%d", who, d.sk, d.rk), "the key ids of an emitted data message do not name keys the two parties hold", s.trace)
			continue
		}
		if next := keys.pub[who][d.sk+1]; next == nil || next.Cmp(d.y) != 0 {
			c.Violate("data-message-next-key", fmt.Sprintf("party=%d", who), "the next-DH-key field is not the sender's key with id sender_keyid+1", s.trace)
		}
		sh := new(big.Int).Exp(theirPub, new(big.Int).SetBytes(priv), groupP)
		rk := refSessionKeysFor(priv, ourPub, theirPub)
		impl := otr3.VerifSessionKeys(priv, ourPub, theirPub, ver)
		for i, k := range [][]byte{rk.sendAES, rk.recvAES, rk.sendMAC, rk.recvMAC, rk.extra} {
			if !bytes.Equal(k, impl[i]) {
				c.Violate("session-key-differs-from-specification", fmt.Sprintf("key#%d,secret-bytes=%d", i, len(sh.Bytes())), "calculateDHSessionKeys differs from the reference derivation", map[string]string{"shared_secret_len": fmt.Sprint(len(sh.Bytes()))})
			}
		}
		mac := hmac.New(sha1.New, rk.sendMAC)
		mac.Write(d.signedPart)
		if !bytes.Equal(mac.Sum(nil), d.mac) {
			c.Violate("mac-differs-from-specification", fmt.Sprintf("party=%d,secret-bytes=%d", who, len(sh.Bytes())), "the authenticator is not HMAC-SHA1 under the specification's sending MAC key over header..encrypted message", s.trace)
		}
		payload := refAESCTR(rk.sendAES, d.ctr, d.enc)
		text, tlvs, ok := refParsePayload(payload)
		if !ok {
			c.Violate("payload-layout", fmt.Sprintf("party=%d", who), "the decrypted payload is not text NUL TLVs", s.trace)
		}
		if sentText != nil && !bytes.Equal(text, sentText) {
			c.Violate("ciphertext-differs-from-specification", fmt.Sprintf("party=%d,secret-bytes=%d", who, len(sh.Bytes())), fmt.Sprintf("decrypting with the specification's keys gives %q, sent was %q", head(string(text), 60), sentText), s.trace)
		}
		_ = tlvs
		if coq {
			vs := make([]Val, len(impl))
			for i, k := range impl {
				vs[i] = B(k)
			}
			c.AddCase(111, "spec:session-keys", VL(vs), NB(ourPub), NB(theirPub), NB(sh))
			var st, rt Val = N(0), N(0)
			if len(hdr) == 11 {
				st, rt = NU(uint64(binary.BigEndian.Uint32(hdr[3:]))), NU(uint64(binary.BigEndian.Uint32(hdr[7:])))
			}
			c.AddCase(116, "spec:data-message", B(append(append([]byte{}, hdr...), body...)),
				N(ver), st, rt, N(int(d.flags)), NU(uint64(d.sk)), NU(uint64(d.rk)), NB(d.y), B(d.ctr), NB(ourPub), NB(theirPub), NB(sh), B(payload), B(d.old))
		}
		c.Count(fmt.Sprintf("data-checked:v%d", ver))
		if len(sh.Bytes()) < 192 {
			c.Count("data-checked:short-shared-secret")
		}
		if len(ourPub.Bytes()) < 192 || len(theirPub.Bytes()) < 192 {
			c.Count("data-checked:short-public-key")
		}
		c.Rep.Evaluations++
	}
}

func c10Primitives(c *Ctx, n int) {
	for i := 0; i < n; i++ {
		m := c.R.Bytes([]int{0, 1, 55, 56, 63, 64, 65, 119, 120, 200, 1 + c.R.Intn(400)}[c.R.Intn(11)])
		h1 := sha1.Sum(m)
		h2 := sha256.Sum256(m)
		c.AddCase(100, "sha1", B(h1[:]), B(m))
		c.AddCase(101, "sha256", B(h2[:]), B(m))
		key := c.R.Bytes([]int{0, 16, 20, 32, 64, 65, 100}[c.R.Intn(7)])
		hm := hmac.New(sha1.New, key)
		hm.Write(m)
		c.AddCase(102, "hmac-sha1", B(hm.Sum(nil)), B(key), B(m))
		hm2 := hmac.New(sha256.New, key)
		hm2.Write(m)
		c.AddCase(103, "hmac-sha256", B(hm2.Sum(nil)), B(key), B(m))
		k16 := c.R.Bytes(16)
		ctr := c.R.Bytes(16)
		if c.R.Chance(1, 3) { // carry into the upper bytes
			ctr = append(c.R.Bytes(8), 0xff, 0xff, 0xff, 0xff, 0xff, 0xff, 0xff, byte(0xfd+c.R.Intn(3)))
		}
		blk, _ := aes.NewCipher(k16)
		out := make([]byte, len(m))
		cipher.NewCTR(blk, ctr).XORKeyStream(out, m)
		c.AddCase(104, "aes-128-ctr", B(out), B(k16), B(ctr), B(m))
		one := make([]byte, 16)
		blk.Encrypt(one, ctr)
		c.AddCase(105, "aes-128-block", B(one), B(k16), B(ctr))
	}
	c.Count("primitive-cases")
}

func genC10(c *Ctx) {
	c.Rep.Rule = "the specification model (Coq: SHA-1, SHA-256, HMAC, AES-CTR, key derivation, the four key-exchange messages, the data message) is evaluated on the secrets of real sessions and compared byte for byte with what the implementation put on the wire; an independent Go reference (math/big, crypto/*) re-derives SSID, AKE keys, signature validity, session keys, MAC, ciphertext, key ids and next key for every message of every session; sessions: both versions, either initiator, refresh while encrypted, after End, rotations, crossing traffic, TLVs, extra symmetric key, fragmenting senders; key pairs whose shared secret has leading zero bytes are searched for deliberately; the primitives are compared with Go's crypto packages on boundary lengths"
	shardSize = 24 // a case costs a quarter of a second in Coq: spread them over the cores
	nprim, nsess := 12, 10
	if c.Thorough() {
		nprim, nsess = 150, 120
	}
	c10Primitives(c, nprim)
	c10ExtraKeyBoundaries(c)
	c10ReservedTagDraws(c)
	c10SmpFlags(c)
	for i := 0; i < nsess; i++ {
		pol := []int{polV3, polV2, polV2 | polV3}[i%3]
		pols := []int{pol, pol}
		s := newSys(pols, c.R.U64())
		s.keepSecrets()
		keys := newC10Keys()
		if i%4 == 1 {
			s.SetFragmentSize(1, 100+c.R.Intn(200))
		}
		if i%4 == 2 {
			// one party only draws exponents whose public value has a leading zero byte (comparisons of public keys are
			// numeric, MPIs minimal)
			s.ps[1+c.R.Intn(2)].rnd.shortPub = true
			c.Count("sessions-with-short-public-keys")
		}
		if i%2 == 1 {
			// the random sources look for exponents whose shared secret with one of the peer's recent exponents has
			// leading zero bytes (one key pair in 256 otherwise): MPIs of secrets are minimal, not fixed width
			for who := 1; who <= 2; who++ {
				peer := s.ps[3-who]
				s.ps[who].rnd.shortWith = func() [][]byte { return lastExps(peer, 2) }
			}
			c.Count("sessions-with-short-secrets")
		}
		a := 1 + i%2 // who commits: the one that receives the query
		o1, o2 := len(s.ps[a].outs), len(s.ps[3-a].outs)
		if !s.Handshake(3-a, a) {
			c.Violate("handshake-failed", fmt.Sprint(pol), "plain handshake did not complete", s.trace)
			continue
		}
		keys.observe(s)
		c10CheckAKE(c, s, a, 3-a, o1, o2, "first")
		send := func(who int, coq bool) {
			t := []byte(fmt.Sprintf("text %d/%x", who, c.R.Bytes(3+c.R.Intn(20))))
			outs := s.Send(who, t)
			keys.observe(s)
			c10CheckData(c, s, keys, who, outs, t, coq)
		}
		deliver := func(f int) {
			if idx := s.next(f); idx >= 0 {
				before := len(s.ps[3-f].outs)
				s.Deliver(f, idx, 3-f, MNone)
				keys.observe(s)
				c10CheckData(c, s, keys, 3-f, s.ps[3-f].outs[before:], nil, false)
			}
		}
		nCoq := 0
		for k := 0; k < 16; k++ {
			who := 1 + c.R.Intn(2)
			switch c.R.Intn(5) {
			case 0, 1:
				nCoq++
				send(who, nCoq <= 3 || c.Thorough())
			case 2, 3:
				deliver(who)
			default:
				if s.ps[who].c.IsEncrypted() {
					var key []byte
					usage := uint32(c.R.Intn(1000))
					nOut := len(s.ps[who].outs)
					key = s.ExtraKey(who, usage, []byte("file transfer"))
					keys.observe(s)
					c10CheckData(c, s, keys, who, s.ps[who].outs[nOut:], nil, false)
					// the key handed to the application is the extra key of the pair the message was sent under
					if m := s.ps[who].outs[len(s.ps[who].outs)-1]; key != nil {
						_, _, hdr, body, ok := refDecode(m)
						if d, ok2 := refParseData(hdr, body); ok && ok2 {
							rk := refSessionKeysFor(keys.priv[who][d.sk], keys.pub[who][d.sk], keys.pub[3-who][d.rk])
							if !bytes.Equal(rk.extra, key) {
								c.Violate("extra-key-differs-from-specification", fmt.Sprintf("party=%d", who), "UseExtraSymmetricKey returned a key that is not h2(0xFF, secbytes) of the key pair used", s.trace)
							}
							c.Count("extra-key-checked")
						}
					}
				}
			}
		}
		s.Pump(1, 2, 40)
		keys.observe(s)
		// the reference as a sender: a text and a TLV-only message built from the sender's secrets alone (no
		// padding, nothing disclosed) must be accepted and read by the real implementation
		if s.ps[1].c.IsEncrypted() && s.ps[2].c.IsEncrypted() {
			f := 1 + c.R.Intn(2)
			t := []byte(fmt.Sprintf("built by the reference %x", c.R.Bytes(4)))
			if s.Forge(f, fmt.Sprintf("CSend %s", coqBytes(t)), 0, t, nil) {
				idx := len(s.ps[f].outs) - 1
				plain, _ := s.Deliver(f, idx, 3-f, MNone)
				s.ps[f].pending = idx + 1
				keys.observe(s)
				if !bytes.Equal(plain, t) {
					c.Violate("reference-message-not-read", fmt.Sprintf("v%d", versionOf(pol)), fmt.Sprintf("a data message built by the independent implementation came back as %q", plain), s.trace)
				}
				c.Count("reference-built-message-delivered")
				// the receiver's reply traffic still works
				send(3-f, false)
				s.Pump(1, 2, 10)
			}
		}
		// refresh inside the session, started by either side
		if i%3 == 0 {
			b := 1 + c.R.Intn(2)
			s.tick(130)
			o1, o2 = len(s.ps[b].outs), len(s.ps[3-b].outs)
			if s.Handshake(3-b, b) {
				keys.reset()
				keys.observe(s)
				c10CheckAKE(c, s, b, 3-b, o1, o2, "refresh")
				send(1, true)
				send(2, false)
				s.Pump(1, 2, 10)
			}
		}
		if i%5 == 4 {
			s.End(1)
			s.Pump(1, 2, 6)
			s.End(2)
			s.tick(130)
			o1, o2 = len(s.ps[2].outs), len(s.ps[1].outs)
			if s.Handshake(1, 2) {
				keys.reset()
				keys.observe(s)
				c10CheckAKE(c, s, 2, 1, o1, o2, "after-end")
				send(2, true)
			}
		}
		if s.panicked {
			c.Violate("panic", "c10", "a call panicked", s.trace)
		}
		if i == 0 {
			c.Sample(s.trace[:min2(10, len(s.trace))])
		}
	}
}

// the extra symmetric key request at the boundary of what a TLV can carry (16-bit length: 4 bytes of usage + data): either
// the call refuses and nothing is emitted, or the peer is told the same key together with exactly the usage and data given
func c10ExtraKeyBoundaries(c *Ctx) {
	for _, pol := range []int{polV3, polV2} {
		for _, l := range []int{0, 1, 65530, 65531, 65532, 65533, 65535, 65536, 70000} {
			pols := []int{pol, pol}
			s := newSys(pols, c.R.U64())
			if !s.Handshake(1, 2) {
				continue
			}
			data := bytes.Repeat([]byte{0x41}, l)
			nOut := len(s.ps[1].outs)
			nEv := len(s.ps[2].events)
			key := s.ExtraKey(1, 0x1234, data)
			emitted := len(s.ps[1].outs) > nOut
			trig := fmt.Sprintf("v%d,usage-data=%d", versionOf(pol), l)
			c.Count("extra-key-boundary")
			if key == nil {
				if emitted {
					c.Violate("extra-key-deviation", trig, "UseExtraSymmetricKey failed but a message was emitted", s.trace[len(s.trace)-min2(6, len(s.trace)):])
				}
				continue
			}
			s.Pump(1, 2, 6)
			got := false
			for _, e := range s.ps[2].events[nEv:] {
				if e == 300 {
					got = true
				}
			}
			if !got || s.panicked {
				c.Violate("extra-key-deviation", trig, fmt.Sprintf("UseExtraSymmetricKey succeeded with %d bytes of usage data but the peer was not given the key (TLV type 8 with a 16-bit length of 4 + %d does not exist)", l, l), s.trace[len(s.trace)-min2(6, len(s.trace)):])
			}
			c.Rep.Evaluations++
		}
	}
}

// the instance tag of a v3 conversation is never one of the reserved values (below 0x100), however many of those the
// random source produces first; the exchange completes and every header and fragment prefix carries the legal tag
func c10ReservedTagDraws(c *Ctx) {
	draws := [][]byte{{0x42}, {0, 0xff}, {1, 2, 3}, {0x42, 7, 0, 0xff}, {0xff, 0xfe, 0, 1, 2}, {0, 0, 0, 0, 0, 0, 0, 0}}
	for _, d := range draws {
		for who := 1; who <= 2; who++ {
			pols := []int{polV3, polV3}
			s := newSys(pols, c.R.U64())
			s.ps[who].rnd.lowTags = append([]byte{}, d...)
			trig := fmt.Sprintf("party=%d,reserved-draws=%d", who, len(d))
			ok := s.Handshake(1, 2)
			s.Send(who, []byte("after"))
			s.Pump(1, 2, 6)
			c.Count("reserved-tag-draws")
			c.Rep.Evaluations++
			if s.panicked {
				c.Violate("panic", trig, "panic while the random source produced reserved instance tag values", s.trace)
				continue
			}
			for _, m := range s.ps[who].outs {
				ver, _, hdr, _, dec := refDecode(m)
				if !dec || ver != 3 || len(hdr) < 11 {
					continue
				}
				if tag := binary.BigEndian.Uint32(hdr[3:7]); tag < 0x100 {
					c.Violate("spec-deviation", trig, fmt.Sprintf("a version 3 message carries the reserved sender instance tag %#x", tag), s.trace)
					break
				}
			}
			if !ok {
				c.Violate("spec-deviation", trig, "the key exchange did not complete after the random source produced reserved instance tag values first", s.trace)
			}
		}
	}
}

// messages that carry no user-visible text but an SMP TLV (steps, abort, replies to out-of-sequence steps) are marked
// IGNORE_UNREADABLE, as the specification asks for messages the user would not miss; so are heartbeats
func c10SmpFlags(c *Ctx) {
	sec := []byte("s")
	for _, pol := range []int{polV3, polV2} {
		pols := []int{pol, pol}
		s := newSys(pols, c.R.U64())
		if !s.Handshake(1, 2) {
			continue
		}
		check := func(who, reader int, what string) {
			p := s.ps[who]
			for i := p.pending; i < len(p.outs); i++ {
				w := parseWire(p.outs[i])
				if w.kind != 4 {
					continue
				}
				plain, tlvs, ok := otr3.VerifPeekTLVs(s.ps[reader].c, p.outs[i])
				if !ok {
					continue
				}
				smp := false
				for _, t := range tlvs {
					if t.Type >= 2 && t.Type <= 7 {
						smp = true
					}
				}
				c.Rep.Evaluations++
				if (smp || len(tlvs) == 0) && len(plain) == 0 && w.data.Flag&1 == 0 {
					c.Violate("spec-deviation", fmt.Sprintf("v%d,%s", versionOf(pol), what), fmt.Sprintf("a data message without text that carries %d TLV(s) (SMP: %v) is not marked IGNORE_UNREADABLE (flags %#x)", len(tlvs), smp, w.data.Flag), s.trace)
				}
			}
		}
		// a run that is aborted by its initiator
		s.StartSMP(1, "", sec)
		check(1, 2, "smp1")
		s.Pump(1, 2, 4)
		s.AbortSMP(1)
		check(1, 2, "user-abort")
		s.Pump(1, 2, 4)
		// an out-of-sequence step: the responder answers with an abort
		s.StartSMP(1, "", sec)
		s.Pump(1, 2, 4)
		s.ProvideSMP(2, sec)
		idx := s.next(2)
		if idx >= 0 {
			check(2, 1, "smp2")
			s.Deliver(2, idx, 1, MNone) // 1 answers with message 3
			j := s.next(1)
			if j >= 0 {
				check(1, 2, "smp3")
				s.AbortSMP(2) // the responder gives up before message 3 arrives
				check(2, 1, "user-abort-2")
				s.dropFrom(2, s.ps[2].pending)
				s.Deliver(1, j, 2, MNone) // message 3 arrives out of sequence
				check(2, 1, "reply-to-out-of-sequence")
			}
		}
		s.Pump(1, 2, 10)
		// heartbeat
		s.tick(200)
		s.Send(1, []byte("tick"))
		k := s.next(1)
		if k >= 0 {
			s.Deliver(1, k, 2, MNone)
			check(2, 1, "heartbeat")
		}
		c.Count("smp-flags")
	}
}
