package main

import (
	"bytes"
	"encoding/base64"
	"fmt"
	otr3 "github.com/coyim/otr3"
	"strconv"
	"strings"
)

func init() {
	generators["C03"] = genC03
	generators["C18"] = genC18
}

// pickPolicyPair: two policy sets sharing at least one version
func (c *Ctx) pickPolicyPair() (int, int) {
	for {
		a := c.R.Intn(64) * 2
		b := c.R.Intn(64) * 2
		if a&b&(polV2|polV3) != 0 {
			return a, b
		}
	}
}

type lifeRun struct {
	s      *Sys
	pols   []int
	texts  map[int][]string // per party, texts given to Send with the state they were sent in
	due    map[string]bool  // text -> encryption was due when it was given to Send
	recent map[int]string   // most recent text per party (for the resend rule)
}

// lifecycle history: sends, deliveries, key exchanges started by queries, End, error messages, ticks
func lifeScenario(c *Ctx, steps int) *lifeRun {
	pa, pb := c.pickPolicyPair()
	if c.R.Chance(1, 2) { // favour simple policy sets half of the time
		v := c.pickVersionPolicy()
		pa, pb = v, v
		if c.R.Chance(1, 2) {
			pa |= polRequire
		}
		if c.R.Chance(1, 3) {
			pb |= polErrStart
		}
	}
	pols := []int{pa, pb}
	lr := &lifeRun{s: newSys(pols, c.R.U64()), pols: pols, texts: map[int][]string{}, due: map[string]bool{}, recent: map[int]string{}}
	s := lr.s
	tn := 0
	for k := 0; k < steps; k++ {
		a := 1 + c.R.Intn(2)
		b := 3 - a
		switch x := c.R.Intn(20); {
		case x < 6:
			tn++
			t := fmt.Sprintf("T%d-%x", tn, c.R.Bytes(8))
			st := s.ps[a].c.IsEncrypted()
			_ = st
			lr.texts[a] = append(lr.texts[a], t)
			s.Send(a, []byte(t))
			c.Count("op:send")
		case x < 13:
			if idx := s.next(a); idx >= 0 {
				s.Deliver(a, idx, b, MNone)
				c.Count("op:deliver")
			}
		case x < 15:
			s.Query(a, b)
			c.Count("op:query")
		case x < 17:
			s.End(a)
			c.Count("op:end")
		case x < 18:
			s.Inject(a, []byte("?OTR Error: oops"), fmt.Sprintf("WError %s", coqBytes([]byte("oops"))))
			c.Count("op:error-message")
		default:
			s.tick(70)
			c.Count("op:tick")
		}
	}
	s.Pump(1, 2, 60)
	return lr
}

func readableIn(out []byte, text string) bool {
	if bytes.Contains(out, []byte(text)) {
		return true
	}
	// inside base64 armour
	if bytes.HasPrefix(out, []byte("?OTR:")) && len(out) > 6 {
		if dec, err := base64.StdEncoding.DecodeString(string(out[5 : len(out)-1])); err == nil && bytes.Contains(dec, []byte(text)) {
			return true
		}
	}
	return false
}

// C03: user text never reaches the wire in readable form when encryption is due
func genC03(c *Ctx) {
	c.Rep.Rule = "directed sweep: ten lifecycle phases (plaintext, exchange started, encrypted via query / via whitespace tag, peer ended, peer ended + new exchange in flight, peer ended + re-keyed, locally ended, refresh in flight, refreshed) x actions (Send of ordinary and of protocol-looking texts, injected plaintext and error messages, End, peer disconnect) x policy sets; plus random lifecycle histories; every step compared with the abstract machine; oracle: every wire output of a call made while the caller is encrypted, finished, or plaintext under require-encryption is searched (raw and inside base64) for every text ever given to that party's Send; finished / require-encryption Send emit no data message at all"
	phaseSweep(c, func(s *Sys, pols []int) { c03Oracle(c, s); c.AddScenario(s, pols) })
	randFailRefresh(c, func(s *Sys) { c03Oracle(c, s) })
	n := 20
	steps := 40
	if c.Thorough() {
		n, steps = 200, 120
	}
	for i := 0; i < n; i++ {
		lr := lifeScenario(c, steps)
		c03Oracle(c, lr.s)
		c.AddScenario(lr.s, lr.pols)
		if i == 0 {
			c.Sample(lr.s.trace[:min2(12, len(lr.s.trace))])
		}
	}
}

// randomness failure inside a refresh / renewed key exchange of an established session: whatever the outcome, the
// conversation either stays encrypted or tells its user (GoneInsecure); texts given to Send afterwards do not travel
// in the clear as long as the user has been told the conversation is secure
func randFailRefresh(c *Ctx, each func(s *Sys)) {
	for _, pol := range []int{polV3, polV2 | polV3} {
		for who := 1; who <= 2; who++ {
			for _, finishedFirst := range []bool{false, true} {
				for k := 1; k <= 9; k++ {
					pols := []int{pol, pol}
					s := newSys(pols, c.R.U64())
					if !s.Handshake(1, 2) {
						continue
					}
					s.Send(who, []byte("before the refresh"))
					s.Pump(1, 2, 6)
					if finishedFirst {
						// the peer ends; we are "finished" and the peer starts a new exchange
						s.End(3 - who)
						s.Pump(1, 2, 6)
					}
					s.tick(200)
					s.ps[who].rnd.fail = k
					if k%2 == 0 {
						s.Query(who, 3-who)
					} else {
						s.Query(3-who, who)
					}
					s.Pump(1, 2, 12)
					s.ps[who].rnd.fail = 0
					s.Send(who, []byte(fmt.Sprintf("after the failed read %d", k)))
					s.Pump(1, 2, 6)
					s.Send(3-who, []byte("and the other way"))
					s.Pump(1, 2, 6)
					c.Count("rand-failure-in-refresh")
					each(s)
				}
			}
		}
	}
}

func c03Oracle(c *Ctx, s *Sys) {
	given := map[int][]string{}
	told := map[int]bool{} // what the security events (and the user's own End) have told each user
	for _, call := range s.calls {
		if strings.HasPrefix(call.human, "Send(") {
			t := call.human[strings.Index(call.human, "\"")+1 : strings.LastIndex(call.human, "\"")]
			if u, err := strconv.Unquote("\"" + t + "\""); err == nil {
				t = u
			}
			given[call.who] = append(given[call.who], t)
		}
		if call.human == "probe" {
			continue
		}
		toldBefore := told[call.who]
		for _, e := range call.events {
			switch e {
			case 101, 102: // GoneSecure, StillSecure
				told[call.who] = true
			case 100: // GoneInsecure
				told[call.who] = false
			}
		}
		if strings.HasPrefix(call.human, "End(") {
			told[call.who] = false
		}
		due := call.preState != 0 || s.ps[call.who].pol&polRequire != 0 || toldBefore
		if due {
			for _, o := range call.outs {
				for _, t := range given[call.who] {
					if readableIn(o, t) {
						c.Violate("text-readable-on-wire", fmt.Sprintf("state=%d", call.preState), fmt.Sprintf("%s emitted %q containing text %q", call.human, trunc(o), t), s.trace)
					}
				}
			}
		}
		if strings.HasPrefix(call.human, "Send(") && (call.preState == 2 || (call.preState == 0 && s.ps[call.who].pol&polRequire != 0 && s.ps[call.who].pol&(polV2|polV3) != 0)) {
			for _, o := range call.outs {
				if w := parseWire(o); w.kind == 4 || w.kind == 0 {
					c.Violate("text-emitted-when-refused", fmt.Sprintf("state=%d", call.preState), fmt.Sprintf("%s emitted a message of kind %d", call.human, w.kind), s.trace)
				}
			}
		}
	}
	if s.panicked {
		c.Violate("panic", "lifecycle", "a call panicked", s.trace)
	}
}

// C18: lifecycle, security events, retransmission discipline
func genC18(c *Ctx) {
	c.Rep.Rule = "directed sweep over ten lifecycle phases x actions x policy sets (see C03) plus random lifecycle histories, compared step by step with the abstract machine; oracles: GoneSecure / GoneInsecure exactly when IsEncrypted flips during a call, StillSecure only inside an encrypted session, Send refuses after the peer's disconnect until End, End always leaves plaintext, every text is received by the peer at most once plain and at most once marked [resent]"
	phaseSweep(c, func(s *Sys, pols []int) { c18Oracle(c, s); c.AddScenario(s, pols) })
	randFailRefresh(c, func(s *Sys) { c18Oracle(c, s) })
	n := 20
	steps := 45
	if c.Thorough() {
		n, steps = 200, 130
	}
	for i := 0; i < n; i++ {
		lr := lifeScenario(c, steps)
		c18Oracle(c, lr.s)
		c.AddScenario(lr.s, lr.pols)
		if i == 0 {
			c.Sample(lr.s.trace[:min2(12, len(lr.s.trace))])
		}
	}
}

func c18Oracle(c *Ctx, s *Sys) {
	for _, call := range s.calls {
		if call.human == "probe" {
			continue
		}
		wasEnc, isEnc := call.preState == 1, call.postState == 1
		gs, gi := eventsHave(call.events, 101), eventsHave(call.events, 100)
		if (!wasEnc && isEnc) != gs {
			c.Violate("gone-secure-mismatch", fmt.Sprintf("%d->%d", call.preState, call.postState), fmt.Sprintf("%s: GoneSecure=%v", call.human, gs), s.trace)
		}
		if (wasEnc && !isEnc) != gi {
			c.Violate("gone-insecure-mismatch", fmt.Sprintf("%d->%d", call.preState, call.postState), fmt.Sprintf("%s: GoneInsecure=%v", call.human, gi), s.trace)
		}
		if eventsHave(call.events, 102) && !(wasEnc && isEnc) {
			c.Violate("still-secure-mismatch", fmt.Sprintf("%d->%d", call.preState, call.postState), call.human, s.trace)
		}
		if strings.HasPrefix(call.human, "Send(") && call.preState == 2 && (len(call.outs) > 0 || !call.err) {
			c.Violate("send-after-peer-end", "finished", fmt.Sprintf("%s did not refuse", call.human), s.trace)
		}
		if strings.HasPrefix(call.human, "End(") && call.postState != 0 {
			c.Violate("end-not-plaintext", fmt.Sprint(call.postState), call.human, s.trace)
		}
	}
	// transmissions as seen by the peer
	for who := 1; who <= 2; who++ {
		peer := s.ps[3-who]
		plainCount, resentCount := map[string]int{}, map[string]int{}
		for _, p := range peer.plains {
			ps := string(p)
			if strings.HasPrefix(ps, "[resent] ") {
				resentCount[strings.TrimPrefix(ps, "[resent] ")]++
			} else {
				plainCount[ps]++
			}
		}
		for _, t := range s.ps[who].texts {
			ts := string(t)
			if plainCount[ts] > 1 {
				c.Violate("text-transmitted-twice", "plain", fmt.Sprintf("text %q was received %d times", ts, plainCount[ts]), s.trace)
			}
			if resentCount[ts] > 1 {
				c.Violate("text-transmitted-twice", "resent", fmt.Sprintf("text %q was received %d times marked resent", ts, resentCount[ts]), s.trace)
			}
		}
	}
}

// ---- directed sweep: lifecycle phase x action x policies ----
const (
	phPlain = iota
	phAkeStarted
	phEncQuery
	phEncWS
	phFinished
	phFinishedAke
	phFinishedReEnc
	phEnded
	phRefreshing
	phRefreshed
	nPhases
)

var phaseNames = []string{"plaintext", "exchange-started", "encrypted(query)", "encrypted(whitespace)", "peer-ended", "peer-ended+exchange-in-flight", "peer-ended+rekeyed", "locally-ended", "refresh-in-flight", "refreshed"}

// reachPhase brings party 1 into the phase (party 2 is the peer); false if the policies do not allow it
func reachPhase(s *Sys, ph int) bool {
	enc := func() bool { return s.ps[1].c.IsEncrypted() && s.ps[2].c.IsEncrypted() }
	establish := func() bool {
		s.Query(2, 1)
		s.Pump(1, 2, 20)
		if !enc() {
			return false
		}
		// both sides have sent something in this session (so that there is a "most recent message")
		s.Send(1, []byte("in-session text of one"))
		s.Send(2, []byte("in-session text of two"))
		s.Pump(1, 2, 10)
		return enc()
	}
	switch ph {
	case phPlain:
		return true
	case phAkeStarted:
		s.Query(2, 1)
		return true
	case phEncQuery:
		return establish()
	case phEncWS:
		if s.ps[1].pol&polSendWS == 0 || s.ps[2].pol&polWSStart == 0 {
			return false
		}
		s.Send(1, []byte("tagged hello"))
		s.Pump(1, 2, 20)
		return enc()
	case phFinished, phFinishedAke, phFinishedReEnc:
		if !establish() {
			return false
		}
		s.End(2)
		s.Pump(1, 2, 6)
		if otr3.VerifSnapshot(s.ps[1].c).MsgState != 2 {
			return false
		}
		if ph == phFinishedAke {
			s.tick(130)
			s.Query(2, 1)
		}
		if ph == phFinishedReEnc {
			s.tick(130)
			s.Query(2, 1)
			s.Pump(1, 2, 20)
		}
		return true
	case phEnded:
		if !establish() {
			return false
		}
		s.End(1)
		return true
	case phRefreshing, phRefreshed:
		if !establish() {
			return false
		}
		s.tick(130)
		s.Query(2, 1)
		if ph == phRefreshed {
			s.Pump(1, 2, 20)
		}
		return true
	}
	return false
}

func phaseSweep(c *Ctx, each func(s *Sys, pols []int)) {
	policySets := [][]int{
		{polV3, polV3},
		{polV2, polV2},
		{polV2 | polV3 | polRequire, polV2 | polV3 | polErrStart},
		{polV3 | polSendWS, polV3 | polWSStart},
		{polV2 | polV3 | polSendWS | polRequire, polV2 | polWSStart},
	}
	texts := []string{"an ordinary line", "?OTRv3? the PIN is 7731", "?OTR? and more", "?OTR Error: not really", "?OTR:AAMDnotbase64."}
	nAct := 8
	k := 0
	for ph := 0; ph < nPhases; ph++ {
		for act := 0; act < nAct; act++ {
			for pi, pols := range policySets {
				k++
				if !c.Thorough() && (k+ph)%2 == 0 && pi > 0 { // quick: every (phase, action) with the first set, half of the rest
					continue
				}
				s := newSys(pols, c.R.U64())
				if !reachPhase(s, ph) {
					continue
				}
				st := otr3.VerifSnapshot(s.ps[1].c).MsgState
				clearOut := st == 0 && pols[0]&polRequire == 0 // Send would put the text on the wire as it is
				switch act {
				case 0:
					s.Send(1, []byte(texts[0]))
				case 1, 2:
					t := texts[1+(k%4)]
					if clearOut {
						t = texts[0] + " again" // (a protocol-looking text in the clear would be read back as a protocol message)
					}
					s.Send(1, []byte(t))
				case 3:
					s.Inject(1, []byte("hello in the clear"), fmt.Sprintf("WPlain %s None", coqBytes([]byte("hello in the clear"))))
				case 4:
					s.Inject(1, []byte("?OTR Error: oops"), fmt.Sprintf("WError %s", coqBytes([]byte("oops"))))
				case 5:
					s.End(1)
				case 6:
					s.End(2)
				case 7:
					// the peer disconnects the way other implementations do: a bare Disconnected TLV, no padding after it,
					// built by the independent reference sender from the peer's secrets
					if !s.ps[2].c.IsEncrypted() || !s.Forge(2, "CSendTLVs [TDisconnected]", 1, nil, []byte{0, 1, 0, 0}) {
						continue
					}
					s.ps[2].pending = len(s.ps[2].outs) - 1
				}
				c.Count("phase:" + phaseNames[ph])
				c.Count(fmt.Sprintf("phase-action:%d", act))
				s.Pump(1, 2, 24)
				s.Send(1, []byte(fmt.Sprintf("tail-one-%d", k)))
				s.Pump(1, 2, 12)
				s.Send(2, []byte(fmt.Sprintf("tail-two-%d", k)))
				s.Pump(1, 2, 12)
				if k%2 == 0 {
					// a further session, and a peer that asks for a retransmission: nothing of an ended session may reappear
					s.tick(130)
					s.Query(2, 1)
					s.Pump(1, 2, 24)
					s.Inject(1, []byte("?OTR Error: again please"), fmt.Sprintf("WError %s", coqBytes([]byte("again please"))))
					s.Pump(1, 2, 24)
					s.Send(1, []byte(fmt.Sprintf("final-%d", k)))
					s.Pump(1, 2, 12)
				}
				each(s, pols)
			}
		}
	}
}
