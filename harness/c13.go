package main

import (
	"bytes"
	"encoding/base64"
	"fmt"
	"runtime"
	"strings"
	"time"

	otr3 "github.com/coyim/otr3"
)

func init() { generators["C13"] = genC13 }

// guarded runs f, reporting panic / excessive time / excessive allocation
func guarded(c *Ctx, what string, input []byte, f func()) (panicked bool) {
	return guardedBudget(c, what, input, 32<<20, 2*time.Second, f)
}

// guardedBudget: [base] bytes of allocation (plus 4 kB per input byte) and [limit] of time are allowed; a whole
// scenario of many calls gets a budget in proportion to its number of calls
func guardedBudget(c *Ctx, what string, input []byte, base uint64, limit time.Duration, f func()) (panicked bool) {
	var m0, m1 runtime.MemStats
	runtime.ReadMemStats(&m0)
	t0 := time.Now()
	func() {
		defer func() {
			if r := recover(); r != nil {
				panicked = true
				c.Violate("panic", what, fmt.Sprintf("panic: %v", r), map[string]string{"input_hex": hex(trunc200(input)), "input": string(trunc200(input))})
			}
		}()
		f()
	}()
	dt := time.Since(t0)
	runtime.ReadMemStats(&m1)
	alloc := m1.TotalAlloc - m0.TotalAlloc
	if dt > limit {
		c.Violate("slow", what, fmt.Sprintf("call took %v", dt), map[string]string{"input_hex": hex(trunc200(input))})
	}
	if alloc > base+uint64(len(input))*4096 {
		c.Violate("alloc", what, fmt.Sprintf("call allocated %d bytes for %d input bytes", alloc, len(input)), map[string]string{"input_hex": hex(trunc200(input))})
	}
	return
}

func trunc200(b []byte) []byte {
	if len(b) > 200 {
		return b[:200]
	}
	return b
}

func word(n uint32) []byte { return []byte{byte(n >> 24), byte(n >> 16), byte(n >> 8), byte(n)} }

// hostile byte strings for the binary parsers
func (c *Ctx) hostileBytes() []byte {
	switch c.R.Intn(8) {
	case 0:
		return append(word(0xffffffff), c.R.Bytes(c.R.Intn(8))...)
	case 1:
		return append(word(0x10000000), c.R.Bytes(c.R.Intn(8))...)
	case 2:
		return append(word(uint32(c.R.Intn(5))), append(word(0x7fffffff), c.R.Bytes(c.R.Intn(6))...)...)
	case 3:
		return c.R.Bytes(c.R.Intn(12))
	case 4:
		return []byte{}
	case 5:
		return append([]byte{0, 0}, append(word(uint32(c.R.Intn(3))), c.R.Bytes(c.R.Intn(20))...)...)
	default:
		b, _ := c.mutate(otr3.AppendMPIs(otr3.AppendWord(nil, 3), c.genMPI(), c.genMPI(), c.genMPI()))
		return b
	}
}

var keyFileSample = `(privkeys
  (account
    (name "alice@example.org")
    (protocol prpl-jabber)
    (private-key
      (dsa
        (p #00FC07ABCF0DC916AFF6E9AE47BEF60C7AB9B4D6B2469E436630E36F8A489BE812486A09F30B71224508654940A835301ACC525A4FF133FC152CC53DCC59D65C30A54F1993FE13FE63E5823D4C746DB21B90F9B9C00B49EC7404AB1D929BA7FBA12F2E45C6E0A651689750E8528AB8C031D3561FECEE72EBB4A090D450A9B7A857#)
        (q #00997BD266EF7B1F60A5C23F3A741F2AEFD07A2081#)
        (g #535E360E8A95EBA46A4F7DE50AD6E9B2A6DB785A66B64EB9F20338D2A3E8FB0E94725848F1AA6CC567CB83A1CC517EC806F2E92EAE71457E80B2210A189B91250779434B41FC8A8873F6DB94BEA7D177F5D59E7E114EE10A49CFD9CEF88AE43387023B672927BA74B04EB6BBB5E57597766A2F9CE3857D7ACE3E1E3BC1FC6F26#)
        (y #0AC8670AD767D7A8D9D14CC1AC6744CD7D76F993B77FFD9E39DF01E5A6536EF65E775FCEF2A983E2A19BD6415500F6979715D9FD1257E1FE2B6F5E1E74B333079E7C880D39868462A93454B41877BE62E5EF0A041C2EE9C9E76BD1E12AE25D9628DECB097025DD625EF49C3258A1A3C0FF501E3DC673B76D7BABF349009B6ECF#)
        (x #14D0345A3562C480A039E3C72764F72D79043216#)
      )
    )
  )
)
`

func (c *Ctx) hostileKeyFile() []byte {
	base := []byte(keyFileSample)
	switch c.R.Intn(9) {
	case 0:
		return base[:c.R.Intn(len(base))] // every truncation, in particular ones ending in '('
	case 1:
		return []byte(strings.Repeat("(", 1+c.R.Intn(40)))
	case 2:
		return []byte("(privkeys (")
	case 3:
		return []byte("((")
	case 4:
		return []byte(strings.Repeat("(", 200) + strings.Repeat(")", c.R.Intn(200)))
	case 5:
		return []byte("(privkeys (account (name \"x") // unterminated string
	case 6:
		return []byte("(privkeys (account (name x) (protocol p) (private-key (dsa (p #zz#) (q #1#)")
	case 7:
		b, _ := c.mutate(base)
		return b
	default:
		return c.R.Bytes(c.R.Intn(60))
	}
}

// states a conversation can be in when hostile input arrives
func c13State(c *Ctx, which int, pol int) *Sys {
	pols := []int{pol, pol}
	s := newSys(pols, c.R.U64())
	switch which {
	case 0: // fresh
	case 1: // awaiting DH-Key (party 1 committed)
		s.Query(2, 1)
	case 2: // party 1 awaiting Reveal-Signature
		s.Query(1, 2)
		if idx := s.next(2); idx >= 0 {
			s.Deliver(2, idx, 1, MNone)
		}
	case 3: // party 1 awaiting Signature
		s.Query(2, 1)
		for k := 0; k < 2; k++ {
			if idx := s.next(1); idx >= 0 && k == 0 {
				s.Deliver(1, idx, 2, MNone)
			}
			if idx := s.next(2); idx >= 0 && k == 0 {
				s.Deliver(2, idx, 1, MNone)
			}
		}
	case 4: // encrypted
		s.Handshake(1, 2)
	case 5: // finished
		s.Handshake(1, 2)
		s.End(2)
		s.Pump(1, 2, 6)
	case 6: // encrypted, SMP pending
		s.Handshake(1, 2)
		s.StartSMP(2, "", []byte("x"))
		s.Pump(1, 2, 4)
	}
	return s
}

// peerTagFor: the tag of the other party if known, else a malformed one (a forged message with a fresh valid
// sender tag would legitimately bind an unbound conversation to that instance, which is not what is tested here)
func peerTagFor(s *Sys, to int) uint32 {
	t := otr3.VerifSnapshot(s.ps[3-to].c).OurTag
	if t == 0 {
		return 7
	}
	return t
}

// fragments that carry a fragment: the payload of a fragment cannot contain a comma, so what is nested is a fragment
// prefix that is ignored or refused when the reassembled message is looked at
func nestedFragments(s *Sys, to int) [][]byte {
	st := peerTagFor(s, to)
	rt := otr3.VerifSnapshot(s.ps[to].c).OurTag
	inner := []string{
		fmt.Sprintf("?OTR|%08x|%08x", st, rt),
		fmt.Sprintf("?OTR|%08x|0%08x", st, rt+1),
		"?OTR|x",
		"?OTR|",
	}
	var out [][]byte
	for _, in := range inner {
		out = append(out, []byte(fmt.Sprintf("?OTR|%08x|%08x,00001,00001,%s,", st, rt, in)))
		out = append(out, []byte(fmt.Sprintf("?OTR|%08x|%08x,00001,00002,%s,", st, rt, in[:3])), []byte(fmt.Sprintf("?OTR|%08x|%08x,00002,00002,%s,", st, rt, in[3:])))
		out = append(out, []byte(fmt.Sprintf("?OTR,1,1,%s,", in)))
		out = append(out, []byte(fmt.Sprintf("?OTR,1,2,%s,", in[:4])), []byte(fmt.Sprintf("?OTR,2,2,%s,", in[4:])))
		// and something that leaves the fragment context alone afterwards
		out = append(out, []byte(fmt.Sprintf("?OTR|%08x|%08x,00009,00002,zz,", st, rt)), []byte("?OTR,9,2,zz,"))
	}
	return out
}

func (c *Ctx) hostileWire(s *Sys, to int) []byte {
	// structure-aware: genuine traffic of the session, damaged; headers with wild fields; garbage
	// genuine traffic of the peer (a party's own messages reflected back would bind it to its own instance tag)
	genuine := append([][]byte{}, s.ps[3-to].outs...)
	pick := func() []byte {
		if len(genuine) == 0 {
			return []byte("?OTR:AAMDAAAAAAAAAAAA.")
		}
		return genuine[c.R.Intn(len(genuine))]
	}
	switch c.R.Intn(12) {
	case 0:
		return []byte("?OTR:")
	case 1:
		return []byte("?OTR:" + base64.StdEncoding.EncodeToString(c.R.Bytes(c.R.Intn(14))) + ".")
	case 2: // valid prefix for a type, then short / huge lengths
		ty := []byte{0x02, 0x0a, 0x11, 0x12, 0x03}[c.R.Intn(5)]
		if c.R.Chance(1, 3) {
			return otr3.VerifEncode(append([]byte{0, 2, ty}, c.hostileBytes()...))
		}
		return otr3.VerifEncode(append(v3Header(ty, peerTagFor(s, to), 0), c.hostileBytes()...))
	case 3:
		m := pick()
		return m[:c.R.Intn(len(m)+1)]
	case 4:
		m := pick()
		w := parseWire(m)
		if w.kind == 3 || w.kind == 4 {
			b, _ := c.mutate(w.body)
			return encodeWire(w.hdr, b)
		}
		return m
	case 5:
		m := pick()
		w := parseWire(m)
		if w.kind == 3 || w.kind == 4 {
			return encodeWire(w.hdr, append(append([]byte{}, w.body[:c.R.Intn(len(w.body)+1)]...), c.hostileBytes()...))
		}
		return m
	case 6:
		st, rt, k, n, pl := peerTagFor(s, to), c.R.Intn(2)*5, c.R.Intn(70000), c.R.Intn(70000), c.genPayload(c.R.Intn(8))
		switch c.R.Intn(8) {
		case 0: // one separator between the tags missing
			return []byte(fmt.Sprintf("?OTR|%08x%08x,%d,%d,%s,", st, rt, k, n, pl))
		case 1: // one too many
			return []byte(fmt.Sprintf("?OTR|%08x|%08x|%07x,%d,%d,%s,", st, rt, 1, k, n, pl))
		case 2:
			return []byte(fmt.Sprintf("?OTR|%08x,%08x,%d,%d,%s,", st, rt, k, n, pl))
		case 3:
			return []byte("?OTR|" + string(c.genPayload(c.R.Intn(30))))
		case 4:
			return []byte(fmt.Sprintf("?OTR||%08x|%08x,%d,%d,%s,", st, rt, k, n, pl))
		}
		return []byte(fmt.Sprintf("?OTR|%08x|%08x,%d,%d,%s,", st, rt, k, n, pl))
	case 7:
		return []byte(fmt.Sprintf("?OTR,%d,%d,%s,", c.R.Intn(4), c.R.Intn(4), c.genPayload(c.R.Intn(8))))
	case 8:
		return append([]byte("?OTR Error:"), c.R.Bytes(c.R.Intn(10))...)
	case 9:
		return []byte("?OTRv" + string(c.genPayload(c.R.Intn(6))) + "?")
	case 10:
		tag := otr3.VerifGenWhitespaceTag(c.R.Intn(64) * 2)
		return append(c.genText(), tag[:c.R.Intn(len(tag)+1)]...)
	default:
		return c.R.Bytes(c.R.Intn(40))
	}
}

func genC13(c *Ctx) {
	c.Rep.Rule = "hostile inputs to every public parser (huge length/count prefixes, truncations, damaged valid encodings, unterminated / deeply nested s-expressions) and to Receive in seven conversation states x policies x versions (damaged genuine traffic, wild headers, fragments, garbage); a randomness source failing at the k-th read for every k reached in a handshake plus traffic; oracles: no panic, < 2 s, allocation proportional to the input, and the conversation still works afterwards (later texts are delivered; after a failed exchange a new one completes)"
	n := 150
	if c.Thorough() {
		n = 6000
	}
	// ---- parsers ----
	for i := 0; i < n; i++ {
		in := c.hostileBytes()
		guarded(c, "ExtractMPIs", in, func() { otr3.ExtractMPIs(in) })
		guarded(c, "ExtractMPI", in, func() { otr3.ExtractMPI(in) })
		guarded(c, "ExtractData", in, func() { otr3.ExtractData(in) })
		guarded(c, "ExtractWord/Short/Long/Byte/Time", in, func() {
			otr3.ExtractWord(in)
			otr3.ExtractShort(in)
			otr3.ExtractLong(in)
			otr3.ExtractByte(in)
			otr3.ExtractTime(in)
			otr3.ExtractFixedData(in, c.R.Intn(10))
		})
		guarded(c, "ParsePublicKey", in, func() { otr3.ParsePublicKey(in) })
		guarded(c, "ParsePrivateKey", in, func() { otr3.ParsePrivateKey(in) })
		c.Rep.Evaluations += 6
		c.Count("parser:binary")
		c13Corr(c, in)
		// decoded-length sweep for the tag helper
		for l := 0; l <= 12; l++ {
			if i > 3 {
				break
			}
			m := []byte("?OTR:" + base64.StdEncoding.EncodeToString(append([]byte{0, 3, 3}, c.R.Bytes(12)...)[:l]) + ".")
			out := guard(func() Val {
				o, t, ok := otr3.ExtractInstanceTags(m)
				if !ok {
					return VNone{}
				}
				return L(NU(uint64(o)), NU(uint64(t)))
			})
			if _, isP := out.(VPanic); isP {
				c.Violate("panic", "ExtractInstanceTags", "panic", map[string]string{"input": string(m)})
			}
			c.AddCase(68, "ExtractInstanceTags", out, B(m))
		}
		kf := c.hostileKeyFile()
		done := make(chan bool, 1)
		go func() {
			guarded(c, "ImportKeys", kf, func() { otr3.ImportKeys(bytes.NewReader(kf)) })
			done <- true
		}()
		select {
		case <-done:
		case <-time.After(3 * time.Second):
			c.Violate("hang", "ImportKeys", "ImportKeys did not return within 3 s", map[string]string{"input": string(trunc200(kf))})
		}
		guarded(c, "DSAPrivateKey.Import", kf, func() { new(otr3.DSAPrivateKey).Import(kf) })
		c.Rep.Evaluations += 2
		c.Count("parser:keyfile")
	}
	sexpInputs(c, n/3)
	keyFileCases(c, 6)
	// ---- Receive in every state ----
	nestedOK := nestedFragmentsInChild(c)
	rounds := 3
	perState := 25
	if c.Thorough() {
		rounds, perState = 30, 60
	}
	for r := 0; r < rounds; r++ {
		for st := 0; st <= 6; st++ {
			pol := c.pickVersionPolicy()
			if c.R.Chance(1, 3) {
				pol |= []int{polRequire, polWSStart, polErrStart, polSendWS}[c.R.Intn(4)]
			}
			s := c13State(c, st, pol)
			var fed []string
			// directed: fragments whose reassembled payload is itself a fragment (in one piece and in two), in both
			// fragment formats, with the tags the receiver expects and with foreign ones; a receiver that re-enters
			// itself on such a payload is stopped by the stack-depth guard of the message event handler (scen.go)
			for _, in := range nestedFragments(s, 1+r%2) {
				if !nestedOK {
					break
				}
				to := 1 + r%2
				fed = append(fed, fmt.Sprintf("Receive(%d, %q)", to, trunc200(in)))
				guarded(c, fmt.Sprintf("Receive(state=%d,nested-fragment)", st), in, func() { s.ps[to].c.Receive(in) })
				c.Rep.Evaluations++
				c.Count("nested-fragment")
			}
			for k := 0; k < perState; k++ {
				to := 1 + c.R.Intn(2)
				in := c.hostileWire(s, to)
				fed = append(fed, fmt.Sprintf("Receive(%d, %q)", to, trunc200(in)))
				guarded(c, fmt.Sprintf("Receive(state=%d)", st), in, func() { s.ps[to].c.Receive(in) })
				c.Rep.Evaluations++
			}
			c.Count(fmt.Sprintf("receive-state:%d", st))
			// the conversation remains usable: a fresh exchange completes and text gets through
			usable := false
			guarded(c, "probe-after-hostile-input", nil, func() {
				for who := 1; who <= 2; who++ {
					s.ps[who].c.End()
					s.ps[who].pending = len(s.ps[who].outs)
				}
				s.tick(200)
				// fresh conversations would trivially work; these are the ones that saw the hostile input
				if s.Handshake(1, 2) {
					s.Send(1, []byte("probe"))
					s.Pump(1, 2, 10)
					pl := s.ps[2].plains
					usable = len(pl) > 0 && string(pl[len(pl)-1]) == "probe"
				}
			})
			if !usable {
				c.Violate("unusable-after-hostile-input", fmt.Sprintf("state=%d", st), "after the hostile inputs a new key exchange plus one message did not get through",
					map[string]interface{}{"policies": []int{pol, pol}, "state": st, "hostile_inputs": fed, "then": s.trace[len(s.trace)-min2(12, len(s.trace)):]})
			}
		}
	}
	c13RandFailure(c)
	c13Keyless(c)
	smpRestarts(c)
	tlvsBehindDisconnect(c)
	// authenticated but malicious key-exchange payloads: a peer that takes part in the exchange puts something
	// unparsable (or somebody else's key) where its public key and signature belong, encrypted and MACed correctly
	for _, typ := range []byte{0x02, 0x11, 0x12} {
		muts := []Mut{MBadX(0), MBadX(1), MBadX(2), MBadX(3), MBadX(4), MImpersonate(3)}
		if typ == 0x02 {
			// well-formed D-H Commit messages whose commitment field has another length than the hash
			muts = []Mut{MCommitHashLen(0), MCommitHashLen(1), MCommitHashLen(10), MCommitHashLen(31), MCommitHashLen(33), MCommitHashLen(40)}
		}
		for _, m := range muts {
			for _, late := range []bool{false, true} {
				pol := []int{polV3, polV2}[(int(typ)+len(m.Coq))%2]
				run := akeSweepRun(pol, c.R.U64(), typ, m, late, true, late)
				c.Count("authenticated-malicious-ake-payload")
				if run.panicked || run.s.panicked {
					c.Violate("panic", fmt.Sprintf("Receive(type=%#x,%s,%s)", typ, m.Coq, m.Kind), "panic while processing a well-formed key-exchange message with a malicious payload", run.s.trace)
				}
				for who := 1; who <= 2; who++ {
					if !run.s.ps[who].c.IsEncrypted() && run.rejected {
						c.Violate("unusable-after-hostile-input", fmt.Sprintf("type=%#x,%s", typ, m.Coq), "after the malformed payload was rejected the genuine exchange did not complete", run.s.trace)
						break
					}
				}
				c.AddScenario(run.s, run.pols)
				c.Rep.Evaluations++
			}
		}
	}
}

// a conversation WITHOUT a long-term key ("with or without long-term keys"): whatever an honest peer or an attacker
// sends - queries, whitespace tags, a complete key exchange started by the peer, data messages, hostile input - Receive
// returns (with an error where appropriate) and never panics; and once keys are provided the conversation works
func c13Keyless(c *Ctx) {
	for _, pol := range []int{polV3, polV2, polV2 | polV3, polV3 | polWSStart, polV2 | polV3 | polErrStart} {
		for variant := 0; variant < 4; variant++ {
			s := newSys([]int{pol, pol}, c.R.U64())
			s.ps[1].c.SetOurKeys(nil)
			what := fmt.Sprintf("keyless(policy=%d,variant=%d)", pol, variant)
			guardedBudget(c, what, nil, 64<<20, 5*time.Second, func() {
				switch variant {
				case 0: // a query first (fails for lack of a key), then the peer starts an exchange
					s.Inject(1, []byte("?OTRv23?"), "WQuery 12")
					s.Query(1, 2)
					s.Pump(1, 2, 12)
				case 1: // the keyless side is asked to start
					s.Query(2, 1)
					s.Pump(1, 2, 12)
				case 2: // whitespace tag, then an exchange, then hostile input
					s.Send(2, []byte("hello"))
					s.Pump(1, 2, 12)
					s.Query(1, 2)
					s.Pump(1, 2, 12)
					for k := 0; k < 10; k++ {
						in := c.hostileWire(s, 1)
						s.ps[1].c.Receive(in)
					}
				default: // the peer's exchange interleaved with queries to the keyless side
					s.Query(1, 2)
					for k := 0; k < 6; k++ {
						if idx := s.next(2); idx >= 0 {
							s.Deliver(2, idx, 1, MNone)
						}
						s.Inject(1, []byte("?OTRv23?"), "WQuery 12")
						if idx := s.next(1); idx >= 0 {
							s.Deliver(1, idx, 2, MNone)
						}
					}
				}
				// with keys the conversation must work
				s.ps[1].c.SetOurKeys([]otr3.PrivateKey{partyKeys[1]})
				for w := 1; w <= 2; w++ {
					s.ps[w].c.End()
					s.ps[w].pending = len(s.ps[w].outs)
				}
				s.tick(200)
				ok := false
				if s.Handshake(1, 2) {
					s.Send(1, []byte("probe"))
					s.Pump(1, 2, 10)
					pl := s.ps[2].plains
					ok = len(pl) > 0 && string(pl[len(pl)-1]) == "probe"
				}
				if !ok {
					c.Violate("unusable-after-hostile-input", what, "after the phase without a long-term key, with keys provided, a key exchange plus one message did not get through", s.trace[len(s.trace)-min2(12, len(s.trace)):])
				}
			})
			if s.panicked {
				c.Violate("panic", what, "panic inside a scenario call of a conversation without a long-term key", s.trace[len(s.trace)-min2(12, len(s.trace)):])
			}
			c.Rep.Evaluations++
			c.Count("keyless")
		}
	}
	c.Sample(map[string]string{"keyless": "conversation without long-term key: query / peer-started exchange / whitespace start / hostile input; no panic; works once keys are set"})
}

// randomness failure at the k-th read
func c13RandFailure(c *Ctx) {
	maxK := 14
	if c.Thorough() {
		maxK = 40
	}
	for who := 1; who <= 2; who++ {
		for k := 1; k <= maxK; k++ {
			pol := polV3
			if k%3 == 0 {
				pol = polV2
			}
			pols := []int{pol, pol}
			s := newSys(pols, uint64(1000+k))
			s.ps[who].rnd.fail = k
			// up to ~350 calls (handshake, 160 rounds of send + deliveries, 6 more): 1 MB and 20 ms per call are generous
			guardedBudget(c, fmt.Sprintf("rand-failure(k=%d)", k), nil, 400<<20, 8*time.Second, func() {
				s.Handshake(1, 2)
				tn := 0
				// traffic until the armed read has happened (one read per rotation: later k need more rounds)
				for r := 0; r < 160 && s.ps[who].rnd.fail > 0; r++ {
					a := 1 + r%2
					tn++
					s.Send(a, []byte(fmt.Sprintf("r%d", tn)))
					s.Pump(1, 2, 8)
				}
				if !(s.ps[1].c.IsEncrypted() && s.ps[2].c.IsEncrypted()) {
					// the exchange failed: a new one must complete
					s.tick(200)
					for w := 1; w <= 2; w++ {
						s.ps[w].c.End()
						s.ps[w].pending = len(s.ps[w].outs)
					}
					s.Handshake(1, 2)
				}
				if s.ps[who].rnd.fail > 0 {
					// the k-th read was never made: nothing failed, nothing to judge (the message during which a
					// read fails may itself be lost, so the texts below are only counted once the failure is behind us)
					c.Count("rand-failure:not-reached")
					return
				}
				// after the failure the session keeps working: the next texts all arrive
				n1, n2 := len(s.ps[1].plains), len(s.ps[2].plains)
				for r := 0; r < 6; r++ {
					a := 1 + r%2
					s.Send(a, []byte(fmt.Sprintf("after%d", r)))
					s.Pump(1, 2, 8)
				}
				if len(s.ps[1].plains)-n1 != 3 || len(s.ps[2].plains)-n2 != 3 {
					c.Violate("unusable-after-rand-failure", fmt.Sprintf("party=%d", who), fmt.Sprintf("k=%d: after the failed read only %d/%d of 3/3 later texts were delivered", k, len(s.ps[2].plains)-n2, len(s.ps[1].plains)-n1), s.trace[len(s.trace)-min2(16, len(s.trace)):])
				}
			})
			c.Rep.Evaluations++
			c.Rep.Distinct++
			c.Count("rand-failure")
		}
	}
	c.Sample(map[string]string{"rand_failure": "k-th read of Conversation.Rand fails once, k = 1..max, either party; handshake, 6 messages, then 6 more that must all arrive"})
}

// c13Corr compares the byte-level models with the Go parsers on one hostile input (a panic on either side is a
// value of its own, so a model that would panic where the code returns an error - or the reverse - is a mismatch)
func c13Corr(c *Ctx, in []byte) {
	c.AddCase(14, "ExtractData", guard(func() Val { r, v, ok := otr3.ExtractData(in); return restB(r, v, ok) }), B(in))
	c.AddCase(16, "ExtractMPI", guard(func() Val {
		r, v, ok := otr3.ExtractMPI(in)
		var vv Val = VNone{}
		if ok {
			vv = NB(v)
		}
		return restN(r, vv, ok)
	}), B(in))
	c.AddCase(17, "ExtractMPIs", guard(func() Val {
		r, vs, ok := otr3.ExtractMPIs(in)
		if !ok {
			return VNone{}
		}
		return L(B(r), mpisVal(vs))
	}), B(in))
	c.AddCase(21, "dhCommit.deserialize", guard(func() Val {
		e, h, ok := otr3.VerifDHCommitDeser(in)
		if !ok {
			return VNone{}
		}
		return L(B(e), B(h))
	}), B(in))
	c.AddCase(23, "dhKey.deserialize", guard(func() Val {
		g, ok := otr3.VerifDHKeyDeser(in)
		if !ok {
			return VNone{}
		}
		return NB(g)
	}), B(in))
	c.AddCase(27, "sig.deserialize", guard(func() Val {
		e, m, ok := otr3.VerifSigDeser(in)
		if !ok {
			return VNone{}
		}
		return L(B(e), B(m))
	}), B(in))
	c.AddCase(80, "dataMsg.deserialize(total)", guard(func() Val {
		m, ok := otr3.VerifDataMsgDeser(in, 3)
		if !ok {
			return VNone{}
		}
		return dataMsgVal(m)
	}), B(in))
	c.AddCase(32, "tlv.deserialize", guard(func() Val {
		b, ok := otr3.VerifTLVDeser(in)
		if !ok {
			return VNone{}
		}
		return tlvVal(b)
	}), B(in))
	c.AddCase(35, "plainDataMsg.deserialize", guard(func() Val {
		m, bt, ok := otr3.VerifPlainDeser(in)
		if !ok {
			return VNone{}
		}
		return L(B(m), tlvsVal(bt))
	}), B(in))
	c.AddCase(41, "ParsePublicKey", guard(func() Val {
		r, ok, k := otr3.ParsePublicKey(in)
		if !ok {
			return VNone{}
		}
		kk := k.(*otr3.DSAPublicKey)
		return L(B(r), L(NB(kk.P), NB(kk.Q), NB(kk.G), NB(kk.Y)))
	}), B(in))
	// the envelope and base64 layer: hostile text forms
	var txt []byte
	switch c.R.Intn(6) {
	case 0:
		txt = append([]byte("?OTR:"), in...)
	case 1:
		txt = []byte("?OTR:" + base64.StdEncoding.EncodeToString(in))
	case 2:
		txt = []byte("?OTR:" + base64.StdEncoding.EncodeToString(in) + ".")
	case 3:
		e := base64.StdEncoding.EncodeToString(in)
		txt = []byte("?OTR:" + e[:c.R.Intn(len(e)+1)] + ".")
	case 4:
		txt = []byte("?OTR:"[:c.R.Intn(6)])
	default:
		txt = in
	}
	c.AddCase(52, "decode", guard(func() Val {
		d, ok := otr3.VerifDecode(txt)
		if !ok {
			return VNone{}
		}
		return B(d)
	}), B(txt))
	c.AddCase(51, "b64decode", guard(func() Val {
		d, ok := otr3.VerifB64Decode(txt)
		if !ok {
			return VNone{}
		}
		return B(d)
	}), B(txt))
	c.AddCase(50, "b64encode", B(otr3.VerifB64Encode(in)), B(in))
	c.AddCase(53, "encode", B(otr3.VerifEncode(in)), B(in))
	c.AddCase(62, "parseFragment", guard(func() Val {
		d, ix, l, ok := otr3.VerifParseFragment(txt)
		if !ok {
			return VNone{}
		}
		return L(B(d), N(int(ix)), N(int(l)))
	}), B(txt))
}
