package main

// splitmix64-based deterministic PRNG: every random choice of a run derives from VERIF_SEED.
type RNG struct{ s uint64 }

// NewRNG: the state is a mixed function of the seed, so that generators seeded with neighbouring numbers
// (party 1 / party 2 of a scenario) do not produce shifted copies of one stream.
func NewRNG(seed uint64) *RNG {
	z := seed*0x9E3779B97F4A7C15 + 0x1234567
	z = (z ^ (z >> 30)) * 0xBF58476D1CE4E5B9
	z = (z ^ (z >> 27)) * 0x94D049BB133111EB
	return &RNG{s: z ^ (z >> 31)}
}

func (r *RNG) U64() uint64 {
	r.s += 0x9E3779B97F4A7C15
	z := r.s
	z = (z ^ (z >> 30)) * 0xBF58476D1CE4E5B9
	z = (z ^ (z >> 27)) * 0x94D049BB133111EB
	return z ^ (z >> 31)
}
func (r *RNG) Intn(n int) int {
	if n <= 0 {
		return 0
	}
	return int(r.U64() % uint64(n))
}
func (r *RNG) Bytes(n int) []byte {
	b := make([]byte, n)
	for i := range b {
		b[i] = byte(r.U64())
	}
	return b
}
func (r *RNG) Chance(num, den int) bool { return r.Intn(den) < num }
func (r *RNG) Pick(xs []int) int        { return xs[r.Intn(len(xs))] }

// Read implements io.Reader (never fails).
func (r *RNG) Read(p []byte) (int, error) {
	for i := range p {
		p[i] = byte(r.U64())
	}
	return len(p), nil
}
func (r *RNG) Fork() *RNG { return NewRNG(r.U64()) }
