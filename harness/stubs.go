package main

func c15Conv(c *Ctx) {}
func c16Conv(c *Ctx) {}
