package main

func c16Conv(c *Ctx) {}
