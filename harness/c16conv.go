package main

import (
	"fmt"

	otr3 "github.com/coyim/otr3"
)

// C16, conversation level: whatever way versions are offered (query message in its several spellings, whitespace
// tag with known and unknown groups in any order), the exchange that starts uses the highest version that both the
// offer and the local policy contain, or does not start; the text of a tagged message comes back without the tag.
func c16Conv(c *Ctx) {
	type offer struct {
		name     string
		msg      func(text []byte) []byte
		versions int // bit set, by construction: 4 = v2, 8 = v3
		tagged   bool
	}
	hdr := otr3.VerifConvertToWhitespace("OT")
	g2, g3 := []byte("  \t\t  \t "), []byte("  \t\t  \t\t")
	g1, g4 := []byte(" \t \t  \t "), []byte("  \t\t \t  ")
	ws := func(groups ...[]byte) func(text []byte) []byte {
		return func(text []byte) []byte {
			m := append(append([]byte{}, text...), hdr...)
			for _, g := range groups {
				m = append(m, g...)
			}
			return m
		}
	}
	q := func(s string) func(text []byte) []byte { return func([]byte) []byte { return []byte(s) } }
	offers := []offer{
		{"?OTRv2?", q("?OTRv2?"), 4, false}, {"?OTRv3?", q("?OTRv3?"), 8, false}, {"?OTRv23?", q("?OTRv23?"), 12, false},
		{"?OTRv32?", q("?OTRv32?"), 12, false}, {"?OTR?v2?", q("?OTR?v2?"), 4, false}, {"?OTR?v23?", q("?OTR?v23?"), 12, false},
		{"?OTRv4x3?", q("?OTRv4x3?"), 8, false}, {"?OTRv4?", q("?OTRv4?"), 0, false}, {"?OTR?", q("?OTR?"), 0, false},
		{"?OTRv?", q("?OTRv?"), 0, false}, {"?OTRv23? with text", q("?OTRv23? please use OTR"), 12, false},
		{"tag:v2", ws(g2), 4, true}, {"tag:v3", ws(g3), 8, true}, {"tag:v2,v3", ws(g2, g3), 12, true}, {"tag:v3,v2", ws(g3, g2), 12, true},
		{"tag:v1,v2,v3", ws(g1, g2, g3), 12, true}, {"tag:v2,v4,v3", ws(g2, g4, g3), 12, true}, {"tag:v4,v3", ws(g4, g3), 8, true},
		{"tag:v1", ws(g1), 0, true}, {"tag:none", ws(), 0, true}, {"tag:v4,v2", ws(g4, g2), 4, true},
	}
	allowed := []int{polV2, polV3, polV2 | polV3}
	// what may have been received before the offer without starting anything: stray or incomplete fragments of either
	// format, an encoded message of either version that is rejected, garbage - none of it may influence the version chosen
	strays := [][]byte{nil,
		[]byte("?OTR,1,3,?OTR:AAICAAAAxJh7YMX8vCry1O+3ewL88,"), []byte("?OTR,3,2,AAAA,"), []byte("?OTR,0,0,AAAA,"),
		[]byte("?OTR|1f2e3d4c|00000000,00001,00003,?OTR:AAMC,"), []byte("?OTR|1f2e3d4c|00000000,00004,00003,AAAA,"),
		[]byte("?OTR:AAIDAAAAAAAAAAAA."), []byte("?OTR:AAMDH48tPAAAAAAAAAAAAAAAAAAA."), []byte("?OTR:AAIK"), []byte("?OTR Error: nothing")}
	for si, stray := range strays {
		for _, o := range offers {
			for _, al := range allowed {
				if si > 0 && o.versions != 12 && o.versions != 4 && o.versions != 8 {
					continue
				}
				pol := al
				if o.tagged {
					pol |= polWSStart
				}
				pols := []int{pol, polV2 | polV3}
				s := newSys(pols, c.R.U64())
				if stray != nil {
					func() {
						defer func() { recover() }()
						s.ps[1].c.Receive(stray)
					}()
				}
				text := []byte("hello there")
				m := o.msg(text)
				var coq string
				if o.tagged {
					coq = fmt.Sprintf("WPlain %s (Some %d)", coqBytes(text), o.versions)
				} else {
					coq = fmt.Sprintf("WQuery %d", o.versions)
				}
				nOut := len(s.ps[1].outs)
				plain := s.Inject(1, m, coq)
				want := 0
				if o.versions&8 != 0 && al&polV3 != 0 {
					want = 3
				} else if o.versions&4 != 0 && al&polV2 != 0 {
					want = 2
				}
				got := 0
				for _, out := range s.ps[1].outs[nOut:] {
					if w := parseWire(out); w.kind == 3 && w.typ == 0x02 {
						got = w.ver
					}
				}
				trig := fmt.Sprintf("offer=%s,allowed=%d", o.name, al)
				if stray != nil {
					trig += fmt.Sprintf(",after-stray=%d", si)
				}
				if got != want {
					c.Violate("wrong-version-chosen", trig, fmt.Sprintf("the exchange started with version %d, the highest version offered and allowed is %d", got, want), s.trace)
				}
				if cv := otr3.VerifSnapshot(s.ps[1].c).Version; want != 0 && cv != want {
					c.Violate("wrong-version-chosen", trig, fmt.Sprintf("the conversation committed to version %d, expected %d", cv, want), s.trace)
				}
				if o.tagged && string(plain) != string(text) {
					c.Violate("tag-removal-changes-text", trig, fmt.Sprintf("text %q came back as %q", text, plain), s.trace)
				}
				c.Count("offer:" + o.name)
				if stray == nil {
					c.AddScenario(s, pols)
				} else {
					c.Count("offer-after-stray-input")
				}
			}
		}
	}
}

// SetPolicy: the user changes the policy set of a party between sessions (the public Policies field)
func (s *Sys) SetPolicy(who, pol int) {
	otr3.VerifSetPolicies(s.ps[who].c, pol)
	s.ps[who].pol = pol
	s.ops = append(s.ops, fmt.Sprintf("OSetPolicy %d %d", who, pol))
	s.obs = append(s.obs, L())
	s.trace = append(s.trace, fmt.Sprintf("SetPolicy(%d, %d)", who, pol))
	s.calls = append(s.calls, callRec{who: who, human: "probe"})
}

// a session (or an exchange that stalls) on one version, ended in every way there is, then a peer whose policy has
// changed starts again: the new exchange completes, on the highest version both allow - nothing of the old one sticks
func renegotiations(c *Ctx) {
	both := polV2 | polV3
	for _, first := range []int{polV3, polV2} {
		for ending := 0; ending < 4; ending++ {
			for _, second := range []int{polV2, polV3, both} {
				for starter := 1; starter <= 2; starter++ {
					pols := []int{both, both}
					s := newSys(pols, c.R.U64())
					trig := fmt.Sprintf("first=%d,ending=%d,second=%d,starter=%d", first, ending, second, starter)
					s.SetPolicy(2, first)
					if ending == 3 {
						// an exchange that stalls: party 1 has answered the offer, nothing else arrives; it gives up
						s.Query(2, 1)
						s.dropFrom(1, s.ps[1].pending)
						s.End(1)
					} else {
						if !s.Handshake(1, 2) {
							c.Violate("ake-incomplete", trig, "the first exchange did not complete", s.trace)
							continue
						}
						switch ending {
						case 0: // the peer ends, we learn it, and end too
							s.End(2)
							s.Pump(1, 2, 6)
							s.End(1)
						case 1: // we end, the peer learns it
							s.End(1)
							s.Pump(1, 2, 6)
						default: // both end, the notices cross
							s.End(1)
							s.End(2)
							s.Pump(1, 2, 6)
						}
					}
					s.Pump(1, 2, 6)
					s.tick(200)
					s.SetPolicy(2, second)
					ok := s.Handshake(starter, 3-starter)
					c.Count("renegotiation")
					c.Rep.Evaluations++
					want := 3
					if second == polV2 {
						want = 2
					}
					v1, v2 := otr3.VerifSnapshot(s.ps[1].c).Version, otr3.VerifSnapshot(s.ps[2].c).Version
					if s.panicked {
						c.Violate("panic", trig, "panic in a renegotiation", s.trace)
					} else if !ok || s.ps[1].c.GetSSID() != s.ps[2].c.GetSSID() {
						c.Violate("ake-incomplete", trig, fmt.Sprintf("after the old session was ended a new exchange with a peer that allows version(s) %d did not complete (encrypted %v/%v, versions %d/%d)", second, s.ps[1].c.IsEncrypted(), s.ps[2].c.IsEncrypted(), v1, v2), s.trace)
					} else if v1 != want || v2 != want {
						c.Violate("version-not-highest-common", trig, fmt.Sprintf("the new session runs version %d/%d, the highest version both sides allow is %d", v1, v2, want), s.trace)
					}
					c.AddScenario(s, pols)
				}
			}
		}
	}
}
