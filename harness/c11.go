package main

import (
	"fmt"
	"math/big"

	otr3 "github.com/coyim/otr3"
)

func init() {
	generators["C11"] = genC11
	generators["C12"] = genC12
}

var groupQ = new(big.Int).Rsh(new(big.Int).Sub(groupP, big.NewInt(1)), 1)

// ForwardSmp: party sender sends, through its own session, the SMP TLVs found in output idx of party src
// (read with the keys of party reader, who is the addressee of that output), after replacing MPI number
// field by the boundary value class cls (99 = unchanged, >= 20: drop cls-20 MPIs).
func (s *Sys) ForwardSmp(src, idx, reader, sender, field, cls int) bool {
	_, tlvs, ok := otr3.VerifPeekTLVs(s.ps[reader].c, s.ps[src].outs[idx])
	var smp []otr3.VerifTLV
	if ok {
		for _, t := range tlvs {
			if t.Type >= 2 && t.Type <= 7 {
				smp = append(smp, mutateSmpTLV(t, field, cls))
			}
		}
	}
	s.record(sender, fmt.Sprintf("OForwardSmp %d %d %d %d %d %d", src, idx, sender, s.now, field, cls),
		fmt.Sprintf("ForwardSmp(%d#%d by %d, field %d class %d)", src, idx, sender, field, cls),
		func(p *Party) ([]byte, []otr3.ValidMessage, error) {
			o, e := otr3.VerifSendTLVs(p.c, smp)
			return nil, o, e
		})
	return ok && len(smp) > 0
}

func mutateSmpTLV(t otr3.VerifTLV, field, cls int) otr3.VerifTLV {
	if cls == 99 {
		return t
	}
	val := t.Value
	var question []byte
	if t.Type == 7 {
		for i, b := range val {
			if b == 0 {
				question, val = val[:i+1], val[i+1:]
				break
			}
		}
	}
	_, mpis, ok := otr3.ExtractMPIs(val)
	if !ok {
		return t
	}
	if cls >= 20 {
		drop := cls - 20
		if drop > len(mpis) {
			drop = len(mpis)
		}
		mpis = mpis[:len(mpis)-drop]
	} else if field < len(mpis) {
		var v *big.Int
		switch cls {
		case 0:
			v = big.NewInt(0)
		case 1:
			v = big.NewInt(1)
		case 2:
			v = new(big.Int).Sub(groupP, big.NewInt(1))
		case 3:
			v = new(big.Int).Set(groupP)
		case 4:
			v = new(big.Int).Add(groupP, big.NewInt(1))
		case 5:
			v = new(big.Int).Set(groupQ)
		case 6:
			v, _ = new(big.Int).SetString("1234567890abcdef1234567890abcdef1234567890abcdef1234567890abcdef1234567890abcdef1234567890abcdef", 16)
		default:
			v = new(big.Int).Add(mpis[field], big.NewInt(1))
		}
		mpis[field] = v
	}
	nv := otr3.AppendMPIs(otr3.AppendWord(nil, uint32(len(mpis))), mpis...)
	nv = append(append([]byte{}, question...), nv...)
	return otr3.VerifTLV{Type: t.Type, Length: uint16(len(nv)), Value: nv}
}

var secretShapes = [][]byte{{}, []byte("x"), []byte("correct horse battery staple"), {0, 1, 2, 255, 0, 254}, bytesOf(1000, 7)}

func bytesOf(n int, seed byte) []byte {
	b := make([]byte, n)
	for i := range b {
		b[i] = byte(i)*31 + seed
	}
	return b
}

// one SMP run between parties a (initiator) and b over established session; returns the events of both
func smpRun(c *Ctx, s *Sys, a, b int, question string, sa, sb []byte) (evA, evB []int) {
	mark := func(who int) int { return len(s.calls) }
	start := mark(a)
	s.StartSMP(a, question, sa)
	s.Pump(a, b, 6)
	if otr3.VerifSnapshot(s.ps[b].c).SMPState == 5 {
		s.ProvideSMP(b, sb)
	}
	s.Pump(a, b, 12)
	for _, call := range s.calls[start:] {
		for _, e := range call.events {
			if e >= 200 && e < 300 {
				if call.who == a {
					evA = append(evA, e-200)
				} else if call.who == b {
					evB = append(evB, e-200)
				}
			}
		}
	}
	return
}

func has(evs []int, e int) bool { return eventsHave(evs, e) }

// C11: SMP reports success exactly when the secrets match within one session
func genC11(c *Ctx) {
	c.Rep.Rule = "SMP runs inside real sessions: secret shapes (empty, short, long, binary, one byte different), with/without question, either initiator, repeated and back-to-back runs with traffic and rotations in between, v2/v3; a relay between two separately keyed sessions forwarding the SMP payloads; every step compared with the symbolic SMP model (exponent representation); oracle: Success on both sides iff the secrets are byte-equal, never Success through the relay"
	smpRestarts(c)
	smpAfterKeyListChange(c)
	n := 12
	if c.Thorough() {
		n = 120
	}
	for i := 0; i < n; i++ {
		pol := c.pickVersionPolicy()
		if i%4 == 3 && i%6 != 3 {
			c11Relay(c, pol)
		}
		pols := []int{pol, pol}
		s := newSys(pols, c.R.U64())
		variant := i % 6
		if !c11Establish(c, s, variant) {
			c.Violate("handshake-failed", fmt.Sprintf("variant=%d", variant), "the session could not be (re-)established", s.trace)
			continue
		}
		c.Count(fmt.Sprintf("smp:session-variant=%d", variant))
		if s.ps[1].c.GetSSID() != s.ps[2].c.GetSSID() {
			c.Violate("ssid-differs", fmt.Sprintf("variant=%d", variant), "both sides are encrypted in one session but report different session ids", s.trace)
		}
		runs := 1 + c.R.Intn(3)
		// directed sequences: what a run leaves behind must not influence the next one
		//   0 random, 1 differ then equal, 2 equal then differ, 3 aborted then equal, 4 differ then the responder enters the
		//   initiator's earlier secret (while the initiator enters a new one)
		seq := i % 5
		if seq != 0 {
			runs = 2
		}
		var firstA []byte
		for r := 0; r < runs; r++ {
			a := 1 + c.R.Intn(2)
			b := 3 - a
			sa := secretShapes[c.R.Intn(len(secretShapes))]
			sb := sa
			equal := c.R.Chance(1, 2)
			switch {
			case seq == 1 && r == 0, seq == 2 && r == 1, seq == 4 && r == 0:
				equal = false
			case seq == 1 && r == 1, seq == 2 && r == 0, seq == 3 && r == 1:
				equal = true
			}
			if seq == 3 && r == 0 {
				s.StartSMP(a, "", []byte("to be aborted"))
				s.Pump(1, 2, 2)
				s.AbortSMP(a)
				s.Pump(1, 2, 10)
				c.Count("smp:aborted-run")
				continue
			}
			if r == 0 {
				firstA = sa
			}
			if seq == 4 && r == 1 {
				// same initiator again with a fresh secret; the responder types the initiator's secret of the first run
				sa = []byte("a brand new secret")
				equal = false
			}
			if !equal && c.R.Chance(1, 3) {
				// differ only in white space / control bytes at the ends
				pairs := [][2][]byte{{[]byte("x"), []byte("x\n")}, {{}, []byte(" ")}, {[]byte("\tsecret"), []byte("secret")},
					{[]byte("pass phrase"), []byte("pass phrase\r\n")}, {{1, 2, 13}, {1, 2}}, {[]byte(" a"), []byte("a ")}, {[]byte("a"), []byte("A")}}
				pr := pairs[c.R.Intn(len(pairs))]
				sa, sb = pr[0], pr[1]
				c.Count("smp:secrets-differ-in-whitespace")
			} else if !equal {
				sb = append([]byte{}, sa...)
				if len(sb) == 0 {
					sb = []byte{1}
				} else {
					sb[len(sb)-1] ^= 1
				}
			}
			if seq == 4 && r == 1 && firstA != nil {
				sb = firstA
				if string(sb) == string(sa) {
					sb = append([]byte{}, sb...)
					sb = append(sb, 1)
				}
			}
			q := ""
			if c.R.Chance(1, 2) {
				q = "what is it?"
			}
			evA, evB := smpRun(c, s, a, b, q, sa, sb)
			c.Count(fmt.Sprintf("smp:equal=%v", equal))
			succA, succB := has(evA, 6), has(evB, 6)
			if equal && !(succA && succB) {
				c.Violate("smp-equal-secrets-no-success", fmt.Sprintf("v%d", versionOf(pol)), fmt.Sprintf("events initiator=%v responder=%v", evA, evB), s.trace)
			}
			if !equal && (succA || succB) {
				c.Violate("smp-success-with-different-secrets", fmt.Sprintf("v%d", versionOf(pol)), fmt.Sprintf("events initiator=%v responder=%v", evA, evB), s.trace)
			}
			if !equal && !has(evB, 7) {
				c.Violate("smp-mismatch-not-reported", fmt.Sprintf("v%d", versionOf(pol)), fmt.Sprintf("responder events %v lack Failure", evB), s.trace)
			}
			// traffic and rotations in between
			for k := 0; k < c.R.Intn(4); k++ {
				s.Send(1+k%2, []byte(fmt.Sprintf("between-%d", k)))
				s.Pump(1, 2, 8)
			}
		}
		if s.panicked {
			c.Violate("panic", "smp", "a call panicked", s.trace)
		}
		c.AddScenario(s, pols)
		if i == 0 {
			c.Sample(s.trace[len(s.trace)-min2(10, len(s.trace)):])
		}
	}
}

// c11Establish: the ways two parties can come to share a session before SMP runs
//   0 first exchange, 1 first exchange started by the other side, 2 refresh while both are encrypted,
//   3 one side ended locally and its disconnect message was lost (the other side is still encrypted when the new
//     exchange completes), 4 the peer ended (we were 'finished'), 5 two refreshes started by different sides
func c11Establish(c *Ctx, s *Sys, variant int) bool {
	both := func() bool { return s.ps[1].c.IsEncrypted() && s.ps[2].c.IsEncrypted() }
	switch variant {
	case 0:
		return s.Handshake(1, 2)
	case 1:
		return s.Handshake(2, 1)
	case 2:
		if !s.Handshake(1, 2) {
			return false
		}
		s.Send(1, []byte("old session"))
		s.Pump(1, 2, 6)
		s.tick(130)
		return s.Handshake(2, 1)
	case 3:
		if !s.Handshake(1, 2) {
			return false
		}
		a := 1 + c.R.Intn(2)
		before := len(s.ps[a].outs)
		s.End(a)
		s.dropFrom(a, before) // the disconnect message never arrives
		s.tick(130)
		s.Query(a, 3-a) // the side that lost its state asks again
		s.Pump(1, 2, 24)
		return both()
	case 4:
		if !s.Handshake(1, 2) {
			return false
		}
		s.End(2)
		s.Pump(1, 2, 6)
		s.tick(130)
		s.Query(1, 2)
		s.Pump(1, 2, 24)
		return both()
	default:
		if !s.Handshake(1, 2) {
			return false
		}
		s.tick(130)
		if !s.Handshake(2, 1) {
			return false
		}
		s.tick(130)
		return s.Handshake(1, 2)
	}
}

// relay: 1 <-> 2 is one session, 3 <-> 4 another; party 2 and 3 belong to the relay, which forwards SMP payloads
func c11Relay(c *Ctx, pol int) {
	pols := []int{pol, pol, pol, pol}
	s := newSys(pols, c.R.U64())
	if !s.Handshake(1, 2) || !s.Handshake(3, 4) {
		return
	}
	secret := []byte("the same secret on both ends")
	forward := func(src, reader, sender, dst int) bool {
		idx := s.next(src)
		if idx < 0 {
			return false
		}
		if s.ForwardSmp(src, idx, reader, sender, 0, 99) {
			if j := s.next(sender); j >= 0 {
				s.Deliver(sender, j, dst, MNone)
			}
		}
		return true
	}
	s.StartSMP(1, "", secret)
	for k := 0; k < 8; k++ {
		p1 := forward(1, 2, 3, 4)
		if otr3.VerifSnapshot(s.ps[4].c).SMPState == 5 {
			s.ProvideSMP(4, secret)
		}
		p2 := forward(4, 3, 2, 1)
		if !p1 && !p2 {
			break
		}
	}
	c.Count("smp:relay")
	for _, call := range s.calls {
		if eventsHave(call.events, 206) {
			c.Violate("smp-success-through-relay", fmt.Sprintf("v%d", versionOf(pol)), fmt.Sprintf("party %d reported success although the peers are in different sessions", call.who), s.trace)
		}
	}
	if s.panicked {
		c.Violate("panic", "smp-relay", "a call panicked", s.trace)
	}
	c.AddScenario(s, pols)
}

// C12: deviant SMP messages never produce success, a crash or a stuck state machine
// the numeric range check on received group elements, for the key exchange (0) and SMP under v2 / v3
func groupRangeCases(c *Ctx) {
	p := groupP
	one := big.NewInt(1)
	q := new(big.Int).Rsh(new(big.Int).Sub(p, one), 1)
	vals := []*big.Int{big.NewInt(0), one, big.NewInt(2), big.NewInt(3), new(big.Int).Sub(p, big.NewInt(3)), new(big.Int).Sub(p, big.NewInt(2)),
		new(big.Int).Sub(p, one), p, new(big.Int).Add(p, one), new(big.Int).Add(p, big.NewInt(2)), q, new(big.Int).Lsh(p, 1), new(big.Int).Lsh(one, 1535), new(big.Int).Lsh(one, 1536)}
	for k := 0; k < 6; k++ {
		vals = append(vals, new(big.Int).SetBytes(c.R.Bytes(1+c.R.Intn(200))))
	}
	for _, v := range []int{0, 2, 3} {
		for _, x := range vals {
			r := 0
			if otr3.VerifIsGroupElement(v, x) {
				r = 1
			}
			c.AddCase(90, "isGroupElement", N(r), N(v), NB(x))
		}
	}
	c.Count("group-range-cases")
}

func genC12(c *Ctx) {
	c.Rep.Rule = "for SMP messages 1, 1Q, 2, 3, 4: every MPI field replaced by a boundary value (0, 1, p-1, p, p+1, q, random, +1) or MPIs dropped, sent through the authentic session; out-of-sequence and duplicated messages; user calls (start, answer, abort) in every SMP state; v2 and v3; each step compared with the symbolic SMP model; oracle: no Success on the receiver of a deviant message, no panic, and a fresh honest run with equal secrets succeeds afterwards"
	smpRestarts(c)
	smpDeviantAborts(c)
	tlvsBehindDisconnect(c)
	n := 8
	if c.Thorough() {
		n = 200
	}
	nfields := map[int]int{1: 6, 2: 11, 3: 8, 4: 3}
	// corpus: a peer that picks degenerate exponents (a2 = a3 = 0, so g2a = g3a = 1) and does not know the secret
	for _, pol := range []int{polV2, polV3} {
		pols := []int{pol, pol}
		s := newSys(pols, 4242)
		if !s.Handshake(1, 2) {
			continue
		}
		s.ps[1].rnd.zeroSMP = true
		evA, evB := smpRun(c, s, 1, 2, "", []byte("attacker does not know"), []byte("the real secret"))
		s.ps[1].rnd.zeroSMP = false
		c.Count("degenerate-exponents")
		if has(evB, 6) {
			c.Violate("smp-success-on-deviant-message", fmt.Sprintf("version=%d,g2a=1", versionOf(pol)), fmt.Sprintf("responder reported Success to a peer using exponent 0 and a different secret (events %v / %v)", evA, evB), s.trace)
		}
		if s.panicked {
			c.Violate("panic", fmt.Sprintf("version=%d,g2a=1", versionOf(pol)), "panic", s.trace)
		}
		c.AddScenario(s, pols)
	}
	groupRangeCases(c)
	// the plan: every message with 1, 2, 3 and all of its values dropped; every field of every message with boundary
	// classes (quick: two classes per field, rotating; thorough: all eight); then random ones
	type dev struct{ stage, field, cls int }
	var plan []dev
	for stage := 1; stage <= 4; stage++ {
		for _, d := range []int{1, 2, 3, nfields[stage]} {
			plan = append(plan, dev{stage, 0, 20 + d})
		}
		for f := 0; f < nfields[stage]; f++ {
			for k := 0; k < 8; k++ {
				if c.Thorough() || k == (f+stage)%8 || k == (f+stage+3)%8 {
					plan = append(plan, dev{stage, f, k})
				}
			}
		}
	}
	for i := 0; i < len(plan)+n; i++ {
		pol := polV3
		if i%4 == 3 {
			pol = polV2
		}
		pols := []int{pol, pol}
		s := newSys(pols, c.R.U64())
		if !s.Handshake(1, 2) {
			continue
		}
		secret := []byte("s3cret")
		stage := 1 + c.R.Intn(4) // which SMP message is deviant
		field := c.R.Intn(nfields[stage])
		cls := c.R.Intn(8)
		if c.R.Chance(1, 6) {
			cls = 20 + 1 + c.R.Intn(3)
		}
		if i < len(plan) {
			stage, field, cls = plan[i].stage, plan[i].field, plan[i].cls
		}
		withQ := c.R.Chance(1, 3)
		q := ""
		if withQ {
			q = "q?"
		}
		// user calls in unexpected states first
		switch c.R.Intn(5) {
		case 0:
			s.ProvideSMP(1+c.R.Intn(2), secret)
		case 1:
			s.AbortSMP(1 + c.R.Intn(2))
			s.Pump(1, 2, 6)
		}
		startCall := len(s.calls)
		s.StartSMP(1, q, secret)
		// deliver honest messages up to the deviant stage
		from, to := 1, 2
		for st := 1; st <= 4; st++ {
			idx := s.next(from)
			if idx < 0 {
				break
			}
			if st == stage {
				before := len(s.ps[to].events)
				_ = before
				if s.ForwardSmp(from, idx, to, from, field, cls) {
					if j := s.next(from); j >= 0 {
						dstart := len(s.calls)
						s.Deliver(from, j, to, MNone)
						for _, call := range s.calls[dstart:] {
							if call.who == to && eventsHave(call.events, 206) {
								trig := fmt.Sprintf("v%d,msg%d,field%d,class%d", versionOf(pol), stage, field, cls)
								if versionOf(pol) == 2 {
									trig = "version=2,no-range-checks"
								}
								c.Violate("smp-success-on-deviant-message", trig, fmt.Sprintf("receiver reported Success for SMP%d with field %d replaced by class %d", stage, field, cls), s.trace)
							}
						}
					}
				}
				c.Count(fmt.Sprintf("deviant:msg%d", stage))
				break
			}
			s.Deliver(from, idx, to, MNone)
			if st == 1 && otr3.VerifSnapshot(s.ps[2].c).SMPState == 5 {
				s.ProvideSMP(2, secret)
			}
			from, to = to, from
		}
		s.Pump(1, 2, 10)
		// out-of-sequence: replay an earlier SMP message, abort in the middle
		if c.R.Chance(1, 3) {
			s.AbortSMP(1 + c.R.Intn(2))
			s.Pump(1, 2, 6)
		}
		_ = startCall
		if s.panicked {
			trig := fmt.Sprintf("v%d", versionOf(pol))
			if versionOf(pol) == 2 {
				trig = "version=2,no-range-checks"
			}
			c.Violate("panic", trig, "a call panicked while processing a deviant SMP message", s.trace)
			s.panicked = false
		} else if i >= len(plan) || i%3 == 0 || c.Thorough() {
			// recovery: a fresh honest run with equal secrets succeeds
			s.AbortSMP(1)
			s.Pump(1, 2, 6)
			evA, evB := smpRun(c, s, 2, 1, "", []byte("again"), []byte("again"))
			if !(has(evA, 6) && has(evB, 6)) {
				c.Violate("smp-stuck-after-deviant-message", fmt.Sprintf("v%d,msg%d", versionOf(pol), stage), fmt.Sprintf("honest run afterwards: initiator %v responder %v", evA, evB), s.trace)
			}
		}
		c.AddScenario(s, pols)
		if i == 0 {
			c.Sample(s.trace[len(s.trace)-min2(10, len(s.trace)):])
		}
	}
}
