package main

import (
	"encoding/json"
	"fmt"
	"os"
	"path/filepath"
	"runtime"
	"sort"
	"strconv"
	"strings"
	"sync"
	"time"
)

// Violation is a property failure found on the implementation by an oracle.
type Violation struct {
	Kind    string      `json:"kind"`    // oracle clause, e.g. "roundtrip-mismatch"
	Trigger string      `json:"trigger"` // minimal discriminating trigger
	Detail  string      `json:"detail"`
	Replay  interface{} `json:"replay"`
}

// Report is what a generator hands back to bin/vcheck.
type Report struct {
	Property      string         `json:"property"`
	Seed          uint64         `json:"seed"`
	Tier          string         `json:"tier"`
	Evaluations   int            `json:"evaluations"`
	Distinct      int            `json:"distinct_nontrivial"`
	Rule          string         `json:"rule"`
	Samples       []interface{}  `json:"samples"`
	Distribution  map[string]int `json:"distribution"`
	Violations    []Violation    `json:"violations"`
	CaseFiles     []string       `json:"case_files"`
	NCases        int            `json:"n_cases"`
	CaseNames     []string       `json:"case_names"`
	ShardSize     int            `json:"shard_size"`
	Scenarios     int            `json:"scenarios"`
	ScenarioSteps int            `json:"scenario_steps"`
	ScenFiles     []string       `json:"scen_files"`
	ScenShard     int            `json:"scen_shard"`
}

type Ctx struct {
	scens []string
	Prop  string
	Tier  string
	Seed  uint64
	Out   string
	R     *RNG
	Rep   *Report
	cases []Case
	seen  map[string]bool
}

func (c *Ctx) Thorough() bool   { return c.Tier == "thorough" }
func (c *Ctx) Count(key string) { c.Rep.Distribution[key]++ }
func (c *Ctx) Violate(kind, trigger, detail string, replay interface{}) {
	if len(c.Rep.Violations) < 50 {
		c.Rep.Violations = append(c.Rep.Violations, Violation{kind, trigger, detail, replay})
	}
}
func (c *Ctx) Sample(s interface{}) {
	if len(c.Rep.Samples) < 6 {
		c.Rep.Samples = append(c.Rep.Samples, s)
	}
}

// AddCase records one function-level correspondence case (deduplicated).
func (c *Ctx) AddCase(fn int, name string, out Val, args ...Val) {
	cs := Case{fn, name, args, out}
	key := caseKey(cs)
	c.Rep.Evaluations++
	if c.seen[key] {
		return
	}
	c.seen[key] = true
	c.Rep.Distinct++
	c.Count("fn:" + name)
	c.cases = append(c.cases, cs)
}

func caseKey(cs Case) string {
	var sb strings.Builder
	fmt.Fprintf(&sb, "%d|", cs.Fn)
	for _, a := range cs.Args {
		a.Coq(&sb)
		sb.WriteByte('|')
	}
	return sb.String()
}

var shardSize = 150 // cases per Coq file; generators with expensive cases lower it
const scenShard = 12

// AddScenario records one executed scenario for the model comparison
func (c *Ctx) AddScenario(s *Sys, pols []int) {
	c.scens = append(c.scens, s.Coq(pols))
	if f, err := os.OpenFile(filepath.Join(c.Out, c.Prop+"_"+c.Tier+"_traces.txt"), os.O_APPEND|os.O_CREATE|os.O_WRONLY, 0o644); err == nil {
		fmt.Fprintf(f, "=== scenario %d policies %v\n", len(c.scens)-1, pols)
		for i, t := range s.trace {
			fmt.Fprintf(f, "%d: %s\n    op:  %s\n    obs: %s\n", i, t, s.ops[i], coqStr(s.obs[i]))
		}
		f.Close()
	}
	c.Rep.Evaluations++
	c.Rep.Distinct++
	c.Rep.Scenarios++
	c.Rep.ScenarioSteps += len(s.ops)
}

func (c *Ctx) writeScenarios() error {
	for i := 0; i*scenShard < len(c.scens); i++ {
		lo, hi := i*scenShard, (i+1)*scenShard
		if hi > len(c.scens) {
			hi = len(c.scens)
		}
		var sb strings.Builder
		sb.WriteString("From OTR Require Import Go.Base Corr.Val Proto.SmpTypes Proto.Keys Proto.Smp Proto.Conv Proto.Run.\nOpen Scope N_scope.\n")
		sb.WriteString("Definition scens : list scenario := [\n")
		sb.WriteString(strings.Join(c.scens[lo:hi], ";\n"))
		sb.WriteString("].\nDefinition M := Eval vm_compute in scen_mismatches 0 scens.\nPrint M.\n")
		name := fmt.Sprintf("%s_%s_scen_%d.v", c.Prop, c.Tier, i)
		if err := os.WriteFile(filepath.Join(c.Out, name), []byte(sb.String()), 0o644); err != nil {
			return err
		}
		c.Rep.CaseFiles = append(c.Rep.CaseFiles, name)
		c.Rep.ScenFiles = append(c.Rep.ScenFiles, name)
	}
	return nil
}

func (c *Ctx) writeCases() error {
	n := len(c.cases)
	c.Rep.NCases = n
	c.Rep.ShardSize = shardSize
	for s := 0; s*shardSize < n; s++ {
		lo, hi := s*shardSize, (s+1)*shardSize
		if hi > n {
			hi = n
		}
		var sb strings.Builder
		sb.WriteString("From OTR Require Import Go.Base Corr.Val Corr.Dispatch.\nOpen Scope N_scope.\n")
		sb.WriteString("Definition cases : list case := [\n")
		for i := lo; i < hi; i++ {
			cs := c.cases[i]
			if i > lo {
				sb.WriteString(";\n")
			}
			fmt.Fprintf(&sb, "{| c_fn := %d; c_args := [", cs.Fn)
			for j, a := range cs.Args {
				if j > 0 {
					sb.WriteByte(';')
				}
				sb.WriteByte('(')
				a.Coq(&sb)
				sb.WriteByte(')')
			}
			sb.WriteString("]; c_out := (")
			cs.Out.Coq(&sb)
			sb.WriteString(") |}")
		}
		sb.WriteString("].\nDefinition M := Eval vm_compute in mismatches dispatch cases.\nPrint M.\n")
		name := fmt.Sprintf("%s_%s_%d.v", c.Prop, c.Tier, s)
		if err := os.WriteFile(filepath.Join(c.Out, name), []byte(sb.String()), 0o644); err != nil {
			return err
		}
		c.Rep.CaseFiles = append(c.Rep.CaseFiles, name)
		if n == 0 {
			break
		}
	}
	for _, cs := range c.cases {
		c.Rep.CaseNames = append(c.Rep.CaseNames, cs.Name)
	}
	return nil
}

type generator func(c *Ctx)

var generators = map[string]generator{}

func main() {
	if len(os.Args) < 5 {
		fmt.Fprintln(os.Stderr, "usage: harness <property> <quick|thorough> <seed> <outdir> [replayfile]")
		names := []string{}
		for k := range generators {
			names = append(names, k)
		}
		sort.Strings(names)
		fmt.Fprintln(os.Stderr, "properties:", strings.Join(names, " "))
		os.Exit(2)
	}
	prop, tier := os.Args[1], os.Args[2]
	seed, _ := strconv.ParseUint(os.Args[3], 10, 64)
	out := os.Args[4]
	g, ok := generators[prop]
	if !ok {
		fmt.Fprintln(os.Stderr, "unknown property", prop)
		os.Exit(2)
	}
	_ = os.MkdirAll(out, 0o755)
	_ = os.Remove(filepath.Join(out, prop+"_"+tier+"_traces.txt"))
	ctx := &Ctx{Prop: prop, Tier: tier, Seed: seed, Out: out, R: NewRNG(seed),
		Rep:  &Report{Property: prop, Seed: seed, Tier: tier, Distribution: map[string]int{}, Violations: []Violation{}},
		seen: map[string]bool{}}
	if len(os.Args) > 5 {
		replayFile = os.Args[5]
	}
	go watchdog(ctx, out, prop, tier)
	g(ctx)
	watch("")
	if err := ctx.writeCases(); err != nil {
		fmt.Fprintln(os.Stderr, err)
		os.Exit(2)
	}
	ctx.Rep.ScenShard = scenShard
	if err := ctx.writeScenarios(); err != nil {
		fmt.Fprintln(os.Stderr, err)
		os.Exit(2)
	}
	js, _ := json.MarshalIndent(ctx.Rep, "", " ")
	if err := os.WriteFile(filepath.Join(out, prop+"_"+tier+"_report.json"), js, 0o644); err != nil {
		fmt.Fprintln(os.Stderr, err)
		os.Exit(2)
	}
}

var replayFile string

// ---- watchdog: a call into the library that hangs or eats memory must end the run with a report, not the machine ----
var watchMu sync.Mutex
var watchLabel string
var watchSince time.Time

// watch names the library call that is about to run ("" = none)
func watch(label string) {
	watchMu.Lock()
	watchLabel, watchSince = label, time.Now()
	watchMu.Unlock()
}

func watchdog(c *Ctx, out, prop, tier string) {
	var ms runtime.MemStats
	for {
		time.Sleep(100 * time.Millisecond)
		watchMu.Lock()
		label, since := watchLabel, watchSince
		watchMu.Unlock()
		runtime.ReadMemStats(&ms)
		hang := label != "" && time.Since(since) > 20*time.Second
		blow := ms.HeapAlloc > 5<<30
		if !hang && !blow {
			continue
		}
		kind := "call-does-not-return"
		if blow {
			kind = "memory-blow-up"
		}
		c.Rep.Violations = append(c.Rep.Violations, Violation{kind, label, fmt.Sprintf("%s: running for %v, heap %d MB", label, time.Since(since).Round(time.Second), ms.HeapAlloc>>20), nil})
		js, _ := json.MarshalIndent(c.Rep, "", " ")
		_ = os.WriteFile(filepath.Join(out, prop+"_"+tier+"_report.json"), js, 0o644)
		os.Exit(0)
	}
}
