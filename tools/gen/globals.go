// globals.go: which package-level variables exist, and every place where shared memory reachable from one of them
// may be written, aliased or handed out (C20). The analysis is flow-insensitive and conservative:
//
//   - a local variable assigned from an expression that derives from a package-level variable G (G itself when it
//     is a slice/map/pointer, G[a:b], append(G, ..), a call of a function that returns one of its arguments) is an
//     alias of G for the whole function;
//   - writes are: assignment to G, store through G or an alias (x[i] = .., x.f = .., *x = ..), ++/--, copy(x, ..),
//     append(x, ..) (writes G's spare capacity when cap > len), &G, a pointer-receiver method call on G that is not
//     known to be read-only, passing G or an alias to a function that does one of these with its parameter
//     (summaries are computed to a fixed point over the package), and every escape (returned, stored in a field,
//     element of a composite literal, passed to a function outside the package that is not known to be read-only).
//
// What the table does not see: reflection, unsafe, cgo and assembly (none used on package-level variables here).
package main

import (
	"fmt"
	"go/ast"
	"go/token"
	"go/types"
	"sort"
	"strings"
)

type root struct {
	global string // name of the package-level variable, or ""
	fn     *types.Func
	param  int // index of the parameter (receiver = 0 when present), when global == ""
	app    bool // reached through append(x, ..): shares x's memory only where x had spare capacity (or nothing was appended)
}

type effect struct {
	kind string
	pos  token.Pos
}

type fnSummary struct {
	effects  map[int]map[string]bool // parameter -> effect kinds
	retAlias map[int]bool            // result may alias parameter
	retGlob  map[root]bool           // result may alias a package-level variable
	retApp   map[int]bool            // result may be append(parameter, ..)
}

type ganalysis struct {
	p        *pkgInfo
	sums     map[*types.Func]*fnSummary
	changed  bool
	writes   []write
	reads    int
	callers  map[*types.Func]map[*types.Func]bool
	asValue  map[*types.Func]bool
	declOf   map[*types.Func]*ast.FuncDecl
	initOnly map[*types.Func]bool
}

// packages whose functions do not write through, or keep, the arguments they are given (writers and hashes
// consume their input; formatting reads it)
var readOnlyPkgs = map[string]bool{"bytes": true, "strings": true, "fmt": true, "strconv": true, "crypto/subtle": true,
	"crypto/hmac": true, "crypto/sha1": true, "crypto/sha256": true, "encoding/hex": true, "encoding/base64": true,
	"encoding/binary": true, "hash": true, "io": true, "bufio": true, "errors": true, "time": true, "math/big": true,
	"crypto/dsa": true, "crypto/aes": true, "crypto/cipher": true, "github.com/coyim/constbn": true, "reflect": true}

// functions of those packages whose result aliases their first argument
var aliasResult = map[string]bool{"bytes.Split": true, "bytes.SplitN": true, "bytes.SplitAfter": true, "bytes.Fields": true,
	"bytes.TrimPrefix": true, "bytes.TrimSuffix": true, "bytes.TrimSpace": true, "bytes.Trim": true, "bytes.TrimLeft": true,
	"bytes.TrimRight": true, "bytes.TrimFunc": true}

// pointer-receiver methods outside the package that do not modify their receiver
var readOnlyMethods = map[string]bool{"big.Int.Cmp": true, "big.Int.BitLen": true, "big.Int.Bytes": true, "big.Int.Sign": true,
	"big.Int.String": true, "big.Int.Text": true, "big.Int.Bit": true, "big.Int.Int64": true, "big.Int.Uint64": true,
	"big.Int.FillBytes": true, "big.Int.ProbablyPrime": true, "big.Int.CmpAbs": true, "big.Int.Bits": false,
	"constbn.Int.GetBigInt": true, "constbn.Int.Bytes": true, "constbn.Int.String": true}

func refLike(t types.Type) bool {
	if t == nil {
		return false
	}
	switch u := t.Underlying().(type) {
	case *types.Slice, *types.Map, *types.Pointer, *types.Chan:
		return true
	case *types.Interface:
		// error values are immutable by convention; any other interface may hold a pointer
		return !types.Identical(t, types.Universe.Lookup("error").Type())
	case *types.Struct:
		for i := 0; i < u.NumFields(); i++ {
			if refLike(u.Field(i).Type()) {
				return true
			}
		}
	}
	return false
}

func (a *ganalysis) objOf(id *ast.Ident) types.Object {
	if o := a.p.info.Uses[id]; o != nil {
		return o
	}
	return a.p.info.Defs[id]
}

func (a *ganalysis) globalName(id *ast.Ident) (string, bool) {
	v, ok := a.objOf(id).(*types.Var)
	if !ok || v.Parent() != a.p.pkg.Scope() {
		return "", false
	}
	return v.Name(), true
}

func (a *ganalysis) calleeOf(call *ast.CallExpr) (fn *types.Func, recv ast.Expr) {
	switch f := call.Fun.(type) {
	case *ast.Ident:
		fn, _ = a.objOf(f).(*types.Func)
	case *ast.SelectorExpr:
		if s := a.p.info.Selections[f]; s != nil {
			fn, _ = s.Obj().(*types.Func)
			recv = f.X
		} else {
			fn, _ = a.objOf(f.Sel).(*types.Func)
		}
	case *ast.ParenExpr:
		inner := &ast.CallExpr{Fun: f.X, Args: call.Args}
		return a.calleeOf(inner)
	}
	return
}

func (a *ganalysis) isConversion(call *ast.CallExpr) bool {
	tv, ok := a.p.info.Types[call.Fun]
	return ok && tv.IsType()
}

func (a *ganalysis) builtin(call *ast.CallExpr) string {
	if id, ok := call.Fun.(*ast.Ident); ok {
		if _, ok := a.objOf(id).(*types.Builtin); ok {
			return id.Name
		}
	}
	return ""
}

type fnCtx struct {
	a       *ganalysis
	fn      *types.Func
	name    string
	params  map[types.Object]int
	aliases map[types.Object]map[root]bool
	lits    [][2]token.Pos // function literals inside the body
}

func (c *fnCtx) inClosure(p token.Pos) bool {
	for _, l := range c.lits {
		if l[0] <= p && p < l[1] {
			return true
		}
	}
	return false
}

func (c *fnCtx) typeOf(e ast.Expr) types.Type {
	if tv, ok := c.a.p.info.Types[e]; ok {
		return tv.Type
	}
	if id, ok := e.(*ast.Ident); ok {
		if o := c.a.objOf(id); o != nil {
			return o.Type()
		}
	}
	return nil
}

// rootsOfPath: the variables through which a store to the l-value e writes
func (c *fnCtx) rootsOfPath(e ast.Expr) map[root]bool {
	switch x := e.(type) {
	case *ast.Ident:
		out := map[root]bool{}
		if g, ok := c.a.globalName(x); ok {
			out[root{global: g}] = true
		}
		o := c.a.objOf(x)
		if i, ok := c.params[o]; ok && refLike(o.Type()) {
			out[root{fn: c.fn, param: i}] = true
		}
		for r := range c.aliases[o] {
			out[r] = true
		}
		return out
	case *ast.IndexExpr:
		return c.rootsOfPath(x.X)
	case *ast.SelectorExpr:
		if _, isPkg := c.a.objOf(identOf(x.X)).(*types.PkgName); isPkg {
			return nil
		}
		return c.rootsOfPath(x.X)
	case *ast.StarExpr:
		return c.rootsOfPath(x.X)
	case *ast.ParenExpr:
		return c.rootsOfPath(x.X)
	case *ast.SliceExpr:
		return c.rootsOfPath(x.X)
	case *ast.CallExpr, *ast.TypeAssertExpr:
		return c.deriv(e)
	}
	return nil
}

func identOf(e ast.Expr) *ast.Ident {
	id, _ := e.(*ast.Ident)
	if id == nil {
		return &ast.Ident{Name: "_"}
	}
	return id
}

// deriv: the variables whose memory the value of e may share
func (c *fnCtx) deriv(e ast.Expr) map[root]bool {
	switch x := e.(type) {
	case *ast.Ident:
		if !refLike(c.typeOf(x)) {
			return nil
		}
		return c.rootsOfPath(x)
	case *ast.ParenExpr:
		return c.deriv(x.X)
	case *ast.SliceExpr:
		if t := c.typeOf(x.X); t != nil {
			if _, isStr := t.Underlying().(*types.Basic); isStr {
				return nil
			}
		}
		return c.rootsOfPath(x.X) // slicing an array or a slice shares its memory
	case *ast.IndexExpr, *ast.SelectorExpr, *ast.StarExpr:
		if !refLike(c.typeOf(e)) {
			return nil
		}
		return c.rootsOfPath(e)
	case *ast.UnaryExpr:
		if x.Op == token.AND {
			return c.rootsOfPath(x.X)
		}
	case *ast.TypeAssertExpr:
		return c.deriv(x.X)
	case *ast.CallExpr:
		if c.a.isConversion(x) && len(x.Args) == 1 {
			from, to := c.typeOf(x.Args[0]), c.typeOf(x)
			if from != nil && to != nil {
				_, fs := from.Underlying().(*types.Basic)
				_, ts := to.Underlying().(*types.Basic)
				if fs || ts {
					return nil // string <-> []byte copies
				}
			}
			return c.deriv(x.Args[0])
		}
		switch c.a.builtin(x) {
		case "append":
			if len(x.Args) > 0 {
				out := map[root]bool{}
				for r := range c.deriv(x.Args[0]) {
					r.app = true
					out[r] = true
				}
				return out
			}
			return nil
		case "":
		default:
			return nil
		}
		fn, recv := c.a.calleeOf(x)
		if fn == nil {
			return nil
		}
		out := map[root]bool{}
		args := c.argsOf(x, fn, recv)
		if fn.Pkg() == c.a.p.pkg {
			if s := c.a.sums[fn]; s != nil {
				for i := range s.retAlias {
					if i < len(args) && args[i] != nil {
						for r := range c.deriv(args[i]) {
							out[r] = true
						}
					}
				}
				for i := range s.retApp {
					if i < len(args) && args[i] != nil {
						for r := range c.deriv(args[i]) {
							r.app = true
							out[r] = true
						}
					}
				}
				for r := range s.retGlob {
					out[r] = true
				}
			}
		} else if aliasResult[qualName(fn)] && len(x.Args) > 0 {
			for r := range c.deriv(x.Args[0]) {
				out[r] = true
			}
		}
		return out
	}
	return nil
}

func qualName(fn *types.Func) string {
	sig := fn.Type().(*types.Signature)
	if sig.Recv() != nil {
		t := sig.Recv().Type()
		if p, ok := t.(*types.Pointer); ok {
			t = p.Elem()
		}
		if n, ok := t.(*types.Named); ok {
			pk := ""
			if n.Obj().Pkg() != nil {
				pk = n.Obj().Pkg().Name() + "."
			}
			return pk + n.Obj().Name() + "." + fn.Name()
		}
		return "?." + fn.Name()
	}
	if fn.Pkg() != nil {
		return fn.Pkg().Name() + "." + fn.Name()
	}
	return fn.Name()
}

// argsOf lines the actual arguments up with the parameter indices used in summaries (receiver first)
func (c *fnCtx) argsOf(call *ast.CallExpr, fn *types.Func, recv ast.Expr) []ast.Expr {
	var args []ast.Expr
	if fn.Type().(*types.Signature).Recv() != nil {
		args = append(args, recv)
	}
	return append(args, call.Args...)
}

func (c *fnCtx) record(rs map[root]bool, kind string, pos token.Pos) {
	for r := range rs {
		if r.global != "" {
			k, name := kind, c.name
			if r.app {
				k += "@appended"
			}
			if c.inClosure(pos) {
				name += "$closure"
			}
			c.a.writes = append(c.a.writes, write{name, r.global, k, c.a.p.fset.Position(pos).String()})
		} else if r.fn == c.fn && !c.inClosure(pos) || r.fn == c.fn {
			s := c.a.sums[c.fn]
			if s.effects[r.param] == nil {
				s.effects[r.param] = map[string]bool{}
			}
			k := kind
			if i := strings.Index(k, ":"); i >= 0 {
				k = k[:i]
			}
			if !s.effects[r.param][k] {
				s.effects[r.param][k] = true
				c.a.changed = true
			}
		}
	}
}

func (c *fnCtx) addAlias(lhs ast.Expr, rs map[root]bool) {
	if len(rs) == 0 {
		return
	}
	id, ok := lhs.(*ast.Ident)
	if !ok || id.Name == "_" {
		// stored somewhere that outlives the statement: a field, an element, a package-level variable
		c.record(rs, "escape:stored", lhs.Pos())
		return
	}
	o := c.a.objOf(id)
	if o == nil {
		return
	}
	if v, ok := o.(*types.Var); ok && v.Parent() == c.a.p.pkg.Scope() {
		c.record(rs, "escape:stored-in-"+v.Name(), lhs.Pos())
		return
	}
	if c.aliases[o] == nil {
		c.aliases[o] = map[root]bool{}
	}
	for r := range rs {
		if !c.aliases[o][r] {
			c.aliases[o][r] = true
			c.a.changed = true
		}
	}
}

func (c *fnCtx) walk(body ast.Node, results *types.Tuple) {
	ast.Inspect(body, func(n ast.Node) bool {
		if fl, ok := n.(*ast.FuncLit); ok {
			c.lits = append(c.lits, [2]token.Pos{fl.Pos(), fl.End()})
		}
		return true
	})
	// pass 1: aliases (to a fixed point inside the function)
	for {
		before := c.aliasCount()
		ast.Inspect(body, func(n ast.Node) bool {
			switch x := n.(type) {
			case *ast.AssignStmt:
				if len(x.Lhs) == len(x.Rhs) {
					for i := range x.Lhs {
						if id, ok := x.Lhs[i].(*ast.Ident); ok {
							if _, isG := c.a.globalName(id); !isG {
								c.addAliasQuiet(id, c.deriv(x.Rhs[i]))
							}
						}
					}
				} else if len(x.Rhs) == 1 {
					rs := c.deriv(x.Rhs[0])
					for _, l := range x.Lhs {
						if id, ok := l.(*ast.Ident); ok && refLike(c.typeOf(id)) {
							if _, isG := c.a.globalName(id); !isG {
								c.addAliasQuiet(id, rs)
							}
						}
					}
				}
			case *ast.ValueSpec:
				for i, id := range x.Names {
					if i < len(x.Values) {
						c.addAliasQuiet(id, c.deriv(x.Values[i]))
					}
				}
			case *ast.RangeStmt:
				if x.Value != nil && refLike(c.typeOf(x.Value)) {
					if id, ok := x.Value.(*ast.Ident); ok {
						c.addAliasQuiet(id, c.rootsOfPath(x.X))
					}
				}
			}
			return true
		})
		if c.aliasCount() == before {
			break
		}
	}
	// pass 2: effects
	ast.Inspect(body, func(n ast.Node) bool {
		switch x := n.(type) {
		case *ast.AssignStmt:
			for i, l := range x.Lhs {
				if id, ok := l.(*ast.Ident); ok {
					if g, isG := c.a.globalName(id); isG && x.Tok != token.DEFINE {
						c.record(map[root]bool{{global: g}: true}, "assign", x.Pos())
					}
				} else {
					c.record(c.rootsOfPath(l), "store", x.Pos())
				}
				// the value stored: does shared memory escape into a field / element / package-level variable?
				var rhs ast.Expr
				if len(x.Lhs) == len(x.Rhs) {
					rhs = x.Rhs[i]
				}
				if rhs != nil {
					if _, isId := l.(*ast.Ident); !isId {
						c.record(c.deriv(rhs), "escape:stored", x.Pos())
					} else if g, isG := c.a.globalName(l.(*ast.Ident)); isG {
						rs := c.deriv(rhs)
						delete(rs, root{global: g})
						c.record(rs, "escape:stored-in-"+g, x.Pos())
					}
				}
			}
		case *ast.IncDecStmt:
			c.record(c.rootsOfPath(x.X), "incdec", x.Pos())
		case *ast.UnaryExpr:
			if x.Op == token.AND {
				if _, isLit := x.X.(*ast.CompositeLit); !isLit {
					rs := map[root]bool{}
					for r := range c.rootsOfPath(x.X) {
						if r.global != "" {
							rs[r] = true
						}
					}
					c.record(rs, "address-taken", x.Pos())
				}
			}
		case *ast.SendStmt:
			c.record(c.deriv(x.Value), "escape:sent", x.Pos())
		case *ast.CompositeLit:
			for _, el := range x.Elts {
				if kv, ok := el.(*ast.KeyValueExpr); ok {
					el = kv.Value
				}
				c.record(c.deriv(el), "escape:stored", el.Pos())
			}
		case *ast.ReturnStmt:
			for _, r := range x.Results {
				for rt := range c.deriv(r) {
					if rt.global != "" {
						c.record(map[root]bool{rt: true}, "escape:returned", x.Pos())
						s := c.a.sums[c.fn]
						if !s.retGlob[rt] && !c.inClosure(x.Pos()) {
							s.retGlob[rt] = true
							c.a.changed = true
						}
					} else if rt.fn == c.fn {
						s := c.a.sums[c.fn]
						m := s.retAlias
						if rt.app {
							m = s.retApp
						}
						if !m[rt.param] && !c.inClosure(x.Pos()) {
							m[rt.param] = true
							c.a.changed = true
						}
					}
				}
			}
		case *ast.CallExpr:
			if c.a.isConversion(x) {
				return true
			}
			switch c.a.builtin(x) {
			case "copy":
				if len(x.Args) > 0 {
					c.record(c.deriv(x.Args[0]), "copy-into", x.Pos())
				}
				return true
			case "append":
				if len(x.Args) > 0 {
					c.record(c.deriv(x.Args[0]), "append-prefix", x.Pos())
					if x.Ellipsis == token.NoPos {
						for _, el := range x.Args[1:] {
							c.record(c.deriv(el), "escape:stored", el.Pos())
						}
					}
				}
				return true
			case "":
			default:
				return true
			}
			fn, recv := c.a.calleeOf(x)
			if fn == nil {
				// call of a function value: anything passed may be written
				for _, arg := range x.Args {
					c.record(c.deriv(arg), "escape:dynamic-call", arg.Pos())
				}
				return true
			}
			sig := fn.Type().(*types.Signature)
			args := c.argsOf(x, fn, recv)
			inPkg := fn.Pkg() == c.a.p.pkg
			_, isIface := func() (types.Type, bool) {
				if sig.Recv() == nil {
					return nil, false
				}
				_, ok := sig.Recv().Type().Underlying().(*types.Interface)
				return nil, ok
			}()
			for i, arg := range args {
				if arg == nil {
					continue
				}
				var rs map[root]bool
				isRecv := sig.Recv() != nil && i == 0
				if isRecv {
					_, ptrRecv := sig.Recv().Type().(*types.Pointer)
					if ptrRecv || isIface {
						rs = c.rootsOfPath(arg)
						if !refLike(c.typeOf(arg)) {
							// addressable value used with a pointer method: only package-level variables matter
							for r := range rs {
								if r.global == "" {
									delete(rs, r)
								}
							}
						}
					} else {
						rs = c.deriv(arg)
					}
				} else {
					rs = c.deriv(arg)
				}
				if len(rs) == 0 {
					continue
				}
				switch {
				case inPkg && !isIface:
					if s := c.a.sums[fn]; s != nil {
						kinds := make([]string, 0)
						for k := range s.effects[i] {
							kinds = append(kinds, k)
						}
						sort.Strings(kinds)
						for _, k := range kinds {
							c.record(rs, k+":via-"+fn.Name(), x.Pos())
						}
					}
				case isRecv:
					q := qualName(fn)
					if q == "sync.Once.Do" {
						c.record(rs, "sync-once", x.Pos())
					} else if !readOnlyMethods[q] {
						c.record(rs, "ptr-method:"+q, x.Pos())
					}
				default:
					pk := ""
					if fn.Pkg() != nil {
						pk = fn.Pkg().Path()
					}
					if !readOnlyPkgs[pk] {
						c.record(rs, "escape:passed-to-"+qualName(fn), x.Pos())
					}
				}
			}
		}
		return true
	})
	_ = results
}

func (c *fnCtx) aliasCount() int {
	n := 0
	for _, m := range c.aliases {
		n += len(m)
	}
	return n
}

func (c *fnCtx) addAliasQuiet(id *ast.Ident, rs map[root]bool) {
	if id.Name == "_" || len(rs) == 0 {
		return
	}
	o := c.a.objOf(id)
	if o == nil {
		return
	}
	if c.aliases[o] == nil {
		c.aliases[o] = map[root]bool{}
	}
	for r := range rs {
		c.aliases[o][r] = true
	}
}

func analyseGlobals(p *pkgInfo) *ganalysis {
	a := &ganalysis{p: p, sums: map[*types.Func]*fnSummary{}, callers: map[*types.Func]map[*types.Func]bool{},
		asValue: map[*types.Func]bool{}, declOf: map[*types.Func]*ast.FuncDecl{}, initOnly: map[*types.Func]bool{}}
	var decls []*ast.FuncDecl
	for _, f := range p.files {
		for _, d := range f.Decls {
			if fd, ok := d.(*ast.FuncDecl); ok && fd.Body != nil {
				if fn, ok := p.info.Defs[fd.Name].(*types.Func); ok {
					decls = append(decls, fd)
					a.declOf[fn] = fd
					a.sums[fn] = &fnSummary{effects: map[int]map[string]bool{}, retAlias: map[int]bool{}, retGlob: map[root]bool{}, retApp: map[int]bool{}}
				}
			}
		}
	}
	run := func(emit bool) {
		a.writes = nil
		for _, fd := range decls {
			fn := p.info.Defs[fd.Name].(*types.Func)
			sig := fn.Type().(*types.Signature)
			c := &fnCtx{a: a, fn: fn, name: fd.Name.Name, params: map[types.Object]int{}, aliases: map[types.Object]map[root]bool{}}
			idx := 0
			if fd.Recv != nil && len(fd.Recv.List) > 0 {
				t := fd.Recv.List[0].Type
				if st, ok := t.(*ast.StarExpr); ok {
					t = st.X
				}
				if id, ok := t.(*ast.Ident); ok {
					c.name = id.Name + "." + fd.Name.Name
				}
				for _, n := range fd.Recv.List[0].Names {
					c.params[p.info.Defs[n]] = 0
				}
				idx = 1
			}
			for _, fl := range fd.Type.Params.List {
				if len(fl.Names) == 0 {
					idx++
				}
				for _, n := range fl.Names {
					c.params[p.info.Defs[n]] = idx
					idx++
				}
			}
			c.walk(fd.Body, sig.Results())
		}
	}
	for i := 0; i < 20; i++ {
		a.changed = false
		run(false)
		if !a.changed {
			break
		}
	}
	// package-level initialisers run before any goroutine of the program can use the package: writes there are
	// initialisation. Functions that are only ever called from init() count as initialisation too.
	for _, fd := range decls {
		caller := p.info.Defs[fd.Name].(*types.Func)
		var lits [][2]token.Pos
		ast.Inspect(fd.Body, func(n ast.Node) bool {
			if fl, ok := n.(*ast.FuncLit); ok {
				lits = append(lits, [2]token.Pos{fl.Pos(), fl.End()})
			}
			return true
		})
		ast.Inspect(fd.Body, func(n ast.Node) bool {
			switch x := n.(type) {
			case *ast.CallExpr:
				if fn, _ := a.calleeOf(x); fn != nil && fn.Pkg() == p.pkg {
					if a.callers[fn] == nil {
						a.callers[fn] = map[*types.Func]bool{}
					}
					who := caller
					for _, l := range lits {
						if l[0] <= x.Pos() && x.Pos() < l[1] {
							who = nil // runs whenever the function value is called, not when the enclosing function runs
						}
					}
					a.callers[fn][who] = true
				}
			case *ast.Ident:
				if fn, ok := a.objOf(x).(*types.Func); ok && fn.Pkg() == p.pkg {
					a.asValue[fn] = true // refined below: uses as the callee are not value uses
				}
			}
			return true
		})
	}
	// value uses: identifiers denoting functions that are not in callee position
	a.asValue = map[*types.Func]bool{}
	for _, f := range p.files {
		var stack []ast.Node
		ast.Inspect(f, func(n ast.Node) bool {
			if n == nil {
				stack = stack[:len(stack)-1]
				return true
			}
			if id, ok := n.(*ast.Ident); ok {
				if fn, ok := p.info.Uses[id].(*types.Func); ok && fn.Pkg() == p.pkg {
					callee := false
					if len(stack) > 0 {
						switch par := stack[len(stack)-1].(type) {
						case *ast.CallExpr:
							callee = par.Fun == n
						case *ast.SelectorExpr:
							if len(stack) > 1 {
								if call, ok := stack[len(stack)-2].(*ast.CallExpr); ok && call.Fun == par {
									callee = true
								}
							}
						}
					}
					if !callee {
						a.asValue[fn] = true
					}
				}
			}
			stack = append(stack, n)
			return true
		})
	}
	for fn, fd := range a.declOf {
		if fd.Name.Name == "init" && fd.Recv == nil {
			a.initOnly[fn] = true
		}
	}
	for changed := true; changed; {
		changed = false
		for fn, fd := range a.declOf {
			if a.initOnly[fn] || fd.Name.IsExported() || a.asValue[fn] || len(a.callers[fn]) == 0 {
				continue
			}
			all := true
			for caller := range a.callers[fn] {
				if !a.initOnly[caller] {
					all = false
				}
			}
			if all {
				a.initOnly[fn] = true
				changed = true
			}
		}
	}
	return a
}

func initClass(p *pkgInfo, name string) string {
	for _, f := range p.files {
		for _, d := range f.Decls {
			gd, ok := d.(*ast.GenDecl)
			if !ok || gd.Tok != token.VAR {
				continue
			}
			for _, s := range gd.Specs {
				vs := s.(*ast.ValueSpec)
				for i, n := range vs.Names {
					if n.Name != name {
						continue
					}
					if i >= len(vs.Values) {
						return "zero"
					}
					switch v := vs.Values[i].(type) {
					case *ast.CompositeLit:
						return "composite-literal"
					case *ast.BasicLit:
						return "literal"
					case *ast.CallExpr:
						if tv, ok := p.info.Types[v.Fun]; ok && tv.IsType() {
							return "conversion"
						}
						if id, ok := v.Fun.(*ast.Ident); ok && id.Name == "make" {
							return "make"
						}
						return "call"
					}
					return "expression"
				}
			}
		}
	}
	return "unknown"
}

func typeClass(t types.Type) string {
	switch t.Underlying().(type) {
	case *types.Slice:
		return "slice"
	case *types.Array:
		return "array"
	case *types.Map:
		return "map"
	case *types.Pointer:
		return "pointer"
	case *types.Interface:
		return "interface"
	case *types.Struct:
		return "struct"
	case *types.Signature:
		return "func"
	}
	return "scalar"
}

func genGlobals(ps ...*pkgInfo) string {
	var sb strings.Builder
	sb.WriteString("(* GENERATED by tools/gen from /repo — do not edit.\n   Package-level variables, every place where memory reachable from one of them may be written or handed out\n   (see tools/gen/globals.go for the rules), and the functions that only run during package initialisation. *)\nFrom Coq Require Import List String.\nImport ListNotations.\nOpen Scope string_scope.\n\n")
	sb.WriteString("Record gvar := { gv_pkg : string; gv_name : string; gv_type : string; gv_init : string }.\n")
	sb.WriteString("Record gwrite := { gw_pkg : string; gw_fn : string; gw_exported : bool; gw_var : string; gw_kind : string; gw_pos : string }.\n\n")
	var allVars, allWrites, inits []string
	for _, p := range ps {
		a := analyseGlobals(p)
		var names []string
		for _, name := range p.pkg.Scope().Names() {
			if _, ok := p.pkg.Scope().Lookup(name).(*types.Var); ok {
				names = append(names, name)
			}
		}
		sort.Strings(names)
		for _, n := range names {
			v := p.pkg.Scope().Lookup(n).(*types.Var)
			allVars = append(allVars, fmt.Sprintf("{| gv_pkg := %q; gv_name := %q; gv_type := %q; gv_init := %q |}", p.pkg.Name(), n, typeClass(v.Type()), initClass(p, n)))
		}
		seen := map[string]bool{}
		for _, w := range a.writes {
			pos := w.pos
			if i := strings.LastIndex(pos, "/"); i >= 0 {
				pos = pos[i+1:]
			}
			if j := strings.LastIndex(pos, ":"); j >= 0 { // drop the column
				pos = pos[:j]
			}
			base := w.fn
			if i := strings.LastIndex(base, "."); i >= 0 {
				base = base[i+1:]
			}
			line := fmt.Sprintf("{| gw_pkg := %q; gw_fn := %q; gw_exported := %v; gw_var := %q; gw_kind := %q; gw_pos := %q |}", p.pkg.Name(), w.fn, ast.IsExported(base) && !strings.HasSuffix(base, "$closure"), w.v, w.kind, pos)
			if !seen[line] {
				seen[line] = true
				allWrites = append(allWrites, line)
			}
		}
		var io []string
		for fn := range a.initOnly {
			fd := a.declOf[fn]
			nm := fd.Name.Name
			if fd.Recv != nil && len(fd.Recv.List) > 0 {
				t := fd.Recv.List[0].Type
				if st, ok := t.(*ast.StarExpr); ok {
					t = st.X
				}
				if id, ok := t.(*ast.Ident); ok {
					nm = id.Name + "." + nm
				}
			}
			io = append(io, fmt.Sprintf("(%q, %q)", p.pkg.Name(), nm))
		}
		sort.Strings(io)
		inits = append(inits, io...)
	}
	sort.Strings(allWrites)
	sb.WriteString("Definition package_vars : list gvar := [\n  " + strings.Join(allVars, ";\n  ") + "].\n\n")
	sb.WriteString("Definition init_only_functions : list (string * string) := [\n  " + strings.Join(dedupe(inits), ";\n  ") + "].\n\n")
	sb.WriteString("Definition global_writes : list gwrite := [\n  " + strings.Join(allWrites, ";\n  ") + "].\n")
	return sb.String()
}

func dedupe(xs []string) []string {
	var out []string
	seen := map[string]bool{}
	for _, x := range xs {
		if !seen[x] {
			seen[x] = true
			out = append(out, x)
		}
	}
	return out
}
