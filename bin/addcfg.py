#!/usr/bin/env python3
"""helper used while building: append property entries to bin/vconfig.py from a JSON file
   [{id, level_text, level_note, assumptions, trusted?, targets?}]"""
import json, sys
CONV_T = ['the conversation model is symbolic: DH values are exponent ids, shared secrets unordered pairs, keys (secret, role) terms, a MAC verifies iff it was computed with the same key over the same fields (perfect-cryptography idealisation)',
          'internal projections (key ids, list lengths, state names) are read through the verif-tagged hook VerifSnapshot']
p = '/verif/bin/vconfig.py'
s = open(p).read().rstrip()
assert s.endswith('}')
new = ''
for e in json.load(open(sys.argv[1])):
    if ("'%s': {" % e['id']) in s:
        print('already present:', e['id']); continue
    new += "    '%s': {\n        'level_text': %r,\n        'level_note': %r,\n        'trusted': %r,\n        'assumptions': %r,\n        'targets': %r,\n    },\n" % (
        e['id'], e['level_text'], e['level_note'], e.get('trusted', CONV_T), e.get('assumptions', []),
        e.get('targets', ['Corr/Dispatch.vo', 'Proto/Run.vo']))
open(p, 'w').write(s[:-1] + new + '}\n')
print('added')
