# per-property configuration of bin/vcheck
ALLOWED_AXIOMS = {
    # axioms declared by Coq's standard library that a proof may pull in; each use is named in DESIGN.md section 7
    'functional_extensionality_dep', 'FunctionalExtensionality.functional_extensionality_dep',
    'Eqdep.Eq_rect_eq.eq_rect_eq', 'eq_rect_eq', 'JMeq_eq', 'JMeq.JMeq_eq', 'proof_irrelevance',
    'ProofIrrelevance.proof_irrelevance', 'classic', 'Classical_Prop.classic',
}

COMMON_TRUSTED = [
    'Coq 8.16.1 kernel and its VM (vm_compute); native_compute is not used',
    'tools/gen (go/parser + go/types): constants, byte-slice literals, group parameters and the table of '
    'package-level writes are regenerated from /repo on every run',
    'hand-written Gallina model tied to /repo by the correspondence check: Go harness (reflect/unsafe probes, '
    'verif-tagged hook file) vs. model evaluated by vm_compute inside coqc on the same inputs',
    'Go toolchain, crypto/*, math/big, encoding/base64, strconv, fmt are modelled, not verified',
]

HOOK_COMMITS = ['145a800', '0e007dd', '6fbda5a', '22cc77e', '98d302b', '55b74c7', 'fbf3b44', '1c6222a']
NOT_APPLICABLE = {}

PROPS = {
    'C17': {
        'level_text': 'Round-trip, minimality and length theorems (21) proved in Coq for all values/byte strings on Gallina mirrors of the (de)serialisers; mirrors tied to the Go code by differential runs every run on generated, mutated and boundary inputs (TLV lengths 65531..65535, 64 kB fields, empty and all-zero MPI lists).',
        'level_note': 'Trusted: Coq kernel/VM; the mirrors are hand-written and tied to the code only by the correspondence '
                      'check (bounded by the generator); libotr key file covered by correspondence + oracle, not yet by theorem.',
        'trusted': ['bytes are modelled as list N with every element < 256 (wfb); Go slices aliasing is not modelled'],
        'assumptions': ['field sizes below 2^32 (the wire format cannot express more); TLV payloads below 2^16'],
    },
    'C14': {
        'level_text': 'Theorems for all data/sizes/arrival sequences on the Gallina mirror of fragmentation.go: piece length bound, '
                      'in-order reassembly = original exactly once (v2 header format; count <= 65535), only complete 1..n runs are '
                      'ever handed on, each hand-over consumes its own final piece. Mirror tied to the code every run.',
        'level_note': 'v3 receive side (tags) is covered at conversation level; >65535 pieces is a recorded known finding; '
                      'model/code tie is differential (bounded by the generator).',
        'trusted': ['fmt %05d/%08x and strconv.Atoi/ParseInt are mirrored (Bytes/Strconv.v) and diffed, not verified'],
        'assumptions': ['payload contains no comma (true of every encoded OTR message: base64 + "?OTR:" + ".")'],
    },
    'C15': {
        'level_text': 'Theorems: the routing helper returns exactly (receiver, sender) tags for every v3 encoded message and every v3 fragment prefix, and none for v2 (all tag values, all bodies); C15_foreign_instance_ignored - on the conversation machine a v3 message whose receiver tag is neither zero nor ours, or whose sender tag is not the instance the conversation is bound to, is dropped before its body is looked at, whatever its type and content. Every run, compared with the machine: fresh conversation x tag classes, bound conversation in six phases x a third instance, tag sweep over the key exchange; isolation oracle (foreign message has no effect, the genuine peer keeps working, the binding survives End).',
        'level_note': 'base64 mirrored and proved to round-trip; differential tie.',
        'trusted': ['encoding/base64 mirrored in Bytes/B64.v'],
        'assumptions': [],
    },
    'C16': {
        'level_text': 'Theorems: version choice is the highest allowed-and-offered one for all policy/offer bit sets; a query generated '
                      'under policy p offers exactly p\'s versions to any reader; whitespace tag removal returns the text byte-exact '
                      'unless the header begins inside the text (refuted full statement = known finding). Tied to the code every run.',
        'level_note': 'two-party negotiation over all 64x64 policy pairs is checked on the conversation model; differential tie.',
        'trusted': [],
        'assumptions': ['texts in which the whitespace tag header begins before the appended tag are excluded (known finding)'],
    },
    'C02': {
        'level_text': "Theorems: C02_only_authentic_text_is_delivered - for EVERY call of EVERY history on a conversation (any input) a text comes out of Receive only as a plaintext message passed on with the received-unencrypted event whenever encryption was due, or as the text of a data message that arrived while the conversation was encrypted, is well-formed, names key ids inside the window, carries a MAC verifying under the receiving key of exactly that pair over every field, and a counter above the recorded one; no key-exchange message, no rejected / unparsable data message and no user call returns a text (Proto/Delivery.v). On the data-message machine for all states and messages: acceptance implies every prescribed check; the MAC covers every authenticated field; byte-level: the authenticated range is exactly the bytes before the authenticator. Every run: the mutation catalogue over all fields of in-flight messages at 0-6 rotations, plaintext injection for every way a session can be opened, compared with the machine; oracle: every text returned while encrypted was sent by the peer in this session or is flagged unencrypted.",
        'level_note': 'that only the peer can produce a MAC under the session keys (unforgeability of HMAC-SHA1, secrecy of the D-H secret) is the symbolic idealisation; that the accepted text is byte-identical to what the peer passed to Send is C04 (two-party theorem) plus the correspondence.',
        'trusted': ['the conversation model is symbolic: DH values are exponent ids, shared secrets unordered pairs, keys (secret, role) terms, a MAC verifies iff it was computed with the same key over the same fields (perfect-cryptography idealisation)', 'internal projections (key ids, list lengths, state names) are read through the verif-tagged hook VerifSnapshot'],
        'assumptions': ['EUF-CMA of HMAC-SHA1; injectivity of the key derivation'],
        'targets': ['Corr/Dispatch.vo', 'Proto/Run.vo'],
    },
    'C04': {
        'level_text': "Theorems: C04_fifo_exactly_once_in_order_unchanged - on the key-management model that is compared with the code (real key contexts: key lookup by id, session keys from the exponents, MAC check, per-pair counters, both rotations), from the state right after a key exchange and for EVERY interleaving of sends by either side and in-order deliveries, with any number of messages in flight and any number of rotations: no send fails, no delivery is refused, and received ++ in flight = sent on both directions (nothing lost, doubled, reordered or changed); proved by a two-direction invariant over key ids (C04_window_never_missed), key values (what the receiver will know when each queued message arrives is what the sender used) and counters, by induction over the schedule. Also: that id dynamics is the one of the model (emit / absorb), mirrored session keys for every pair of distinct DH values, text survives pad/serialise/parse unchanged, (with C05) an accepted message is never accepted again. Every run: random interleavings of sends and FIFO deliveries with ticks and rotations, fragmenting senders whose piece size divides the encoded length exactly, compared step by step with the machine; oracle: per direction the plaintext sequence received equals the sequence sent.",
        'level_note': 'the theorem is about data messages of the key-management layer; that fragmentation, heartbeats, SMP and extra-key traffic in between leave this layer alone is checked by the correspondence runs and the sequence oracle, not by theorem. Schedule condition: a freshly drawn exponent differs from the peer\'s exponents.',
        'trusted': ['the conversation model is symbolic: DH values are exponent ids, shared secrets unordered pairs, keys (secret, role) terms, a MAC verifies iff it was computed with the same key over the same fields (perfect-cryptography idealisation)', 'internal projections (key ids, list lengths, state names) are read through the verif-tagged hook VerifSnapshot'],
        'assumptions': ['DH values drawn are pairwise distinct'],
        'targets': ['Corr/Dispatch.vo', 'Proto/Run.vo'],
    },
    'C05': {
        'level_text': 'Theorems: C05_accepted_at_most_once - for EVERY history of receptions (accepted or not) and sends that follows the acceptance of a data message, with any number of key rotations on either side, the same message is refused (invariant: its key pair has left the window or the recorded counter covers it; induction over the history); counter check monotone per key pair and independent across pairs. Correspondence + replay oracle (immediate, after traffic, out of order, later session) every run.',
        'level_note': 'replay in a later session relies on new DH values giving different MAC keys (symbolic injectivity).',
        'trusted': ['the conversation model is symbolic: DH values are exponent ids, shared secrets unordered pairs, keys (secret, role) terms, a MAC verifies iff it was computed with the same key over the same fields (perfect-cryptography idealisation)', 'internal projections (key ids, list lengths, state names) are read through the verif-tagged hook VerifSnapshot'],
        'assumptions': ['injectivity of key derivation'],
        'targets': ['Corr/Dispatch.vo', 'Proto/Run.vo'],
    },
    'C06': {
        'level_text': 'Theorems for all conversations/messages: a data message failing any check (parse, key ids, MAC, counter) leaves the conversation record identical apart from flushing pending replies; in the key exchange a Signature message failing MAC / decryption / signature check, an unreadable D-H Commit while an exchange is in progress, and any v3 message for or from another instance leave it identical too. Every run, twin runs on identical seeds with / without the rejected message (all later observations equal) and comparison with the machine: data phase (11 mutation kinds at random points), key-exchange phase (AKE sweep, damaged copies of earlier messages and reflected copies at every point of the exchange, stale copies after the exchange followed by a query).',
        'level_note': 'partial: the remaining reject classes of the key exchange (Reveal Signature, D-H Key, version mismatch) are decided by the twin runs and the correspondence, not by theorem.',
        'trusted': ['the conversation model is symbolic: DH values are exponent ids, shared secrets unordered pairs, keys (secret, role) terms, a MAC verifies iff it was computed with the same key over the same fields (perfect-cryptography idealisation)', 'internal projections (key ids, list lengths, state names) are read through the verif-tagged hook VerifSnapshot'],
        'assumptions': [],
        'targets': ['Corr/Dispatch.vo', 'Proto/Run.vo'],
    },
    'C09': {
        'level_text': 'Theorems for all key contexts: a key becomes pending only when a rotation retires its pair, a retired pair is refused by the key lookup, rotations never lose a recorded key, the next data message discloses everything pending. Oracle recomputes all window MAC keys independently (math/big + sha1) and audits every emitted message.',
        'level_note': 'key material for the oracle is read through the hook VerifKeys; disclosure after a refresh AKE while encrypted is outside the theorems.',
        'trusted': ['the conversation model is symbolic: DH values are exponent ids, shared secrets unordered pairs, keys (secret, role) terms, a MAC verifies iff it was computed with the same key over the same fields (perfect-cryptography idealisation)', 'internal projections (key ids, list lengths, state names) are read through the verif-tagged hook VerifSnapshot'],
        'assumptions': ['collision-freedom of the key derivation'],
        'targets': ['Corr/Dispatch.vo', 'Proto/Run.vo'],
    },
    'C19': {
        'level_text': 'Invariant theorem: counter and MAC-key lists hold at most one entry per key pair of the 2x2 window (<= 4 each) at session start and after every send and every accepted message, for arbitrary (forged, replayed) input; rejected input changes nothing (C06). Growth oracle at n, 2n, 4n on nine traffic patterns (ping-pong, one-way, forged flood, crossing, error + re-AKE, answers lost / late, refused-fragment flood, plaintext flood): retained entries and the size of the next output must not grow.',
        'level_note': 'the bound on pending (undisclosed) keys and on the resend queue is checked by the growth oracle and the correspondence, not yet by theorem.',
        'trusted': ['the conversation model is symbolic: DH values are exponent ids, shared secrets unordered pairs, keys (secret, role) terms, a MAC verifies iff it was computed with the same key over the same fields (perfect-cryptography idealisation)', 'internal projections (key ids, list lengths, state names) are read through the verif-tagged hook VerifSnapshot'],
        'assumptions': [],
        'targets': ['Corr/Dispatch.vo', 'Proto/Run.vo'],
    },
    'C01': {
        'level_text': "Theorems: C01_encrypted_implies_peer_signed_this_exchange - for EVERY history of calls on a conversation (arbitrary input in any order: modified, truncated, injected, duplicated, replayed from other sessions; Send / End / SMP calls in between), if it reports itself encrypted then it has received a signature made by the owner of exactly the peer key it reports, over M = (MAC key of the session secret, the peer's D-H value, our D-H value, that key, key id), the reported session id being the one of the secret of exactly these two values and the peer's value being in range (invariant over the history: consistency of the exchange context while the Signature message is awaited + authentication of the reported key / session id; every definition of the machine walked through, the accepting branches proved by hand; Proto/AkeAuth.v). Also per message: the reported peer key changes only after the m2-MAC, the decryption under c and the signature check over M all passed, otherwise nothing changes; out-of-range DH values never pass; completion installs the session id / role of that exchange; mirrored session keys. Every run, compared with the machine: the AKE sweep (every key-exchange message x 28 mutations incl. authenticated-but-unparsable X and a participant claiming somebody else's key x {before, after the genuine message} x fresh/refresh), random handshakes with cross-session replay, duplicates, a re-signing impersonator; the numeric group-range check vs the code. Oracles: an encrypted conversation reports a key whose owner's signature message it received (also right after a rejected message), the exchange completes after a rejected copy, equal ssid implies complementary halves and mutual readability.",
        'level_note': 'symbolic model: that a signature term can only come from the holder of the private key, that the MAC / encryption keys of another secret do not verify / decrypt, and that the secret of two D-H values is known only to their holders are the idealisations of DSA, HMAC/AES and CDH; agreement of BOTH sides on the session (equal ssid, complementary halves) is decided by the correspondence runs and the oracle.',
        'trusted': ['the conversation model is symbolic: DH values are exponent ids, shared secrets unordered pairs, keys (secret, role) terms, a MAC verifies iff it was computed with the same key over the same fields (perfect-cryptography idealisation)', 'internal projections (key ids, list lengths, state names) are read through the verif-tagged hook VerifSnapshot'],
        'assumptions': ['EUF-CMA of DSA and HMAC-SHA256, CDH in the 1536-bit group'],
        'targets': ['Corr/Dispatch.vo', 'Proto/Run.vo'],
    },
    'C03': {
        'level_text': 'Theorems: C03_plaintext_only_from_send_when_allowed - over EVERY history of calls on a new conversation (any input, Send / End / SMP / extra key in any order) a plaintext message leaves only as the direct output of Send(t), carrying that very text, at a moment when OTR is off or the conversation is in plaintext state without require-encryption; everything else that ever leaves (queued texts released later, the message resent on request, replies built while receiving, End / SMP / extra-key output) is a query, an error message or an encoded message (value-following frame calculus over the conversation monad, Proto/NoPlain.v). For every state, policy set and text: Send in finished emits nothing new and fails; Send in plaintext under require-encryption emits only the query and queues the text; Send while encrypted emits only error replies or a data message whose payload is encrypted and MACed under the sending key of the current DH pair. Every run, compared with the machine: directed sweep of 10 lifecycle phases x 8 actions x 5 policy sets (incl. protocol-looking texts given to Send, a further session and an error-triggered retransmission at the end) plus random lifecycles; wire-search oracle (raw and base64) for every text whenever encryption is due.',
        'level_note': 'that AES-CTR ciphertext does not reveal the text, and that an encoded message is decipherable only with the session secrets, are properties of the cipher / the symbolic idealisation (measured on the real bytes by the wire-search oracle only).',
        'trusted': ['the conversation model is symbolic: DH values are exponent ids, shared secrets unordered pairs, keys (secret, role) terms, a MAC verifies iff it was computed with the same key over the same fields (perfect-cryptography idealisation)', 'internal projections (key ids, list lengths, state names) are read through the verif-tagged hook VerifSnapshot'],
        'assumptions': ['AES-128-CTR hides the plaintext'],
        'targets': ['Corr/Dispatch.vo', 'Proto/Run.vo'],
    },
    'C07': {
        'level_text': 'Verified exhaustive exploration in Coq: explore_sound (induction on fuel) + kernel evaluation over all single-sided start patterns and refreshes x all version-policy pairs sharing a version x both outcomes of the hash comparison: EVERY delivery schedule completes with both sides encrypted in one session; simultaneous start is refuted by the model and the code (known finding). On the real code every run: stateless exploration with backtracking of every interleaving of user actions and deliveries for 11 start configurations (query by one / both, tagged message once / twice, error-triggered, require-encryption Send once / twice, asking again at once after End, refresh by one / both) x version-policy pairs; cap per configuration in the quick tier reported in the evidence.',
        'level_note': 'bound: at most one start event per side plus a refresh; clock ticks inside an exchange are not explored in Coq.',
        'trusted': ['the conversation model is symbolic: DH values are exponent ids, shared secrets unordered pairs, keys (secret, role) terms, a MAC verifies iff it was computed with the same key over the same fields (perfect-cryptography idealisation)', 'internal projections (key ids, list lengths, state names) are read through the verif-tagged hook VerifSnapshot'],
        'assumptions': [],
        'targets': ['Corr/Dispatch.vo', 'Proto/Run.vo'],
    },
    'C18': {
        'level_text': "Theorems: C18_call_events_track_status - for EVERY call (Send, Receive of anything, End, SMP, extra key) on EVERY state the security events it reports are exactly a legal track from the encrypted status before to the status after (GoneSecure only from not-encrypted to encrypted, StillSecure only while encrypted, GoneInsecure only from encrypted to not-encrypted, nothing else moves the status); C18_encrypted_exactly_between_events - over EVERY history of calls a conversation is encrypted exactly when the events raised so far say so; only Receive and End ever change the message state (frame calculus over the conversation monad, every definition of the machine walked through, Proto/Lifecycle.v); the three state changes (AKE completion, End, Send while finished) with their exact events and key/queue effects. Every run, compared with the machine: the lifecycle phase sweep of C03 (incl. the peer's disconnect built without padding by the independent reference sender, a further session and a retransmission request at the end) plus random lifecycles; oracles: GoneSecure/GoneInsecure/StillSecure exactly on the flips of IsEncrypted, Send refuses after peer disconnect, each text received at most once plain and once marked resent.",
        'level_note': 'the retransmission discipline (each text at most once plain and once resent) is decided by the correspondence runs and the oracle, not by theorem.',
        'trusted': ['the conversation model is symbolic: DH values are exponent ids, shared secrets unordered pairs, keys (secret, role) terms, a MAC verifies iff it was computed with the same key over the same fields (perfect-cryptography idealisation)', 'internal projections (key ids, list lengths, state names) are read through the verif-tagged hook VerifSnapshot'],
        'assumptions': [],
        'targets': ['Corr/Dispatch.vo', 'Proto/Run.vo'],
    },
    'C11': {
        'level_text': "Theorems: over any field of exponents, for non-degenerate exponents the responder's and the initiator's final comparisons hold iff the secrets are equal (ring/field proof); on the state machine, success is reported only by the handlers of messages 3 and 4. The symbolic SMP model (group elements as sign/exponent, real group order, parametric hash) is compared with the Go code every run: six ways of establishing the session before SMP (first exchange by either side, refresh, one side lost its state, after the peer ended, double refresh), secret shapes incl. pairs differing only in white space, with/without question, either initiator, directed run sequences (failed or aborted run, then another), relay between two separately keyed sessions.",
        'level_note': "the algebra theorem is stated on the exponent form of the equations (the model's EKnown elements follow the same algebra); primality of q and the binding of the secret to fingerprints/ssid through SHA-256 are assumptions; honest-run proof verification is covered by correspondence, not by theorem.",
        'trusted': ['the conversation model is symbolic: DH values are exponent ids, shared secrets unordered pairs, keys (secret, role) terms, a MAC verifies iff it was computed with the same key over the same fields (perfect-cryptography idealisation)', 'internal projections (key ids, list lengths, state names) are read through the verif-tagged hook VerifSnapshot'],
        'assumptions': ['q prime (RFC 3526 group 5), SHA-256 collision-free, exponents not 0 mod q'],
        'targets': ['Corr/Dispatch.vo', 'Proto/Run.vo'],
    },
    'C12': {
        'level_text': 'Theorems for all received values and states: the responder (message 3) and the initiator (message 4) report success only after every range check, both zero-knowledge proofs and the final comparison evaluated to true; no other message yields success; C12_never_panics_v3 - for EVERY history of user calls and received SMP messages of any content under version 3 no step reaches a panic of the code (nil ModInverse / missing state record; invariant: each state holds the records its handler reads and the stored divisors are not 0); C12_can_always_restart - whatever the state, the next start by the user goes through. Refuted for version 2 (no range checks; known finding). Every run: systematic plan - every message with 1, 2, 3 and all values dropped, every field x boundary classes (0, 1, p-1, p, p+1, q, random, +1) - plus random deviations, user calls in unexpected states, v2/v3, compared with the symbolic model; recovery oracle; the numeric range check vs the code.',
        'level_note': 'the no-panic theorem is about the SMP machine of the model (where the code would panic the model says so); that the model says so in the same places as the code is the correspondence.',
        'trusted': ['the conversation model is symbolic: DH values are exponent ids, shared secrets unordered pairs, keys (secret, role) terms, a MAC verifies iff it was computed with the same key over the same fields (perfect-cryptography idealisation)', 'internal projections (key ids, list lengths, state names) are read through the verif-tagged hook VerifSnapshot'],
        'assumptions': ['generic-group idealisation for values of unknown discrete logarithm (a tainted value never satisfies an equation)'],
        'targets': ['Corr/Dispatch.vo', 'Proto/Run.vo'],
    },
    'C13': {
        'level_text': 'Theorems for every byte string: ExtractInstanceTags, the envelope decoder (on inputs longer than the marker) and dataMsg.deserialize never take the panic outcome of the model (slices are guarded); the TLV loop terminates within length(input) rounds; what ExtractMPIs allocates is at most len/4 entries whatever count the input announces; the s-expression reader behind the key-file import returns on every input within 2*|input|+4 rounds (every list item consumes a byte). The byte-level models incl. the s-expression reader are compared with the Go functions every run on a hostile stream (truncations at every boundary, huge length/count prefixes, garbage, unterminated / deeply nested lists). Oracles on the real code every run: each parser entry point (incl. ParsePublicKey/ParsePrivateKey, ImportKeys) under panic, wall-time and allocation guards; Receive on hostile input in 7 conversation states x policies x versions followed by a probe exchange; authenticated-but-malicious key-exchange payloads (an unparsable or foreign public key where key and signature belong, encrypted and MACed correctly), also compared with the machine; failure of the k-th read of Conversation.Rand for every k of a session with a state-unchanged-or-usable oracle.',
        'level_note': 'partial: key-file import above the s-expression layer (account / key extraction) and big.Int parsing are exercised by the guarded oracle only; absence of hangs/allocation in the conversation machine follows from the model being structurally recursive but is tied to the code by correspondence, not proof.',
        'trusted': ['panic/time/allocation guards in the harness measure the real calls (runtime.MemStats deltas, 2 s watchdog)', 'the byte-level model turns every Go slice expression into a guarded slice returning Panic when out of range'],
        'assumptions': [],
        'targets': ['Corr/Dispatch.vo', 'Proto/Run.vo'],
    },
    'C20': {
        'race': True,
        'diagnose': 'From Coq Require Import List String.\nFrom OTR Require Import Gen.Globals Proto.Shared.\nDefinition U := Eval vm_compute in map (fun w => (gw_fn w, gw_var w, gw_kind w, gw_pos w)) unsafe_writes.\nPrint U.\nDefinition A := Eval vm_compute in filter (fun v => negb (mem v exact_cap_vars)) append_prefix_vars.\nPrint A.\n',
        'level_text': 'Theorems: (1) over the table the translator regenerates from the source on every run (every assignment, store, ++/--, copy, append, address-of, pointer-method call and escape that can reach memory of a package-level variable, with intra-package summaries to a fixed point) nothing outside package initialisation writes shared memory except appends to / hand-outs of exact-capacity slices; every append-prefix variable is in the capacity-checked list; (2) in a model of Go slices, append on a slice with len = cap never writes an existing array; (3) for the conversation machine, every interleaving of calls on any number of conversations gives each conversation the state and results it has alone (induction over the schedule). Every run: the capacities in the running program (hook), N scripted pairs alone vs. all at once on N goroutines with byte-identical transcripts, concurrently run histories replayed on the Coq machine, tight loops through every append-prefix site, package-level snapshot, all under the Go race detector.',
        'level_note': 'partial: data races inside one call and the Go memory model are outside the Coq model (the race detector is supporting evidence); the table is produced by my translator (rules in tools/gen/globals.go) and does not see reflection/unsafe/assembly.',
        'trusted': ['tools/gen/globals.go: the alias/effect analysis that produces Gen/Globals.v', 'the Go race detector (go build -race) as a measuring instrument', 'hook VerifGlobalSlices lists the package-level byte slices by name'],
        'assumptions': ['a returned slice that shares a package-level array (only when nothing was appended) is not written in place by the application'],
        'targets': ['Corr/Dispatch.vo', 'Proto/Run.vo'],
    },
    'C08': {
        'level_text': "Theorems on the symbolic machine (a secret is held iff its identifier occurs in the state; wipe-and-drop is the reset of the field): after any sequence of our-key rotations the private keys held are exactly the two most recently installed; End leaves nothing (no private key, AKE ephemeral, SMP state or text) in every state; completion of a key exchange clears its ephemerals; a peer's disconnect clears keys and SMP state; Send while encrypted retains only the last text. Every run: the held-secrets projection of the machine is compared, after every call of random histories (rotations, refresh/abandoned AKE, losses, SMP, End, disconnect, error messages), with a scan of the object graph reachable from the real *Conversation for every value its random source handed out, independently derived session/AKE keys and every text; oracles state the property on the scan directly, including zero-before-drop of every buffer that received a secret.",
        'level_note': 'partial: copies made by the Go runtime (stack growth, GC), memcall page locking, big.Int internals and buffers inside crypto/dsa are outside the model and the scan; SMP exponents are big.Int copies, only the draw buffer can be followed by alias; the whole-history invariant is proved at the key-context level, the conversation-level statements are per call.',
        'trusted': ["harness/scan.go: reflect/unsafe walk of the object graph (does not follow the harness's own handler objects, time/sync internals, func values)", 'call-site classification of random reads by runtime.Callers'],
        'assumptions': ['identifiers of fresh exponents are distinct (random 320-bit values)'],
        'targets': ['Corr/Dispatch.vo', 'Proto/Run.vo'],
    },
    'C10': {
        'level_text': "The specification model (Spec/Otr.v over executable SHA-1, SHA-256, HMAC and AES-128-CTR written in Gallina; known answers from FIPS 180-4 / FIPS 197 / SP 800-38A / RFC 2202 / RFC 4231 checked by the kernel) is evaluated every run on the secrets of real sessions and must reproduce, byte for byte, what the implementation emitted: D-H Commit, D-H Key, Reveal Signature, Signature, data messages (header, key ids, next key, counter, ciphertext, authenticator, disclosed keys), AKE keys, SSID, session keys, extra symmetric key. Theorems for all inputs: the two ends derive mirrored keys (high/low rule); AES-CTR undoes itself; a data message built per the specification is authenticated and read back by the peer (spec accepts spec); the specification's MPI / data-body layouts equal the mirrors of the Go serialisers proved correct under C17. An independent Go reference (math/big, crypto/*) re-derives every key, MAC, ciphertext, signature validity and key id of every message, and searches deliberately for key pairs whose shared secret has leading zero bytes.",
        'level_note': 'partial: DSA signing is randomised and not re-derived (signature validity is checked with crypto/dsa over the M_B / M_A the specification prescribes); the specification was transcribed from the published protocol description by the author of the model (no network, no libotr here); modular exponentiation is done by math/big in the harness and handed to the model as a number.',
        'trusted': ['the transcription of the OTR v2/v3 specification in coq/Spec/Otr.v', "Go's crypto/sha1, crypto/sha256, crypto/hmac, crypto/aes, crypto/dsa and math/big as the reference the Gallina primitives and the key derivation are compared with", "hooks VerifAKEKeys / VerifSessionKeys / VerifKeys expose the implementation's key derivation and DH values"],
        'assumptions': ['g^x mod p as computed by math/big'],
        'targets': ['Corr/Dispatch.vo'],
    },
}
