# per-property configuration of bin/vcheck
ALLOWED_AXIOMS = {
    # axioms declared by Coq's standard library that a proof may pull in; each use is named in DESIGN.md section 7
    'functional_extensionality_dep', 'FunctionalExtensionality.functional_extensionality_dep',
    'Eqdep.Eq_rect_eq.eq_rect_eq', 'eq_rect_eq', 'JMeq_eq', 'JMeq.JMeq_eq', 'proof_irrelevance',
    'ProofIrrelevance.proof_irrelevance', 'classic', 'Classical_Prop.classic',
}

COMMON_TRUSTED = [
    'Coq 8.16.1 kernel and its VM (vm_compute); native_compute is not used',
    'tools/gen (go/parser + go/types): constants, byte-slice literals, group parameters and the table of '
    'package-level writes are regenerated from /repo on every run',
    'hand-written Gallina model tied to /repo by the correspondence check: Go harness (reflect/unsafe probes, '
    'verif-tagged hook file) vs. model evaluated by vm_compute inside coqc on the same inputs',
    'Go toolchain, crypto/*, math/big, encoding/base64, strconv, fmt are modelled, not verified',
]

HOOK_COMMITS = ['145a8002386ae6df0ac26746734fd4735fb7cdb5']
NOT_APPLICABLE = {}

PROPS = {
    'C17': {
        'level_text': 'Round-trip, minimality and length theorems proved in Coq for all values/byte strings on Gallina '
                      'mirrors of the (de)serialisers; mirrors tied to the Go code by differential runs on generated and '
                      'mutated inputs every run. Proof is the right level: the property quantifies over all values.',
        'level_note': 'Trusted: Coq kernel/VM; the mirrors are hand-written and tied to the code only by the correspondence '
                      'check (bounded by the generator); libotr key file covered by correspondence + oracle, not yet by theorem.',
        'trusted': ['bytes are modelled as list N with every element < 256 (wfb); Go slices aliasing is not modelled'],
        'assumptions': ['field sizes below 2^32 (the wire format cannot express more); TLV payloads below 2^16'],
    },
}
