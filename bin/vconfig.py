# per-property configuration of bin/vcheck
ALLOWED_AXIOMS = {
    # axioms declared by Coq's standard library that a proof may pull in; each use is named in DESIGN.md section 7
    'functional_extensionality_dep', 'FunctionalExtensionality.functional_extensionality_dep',
    'Eqdep.Eq_rect_eq.eq_rect_eq', 'eq_rect_eq', 'JMeq_eq', 'JMeq.JMeq_eq', 'proof_irrelevance',
    'ProofIrrelevance.proof_irrelevance', 'classic', 'Classical_Prop.classic',
}

COMMON_TRUSTED = [
    'Coq 8.16.1 kernel and its VM (vm_compute); native_compute is not used',
    'tools/gen (go/parser + go/types): constants, byte-slice literals, group parameters and the table of '
    'package-level writes are regenerated from /repo on every run',
    'hand-written Gallina model tied to /repo by the correspondence check: Go harness (reflect/unsafe probes, '
    'verif-tagged hook file) vs. model evaluated by vm_compute inside coqc on the same inputs',
    'Go toolchain, crypto/*, math/big, encoding/base64, strconv, fmt are modelled, not verified',
]

HOOK_COMMITS = ['145a800', '0e007dd']
NOT_APPLICABLE = {}

PROPS = {
    'C17': {
        'level_text': 'Round-trip, minimality and length theorems proved in Coq for all values/byte strings on Gallina '
                      'mirrors of the (de)serialisers; mirrors tied to the Go code by differential runs on generated and '
                      'mutated inputs every run. Proof is the right level: the property quantifies over all values.',
        'level_note': 'Trusted: Coq kernel/VM; the mirrors are hand-written and tied to the code only by the correspondence '
                      'check (bounded by the generator); libotr key file covered by correspondence + oracle, not yet by theorem.',
        'trusted': ['bytes are modelled as list N with every element < 256 (wfb); Go slices aliasing is not modelled'],
        'assumptions': ['field sizes below 2^32 (the wire format cannot express more); TLV payloads below 2^16'],
    },
    'C14': {
        'level_text': 'Theorems for all data/sizes/arrival sequences on the Gallina mirror of fragmentation.go: piece length bound, '
                      'in-order reassembly = original exactly once (v2 header format; count <= 65535), only complete 1..n runs are '
                      'ever handed on, each hand-over consumes its own final piece. Mirror tied to the code every run.',
        'level_note': 'v3 receive side (tags) is covered at conversation level; >65535 pieces is a recorded known finding; '
                      'model/code tie is differential (bounded by the generator).',
        'trusted': ['fmt %05d/%08x and strconv.Atoi/ParseInt are mirrored (Bytes/Strconv.v) and diffed, not verified'],
        'assumptions': ['payload contains no comma (true of every encoded OTR message: base64 + "?OTR:" + ".")'],
    },
    'C15': {
        'level_text': 'Theorems: the routing helper returns exactly (receiver, sender) tags for every v3 encoded message and every v3 '
                      'fragment prefix, and none for v2 (all tag values, all bodies); conversation-level tag isolation theorems '
                      'on the conversation model. Mirror tied to the code every run.',
        'level_note': 'base64 mirrored and proved to round-trip; conversation-level part relies on the conversation model correspondence.',
        'trusted': ['encoding/base64 mirrored in Bytes/B64.v'],
        'assumptions': [],
    },
    'C16': {
        'level_text': 'Theorems: version choice is the highest allowed-and-offered one for all policy/offer bit sets; a query generated '
                      'under policy p offers exactly p\'s versions to any reader; whitespace tag removal returns the text byte-exact '
                      'unless the header begins inside the text (refuted full statement = known finding). Tied to the code every run.',
        'level_note': 'two-party negotiation over all 64x64 policy pairs is checked on the conversation model; differential tie.',
        'trusted': [],
        'assumptions': ['texts in which the whitespace tag header begins before the appended tag are excluded (known finding)'],
    },
}
