(* SHA-1 and SHA-256 (FIPS 180-4) and HMAC (RFC 2104) over byte lists, executable with vm_compute.
   Words are numbers below 2^32. These definitions are the cryptographic primitives of the specification model
   Spec/Otr.v; they are compared with Go's crypto/sha1, crypto/sha256 and crypto/hmac on random inputs by the
   correspondence check, and with the standards' test vectors below. *)
From Coq Require Import List NArith Lia.
From OTR Require Import Go.Base Crypto.Tables.
Import ListNotations.
Open Scope N_scope.

Definition w32 : N := 4294967296.
Definition add32 (a b : N) : N := (a + b) mod w32.
Definition not32 (a : N) : N := N.lxor a 4294967295.
Definition rotr (n x : N) : N := N.lor (N.shiftr x n) (N.shiftl (x mod 2 ^ n) (32 - n)).
Definition rotl (n x : N) : N := rotr (32 - n) x.
Definition shr (n x : N) : N := N.shiftr x n.

(* big-endian words *)
Fixpoint words_of (b : list N) : list N :=
  match b with
  | b0 :: b1 :: b2 :: b3 :: r => (((b0 * 256 + b1) * 256 + b2) * 256 + b3) :: words_of r
  | _ => []
  end.
Definition bytes_of_word (w : N) : list N :=
  [w / 16777216 mod 256; w / 65536 mod 256; w / 256 mod 256; w mod 256].
Definition bytes_of_words (ws : list N) : list N := flat_map bytes_of_word ws.

(* padding: 0x80, zeros up to 56 mod 64, bit length as 64-bit big-endian *)
Definition pad_len (n : N) : N := (64 - (n + 9) mod 64) mod 64.
Definition be64 (n : N) : list N :=
  map (fun i => n / 256 ^ i mod 256) [7; 6; 5; 4; 3; 2; 1; 0].
Definition sha_pad (m : list N) : list N :=
  let n := lenN m in
  m ++ [128] ++ repeat 0 (N.to_nat (pad_len n)) ++ be64 (8 * n).

Fixpoint chunks64 (fuel : nat) (b : list N) : list (list N) :=
  match fuel with
  | O => []
  | S f => match b with
           | [] => []
           | _ => firstn 64 b :: chunks64 f (skipn 64 b)
           end
  end.
Definition blocks (m : list N) : list (list N) :=
  let p := sha_pad m in chunks64 (S (length p / 64)) p.

(* ---------- SHA-256 ---------- *)
Definition bsig0 x := N.lxor (N.lxor (rotr 2 x) (rotr 13 x)) (rotr 22 x).
Definition bsig1 x := N.lxor (N.lxor (rotr 6 x) (rotr 11 x)) (rotr 25 x).
Definition ssig0 x := N.lxor (N.lxor (rotr 7 x) (rotr 18 x)) (shr 3 x).
Definition ssig1 x := N.lxor (N.lxor (rotr 17 x) (rotr 19 x)) (shr 10 x).
Definition ch x y z := N.lxor (N.land x y) (N.land (not32 x) z).
Definition maj x y z := N.lxor (N.lxor (N.land x y) (N.land x z)) (N.land y z).

(* message schedule: [recent] holds the last 16 words, newest first *)
Fixpoint sched256 (n : nat) (recent : list N) : list N :=
  match n with
  | O => []
  | S k =>
      let w := add32 (add32 (ssig1 (nth 1 recent 0)) (nth 6 recent 0)) (add32 (ssig0 (nth 14 recent 0)) (nth 15 recent 0)) in
      w :: sched256 k (w :: firstn 15 recent)
  end.
Definition schedule256 (block : list N) : list N :=
  let w := words_of block in w ++ sched256 48 (rev w).

Definition st8 := (N * N * N * N * N * N * N * N)%type.
Definition round256 (s : st8) (kw : N * N) : st8 :=
  let '(a, b, c, d, e, f, g, h) := s in
  let '(k, w) := kw in
  let t1 := add32 (add32 (add32 h (bsig1 e)) (add32 (ch e f g) k)) w in
  let t2 := add32 (bsig0 a) (maj a b c) in
  (add32 t1 t2, a, b, c, add32 d t1, e, f, g).
Definition compress256 (s : st8) (block : list N) : st8 :=
  let '(a, b, c, d, e, f, g, h) := s in
  let '(a', b', c', d', e', f', g', h') := fold_left round256 (combine sha256_k (schedule256 block)) s in
  (add32 a a', add32 b b', add32 c c', add32 d d', add32 e e', add32 f f', add32 g g', add32 h h').
Definition init256 : st8 :=
  match sha256_h0 with
  | [a; b; c; d; e; f; g; h] => (a, b, c, d, e, f, g, h)
  | _ => (0, 0, 0, 0, 0, 0, 0, 0)
  end.
Definition sha256 (m : list N) : list N :=
  let '(a, b, c, d, e, f, g, h) := fold_left compress256 (blocks m) init256 in
  bytes_of_words [a; b; c; d; e; f; g; h].

(* ---------- SHA-1 ---------- *)
Fixpoint sched1 (n : nat) (recent : list N) : list N :=
  match n with
  | O => []
  | S k =>
      let w := rotl 1 (N.lxor (N.lxor (nth 2 recent 0) (nth 7 recent 0)) (N.lxor (nth 13 recent 0) (nth 15 recent 0))) in
      w :: sched1 k (w :: firstn 15 recent)
  end.
Definition schedule1 (block : list N) : list N :=
  let w := words_of block in w ++ sched1 64 (rev w).
Definition st5 := (N * N * N * N * N)%type.
Definition f1 (t : nat) (b c d : N) : N :=
  if Nat.ltb t 20 then N.lxor (N.land b c) (N.land (not32 b) d)
  else if Nat.ltb t 40 then N.lxor (N.lxor b c) d
  else if Nat.ltb t 60 then N.lxor (N.lxor (N.land b c) (N.land b d)) (N.land c d)
  else N.lxor (N.lxor b c) d.
Definition k1 (t : nat) : N :=
  if Nat.ltb t 20 then 1518500249 else if Nat.ltb t 40 then 1859775393
  else if Nat.ltb t 60 then 2400959708 else 3395469782.
Definition round1 (s : st5) (tw : nat * N) : st5 :=
  let '(a, b, c, d, e) := s in
  let '(t, w) := tw in
  let tmp := add32 (add32 (add32 (rotl 5 a) (f1 t b c d)) (add32 e w)) (k1 t) in
  (tmp, a, rotl 30 b, c, d).
Definition compress1 (s : st5) (block : list N) : st5 :=
  let '(a, b, c, d, e) := s in
  let '(a', b', c', d', e') := fold_left round1 (combine (seq 0 80) (schedule1 block)) s in
  (add32 a a', add32 b b', add32 c c', add32 d d', add32 e e').
Definition sha1 (m : list N) : list N :=
  let '(a, b, c, d, e) :=
    fold_left compress1 (blocks m) (1732584193, 4023233417, 2562383102, 271733878, 3285377520) in
  bytes_of_words [a; b; c; d; e].

(* ---------- HMAC ---------- *)
Definition xor_bytes (a b : list N) : list N := map (fun '(x, y) => N.lxor x y) (combine a b).
Definition hmac (hash : list N -> list N) (key msg : list N) : list N :=
  let k0 := if 64 <? lenN key then hash key else key in
  let k := k0 ++ repeat 0 (64 - length k0) in
  hash (map (N.lxor 92) k ++ hash (map (N.lxor 54) k ++ msg)).
Definition hmac_sha1 := hmac sha1.
Definition hmac_sha256 := hmac sha256.

(* ---------- known answers (FIPS 180 examples, RFC 2202, RFC 4231) ---------- *)
Definition ascii (s : list N) := s.
Example sha256_abc : sha256 [97; 98; 99] =
  [186; 120; 22; 191; 143; 1; 207; 234; 65; 65; 64; 222; 93; 174; 34; 35; 176; 3; 97; 163; 150; 23; 122; 156; 180; 16; 255; 97; 242; 0; 21; 173].
Proof. vm_compute. reflexivity. Qed.
Example sha256_empty : firstn 4 (sha256 []) = [227; 176; 196; 66].
Proof. vm_compute. reflexivity. Qed.
Example sha1_abc : sha1 [97; 98; 99] =
  [169; 153; 62; 54; 71; 6; 129; 106; 186; 62; 37; 113; 120; 80; 194; 108; 156; 208; 216; 157].
Proof. vm_compute. reflexivity. Qed.
(* 56-byte message: two blocks *)
Example sha256_two_blocks :
  firstn 4 (sha256 (map (fun c => c) [97;98;99;100;98;99;100;101;99;100;101;102;100;101;102;103;101;102;103;104;102;103;104;105;103;104;105;106;104;105;106;107;105;106;107;108;106;107;108;109;107;108;109;110;108;109;110;111;109;110;111;112;110;111;112;113]))
  = [36; 141; 106; 97].
Proof. vm_compute. reflexivity. Qed.
(* RFC 2202 test case 1: key = 20 x 0x0b, data = "Hi There" *)
Example hmac_sha1_rfc2202_1 : hmac_sha1 (repeat 11 20) [72; 105; 32; 84; 104; 101; 114; 101] =
  [182; 23; 49; 134; 85; 5; 114; 100; 226; 139; 192; 182; 251; 55; 140; 142; 241; 70; 190; 0].
Proof. vm_compute. reflexivity. Qed.
(* RFC 4231 test case 1 *)
Example hmac_sha256_rfc4231_1 : firstn 8 (hmac_sha256 (repeat 11 20) [72; 105; 32; 84; 104; 101; 114; 101]) =
  [176; 52; 76; 97; 216; 219; 56; 83].
Proof. vm_compute. reflexivity. Qed.
