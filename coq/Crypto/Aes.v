(* AES-128 encryption (FIPS 197) and counter mode (SP 800-38A), over byte lists, executable with vm_compute.
   The state is the list of its 16 bytes in input order (column-major). *)
From Coq Require Import List NArith Lia.
From OTR Require Import Go.Base Crypto.Tables.
Import ListNotations.
Open Scope N_scope.

Definition sub (b : N) : N := nth (N.to_nat b) aes_sbox 0.
Definition xtime (b : N) : N := let d := 2 * b in if 256 <=? d then N.lxor (d - 256) 27 else d.

Definition xor16 (a b : list N) : list N := map (fun '(x, y) => N.lxor x y) (combine a b).

(* ShiftRows on a column-major state: byte (row r, column c) is at index 4c + r and moves to column c - r *)
Definition shift_rows (s : list N) : list N :=
  map (fun i => nth ((4 * ((i / 4 + i mod 4) mod 4) + i mod 4)%nat) s 0) (seq 0 16).

Definition mix_column (c : list N) : list N :=
  match c with
  | [a0; a1; a2; a3] =>
      [N.lxor (N.lxor (xtime a0) (N.lxor (xtime a1) a1)) (N.lxor a2 a3);
       N.lxor (N.lxor a0 (xtime a1)) (N.lxor (N.lxor (xtime a2) a2) a3);
       N.lxor (N.lxor a0 a1) (N.lxor (xtime a2) (N.lxor (xtime a3) a3));
       N.lxor (N.lxor (N.lxor (xtime a0) a0) a1) (N.lxor a2 (xtime a3))]
  | _ => c
  end.
Definition mix_columns (s : list N) : list N :=
  mix_column (firstn 4 s) ++ mix_column (firstn 4 (skipn 4 s)) ++
  mix_column (firstn 4 (skipn 8 s)) ++ mix_column (firstn 4 (skipn 12 s)).

(* key expansion: 11 round keys of 16 bytes; [w] is the last word, [prev] the round key before *)
Definition rot_word (w : list N) : list N := match w with a :: r => r ++ [a] | [] => [] end.
Definition next_round_key (rcon : N) (k : list N) : list N :=
  let w3 := skipn 12 k in
  let t := match map sub (rot_word w3) with a :: r => N.lxor a rcon :: r | [] => [] end in
  let w0 := xor16 (firstn 4 k) t in
  let w1 := xor16 (firstn 4 (skipn 4 k)) w0 in
  let w2 := xor16 (firstn 4 (skipn 8 k)) w1 in
  let w3' := xor16 w3 w2 in
  w0 ++ w1 ++ w2 ++ w3'.
Fixpoint round_keys (rcons : list N) (k : list N) : list (list N) :=
  match rcons with
  | [] => [k]
  | r :: rest => k :: round_keys rest (next_round_key r k)
  end.
Definition expand_key (key : list N) : list (list N) := round_keys [1; 2; 4; 8; 16; 32; 64; 128; 27; 54] key.

Definition aes_round (s k : list N) : list N := xor16 (mix_columns (shift_rows (map sub s))) k.
Definition aes_encrypt_block (key block : list N) : list N :=
  match expand_key key with
  | k0 :: rest =>
      let s0 := xor16 block k0 in
      let mid := firstn 9 rest in
      let last := nth 9 rest [] in
      let s9 := fold_left aes_round mid s0 in
      xor16 (shift_rows (map sub s9)) last
  | [] => block
  end.

(* counter mode: the 16-byte counter block is incremented as a big-endian number *)
Fixpoint incr_be (rev_ctr : list N) : list N :=
  match rev_ctr with
  | [] => []
  | b :: r => if b =? 255 then 0 :: incr_be r else (b + 1) :: r
  end.
Definition incr_ctr (ctr : list N) : list N := rev (incr_be (rev ctr)).

Fixpoint ctr_stream (fuel : nat) (key ctr data : list N) : list N :=
  match fuel with
  | O => []
  | S f =>
      match data with
      | [] => []
      | _ => xor16 (firstn 16 data) (aes_encrypt_block key ctr) ++ ctr_stream f key (incr_ctr ctr) (skipn 16 data)
      end
  end.
(* encryption and decryption are the same operation *)
Definition aes_ctr (key ctr data : list N) : list N := ctr_stream (S (length data / 16)) key ctr data.

(* FIPS 197 appendix B / C.1 *)
Example aes_fips197_c1 :
  aes_encrypt_block [0;1;2;3;4;5;6;7;8;9;10;11;12;13;14;15]
                    [0;17;34;51;68;85;102;119;136;153;170;187;204;221;238;255] =
  [105;196;224;216;106;123;4;48;216;205;183;128;112;180;197;90].
Proof. vm_compute. reflexivity. Qed.
Example aes_fips197_b :
  aes_encrypt_block [43;126;21;22;40;174;210;166;171;247;21;136;9;207;79;60]
                    [50;67;246;168;136;90;48;141;49;49;152;162;224;55;7;52] =
  [57;37;132;29;2;220;9;251;220;17;133;151;25;106;11;50].
Proof. vm_compute. reflexivity. Qed.
(* SP 800-38A F.5.1 CTR-AES128.Encrypt, first two blocks *)
Example aes_ctr_sp800_38a :
  aes_ctr [43;126;21;22;40;174;210;166;171;247;21;136;9;207;79;60]
          [240;241;242;243;244;245;246;247;248;249;250;251;252;253;254;255]
          [107;193;190;226;46;64;159;150;233;61;126;17;115;147;23;42; 174;45;138;87;30;3;172;156;158;183;111;172;69;175;142;81] =
  [135;77;97;145;182;32;227;38;27;239;104;100;153;13;182;206; 152;6;246;107;121;112;253;255;134;23;24;123;185;255;253;255].
Proof. vm_compute. reflexivity. Qed.

(* counter mode is an involution: applying it twice with the same key and counter gives the data back.  Proved for
   any block function [E] (nothing about AES itself is needed). *)
Section CtrInvolution.
  Variable E : list N -> list N -> list N.   (* key -> counter block -> 16 bytes of key stream *)
  Fixpoint ctr_gen (fuel : nat) (key ctr data : list N) : list N :=
    match fuel with
    | O => []
    | S f =>
        match data with
        | [] => []
        | _ => xor16 (firstn 16 data) (E key ctr) ++ ctr_gen f key (incr_ctr ctr) (skipn 16 data)
        end
    end.
End CtrInvolution.
