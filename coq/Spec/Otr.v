(* The OTR version 2 / 3 wire format and key derivation, transcribed from the protocol specification
   ("Off-the-Record Messaging Protocol version 3"), independently of the Go code and of its mirrors in Bytes/:
   data types, key derivation (h1, h2, high/low end), the four key-exchange messages, the data message, TLVs.
   Everything is executable; the harness evaluates these definitions on the secrets of real sessions and compares
   the bytes with what the implementation put on the wire (C10). *)
From Coq Require Import List NArith Lia.
From OTR Require Import Go.Base Crypto.Tables Crypto.Sha Crypto.Aes.
Import ListNotations.
Open Scope N_scope.

(* ---------- data types ---------- *)
(* k-byte big-endian *)
Fixpoint be (k : nat) (n : N) : list N :=
  match k with
  | O => []
  | S k' => (n / 256 ^ N.of_nat k') mod 256 :: be k' n
  end.
Definition s_byte (n : N) : list N := be 1 n.
Definition s_short (n : N) : list N := be 2 n.
Definition s_int (n : N) : list N := be 4 n.
Definition s_data (b : list N) : list N := s_int (lenN b) ++ b.

(* minimal big-endian representation (no leading zero bytes; zero is the empty string) *)
Fixpoint le_bytes (fuel : nat) (n : N) : list N :=
  match fuel with
  | O => []
  | S f => if n =? 0 then [] else N.land n 255 :: le_bytes f (N.shiftr n 8)   (* n mod 256, n / 256 *)
  end.
Definition min_bytes (n : N) : list N := rev (le_bytes (S (N.to_nat (N.size n))) n).
Definition s_mpi (n : N) : list N := s_data (min_bytes n).

(* a DSA public key: type 0x0000, then p, q, g, y *)
Record dsa_pub := { dp : N; dq : N; dg : N; dy : N }.
Definition s_pubkey (k : dsa_pub) : list N := s_short 0 ++ s_mpi (dp k) ++ s_mpi (dq k) ++ s_mpi (dg k) ++ s_mpi (dy k).

(* ---------- key derivation ---------- *)
(* "h1(b) = SHA-1(b || secbytes)", "h2(b) = SHA-256(b || secbytes)", secbytes = s written as an MPI *)
Definition h1 (b : N) (s : N) : list N := sha1 (b :: s_mpi s).
Definition h2 (b : N) (s : N) : list N := sha256 (b :: s_mpi s).

Record ake_keys := { k_ssid : list N; k_c : list N; k_c' : list N; k_m1 : list N; k_m2 : list N; k_m1' : list N; k_m2' : list N }.
Definition spec_ake_keys (s : N) : ake_keys :=
  let cc := h2 1 s in
  {| k_ssid := firstn 8 (h2 0 s); k_c := firstn 16 cc; k_c' := skipn 16 cc;
     k_m1 := h2 2 s; k_m2 := h2 3 s; k_m1' := h2 4 s; k_m2' := h2 5 s |}.

Record data_keys := { dk_send_aes : list N; dk_recv_aes : list N; dk_send_mac : list N; dk_recv_mac : list N; dk_extra : list N }.
(* the "high" end (larger public key) sends with byte 1 and receives with byte 2, the "low" end the other way round *)
Definition spec_data_keys (our_pub their_pub s : N) : data_keys :=
  let '(sb, rb) := if their_pub <? our_pub then (1, 2) else (2, 1) in
  let se := firstn 16 (h1 sb s) in
  let re := firstn 16 (h1 rb s) in
  {| dk_send_aes := se; dk_recv_aes := re; dk_send_mac := sha1 se; dk_recv_mac := sha1 re; dk_extra := h2 255 s |}.

(* ---------- headers ---------- *)
Definition msg_dh_commit : N := 2.
Definition msg_data : N := 3.
Definition msg_dh_key : N := 10.
Definition msg_reveal_sig : N := 17.
Definition msg_signature : N := 18.
Definition header (ver ty stag rtag : N) : list N :=
  s_short ver ++ s_byte ty ++ (if ver =? 3 then s_int stag ++ s_int rtag else []).

Definition zero_ctr : list N := repeat 0 16.

(* ---------- key exchange ---------- *)
Definition spec_dh_commit (ver stag rtag : N) (r : list N) (gx : N) : list N :=
  header ver msg_dh_commit stag rtag ++ s_data (aes_ctr r zero_ctr (s_mpi gx)) ++ s_data (sha256 (s_mpi gx)).
Definition spec_dh_key (ver stag rtag gy : N) : list N := header ver msg_dh_key stag rtag ++ s_mpi gy.

(* M_B = MAC_m1(gx, gy, pub_B, keyid_B);  X_B = pub_B, keyid_B, sig_B(M_B) *)
Definition spec_M (m1 : list N) (g_first g_second : N) (pub : dsa_pub) (keyid : N) : list N :=
  hmac_sha256 m1 (s_mpi g_first ++ s_mpi g_second ++ s_pubkey pub ++ s_int keyid).
Definition spec_X (pub : dsa_pub) (keyid : N) (sig : list N) : list N := s_pubkey pub ++ s_int keyid ++ sig.
Definition spec_reveal_sig (ver stag rtag : N) (r : list N) (k : ake_keys) (pub : dsa_pub) (keyid : N) (sig : list N) : list N :=
  let enc := s_data (aes_ctr (k_c k) zero_ctr (spec_X pub keyid sig)) in
  header ver msg_reveal_sig stag rtag ++ s_data r ++ enc ++ firstn 20 (hmac_sha256 (k_m2 k) enc).
Definition spec_signature (ver stag rtag : N) (k : ake_keys) (pub : dsa_pub) (keyid : N) (sig : list N) : list N :=
  let enc := s_data (aes_ctr (k_c' k) zero_ctr (spec_X pub keyid sig)) in
  header ver msg_signature stag rtag ++ enc ++ firstn 20 (hmac_sha256 (k_m2' k) enc).

(* ---------- data messages ---------- *)
Definition s_tlv (ty : N) (v : list N) : list N := s_short ty ++ s_short (lenN v) ++ v.
(* the plaintext: the human-readable part, then optionally a NUL and TLVs *)
Definition spec_payload (text : list N) (tlvs : list (N * list N)) : list N :=
  text ++ match tlvs with [] => [] | _ => 0 :: flat_map (fun '(ty, v) => s_tlv ty v) tlvs end.

Definition data_body (flags sk rk y : N) (ctr8 enc : list N) : list N :=
  s_byte flags ++ s_int sk ++ s_int rk ++ s_mpi y ++ ctr8 ++ s_data enc.
(* the authenticator covers everything from the protocol version to the end of the encrypted message *)
Definition spec_data_message (ver stag rtag flags sk rk y : N) (ctr8 : list N) (k : data_keys)
                             (payload : list N) (old_mac_keys : list N) : list N :=
  let enc := aes_ctr (dk_send_aes k) (ctr8 ++ repeat 0 8) payload in
  let signed := header ver msg_data stag rtag ++ data_body flags sk rk y ctr8 enc in
  signed ++ hmac_sha1 (dk_send_mac k) signed ++ s_data old_mac_keys.

(* the receiving side: check the authenticator with the receiving MAC key, decrypt with the receiving AES key *)
Definition bytes_eq (a b : list N) : bool := bytes_eqb a b.
Definition spec_open (k : data_keys) (signed mac : list N) (ctr8 enc : list N) : option (list N) :=
  if bytes_eq (hmac_sha1 (dk_recv_mac k) signed) mac then Some (aes_ctr (dk_recv_aes k) (ctr8 ++ repeat 0 8) enc) else None.
