(* Facts about the specification model: the two ends derive mirrored keys, MPIs are the minimal representation and
   coincide with the mirror of the Go serialiser, counter mode undoes itself, a message built by one end is
   accepted and read by the other. *)
From Coq Require Import List NArith Lia.
From OTR Require Import Go.Base Crypto.Tables Crypto.Sha Crypto.Aes Spec.Otr Bytes.Wire Bytes.WireProofs Bytes.Msgs.
Import ListNotations.
Open Scope N_scope.

(* ---------- keys ---------- *)
Theorem data_keys_mirror gx gy s : gx <> gy ->
  let a := spec_data_keys gx gy s in
  let b := spec_data_keys gy gx s in
  dk_send_aes a = dk_recv_aes b /\ dk_recv_aes a = dk_send_aes b /\
  dk_send_mac a = dk_recv_mac b /\ dk_recv_mac a = dk_send_mac b /\ dk_extra a = dk_extra b.
Proof.
  intros Hne. unfold spec_data_keys.
  destruct (N.ltb_spec gy gx) as [H1|H1]; destruct (N.ltb_spec gx gy) as [H2|H2]; try lia; cbn; repeat split.
Qed.

(* ---------- counter mode ---------- *)
Lemma xor16_involutive (d k : list N) : (length d <= length k)%nat -> xor16 (xor16 d k) k = d.
Proof.
  revert k; induction d as [|x d IH]; intros [|y k] H; simpl in *; try lia; try reflexivity.
  unfold xor16 in *. cbn [combine map]. rewrite N.lxor_assoc, N.lxor_nilpotent, N.lxor_0_r. f_equal. apply IH. lia.
Qed.
Lemma xor16_length (d k : list N) : (length d <= length k)%nat -> length (xor16 d k) = length d.
Proof. intros H. unfold xor16. rewrite map_length, combine_length. lia. Qed.

Lemma firstn_app_exact {A} (a b : list A) n : length a = n -> firstn n (a ++ b) = a.
Proof. intros <-. rewrite firstn_app, Nat.sub_diag, firstn_O, app_nil_r. apply firstn_all. Qed.
Lemma skipn_app_exact {A} (a b : list A) n : length a = n -> skipn n (a ++ b) = b.
Proof. intros <-. rewrite skipn_app, Nat.sub_diag, skipn_all. reflexivity. Qed.

Section Ctr.
  Variable E : list N -> list N -> list N.
  Hypothesis E_len : forall k c, length (E k c) = 16%nat.

  Lemma ctr_gen_nil f key ctr : ctr_gen E f key ctr [] = [].
  Proof. destruct f; reflexivity. Qed.
  Lemma ctr_gen_step f key ctr d : d <> [] ->
    ctr_gen E (S f) key ctr d = xor16 (firstn 16 d) (E key ctr) ++ ctr_gen E f key (incr_ctr ctr) (skipn 16 d).
  Proof. destruct d; [congruence|reflexivity]. Qed.

  Lemma ctr_gen_involutive f : forall key ctr data, (length data < 16 * f)%nat ->
    ctr_gen E f key ctr (ctr_gen E f key ctr data) = data.
  Proof.
    induction f as [|f IH]; intros key ctr data Hf; [lia|].
    destruct data as [|x0 data0]; [reflexivity|].
    set (data := x0 :: data0) in *.
    assert (Hd : data <> []) by discriminate.
    rewrite (ctr_gen_step f key ctr data Hd).
    set (ks := E key ctr).
    set (blk := xor16 (firstn 16 data) ks).
    assert (Lf : (length (firstn 16 data) <= 16)%nat) by (rewrite firstn_length; lia).
    assert (Lb : length blk = length (firstn 16 data)).
    { unfold blk. apply xor16_length. unfold ks. rewrite E_len. exact Lf. }
    assert (Hb : blk ++ ctr_gen E f key (incr_ctr ctr) (skipn 16 data) <> []).
    { assert (Lpos : (0 < length blk)%nat) by (rewrite Lb, firstn_length; unfold data; cbn [length]; lia).
      intros Heq. apply (f_equal (@length N)) in Heq. rewrite app_length in Heq. cbn [length] in Heq. lia. }
    rewrite (ctr_gen_step f key ctr _ Hb). fold ks.
    destruct (le_lt_dec 16 (length data)) as [Hge|Hlt].
    - assert (L16 : length blk = 16%nat) by (rewrite Lb, firstn_length; lia).
      rewrite (firstn_app_exact blk _ 16 L16), (skipn_app_exact blk _ 16 L16).
      unfold blk. rewrite xor16_involutive by (unfold ks; rewrite E_len; exact Lf).
      rewrite IH by (rewrite skipn_length; lia).
      apply firstn_skipn.
    - rewrite (skipn_all2 data) by lia. rewrite ctr_gen_nil, app_nil_r.
      assert (Ls : (length blk < 16)%nat) by (rewrite Lb, firstn_length; lia).
      rewrite (firstn_all2 blk) by lia. rewrite (skipn_all2 blk) by lia. rewrite ctr_gen_nil, app_nil_r.
      unfold blk. rewrite xor16_involutive by (unfold ks; rewrite E_len; exact Lf).
      apply firstn_all2. lia.
  Qed.
End Ctr.

(* ---------- AES: a block is 16 bytes (for a 16-byte key) ---------- *)
Lemma next_round_key_length r k : length k = 16%nat -> length (next_round_key r k) = 16%nat.
Proof.
  intros H. do 16 (destruct k as [|? k]; [discriminate|]). destruct k; [|discriminate]. reflexivity.
Qed.
Lemma round_keys_all16 rs : forall k, length k = 16%nat -> Forall (fun x => length x = 16%nat) (round_keys rs k).
Proof.
  induction rs as [|r rs IH]; intros k H; cbn [round_keys]; constructor; auto.
  apply IH. apply next_round_key_length. exact H.
Qed.
Lemma round_keys_length rs k : length (round_keys rs k) = S (length rs).
Proof. revert k; induction rs as [|r rs IH]; intros k; cbn [round_keys length]; [reflexivity|]. rewrite IH. reflexivity. Qed.
Lemma shift_rows_length s : length (shift_rows s) = 16%nat.
Proof. unfold shift_rows. rewrite map_length, seq_length. reflexivity. Qed.

Lemma aes_block_length key blk : length key = 16%nat -> length (aes_encrypt_block key blk) = 16%nat.
Proof.
  intros Hk. unfold aes_encrypt_block, expand_key.
  pose proof (round_keys_all16 [1; 2; 4; 8; 16; 32; 64; 128; 27; 54] key Hk) as Hall.
  pose proof (round_keys_length [1; 2; 4; 8; 16; 32; 64; 128; 27; 54] key) as Hlen.
  destruct (round_keys _ key) as [|k0 rest]; [discriminate|].
  inversion Hall as [|? ? _ Hrest]; subst.
  assert (Hl : length (nth 9 rest []) = 16%nat).
  { cbn [length] in Hlen. assert (Hr : length rest = 10%nat) by lia.
    rewrite Forall_forall in Hrest. apply Hrest. apply nth_In. lia. }
  rewrite xor16_length; [apply shift_rows_length|]. rewrite shift_rows_length, Hl. lia.
Qed.

Lemma ctr_stream_gen f : forall key ctr data, ctr_stream f key ctr data = ctr_gen aes_encrypt_block f key ctr data.
Proof. induction f as [|f IH]; intros; cbn [ctr_stream ctr_gen]; [reflexivity|]. destruct data; [reflexivity|]. rewrite IH. reflexivity. Qed.

(* aes_ctr uses one round more than blocks needed; extra fuel changes nothing *)
Lemma ctr_gen_fuel_irrelevant E f : forall g key ctr data, (length data < 16 * f)%nat -> (f <= g)%nat ->
  ctr_gen E g key ctr data = ctr_gen E f key ctr data.
Proof.
  induction f as [|f IH]; intros g key ctr data Hf Hg; [lia|].
  destruct g as [|g]; [lia|]. destruct data as [|x d]; [reflexivity|].
  cbn [ctr_gen]. f_equal.
  destruct (le_lt_dec 16 (length (x :: d))) as [Hge|Hlt].
  - apply IH; [rewrite skipn_length; lia | lia].
  - rewrite skipn_all2 by lia. destruct g, f; reflexivity.
Qed.

Lemma fuel_ok (data : list N) : (length data < 16 * S (length data / 16))%nat.
Proof. pose proof (Nat.div_mod (length data) 16). pose proof (Nat.mod_upper_bound (length data) 16). lia. Qed.

Theorem aes_ctr_involutive key ctr data : length key = 16%nat -> aes_ctr key ctr (aes_ctr key ctr data) = data.
Proof.
  intros Hk. unfold aes_ctr. rewrite !ctr_stream_gen.
  set (E := aes_encrypt_block).
  assert (EL : forall c : list N, length (E key c) = 16%nat) by (intros; apply aes_block_length; exact Hk).
  (* the generic lemma wants the length fact for every key; restrict the cipher to this key *)
  set (E' := fun (_ c : list N) => E key c).
  assert (G : forall f c d, ctr_gen E f key c d = ctr_gen E' f key c d).
  { induction f as [|f IHf]; intros c d; cbn [ctr_gen]; [reflexivity|]. destruct d; [reflexivity|]. rewrite IHf. reflexivity. }
  rewrite !G.
  assert (EL' : forall k c : list N, length (E' k c) = 16%nat) by (intros; apply EL).
  assert (Llen : forall f c d, (length d < 16 * f)%nat -> length (ctr_gen E' f key c d) = length d).
  { induction f as [|f IHf]; intros c d Hf; [lia|]. destruct d as [|x d]; [reflexivity|].
    cbn [ctr_gen]. rewrite app_length, xor16_length by (rewrite EL', firstn_length; lia).
    destruct (le_lt_dec 16 (length (x :: d))) as [Hge|Hlt].
    - rewrite IHf by (rewrite skipn_length; lia). rewrite firstn_length, skipn_length. lia.
    - rewrite skipn_all2 by lia. rewrite ctr_gen_nil. rewrite firstn_length. cbn [length] in *. lia. }
  set (out := ctr_gen E' (S (length data / 16)) key ctr data).
  assert (Lout : length out = length data) by (apply Llen, fuel_ok).
  rewrite (ctr_gen_fuel_irrelevant E' (S (length data / 16)) (S (length out / 16)) key ctr out).
  - apply ctr_gen_involutive; [exact EL' | apply fuel_ok].
  - rewrite Lout. apply fuel_ok.
  - rewrite Lout. lia.
Qed.

(* ---------- a message built by one end is accepted and read by the other ---------- *)
Lemma sha1_length m : length (sha1 m) = 20%nat.
Proof. unfold sha1. destruct (fold_left compress1 _ _) as [[[[a b] c] d] e]. reflexivity. Qed.

Lemma bytes_eq_refl b : bytes_eq b b = true.
Proof. unfold bytes_eq. apply bytes_eqb_eq. reflexivity. Qed.

Theorem spec_accepts_spec gx gy s ver stag rtag flags sk rk y ctr8 payload old :
  gx <> gy ->
  let ka := spec_data_keys gx gy s in
  let kb := spec_data_keys gy gx s in
  let enc := aes_ctr (dk_send_aes ka) (ctr8 ++ repeat 0 8) payload in
  let signed := header ver msg_data stag rtag ++ data_body flags sk rk y ctr8 enc in
  let mac := hmac_sha1 (dk_send_mac ka) signed in
  spec_data_message ver stag rtag flags sk rk y ctr8 ka payload old = signed ++ mac ++ s_data old /\
  spec_open kb signed mac ctr8 enc = Some payload.
Proof.
  intros Hne ka kb enc signed mac.
  destruct (data_keys_mirror gx gy s Hne) as [M1 [_ [M3 _]]]. fold ka kb in M1, M3.
  split; [reflexivity|].
  unfold spec_open. rewrite <- M3. fold mac. rewrite bytes_eq_refl. f_equal.
  rewrite <- M1. unfold enc. apply aes_ctr_involutive.
  unfold ka, spec_data_keys, h1. destruct (gy <? gx); cbn [dk_send_aes]; rewrite firstn_length, sha1_length; reflexivity.
Qed.

(* ---------- the specification's encodings are the ones of the (proved) serialiser mirrors ---------- *)
Lemma s_int_ser_word n : s_int n = ser_word n.
Proof.
  unfold s_int, ser_word. cbn [be].
  change (256 ^ N.of_nat 3) with 16777216. change (256 ^ N.of_nat 2) with 65536.
  change (256 ^ N.of_nat 1) with 256. change (256 ^ N.of_nat 0) with 1. rewrite N.div_1_r. reflexivity.
Qed.
Lemma s_short_ser_short n : s_short n = ser_short n.
Proof.
  unfold s_short, ser_short. cbn [be]. change (256 ^ N.of_nat 1) with 256. change (256 ^ N.of_nat 0) with 1.
  rewrite N.div_1_r. reflexivity.
Qed.
Lemma s_data_AppendData b : lenN b < 4294967296 -> s_data b = AppendData [] b.
Proof.
  intros H. unfold s_data, AppendData, AppendWord, u32. rewrite N.mod_small by exact H. rewrite s_int_ser_word. reflexivity.
Qed.

Lemma le_bytes_step f n : n <> 0 -> le_bytes (S f) n = n mod 256 :: le_bytes f (n / 256).
Proof.
  intros H. cbn [le_bytes]. destruct (N.eqb_spec n 0); [contradiction|].
  change 255 with (N.ones 8). rewrite N.land_ones, N.shiftr_div_pow2. reflexivity.
Qed.
Lemma be_fuel_le f : forall n acc, be_bytes_fuel f n acc = rev (le_bytes f n) ++ acc.
Proof.
  induction f as [|f IH]; intros n acc; [reflexivity|].
  cbn [be_bytes_fuel]. destruct (N.eqb_spec n 0) as [->|Hn]; [reflexivity|].
  rewrite le_bytes_step by exact Hn. cbn [rev]. rewrite <- app_assoc. cbn [app]. apply IH.
Qed.
Lemma le_bytes_fuel f : forall g n, n < 2 ^ N.of_nat f -> (f <= g)%nat -> le_bytes g n = le_bytes f n.
Proof.
  induction f as [|f IH]; intros g n Hn Hg.
  - assert (n = 0) by (cbn in Hn; lia). subst. destruct g; reflexivity.
  - destruct g as [|g]; [lia|]. destruct (N.eqb_spec n 0) as [->|H0]; [reflexivity|].
    rewrite !le_bytes_step by exact H0. f_equal. apply IH; [|lia].
    rewrite Nat2N.inj_succ, N.pow_succ_r' in Hn.
    apply N.div_lt_upper_bound; [lia|]. destruct f as [|f].
    + cbn in *. lia.
    + rewrite Nat2N.inj_succ, N.pow_succ_r' in *. lia.
Qed.

Lemma size_bound n : n < 2 ^ N.of_nat (N.to_nat (N.size n)).
Proof. rewrite N2Nat.id. apply N.size_gt. Qed.
Lemma log2_bound n : n < 2 ^ N.of_nat (S (N.to_nat (N.log2 n))).
Proof.
  rewrite Nat2N.inj_succ, N2Nat.id. destruct (N.eqb_spec n 0) as [->|H]; [cbn; lia|].
  apply N.log2_spec. lia.
Qed.

Theorem min_bytes_be_bytes n : min_bytes n = be_bytes n.
Proof.
  unfold min_bytes, be_bytes. rewrite be_fuel_le, app_nil_r. f_equal.
  (* both have enough fuel: compare each with the fuel [size n] *)
  rewrite (le_bytes_fuel (N.to_nat (N.size n)) (S (N.to_nat (N.size n))) n (size_bound n)) by lia.
  destruct (N.eqb_spec n 0) as [->|H0]; [reflexivity|].
  assert (Hs : N.size n = N.succ (N.log2 n)) by (apply N.size_log2; exact H0).
  rewrite Hs, N2Nat.inj_succ. reflexivity.
Qed.

Theorem s_mpi_AppendMPI n : lenN (be_bytes n) < 4294967296 -> s_mpi n = AppendMPI [] n.
Proof. intros H. unfold s_mpi, AppendMPI. rewrite min_bytes_be_bytes. apply s_data_AppendData. exact H. Qed.

(* the MPI of the specification reads back as the number it was made from *)
Theorem s_mpi_value n : be_val (min_bytes n) = n.
Proof. rewrite min_bytes_be_bytes. apply be_val_be_bytes. Qed.

(* the signed part of a data message is what the mirror of dataMsg.serializeUnsigned produces *)
Theorem data_body_eq_mirror flags sk rk y ctr8 enc :
  lenN (be_bytes y) < 4294967296 -> lenN enc < 4294967296 ->
  data_body flags sk rk y ctr8 enc =
  dataMsg_serUnsigned {| dm_flag := flags mod 256; dm_sender := sk; dm_recipient := rk; dm_y := y; dm_ctr := ctr8;
                         dm_enc := enc; dm_auth := []; dm_oldmac := []; dm_cache := [] |}.
Proof.
  intros Hy He. unfold data_body, dataMsg_serUnsigned. cbn [dm_flag dm_sender dm_recipient dm_y dm_ctr dm_enc].
  unfold AppendData at 1. unfold AppendWord at 1. unfold u32. rewrite (N.mod_small (lenN enc)) by exact He.
  unfold AppendMPI, AppendData, AppendWord, u32. rewrite (N.mod_small (lenN (be_bytes y))) by exact Hy.
  unfold s_mpi, s_data. rewrite min_bytes_be_bytes, !s_int_ser_word.
  unfold s_byte. cbn [be]. change (256 ^ N.of_nat 0) with 1. rewrite N.div_1_r.
  rewrite <- !app_assoc. reflexivity.
Qed.
