(* Go semantics kit: bytes, fixed-width words, result monad.
   Bytes are [list N] with every element < 256 ([wfb]).  Words are encoded with
   [/] and [mod] by powers of 256 (never shifts) so that [lia] closes codec goals. *)
From Coq Require Export List NArith ZArith Lia Bool.
From Coq Require Import ZifyBool ZifyN ZifyNat.
Export ListNotations.
Open Scope N_scope.

Ltac Zify.zify_post_hook ::= Z.div_mod_to_equations.

(* keep [simpl]/[cbn] from unfolding binary arithmetic on big constants *)
Global Arguments N.div : simpl never.
Global Arguments N.modulo : simpl never.
Global Arguments N.mul : simpl never.
Global Arguments N.add : simpl never.
Global Arguments N.sub : simpl never.
Global Arguments N.pow : simpl never.
Global Arguments N.ltb : simpl never.
Global Arguments N.leb : simpl never.
Global Arguments N.eqb : simpl never.
Global Arguments N.of_nat : simpl never.
Global Arguments N.to_nat : simpl never.
Global Arguments N.log2 : simpl never.

Definition bytes := list N.
Definition wfb (b : bytes) : Prop := Forall (fun x => x < 256) b.

(* outcome of a Go call that may return an error or panic *)
Inductive R (A : Type) : Type :=
| Ok (a : A)
| Err (e : N)
| Panic.
Arguments Ok {A} a.
Arguments Err {A} e.
Arguments Panic {A}.

Definition bindR {A B} (r : R A) (f : A -> R B) : R B :=
  match r with Ok a => f a | Err e => Err e | Panic => Panic end.
Notation "'do' x <- r ; k" := (bindR r (fun x => k)) (at level 200, x pattern, r at level 100, k at level 200).

Definition is_panic {A} (r : R A) : bool := match r with Panic => true | _ => false end.
Definition is_ok {A} (r : R A) : bool := match r with Ok _ => true | _ => false end.

(* ---- list helpers ---- *)
Definition lenN {A} (l : list A) : N := N.of_nat (length l).

Fixpoint list_eqb {A} (eqb : A -> A -> bool) (a b : list A) : bool :=
  match a, b with
  | [], [] => true
  | x :: a', y :: b' => eqb x y && list_eqb eqb a' b'
  | _, _ => false
  end.
Definition bytes_eqb := list_eqb N.eqb.

Lemma list_eqb_spec {A} (eqb : A -> A -> bool) :
  (forall x y, eqb x y = true <-> x = y) ->
  forall a b, list_eqb eqb a b = true <-> a = b.
Proof.
  intros H a; induction a as [|x a IH]; intros [|y b]; simpl; split; intros E;
    try reflexivity; try discriminate.
  - apply andb_true_iff in E as [E1 E2]. apply H in E1. apply IH in E2. congruence.
  - inversion E; subst. apply andb_true_iff; split; [apply H; reflexivity | apply IH; reflexivity].
Qed.

Lemma bytes_eqb_eq a b : bytes_eqb a b = true <-> a = b.
Proof. apply list_eqb_spec. intros; apply N.eqb_eq. Qed.

Lemma bytes_eqb_refl a : bytes_eqb a a = true.
Proof. apply bytes_eqb_eq; reflexivity. Qed.

Fixpoint is_prefix (p s : bytes) : bool :=
  match p, s with
  | [], _ => true
  | x :: p', y :: s' => N.eqb x y && is_prefix p' s'
  | _ :: _, [] => false
  end.

Lemma is_prefix_app p s : is_prefix p (p ++ s) = true.
Proof. induction p as [|x p IH]; simpl; [reflexivity|]. rewrite N.eqb_refl; exact IH. Qed.

Lemma is_prefix_spec p s : is_prefix p s = true <-> exists t, s = p ++ t.
Proof.
  revert s; induction p as [|x p IH]; intros s; simpl.
  - split; [intros _; exists s; reflexivity | reflexivity].
  - destruct s as [|y s]; [split; [discriminate | intros [t Ht]; discriminate]|].
    rewrite andb_true_iff, N.eqb_eq, IH. split.
    + intros [-> [t ->]]. exists t; reflexivity.
    + intros [t Ht]. inversion Ht; subst. split; [reflexivity | exists t; reflexivity].
Qed.

Lemma firstn_app_exact {A} (a b : list A) : firstn (length a) (a ++ b) = a.
Proof. induction a; simpl; congruence. Qed.
Lemma skipn_app_exact {A} (a b : list A) : skipn (length a) (a ++ b) = b.
Proof. induction a; simpl; congruence. Qed.

Lemma wfb_app a b : wfb (a ++ b) <-> wfb a /\ wfb b.
Proof. unfold wfb. apply Forall_app. Qed.
Lemma wfb_nil : wfb []. Proof. constructor. Qed.
Lemma wfb_cons x a : wfb (x :: a) <-> x < 256 /\ wfb a.
Proof. unfold wfb; split; intros H; [inversion H; auto | constructor; tauto]. Qed.
Lemma wfb_firstn n a : wfb a -> wfb (firstn n a).
Proof. unfold wfb; revert a; induction n; intros [|x a] H; simpl; try constructor;
  inversion H; subst; auto. Qed.
Lemma wfb_skipn n a : wfb a -> wfb (skipn n a).
Proof. unfold wfb; revert a; induction n; intros [|x a] H; simpl; auto.
  inversion H; subst; auto. Qed.

(* ---- fixed width words, big endian (Go: binary.BigEndian) ---- *)
Definition ser_short (n : N) : bytes := [n / 256 mod 256; n mod 256].
Definition ser_word (n : N) : bytes :=
  [n / 16777216 mod 256; n / 65536 mod 256; n / 256 mod 256; n mod 256].
Definition ser_long (n : N) : bytes :=
  ser_word (n / 4294967296 mod 4294967296) ++ ser_word (n mod 4294967296).

Definition de_short (a b : N) : N := a * 256 + b.
Definition de_word (a b c d : N) : N := a * 16777216 + b * 65536 + c * 256 + d.

Lemma ser_short_wf n : wfb (ser_short n).
Proof. unfold ser_short; repeat constructor; lia. Qed.
Lemma ser_word_wf n : wfb (ser_word n).
Proof. unfold ser_word; repeat constructor; lia. Qed.
Lemma ser_long_wf n : wfb (ser_long n).
Proof. unfold ser_long; apply wfb_app; split; apply ser_word_wf. Qed.

(* wraps written where Go wraps *)
Definition u8 (n : N) : N := n mod 256.
Definition u16 (n : N) : N := n mod 65536.
Definition u32 (n : N) : N := n mod 4294967296.
Definition u64 (n : N) : N := n mod 18446744073709551616.

(* big-endian natural number <-> bytes (Go: big.Int.Bytes / SetBytes) *)
Fixpoint be_val_acc (acc : N) (b : bytes) : N :=
  match b with [] => acc | x :: b' => be_val_acc (acc * 256 + x) b' end.
Definition be_val (b : bytes) : N := be_val_acc 0 b.

(* minimal big-endian representation; [fuel] = number of digits bound *)
Fixpoint be_bytes_fuel (fuel : nat) (n : N) (acc : bytes) : bytes :=
  match fuel with
  | O => acc
  | S f => if N.eqb n 0 then acc else be_bytes_fuel f (n / 256) (n mod 256 :: acc)
  end.
Definition be_bytes (n : N) : bytes := be_bytes_fuel (S (N.to_nat (N.log2 n))) n [].

Fixpoint strip0 (b : bytes) : bytes :=
  match b with 0 :: b' => strip0 b' | _ => b end.
