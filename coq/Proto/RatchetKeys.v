(* C04, the values: over two FIFO queues every text passed to Send comes out of the peer's Receive exactly once,
   unchanged and in order - for EVERY interleaving of sends and deliveries, any number of messages in flight and any
   number of key rotations on either side.

   Proto/Ratchet.v settles the key IDS (every message is inside the receiver's window when it arrives).  This file
   works on the real key contexts of Proto/Keys.v (genDataMsg / recvDataMsg: key lookup by id, session keys from the
   exponents, MAC check, per-pair counters, the two rotations) and carries three more things through every schedule:
     - the keys behind equal ids are equal (what the receiver will know of the sender's keys when each queued message
       arrives is what the sender used; the receiver's own key a message names is still held when it arrives);
     - the counters: per key pair, queued messages carry increasing counters, all above what the receiver recorded,
       all below what the sender uses next; pairs nobody has sent with yet have no recorded counter;
     - the bookkeeping sent = received ++ in flight.
   The only condition on the schedule is that a freshly drawn exponent is not one of the peer's exponents
   ([cev_ok]: A draws even numbers, B odd ones; a collision has probability 2^-320 in the implementation). *)
From OTR Require Import Go.Base Proto.SmpTypes Proto.Keys Proto.KeysProofs Proto.Ratchet.
Open Scope N_scope.

(* our key with a given id, the peer's key with a given id, as a key context knows them *)
Definition key_at (k : keyctx) (id : N) : option eid :=
  if id =? ourKeyID k then ourCurrent k else if id + 1 =? ourKeyID k then ourPrevious k else None.
Definition peer_at (k : keyctx) (id : N) : option eid :=
  if id =? theirKeyID k then theirCurrent k else if id + 1 =? theirKeyID k then theirPrevious k else None.

(* a message as genDataMsg builds it from exponent es (sender's key af_sk) and et (the sender's copy of the
   receiver's key af_rk) *)
Definition genuine (d : sdata) (es et : eid) : Prop :=
  d_wellformed d = true /\ d_mac_intact d = true /\ d_enc_intact d = true /\ d_macenc_intact d = true /\
  d_macover d = d_fields d /\ d_mackey d = sendingKey (calcSessionKeys es et) /\
  af_enckey (d_fields d) = sendingKey (calcSessionKeys es et) /\ af_encctr (d_fields d) = af_ctr (d_fields d).

Lemma sessionKeysFor_at k o t eo et : o <> 0 -> t <> 0 -> key_at k o = Some eo -> peer_at k t = Some et ->
  sessionKeysFor k o t = Ok (calcSessionKeys eo et).
Proof.
  unfold key_at, peer_at, sessionKeysFor, pickOurKeys, pickTheirKey. intros Ho Ht Hk Hp.
  destruct (N.eqb_spec o 0); [contradiction|]. cbn [orb].
  destruct (N.eqb_spec (ourKeyID k) 0) as [E0|E0].
  { rewrite E0 in Hk. destruct (N.eqb_spec o 0); [contradiction|]. destruct (N.eqb_spec (o + 1) 0); [lia|discriminate]. }
  destruct (N.eqb_spec o (ourKeyID k)) as [E1|E1].
  - rewrite Hk. cbn [bindR].
    destruct (N.eqb_spec t 0); [contradiction|]. cbn [orb].
    destruct (N.eqb_spec (theirKeyID k) 0) as [F0|F0].
    { rewrite F0 in Hp. destruct (N.eqb_spec t 0); [contradiction|]. destruct (N.eqb_spec (t + 1) 0); [lia|discriminate]. }
    destruct (N.eqb_spec t (theirKeyID k)) as [F1|F1]; [rewrite Hp; reflexivity|].
    destruct (N.eqb_spec (t + 1) (theirKeyID k)) as [F2|F2]; [|discriminate].
    assert (Et : t = theirKeyID k - 1) by lia. rewrite <- Et, N.eqb_refl, Hp. reflexivity.
  - destruct (N.eqb_spec (o + 1) (ourKeyID k)) as [E2|E2]; [|discriminate].
    assert (Eo : o = ourKeyID k - 1) by lia. rewrite <- Eo, N.eqb_refl, Hk. cbn [bindR].
    destruct (N.eqb_spec t 0); [contradiction|]. cbn [orb].
    destruct (N.eqb_spec (theirKeyID k) 0) as [F0|F0].
    { rewrite F0 in Hp. destruct (N.eqb_spec t 0); [contradiction|]. destruct (N.eqb_spec (t + 1) 0); [lia|discriminate]. }
    destruct (N.eqb_spec t (theirKeyID k)) as [F1|F1]; [rewrite Hp; reflexivity|].
    destruct (N.eqb_spec (t + 1) (theirKeyID k)) as [F2|F2]; [|discriminate].
    assert (Et : t = theirKeyID k - 1) by lia. rewrite <- Et, N.eqb_refl, Hp. reflexivity.
Qed.

(* the receiving key of one end is the sending key of the other *)
Lemma mirror_recv_send a b : a <> b -> receivingKey (calcSessionKeys a b) = sendingKey (calcSessionKeys b a).
Proof. intros H. destruct (session_keys_mirror a b H) as [_ [H2 _]]. exact H2. Qed.

Lemma authfields_eqb_refl a : authfields_eqb a a = true.
Proof. apply authfields_eqb_eq. reflexivity. Qed.

(* a genuine message whose key ids the receiver can resolve to the right exponents and whose counter is above the
   recorded one is accepted and read *)
Lemma recv_genuine k d x es et :
  genuine d es et ->
  af_rk (d_fields d) <> 0 -> af_sk (d_fields d) <> 0 ->
  key_at k (af_rk (d_fields d)) = Some et -> peer_at k (af_sk (d_fields d)) = Some es -> es <> et ->
  ctr_of (counters k) (af_rk (d_fields d)) (af_sk (d_fields d)) < af_ctr (d_fields d) ->
  exists k', recvDataMsg k d x = Ok (d_payload d, k', extraKey (calcSessionKeys et es)).
Proof.
  intros [Hw [Hm [He [Hme [Hov [Hmk [Hek Hec]]]]]]] Hrk Hsk Hk Hp Hne Hc.
  unfold recvDataMsg. rewrite Hw. cbn [negb].
  rewrite (sessionKeysFor_at k _ _ et es Hrk Hsk Hk Hp). cbn [bindR].
  assert (Hmv : mac_valid d (receivingKey (calcSessionKeys et es)) = true).
  { unfold mac_valid. rewrite Hm, Hmk, Hov, Hme, He, authfields_eqb_refl. rewrite (mirror_recv_send et es) by congruence.
    rewrite skey_eqb_refl. reflexivity. }
  rewrite Hmv. cbn [negb].
  destruct (checkMessageCounter_spec k (af_rk (d_fields d)) (af_sk (d_fields d)) (af_ctr (d_fields d))) as [_ S2].
  destruct (S2 Hc) as [k1 [E1 _]]. rewrite E1. cbn [bindR].
  rewrite Hek, Hec, He. rewrite (mirror_recv_send et es) by congruence. rewrite skey_eqb_refl, N.eqb_refl. cbn [andb].
  eexists. reflexivity.
Qed.

(* ---------- counters, entry by entry ---------- *)
Definition tentry (k : keyctx) (o t v : N) : Prop :=
  exists c, In c (counters k) /\ kc_our c = o /\ kc_their c = t /\ kc_theirCtr c = v.
Definition octr_of (cs : list keyPairCounter) (o t : N) : N :=
  match find_counter cs o t with Some c => kc_ourCtr c | None => 0 end.
(* the counter the next message to the current key pair carries *)
Definition nextctr (k : keyctx) : N :=
  let c := octr_of (counters k) (ourKeyID k - 1) (theirKeyID k) in if c =? 0 then 1 else c.

Lemma nextctr_pos k : 1 <= nextctr k.
Proof. unfold nextctr. destruct (N.eqb_spec (octr_of (counters k) (ourKeyID k - 1) (theirKeyID k)) 0); lia. Qed.

Lemma find_counter_in cs o t c : find_counter cs o t = Some c -> In c cs /\ kc_our c = o /\ kc_their c = t.
Proof.
  unfold find_counter. intros H. apply find_some in H as [H1 H2].
  apply andb_true_iff in H2 as [E1 E2]. apply N.eqb_eq in E1. apply N.eqb_eq in E2. auto.
Qed.

Lemma ctr_of_tentry k o t : ctr_of (counters k) o t = 0 \/ tentry k o t (ctr_of (counters k) o t).
Proof.
  unfold ctr_of. destruct (find_counter (counters k) o t) as [c|] eqn:E; [|left; reflexivity].
  right. destruct (find_counter_in _ _ _ _ E) as [H1 [H2 H3]]. exists c. auto.
Qed.

Lemma in_update_counter' cs o t g c : In c (update_counter cs o t g) ->
  In c cs \/ exists c0, In c0 cs /\ kc_our c0 = o /\ kc_their c0 = t /\ c = g c0.
Proof.
  induction cs as [|x cs IH]; cbn; [tauto|].
  destruct ((kc_our x =? o) && (kc_their x =? t)) eqn:E; cbn.
  - apply andb_true_iff in E as [E1 E2]. apply N.eqb_eq in E1. apply N.eqb_eq in E2.
    intros [<-|H]; [right; exists x; auto | left; auto].
  - intros [<-|H]; [left; auto|]. destruct (IH H) as [H0|[c0 [H0 H1]]]; [left; auto | right; exists c0; auto].
Qed.

Lemma in_ensure_counter cs o t c : In c (ensure_counter cs o t) ->
  In c cs \/ c = {| kc_our := o; kc_their := t; kc_ourCtr := 0; kc_theirCtr := 0 |}.
Proof.
  unfold ensure_counter. destruct (find_counter cs o t); [auto|].
  intros H. apply in_app_or in H as [H|[<-|[]]]; auto.
Qed.

Lemma octr_of_ensure cs o t o' t' : octr_of (ensure_counter cs o t) o' t' = octr_of cs o' t'.
Proof.
  unfold octr_of, ensure_counter. destruct (find_counter cs o t) eqn:E; [reflexivity|].
  destruct (N.eq_dec o o') as [<-|Ho]; [destruct (N.eq_dec t t') as [<-|Ht]|].
  - rewrite find_counter_app_new by (auto). rewrite E. reflexivity.
  - rewrite find_counter_app_other by (cbn; auto). reflexivity.
  - rewrite find_counter_app_other by (cbn; auto). reflexivity.
Qed.

(* ---------- what an accepted message does to the receiver's keys and counters ---------- *)
Record keys_same (k k' : keyctx) : Prop := {
  ks_our : ourKeyID k' = ourKeyID k; ks_their : theirKeyID k' = theirKeyID k;
  ks_oc : ourCurrent k' = ourCurrent k; ks_op : ourPrevious k' = ourPrevious k;
  ks_tc : theirCurrent k' = theirCurrent k; ks_tp : theirPrevious k' = theirPrevious k }.

Lemma keys_same_addKeys k o t key : keys_same k (addKeys k o t key).
Proof. unfold addKeys. destruct (has_mac_entry _ _ _); constructor; reflexivity. Qed.

Lemma recv_effect k d x pl k' xk : recvDataMsg k d x = Ok (pl, k', xk) ->
  let f := d_fields d in
  ourCurrent k' = (if af_rk f =? ourKeyID k then Some x else ourCurrent k) /\
  ourPrevious k' = (if af_rk f =? ourKeyID k then ourCurrent k else ourPrevious k) /\
  theirCurrent k' = (if af_sk f =? theirKeyID k then Some (af_y f) else theirCurrent k) /\
  theirPrevious k' = (if af_sk f =? theirKeyID k then theirCurrent k else theirPrevious k) /\
  (forall o t v, tentry k' o t v -> tentry k o t v \/ (o = af_rk f /\ t = af_sk f /\ v = af_ctr f) \/ v = 0) /\
  (af_rk f <> ourKeyID k -> af_sk f <> theirKeyID k ->
   forall o t, octr_of (counters k') o t = octr_of (counters k) o t).
Proof.
  unfold recvDataMsg. destruct (negb (d_wellformed d)); [discriminate|].
  set (f := d_fields d).
  destruct (sessionKeysFor k (af_rk f) (af_sk f)) as [keys| |] eqn:Ek; cbn [bindR]; try discriminate.
  destruct (negb (mac_valid d (receivingKey keys))); [discriminate|].
  destruct (checkMessageCounter k (af_rk f) (af_sk f) (af_ctr f)) as [k1| |] eqn:Ec; cbn [bindR]; try discriminate.
  destruct (_ && _); [|discriminate]. intros H. injection H as _ <- _.
  cbv zeta.
  set (k2 := addKeys k1 (af_rk f) (af_sk f) (receivingKey keys)).
  (* k1 *)
  unfold checkMessageCounter in Ec.
  destruct (find_counter (ensure_counter (counters k) (af_rk f) (af_sk f)) (af_rk f) (af_sk f)) as [c0|] eqn:Ef; [|discriminate].
  destruct (af_ctr f <=? kc_theirCtr c0); [discriminate|]. injection Ec as Ek1.
  set (g := fun c : keyPairCounter => {| kc_our := kc_our c; kc_their := kc_their c; kc_ourCtr := kc_ourCtr c; kc_theirCtr := af_ctr f |}) in Ek1.
  assert (K : keeps_ids g) by (intros c; cbn; auto).
  destruct (keys_same_addKeys k1 (af_rk f) (af_sk f) (receivingKey keys)) as [A1 A2 A3 A4 A5 A6]. fold k2 in A1, A2, A3, A4, A5, A6.
  assert (B1 : ourKeyID k1 = ourKeyID k) by (rewrite <- Ek1; reflexivity).
  assert (B2 : theirKeyID k1 = theirKeyID k) by (rewrite <- Ek1; reflexivity).
  assert (B3 : ourCurrent k1 = ourCurrent k) by (rewrite <- Ek1; reflexivity).
  assert (B4 : ourPrevious k1 = ourPrevious k) by (rewrite <- Ek1; reflexivity).
  assert (B5 : theirCurrent k1 = theirCurrent k) by (rewrite <- Ek1; reflexivity).
  assert (B6 : theirPrevious k1 = theirPrevious k) by (rewrite <- Ek1; reflexivity).
  assert (C2 : counters k2 = update_counter (ensure_counter (counters k) (af_rk f) (af_sk f)) (af_rk f) (af_sk f) g).
  { unfold k2. rewrite counters_addKeys, <- Ek1. reflexivity. }
  set (k3 := rotateOurKeys k2 (af_rk f) x).
  assert (R3 : ourKeyID k3 = (if af_rk f =? ourKeyID k then ourKeyID k + 1 else ourKeyID k) /\ theirKeyID k3 = theirKeyID k /\
               ourCurrent k3 = (if af_rk f =? ourKeyID k then Some x else ourCurrent k) /\
               ourPrevious k3 = (if af_rk f =? ourKeyID k then ourCurrent k else ourPrevious k) /\
               theirCurrent k3 = theirCurrent k /\ theirPrevious k3 = theirPrevious k /\
               (forall c, In c (counters k3) -> In c (counters k2)) /\
               (af_rk f <> ourKeyID k -> counters k3 = counters k2)).
  { unfold k3, rotateOurKeys. rewrite A1, B1. destruct (N.eqb_spec (af_rk f) (ourKeyID k)) as [E|E].
    - destruct (forgetMACKeys _ _) as [ks h']. cbn. rewrite ?A1, ?A2, ?A3, ?A4, ?A5, ?A6, ?B1, ?B2, ?B3, ?B4, ?B5, ?B6.
      repeat split; auto. + intros c Hc. apply filter_In in Hc as [Hc _]. exact Hc. + intros; contradiction.
    - rewrite ?A1, ?A2, ?A3, ?A4, ?A5, ?A6, ?B1, ?B2, ?B3, ?B4, ?B5, ?B6. repeat split; auto. }
  destruct R3 as [R31 [R32 [R33 [R34 [R35 [R36 [R37 R38]]]]]]].
  assert (R4 : ourCurrent (rotateTheirKey k3 (af_sk f) (af_y f)) = ourCurrent k3 /\
               ourPrevious (rotateTheirKey k3 (af_sk f) (af_y f)) = ourPrevious k3 /\
               theirCurrent (rotateTheirKey k3 (af_sk f) (af_y f)) = (if af_sk f =? theirKeyID k then Some (af_y f) else theirCurrent k) /\
               theirPrevious (rotateTheirKey k3 (af_sk f) (af_y f)) = (if af_sk f =? theirKeyID k then theirCurrent k else theirPrevious k) /\
               (forall c, In c (counters (rotateTheirKey k3 (af_sk f) (af_y f))) -> In c (counters k3)) /\
               (af_sk f <> theirKeyID k -> counters (rotateTheirKey k3 (af_sk f) (af_y f)) = counters k3)).
  { unfold rotateTheirKey. rewrite R32. destruct (N.eqb_spec (af_sk f) (theirKeyID k)) as [E|E].
    - destruct (forgetMACKeys _ _) as [ks h']. cbn. rewrite ?R35, ?R36.
      repeat split; auto. + intros c Hc. apply filter_In in Hc as [Hc _]. exact Hc. + intros; contradiction.
    - rewrite ?R35, ?R36. repeat split; auto. }
  destruct R4 as [R41 [R42 [R43 [R44 [R45 R46]]]]].
  rewrite R41, R42, R43, R44, R33, R34.
  repeat split; try reflexivity.
  - intros o t v [c [Hc [Ho [Ht Hv]]]]. apply R45, R37 in Hc. rewrite C2 in Hc.
    apply in_update_counter' in Hc as [Hc|[c1 [Hc [H1 [H2 H3]]]]].
    + apply in_ensure_counter in Hc as [Hc|Hc].
      * left. exists c. auto.
      * right; right. rewrite Hc in Hv. cbn in Hv. auto.
    + right; left. subst c. cbn in *. repeat split; congruence.
  - intros N1 N2 o t. rewrite (R46 N2), (R38 N1), C2. unfold octr_of.
    destruct (N.eq_dec o (af_rk f)) as [->|Ho]; [destruct (N.eq_dec t (af_sk f)) as [->|Ht]|].
    + rewrite (find_update_same _ _ _ _ c0 K Ef).
      change (kc_ourCtr c0 = octr_of (counters k) (af_rk f) (af_sk f)).
      rewrite <- (octr_of_ensure (counters k) (af_rk f) (af_sk f) (af_rk f) (af_sk f)). unfold octr_of. rewrite Ef. reflexivity.
    + rewrite (find_update_other _ _ _ _ _ _ K) by auto. apply (octr_of_ensure (counters k) (af_rk f) (af_sk f)).
    + rewrite (find_update_other _ _ _ _ _ _ K) by auto. apply (octr_of_ensure (counters k) (af_rk f) (af_sk f)).
Qed.

Lemma key_at_prev k p : 1 <= ourKeyID k -> ourPrevious k = Some p -> key_at k (ourKeyID k - 1) = Some p.
Proof.
  intros H Hp. unfold key_at. destruct (N.eqb_spec (ourKeyID k - 1) (ourKeyID k)); [lia|].
  destruct (N.eqb_spec (ourKeyID k - 1 + 1) (ourKeyID k)); [exact Hp | lia].
Qed.
Lemma peer_at_cur k e : theirCurrent k = Some e -> peer_at k (theirKeyID k) = Some e.
Proof. intros H. unfold peer_at. rewrite N.eqb_refl. exact H. Qed.

(* sending with both own keys and the peer's current key in place always succeeds *)
Lemma gen_ok k h flag pl p c e : 2 <= ourKeyID k -> 1 <= theirKeyID k ->
  ourPrevious k = Some p -> ourCurrent k = Some c -> theirCurrent k = Some e ->
  exists d k', genDataMsg k h flag pl = Ok (d, k', extraKey (calcSessionKeys p e)) /\
    genuine d p e /\ d_payload d = pl /\
    af_sk (d_fields d) = ourKeyID k - 1 /\ af_rk (d_fields d) = theirKeyID k /\ af_y (d_fields d) = c /\
    af_ctr (d_fields d) = nextctr k /\ nextctr k' = nextctr k + 1 /\ keys_same k k' /\
    (forall o t v, tentry k' o t v -> tentry k o t v \/ v = 0).
Proof.
  intros Ho Ht Hp Hc He. unfold genDataMsg.
  assert (SK : sessionKeysFor k (ourKeyID k - 1) (theirKeyID k) = Ok (calcSessionKeys p e)).
  { apply sessionKeysFor_at; [lia | lia | apply key_at_prev; [lia|exact Hp] | apply peer_at_cur; exact He]. }
  rewrite SK.
  cbn [bindR].
  set (keys := calcSessionKeys p e).
  set (o := ourKeyID k - 1). set (t := theirKeyID k).
  set (k1 := addKeys k o t (receivingKey keys)).
  destruct (keys_same_addKeys k o t (receivingKey keys)) as [A1 A2 A3 A4 A5 A6]. fold k1 in A1, A2, A3, A4, A5, A6.
  assert (C1 : counters k1 = counters k) by apply counters_addKeys.
  rewrite C1.
  destruct (find_counter_ensure (counters k) o t) as [c0 Ef]. rewrite Ef.
  set (ctr := if kc_ourCtr c0 =? 0 then 1 else kc_ourCtr c0).
  set (g := fun c1 : keyPairCounter => {| kc_our := kc_our c1; kc_their := kc_their c1; kc_ourCtr := ctr + 1; kc_theirCtr := kc_theirCtr c1 |}).
  assert (K : keeps_ids g) by (intros c1; cbn; auto).
  cbn [ourCurrent set_counters]. rewrite A3, Hc. cbn [revealMACKeys].
  assert (Hn : nextctr k = ctr).
  { unfold nextctr, ctr. fold o t. rewrite <- (octr_of_ensure (counters k) o t o t). unfold octr_of. rewrite Ef. reflexivity. }
  assert (Hcp : 1 <= ctr) by (unfold ctr; destruct (N.eqb_spec (kc_ourCtr c0) 0); lia).
  eexists. eexists. split; [reflexivity|].
  cbn [d_fields d_payload af_sk af_rk af_y af_ctr].
  repeat split; try reflexivity; cbn; auto.
  - unfold nextctr in Hn. fold o t in Hn. unfold nextctr. cbn [counters set_oldMACKeys set_counters ourKeyID theirKeyID]. rewrite ?A1, ?A2. fold o t.
    rewrite Hn.
    assert (E : octr_of (update_counter (ensure_counter (counters k) o t) o t g) o t = ctr + 1).
    { unfold octr_of. rewrite (find_update_same _ _ _ _ c0 K Ef). reflexivity. }
    rewrite E. destruct (N.eqb_spec (ctr + 1) 0); lia.
  - intros o' t' v [c1 [H1 [H2 [H3 H4]]]]. cbn [counters set_oldMACKeys set_counters] in H1.
    apply in_update_counter' in H1 as [H1|[c2 [H1 [E1 [E2 E3]]]]].
    + apply in_ensure_counter in H1 as [H1|H1].
      * left. exists c1. auto.
      * right. rewrite H1 in H4. cbn in H4. auto.
    + apply in_ensure_counter in H1 as [H1|H1].
      * left. exists c2. subst c1. cbn in *. auto.
      * right. subst c1 c2. cbn in H4. auto.
Qed.

(* whose exponent: the two parties draw from disjoint sets (a collision of a fresh exponent with one of the
   peer's is the only thing the schedule must exclude; it has probability 2^-320) *)
Definition own (sd : bool) (e : eid) : Prop := N.even e = sd.
Lemma own_disjoint sd e e' : own sd e -> own (negb sd) e' -> e <> e'.
Proof. unfold own. intros H1 H2 ->. rewrite H1 in H2. destruct sd; discriminate. Qed.

Notation sk d := (af_sk (d_fields d)).
Notation rk d := (af_rk (d_fields d)).
Notation yy d := (af_y (d_fields d)).
Notation cc d := (af_ctr (d_fields d)).

(* the receiver's knowledge of the sender's keys, now and after each queued message *)
Record pview := { pv_id : N; pv_cur : option eid; pv_prev : option eid }.
Definition pview_of (k : keyctx) : pview := {| pv_id := theirKeyID k; pv_cur := theirCurrent k; pv_prev := theirPrevious k |}.
Definition plookup (pv : pview) (id : N) : option eid :=
  if id =? pv_id pv then pv_cur pv else if id + 1 =? pv_id pv then pv_prev pv else None.
Definition pabsorb (pv : pview) (d : sdata) : pview :=
  if sk d =? pv_id pv then {| pv_id := pv_id pv + 1; pv_cur := Some (yy d); pv_prev := pv_cur pv |} else pv.
Fixpoint pfold (pv : pview) (q : list sdata) : pview :=
  match q with [] => pv | d :: r => pfold (pabsorb pv d) r end.

Lemma plookup_of k id : plookup (pview_of k) id = peer_at k id.
Proof. reflexivity. Qed.
Lemma pfold_app pv q d : pfold pv (q ++ [d]) = pabsorb (pfold pv q) d.
Proof. revert pv; induction q as [|h r IH]; intros pv; cbn; [reflexivity|apply IH]. Qed.
Lemma pfold_id pv x q : pv_id pv = their x -> pv_id (pfold pv q) = their (after x (map msg_of q)).
Proof.
  revert pv x; induction q as [|d r IH]; intros pv x H; cbn [pfold map after]; [exact H|].
  apply IH. unfold pabsorb, absorb, msg_of; cbn. rewrite H. destruct (sk d =? their x); cbn; lia.
Qed.

Definition head_ok (sd : bool) (kr : keyctx) (pv : pview) (d : sdata) : Prop :=
  exists es et, genuine d es et /\ own sd es /\ own (negb sd) et /\
                plookup pv (sk d) = Some es /\ key_at kr (rk d) = Some et.
Fixpoint qchain (sd : bool) (kr : keyctx) (pv : pview) (q : list sdata) : Prop :=
  match q with
  | [] => True
  | d :: r => head_ok sd kr pv d /\ qchain sd kr (pabsorb pv d) r
  end.
Lemma qchain_app sd kr pv q d : qchain sd kr pv (q ++ [d]) <-> qchain sd kr pv q /\ head_ok sd kr (pfold pv q) d.
Proof. revert pv; induction q as [|h r IH]; intros pv; cbn; [tauto|]. rewrite IH. tauto. Qed.

Definition same_pair (d d' : sdata) : Prop := sk d = sk d' /\ rk d = rk d'.
Fixpoint ctr_sorted (q : list sdata) : Prop :=
  match q with
  | [] => True
  | d :: r => Forall (fun d' => same_pair d d' -> cc d < cc d') r /\ ctr_sorted r
  end.
Lemma ctr_sorted_app q d : ctr_sorted (q ++ [d]) <-> ctr_sorted q /\ Forall (fun d0 => same_pair d0 d -> cc d0 < cc d) q.
Proof.
  induction q as [|h r IH]; cbn.
  - split; [intros _; split; [exact I|constructor] | intros _; split; [constructor|exact I]].
  - rewrite IH, Forall_app. split.
    + intros [[H1 H2] [H3 H4]]. inversion H2 as [|? ? H5 _]; subst. repeat split; auto.
    + intros [[H1 H2] H3]. inversion H3 as [|? ? H5 H6]; subst. repeat split; auto.
Qed.

Definition own_keys (sd : bool) (k : keyctx) : Prop :=
  exists p c, ourPrevious k = Some p /\ ourCurrent k = Some c /\ own sd p /\ own sd c.

(* one direction: sender state ks (exponents of parity sd), receiver state kr, queue q *)
Record vdir (sd : bool) (ks kr : keyctx) (q : list sdata) : Prop := {
  v_ids : dir_inv (side_of ks) (side_of kr) (map msg_of q);
  v_i2 : ourKeyID ks <= theirKeyID kr + 1;
  v_own : own_keys sd ks;
  v_peer : exists e, theirCurrent ks = Some e /\ key_at kr (theirKeyID ks) = Some e;
  v_chain : qchain sd kr (pview_of kr) q;
  v_final : let pf := pfold (pview_of kr) q in
            (pv_id pf = ourKeyID ks /\ pv_cur pf = ourCurrent ks /\ pv_prev pf = ourPrevious ks) \/
            (pv_id pf + 1 = ourKeyID ks /\ pv_cur pf = ourPrevious ks);
  v_y : Forall (fun d => sk d + 1 = ourKeyID ks -> ourCurrent ks = Some (yy d)) q;
  v_c0 : Forall (fun d => 1 <= cc d /\ 1 <= sk d) q;
  v_c1 : ctr_sorted q;
  v_c4 : Forall (fun d => sk d + 1 = ourKeyID ks -> rk d = theirKeyID ks -> cc d < nextctr ks) q;
  v_e2 : forall o t v, tentry kr o t v -> Forall (fun d => rk d = o -> sk d = t -> v < cc d) q;
  v_e5 : forall o t v, tentry kr o t v -> (ourKeyID ks <= t \/ theirKeyID ks < o) -> v = 0;
  v_e3 : forall o t v, tentry kr o t v -> o = theirKeyID ks -> t + 1 = ourKeyID ks -> v < nextctr ks
}.

Lemma key_at_own sd k id e : own_keys sd k -> key_at k id = Some e -> own sd e.
Proof.
  intros [p [c [Hp [Hc [Op Oc]]]]]. unfold key_at.
  destruct (id =? ourKeyID k); [rewrite Hc; intros H; injection H as <-; exact Oc|].
  destruct (id + 1 =? ourKeyID k); [rewrite Hp; intros H; injection H as <-; exact Op | discriminate].
Qed.

Lemma key_at_same k k' id : keys_same k k' -> key_at k' id = key_at k id.
Proof. intros [A1 A2 A3 A4 A5 A6]. unfold key_at. rewrite A1, A3, A4. reflexivity. Qed.
Lemma pview_same k k' : keys_same k k' -> pview_of k' = pview_of k.
Proof. intros [A1 A2 A3 A4 A5 A6]. unfold pview_of. rewrite A2, A5, A6. reflexivity. Qed.
Lemma side_same k k' : keys_same k k' -> side_of k' = side_of k.
Proof. intros [A1 A2 A3 A4 A5 A6]. unfold side_of. rewrite A1, A2. reflexivity. Qed.
Lemma own_keys_same sd k k' : keys_same k k' -> own_keys sd k -> own_keys sd k'.
Proof. intros [A1 A2 A3 A4 A5 A6] [p [c H]]. exists p, c. rewrite A3, A4. exact H. Qed.

Lemma qchain_kr sd kr kr' pv q : (forall id, key_at kr' id = key_at kr id) -> qchain sd kr pv q -> qchain sd kr' pv q.
Proof.
  intros H. revert pv. induction q as [|d r IH]; intros pv; cbn; [auto|].
  intros [[es [et [G [O1 [O2 [L K]]]]]] C]. split; [|apply IH; exact C].
  exists es, et. rewrite H. auto.
Qed.

(* ---------- the sender sends ---------- *)
Lemma vdir_send sd ks kr q h flag pl : vdir sd ks kr q -> own_keys (negb sd) kr ->
  exists d ks' xk, genDataMsg ks h flag pl = Ok (d, ks', xk) /\ d_payload d = pl /\ keys_same ks ks' /\
    (forall o t v, tentry ks' o t v -> tentry ks o t v \/ v = 0) /\
    vdir sd ks' kr (q ++ [d]).
Proof.
  intros [Vi Vi2 Vo Vp Vc Vf Vy V0 V1 V4 E2 E5 E3] Okr.
  destruct Vo as [p [c [Hp [Hc [Op Oc]]]]]. destruct Vp as [e [He Hke]].
  pose proof Vi as Vi'. destruct Vi' as [Ds Dok [T1 T2] [O1 O2] [P1 [P2 [P3 P4]]]]. cbn [side_of our their] in *.
  destruct (gen_ok ks h flag pl p c e P2 P1 Hp Hc He) as [d [ks' [G [Gen [Gpl [Gsk [Grk [Gy [Gc [Gn [Gs Gt]]]]]]]]]]].
  exists d, ks', (extraKey (calcSessionKeys p e)). split; [exact G|]. split; [exact Gpl|]. split; [exact Gs|]. split; [exact Gt|].
  pose proof Gs as Gs'. destruct Gs' as [A1 A2 A3 A4 A5 A6].
  assert (Em : msg_of d = emit (side_of ks)).
  { unfold msg_of, emit, side_of; cbn. rewrite Gsk, Grk. reflexivity. }
  set (pf := pfold (pview_of kr) q) in *.
  assert (Pid : pv_id pf = their (after (side_of kr) (map msg_of q))) by (apply pfold_id; reflexivity).
  constructor.
  - rewrite (side_same _ _ Gs), map_app. cbn [map]. rewrite Em. apply dir_send. exact Vi.
  - rewrite A1. exact Vi2.
  - exists p, c. rewrite A3, A4. auto.
  - exists e. rewrite A5, A2. auto.
  - apply qchain_app. split; [exact Vc|]. fold pf.
    exists p, e. split; [exact Gen|]. split; [exact Op|]. split; [exact (key_at_own _ _ _ _ Okr Hke)|].
    split; [|rewrite Grk; exact Hke].
    unfold plookup. rewrite Gsk. destruct Vf as [[F1 [F2 F3]]|[F1 F2]].
    + destruct (N.eqb_spec (ourKeyID ks - 1) (pv_id pf)); [lia|].
      destruct (N.eqb_spec (ourKeyID ks - 1 + 1) (pv_id pf)); [congruence | lia].
    + destruct (N.eqb_spec (ourKeyID ks - 1) (pv_id pf)); [congruence | lia].
  - cbv zeta. rewrite pfold_app. fold pf. rewrite A1, A3, A4. unfold pabsorb. rewrite Gsk, Gy.
    destruct Vf as [[F1 [F2 F3]]|[F1 F2]].
    + destruct (N.eqb_spec (ourKeyID ks - 1) (pv_id pf)); [lia|]. left. auto.
    + destruct (N.eqb_spec (ourKeyID ks - 1) (pv_id pf)); [|lia]. left. cbn. repeat split; [lia | congruence | congruence].
  - apply Forall_app. split.
    + rewrite A1, A3. exact Vy.
    + constructor; [|constructor]. intros _. rewrite A3, Gy. exact Hc.
  - apply Forall_app. split; [exact V0|]. constructor; [|constructor]. rewrite Gc, Gsk. split; [apply nextctr_pos | lia].
  - apply ctr_sorted_app. split; [exact V1|].
    eapply Forall_impl; [|exact V4]. intros d0 H [S1 S2]. cbv beta in H. rewrite Gc. apply H; [rewrite S1, Gsk; lia | rewrite S2, Grk; reflexivity].
  - apply Forall_app. split.
    + eapply Forall_impl; [|exact V4]. intros d0 H. cbv beta in *. rewrite A1, A2, Gn. intros H1 H2. specialize (H H1 H2). lia.
    + constructor; [|constructor]. intros _ _. rewrite Gn, Gc. lia.
  - intros o t v Ht. apply Forall_app. split; [apply (E2 o t v Ht)|].
    constructor; [|constructor]. intros R1 R2. rewrite Gc. apply (E3 o t v Ht); [congruence | rewrite <- R2, Gsk; lia].
  - intros o t v Ht. rewrite A1, A2. apply (E5 o t v Ht).
  - intros o t v Ht H1 H2. rewrite A1, A2 in *. rewrite Gn. specialize (E3 o t v Ht H1 H2). lia.
Qed.

(* the receiver of a direction sends something (in the other direction): only its counters' send halves move *)
Lemma vdir_receiver_sends sd ks kr kr' q : vdir sd ks kr q -> keys_same kr kr' ->
  (forall o t v, tentry kr' o t v -> tentry kr o t v \/ v = 0) ->
  vdir sd ks kr' q.
Proof.
  intros [Vi Vi2 Vo Vp Vc Vf Vy V0 V1 V4 E2 E5 E3] Ks Kt.
  pose proof Ks as [A1 A2 A3 A4 A5 A6].
  constructor; auto.
  - rewrite (side_same _ _ Ks). exact Vi.
  - rewrite A2. exact Vi2.
  - destruct Vp as [e [H1 H2]]. exists e. rewrite (key_at_same _ _ _ Ks). auto.
  - rewrite (pview_same _ _ Ks). apply (qchain_kr sd kr); [intros; apply key_at_same; exact Ks | exact Vc].
  - rewrite (pview_same _ _ Ks). exact Vf.
  - intros o t v Ht. destruct (Kt o t v Ht) as [H| ->]; [apply (E2 o t v H)|].
    eapply Forall_impl; [|exact V0]. intros d H _ _. cbv beta in H. lia.
  - intros o t v Ht Hd. destruct (Kt o t v Ht) as [H| ->]; [apply (E5 o t v H Hd) | reflexivity].
  - intros o t v Ht H1 H2. destruct (Kt o t v Ht) as [H| ->]; [apply (E3 o t v H H1 H2)|].
    pose proof (nextctr_pos ks). lia.
Qed.

Lemma key_at_window k id e : key_at k id = Some e -> id = ourKeyID k \/ id + 1 = ourKeyID k.
Proof.
  unfold key_at. destruct (N.eqb_spec id (ourKeyID k)); [auto|].
  destruct (N.eqb_spec (id + 1) (ourKeyID k)); [auto | discriminate].
Qed.

(* our own keys keep their ids and values through an accepted message, for every id not older than the one named *)
Lemma key_at_stable k d x pl k' xk id e : recvDataMsg k d x = Ok (pl, k', xk) ->
  key_at k id = Some e -> rk d <= id -> key_at k' id = Some e.
Proof.
  intros H Hk Hle. destruct (recv_effect _ _ _ _ _ _ H) as [E1 [E2 _]].
  destruct (recv_is_absorb _ _ _ _ _ _ H) as [_ Ha].
  assert (Ho : ourKeyID k' = if rk d =? ourKeyID k then ourKeyID k + 1 else ourKeyID k).
  { change (our (side_of k') = if rk d =? ourKeyID k then ourKeyID k + 1 else ourKeyID k). rewrite Ha. reflexivity. }
  cbv zeta in E1, E2. destruct (key_at_window _ _ _ Hk) as [W|W]; unfold key_at in *; rewrite Ho, E1, E2.
  - subst id. rewrite N.eqb_refl in Hk. destruct (N.eqb_spec (rk d) (ourKeyID k)).
    + destruct (N.eqb_spec (ourKeyID k) (ourKeyID k + 1)); [lia|]. rewrite N.eqb_refl. exact Hk.
    + rewrite N.eqb_refl. exact Hk.
  - destruct (N.eqb_spec (rk d) (ourKeyID k)); [lia|]. exact Hk.
Qed.

Lemma qchain_kr' sd kr kr' pv q :
  (forall d' e, In d' q -> key_at kr (rk d') = Some e -> key_at kr' (rk d') = Some e) ->
  qchain sd kr pv q -> qchain sd kr' pv q.
Proof.
  revert pv. induction q as [|d r IH]; intros pv H; cbn; [auto|].
  intros [[es [et [G [O1 [O2 [L K]]]]]] C]. split; [|apply IH; [intros; apply H; [right|]; assumption | exact C]].
  exists es, et. split; [exact G|]. split; [exact O1|]. split; [exact O2|]. split; [exact L|]. apply H; [left; reflexivity | exact K].
Qed.

Lemma all_in_window_lb q : forall x, all_in_window x q -> Forall (fun m => our x <= m_rk m + 1) q.
Proof.
  induction q as [|m r IH]; intros x; cbn; [constructor|].
  intros [[W _] H]. constructor; [destruct W; lia|].
  specialize (IH _ H). destruct (absorb_mono x m) as [Mo _].
  eapply Forall_impl; [|exact IH]. intros a Ha. cbv beta in *. lia.
Qed.

Lemma pview_recv k d x pl k' xk : recvDataMsg k d x = Ok (pl, k', xk) -> pview_of k' = pabsorb (pview_of k) d.
Proof.
  intros H. destruct (recv_effect _ _ _ _ _ _ H) as [_ [_ [E3 [E4 _]]]]. cbv zeta in E3, E4.
  destruct (recv_is_absorb _ _ _ _ _ _ H) as [_ Ha].
  assert (Ht : theirKeyID k' = if sk d =? theirKeyID k then theirKeyID k + 1 else theirKeyID k).
  { change (their (side_of k') = if sk d =? theirKeyID k then theirKeyID k + 1 else theirKeyID k). rewrite Ha. reflexivity. }
  unfold pview_of, pabsorb. cbn [pv_id pv_cur pv_prev]. rewrite Ht, E3, E4.
  destruct (sk d =? theirKeyID k); reflexivity.
Qed.

(* ---------- the receiver takes the head of the queue: it is accepted, and the invariant holds for the rest ---------- *)
Lemma vdir_recv sd ks kr d q x : vdir sd ks kr (d :: q) ->
  exists kr' xk, recvDataMsg kr d x = Ok (d_payload d, kr', xk) /\ vdir sd ks kr' q.
Proof.
  intros [Vi Vi2 Vo Vp Vc Vf Vy V0 V1 V4 E2 E5 E3].
  cbn [map] in Vi. destruct (head_sent _ _ _ _ Vi) as [Hs1 Hs2]. destruct (dir_recv _ _ _ _ Vi) as [Hw Vi'].
  cbn [msg_of m_sk m_rk side_of our their] in Hs1, Hs2.
  pose proof Vi as [_ _ _ _ [P1 [P2 [P3 P4]]]]. cbn [side_of our their] in P1, P2, P3, P4.
  destruct Vc as [[es [et [G [O1 [O2 [L K]]]]]] Vc]. rewrite plookup_of in L.
  inversion V0 as [|? ? [C0 S0] V0']; subst.
  inversion Vy as [|? ? Y0 Vy']; subst. inversion V4 as [|? ? C4 V4']; subst. destruct V1 as [C1 V1'].
  assert (Hrk : rk d <> 0).
  { destruct Hw as [[W|W] _]; cbn [msg_of m_rk side_of our] in W; lia. }
  assert (Hc : ctr_of (counters kr) (rk d) (sk d) < cc d).
  { destruct (ctr_of_tentry kr (rk d) (sk d)) as [Z|T]; [lia|].
    specialize (E2 _ _ _ T). inversion E2 as [|? ? H0 _]; subst. apply H0; reflexivity. }
  destruct (recv_genuine kr d x es et G Hrk ltac:(lia) K L (own_disjoint _ _ _ O1 O2) Hc) as [kr' R].
  exists kr', (extraKey (calcSessionKeys et es)). split; [exact R|].
  destruct (recv_is_absorb _ _ _ _ _ _ R) as [_ Ha].
  destruct (recv_effect _ _ _ _ _ _ R) as [_ [_ [_ [_ [Et _]]]]].
  pose proof (pview_recv _ _ _ _ _ _ R) as Pv.
  destruct (absorb_mono (side_of kr) (msg_of d)) as [Mo Mt]. rewrite <- Ha in Mo, Mt. cbn [side_of our their] in Mo, Mt.
  assert (Lb : Forall (fun d' => rk d <= rk d') q).
  { pose proof Vi' as [_ Dok _ _ _]. apply all_in_window_lb in Dok.
    apply Forall_forall. intros d' Hin. rewrite Forall_forall in Dok. specialize (Dok (msg_of d') (in_map msg_of _ _ Hin)).
    cbn [msg_of m_rk] in Dok. unfold absorb in Dok. cbn [our msg_of m_rk side_of] in Dok.
    destruct Hw as [[W|W] _]; cbn [msg_of m_rk side_of our] in W.
    - rewrite W, N.eqb_refl in Dok. lia.
    - destruct (N.eqb_spec (rk d) (ourKeyID kr)); lia. }
  constructor.
  - rewrite Ha. exact Vi'.
  - lia.
  - exact Vo.
  - destruct Vp as [e [H1 H2]]. exists e. split; [exact H1|]. apply (key_at_stable _ _ _ _ _ _ _ _ R H2). exact Hs1.
  - rewrite Pv. apply (qchain_kr' sd kr); [|exact Vc].
    intros d' e Hin Hk. apply (key_at_stable _ _ _ _ _ _ _ _ R Hk). rewrite Forall_forall in Lb. apply Lb. exact Hin.
  - rewrite Pv. exact Vf.
  - exact Vy'.
  - exact V0'.
  - exact V1'.
  - exact V4'.
  - intros o t v Ht. destruct (Et o t v Ht) as [T|[[-> [-> ->]]| ->]].
    + specialize (E2 o t v T). inversion E2; subst; assumption.
    + eapply Forall_impl; [|exact C1]. intros d' H R1 R2. cbv beta in H. apply H. split; congruence.
    + eapply Forall_impl; [|exact V0']. intros d' H _ _. cbv beta in H. lia.
  - intros o t v Ht Hd. destruct (Et o t v Ht) as [T|[[-> [-> ->]]| ->]]; [apply (E5 o t v T Hd) | lia | reflexivity].
  - intros o t v Ht H1 H2. destruct (Et o t v Ht) as [T|[[-> [-> ->]]| ->]].
    + apply (E3 o t v T H1 H2).
    + apply C4; [exact H2 | exact H1].
    + pose proof (nextctr_pos ks). lia.
Qed.

(* the SENDER kr of a direction (exponent parity sd) accepts a message d of the other direction *)
Lemma vdir_sender_receives sd kr ks q d x pl kr' xk :
  vdir sd kr ks q -> recvDataMsg kr d x = Ok (pl, kr', xk) -> own sd x ->
  rk d <= theirKeyID ks -> sk d + 1 <= ourKeyID ks ->
  (sk d = theirKeyID kr -> ourCurrent ks = Some (yy d) /\ theirKeyID kr + 1 = ourKeyID ks) ->
  vdir sd kr' ks q.
Proof.
  intros [Vi Vi2 Vo Vp Vc Vf Vy V0 V1 V4 E2 E5 E3] R Ox Hrk Hsk Hy.
  destruct (recv_is_absorb _ _ _ _ _ _ R) as [Hw Ha].
  destruct (recv_effect _ _ _ _ _ _ R) as [F1 [F2 [F3 [F4 [_ Fo]]]]]. cbv zeta in F1, F2, F3, F4, Fo.
  assert (Ho : ourKeyID kr' = if rk d =? ourKeyID kr then ourKeyID kr + 1 else ourKeyID kr).
  { change (our (side_of kr') = if rk d =? ourKeyID kr then ourKeyID kr + 1 else ourKeyID kr). rewrite Ha. reflexivity. }
  assert (Ht : theirKeyID kr' = if sk d =? theirKeyID kr then theirKeyID kr + 1 else theirKeyID kr).
  { change (their (side_of kr') = if sk d =? theirKeyID kr then theirKeyID kr + 1 else theirKeyID kr). rewrite Ha. reflexivity. }
  pose proof Vi as [Ds _ [T1 T2] _ _]. cbn [side_of our their] in T1, T2.
  set (pf := pfold (pview_of ks) q) in *.
  assert (Pid : pv_id pf = their (after (side_of ks) (map msg_of q))) by (apply pfold_id; reflexivity).
  destruct (after_mono (map msg_of q) (side_of ks)) as [_ Mt]. cbn [side_of their] in Mt.
  assert (Dsk : Forall (fun d' => rk d' <= theirKeyID kr /\ sk d' + 1 <= ourKeyID kr) q).
  { apply Forall_forall. intros d' Hin. rewrite Forall_forall in Ds. apply (Ds (msg_of d') (in_map msg_of _ _ Hin)). }
  constructor.
  - rewrite Ha. apply dir_sender_absorbs; [exact Vi | exact Hw | exact Hrk | exact Hsk].
  - rewrite Ho. destruct (N.eqb_spec (rk d) (ourKeyID kr)); lia.
  - destruct Vo as [p [c [Hp [Hc [Op Oc]]]]]. unfold own_keys. rewrite F1, F2, Hc, Hp.
    destruct (rk d =? ourKeyID kr); [exists c, x | exists p, c]; auto.
  - destruct Vp as [e [H1 H2]]. rewrite F3, Ht. destruct (N.eqb_spec (sk d) (theirKeyID kr)) as [E|E].
    + destruct (Hy E) as [Y1 Y2]. exists (yy d). split; [reflexivity|]. unfold key_at. rewrite Y2, N.eqb_refl. exact Y1.
    + exists e. auto.
  - exact Vc.
  - cbv zeta. fold pf. rewrite Ho, F1, F2. destruct (N.eqb_spec (rk d) (ourKeyID kr)) as [E|E]; [|exact Vf].
    right. destruct Vf as [[G1 [G2 G3]]|[G1 G2]]; [split; [lia | exact G2] | lia].
  - rewrite Ho, F1. destruct (N.eqb_spec (rk d) (ourKeyID kr)) as [E|E]; [|exact Vy].
    eapply Forall_impl; [|exact Dsk]. intros d' [_ H] H'. lia.
  - exact V0.
  - exact V1.
  - destruct (N.eqb_spec (rk d) (ourKeyID kr)) as [E|E].
    { rewrite Ho. destruct (N.eqb_spec (rk d) (ourKeyID kr)); [|contradiction].
      eapply Forall_impl; [|exact Dsk]. intros d' [_ H] H'. lia. }
    destruct (N.eqb_spec (sk d) (theirKeyID kr)) as [E'|E'].
    { rewrite Ht. destruct (N.eqb_spec (sk d) (theirKeyID kr)); [|contradiction].
      eapply Forall_impl; [|exact Dsk]. intros d' [H _] _ H'. lia. }
    assert (Hn : nextctr kr' = nextctr kr).
    { unfold nextctr. rewrite Ho, Ht. destruct (N.eqb_spec (rk d) (ourKeyID kr)); [contradiction|].
      destruct (N.eqb_spec (sk d) (theirKeyID kr)); [contradiction|]. rewrite (Fo E E'). reflexivity. }
    rewrite Hn, Ho, Ht. destruct (N.eqb_spec (rk d) (ourKeyID kr)); [contradiction|].
    destruct (N.eqb_spec (sk d) (theirKeyID kr)); [contradiction|]. exact V4.
  - exact E2.
  - intros o t v Tt Hd. apply (E5 o t v Tt). rewrite Ho, Ht in Hd.
    destruct (N.eqb_spec (rk d) (ourKeyID kr)), (N.eqb_spec (sk d) (theirKeyID kr)); lia.
  - intros o t v Tt H1 H2. rewrite Ho, Ht in *.
    destruct (N.eqb_spec (rk d) (ourKeyID kr)) as [E|E].
    { rewrite (E5 o t v Tt) by lia. pose proof (nextctr_pos kr'). lia. }
    destruct (N.eqb_spec (sk d) (theirKeyID kr)) as [E'|E'].
    { rewrite (E5 o t v Tt) by lia. pose proof (nextctr_pos kr'). lia. }
    assert (Hn : nextctr kr' = nextctr kr).
    { unfold nextctr. rewrite Ho, Ht. destruct (N.eqb_spec (rk d) (ourKeyID kr)); [contradiction|].
      destruct (N.eqb_spec (sk d) (theirKeyID kr)); [contradiction|]. rewrite (Fo E E'). reflexivity. }
    rewrite Hn. apply (E3 o t v Tt H1 H2).
Qed.

(* ---------- two parties, two FIFO queues, the real key contexts ---------- *)
Record cnet := {
  kA : keyctx; kB : keyctx;
  cAB : list sdata; cBA : list sdata;               (* in flight *)
  sentA : list payload; sentB : list payload;       (* what was passed to Send, in order *)
  gotA : list payload; gotB : list payload          (* what Receive returned, in order *)
}.
Inductive cev :=
| CSendA (h : hdr) (flag : N) (pl : payload) | CSendB (h : hdr) (flag : N) (pl : payload)
| CDeliverAB (x : eid) | CDeliverBA (x : eid).      (* x: the exponent the receiver draws if it has to rotate *)

(* a failing send loses the text; a refused delivery loses the message *)
Definition cstep (n : cnet) (e : cev) : cnet :=
  match e with
  | CSendA h flag pl =>
      match genDataMsg (kA n) h flag pl with
      | Ok (d, k', _) => {| kA := k'; kB := kB n; cAB := cAB n ++ [d]; cBA := cBA n; sentA := sentA n ++ [pl]; sentB := sentB n; gotA := gotA n; gotB := gotB n |}
      | _ => {| kA := kA n; kB := kB n; cAB := cAB n; cBA := cBA n; sentA := sentA n ++ [pl]; sentB := sentB n; gotA := gotA n; gotB := gotB n |}
      end
  | CSendB h flag pl =>
      match genDataMsg (kB n) h flag pl with
      | Ok (d, k', _) => {| kA := kA n; kB := k'; cAB := cAB n; cBA := cBA n ++ [d]; sentA := sentA n; sentB := sentB n ++ [pl]; gotA := gotA n; gotB := gotB n |}
      | _ => {| kA := kA n; kB := kB n; cAB := cAB n; cBA := cBA n; sentA := sentA n; sentB := sentB n ++ [pl]; gotA := gotA n; gotB := gotB n |}
      end
  | CDeliverAB x =>
      match cAB n with
      | [] => n
      | d :: q =>
          match recvDataMsg (kB n) d x with
          | Ok (pl, k', _) => {| kA := kA n; kB := k'; cAB := q; cBA := cBA n; sentA := sentA n; sentB := sentB n; gotA := gotA n; gotB := gotB n ++ [pl] |}
          | _ => {| kA := kA n; kB := kB n; cAB := q; cBA := cBA n; sentA := sentA n; sentB := sentB n; gotA := gotA n; gotB := gotB n |}
          end
      end
  | CDeliverBA x =>
      match cBA n with
      | [] => n
      | d :: q =>
          match recvDataMsg (kA n) d x with
          | Ok (pl, k', _) => {| kA := k'; kB := kB n; cAB := cAB n; cBA := q; sentA := sentA n; sentB := sentB n; gotA := gotA n ++ [pl]; gotB := gotB n |}
          | _ => {| kA := kA n; kB := kB n; cAB := cAB n; cBA := q; sentA := sentA n; sentB := sentB n; gotA := gotA n; gotB := gotB n |}
          end
      end
  end.

(* the only thing asked of the schedule: a freshly drawn exponent is not one of the peer's (A draws even, B odd) *)
Definition cev_ok (e : cev) : Prop :=
  match e with CDeliverAB x => own false x | CDeliverBA x => own true x | _ => True end.

Record cinv (n : cnet) : Prop := {
  i_ab : vdir true (kA n) (kB n) (cAB n);
  i_ba : vdir false (kB n) (kA n) (cBA n);
  i_fifoA : sentA n = gotB n ++ map d_payload (cAB n);     (* sent = received, then in flight: nothing lost, doubled, reordered or changed *)
  i_fifoB : sentB n = gotA n ++ map d_payload (cBA n)
}.

Lemma cstep_inv n e : cinv n -> cev_ok e -> cinv (cstep n e).
Proof.
  intros [IA IB FA FB] Hok. destruct e as [h flag pl|h flag pl|x|x]; cbn [cstep].
  - destruct (vdir_send true _ _ _ h flag pl IA (v_own _ _ _ _ IB)) as [d [k' [xk [G [Gp [Gs [Gt V]]]]]]].
    rewrite G. constructor; cbn; auto.
    + apply (vdir_receiver_sends _ _ _ _ _ IB Gs Gt).
    + rewrite FA, map_app, app_assoc. cbn. rewrite Gp. reflexivity.
  - destruct (vdir_send false _ _ _ h flag pl IB (v_own _ _ _ _ IA)) as [d [k' [xk [G [Gp [Gs [Gt V]]]]]]].
    rewrite G. constructor; cbn; auto.
    + apply (vdir_receiver_sends _ _ _ _ _ IA Gs Gt).
    + rewrite FB, map_app, app_assoc. cbn. rewrite Gp. reflexivity.
  - destruct (cAB n) as [|d q] eqn:E; [constructor; rewrite ?E; auto|].
    destruct (vdir_recv true _ _ d q x IA) as [k' [xk [R V]]]. rewrite R.
    pose proof IA as [Vi Vi2 _ _ _ _ Vy _ _ _ _ _ _]. cbn [map] in Vi. destruct (head_sent _ _ _ _ Vi) as [H1 H2].
    cbn [msg_of m_sk m_rk side_of our their] in H1, H2. inversion Vy as [|? ? Y0 _]; subst.
    constructor; cbn; auto.
    + apply (vdir_sender_receives false _ _ _ d x _ _ _ IB R Hok H1 H2).
      intros Es. assert (Eo : theirKeyID (kB n) + 1 = ourKeyID (kA n)) by lia. split; [apply Y0; lia | exact Eo].
    + rewrite FA. cbn. rewrite <- app_assoc. reflexivity.
  - destruct (cBA n) as [|d q] eqn:E; [constructor; rewrite ?E; auto|].
    destruct (vdir_recv false _ _ d q x IB) as [k' [xk [R V]]]. rewrite R.
    pose proof IB as [Vi Vi2 _ _ _ _ Vy _ _ _ _ _ _]. cbn [map] in Vi. destruct (head_sent _ _ _ _ Vi) as [H1 H2].
    cbn [msg_of m_sk m_rk side_of our their] in H1, H2. inversion Vy as [|? ? Y0 _]; subst.
    constructor; cbn; auto.
    + apply (vdir_sender_receives true _ _ _ d x _ _ _ IA R Hok H1 H2).
      intros Es. assert (Eo : theirKeyID (kA n) + 1 = ourKeyID (kB n)) by lia. split; [apply Y0; lia | exact Eo].
    + rewrite FB. cbn. rewrite <- app_assoc. reflexivity.
Qed.

Theorem fifo_exactly_once sched : forall n, cinv n -> Forall cev_ok sched -> cinv (fold_left cstep sched n).
Proof.
  induction sched as [|e r IH]; intros n Hn Hs; cbn [fold_left]; [exact Hn|].
  inversion Hs as [|? ? H1 H2]; subst. apply IH; [apply cstep_inv; assumption | exact H2].
Qed.

(* right after the key exchange: key id 1 is the exchange's key (now the previous one), key id 2 was drawn when the
   exchange finished; the peer's exchange key is known as its key 1 *)
Definition after_ake (ake_exp next_exp peer_ake : eid) : keyctx :=
  {| ourKeyID := 2; theirKeyID := 1; ourCurrent := Some next_exp; ourPrevious := Some ake_exp;
     theirCurrent := Some peer_ake; theirPrevious := None; counters := []; macHistory := []; oldMACKeys := [] |}.
Definition cinit (a1 a2 b1 b2 : eid) : cnet :=
  {| kA := after_ake a1 a2 b1; kB := after_ake b1 b2 a1; cAB := []; cBA := [];
     sentA := []; sentB := []; gotA := []; gotB := [] |}.

Lemma after_ake_vdir sd s1 s2 r1 r2 : own sd s1 -> own sd s2 -> own (negb sd) r1 -> own (negb sd) r2 ->
  vdir sd (after_ake s1 s2 r1) (after_ake r1 r2 s1) [].
Proof.
  intros O1 O2 O3 O4.
  assert (NT : forall o t v, ~ tentry (after_ake r1 r2 s1) o t v) by (intros o t v [c [[] _]]).
  constructor; cbn; auto; try (intros o t v Ht; destruct (NT o t v Ht)).
  - constructor; cbn; auto; lia.
  - lia.
  - exists s1, s2. auto.
  - exists r1. auto.
Qed.

Lemma cinit_inv a1 a2 b1 b2 : own true a1 -> own true a2 -> own false b1 -> own false b2 -> cinv (cinit a1 a2 b1 b2).
Proof.
  intros. constructor; cbn; auto; apply after_ake_vdir; assumption.
Qed.

(* every message of every schedule after the exchange *)
Corollary fifo_exactly_once_after_ake a1 a2 b1 b2 sched :
  own true a1 -> own true a2 -> own false b1 -> own false b2 -> Forall cev_ok sched ->
  let n := fold_left cstep sched (cinit a1 a2 b1 b2) in
  sentA n = gotB n ++ map d_payload (cAB n) /\ sentB n = gotA n ++ map d_payload (cBA n).
Proof.
  intros H1 H2 H3 H4 Hs. destruct (fifo_exactly_once sched _ (cinit_inv _ _ _ _ H1 H2 H3 H4) Hs) as [_ _ FA FB]. auto.
Qed.

(* non-vacuity: a crossing schedule with messages in flight across rotations on both sides; every text arrives *)
Definition ex_pl (n : N) : payload := {| p_text := [n]; p_tlvs := [] |}.
Definition ex_h : hdr := {| h_ver := 3; h_stag := 257; h_rtag := 258 |}.
Definition ex_sched : list cev :=
  [CSendA ex_h 0 (ex_pl 1); CSendB ex_h 0 (ex_pl 101); CDeliverAB 11; CDeliverBA 12; CSendA ex_h 0 (ex_pl 2);
   CSendA ex_h 0 (ex_pl 3); CDeliverAB 13; CSendB ex_h 0 (ex_pl 102); CDeliverBA 14; CDeliverAB 15;
   CSendB ex_h 0 (ex_pl 103); CSendA ex_h 0 (ex_pl 4); CDeliverBA 16; CDeliverBA 18; CDeliverAB 17].
Example ex_sched_ok : Forall cev_ok ex_sched.
Proof. repeat constructor. Qed.
Example ex_sched_runs :
  let n := fold_left cstep ex_sched (cinit 2 4 1 3) in
  (gotB n, gotA n, ourKeyID (kA n), ourKeyID (kB n), cAB n, cBA n) =
  ([ex_pl 1; ex_pl 2; ex_pl 3; ex_pl 4], [ex_pl 101; ex_pl 102; ex_pl 103], 3, 4, [], []).
Proof. vm_compute. reflexivity. Qed.
