(* C06: two more classes of rejected key-exchange input that leave the conversation exactly as it was. *)
From OTR Require Import Go.Base Gen.Consts Bytes.Text Proto.SmpTypes Proto.Keys Proto.Smp Proto.Conv Proto.ConvProofs.
From RecordUpdate Require Import RecordSet.
Import RecordSetNotations.
Open Scope N_scope.

(* an encoded message of another protocol version than the one the conversation is committed to *)
Theorem wrong_version_is_inert now c ver stag rtag body aux rnd :
  isOTREnabled (c_policies c) = true -> c_version c <> 0 -> ver <> c_version c ->
  let '(c', r) := step now c (CReceive (WEnc ver stag rtag body) aux rnd) in
  r_plain r = None /\ r_out r = c_injections c /\ r_err r = 1 /\ r_events r = [] /\
  c' = c <| c_injections := [] |>.
Proof.
  intros Hp Hv Hne.
  unfold step, receive. msimpl. rewrite Hp. cbn [negb].
  unfold receiveDecoded, commitToVersionFrom. msimpl.
  destruct (N.eqb_spec (c_version c) 0) as [E|_]; [contradiction|]. cbn [negb]. msimpl.
  change (negb (0 =? 0)) with false. msimpl.
  destruct (N.eqb_spec (c_version c) ver) as [E|_]; [congruence|]. cbn [negb]. msimpl.
  rewrite (forgetVersion_noop (c_version c)) by exact Hv. rewrite forgetTag_noop by reflexivity.
  unfold finish, withInjects. msimpl. change (1 =? 0) with false. cbn iota. cbn [r_plain r_out r_err r_events].
  repeat split.
Qed.

(* a D-H Key message whose value is out of range, while it is awaited (exchange state 1) or after (state 3) *)
Theorem out_of_range_dhkey_is_inert now c ver stag rtag gy aux rnd a :
  isOTREnabled (c_policies c) = true -> header_ok c ver stag rtag ->
  c_ake c = Some a -> (a_state a = 1 \/ a_state a = 3) -> isGroupElement gy = false ->
  let '(c', r) := step now c (CReceive (WEnc ver stag rtag (EAke (BKey gy))) aux rnd) in
  r_plain r = None /\ r_out r = c_injections c /\ r_err r = 1 /\ r_events r = [c_MessageEventSetupError] /\
  c' = c <| c_injections := [] |>.
Proof.
  intros Hp [Hv Hh] Ha Hst Hg.
  unfold step, receive. msimpl. rewrite Hp. cbn [negb].
  unfold receiveDecoded, commitToVersionFrom. msimpl.
  assert (Hv0 : negb (c_version c =? 0) = true).
  { destruct Hh as [->|[-> _]]; rewrite Hv; reflexivity. }
  assert (Hver : ver <> 0) by (destruct Hh as [->|[-> _]]; discriminate).
  rewrite Hv0. change (negb (0 =? 0)) with false. msimpl.
  rewrite Hv, N.eqb_refl. cbn [negb]. msimpl.
  assert (Htag : (if ver =? 3 then verifyInstanceTags stag rtag else ret 0) c [] = (0, c, [])).
  { destruct Hh as [->|[-> [H1 [H2 H3]]]]; [reflexivity|]. apply verifyInstanceTags_ok; assumption. }
  unfold ret in Htag. rewrite Htag. change (0 =? 1) with false. change (0 =? 2) with false. msimpl.
  unfold processAKE. msimpl. rewrite Ha. msimpl.
  unfold processAKE_body. msimpl. unfold the_ake. rewrite Ha. msimpl.
  change (c_msgTypeDHKey =? c_msgTypeDHCommit) with false. change (c_msgTypeDHKey =? c_msgTypeDHKey) with true. cbn iota.
  destruct Hst as [Hst|Hst]; rewrite Hst; msimpl; rewrite Hg; cbn [negb]; msimpl; rewrite Ha; msimpl; rewrite Hst;
    change (1 =? 0) with false; cbn [andb]; msimpl;
    rewrite (forgetVersion_noop ver) by exact Hver; rewrite forgetTag_noop by reflexivity;
    unfold finish, withInjects; msimpl; change (1 =? 0) with false; cbn iota; cbn [r_plain r_out r_err r_events];
    repeat split.
Qed.
