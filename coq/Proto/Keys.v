(* Symbolic mirror of key_management.go + the data-message part of data_message.go / messages.go
   (after the repairs recorded in known_findings.jsonl).

   Cryptography is a free term algebra:
   - a DH public value g^e is identified with the id [e] of its exponent; ids >= [junk_base] are
     values nobody holds the exponent of (attacker-chosen / damaged);
   - the shared secret of exponent a and public value b is the unordered pair {a,b};
   - session keys are (shared secret, end byte); the MAC key derived from an AES key is identified
     with it (sha1 of the key: one-to-one);
   - a ciphertext is Enc(key, counter, payload); a MAC is Mac(key, authenticated fields).
   Same control flow and the same order of checks and mutations as the Go code. *)
From OTR Require Import Go.Base Proto.SmpTypes.
Open Scope N_scope.

Definition eid := N.
Definition junk_base : N := 4294967296.

Record shared := { sh_lo : N; sh_hi : N }.
Definition mk_shared (a b : N) : shared :=
  if a <=? b then {| sh_lo := a; sh_hi := b |} else {| sh_lo := b; sh_hi := a |}.
Definition shared_eqb (x y : shared) : bool := (sh_lo x =? sh_lo y) && (sh_hi x =? sh_hi y).

(* role: 1 / 2 = the two directions (high end sends with 1), 255 = extra symmetric key *)
Record skey := { k_sh : shared; k_role : N }.
Definition skey_eqb (x y : skey) : bool := shared_eqb (k_sh x) (k_sh y) && (k_role x =? k_role y).

Record sessionKeys := { sendingKey : skey; receivingKey : skey; extraKey : skey }.

(* calculateDHSessionKeys: we are the high end iff our public value is greater *)
Definition calcSessionKeys (ourExp theirPub : eid) : sessionKeys :=
  let s := mk_shared ourExp theirPub in
  let '(sb, rb) := if theirPub <? ourExp then (1, 2) else (2, 1) in
  {| sendingKey := {| k_sh := s; k_role := sb |};
     receivingKey := {| k_sh := s; k_role := rb |};
     extraKey := {| k_sh := s; k_role := 255 |} |}.

Record macKeyUsage := { mu_our : N; mu_their : N; mu_key : skey }.
Record keyPairCounter := { kc_our : N; kc_their : N; kc_ourCtr : N; kc_theirCtr : N }.

Record keyctx := {
  ourKeyID : N; theirKeyID : N;
  ourCurrent : option eid; ourPrevious : option eid;      (* dhKeyPair: pub and priv share the id *)
  theirCurrent : option eid; theirPrevious : option eid;
  counters : list keyPairCounter;
  macHistory : list macKeyUsage;
  oldMACKeys : list skey
}.

Definition keyctx_empty : keyctx :=
  {| ourKeyID := 0; theirKeyID := 0; ourCurrent := None; ourPrevious := None;
     theirCurrent := None; theirPrevious := None; counters := []; macHistory := []; oldMACKeys := [] |}.

(* --- record updates --- *)
Definition set_counters (k : keyctx) v := {| ourKeyID := ourKeyID k; theirKeyID := theirKeyID k; ourCurrent := ourCurrent k;
  ourPrevious := ourPrevious k; theirCurrent := theirCurrent k; theirPrevious := theirPrevious k;
  counters := v; macHistory := macHistory k; oldMACKeys := oldMACKeys k |}.
Definition set_macHistory (k : keyctx) v := {| ourKeyID := ourKeyID k; theirKeyID := theirKeyID k; ourCurrent := ourCurrent k;
  ourPrevious := ourPrevious k; theirCurrent := theirCurrent k; theirPrevious := theirPrevious k;
  counters := counters k; macHistory := v; oldMACKeys := oldMACKeys k |}.
Definition set_oldMACKeys (k : keyctx) v := {| ourKeyID := ourKeyID k; theirKeyID := theirKeyID k; ourCurrent := ourCurrent k;
  ourPrevious := ourPrevious k; theirCurrent := theirCurrent k; theirPrevious := theirPrevious k;
  counters := counters k; macHistory := macHistory k; oldMACKeys := v |}.

(* pickOurKeys / pickTheirKey: Err 2 = conflict error *)
Definition errConflict : N := 2.
Definition errOther : N := 1.

Definition pickOurKeys (k : keyctx) (id : N) : R eid :=
  if (id =? 0) || (ourKeyID k =? 0) then Err errConflict
  else if id =? ourKeyID k then
    match ourCurrent k with Some e => Ok e | None => Panic end       (* nil priv: constbn on nil *)
  else if id =? ourKeyID k - 1 then
    match ourPrevious k with Some e => Ok e | None => Panic end
  else Err errConflict.

Definition pickTheirKey (k : keyctx) (id : N) : R eid :=
  if (id =? 0) || (theirKeyID k =? 0) then Err errConflict
  else if id =? theirKeyID k then
    match theirCurrent k with Some e => Ok e | None => Panic end
  else if id =? theirKeyID k - 1 then
    match theirPrevious k with Some e => Ok e | None => Err errConflict end
  else Err errConflict.

Definition sessionKeysFor (k : keyctx) (ourID theirID : N) : R sessionKeys :=
  do o <- pickOurKeys k ourID;
  do t <- pickTheirKey k theirID;
  Ok (calcSessionKeys o t).

(* macKeyHistory.addKeys: one entry per key pair *)
Definition has_mac_entry (h : list macKeyUsage) (o t : N) : bool :=
  existsb (fun u => (mu_our u =? o) && (mu_their u =? t)) h.
Definition addKeys (k : keyctx) (o t : N) (key : skey) : keyctx :=
  if has_mac_entry (macHistory k) o t then k
  else set_macHistory k (macHistory k ++ [{| mu_our := o; mu_their := t; mu_key := key |}]).

(* forgetMACKeysFor*: the keys of the matching entries and the remaining entries.  (Go deletes by
   swapping with the last element; only the multiset of remaining entries matters to anything
   observable, so the mirror keeps the order.) *)
Definition forgetMACKeys (f : macKeyUsage -> bool) (h : list macKeyUsage) : list skey * list macKeyUsage :=
  (map mu_key (filter f h), filter (fun u => negb (f u)) h).

(* counterHistory *)
Definition find_counter (cs : list keyPairCounter) (o t : N) : option keyPairCounter :=
  find (fun c => (kc_our c =? o) && (kc_their c =? t)) cs.
Fixpoint update_counter (cs : list keyPairCounter) (o t : N) (f : keyPairCounter -> keyPairCounter) : list keyPairCounter :=
  match cs with
  | [] => []
  | c :: r => if (kc_our c =? o) && (kc_their c =? t) then f c :: r else c :: update_counter r o t f
  end.
(* findCounterFor: appends a zero entry when missing *)
Definition ensure_counter (cs : list keyPairCounter) (o t : N) : list keyPairCounter :=
  match find_counter cs o t with
  | Some _ => cs
  | None => cs ++ [{| kc_our := o; kc_their := t; kc_ourCtr := 0; kc_theirCtr := 0 |}]
  end.

(* checkMessageCounter.  A message that reaches this point has a counter >= 1 (deserialize refuses 0),
   so a failing check implies the entry already existed: failure leaves the context unchanged. *)
Definition checkMessageCounter (k : keyctx) (recipientID senderID ctr : N) : R keyctx :=
  let cs := ensure_counter (counters k) recipientID senderID in
  match find_counter cs recipientID senderID with
  | Some c =>
      if ctr <=? kc_theirCtr c then Err errConflict
      else Ok (set_counters k (update_counter cs recipientID senderID
                 (fun c => {| kc_our := kc_our c; kc_their := kc_their c; kc_ourCtr := kc_ourCtr c; kc_theirCtr := ctr |})))
  | None => Panic
  end.

Definition revealMACKeys (k : keyctx) : list skey * keyctx := (oldMACKeys k, set_oldMACKeys k []).

(* rotateOurKeys: [fresh] is the newly drawn exponent *)
Definition rotateOurKeys (k : keyctx) (recipientID : N) (fresh : eid) : keyctx :=
  if recipientID =? ourKeyID k then
    let retired := ourKeyID k - 1 in
    let '(keys, h') := forgetMACKeys (fun u => mu_our u =? retired) (macHistory k) in
    {| ourKeyID := ourKeyID k + 1; theirKeyID := theirKeyID k;
       ourCurrent := Some fresh; ourPrevious := ourCurrent k;
       theirCurrent := theirCurrent k; theirPrevious := theirPrevious k;
       counters := filter (fun c => negb (kc_our c =? retired)) (counters k);
       macHistory := h'; oldMACKeys := oldMACKeys k ++ keys |}
  else k.
Definition rotates_ours (k : keyctx) (recipientID : N) : bool := recipientID =? ourKeyID k.

Definition rotateTheirKey (k : keyctx) (senderID : N) (y : eid) : keyctx :=
  if senderID =? theirKeyID k then
    let retired := theirKeyID k - 1 in
    let '(keys, h') := forgetMACKeys (fun u => mu_their u =? retired) (macHistory k) in
    {| ourKeyID := ourKeyID k; theirKeyID := theirKeyID k + 1;
       ourCurrent := ourCurrent k; ourPrevious := ourPrevious k;
       theirCurrent := Some y; theirPrevious := theirCurrent k;
       counters := filter (fun c => negb (kc_their c =? retired)) (counters k);
       macHistory := h'; oldMACKeys := oldMACKeys k ++ keys |}
  else k.

(* ---------------- data messages ---------------- *)
Inductive stlv : Type :=
| TPadding
| TDisconnected
| TSmp (ty : N) (pl : smp_payload)       (* SMP TLVs, interpreted by Proto/Smp *)
| TExtraKey (usage : N) (data : bytes)
| TOther (ty : N).

Record payload := { p_text : bytes; p_tlvs : list stlv }.

(* what the MAC covers: header and all fields in front of the authenticator *)
Record authfields := {
  af_ver : N; af_stag : N; af_rtag : N; af_flag : N; af_sk : N; af_rk : N; af_y : eid; af_ctr : N;
  af_enckey : skey; af_encctr : N
}.

Record sdata := {
  d_fields : authfields;          (* the fields as they stand in the message *)
  d_payload : payload;            (* plaintext inside Enc(af_enckey, af_encctr, .) *)
  d_enc_intact : bool;            (* false: ciphertext bytes damaged *)
  d_mackey : skey;                (* key the authenticator was computed with *)
  d_macover : authfields;         (* fields the authenticator was computed over *)
  d_macenc_intact : bool;         (* ciphertext as it was when the authenticator was computed *)
  d_mac_intact : bool;            (* false: authenticator bytes damaged *)
  d_old : list skey;
  d_wellformed : bool             (* false: does not deserialize (truncated / corrupt lengths) *)
}.

Definition authfields_eqb (a b : authfields) : bool :=
  (af_ver a =? af_ver b) && (af_stag a =? af_stag b) && (af_rtag a =? af_rtag b) &&
  (af_flag a =? af_flag b) && (af_sk a =? af_sk b) && (af_rk a =? af_rk b) && (af_y a =? af_y b) &&
  (af_ctr a =? af_ctr b) && skey_eqb (af_enckey a) (af_enckey b) && (af_encctr a =? af_encctr b).

(* checkSign *)
Definition mac_valid (d : sdata) (key : skey) : bool :=
  d_mac_intact d && skey_eqb (d_mackey d) key && authfields_eqb (d_macover d) (d_fields d) &&
  Bool.eqb (d_macenc_intact d) (d_enc_intact d).

(* ---------------- sending: genDataMsgWithFlag (key and counter part) ---------------- *)
Record hdr := { h_ver : N; h_stag : N; h_rtag : N }.

(* Err: conflict error from the key lookup.  Result: the message and the new key context. *)
Definition genDataMsg (k : keyctx) (h : hdr) (flag : N) (pl : payload) : R (sdata * keyctx * skey) :=
  let o := ourKeyID k - 1 in
  let t := theirKeyID k in
  do keys <- sessionKeysFor k o t;
  let k1 := addKeys k o t (receivingKey keys) in
  let cs := ensure_counter (counters k1) o t in
  match find_counter cs o t with
  | None => Panic
  | Some c =>
      let ctr := if kc_ourCtr c =? 0 then 1 else kc_ourCtr c in
      let cs' := update_counter cs o t
                   (fun c => {| kc_our := kc_our c; kc_their := kc_their c; kc_ourCtr := ctr + 1; kc_theirCtr := kc_theirCtr c |}) in
      let k2 := set_counters k1 cs' in
      match ourCurrent k2 with
      | None => Panic
      | Some y =>
          let '(old, k3) := revealMACKeys k2 in
          let f := {| af_ver := h_ver h; af_stag := h_stag h; af_rtag := h_rtag h; af_flag := flag;
                      af_sk := o; af_rk := t; af_y := y; af_ctr := ctr;
                      af_enckey := sendingKey keys; af_encctr := ctr |} in
          Ok ({| d_fields := f; d_payload := pl; d_enc_intact := true; d_mackey := sendingKey keys;
                 d_macover := f; d_macenc_intact := true; d_mac_intact := true; d_old := old;
                 d_wellformed := true |}, k3, extraKey keys)
      end
  end.

(* ---------------- receiving: processDataMessageWithRawErrors up to and including rotateKeys ----------------
   [fresh] is the exponent drawn if our keys rotate.  Result: payload, new context, extra key. *)
Definition recvDataMsg (k : keyctx) (d : sdata) (fresh : eid) : R (payload * keyctx * skey) :=
  if negb (d_wellformed d) then Err errOther else
  let f := d_fields d in
  do keys <- sessionKeysFor k (af_rk f) (af_sk f);
  if negb (mac_valid d (receivingKey keys)) then Err errConflict else
  do k1 <- checkMessageCounter k (af_rk f) (af_sk f) (af_ctr f);
  let k2 := addKeys k1 (af_rk f) (af_sk f) (receivingKey keys) in
  let k3 := rotateOurKeys k2 (af_rk f) fresh in
  let k4 := rotateTheirKey k3 (af_sk f) (af_y f) in
  (* decrypt with the receiving AES key and the message counter: yields the payload only if that is how it
     was encrypted (always the case for a message MACed by the holder of the key pair) *)
  if skey_eqb (af_enckey f) (receivingKey keys) && (af_encctr f =? af_ctr f) && d_enc_intact d
  then Ok (d_payload d, k4, extraKey keys)
  else Err errOther.
