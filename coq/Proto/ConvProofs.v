(* Theorems about the abstract conversation machine. *)
From OTR Require Import Go.Base Gen.Consts Bytes.Text Proto.SmpTypes Proto.Keys Proto.Smp Proto.SmpInst Proto.Conv Proto.KeysProofs.
From RecordUpdate Require Import RecordSet.
Import RecordSetNotations.
From Coq Require Import ZifyBool ZifyN ZifyNat.
Open Scope N_scope.

Ltac msimpl := cbv beta iota zeta delta [bind get ret put modify event]; cbn beta iota zeta.

Lemma pdm_reject now c ev d rnd e : c_msgState c = c_encrypted ->
  recvDataMsg (c_keys c) d (fst (draw c)) = Err e ->
  processDataMessage now d rnd c ev = ((None, [], e), c, ev).
Proof.
  intros Hs Hr. unfold processDataMessage. msimpl. rewrite Hs.
  change (c_encrypted =? c_encrypted) with true. cbn [negb]. rewrite Hr. reflexivity.
Qed.

Lemma set_set_inj (c : conv) x : c <| c_injections := x |> <| c_injections := [] |> = c <| c_injections := [] |>.
Proof. destruct c; reflexivity. Qed.

Definition header_ok (c : conv) (ver stag rtag : N) : Prop :=
  c_version c = ver /\ (ver = 2 \/ (ver = 3 /\ c_minValidInstanceTag <= stag /\ stag = c_theirTag c /\
                                   (rtag = 0 \/ (c_minValidInstanceTag <= rtag /\ rtag = c_ourTag c)))).

Lemma verifyInstanceTags_ok c ev stag rtag :
  c_minValidInstanceTag <= stag -> stag = c_theirTag c ->
  (rtag = 0 \/ (c_minValidInstanceTag <= rtag /\ rtag = c_ourTag c)) ->
  verifyInstanceTags stag rtag c ev = (0, c, ev).
Proof.
  intros H1 H2 H3. unfold verifyInstanceTags. msimpl. unfold c_minValidInstanceTag in *.
  assert (E1 : (0 <? rtag) && (rtag <? 256) = false).
  { destruct H3 as [->|[H3 _]]; [reflexivity|]. apply andb_false_iff. right. apply N.ltb_ge. exact H3. }
  rewrite E1. assert (E2 : stag <? 256 = false) by (apply N.ltb_ge; exact H1). rewrite E2.
  assert (E3 : negb (rtag =? 0) && negb (c_ourTag c =? rtag) || negb (c_theirTag c =? 0) && negb (c_theirTag c =? stag) = false).
  { apply orb_false_iff. split.
    - destruct H3 as [->|[_ ->]]; [reflexivity|]. rewrite N.eqb_refl. apply andb_false_r.
    - rewrite <- H2, N.eqb_refl. apply andb_false_r. }
  rewrite E3.
  assert (E4 : c_theirTag c =? 0 = false) by (apply N.eqb_neq; lia). rewrite E4. reflexivity.
Qed.

(* C06 (data messages): a data message that fails a check — malformed, key ids outside the window, bad MAC,
   counter not above the stored one — leaves the conversation exactly as it was.  The only effects are the
   optional error reply (together with whatever replies were already pending) and the event. *)
Theorem rejected_data_message_is_inert now c ver stag rtag d aux rnd e :
  isOTREnabled (c_policies c) = true -> c_msgState c = c_encrypted -> header_ok c ver stag rtag ->
  recvDataMsg (c_keys c) d (fst (draw c)) = Err e ->
  let '(c', r) := step now c (CReceive (WEnc ver stag rtag (EData d)) aux rnd) in
  r_plain r = None /\
  (exists errs, r_out r = (if r_err r =? 0 then [] else []) ++ c_injections c ++ errs /\
                (errs = [] \/ exists t, errs = [WError t])) /\
  c' = c <| c_injections := [] |>.
Proof.
  intros Hp Hs [Hv Hh] Hr.
  unfold step, receive. msimpl. rewrite Hp. cbn [negb].
  unfold receiveDecoded, commitToVersionFrom. msimpl.
  assert (Hv0 : negb (c_version c =? 0) = true).
  { destruct Hh as [->|[-> _]]; rewrite Hv; reflexivity. }
  rewrite Hv0. change (negb (0 =? 0)) with false. msimpl.
  rewrite Hv, N.eqb_refl. cbn [negb]. msimpl.
  assert (Htag : (if ver =? 3 then verifyInstanceTags stag rtag else ret 0) c [] = (0, c, [])).
  { destruct Hh as [->|[-> [H1 [H2 H3]]]]; [reflexivity|]. apply verifyInstanceTags_ok; assumption. }
  unfold ret in Htag. rewrite Htag. change (0 =? 1) with false. change (0 =? 2) with false. msimpl.
  unfold receiveDataMessage. msimpl. rewrite (pdm_reject now c [] d rnd e Hs Hr).
  assert (He : e =? 0 = false).
  { unfold recvDataMsg in Hr. apply N.eqb_neq. intros ->.
    destruct (d_wellformed d); cbn [negb] in Hr; [|discriminate].
    unfold errOther, errConflict in *.
    destruct (sessionKeysFor _ _ _) as [keys| |] eqn:Ek; cbn [bindR] in Hr; try discriminate.
    - destruct (mac_valid _ _); cbn [negb] in Hr; [|discriminate].
      destruct (checkMessageCounter _ _ _ _) as [k1|e1|] eqn:Ec; cbn [bindR] in Hr; try discriminate.
      + destruct (_ && _ && _); discriminate.
      + injection Hr as ->. destruct (checkMessageCounter_spec (c_keys c) (af_rk (d_fields d)) (af_sk (d_fields d)) (af_ctr (d_fields d))) as [S1 S2].
        destruct (N.le_gt_cases (af_ctr (d_fields d)) (ctr_of (counters (c_keys c)) (af_rk (d_fields d)) (af_sk (d_fields d)))) as [L|L].
        * rewrite (S1 L) in Ec. discriminate.
        * destruct (S2 L) as [k1 [E1 _]]. rewrite E1 in Ec. discriminate.
    - injection Hr as ->.
      unfold sessionKeysFor, pickOurKeys, pickTheirKey, errConflict in Ek.
      repeat match type of Ek with
             | context [if ?b then _ else _] => destruct b; cbn [bindR] in Ek
             | context [match ?o with Some _ => _ | None => _ end] => destruct o; cbn [bindR] in Ek
             end; try discriminate. }
  rewrite He. cbn [negb andb].
  destruct (N.land (af_flag (d_fields d)) c_messageFlagIgnoreUnreadable =? c_messageFlagIgnoreUnreadable) eqn:Ei.
  - (* flagged ignore-unreadable: dropped silently *)
    change (0 =? 0) with true. msimpl. unfold finish, withInjects. msimpl.
    change (0 =? 0) with true. cbn iota. cbn [r_plain r_out r_err].
    split; [reflexivity|]. split; [exists []; rewrite app_nil_r; auto | reflexivity].
  - cbn iota. rewrite He. msimpl.
    destruct (N.eqb_spec e 3) as [->|H3].
    + change (3 =? 0) with false. msimpl. unfold finish, withInjects. msimpl. change (3 =? 0) with false. cbn iota.
      cbn [r_plain r_out r_err].
      split; [reflexivity|]. split; [exists []; rewrite app_nil_r; auto | reflexivity].
    + destruct (N.eqb_spec e 2) as [->|H2].
      * change (2 =? 0) with false. unfold generatePotentialErrorMessage, finish, withInjects. msimpl.
        destruct (c_errHandler c); msimpl; change (2 =? 0) with false; msimpl; cbn [r_plain r_out r_err].
        -- split; [reflexivity|]. split; [|apply set_set_inj].
           exists [WError [c_ErrorCodeMessageUnreadable]]. split; [reflexivity | right; eexists; reflexivity].
        -- split; [reflexivity|]. split; [|reflexivity]. exists []. rewrite app_nil_r. auto.
      * rewrite He. unfold generatePotentialErrorMessage, finish, withInjects. msimpl.
        destruct (c_errHandler c); msimpl; rewrite ?He; msimpl; cbn [r_plain r_out r_err].
        -- split; [reflexivity|]. split; [|apply set_set_inj].
           exists [WError [c_ErrorCodeMessageMalformed]]. split; [rewrite He; reflexivity | right; eexists; reflexivity].
        -- split; [reflexivity|]. split; [|reflexivity]. exists []. rewrite He, app_nil_r. auto.
Qed.
