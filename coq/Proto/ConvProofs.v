(* Theorems about the abstract conversation machine. *)
From OTR Require Import Go.Base Gen.Consts Bytes.Text Proto.SmpTypes Proto.Keys Proto.Smp Proto.SmpInst Proto.Conv Proto.KeysProofs.
From RecordUpdate Require Import RecordSet.
Import RecordSetNotations.
From Coq Require Import ZifyBool ZifyN ZifyNat.
Open Scope N_scope.

Ltac msimpl := cbv beta iota zeta delta [bind get ret put modify event]; cbn beta iota zeta.

Lemma pdm_reject now c ev d rnd e : c_msgState c = c_encrypted ->
  recvDataMsg (c_keys c) d (fst (draw c)) = Err e ->
  processDataMessage now d rnd c ev = ((None, [], e), c, ev).
Proof.
  intros Hs Hr. unfold processDataMessage. msimpl. rewrite Hs.
  change (c_encrypted =? c_encrypted) with true. cbn [negb]. rewrite Hr. reflexivity.
Qed.

Lemma set_set_inj (c : conv) x : c <| c_injections := x |> <| c_injections := [] |> = c <| c_injections := [] |>.
Proof. destruct c; reflexivity. Qed.

Definition header_ok (c : conv) (ver stag rtag : N) : Prop :=
  c_version c = ver /\ (ver = 2 \/ (ver = 3 /\ c_minValidInstanceTag <= stag /\ stag = c_theirTag c /\
                                   (rtag = 0 \/ (c_minValidInstanceTag <= rtag /\ rtag = c_ourTag c)))).

Lemma verifyInstanceTags_ok c ev stag rtag :
  c_minValidInstanceTag <= stag -> stag = c_theirTag c ->
  (rtag = 0 \/ (c_minValidInstanceTag <= rtag /\ rtag = c_ourTag c)) ->
  verifyInstanceTags stag rtag c ev = (0, c, ev).
Proof.
  intros H1 H2 H3. unfold verifyInstanceTags. msimpl. unfold c_minValidInstanceTag in *.
  assert (E1 : (0 <? rtag) && (rtag <? 256) = false).
  { destruct H3 as [->|[H3 _]]; [reflexivity|]. apply andb_false_iff. right. apply N.ltb_ge. exact H3. }
  rewrite E1. assert (E2 : stag <? 256 = false) by (apply N.ltb_ge; exact H1). rewrite E2.
  assert (E3 : negb (rtag =? 0) && negb (c_ourTag c =? rtag) || negb (c_theirTag c =? 0) && negb (c_theirTag c =? stag) = false).
  { apply orb_false_iff. split.
    - destruct H3 as [->|[_ ->]]; [reflexivity|]. rewrite N.eqb_refl. apply andb_false_r.
    - rewrite <- H2, N.eqb_refl. apply andb_false_r. }
  rewrite E3.
  assert (E4 : c_theirTag c =? 0 = false) by (apply N.eqb_neq; lia). rewrite E4. reflexivity.
Qed.

(* C06 (data messages): a data message that fails a check — malformed, key ids outside the window, bad MAC,
   counter not above the stored one — leaves the conversation exactly as it was.  The only effects are the
   optional error reply (together with whatever replies were already pending) and the event. *)
Lemma forgetVersion_noop before err c ev : before <> 0 -> forgetVersion before err c ev = (tt, c, ev).
Proof. intros H. unfold forgetVersion. msimpl. destruct (N.eqb_spec before 0); [contradiction | reflexivity]. Qed.

Lemma forgetTag_noop before err c ev : c_theirTag c = before -> forgetTag before err c ev = (tt, c, ev).
Proof.
  intros H. unfold forgetTag. destruct ((before =? 0) && negb (err =? 0)) eqn:E; msimpl; [|reflexivity].
  apply andb_prop in E as [E _]. apply N.eqb_eq in E. subst before. destruct c; cbn in *; subst; reflexivity.
Qed.

Theorem rejected_data_message_is_inert now c ver stag rtag d aux rnd e :
  isOTREnabled (c_policies c) = true -> c_msgState c = c_encrypted -> header_ok c ver stag rtag ->
  recvDataMsg (c_keys c) d (fst (draw c)) = Err e ->
  let '(c', r) := step now c (CReceive (WEnc ver stag rtag (EData d)) aux rnd) in
  r_plain r = None /\
  (exists errs, r_out r = (if r_err r =? 0 then [] else []) ++ c_injections c ++ errs /\
                (errs = [] \/ exists t, errs = [WError t])) /\
  c' = c <| c_injections := [] |>.
Proof.
  intros Hp Hs [Hv Hh] Hr.
  unfold step, receive. msimpl. rewrite Hp. cbn [negb].
  unfold receiveDecoded, commitToVersionFrom. msimpl.
  assert (Hv0 : negb (c_version c =? 0) = true).
  { destruct Hh as [->|[-> _]]; rewrite Hv; reflexivity. }
  assert (Hver : ver <> 0) by (destruct Hh as [->|[-> _]]; discriminate).
  rewrite Hv0. change (negb (0 =? 0)) with false. msimpl.
  rewrite Hv, N.eqb_refl. cbn [negb]. msimpl.
  assert (Htag : (if ver =? 3 then verifyInstanceTags stag rtag else ret 0) c [] = (0, c, [])).
  { destruct Hh as [->|[-> [H1 [H2 H3]]]]; [reflexivity|]. apply verifyInstanceTags_ok; assumption. }
  unfold ret in Htag. rewrite Htag. change (0 =? 1) with false. change (0 =? 2) with false. msimpl.
  unfold receiveDataMessage. msimpl. rewrite (pdm_reject now c [] d rnd e Hs Hr).
  assert (He : e =? 0 = false).
  { unfold recvDataMsg in Hr. apply N.eqb_neq. intros ->.
    destruct (d_wellformed d); cbn [negb] in Hr; [|discriminate].
    unfold errOther, errConflict in *.
    destruct (sessionKeysFor _ _ _) as [keys| |] eqn:Ek; cbn [bindR] in Hr; try discriminate.
    - destruct (mac_valid _ _); cbn [negb] in Hr; [|discriminate].
      destruct (checkMessageCounter _ _ _ _) as [k1|e1|] eqn:Ec; cbn [bindR] in Hr; try discriminate.
      + destruct (_ && _ && _); discriminate.
      + injection Hr as ->. destruct (checkMessageCounter_spec (c_keys c) (af_rk (d_fields d)) (af_sk (d_fields d)) (af_ctr (d_fields d))) as [S1 S2].
        destruct (N.le_gt_cases (af_ctr (d_fields d)) (ctr_of (counters (c_keys c)) (af_rk (d_fields d)) (af_sk (d_fields d)))) as [L|L].
        * rewrite (S1 L) in Ec. discriminate.
        * destruct (S2 L) as [k1 [E1 _]]. rewrite E1 in Ec. discriminate.
    - injection Hr as ->.
      unfold sessionKeysFor, pickOurKeys, pickTheirKey, errConflict in Ek.
      repeat match type of Ek with
             | context [if ?b then _ else _] => destruct b; cbn [bindR] in Ek
             | context [match ?o with Some _ => _ | None => _ end] => destruct o; cbn [bindR] in Ek
             end; try discriminate. }
  rewrite He. cbn [negb andb].
  destruct (N.land (af_flag (d_fields d)) c_messageFlagIgnoreUnreadable =? c_messageFlagIgnoreUnreadable) eqn:Ei.
  - (* flagged ignore-unreadable: dropped silently *)
    rewrite !N.eqb_refl. msimpl. rewrite (forgetVersion_noop ver) by exact Hver. rewrite forgetTag_noop by reflexivity. unfold finish, withInjects. msimpl.
    rewrite ?N.eqb_refl. cbn iota. cbn [r_plain r_out r_err].
    split; [reflexivity|]. split; [exists []; rewrite app_nil_r; auto | reflexivity].
  - cbn iota. rewrite He. msimpl.
    destruct (N.eqb_spec e 3) as [->|H3].
    + change (3 =? 0) with false. msimpl. rewrite (forgetVersion_noop ver) by exact Hver. rewrite forgetTag_noop by reflexivity. unfold finish, withInjects. msimpl. change (3 =? 0) with false. cbn iota.
      cbn [r_plain r_out r_err].
      split; [reflexivity|]. split; [exists []; rewrite app_nil_r; auto | reflexivity].
    + destruct (N.eqb_spec e 2) as [->|H2].
      * change (2 =? 0) with false. unfold generatePotentialErrorMessage. msimpl.
        destruct (c_errHandler c) eqn:Eh; msimpl; rewrite (forgetVersion_noop ver) by exact Hver; rewrite forgetTag_noop by reflexivity;
          unfold finish, withInjects; msimpl; change (2 =? 0) with false; msimpl; cbn [r_plain r_out r_err].
        -- split; [reflexivity|]. split; [|apply set_set_inj].
           exists [WError [c_ErrorCodeMessageUnreadable]]. split; [reflexivity | right; eexists; reflexivity].
        -- split; [reflexivity|]. split; [|reflexivity]. exists []. rewrite app_nil_r. auto.
      * rewrite He. unfold generatePotentialErrorMessage. msimpl.
        destruct (c_errHandler c) eqn:Eh; msimpl; rewrite (forgetVersion_noop ver) by exact Hver; rewrite forgetTag_noop by reflexivity;
          unfold finish, withInjects; msimpl; rewrite ?He; msimpl; cbn [r_plain r_out r_err].
        -- split; [reflexivity|]. split; [|apply set_set_inj].
           exists [WError [c_ErrorCodeMessageMalformed]]. split; [rewrite He; reflexivity | right; eexists; reflexivity].
        -- split; [reflexivity|]. split; [|reflexivity]. exists []. rewrite He, app_nil_r. auto.
Qed.

(* ---------------- C03 / C18: Send ---------------- *)
Definition is_error_reply (w : wire) : Prop := exists code, w = WError [code].

(* Send while the peer has ended the session: nothing is emitted but pending error replies, the call fails,
   the state does not change *)
Theorem send_finished_refuses now c t :
  isOTREnabled (c_policies c) = true -> c_msgState c = c_finished ->
  let '(c', r) := step now c (CSend t) in
  r_out r = c_injections c /\ r_err r = 1 /\ c' = c <| c_injections := [] |>.
Proof.
  intros Hp Hs. unfold step, send. msimpl. rewrite Hp, Hs. cbn [negb].
  change (c_finished =? c_plainText) with false. change (c_finished =? c_encrypted) with false. msimpl.
  unfold finishSend, withInjects. msimpl. cbn [r_out r_err]. repeat split.
Qed.

(* Send in plaintext under require-encryption: only a query message goes out, the text is queued *)
Theorem send_require_encryption_queues now c t :
  isOTREnabled (c_policies c) = true -> c_msgState c = c_plainText -> has (c_policies c) c_requireEncryption = true ->
  let '(c', r) := step now c (CSend t) in
  r_out r = queryMessage c :: c_injections c /\ r_err r = 0 /\
  c_resendMsgs c' = c_resendMsgs c ++ [t] /\ c_mayRetransmit c' = c_retransmitExact /\ c_msgState c' = c_plainText.
Proof.
  intros Hp Hs Hr. unfold step, send. msimpl. rewrite Hp, Hs. cbn [negb].
  change (c_plainText =? c_plainText) with true. msimpl. rewrite Hr. msimpl.
  unfold updateLastSent, finishSend, withInjects. msimpl. cbn [r_out r_err].
  destruct c; cbn in *. repeat split; assumption.
Qed.

(* messageHeader never touches the key context, the message state, the pending replies or the resend state *)
Lemma messageHeader_frame c ev : let '(h, c', ev') := messageHeader c ev in
  c_keys c' = c_keys c /\ c_msgState c' = c_msgState c /\ c_injections c' = c_injections c /\ ev' = ev /\
  c_errHandler c' = c_errHandler c /\ c_policies c' = c_policies c /\ c_resendMsgs c' = c_resendMsgs c.
Proof.
  unfold messageHeader, generateInstanceTag, fresh, draw. msimpl.
  destruct (c_version c =? 3); msimpl; [|repeat split].
  destruct (negb (c_ourTag c =? 0)); msimpl; repeat split.
Qed.

(* Send while encrypted: the only message that carries the text is a data message whose payload is
   encrypted and authenticated under the sending key of the current DH pair *)
Theorem send_encrypted_only_ciphertext now c t :
  isOTREnabled (c_policies c) = true -> c_msgState c = c_encrypted ->
  Forall is_error_reply (c_injections c) ->
  let '(c', r) := step now c (CSend t) in
  forall w, In w (r_out r) ->
    is_error_reply w \/
    exists ver stag rtag d keys,
      w = WEnc ver stag rtag (EData d) /\
      sessionKeysFor (c_keys c) (ourKeyID (c_keys c) - 1) (theirKeyID (c_keys c)) = Ok keys /\
      af_enckey (d_fields d) = sendingKey keys /\ d_mackey d = sendingKey keys /\ d_enc_intact d = true /\
      p_text (d_payload d) = t.
Proof.
  intros Hp Hs Hi. rewrite Forall_forall in Hi.
  unfold step, send. msimpl. rewrite Hp, Hs. cbn [negb].
  change (c_encrypted =? c_plainText) with false. change (c_encrypted =? c_encrypted) with true. msimpl.
  unfold createSerializedDataMessage, genDataMsgWithFlag. msimpl. rewrite Hs.
  change (c_encrypted =? c_encrypted) with true. cbn [negb]. msimpl.
  destruct (sessionKeysFor (c_keys c) (ourKeyID (c_keys c) - 1) (theirKeyID (c_keys c))) as [keys|e|] eqn:Ek; msimpl.
  - pose proof (messageHeader_frame c []) as F. destruct (messageHeader c []) as [[h c1] ev1].
    destruct F as [Fk [Fs [Fi [Fe [Fh _]]]]]. subst ev1. msimpl. rewrite Fk.
    destruct (genDataMsg (c_keys c) h c_messageFlagNormal {| p_text := t; p_tlvs := [] |}) as [[[d k'] x]|e|] eqn:Eg; msimpl.
    + unfold updateLastSent, finishSend, withInjects. msimpl. cbn [r_out]. intros w [<-|Hw].
      * right. destruct (genDataMsg_spec _ _ _ _ _ _ _ Eg) as [keys' [Ek' [H1 [H2 [_ [H4 [H5 _]]]]]]].
        rewrite Ek in Ek'. injection Ek' as <-.
        exists (h_ver h), (h_stag h), (h_rtag h), d, keys. rewrite H4. repeat split; auto.
      * left. apply Hi. cbn in Hw. rewrite Fi in Hw. exact Hw.
    + unfold generatePotentialErrorMessage, finishSend, withInjects. msimpl. rewrite Fh.
      destruct (c_errHandler c); msimpl; cbn [r_out]; intros w Hw; left; cbn in Hw; rewrite ?Fi in Hw.
      * apply in_app_or in Hw as [Hw|[<-|[]]]; [apply Hi; exact Hw | eexists; reflexivity].
      * apply Hi; exact Hw.
    + unfold generatePotentialErrorMessage, finishSend, withInjects. msimpl. rewrite Fh.
      destruct (c_errHandler c); msimpl; cbn [r_out]; intros w Hw; left; cbn in Hw; rewrite ?Fi in Hw.
      * apply in_app_or in Hw as [Hw|[<-|[]]]; [apply Hi; exact Hw | eexists; reflexivity].
      * apply Hi; exact Hw.
  - unfold generatePotentialErrorMessage, finishSend, withInjects. msimpl.
    destruct (c_errHandler c); msimpl; cbn [r_out]; intros w Hw; left; cbn in Hw.
    + apply in_app_or in Hw as [Hw|[<-|[]]]; [apply Hi; exact Hw | eexists; reflexivity].
    + apply Hi; exact Hw.
  - unfold generatePotentialErrorMessage, finishSend, withInjects. msimpl.
    destruct (c_errHandler c); msimpl; cbn [r_out]; intros w Hw; left; cbn in Hw.
    + apply in_app_or in Hw as [Hw|[<-|[]]]; [apply Hi; exact Hw | eexists; reflexivity].
    + apply Hi; exact Hw.
Qed.

(* ---------------- C18: the three places where the message state changes ---------------- *)
Theorem akeHasFinished_spec now c ev :
  let '(_, c', ev') := akeHasFinished now c ev in
  c_msgState c' = c_encrypted /\
  ev' = ev ++ [evSec (if c_msgState c =? c_encrypted then c_StillSecure else c_GoneSecure)] /\
  c_ssid c' = a_ssid (the_ake c) /\ c_sentRevealSig c' = a_sentRevealSig (the_ake c) /\
  c_lastMsgStateChange c' = Some now /\
  ourKeyID (c_keys c') = ourKeyID (a_keys (the_ake c)) + 1 /\ theirKeyID (c_keys c') = theirKeyID (a_keys (the_ake c)) /\
  ourPrevious (c_keys c') = ourCurrent (a_keys (the_ake c)) /\
  counters (c_keys c') = counters (a_keys (the_ake c)) /\ macHistory (c_keys c') = macHistory (a_keys (the_ake c)).
Proof. unfold akeHasFinished, fresh, draw. msimpl. repeat split. Qed.

(* building and sending a data message emits no event and changes neither message state nor AKE context *)
Lemma csdm_frame now t flag tlvs c ev :
  let '(res, c', ev') := createSerializedDataMessage now t flag tlvs c ev in
  ev' = ev /\ c_msgState c' = c_msgState c /\ c_ake c' = c_ake c /\ c_policies c' = c_policies c /\ c_smp c' = c_smp c.
Proof.
  unfold createSerializedDataMessage, genDataMsgWithFlag. msimpl.
  destruct (negb (c_msgState c =? c_encrypted)); msimpl; [repeat split|].
  destruct (sessionKeysFor (c_keys c) (ourKeyID (c_keys c) - 1) (theirKeyID (c_keys c))); msimpl; [|repeat split..].
  unfold messageHeader, generateInstanceTag, fresh, draw. msimpl.
  destruct (c_version c =? 3); msimpl.
  - destruct (negb (c_ourTag c =? 0)); msimpl;
      match goal with |- context [genDataMsg ?k ?h ?f ?p] => destruct (genDataMsg k h f p) as [[[d k'] x]| |] end;
      msimpl; unfold updateLastSent; msimpl; repeat split.
  - match goal with |- context [genDataMsg ?k ?h ?f ?p] => destruct (genDataMsg k h f p) as [[[d k'] x]| |] end;
      msimpl; unfold updateLastSent; msimpl; repeat split.
Qed.

Theorem end_spec now c :
  let '(c', r) := step now c CEnd in
  c_msgState c' = c_plainText /\ c_ake c' = None /\
  (In (evSec c_GoneInsecure) (r_events r) <-> c_msgState c = c_encrypted) /\
  ~ In (evSec c_GoneSecure) (r_events r) /\
  ourCurrent (c_keys c') = None /\ ourPrevious (c_keys c') = None /\ theirPrevious (c_keys c') = None /\
  counters (c_keys c') = [] /\ macHistory (c_keys c') = [] /\ oldMACKeys (c_keys c') = [] /\
  (c_msgState c <> c_plainText -> c_resendMsgs c' = [] /\ c_mayRetransmit c' = c_noRetransmit).
Proof.
  unfold step, endConv. msimpl.
  destruct (c_msgState c =? c_encrypted) eqn:Ee.
  - apply N.eqb_eq in Ee. msimpl.
    pose proof (csdm_frame now [] c_messageFlagIgnoreUnreadable [TDisconnected] (c <| c_smp := smp_wiped |>) []) as F.
    destruct (createSerializedDataMessage now [] c_messageFlagIgnoreUnreadable [TDisconnected] (c <| c_smp := smp_wiped |>) [])
      as [[res c1] ev1].
    destruct F as [-> [F1 [F2 [F3 _]]]]. cbn [c_msgState] in F1.
    rewrite Ee. change (c_encrypted =? c_plainText) with false.
    destruct res as [[ws x]|e|]; msimpl; cbn; repeat split; auto; try tauto; try discriminate; intros [H|[]]; discriminate.
  - assert (Hne : c_msgState c <> c_encrypted) by (apply N.eqb_neq; exact Ee). msimpl.
    destruct (c_msgState c =? c_plainText) eqn:Ep; msimpl; cbn; repeat split; auto; try tauto; try discriminate.
    all: try (apply N.eqb_eq in Ep; congruence).
Qed.

(* ---------------- C01: what accepting an encrypted signature implies ---------------- *)
Lemma akey_eqb_eq a b : akey_eqb a b = true <-> a = b.
Proof.
  unfold akey_eqb. destruct a as [s1 w1], b as [s2 w2]; cbn. rewrite andb_true_iff, shared_eqb_eq, N.eqb_eq. split.
  - intros [-> ->]; reflexivity.
  - intros H; inversion H; auto.
Qed.
Lemma mbval_eqb_eq a b : mbval_eqb a b = true <-> a = b.
Proof.
  unfold mbval_eqb. destruct a, b; cbn. rewrite !andb_true_iff, akey_eqb_eq, !N.eqb_eq. split.
  - intros [[[[-> ->] ->] ->] ->]; reflexivity.
  - intros H; inversion H; subst; repeat split; reflexivity.
Qed.
Lemma encsig_eqb_eq a b : encsig_eqb a b = true <-> a = b.
Proof.
  unfold encsig_eqb. destruct a, b; cbn. rewrite !andb_true_iff, akey_eqb_eq, !N.eqb_eq, mbval_eqb_eq, Bool.eqb_true_iff. split.
  - intros [[[[[-> ->] ->] ->] ->] ->]; reflexivity.
  - intros H; inversion H; subst; repeat split; reflexivity.
Qed.

Definition ake_shared (c : conv) : shared := match a_shared (the_ake c) with Some s => s | None => mk_shared 0 0 end.
Definition ake_ours (c : conv) : eid := match a_exp (the_ake c) with Some e => e | None => 0 end.
Definition ake_theirs (c : conv) : eid := match a_their (the_ake c) with Some e => e | None => 0 end.

(* the peer's long-term key is adopted only if: the MAC over the encrypted signature verifies under m2 of the
   shared secret, it decrypts under c, and the signature inside was made by the owner of the very key it
   carries, over M = (m1; their DH value; our DH value; that key; key id).  Otherwise nothing changes. *)
Theorem processEncryptedSig_spec es mac base c ev :
  let '(ok, c', ev') := processEncryptedSig es mac base c ev in
  ev' = ev /\
  (ok = true ->
     em_intact mac = true /\ em_key mac = {| ak_sh := ake_shared c; ak_which := base + 2 |} /\ em_over mac = es /\
     es_ckey es = {| ak_sh := ake_shared c; ak_which := base |} /\ es_parses es = true /\
     es_signer es = es_pub es /\
     es_over es = {| mb_key := {| ak_sh := ake_shared c; ak_which := base + 1 |};
                     mb_gfirst := ake_theirs c; mb_gsecond := ake_ours c; mb_pub := es_pub es; mb_keyid := es_keyid es |} /\
     c_theirKey c' = Some (es_pub es) /\ c_msgState c' = c_msgState c /\ c_ssid c' = c_ssid c) /\
  (ok = false -> c' = c).
Proof.
  unfold processEncryptedSig. msimpl. fold (ake_shared c) (ake_ours c) (ake_theirs c).
  destruct (em_intact mac && akey_eqb (em_key mac) {| ak_sh := ake_shared c; ak_which := base + 2 |} && encsig_eqb (em_over mac) es) eqn:E1;
    cbn [negb]; msimpl; [|split; [reflexivity | split; [discriminate | reflexivity]]].
  destruct (akey_eqb (es_ckey es) {| ak_sh := ake_shared c; ak_which := base |} && es_parses es) eqn:E2;
    cbn [negb]; msimpl; [|split; [reflexivity | split; [discriminate | reflexivity]]].
  match goal with |- context [mbval_eqb (es_over es) ?x] => set (expected := x) end.
  destruct ((es_signer es =? es_pub es) && mbval_eqb (es_over es) expected) eqn:E3;
    cbn [negb]; msimpl; [|split; [reflexivity | split; [discriminate | reflexivity]]].
  unfold set_ake. msimpl. split; [reflexivity|]. split; [|discriminate]. intros _.
  apply andb_true_iff in E1 as [E1 E1c]. apply andb_true_iff in E1 as [E1a E1b].
  apply andb_true_iff in E2 as [E2a E2b]. apply andb_true_iff in E3 as [E3a E3b].
  apply akey_eqb_eq in E1b. apply encsig_eqb_eq in E1c. apply akey_eqb_eq in E2a.
  apply N.eqb_eq in E3a. apply mbval_eqb_eq in E3b.
  repeat split; auto.
Qed.

(* C01: an out-of-range DH value is never accepted *)
Theorem out_of_range_group_value_rejected e : junk_base <= e -> e < junk_base + 16 -> isGroupElement e = false.
Proof.
  intros H1 H2. unfold isGroupElement. apply orb_false_iff. split; [apply N.ltb_ge; exact H1 | apply N.leb_gt; exact H2].
Qed.

(* ---------------- C15: a conversation talks to one peer instance ---------------- *)
(* A version 3 message whose (well-formed) tags name another conversation - a receiver tag that is neither zero nor
   ours, or a sender tag other than the instance we are bound to - is dropped before anything looks at its body:
   no plaintext, nothing to send, one event, and the state is untouched (whatever the message type and content). *)
Theorem foreign_instance_ignored now c stag rtag body aux rnd :
  isOTREnabled (c_policies c) = true -> c_version c = 3 ->
  c_minValidInstanceTag <= stag -> (rtag = 0 \/ c_minValidInstanceTag <= rtag) ->
  ((rtag <> 0 /\ rtag <> c_ourTag c) \/ (c_theirTag c <> 0 /\ stag <> c_theirTag c)) ->
  let '(c', r) := step now c (CReceive (WEnc 3 stag rtag body) aux rnd) in
  r_plain r = None /\ r_out r = c_injections c /\ r_err r = 0 /\
  r_events r = [c_MessageEventReceivedMessageForOtherInstance] /\
  c' = c <| c_injections := [] |>.
Proof.
  intros Hp Hv Hs Hr Hf.
  unfold step, receive. msimpl. rewrite Hp. cbn [negb].
  unfold receiveDecoded, commitToVersionFrom. msimpl.
  rewrite Hv. change (negb (3 =? 0)) with true. cbn iota. msimpl.
  change (0 =? 0) with true. cbn [negb]. msimpl. rewrite Hv. change (3 =? 3) with true. cbn [negb]. msimpl.
  unfold verifyInstanceTags. msimpl.
  assert (E1 : (0 <? rtag) && (rtag <? c_minValidInstanceTag) = false).
  { destruct Hr as [->|Hr]; [reflexivity|]. apply andb_false_iff. right. apply N.ltb_ge. exact Hr. }
  rewrite E1. assert (E2 : stag <? c_minValidInstanceTag = false) by (apply N.ltb_ge; exact Hs). rewrite E2.
  assert (E3 : (negb (rtag =? 0) && negb (c_ourTag c =? rtag)) || (negb (c_theirTag c =? 0) && negb (c_theirTag c =? stag)) = true).
  { apply orb_true_iff. destruct Hf as [[F1 F2]|[F1 F2]]; [left|right]; apply andb_true_iff; split; apply negb_true_iff, N.eqb_neq; congruence. }
  rewrite E3. msimpl. change (2 =? 1) with false. change (2 =? 2) with true. cbn iota. msimpl.
  rewrite (forgetVersion_noop 3) by discriminate.
  unfold forgetTag. change (0 =? 0) with true. cbn [negb andb]. rewrite andb_false_r. msimpl.
  unfold finish, withInjects. msimpl. cbn [r_plain r_out r_err r_events].
  repeat split.
Qed.

(* ---------------- C06 in the key exchange: a Signature message that fails a check changes nothing ---------------- *)
(* While waiting for the Signature message: if the MAC, the decryption or the signature check of the message fails,
   the call reports an error and the conversation is what it was (pending error replies are handed out). *)
Theorem rejected_signature_is_inert now c ver stag rtag es mac aux rnd a :
  isOTREnabled (c_policies c) = true -> header_ok c ver stag rtag ->
  c_ake c = Some a -> a_state a = 3 ->
  fst (fst (processEncryptedSig es mac 4 c [])) = false ->
  let '(c', r) := step now c (CReceive (WEnc ver stag rtag (EAke (BSig es mac))) aux rnd) in
  r_plain r = None /\ r_out r = c_injections c /\ r_err r = 1 /\ r_events r = [c_MessageEventSetupError] /\
  c' = c <| c_injections := [] |>.
Proof.
  intros Hp [Hv Hh] Ha Hst Hfail.
  unfold step, receive. msimpl. rewrite Hp. cbn [negb].
  unfold receiveDecoded, commitToVersionFrom. msimpl.
  assert (Hv0 : negb (c_version c =? 0) = true).
  { destruct Hh as [->|[-> _]]; rewrite Hv; reflexivity. }
  assert (Hver : ver <> 0) by (destruct Hh as [->|[-> _]]; discriminate).
  rewrite Hv0. change (negb (0 =? 0)) with false. msimpl.
  rewrite Hv, N.eqb_refl. cbn [negb]. msimpl.
  assert (Htag : (if ver =? 3 then verifyInstanceTags stag rtag else ret 0) c [] = (0, c, [])).
  { destruct Hh as [->|[-> [H1 [H2 H3]]]]; [reflexivity|]. apply verifyInstanceTags_ok; assumption. }
  unfold ret in Htag. rewrite Htag. change (0 =? 1) with false. change (0 =? 2) with false. msimpl.
  unfold processAKE. msimpl. rewrite Ha. msimpl.
  unfold processAKE_body. msimpl. unfold the_ake. rewrite Ha. msimpl.
  change (c_msgTypeSig =? c_msgTypeDHCommit) with false. change (c_msgTypeSig =? c_msgTypeDHKey) with false.
  change (c_msgTypeSig =? c_msgTypeRevealSig) with false. change (c_msgTypeSig =? c_msgTypeSig) with true. cbn iota.
  rewrite Hst. msimpl.
  pose proof (processEncryptedSig_spec es mac 4 c []) as S.
  destruct (processEncryptedSig es mac 4 c []) as [[ok c1] ev1]. cbn [fst] in Hfail. subst ok.
  destruct S as [-> [_ S]]. rewrite (S eq_refl). cbn [negb]. msimpl.
  rewrite Ha. msimpl. rewrite Hst. change (1 =? 0) with false. cbn [andb]. msimpl.
  rewrite (forgetVersion_noop ver) by exact Hver. rewrite forgetTag_noop by reflexivity.
  unfold finish, withInjects. msimpl. change (1 =? 0) with false. cbn iota. cbn [r_plain r_out r_err r_events].
  repeat split.
Qed.

(* an unreadable D-H Commit while an exchange is waiting for the Reveal Signature or the Signature message: the
   stored commitment / the exchange in progress is left alone *)
Theorem unreadable_commit_is_inert now c ver stag rtag flag aux rnd a :
  isOTREnabled (c_policies c) = true -> header_ok c ver stag rtag ->
  c_ake c = Some a -> (a_state a = 2 \/ a_state a = 3) ->
  let '(c', r) := step now c (CReceive (WEnc ver stag rtag (EBadBody c_msgTypeDHCommit flag)) aux rnd) in
  r_plain r = None /\ r_out r = c_injections c /\ r_err r = 1 /\ r_events r = [c_MessageEventSetupError] /\
  c' = c <| c_injections := [] |>.
Proof.
  intros Hp [Hv Hh] Ha Hst.
  unfold step, receive. msimpl. rewrite Hp. cbn [negb].
  unfold receiveDecoded, commitToVersionFrom. msimpl.
  assert (Hv0 : negb (c_version c =? 0) = true).
  { destruct Hh as [->|[-> _]]; rewrite Hv; reflexivity. }
  assert (Hver : ver <> 0) by (destruct Hh as [->|[-> _]]; discriminate).
  rewrite Hv0. change (negb (0 =? 0)) with false. msimpl.
  rewrite Hv, N.eqb_refl. cbn [negb]. msimpl.
  assert (Htag : (if ver =? 3 then verifyInstanceTags stag rtag else ret 0) c [] = (0, c, [])).
  { destruct Hh as [->|[-> [H1 [H2 H3]]]]; [reflexivity|]. apply verifyInstanceTags_ok; assumption. }
  unfold ret in Htag. rewrite Htag. change (0 =? 1) with false. change (0 =? 2) with false. msimpl.
  change (c_msgTypeDHCommit =? c_msgTypeData) with false. cbn iota.
  unfold processAKE. msimpl. rewrite Ha. msimpl.
  unfold processAKE_body. msimpl. unfold the_ake. rewrite Ha. msimpl.
  change (c_msgTypeDHCommit =? c_msgTypeDHCommit) with true. cbn iota.
  destruct Hst as [Hst|Hst]; rewrite Hst; msimpl; rewrite Ha; msimpl; rewrite Hst;
    change (1 =? 0) with false; cbn [andb]; msimpl;
    rewrite (forgetVersion_noop ver) by exact Hver; rewrite forgetTag_noop by reflexivity;
    unfold finish, withInjects; msimpl; change (1 =? 0) with false; cbn iota; cbn [r_plain r_out r_err r_events];
    repeat split.
Qed.
