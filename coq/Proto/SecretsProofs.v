(* C08: what is retired is no longer held. *)
From OTR Require Import Go.Base Gen.Consts Corr.Val Proto.SmpTypes Proto.Keys Proto.KeysProofs Proto.Smp Proto.Conv Proto.ConvProofs Proto.Secrets.
From RecordUpdate Require Import RecordSet.
Import RecordSetNotations.
Open Scope N_scope.

(* ---------- DH private keys over any history of rotations ---------- *)
(* a history of calls of rotateOurKeys (each with the recipient key id of the message that triggered it and the
   freshly drawn exponent); [h] logs, oldest first, every private key ever installed *)
Fixpoint run_rot (k : keyctx) (h : list (option eid)) (steps : list (N * eid)) : keyctx * list (option eid) :=
  match steps with
  | [] => (k, h)
  | (rk, x) :: r => run_rot (rotateOurKeys k rk x) (if rotates_ours k rk then h ++ [Some x] else h) r
  end.

Definition last2 {A} (l : list A) : list A := skipn (length l - 2) l.

Lemma last2_snoc {A} (l : list A) a b x : last2 l = [a; b] -> last2 (l ++ [x]) = [b; x].
Proof.
  unfold last2. intros H. rewrite app_length. simpl.
  assert (Hl : (2 <= length l)%nat).
  { destruct (le_lt_dec 2 (length l)) as [|Hlt]; [assumption|].
    assert (E : (length l - 2 = 0)%nat) by lia. rewrite E in H. simpl in H. subst l. simpl in Hlt. lia. }
  replace (length l + 1 - 2)%nat with (S (length l - 2)) by lia.
  rewrite <- (firstn_skipn (length l - 2) l) at 2. rewrite H.
  assert (Hf : length (firstn (length l - 2) l) = (length l - 2)%nat) by (rewrite firstn_length; lia).
  rewrite <- app_assoc.
  replace (S (length l - 2)) with (length (firstn (length l - 2) l) + 1)%nat by lia.
  rewrite skipn_app. rewrite skipn_all2 by lia. simpl.
  replace (length (firstn (length l - 2) l) + 1 - length (firstn (length l - 2) l))%nat with 1%nat by lia.
  reflexivity.
Qed.

Lemma rotate_fields k rk x : rotates_ours k rk = true ->
  ourCurrent (rotateOurKeys k rk x) = Some x /\ ourPrevious (rotateOurKeys k rk x) = ourCurrent k.
Proof.
  unfold rotates_ours, rotateOurKeys. intros ->.
  destruct (forgetMACKeys _ (macHistory k)). split; reflexivity.
Qed.
Lemma rotate_noop k rk x : rotates_ours k rk = false -> rotateOurKeys k rk x = k.
Proof. unfold rotates_ours, rotateOurKeys. intros ->. reflexivity. Qed.

(* whatever the history, the two private keys held are the two installed last *)
Theorem rotations_keep_last_two steps : forall k h,
  last2 h = [ourPrevious k; ourCurrent k] ->
  last2 (snd (run_rot k h steps)) = [ourPrevious (fst (run_rot k h steps)); ourCurrent (fst (run_rot k h steps))].
Proof.
  induction steps as [|[rk x] r IH]; intros k h H; [exact H|].
  cbn [run_rot]. destruct (rotates_ours k rk) eqn:E.
  - apply IH. destruct (rotate_fields k rk x E) as [-> ->]. eapply last2_snoc. exact H.
  - rewrite rotate_noop by exact E. apply IH. exact H.
Qed.

Lemma NoDup_app_disjoint {A} (a b : list A) x : NoDup (a ++ b) -> In x a -> In x b -> False.
Proof.
  induction a as [|y r IH]; simpl; intros Hn Ha Hb; [contradiction|].
  inversion Hn as [|? ? Hnotin Hn']; subst. destruct Ha as [->|Ha].
  - apply Hnotin. apply in_or_app. right. exact Hb.
  - exact (IH Hn' Ha Hb).
Qed.

(* hence a key of an older generation is not held (fresh exponents are pairwise distinct) *)
Theorem old_generation_not_held steps k h e :
  last2 h = [ourPrevious k; ourCurrent k] ->
  let k' := fst (run_rot k h steps) in
  let h' := snd (run_rot k h steps) in
  NoDup h' -> In (Some e) (firstn (length h' - 2) h') -> ~ In e (dh_exps k').
Proof.
  intros H k' h' Hnd Hin Hheld.
  pose proof (rotations_keep_last_two steps k h H) as L. fold k' h' in L.
  assert (Hl : In (Some e) (last2 h')).
  { rewrite L. unfold dh_exps, opt_list in Hheld.
    destruct (ourCurrent k') as [cu|], (ourPrevious k') as [pr|]; simpl in Hheld |- *;
      intuition (subst; auto). }
  unfold last2 in Hl. rewrite <- (firstn_skipn (length h' - 2) h') in Hnd.
  exact (NoDup_app_disjoint _ _ (Some e) Hnd Hin Hl).
Qed.

(* the rotation inside the processing of an accepted data message is such a step *)
Lemma exps_checkMessageCounter k o t c k1 : checkMessageCounter k o t c = Ok k1 ->
  ourCurrent k1 = ourCurrent k /\ ourPrevious k1 = ourPrevious k.
Proof.
  unfold checkMessageCounter. destruct (find_counter _ o t); [|discriminate].
  destruct (c <=? _); [discriminate|]. intros H; inversion H; subst. split; reflexivity.
Qed.
Lemma exps_addKeys k o t key : ourCurrent (addKeys k o t key) = ourCurrent k /\ ourPrevious (addKeys k o t key) = ourPrevious k.
Proof. unfold addKeys. destruct (has_mac_entry _ o t); split; reflexivity. Qed.
Lemma exps_rotateTheirs k sk y : ourCurrent (rotateTheirKey k sk y) = ourCurrent k /\ ourPrevious (rotateTheirKey k sk y) = ourPrevious k.
Proof. unfold rotateTheirKey. destruct (sk =? theirKeyID k); [destruct (forgetMACKeys _ _)|]; split; reflexivity. Qed.

Theorem recv_rotation_is_install k d x pl k' xk : recvDataMsg k d x = Ok (pl, k', xk) ->
  (ourCurrent k' = ourCurrent k /\ ourPrevious k' = ourPrevious k) \/
  (ourCurrent k' = Some x /\ ourPrevious k' = ourCurrent k).
Proof.
  unfold recvDataMsg. destruct (negb (d_wellformed d)); [discriminate|].
  destruct (sessionKeysFor k _ _) as [keys| |]; cbn [bindR]; try discriminate.
  destruct (negb (mac_valid d (receivingKey keys))); [discriminate|].
  destruct (checkMessageCounter k _ _ _) as [k1| |] eqn:Ec; cbn [bindR]; try discriminate.
  destruct (_ && _); [|discriminate]. intros H; inversion H; subst; clear H.
  destruct (exps_checkMessageCounter _ _ _ _ _ Ec) as [C1 C2].
  set (k2 := addKeys k1 _ _ _). destruct (exps_addKeys k1 (af_rk (d_fields d)) (af_sk (d_fields d)) (receivingKey keys)) as [A1 A2].
  fold k2 in A1, A2.
  destruct (exps_rotateTheirs (rotateOurKeys k2 (af_rk (d_fields d)) x) (af_sk (d_fields d)) (af_y (d_fields d))) as [-> ->].
  destruct (rotates_ours k2 (af_rk (d_fields d))) eqn:Er.
  - right. destruct (rotate_fields k2 _ x Er) as [-> ->]. split; congruence.
  - left. rewrite (rotate_noop k2 _ x Er). split; congruence.
Qed.

(* ---------- the conversation ---------- *)
Lemma held_exps_none c : ourCurrent (c_keys c) = None -> ourPrevious (c_keys c) = None -> c_ake c = None -> held_exps c = [].
Proof. unfold held_exps, dh_exps, ake_exps. intros -> -> ->. reflexivity. Qed.

(* End: no private key, no AKE ephemeral; no SMP state when the session was encrypted; no text unless the
   conversation was in plaintext (texts queued for a session that never came) *)
Theorem end_leaves_nothing now c :
  let c' := fst (step now c CEnd) in
  held_exps c' = [] /\ ake_r_held c' = false /\ ake_keys_held c' = false /\
  (c_msgState c = c_encrypted -> smp_held c' = false) /\
  (c_msgState c <> c_plainText -> c_resendMsgs c' = []).
Proof.
  pose proof (end_spec now c) as E. destruct (step now c CEnd) as [c' r] eqn:Es. cbn [fst].
  destruct E as [_ [Ha [_ [_ [Hc [Hp [_ [_ [_ [_ Hr]]]]]]]]]].
  repeat split.
  - apply held_exps_none; assumption.
  - unfold ake_r_held. rewrite Ha. reflexivity.
  - unfold ake_keys_held. rewrite Ha. reflexivity.
  - intros He. revert Es. unfold step, endConv. msimpl. rewrite He.
    change (c_encrypted =? c_encrypted) with true. msimpl.
    pose proof (csdm_frame now [] c_messageFlagIgnoreUnreadable [TDisconnected] (c <| c_smp := smp_wiped |>) []) as F.
    destruct (createSerializedDataMessage now [] c_messageFlagIgnoreUnreadable [TDisconnected] (c <| c_smp := smp_wiped |>) [])
      as [[res c1] ev1].
    destruct F as [_ [_ [_ [_ Fs]]]]. cbn [c_smp] in Fs.
    change (c_encrypted =? c_plainText) with false.
    destruct res as [[ws x]|e|]; msimpl; intros H; inversion H; subst; unfold smp_held; cbn; rewrite Fs; reflexivity.
  - intros Hn. apply Hr. exact Hn.
Qed.

(* completion of a key exchange: the exchange's exponent, r and derived keys are gone; the session holds the
   exponent of the exchange and one fresh one *)
Theorem ake_completion_clears_ephemerals now c ev :
  let '(_, c', _) := akeHasFinished now c ev in
  ake_exps c' = [] /\ ake_r_held c' = false /\ ake_keys_held c' = false /\
  ourPrevious (c_keys c') = ourCurrent (a_keys (the_ake c)) /\
  ourCurrent (c_keys c') = Some (fst (draw c)).
Proof. unfold akeHasFinished, fresh, draw. msimpl. repeat split. Qed.

(* the peer's disconnect: keys, AKE context and SMP state are gone *)
Theorem disconnect_leaves_nothing rnd x acc c ev :
  let '(_, c', _) := processTLVs rnd [TDisconnected] x acc c ev in
  held_exps c' = [] /\ ake_r_held c' = false /\ ake_keys_held c' = false /\ smp_held c' = false /\
  c_msgState c' = c_finished.
Proof. cbn [processTLVs]. msimpl. destruct (c_msgState c =? c_encrypted); msimpl; repeat split. Qed.

(* building a data message while encrypted keeps at most the text just sent (or what was there, when nothing
   was sent or the text is empty) *)
Theorem data_message_retains_last_only text flag tlvs c ev :
  let '(_, c', _) := genDataMsgWithFlag text flag tlvs false c ev in
  c_resendMsgs c' = [text] \/ c_resendMsgs c' = c_resendMsgs c.
Proof.
  unfold genDataMsgWithFlag. msimpl.
  destruct (negb (c_msgState c =? c_encrypted)); msimpl; [right; reflexivity|].
  destruct (sessionKeysFor (c_keys c) (ourKeyID (c_keys c) - 1) (theirKeyID (c_keys c))); msimpl; try (right; reflexivity).
  pose proof (messageHeader_frame c ev) as F. destruct (messageHeader c ev) as [[h c1] ev1]. msimpl.
  destruct F as [_ [_ [_ [_ [_ [_ Fr]]]]]].
  destruct (genDataMsg (c_keys c1) h flag {| p_text := text; p_tlvs := tlvs |}) as [[[d k'] xk]|e|]; msimpl.
  - destruct text; cbn; [right; exact Fr|left; reflexivity].
  - right. exact Fr.
  - right. exact Fr.
Qed.
