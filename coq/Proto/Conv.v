(* The abstract conversation machine: a symbolic mirror of Conversation.Send / Receive / End and the
   AKE, with the same dispatch and the same order of checks and mutations as the Go code (after the
   repairs listed in known_findings.jsonl).  SMP payloads are handled by Proto/Smp. *)
From OTR Require Import Go.Base Gen.Consts Bytes.Text Proto.SmpTypes Proto.Keys Proto.Smp Proto.SmpInst.
From RecordUpdate Require Import RecordSet.
Import RecordSetNotations.
Open Scope N_scope.

Definition kid := N.                         (* long-term key identity *)

(* keys derived from the AKE shared secret: which = 0 ssid, 1 c, 2 m1, 3 m2 (reveal), 4 c', 5 m1', 6 m2' (sig) *)
Record akey := { ak_sh : shared; ak_which : N }.
Definition akey_eqb (a b : akey) : bool := shared_eqb (ak_sh a) (ak_sh b) && (ak_which a =? ak_which b).

(* M_B: what a signature is computed over *)
Record mbval := { mb_key : akey; mb_gfirst : eid; mb_gsecond : eid; mb_pub : kid; mb_keyid : N }.
Definition mbval_eqb (a b : mbval) : bool :=
  akey_eqb (mb_key a) (mb_key b) && (mb_gfirst a =? mb_gfirst b) && (mb_gsecond a =? mb_gsecond b) &&
  (mb_pub a =? mb_pub b) && (mb_keyid a =? mb_keyid b).

(* X_B encrypted under c: (pub, keyid, sig_signer(over)) *)
Record encsig := { es_ckey : akey; es_pub : kid; es_keyid : N; es_signer : kid; es_over : mbval;
                   es_parses : bool (* the decrypted X parses as key + keyid + signature *) }.
Definition encsig_eqb (a b : encsig) : bool :=
  akey_eqb (es_ckey a) (es_ckey b) && (es_pub a =? es_pub b) && (es_keyid a =? es_keyid b) &&
  (es_signer a =? es_signer b) && mbval_eqb (es_over a) (es_over b) && Bool.eqb (es_parses a) (es_parses b).
Record emac := { em_key : akey; em_over : encsig; em_intact : bool }.

Inductive akebody : Type :=
| BCommit (enc_r : N) (enc_gx : eid) (hash_gx : eid)      (* AES_r(gx), SHA256(gx) *)
| BKey (gy : eid)
| BReveal (r : N) (es : encsig) (mac : emac)
| BSig (es : encsig) (mac : emac).

Inductive ebody : Type :=
| EAke (b : akebody)
| EData (d : sdata)
| EBadBody (ty : N) (flag : N).               (* header fine, body of message type [ty] does not parse; first body byte *)

Inductive wire : Type :=
| WPlain (t : bytes) (tag : option N)         (* text, optional whitespace tag offering the version bit set *)
| WQuery (versions : N)                       (* offered versions as a bit set, already restricted to {2,3} *)
| WError (t : bytes)
| WEnc (ver stag rtag : N) (body : ebody)
| WShort (ver : N)                            (* encoded message too short for its header *)
| WUndecodable                                (* looks like an encoded message, base64 does not decode *)
| WUnknown.                                   (* "?OTR" followed by something unrecognised *)

(* ---------------- state ---------------- *)
Record ake := {
  a_exp : option eid;                 (* secretExponent / ourPublicValue *)
  a_their : option eid;               (* theirPublicValue *)
  a_r : N;
  a_encGx : option (N * eid);         (* (key id, gx) of the stored AES_r(gx) *)
  a_hashGx : option eid;
  a_shared : option shared;           (* what revealKey / sigKey were derived from *)
  a_state : N;                        (* 0 none, 1 awaiting DH-Key, 2 awaiting Reveal-Sig, 3 awaiting Sig *)
  a_revealSigMsg : option wire;
  a_keys : keyctx;
  a_lastStateChange : option N;
  a_ssid : option shared;
  a_sentRevealSig : bool
}.

#[export] Instance eta_ake : Settable _ := settable! Build_ake <a_exp; a_their; a_r; a_encGx; a_hashGx; a_shared; a_state; a_revealSigMsg; a_keys; a_lastStateChange; a_ssid; a_sentRevealSig>.
#[export] Instance eta_keyctx : Settable _ := settable! Build_keyctx <ourKeyID; theirKeyID; ourCurrent; ourPrevious; theirCurrent; theirPrevious; counters; macHistory; oldMACKeys>.

Definition ake_init : ake :=
  {| a_exp := None; a_their := None; a_r := 0; a_encGx := None; a_hashGx := None; a_shared := None;
     a_state := 0; a_revealSigMsg := None; a_keys := keyctx_empty; a_lastStateChange := None;
     a_ssid := None; a_sentRevealSig := false |}.

Record conv := {
  c_who : N;                          (* party number, only used to draw fresh ids *)
  c_version : N;                      (* 0 = not committed *)
  c_policies : N;
  c_msgState : N;
  c_wsState : N;
  c_lastMsgStateChange : option N;
  c_ourTag : N; c_theirTag : N;
  c_ssid : option shared; c_sentRevealSig : bool;
  c_ourKey : kid; c_hasKey : bool; c_theirKey : option kid;
  c_ake : option ake;
  c_smp : smpst;
  c_keys : keyctx;
  c_hbLastSent : option N;
  c_mayRetransmit : N; c_resendMsgs : list bytes;
  c_injections : list wire;
  c_errHandler : bool;
  c_fresh : N                         (* counter for fresh exponents, r values, tags *)
}.

#[export] Instance eta_conv : Settable _ := settable! Build_conv <c_who; c_version; c_policies; c_msgState; c_wsState; c_lastMsgStateChange; c_ourTag; c_theirTag; c_ssid; c_sentRevealSig; c_ourKey; c_hasKey; c_theirKey; c_ake; c_smp; c_keys; c_hbLastSent; c_mayRetransmit; c_resendMsgs; c_injections; c_errHandler; c_fresh>.

Definition conv_init (who policies ourKey : N) : conv :=
  {| c_who := who; c_version := 0; c_policies := policies; c_msgState := c_plainText; c_wsState := c_whitespaceNotSent;
     c_lastMsgStateChange := None; c_ourTag := 0; c_theirTag := 0; c_ssid := None; c_sentRevealSig := false;
     c_ourKey := ourKey; c_hasKey := true; c_theirKey := None; c_ake := None; c_smp := smp_init; c_keys := keyctx_empty;
     c_hbLastSent := None; c_mayRetransmit := c_noRetransmit; c_resendMsgs := []; c_injections := [];
     c_errHandler := true; c_fresh := 0 |}.

(* --- record updates (one setter per field that changes) --- *)

(* fresh identifiers: party [who] draws 1000*who + 1, 2, ... *)
Definition draw (c : conv) : N * conv := (1000 * c_who c + c_fresh c + 1, (c <| c_fresh := c_fresh c + 1 |>)).

(* ---------------- events ---------------- *)
Definition evSec (e : N) : N := 100 + e.
Definition evSmp (e : N) : N := 200 + e.
Definition evKey : N := 300.

(* result of an API call *)
Record result := { r_plain : option bytes; r_out : list wire; r_err : N; r_events : list N;
                   r_extra : option skey }.
Definition res0 : result := {| r_plain := None; r_out := []; r_err := 0; r_events := []; r_extra := None |}.

(* interior computations thread the conversation and the events emitted so far *)
Definition M (A : Type) := conv -> list N -> (A * conv * list N).
Definition ret {A} (a : A) : M A := fun c ev => (a, c, ev).
Definition bind {A B} (m : M A) (f : A -> M B) : M B :=
  fun c ev => let '(a, c', ev') := m c ev in f a c' ev'.
Notation "'LET' x <- m 'IN' k" := (bind m (fun x => k)) (at level 200, x name, m at level 100, k at level 200, right associativity).
Notation "m ;;; k" := (bind m (fun _ => k)) (at level 199, k at level 200, right associativity).
Definition get : M conv := fun c ev => (c, c, ev).
Definition put (c' : conv) : M unit := fun _ ev => (tt, c', ev).
Definition modify (f : conv -> conv) : M unit := fun c ev => (tt, f c, ev).
Definition event (e : N) : M unit := fun c ev => (tt, c, ev ++ [e]).
Definition fresh : M N := fun c ev => let '(x, c') := draw c in (x, c', ev).

(* ---------------- version handling (version.go) ---------------- *)
Definition errUnsupported : N := 1.
(* commitToVersionFrom: Ok or error; setKeyMatchingVersion fails without a key *)
Definition commitToVersionFrom (versions : N) : M N :=
  LET c <- get IN
  if negb (c_version c =? 0) then ret 0
  else
    let v := pickVersion (c_policies c) versions in
    if v =? 0 then ret errUnsupported
    else modify (fun c => (c <| c_version := v |>)) ;;;
         ret (if c_hasKey c then 0 else 1).

(* ---------------- instance tags (otrv3.go, instance_tags.go) ---------------- *)
(* generateInstanceTag: drawn from Rand until >= 0x100; the mirror draws a valid one directly *)
Definition generateInstanceTag : M unit :=
  LET c <- get IN
  if negb (c_ourTag c =? 0) then ret tt
  else LET x <- fresh IN modify (fun c => (c <| c_ourTag := c_minValidInstanceTag + x |>)).

Definition malformedMessage : M unit :=
  event c_MessageEventReceivedMessageMalformed ;;;
  LET c <- get IN
  if c_errHandler c then modify (fun c => (c <| c_injections := c_injections c ++ [WError [c_ErrorCodeMessageMalformed]] |>))
  else ret tt.

(* verifyInstanceTags: 0 ok, 1 invalid message, 2 for another instance *)
Definition verifyInstanceTags (their our : N) : M N :=
  LET c <- get IN
  if (0 <? our) && (our <? c_minValidInstanceTag) then malformedMessage ;;; ret 1
  else if their <? c_minValidInstanceTag then malformedMessage ;;; ret 1
  else if (negb (our =? 0) && negb (c_ourTag c =? our)) ||
          (negb (c_theirTag c =? 0) && negb (c_theirTag c =? their))
  then event c_MessageEventReceivedMessageForOtherInstance ;;; ret 2
  else (if c_theirTag c =? 0 then modify (fun c => (c <| c_theirTag := their |>)) else ret tt) ;;; ret 0.

(* messageHeader: v3 generates our tag lazily *)
Definition messageHeader : M hdr :=
  LET c <- get IN
  if c_version c =? 3 then
    generateInstanceTag ;;;
    LET c <- get IN
    ret {| h_ver := 3; h_stag := c_ourTag c; h_rtag := c_theirTag c |}
  else ret {| h_ver := c_version c; h_stag := 0; h_rtag := 0 |}.

Definition wrap (b : ebody) : M wire :=
  LET h <- messageHeader IN ret (WEnc (h_ver h) (h_stag h) (h_rtag h) b).

(* ---------------- error messages, injections ---------------- *)
Definition generatePotentialErrorMessage (code : N) : M unit :=
  LET c <- get IN
  if c_errHandler c then modify (fun c => (c <| c_injections := c_injections c ++ [WError [code]] |>)) else ret tt.

Definition withInjects (out : list wire) : M (list wire) :=
  LET c <- get IN
  modify (fun c => (c <| c_injections := [] |>)) ;;;
  ret (out ++ c_injections c).

(* ---------------- resend (resend.go) ---------------- *)
Definition updateLastSent (now : N) : M unit := modify (fun c => (c <| c_hbLastSent := Some now |>)).

(* ---------------- sending data messages (data_message.go) ---------------- *)
Definition errCannotSendUnencrypted : N := 2.

(* genDataMsgWithFlag; [remember]: false while retransmitting *)
Definition genDataMsgWithFlag (text : bytes) (flag : N) (tlvs : list stlv) (retransmitting : bool)
  : M (R (wire * skey)) :=
  LET c <- get IN
  if negb (c_msgState c =? c_encrypted) then ret (Err errCannotSendUnencrypted)
  else
    (* key lookup and counter happen before the header is built *)
    match sessionKeysFor (c_keys c) (ourKeyID (c_keys c) - 1) (theirKeyID (c_keys c)) with
    | Err e => ret (Err e)
    | Panic => ret Panic
    | Ok _ =>
        LET h <- messageHeader IN
        LET c <- get IN
        match genDataMsg (c_keys c) h flag {| p_text := text; p_tlvs := tlvs |} with
        | Err e => ret (Err e)
        | Panic => ret Panic
        | Ok (d, k', x) =>
            modify (fun c => (c <| c_keys := k' |> <| c_mayRetransmit := c_noRetransmit |> <| c_resendMsgs := if retransmitting || (match text with [] => true | _ => false end)
                                          then c_resendMsgs c else [text] |>)) ;;;
            ret (Ok (WEnc (h_ver h) (h_stag h) (h_rtag h) (EData d), x))
        end
    end.

(* createSerializedDataMessage *)
Definition createSerializedDataMessage (now : N) (text : bytes) (flag : N) (tlvs : list stlv)
  : M (R (list wire * skey)) :=
  LET r <- genDataMsgWithFlag text flag tlvs false IN
  match r with
  | Ok (w, x) => updateLastSent now ;;; ret (Ok ([w], x))
  | Err e => ret (Err e)
  | Panic => ret Panic
  end.

(* retransmit: all queued texts, with the resend prefix when asked for; events afterwards *)
Fixpoint retransmit_loop (msgs : list bytes) (prefix : bool) (acc : list wire) : M (option (list wire)) :=
  match msgs with
  | [] => ret (Some acc)
  | m :: r =>
      let m' := if prefix then v_defaultResentPrefix ++ m else m in
      LET g <- genDataMsgWithFlag m' c_messageFlagNormal [] true IN
      match g with
      | Ok (w, _) => retransmit_loop r prefix (acc ++ [w])
      | _ => ret None
      end
  end.

Fixpoint emit_n (n : nat) (e : N) : M unit :=
  match n with O => ret tt | S k => event e ;;; emit_n k e end.

Definition maybeRetransmit (now : N) : M (list wire) :=
  LET c <- get IN
  if (match c_resendMsgs c with [] => true | _ => false end) || (c_mayRetransmit c =? c_noRetransmit)
  then ret []
  else
    let msgs := c_resendMsgs c in
    let resending := c_mayRetransmit c =? c_retransmitWithPrefix in
    modify (fun c => (c <| c_resendMsgs := [] |>)) ;;;
    LET r <- retransmit_loop msgs resending [] IN
    match r with
    | None => ret []
    | Some ws =>
        emit_n (length msgs) (if resending then c_MessageEventMessageResent else c_MessageEventMessageSent) ;;;
        updateLastSent now ;;;
        ret ws
    end.

(* retransmitAfterAKE; when nothing is retransmitted and MAC keys wait to be revealed (those of a session the exchange
   has replaced), a heartbeat carries them *)
Definition retransmitAfterAKE (now : N) : M (list wire) :=
  LET c <- get IN
  if c_msgState c =? c_encrypted then
    LET ws <- maybeRetransmit now IN
    LET c1 <- get IN
    match ws, oldMACKeys (c_keys c1) with
    | [], _ :: _ =>
        LET g <- genDataMsgWithFlag [] c_messageFlagIgnoreUnreadable [] false IN
        match g with
        | Ok (w, _) => updateLastSent now ;;; event c_MessageEventLogHeartbeatSent ;;; ret [w]
        | _ => ret []
        end
    | _, _ => ret ws
    end
  else ret [].

(* ---------------- AKE (ake.go, auth_state_machine.go) ---------------- *)
Definition set_ake (f : ake -> ake) : M unit :=
  modify (fun c => (c <| c_ake := match c_ake c with Some a => Some (f a) | None => None end |>)).



Definition the_ake (c : conv) : ake := match c_ake c with Some a => a | None => ake_init end.

(* ids >= junk_base: the first 16 stand for out-of-range group values (0, 1, p-1, p, ...) *)
Definition isGroupElement (e : eid) : bool := (e <? junk_base) || (junk_base + 16 <=? e).

(* dhCommitMessage + header + state (sendDHCommit) *)
Definition sendDHCommit : M wire :=
  modify (fun c => (c <| c_ake := Some ake_init |>)) ;;;
  LET x <- fresh IN
  LET r <- fresh IN
  set_ake (fun a => (a <| a_exp := Some x |> <| a_r := r |> <| a_encGx := Some (r, x) |>)) ;;;
  LET w <- wrap (EAke (BCommit r x x)) IN
  set_ake (fun a => (a <| a_state := 1 |>)) ;;;
  ret w.

(* calcAKEKeys *)
Definition calcAKEKeys (s : shared) : M unit :=
  set_ake (fun a => (a <| a_shared := Some s |> <| a_ssid := Some s |>)) ;;;
  LET c <- get IN
  if c_msgState c =? c_encrypted then ret tt else modify (fun c => (c <| c_ssid := Some s |>)).

Definition setSentRevealSig (v : bool) : M unit :=
  set_ake (fun a => (a <| a_sentRevealSig := v |>)) ;;;
  LET c <- get IN
  if c_msgState c =? c_encrypted then ret tt else modify (fun c => (c <| c_sentRevealSig := v |>)).

(* generateEncryptedSignature with key set [base] (1 = reveal keys, 4 = sig keys) *)
Definition generateEncryptedSignature (base : N) : M (encsig * emac) :=
  LET c <- get IN
  let a := the_ake c in
  let s := match a_shared a with Some s => s | None => mk_shared 0 0 end in
  let ours := match a_exp a with Some e => e | None => 0 end in
  let theirs := match a_their a with Some e => e | None => 0 end in
  let mb := {| mb_key := {| ak_sh := s; ak_which := base + 1 |}; mb_gfirst := ours; mb_gsecond := theirs;
               mb_pub := c_ourKey c; mb_keyid := ourKeyID (a_keys a) |} in
  let es := {| es_ckey := {| ak_sh := s; ak_which := base |}; es_pub := c_ourKey c;
               es_keyid := ourKeyID (a_keys a); es_signer := c_ourKey c; es_over := mb; es_parses := true |} in
  ret (es, {| em_key := {| ak_sh := s; ak_which := base + 2 |}; em_over := es; em_intact := true |}).

(* processEncryptedSig: true = accepted (peer key and key id adopted) *)
Definition processEncryptedSig (es : encsig) (mac : emac) (base : N) : M bool :=
  LET c <- get IN
  let a := the_ake c in
  let s := match a_shared a with Some s => s | None => mk_shared 0 0 end in
  let ours := match a_exp a with Some e => e | None => 0 end in
  let theirs := match a_their a with Some e => e | None => 0 end in
  (* MAC with m2 over the encrypted signature as received *)
  if negb (em_intact mac && akey_eqb (em_key mac) {| ak_sh := s; ak_which := base + 2 |} && encsig_eqb (em_over mac) es)
  then ret false
  (* decrypt with c: anything encrypted under another key is noise and does not parse *)
  else if negb (akey_eqb (es_ckey es) {| ak_sh := s; ak_which := base |} && es_parses es) then ret false
  else
    let expected := {| mb_key := {| ak_sh := s; ak_which := base + 1 |}; mb_gfirst := theirs; mb_gsecond := ours;
                       mb_pub := es_pub es; mb_keyid := es_keyid es |} in
    if negb ((es_signer es =? es_pub es) && mbval_eqb (es_over es) expected) then ret false
    else
      modify (fun c => (c <| c_theirKey := Some (es_pub es) |>)) ;;;
      set_ake (fun a => (a <| a_keys := ((a_keys a) <| theirKeyID := es_keyid es |>) |>)) ;;;
      ret true.

Definition keyctx_wipeAndKeepRevealKeys (k : keyctx) : keyctx :=
  {| ourKeyID := 0; theirKeyID := 0; ourCurrent := None; ourPrevious := None; theirCurrent := None;
     theirPrevious := None; counters := []; macHistory := []; oldMACKeys := oldMACKeys k |}.

(* akeHasFinished: returns unit; fresh exponent for the new DH pair.  The key pairs of a session that the exchange
   replaces are all retired by it: what waited for disclosure and every receiving MAC key used under them wait in the
   new key context (the repair of the refresh defect, see known_findings.jsonl) *)
Definition akeHasFinished (now : N) : M unit :=
  LET c <- get IN
  let a := the_ake c in
  let prev := c_msgState c in
  modify (fun c => (c <| c_ssid := a_ssid a |> <| c_sentRevealSig := a_sentRevealSig a |> <| c_keys := set_oldMACKeys (a_keys a) (oldMACKeys (c_keys c) ++ map mu_key (macHistory (c_keys c)) ++ oldMACKeys (a_keys a)) |> <| c_ake := Some ((ake_init <| a_state := a_state a |> <| a_revealSigMsg := a_revealSigMsg a |> <| a_lastStateChange := a_lastStateChange a |>)) |> <| c_lastMsgStateChange := Some now |> <| c_msgState := c_encrypted |>)) ;;;
  LET x <- fresh IN
  modify (fun c => let k := c_keys c in
                   (c <| c_keys := (k <| ourKeyID := ourKeyID k + 1 |> <| ourCurrent := Some x |> <| ourPrevious := ourCurrent k |>) |>)) ;;;
  event (evSec (if prev =? c_encrypted then c_StillSecure else c_GoneSecure)).

(* the sixteen state x message handlers.  Result: (message to send, error?) ; [aux] resolves the
   comparison of the two commitment hashes when both sides have sent a DH-Commit *)
Definition receiveDHCommit_none (b : akebody) : M (option wire * N) :=
  (* c.ake.wipe(true); dhKeyMessage (initAKE, fresh y); header; processDHCommit *)
  modify (fun c => (c <| c_ake := Some ake_init |>)) ;;;
  LET y <- fresh IN
  set_ake (fun a => (a <| a_exp := Some y |>)) ;;;
  LET w <- wrap (EAke (BKey y)) IN
  match b with
  | BCommit r gx h =>
      set_ake (fun a => (a <| a_encGx := Some (r, gx) |> <| a_hashGx := Some h |> <| a_state := 2 |>)) ;;;
      ret (Some w, 0)
  | _ => ret (None, 1)
  end.

Definition processAKE_body (now : N) (ty : N) (body : option akebody) (aux : N) : M (option wire * list wire * N) :=
  LET c <- get IN
  let st := a_state (the_ake c) in
  if ty =? c_msgTypeDHCommit then
    match st with
    | 3 =>
        (* awaiting the Signature message: a commit that cannot be read changes nothing *)
        match body with
        | Some b => LET r <- receiveDHCommit_none b IN ret (fst r, [], snd r)
        | None => ret (None, [], 1)
        end
    | 0 =>
        match body with
        | Some b => LET r <- receiveDHCommit_none b IN ret (fst r, [], snd r)
        | None =>
            (* deserialisation fails after the AKE context has been re-initialised *)
            modify (fun c => (c <| c_ake := Some ake_init |>)) ;;;
            LET y <- fresh IN set_ake (fun a => (a <| a_exp := Some y |>)) ;;;
            LET _ <- wrap (EAke (BKey y)) IN ret (None, [], 1)
        end
    | 2 =>
        (* a commit that cannot be read leaves the stored one alone *)
        match body with
        | Some (BCommit r gx h) =>
            set_ake (fun a => (a <| a_keys := keyctx_wipeAndKeepRevealKeys (a_keys a) |> <| a_encGx := None |> <| a_hashGx := None |>)) ;;;
            set_ake (fun a => (a <| a_encGx := Some (r, gx) |> <| a_hashGx := Some h |>)) ;;;
            LET c <- get IN
            LET w <- wrap (EAke (BKey (match a_exp (the_ake c) with Some e => e | None => 0 end))) IN
            ret (Some w, [], 0)
        | _ => ret (None, [], 1)
        end
    | _ => (* 1: awaiting DH-Key: both sides have committed *)
        match body with
        | Some (BCommit r gx h) =>
            if aux =? 1 then
              (* ours is the higher hash: resend our commit; the code then waits for a Reveal-Signature *)
              LET c <- get IN
              let a := the_ake c in
              let x := match a_exp a with Some e => e | None => 0 end in
              LET w <- wrap (EAke (BCommit (a_r a) x x)) IN
              set_ake (fun a => (a <| a_state := 2 |>)) ;;;
              ret (Some w, [], 0)
            else LET r <- receiveDHCommit_none (BCommit r gx h) IN ret (fst r, [], snd r)
        | _ => ret (None, [], 1)
        end
    end
  else if ty =? c_msgTypeDHKey then
    match st with
    | 1 =>
        match body with
        | Some (BKey gy) =>
            if negb (isGroupElement gy) then ret (None, [], 1)
            else
              set_ake (fun a => (a <| a_their := Some gy |>)) ;;;
              LET c <- get IN
              let a := the_ake c in
              let x := match a_exp a with Some e => e | None => 0 end in
              calcAKEKeys (mk_shared x gy) ;;;
              set_ake (fun a => (a <| a_keys := ((a_keys a) <| ourKeyID := ourKeyID (a_keys a) + 1 |>) |>)) ;;;
              LET em <- generateEncryptedSignature 1 IN
              LET c <- get IN
              LET w <- wrap (EAke (BReveal (a_r (the_ake c)) (fst em) (snd em))) IN
              set_ake (fun a => (a <| a_keys := ((a_keys a) <| theirCurrent := Some gy |> <| ourCurrent := Some x |>) |>)) ;;;
              setSentRevealSig true ;;;
              set_ake (fun a => (a <| a_state := 3 |> <| a_revealSigMsg := Some w |>)) ;;;
              ret (Some w, [], 0)
        | _ => ret (None, [], 1)
        end
    | 3 =>
        match body with
        | Some (BKey gy) =>
            if negb (isGroupElement gy) then ret (None, [], 1)
            else
              LET c <- get IN
              let a := the_ake c in
              if match a_their a with Some t => t =? gy | None => false end
              then ret (a_revealSigMsg a, [], 0) else ret (None, [], 0)
        | _ => ret (None, [], 1)
        end
    | _ => ret (None, [], 0)
    end
  else if ty =? c_msgTypeRevealSig then
    match st with
    | 2 =>
        match body with
        | Some (BReveal r es mac) =>
            LET c <- get IN
            let a := the_ake c in
            (* decrypt the stored AES_r(gx), compare with the stored hash, range-check *)
            match a_encGx a, a_hashGx a with
            | Some (kr, gx), Some h =>
                if negb ((kr =? r) && (gx =? h)) then ret (None, [], 1)
                else
                  set_ake (fun a => (a <| a_their := Some gx |>)) ;;;
                  if negb (isGroupElement gx) then ret (None, [], 1)
                  else
                    let y := match a_exp a with Some e => e | None => 0 end in
                    calcAKEKeys (mk_shared y gx) ;;;
                    LET ok <- processEncryptedSig es mac 1 IN
                    if negb ok then ret (None, [], 1)
                    else
                      set_ake (fun a => (a <| a_keys := ((a_keys a) <| ourKeyID := ourKeyID (a_keys a) + 1 |>) |>)) ;;;
                      LET em <- generateEncryptedSignature 4 IN
                      LET w <- wrap (EAke (BSig (fst em) (snd em))) IN
                      set_ake (fun a => (a <| a_keys := ((a_keys a) <| theirCurrent := Some gx |> <| ourCurrent := Some y |>) |>)) ;;;
                      setSentRevealSig false ;;;
                      set_ake (fun a => (a <| a_state := 0 |>)) ;;;
                      akeHasFinished now ;;;
                      LET ex <- retransmitAfterAKE now IN
                      ret (Some w, ex, 0)
            | _, _ => ret (None, [], 1)
            end
        | _ => ret (None, [], 1)
        end
    | _ => LET ex <- retransmitAfterAKE now IN ret (None, ex, 0)
    end
  else if ty =? c_msgTypeSig then
    match st with
    | 3 =>
        match body with
        | Some (BSig es mac) =>
            LET ok <- processEncryptedSig es mac 4 IN
            if negb ok then ret (None, [], 1)
            else
              LET c <- get IN
              let a := the_ake c in
              set_ake (fun a' => (a' <| a_keys := ((a_keys a') <| theirCurrent := a_their a |>) |> <| a_state := 0 |>)) ;;;
              akeHasFinished now ;;;
              LET ex <- retransmitAfterAKE now IN
              ret (None, ex, 0)
        | _ => ret (None, [], 1)
        end
    | _ => LET ex <- retransmitAfterAKE now IN ret (None, ex, 0)
    end
  else ret (None, [], 1).

Definition processAKE (now : N) (ty : N) (body : option akebody) (aux : N) : M (list wire * N) :=
  LET c <- get IN
  (match c_ake c with None => modify (fun c => (c <| c_ake := Some ake_init |>)) | Some _ => ret tt end) ;;;
  LET c0 <- get IN
  let st0 := match c_ake c0 with Some a => a_state a | None => 0 end in
  LET r <- processAKE_body now ty body aux IN
  let '(single, extra, err) := r in
  LET c1 <- get IN
  let st1 := match c_ake c1 with Some a => a_state a | None => 0 end in
  (* a message that was rejected or ignored does not count as progress of the key exchange *)
  (if (err =? 0) && ((match single with Some _ => true | None => false end) || negb (st1 =? st0))
   then set_ake (fun a => (a <| a_lastStateChange := Some now |>)) else ret tt) ;;;
  (if err =? 0 then ret tt else event c_MessageEventSetupError) ;;;
  ret ((match single with Some w => [w] | None => [] end) ++ extra, err).

(* ---------------- data messages: receiving ---------------- *)
Definition within (t : option N) (now window : N) : bool :=
  match t with Some t0 => now <? t0 + window | None => false end.

Definition secs60 : N := 60.

Definition smp_ctx_of (c : conv) : smp_ctx :=
  {| x_encrypted := c_msgState c =? c_encrypted; x_v3 := c_version c =? 3; x_ourFp := c_ourKey c;
     x_theirFp := match c_theirKey c with Some k => k | None => 0 end;
     x_ssid := match c_ssid c with Some s => (sh_lo s, sh_hi s) | None => (0, 0) end |}.

(* processTLVs.  Result: reply TLVs, or 1 = error, 9 = panic *)
Fixpoint processTLVs (rnd : list N) (tlvs : list stlv) (x : skey) (acc : list stlv) : M (list stlv + N) :=
  match tlvs with
  | [] => ret (inl acc)
  | t :: r =>
      match t with
      | TPadding => processTLVs rnd r x acc
      | TOther _ => processTLVs rnd r x acc
      | TDisconnected =>
          LET c <- get IN
          let prev := c_msgState c in
          modify (fun c => (c <| c_lastMsgStateChange := None |> <| c_msgState := c_finished |> <| c_smp := smp_wiped |> <| c_ake := None |> <| c_keys := keyctx_empty |> <| c_version := 0 |>)) ;;;
          (if prev =? c_encrypted then event (evSec c_GoneInsecure) else ret tt) ;;;
          (* the loop ends here: records behind the disconnect have no session to be processed in (fix in /repo) *)
          ret (inl acc)
      | TExtraKey usage data => event evKey ;;; processTLVs rnd r x acc
      | TSmp ty pl =>
          LET c <- get IN
          let sr := smp_receive_i (smp_ensure (c_smp c)) (smp_ctx_of c) ty pl rnd in
          modify (fun c => (c <| c_smp := sr_st sr |>)) ;;;
          (fun c ev => (tt, c, ev ++ map evSmp (sr_events sr))) ;;;
          if sr_panic sr then ret (inr 9)
          else if sr_err sr then ret (inr 1)
          else processTLVs rnd r x (acc ++ map (fun '(ty, pl) => TSmp ty pl) (sr_reply sr))
      end
  end.

Definition decideFlagFrom (tlvs : list stlv) : N :=
  if existsb (fun t => match t with TSmp ty _ => (c_tlvTypeSMP1 <=? ty) && (ty <=? c_tlvTypeSMP1WithQuestion) | _ => false end) tlvs
  then c_messageFlagIgnoreUnreadable else 0.

(* processDataMessageWithRawErrors.  Result: plaintext, reply, error class (0 ok, 1 other, 2 conflict, 3 not in private) *)
Definition processDataMessage (now : N) (d : sdata) (rnd : list N) : M (option bytes * list wire * N) :=
  LET c <- get IN
  if negb (c_msgState c =? c_encrypted) then
    event c_MessageEventReceivedMessageNotInPrivate ;;; ret (None, [], 3)
  else
    (* exponent used if our keys rotate; the draw is committed only when the message is accepted *)
    let x := fst (draw c) in
    match recvDataMsg (c_keys c) d x with
    | Err e => ret (None, [], e)
    | Panic => ret (None, [], 9)
    | Ok (pl, k', xk) =>
        let plain := match p_text pl with [] => None | t => Some t end in
        (match plain with None => event c_MessageEventLogHeartbeatReceived | Some _ => ret tt end) ;;;
        modify (fun c => (c <| c_keys := k' |> <| c_fresh := c_fresh c + 1 |>)) ;;;
        LET tl <- processTLVs rnd (p_tlvs pl) xk [] IN
        match tl with
        | inr e => ret (plain, [], e)
        | inl [] => ret (plain, [], 0)
        | inl reply =>
            LET g <- genDataMsgWithFlag [] (decideFlagFrom reply) reply false IN
            match g with
            | Ok (w, _) => ret (plain, [w], 0)
            | Err e => ret (plain, [], e)
            | Panic => ret (plain, [], 9)
            end
        end
    end.

Definition potentialHeartbeat (now : N) (plain : option bytes) : M (list wire * N) :=
  match plain with
  | None => ret ([], 0)
  | Some _ =>
      LET c <- get IN
      if within (c_hbLastSent c) now secs60 then ret ([], 0)
      else
        LET g <- genDataMsgWithFlag [] c_messageFlagIgnoreUnreadable [] false IN
        match g with
        | Ok (w, _) => updateLastSent now ;;; event c_MessageEventLogHeartbeatSent ;;; ret ([w], 0)
        | Err e => ret ([], e)
        | Panic => ret ([], 9)
        end
  end.

Definition receiveDataMessage (now : N) (d : sdata) (rnd : list N) : M (option bytes * list wire * N) :=
  LET r <- processDataMessage now d rnd IN
  let '(plain, out, err0) := r in
  (* processDataMessage: errors of a message flagged ignore-unreadable are dropped *)
  let ignore := N.land (af_flag (d_fields d)) c_messageFlagIgnoreUnreadable =? c_messageFlagIgnoreUnreadable in
  let err := if negb (err0 =? 0) && ignore then 0 else err0 in
  (* maybeHeartbeat *)
  LET r2 <- (if err =? 0 then
           (if negb (err0 =? 0) then ret (None, [], 0)
            else LET hb <- potentialHeartbeat now plain IN ret (plain, out ++ fst hb, snd hb))
         else ret (None, [], err)) IN
  let '(plain2, out2, err2) := r2 in
  (if err2 =? 0 then ret tt
   else if err2 =? 3 then ret tt
   else if err2 =? 2 then event c_MessageEventReceivedMessageUnreadable ;;; generatePotentialErrorMessage c_ErrorCodeMessageUnreadable
   else event c_MessageEventReceivedMessageMalformed ;;; generatePotentialErrorMessage c_ErrorCodeMessageMalformed) ;;;
  ret (plain2, out2, err2).

(* ---------------- Receive (receive.go) ---------------- *)
Definition checkPlaintextPolicies : M unit :=
  LET c <- get IN
  (if c_wsState c =? c_whitespaceSent then modify (fun c => (c <| c_wsState := c_whitespaceRejected |>)) else ret tt) ;;;
  LET c <- get IN
  if negb (c_msgState c =? c_plainText) || has (c_policies c) c_requireEncryption
  then event c_MessageEventReceivedMessageUnencrypted else ret tt.

Definition isWithinTimeToIgnore (t : option N) (now : N) : bool := within t now secs60.

Definition receiveQueryMessage (now : N) (versions : N) : M (list wire * N) :=
  LET c <- get IN
  (* extractVersionsFromQueryMessage keeps only versions the policy allows *)
  let vs := N.lor (if has (c_policies c) c_allowV3 then N.land versions 8 else 0)
                  (if has (c_policies c) c_allowV2 then N.land versions 4 else 0) in
  LET e <- commitToVersionFrom vs IN
  if negb (e =? 0) then ret ([], 1)
  else
    LET c <- get IN
    if ((c_msgState c =? c_encrypted) && isWithinTimeToIgnore (c_lastMsgStateChange c) now) ||
       (match c_ake c with Some a => isWithinTimeToIgnore (a_lastStateChange a) now | None => false end)
    then ret ([], 0)
    else LET w <- sendDHCommit IN ret ([w], 0).

Definition receiveDecoded (now : N) (ver stag rtag : N) (body : ebody) (aux : N) (rnd : list N) : M (option bytes * list wire * N) :=
  LET e <- commitToVersionFrom (2 ^ ver) IN
  if negb (e =? 0) then ret (None, [], 1)
  else
    LET c <- get IN
    if negb (c_version c =? ver) then ret (None, [], 1)
    else
      LET t <- (if ver =? 3 then verifyInstanceTags stag rtag else ret 0) IN
      if t =? 1 then ret (None, [], 1)
      else if t =? 2 then ret (None, [], 0)
      else
        match body with
        | EData d => receiveDataMessage now d rnd
        | EAke b =>
            let ty := match b with BCommit _ _ _ => c_msgTypeDHCommit | BKey _ => c_msgTypeDHKey
                               | BReveal _ _ _ => c_msgTypeRevealSig | BSig _ _ => c_msgTypeSig end in
            LET r <- processAKE now ty (Some b) aux IN ret (None, fst r, snd r)
        | EBadBody ty bflag =>
            if ty =? c_msgTypeData then
              receiveDataMessage now {| d_fields := {| af_ver := ver; af_stag := stag; af_rtag := rtag; af_flag := bflag; af_sk := 0;
                                                       af_rk := 0; af_y := 0; af_ctr := 0;
                                                       af_enckey := {| k_sh := mk_shared 0 0; k_role := 0 |}; af_encctr := 0 |};
                                        d_payload := {| p_text := []; p_tlvs := [] |}; d_enc_intact := false;
                                        d_mackey := {| k_sh := mk_shared 0 0; k_role := 0 |};
                                        d_macover := {| af_ver := 0; af_stag := 0; af_rtag := 0; af_flag := 0; af_sk := 0;
                                                        af_rk := 0; af_y := 0; af_ctr := 0;
                                                        af_enckey := {| k_sh := mk_shared 0 0; k_role := 0 |}; af_encctr := 0 |};
                                        d_macenc_intact := false; d_mac_intact := false; d_old := []; d_wellformed := false |} rnd
            else LET r <- processAKE now ty None aux IN ret (None, fst r, snd r)
        end.

(* forgetVersionUnlessKeyExchangeStarted: a version committed while looking at a message that was rejected or
   ignored is forgotten again; [before] is the version at entry *)
Definition forgetVersion (before : N) (err : N) : M unit :=
  LET c <- get IN
  if negb (before =? 0) || (c_msgState c =? c_encrypted) then ret tt
  else if negb (err =? 0) || (match c_ake c with Some a => a_state a =? 0 | None => true end)
  then modify (fun c => c <| c_version := 0 |>) else ret tt.

(* a message that ends up rejected does not bind the conversation to the instance it claims to come from *)
Definition forgetTag (before : N) (err : N) : M unit :=
  if (before =? 0) && negb (err =? 0) then modify (fun c => c <| c_theirTag := 0 |>) else ret tt.

Definition finish (plain : option bytes) (out : list wire) (err : N) : M result :=
  (* toSendEncoded drops the output when there is an error; injections are always flushed *)
  LET out' <- withInjects (if err =? 0 then out else []) IN
  fun c ev => ({| r_plain := plain; r_out := out'; r_err := err; r_events := ev; r_extra := None |}, c, ev).

Definition receive (now : N) (w : wire) (aux : N) (rnd : list N) : M result :=
  LET c <- get IN
  if negb (isOTREnabled (c_policies c)) then
    (fun c ev => ({| r_plain := (match w with WPlain t _ => Some t | _ => None end); r_out := []; r_err := 0;
                     r_events := ev; r_extra := None |}, c, ev))
  else
    match w with
    | WError t =>
        LET c <- get IN
        let out := if has (c_policies c) c_errorStartAKE then [WQuery (N.lor (if has (c_policies c) c_allowV2 then 4 else 0)
                                                                             (if has (c_policies c) c_allowV3 then 8 else 0))] else [] in
        (if c_msgState c =? c_encrypted then modify (fun c => (c <| c_mayRetransmit := c_retransmitWithPrefix |>)) else ret tt) ;;;
        event c_MessageEventReceivedMessageGeneralError ;;;
        LET out' <- withInjects out IN
        (fun c ev => ({| r_plain := None; r_out := out'; r_err := 0; r_events := ev; r_extra := None |}, c, ev))
    | WQuery versions => LET r <- receiveQueryMessage now versions IN finish None (fst r) (snd r)
    | WPlain t None => checkPlaintextPolicies ;;; finish (Some t) [] 0
    | WPlain t (Some versions) =>
        LET c <- get IN
        LET r <- (if negb (has (c_policies c) c_whitespaceStartAKE) then ret ([], 0)
              else LET e <- commitToVersionFrom versions IN
                   if negb (e =? 0) then ret ([], 1)
                   else LET w <- sendDHCommit IN ret ([w], 0)) IN
        checkPlaintextPolicies ;;;
        finish (Some t) (fst r) (snd r)
    | WUnknown => event c_MessageEventReceivedMessageUnrecognized ;;; finish None [] 0
    | WUndecodable => finish None [] 1
    | WShort ver =>
        LET c0 <- get IN
        LET e <- commitToVersionFrom (2 ^ ver) IN
        if negb (e =? 0) then forgetVersion (c_version c0) 1 ;;; finish None [] 1
        else LET c <- get IN
             if negb (c_version c =? ver) then finish None [] 1
             else (if ver =? 3 then malformedMessage else ret tt) ;;; forgetVersion (c_version c0) 1 ;;; finish None [] 1
    | WEnc ver stag rtag body =>
        LET c0 <- get IN
        LET r <- receiveDecoded now ver stag rtag body aux rnd IN
        let '(plain, out, err) := r in
        forgetVersion (c_version c0) err ;;; forgetTag (c_theirTag c0) err ;;; finish plain out err
    end.

(* ---------------- Send (send.go) ---------------- *)
Definition queryMessage (c : conv) : wire :=
  WQuery (N.lor (if has (c_policies c) c_allowV2 then 4 else 0) (if has (c_policies c) c_allowV3 then 8 else 0)).

Definition finishSend (out : list wire) (err : N) : M result :=
  LET out' <- withInjects out IN
  fun c ev => ({| r_plain := None; r_out := out'; r_err := err; r_events := ev; r_extra := None |}, c, ev).

Definition send (now : N) (t : bytes) : M result :=
  LET c <- get IN
  if negb (isOTREnabled (c_policies c)) then
    (fun c ev => ({| r_plain := None; r_out := [WPlain t None]; r_err := 0; r_events := ev; r_extra := None |}, c, ev))
  else if c_msgState c =? c_plainText then
    if has (c_policies c) c_requireEncryption then
      event c_MessageEventEncryptionRequired ;;;
      updateLastSent now ;;;
      modify (fun c => (c <| c_mayRetransmit := c_retransmitExact |> <| c_resendMsgs := c_resendMsgs c ++ [t] |>)) ;;;
      LET c <- get IN
      finishSend [queryMessage c] 0
    else if negb (has (c_policies c) c_sendWhitespaceTag) || (c_wsState c =? c_whitespaceRejected)
    then finishSend [WPlain t None] 0
    else
      modify (fun c => (c <| c_wsState := c_whitespaceSent |>)) ;;;
      finishSend [WPlain t (Some (N.lor (if has (c_policies c) c_allowV2 then 4 else 0)
                                        (if has (c_policies c) c_allowV3 then 8 else 0)))] 0
  else if c_msgState c =? c_encrypted then
    LET r <- createSerializedDataMessage now t c_messageFlagNormal [] IN
    match r with
    | Ok (ws, _) => finishSend ws 0
    | _ =>
        event c_MessageEventEncryptionError ;;;
        generatePotentialErrorMessage c_ErrorCodeEncryptionError ;;;
        finishSend [] 1
    end
  else
    event c_MessageEventConnectionEnded ;;; finishSend [] 1.

(* ---------------- End (conversation.go) ---------------- *)
Definition endConv (now : N) : M result :=
  LET c <- get IN
  let prev := c_msgState c in
  LET r <- (if prev =? c_encrypted then
          modify (fun c => (c <| c_smp := smp_wiped |>)) ;;;
          LET g <- createSerializedDataMessage now [] c_messageFlagIgnoreUnreadable [TDisconnected] IN
          match g with Ok (ws, _) => ret (ws, 0) | _ => ret ([], 1) end
        else ret ([], 0)) IN
  (if prev =? c_plainText then ret tt
   else modify (fun c => c <| c_resendMsgs := [] |> <| c_mayRetransmit := c_noRetransmit |>)) ;;;
  modify (fun c => (c <| c_lastMsgStateChange := None |> <| c_ake := None |> <| c_msgState := c_plainText |> <| c_version := 0 |> <| c_keys := ((set_oldMACKeys (set_macHistory (set_counters (c_keys c) []) []) []) <| ourKeyID := 0 |> <| theirKeyID := 0 |> <| ourCurrent := None |> <| ourPrevious := None |> <| theirCurrent := match theirCurrent (c_keys c) with Some _ => Some 0 | None => None end |> <| theirPrevious := None |>) |>)) ;;;
  (if prev =? c_encrypted then event (evSec c_GoneInsecure) else ret tt) ;;;
  fun c ev => ({| r_plain := None; r_out := fst r; r_err := snd r; r_events := ev; r_extra := None |}, c, ev).

(* ---------------- SMP and extra key user calls (authenticate.go, extra_key.go) ---------------- *)
Definition tlvs_of (l : list (N * smp_payload)) : list stlv := map (fun '(ty, pl) => TSmp ty pl) l.

Definition userSMP (now : N) (call : smp_call) (rnd : list N) : M result :=
  LET c <- get IN
  let sr := smp_user_i (c_smp c) (smp_ctx_of c) call rnd in
  modify (fun c => (c <| c_smp := sr_st sr |>)) ;;;
  (fun c ev => (tt, c, ev ++ map evSmp (sr_events sr))) ;;;
  if sr_panic sr then (fun c ev => ({| r_plain := None; r_out := []; r_err := 9; r_events := ev; r_extra := None |}, c, ev))
  else if sr_err sr then (fun c ev => ({| r_plain := None; r_out := []; r_err := 1; r_events := ev; r_extra := None |}, c, ev))
  else
    LET g <- createSerializedDataMessage now [] c_messageFlagIgnoreUnreadable (tlvs_of (sr_reply sr)) IN
    fun c ev => (match g with
                 | Ok (ws, _) => {| r_plain := None; r_out := ws; r_err := 0; r_events := ev; r_extra := None |}
                 | _ => {| r_plain := None; r_out := []; r_err := 1; r_events := ev; r_extra := None |}
                 end, c, ev).

(* a data message carrying arbitrary TLVs, sent through the established session (authenticated but
   deviant peers of the C12/C13 sweeps; in Go through a verif hook) *)
Definition sendTLVs (now : N) (tlvs : list stlv) : M result :=
  LET g <- createSerializedDataMessage now [] c_messageFlagIgnoreUnreadable tlvs IN
  fun c ev => (match g with
               | Ok (ws, _) => {| r_plain := None; r_out := ws; r_err := 0; r_events := ev; r_extra := None |}
               | _ => {| r_plain := None; r_out := []; r_err := 1; r_events := ev; r_extra := None |}
               end, c, ev).

Definition useExtraKey (now : N) (usage : N) (data : bytes) : M result :=
  LET c <- get IN
  if negb (c_msgState c =? c_encrypted) || (theirKeyID (c_keys c) =? 0) || (65531 <? lenN data) then
    (fun c ev => ({| r_plain := None; r_out := []; r_err := 1; r_events := ev; r_extra := None |}, c, ev))
  else
    LET g <- createSerializedDataMessage now [] c_messageFlagIgnoreUnreadable [TExtraKey usage data] IN
    fun c ev => (match g with
                 | Ok (ws, x) => {| r_plain := None; r_out := ws; r_err := 0; r_events := ev; r_extra := Some x |}
                 | _ => {| r_plain := None; r_out := []; r_err := 1; r_events := ev; r_extra := None |}
                 end, c, ev).

(* ---------------- the step function ---------------- *)
Inductive call : Type :=
| CSend (t : bytes)
| CReceive (w : wire) (aux : N) (rnd : list N)
| CEnd
| CSmp (s : smp_call) (rnd : list N)
| CExtraKey (usage : N) (data : bytes)
| CSendTLVs (tlvs : list stlv).

Definition step (now : N) (c : conv) (op : call) : conv * result :=
  let m := match op with
           | CSend t => send now t
           | CReceive w aux rnd => receive now w aux rnd
           | CEnd => endConv now
           | CSmp s rnd => userSMP now s rnd
           | CExtraKey u d => useExtraKey now u d
           | CSendTLVs tlvs => sendTLVs now tlvs
           end in
  let '(r, c', _) := m c [] in (c', r).
