(* C12: under protocol version 3 no SMP message and no user call makes the SMP machine panic, over every history.
   The Go code panics where ModInverse returns nil (division by 0 mod p) or where a state record it expects is
   missing; the mirror reports these as [sr_panic].  Invariant [Wf]: each state holds the records its handler will
   read, and the stored divisors are not 0 - which the range checks of version 3 guarantee for everything received. *)
From OTR Require Import Go.Base Gen.Consts Proto.SmpTypes Proto.Smp.
Open Scope N_scope.

Section SmpSafe.
  Variable q : N.
  Variable H : N -> list elem -> N.
  Variable secretHash : bool -> N -> N -> N * N -> bytes -> N.

  Definition nz (e : elem) : Prop := e <> EZero.
  Definition Wf (s : smpst) : Prop :=
    (sm_state s = 2 -> sm_s1 s <> None /\ sm_secret s <> None) /\
    (sm_state s = 3 -> exists s2, sm_s2 s = Some s2 /\ nz (s2_pb s2) /\ nz (s2_qb s2)) /\
    (sm_state s = 4 -> sm_s1 s <> None /\ sm_s3 s <> None) /\
    (sm_state s = 5 -> exists m, sm_waiting s = Some m /\ nz (m1_g2a m) /\ nz (m1_g3a m)).

  Lemma nz_exp g x : nz g -> nz (el_exp q g x).
  Proof. unfold nz, el_exp. destruct (x =? 0); [discriminate|]. destruct g; [discriminate | tauto | discriminate]. Qed.
  Lemma nz_mul a b : nz a -> nz b -> nz (el_mul q a b).
  Proof. unfold nz, el_mul. destruct a, b; try discriminate; tauto. Qed.
  Lemma nz_g1 : nz g1e. Proof. discriminate. Qed.
  Lemma in_range_nz g : in_range q true g = true -> nz g.
  Proof. unfold in_range, nz. cbn. destruct g; [discriminate | discriminate | discriminate]. Qed.
  Lemma el_div_some a b : nz b -> exists r, el_div q a b = Some r.
  Proof. unfold nz, el_div. destruct b; [eauto | tauto | eauto]. Qed.

  Lemma Wf_state1 s n : n <> 2 -> n <> 3 -> n <> 4 -> n <> 5 -> Wf (set_state s n).
  Proof. intros. unfold Wf, set_state; cbn. repeat split; intros; congruence. Qed.
  Lemma Wf_init : Wf smp_init.
  Proof. unfold Wf; cbn. repeat split; intros; discriminate. Qed.
  Lemma Wf_ensure s : Wf s -> Wf (smp_ensure s).
  Proof.
    unfold smp_ensure. destruct (N.eqb_spec (sm_state s) 0) as [E|E]; [|auto].
    intros _. unfold Wf; cbn. repeat split; intros; discriminate.
  Qed.
  Lemma Wf_wipe s : Wf (wipe_keep_state1 s).
  Proof. unfold Wf, wipe_keep_state1; cbn. repeat split; intros; discriminate. Qed.
  Lemma Wf_abort s ev : Wf (sr_st (abort_with s ev)).
  Proof. apply Wf_state1; discriminate. Qed.

  Lemma start_safe s x question secret rnd : Wf s ->
    sr_panic (startAuthenticate q H secretHash s x question secret rnd) = false /\
    Wf (sr_st (startAuthenticate q H secretHash s x question secret rnd)).
  Proof.
    intros W. unfold startAuthenticate. destruct (negb (x_encrypted x)); [split; [reflexivity | exact W]|].
    cbv zeta. destruct (genZKP q H _ _ 1) as [c2 d2]. destruct (genZKP q H _ _ 2) as [c3 d3]. cbn.
    split; [reflexivity|]. unfold Wf; cbn. repeat split; intros; try discriminate.
  Qed.

  Lemma provide_safe s x secret rnd : Wf s ->
    sr_panic (provideSecret q H secretHash s x secret rnd) = false /\
    Wf (sr_st (provideSecret q H secretHash s x secret rnd)).
  Proof.
    intros W0. pose proof (Wf_ensure s W0) as W. unfold provideSecret. cbv zeta.
    set (s' := smp_ensure s) in *. destruct (N.eqb_spec (sm_state s') 5) as [E|E].
    - destruct (negb (x_encrypted x)); [split; [reflexivity | apply Wf_state1; discriminate]|].
      destruct W as [_ [_ [_ W5]]]. destruct (W5 E) as [m [Em [N2 N3]]]. rewrite Em.
      unfold generateSMP2. cbv zeta. destruct (genZKP q H _ _ 3) as [c2 d2]. destruct (genZKP q H _ _ 4) as [c3 d3]. cbn.
      split; [reflexivity|]. unfold Wf; cbn. repeat split; intros; try discriminate.
      eexists. split; [reflexivity|]. cbn. split.
      + apply nz_exp, nz_exp. exact N3.
      + apply nz_mul; [apply nz_exp, nz_g1 | apply nz_exp, nz_exp; exact N2].
    - split; [reflexivity | apply Wf_state1; discriminate].
  Qed.

  Theorem user_safe s x c rnd : Wf s ->
    sr_panic (smp_user q H secretHash s x c rnd) = false /\ Wf (sr_st (smp_user q H secretHash s x c rnd)).
  Proof.
    intros W. destruct c as [question secret|secret|]; cbn [smp_user].
    - cbv zeta. pose proof (start_safe (smp_ensure s) x question secret rnd (Wf_ensure s W)) as [P1 P2].
      destruct (sm_state (smp_ensure s) =? 1); [split; assumption|].
      destruct (sr_err _); [split; assumption|]. cbn. split; [reflexivity | exact P2].
    - apply provide_safe. exact W.
    - split; [reflexivity | apply Wf_state1; discriminate].
  Qed.

  Lemma receive1_safe s x pl wq : x_v3 x = true -> Wf s ->
    sr_panic (receive1 q H s x pl wq) = false /\ Wf (sr_st (receive1 q H s x pl wq)).
  Proof.
    intros V W. unfold receive1. destruct (negb (sm_state s =? 1)); [split; [reflexivity | apply Wf_abort]|].
    cbv zeta. rewrite V.
    match goal with |- context [if negb ?b then _ else _] => destruct b eqn:C end; cbn [negb]; [|split; [reflexivity | apply Wf_abort]].
    repeat (apply andb_true_iff in C as [C ?]).
    cbn. split; [reflexivity|]. unfold Wf; cbn. repeat split; intros; try discriminate.
    eexists. split; [reflexivity|]. cbn. split; apply in_range_nz; assumption.
  Qed.

  Lemma receive2_safe s x pl rnd : x_v3 x = true -> Wf s ->
    sr_panic (receive2 q H s x pl rnd) = false /\ Wf (sr_st (receive2 q H s x pl rnd)).
  Proof.
    intros V W. unfold receive2. destruct (N.eqb_spec (sm_state s) 2) as [E|E]; cbn [negb]; [|split; [reflexivity | apply Wf_abort]].
    destruct W as [W2 _]. destruct (W2 E) as [N1 N2].
    destruct (sm_s1 s) as [s1|]; [|contradiction]. destruct (sm_secret s) as [xs|]; [|contradiction].
    cbv zeta. rewrite V.
    match goal with |- context [if negb ?b then _ else _] => destruct b eqn:C end; cbn [negb]; [|split; [reflexivity | apply Wf_abort]].
    repeat (apply andb_true_iff in C as [C ?]).
    match goal with Hq : in_range q true (el_at (sp_vals pl) 7) = true |- _ => pose proof (in_range_nz _ Hq) as Nq end.
    match goal with Hp : in_range q true (el_at (sp_vals pl) 6) = true |- _ => pose proof (in_range_nz _ Hp) as Np end.
    match goal with |- context [el_div q ?a (el_at (sp_vals pl) 7)] => destruct (el_div_some a _ Nq) as [r1 ->] end.
    match goal with |- context [el_div q ?a (el_at (sp_vals pl) 6)] => destruct (el_div_some a _ Np) as [r2 ->] end.
    cbn. split; [reflexivity|]. unfold Wf; cbn. repeat split; intros; try discriminate.
  Qed.

  Lemma receive3_safe s x pl rnd : Wf s ->
    sr_panic (receive3 q H s x pl rnd) = false /\ Wf (sr_st (receive3 q H s x pl rnd)).
  Proof.
    intros W. unfold receive3. destruct (N.eqb_spec (sm_state s) 3) as [E|E]; cbn [negb]; [|split; [reflexivity | apply Wf_abort]].
    destruct W as [_ [W3 _]]. destruct (W3 E) as [s2 [E2 [Np Nq]]]. rewrite E2. cbv zeta.
    match goal with |- context [if negb ?b then _ else _] => destruct b end; cbn [negb]; [|split; [reflexivity | apply Wf_abort]].
    match goal with |- context [el_div q ?a (s2_qb s2)] => destruct (el_div_some a _ Nq) as [r1 ->] end.
    match goal with |- context [if negb ?b then _ else _] => destruct b end; cbn [negb]; [|split; [reflexivity | apply Wf_abort]].
    match goal with |- context [el_div q ?a (s2_pb s2)] => destruct (el_div_some a _ Np) as [r2 ->] end.
    match goal with |- context [if negb ?b then _ else _] => destruct b end; cbn [negb]; [|split; [reflexivity | apply Wf_abort]].
    cbn. split; [reflexivity | apply Wf_wipe].
  Qed.

  Lemma receive4_safe s x pl : Wf s ->
    sr_panic (receive4 q H s x pl) = false /\ Wf (sr_st (receive4 q H s x pl)).
  Proof.
    intros W. unfold receive4. destruct (N.eqb_spec (sm_state s) 4) as [E|E]; cbn [negb]; [|split; [reflexivity | apply Wf_abort]].
    destruct W as [_ [_ [W4 _]]]. destruct (W4 E) as [N1 N3].
    destruct (sm_s1 s) as [s1|]; [|contradiction]. destruct (sm_s3 s) as [s3|]; [|contradiction]. cbv zeta.
    match goal with |- context [if negb ?b then _ else _] => destruct b end; cbn [negb]; [|split; [reflexivity | apply Wf_abort]].
    match goal with |- context [if negb ?b then _ else _] => destruct b end; cbn [negb]; [|split; [reflexivity | apply Wf_abort]].
    cbn. split; [reflexivity | apply Wf_wipe].
  Qed.

  Theorem receive_safe s x ty pl rnd : x_v3 x = true -> Wf s ->
    sr_panic (smp_receive q H s x ty pl rnd) = false /\ Wf (sr_st (smp_receive q H s x ty pl rnd)).
  Proof.
    intros V W. unfold smp_receive.
    destruct (_ || _); [split; [reflexivity | exact W]|].
    destruct (ty =? c_tlvTypeSMP1); [apply receive1_safe; assumption|].
    destruct (ty =? c_tlvTypeSMP1WithQuestion); [apply receive1_safe; assumption|].
    destruct (ty =? c_tlvTypeSMP2); [apply receive2_safe; assumption|].
    destruct (ty =? c_tlvTypeSMP3); [apply receive3_safe; assumption|].
    destruct (ty =? c_tlvTypeSMP4); [apply receive4_safe; assumption|].
    split; [reflexivity | apply Wf_state1; discriminate].
  Qed.

  (* ---- every history of user calls and received SMP messages (any content) under version 3 ---- *)
  Inductive smp_in := IUser (c : smp_call) (rnd : list N) | IRecv (ty : N) (pl : smp_payload) (rnd : list N).
  Definition smp_do (x : smp_ctx) (s : smpst) (i : smp_in) : sres :=
    match i with
    | IUser c rnd => smp_user q H secretHash s x c rnd
    | IRecv ty pl rnd => smp_receive q H (smp_ensure s) x ty pl rnd
    end.
  Fixpoint smp_run (x : smp_ctx) (s : smpst) (h : list smp_in) : bool * smpst :=   (* (panicked?, final state) *)
    match h with
    | [] => (false, s)
    | i :: r => let res := smp_do x s i in
                if sr_panic res then (true, sr_st res) else smp_run x (sr_st res) r
    end.

  Theorem never_panics_v3 x h : x_v3 x = true -> forall s, Wf s -> fst (smp_run x s h) = false /\ Wf (snd (smp_run x s h)).
  Proof.
    intros V. induction h as [|i r IH]; intros s W; cbn [smp_run]; [split; [reflexivity | exact W]|].
    assert (P : sr_panic (smp_do x s i) = false /\ Wf (sr_st (smp_do x s i))).
    { destruct i as [c rnd|ty pl rnd]; cbn [smp_do]; [apply user_safe; exact W | apply receive_safe; [exact V | apply Wf_ensure; exact W]]. }
    destruct P as [P1 P2]. rewrite P1. apply IH. exact P2.
  Qed.

  Corollary never_panics_v3_init x h : x_v3 x = true -> fst (smp_run x smp_init h) = false.
  Proof. intros V. exact (proj1 (never_panics_v3 x h V smp_init Wf_init)). Qed.

  (* ... and it is never wedged: whatever happened before, the user can start a new run *)
  Theorem can_always_restart s x question secret rnd : x_encrypted x = true ->
    let r := smp_user q H secretHash s x (SStart question secret) rnd in
    sr_err r = false /\ sm_state (sr_st r) = 2 /\ sr_reply r <> [].
  Proof.
    intros E. cbn [smp_user]. cbv zeta. unfold startAuthenticate. rewrite E. cbn [negb]. cbv zeta.
    destruct (genZKP q H _ _ 1) as [c2 d2]. destruct (genZKP q H _ _ 2) as [c3 d3].
    destruct (sm_state (smp_ensure s) =? 1); cbn; repeat split; discriminate.
  Qed.
End SmpSafe.
