(* C11 / C12: theorems about the SMP model. *)
From OTR Require Import Go.Base Gen.Consts Proto.SmpTypes Proto.Smp.
From Coq Require Import ZifyBool ZifyN ZifyNat.
Open Scope N_scope.

Section SMPProofs.
  Variable q : N.
  Variable H : N -> list elem -> N.
  Variable secretHash : bool -> N -> N -> N * N -> bytes -> N.

  Notation receive3 := (receive3 q H).
  Notation receive4 := (receive4 q H).
  Notation smp_receive := (smp_receive q H).

  (* the constants are distinct *)
  Lemma ev_distinct : evSuccess <> evError /\ evSuccess <> evCheated /\ evSuccess <> evFailure /\ evSuccess <> evAbort /\
                      evSuccess <> evInProgress /\ evSuccess <> evAskForSecret /\ evSuccess <> evAskForAnswer.
  Proof. repeat split; discriminate. Qed.

  (* C12: the responder reports success only in the branch where the range checks, both proofs of message 3
     and the final equation Ra^b3 = Pa/Pb all evaluated to true on the received values *)
  Theorem success3_only_after_all_checks s x pl rnd :
    In evSuccess (sr_events (receive3 s x pl rnd)) ->
    sm_state s = 3 /\ exists s2, sm_s2 s = Some s2 /\
      let v := sp_vals pl in
      let pa := el_at v 0 in let qa := el_at v 1 in let cp := num_at v 2 in
      let d5 := num_at v 3 in let d6 := num_at v 4 in let ra := el_at v 5 in
      let cr := num_at v 6 in let d7 := num_at v 7 in
      in_range q (x_v3 x) pa = true /\ in_range q (x_v3 x) qa = true /\ in_range q (x_v3 x) ra = true /\
      verifyZKP2 q H (s2_g2 s2) (s2_g3 s2) d5 d6 pa qa cp 6 = true /\
      exists qaqb papb, el_div q qa (s2_qb s2) = Some qaqb /\ el_div q pa (s2_pb s2) = Some papb /\
        verifyZKP4 q H cr (s2_g3a s2) d7 qaqb ra 7 = true /\
        el_eqb q (el_exp q ra (s2_b3 s2)) papb = true.
  Proof.
    unfold Smp.receive3.
    destruct (sm_state s =? 3) eqn:Es; cbn [negb]; [|cbn; intros [E|[]]; discriminate E].
    apply N.eqb_eq in Es. destruct (sm_s2 s) as [s2|]; [|cbn; tauto].
    cbv zeta.
    destruct (in_range q (x_v3 x) (el_at (sp_vals pl) 0)) eqn:R1; cbn [andb negb]; [|cbn; intros [E|[]]; discriminate E].
    destruct (in_range q (x_v3 x) (el_at (sp_vals pl) 1)) eqn:R2; cbn [andb negb]; [|cbn; intros [E|[]]; discriminate E].
    destruct (in_range q (x_v3 x) (el_at (sp_vals pl) 5)) eqn:R3; cbn [andb negb]; [|cbn; intros [E|[]]; discriminate E].
    destruct (verifyZKP2 q H _ _ _ _ _ _ _ 6) eqn:Z2; cbn [negb]; [|cbn; intros [E|[]]; discriminate E].
    destruct (el_div q (el_at (sp_vals pl) 1) (s2_qb s2)) as [qaqb|] eqn:D1; [|cbn; tauto].
    destruct (verifyZKP4 q H _ _ _ qaqb _ 7) eqn:Z4; cbn [negb]; [|cbn; intros [E|[]]; discriminate E].
    destruct (el_div q (el_at (sp_vals pl) 0) (s2_pb s2)) as [papb|] eqn:D2; [|cbn; tauto].
    destruct (el_eqb q _ papb) eqn:Eq; cbn [negb]; [|cbn; intros [E|[]]; discriminate E].
    intros _. split; [exact Es|]. exists s2. split; [reflexivity|]. cbv zeta.
    repeat split; auto. exists qaqb, papb. repeat split; auto.
  Qed.

  Theorem success4_only_after_all_checks s x pl :
    In evSuccess (sr_events (receive4 s x pl)) ->
    sm_state s = 4 /\ exists s1 s3, sm_s1 s = Some s1 /\ sm_s3 s = Some s3 /\
      let v := sp_vals pl in
      let rb := el_at v 0 in let cr := num_at v 1 in let d7 := num_at v 2 in
      in_range q (x_v3 x) rb = true /\ verifyZKP4 q H cr (s3_g3b s3) d7 (s3_qaqb s3) rb 8 = true /\
      el_eqb q (el_exp q rb (s1_a3 s1)) (s3_papb s3) = true.
  Proof.
    unfold Smp.receive4.
    destruct (sm_state s =? 4) eqn:Es; cbn [negb]; [|cbn; intros [E|[]]; discriminate E].
    apply N.eqb_eq in Es. destruct (sm_s1 s) as [s1|]; [|cbn; tauto]. destruct (sm_s3 s) as [s3|]; [|cbn; tauto].
    cbv zeta.
    destruct (in_range q (x_v3 x) (el_at (sp_vals pl) 0)) eqn:R1; cbn [andb negb]; [|cbn; intros [E|[]]; discriminate E].
    destruct (verifyZKP4 q H _ _ _ _ _ 8) eqn:Z4; cbn [negb]; [|cbn; intros [E|[]]; discriminate E].
    destruct (el_eqb q _ _) eqn:Eq; cbn [negb]; [|cbn; intros [E|[]]; discriminate E].
    intros _. split; [exact Es|]. exists s1, s3. repeat split; auto.
  Qed.

  (* no other SMP message ever makes the receiver report success *)
  Theorem success_only_from_msg3_or_msg4 s x ty pl rnd :
    In evSuccess (sr_events (smp_receive s x ty pl rnd)) -> ty = c_tlvTypeSMP3 \/ ty = c_tlvTypeSMP4.
  Proof.
    unfold Smp.smp_receive.
    destruct (_ || _); [cbn; tauto|].
    destruct (N.eqb_spec ty c_tlvTypeSMP1).
    { unfold receive1. destruct (negb (sm_state s =? 1)); [cbn; intros [E|[]]; discriminate E|].
      destruct (negb _); cbn; [intros [E|[]]; discriminate E | intros [E|[]]; discriminate E]. }
    destruct (N.eqb_spec ty c_tlvTypeSMP1WithQuestion).
    { unfold receive1. destruct (negb (sm_state s =? 1)); [cbn; intros [E|[]]; discriminate E|].
      destruct (negb _); cbn; [intros [E|[]]; discriminate E | intros [E|[]]; discriminate E]. }
    destruct (N.eqb_spec ty c_tlvTypeSMP2).
    { unfold receive2. destruct (negb (sm_state s =? 2)); [cbn; intros [E|[]]; discriminate E|].
      destruct (sm_s1 s); [|cbn; tauto]. destruct (sm_secret s); [|cbn; tauto]. cbv zeta.
      destruct (negb _); [cbn; intros [E|[]]; discriminate E|].
      destruct (el_div _ _ _); [|cbn; tauto]. destruct (el_div _ _ _); [|cbn; tauto].
      cbn. intros [E|[]]; discriminate E. }
    destruct (N.eqb_spec ty c_tlvTypeSMP3); [auto|].
    destruct (N.eqb_spec ty c_tlvTypeSMP4); [auto|].
    cbn. intros [E|[]]; discriminate E.
  Qed.
End SMPProofs.
