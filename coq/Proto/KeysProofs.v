(* Theorems about the key-management / data-message sub-machine (C02, C05, C06 data part, C09, C19). *)
From OTR Require Import Go.Base Proto.SmpTypes Proto.Keys.
From Coq Require Import ZifyBool ZifyN ZifyNat.
Open Scope N_scope.

(* ---------- decidable equalities reflect ---------- *)
Lemma shared_eqb_eq x y : shared_eqb x y = true <-> x = y.
Proof.
  unfold shared_eqb. destruct x, y; cbn. rewrite andb_true_iff, !N.eqb_eq. split.
  - intros [-> ->]; reflexivity.
  - intros H; inversion H; auto.
Qed.
Lemma skey_eqb_eq x y : skey_eqb x y = true <-> x = y.
Proof.
  unfold skey_eqb. destruct x as [s1 r1], y as [s2 r2]; cbn. rewrite andb_true_iff, shared_eqb_eq, N.eqb_eq. split.
  - intros [-> ->]; reflexivity.
  - intros H; inversion H; auto.
Qed.
Lemma skey_eqb_refl x : skey_eqb x x = true. Proof. apply skey_eqb_eq; reflexivity. Qed.

Lemma authfields_eqb_eq a b : authfields_eqb a b = true <-> a = b.
Proof.
  unfold authfields_eqb. destruct a, b; cbn.
  rewrite !andb_true_iff, !N.eqb_eq, skey_eqb_eq. split.
  - intros [[[[[[[[[-> ->] ->] ->] ->] ->] ->] ->] ->] ->]. reflexivity.
  - intros H; inversion H; subst. repeat split; reflexivity.
Qed.

(* ---------- C02: what acceptance implies ---------- *)
(* a valid authenticator was computed, with exactly the receiving key, over exactly the fields
   and ciphertext that stand in the message *)
Theorem mac_valid_spec d key : mac_valid d key = true ->
  d_mac_intact d = true /\ d_mackey d = key /\ d_macover d = d_fields d /\ d_macenc_intact d = d_enc_intact d.
Proof.
  unfold mac_valid. rewrite !andb_true_iff, skey_eqb_eq, authfields_eqb_eq, Bool.eqb_true_iff. tauto.
Qed.

Theorem recv_accept_checks k d fresh pl k' x : recvDataMsg k d fresh = Ok (pl, k', x) ->
  d_wellformed d = true /\
  exists keys, sessionKeysFor k (af_rk (d_fields d)) (af_sk (d_fields d)) = Ok keys /\
               mac_valid d (receivingKey keys) = true /\
               (exists k1, checkMessageCounter k (af_rk (d_fields d)) (af_sk (d_fields d)) (af_ctr (d_fields d)) = Ok k1) /\
               pl = d_payload d /\ x = extraKey keys.
Proof.
  unfold recvDataMsg. destruct (d_wellformed d); cbn [negb]; [|discriminate].
  destruct (sessionKeysFor k _ _) as [keys| |] eqn:Ek; cbn [bindR]; try discriminate.
  destruct (mac_valid d (receivingKey keys)) eqn:Em; cbn [negb]; [|discriminate].
  destruct (checkMessageCounter k _ _ _) as [k1| |] eqn:Ec; cbn [bindR]; try discriminate.
  destruct (skey_eqb _ _ && _ && _); [|discriminate].
  intros H. injection H as <- <- <-. split; [reflexivity|]. exists keys. repeat split; eauto.
Qed.

(* a key lookup succeeds only inside the two-by-two window of current / previous key ids *)
Theorem sessionKeys_window k o t keys : sessionKeysFor k o t = Ok keys ->
  o <> 0 /\ t <> 0 /\ (o = ourKeyID k \/ o = ourKeyID k - 1) /\ (t = theirKeyID k \/ t = theirKeyID k - 1).
Proof.
  unfold sessionKeysFor, pickOurKeys, pickTheirKey.
  destruct (N.eqb_spec o 0); cbn [orb bindR]; [discriminate|].
  destruct (N.eqb_spec (ourKeyID k) 0); cbn [orb bindR]; [discriminate|].
  destruct (N.eqb_spec o (ourKeyID k)).
  - destruct (ourCurrent k); cbn [bindR]; [|discriminate].
    destruct (N.eqb_spec t 0); cbn [orb bindR]; [discriminate|].
    destruct (N.eqb_spec (theirKeyID k) 0); cbn [orb bindR]; [discriminate|].
    destruct (N.eqb_spec t (theirKeyID k)).
    + destruct (theirCurrent k); cbn [bindR]; [|discriminate]. intros _. repeat split; auto.
    + destruct (N.eqb_spec t (theirKeyID k - 1)); [|discriminate].
      destruct (theirPrevious k); cbn [bindR]; [|discriminate]. intros _. repeat split; auto.
  - destruct (N.eqb_spec o (ourKeyID k - 1)); cbn [bindR]; [|discriminate].
    destruct (ourPrevious k); cbn [bindR]; [|discriminate].
    destruct (N.eqb_spec t 0); cbn [orb bindR]; [discriminate|].
    destruct (N.eqb_spec (theirKeyID k) 0); cbn [orb bindR]; [discriminate|].
    destruct (N.eqb_spec t (theirKeyID k)).
    + destruct (theirCurrent k); cbn [bindR]; [|discriminate]. intros _. repeat split; auto.
    + destruct (N.eqb_spec t (theirKeyID k - 1)); [|discriminate].
      destruct (theirPrevious k); cbn [bindR]; [|discriminate]. intros _. repeat split; auto.
Qed.

(* the two ends of a key pair derive mirrored keys *)
Theorem session_keys_mirror a b : a <> b ->
  sendingKey (calcSessionKeys a b) = receivingKey (calcSessionKeys b a) /\
  receivingKey (calcSessionKeys a b) = sendingKey (calcSessionKeys b a) /\
  extraKey (calcSessionKeys a b) = extraKey (calcSessionKeys b a).
Proof.
  intros H. unfold calcSessionKeys, mk_shared.
  destruct (N.ltb_spec b a), (N.ltb_spec a b), (N.leb_spec a b), (N.leb_spec b a); try lia; cbn; auto.
Qed.

(* ---------- counters ---------- *)
Definition pair_is (o t : N) (c : keyPairCounter) : bool := (kc_our c =? o) && (kc_their c =? t).
Definition ctr_of (cs : list keyPairCounter) (o t : N) : N :=
  match find_counter cs o t with Some c => kc_theirCtr c | None => 0 end.
Definition keeps_ids (g : keyPairCounter -> keyPairCounter) : Prop :=
  forall c, kc_our (g c) = kc_our c /\ kc_their (g c) = kc_their c.

Lemma find_counter_app_new cs o t c0 : find_counter cs o t = None -> kc_our c0 = o -> kc_their c0 = t ->
  find_counter (cs ++ [c0]) o t = Some c0.
Proof.
  unfold find_counter. induction cs as [|x cs IH]; cbn; intros H Ho Ht.
  - rewrite Ho, Ht, !N.eqb_refl. reflexivity.
  - destruct ((kc_our x =? o) && (kc_their x =? t)); [discriminate | apply IH; auto].
Qed.

Lemma find_counter_app_other cs o t c0 : (kc_our c0 <> o \/ kc_their c0 <> t) ->
  find_counter (cs ++ [c0]) o t = find_counter cs o t.
Proof.
  unfold find_counter. induction cs as [|x cs IH]; cbn; intros H.
  - destruct (N.eqb_spec (kc_our c0) o), (N.eqb_spec (kc_their c0) t); cbn; try reflexivity. tauto.
  - destruct ((kc_our x =? o) && (kc_their x =? t)); [reflexivity | apply IH; auto].
Qed.

Lemma ctr_of_ensure cs o t o' t' : ctr_of (ensure_counter cs o t) o' t' = ctr_of cs o' t'.
Proof.
  unfold ctr_of, ensure_counter. destruct (find_counter cs o t) eqn:E; [reflexivity|].
  destruct (N.eq_dec o o') as [<-|Ho]; [destruct (N.eq_dec t t') as [<-|Ht]|].
  - rewrite find_counter_app_new by (auto). rewrite E. reflexivity.
  - rewrite find_counter_app_other by (cbn; auto). reflexivity.
  - rewrite find_counter_app_other by (cbn; auto). reflexivity.
Qed.

Lemma find_counter_ensure cs o t : exists c, find_counter (ensure_counter cs o t) o t = Some c.
Proof.
  unfold ensure_counter. destruct (find_counter cs o t) eqn:E; [eauto|].
  eexists. apply find_counter_app_new; auto.
Qed.

Lemma find_update_same cs o t g c : keeps_ids g -> find_counter cs o t = Some c ->
  find_counter (update_counter cs o t g) o t = Some (g c).
Proof.
  intros K. unfold find_counter. induction cs as [|x cs IH]; cbn; [discriminate|].
  destruct ((kc_our x =? o) && (kc_their x =? t)) eqn:E.
  - intros H; injection H as <-. cbn. destruct (K x) as [-> ->]. rewrite E. reflexivity.
  - intros H. cbn. rewrite E. apply IH. exact H.
Qed.

Lemma find_update_other cs o t g o' t' : keeps_ids g -> (o' <> o \/ t' <> t) ->
  find_counter (update_counter cs o t g) o' t' = find_counter cs o' t'.
Proof.
  intros K Hd. unfold find_counter. induction cs as [|x cs IH]; cbn; [reflexivity|].
  destruct ((kc_our x =? o) && (kc_their x =? t)) eqn:E.
  - cbn. destruct (K x) as [-> ->].
    apply andb_true_iff in E as [E1 E2]. apply N.eqb_eq in E1. apply N.eqb_eq in E2.
    destruct (N.eqb_spec (kc_our x) o'), (N.eqb_spec (kc_their x) t'); cbn; try reflexivity.
    subst. tauto.
  - cbn. destruct ((kc_our x =? o') && (kc_their x =? t')); [reflexivity | apply IH].
Qed.

(* specification of checkMessageCounter through the lookup function *)
Theorem checkMessageCounter_spec k rk sk ctr :
  (ctr <= ctr_of (counters k) rk sk -> checkMessageCounter k rk sk ctr = Err errConflict) /\
  (ctr_of (counters k) rk sk < ctr -> exists k1, checkMessageCounter k rk sk ctr = Ok k1 /\
     ctr_of (counters k1) rk sk = ctr /\
     (forall o t, (o <> rk \/ t <> sk) -> ctr_of (counters k1) o t = ctr_of (counters k) o t) /\
     ourKeyID k1 = ourKeyID k /\ theirKeyID k1 = theirKeyID k /\ ourCurrent k1 = ourCurrent k /\
     ourPrevious k1 = ourPrevious k /\ theirCurrent k1 = theirCurrent k /\ theirPrevious k1 = theirPrevious k /\
     macHistory k1 = macHistory k /\ oldMACKeys k1 = oldMACKeys k).
Proof.
  unfold checkMessageCounter.
  destruct (find_counter_ensure (counters k) rk sk) as [c Ec]. rewrite Ec.
  assert (Hc : kc_theirCtr c = ctr_of (counters k) rk sk).
  { rewrite <- (ctr_of_ensure (counters k) rk sk rk sk). unfold ctr_of. rewrite Ec. reflexivity. }
  split; intros H.
  - destruct (N.leb_spec ctr (kc_theirCtr c)); [reflexivity | lia].
  - destruct (N.leb_spec ctr (kc_theirCtr c)); [lia|].
    eexists. split; [reflexivity|].
    assert (K : keeps_ids (fun c0 => {| kc_our := kc_our c0; kc_their := kc_their c0; kc_ourCtr := kc_ourCtr c0; kc_theirCtr := ctr |}))
      by (intros x; cbn; auto).
    cbn [counters set_counters ourKeyID theirKeyID ourCurrent ourPrevious theirCurrent theirPrevious macHistory oldMACKeys].
    split.
    + unfold ctr_of. rewrite (find_update_same _ _ _ _ c K Ec). reflexivity.
    + split; [|repeat split; reflexivity].
      intros o t Hd. unfold ctr_of. rewrite (find_update_other _ _ _ _ o t K Hd).
      fold (ctr_of (ensure_counter (counters k) rk sk) o t). apply ctr_of_ensure.
Qed.

(* ---------- list facts ---------- *)
Lemma find_filter_keep {A} (p g : A -> bool) l : (forall x, p x = true -> g x = true) ->
  find p (filter g l) = find p l.
Proof.
  intros H. induction l as [|x l IH]; cbn; [reflexivity|].
  destruct (g x) eqn:Eg; cbn.
  - destruct (p x); [reflexivity | exact IH].
  - destruct (p x) eqn:Ep; [rewrite (H x Ep) in Eg; discriminate | exact IH].
Qed.

(* ---------- C05: an accepted message is refused when it arrives again ---------- *)
Lemma counters_addKeys k o t key : counters (addKeys k o t key) = counters k.
Proof. unfold addKeys. destruct (has_mac_entry _ _ _); reflexivity. Qed.

Lemma ctr_of_rotateOurs k rk x o t : o <> ourKeyID k - 1 \/ rotates_ours k rk = false ->
  ctr_of (counters (rotateOurKeys k rk x)) o t = ctr_of (counters k) o t.
Proof.
  intros H. unfold rotateOurKeys, rotates_ours in *. destruct (rk =? ourKeyID k) eqn:E; [|reflexivity].
  destruct H as [H|H]; [|discriminate].
  destruct (forgetMACKeys _ _) as [keys h']. cbn [counters].
  unfold ctr_of, find_counter. rewrite find_filter_keep; [reflexivity|].
  intros c Hc. apply andb_true_iff in Hc as [Hc _]. apply N.eqb_eq in Hc. apply negb_true_iff, N.eqb_neq. lia.
Qed.

Lemma ctr_of_rotateTheirs k sk y o t : t <> theirKeyID k - 1 \/ (sk =? theirKeyID k) = false ->
  ctr_of (counters (rotateTheirKey k sk y)) o t = ctr_of (counters k) o t.
Proof.
  intros H. unfold rotateTheirKey. destruct (sk =? theirKeyID k) eqn:E; [|reflexivity].
  destruct H as [H|H]; [|discriminate].
  destruct (forgetMACKeys _ _) as [keys h']. cbn [counters].
  unfold ctr_of, find_counter. rewrite find_filter_keep; [reflexivity|].
  intros c Hc. apply andb_true_iff in Hc as [_ Hc]. apply N.eqb_eq in Hc. apply negb_true_iff, N.eqb_neq. lia.
Qed.

Lemma ids_addKeys k o t key : ourKeyID (addKeys k o t key) = ourKeyID k /\ theirKeyID (addKeys k o t key) = theirKeyID k.
Proof. unfold addKeys. destruct (has_mac_entry _ _ _); auto. Qed.
Lemma ids_rotateOurs k rk x : theirKeyID (rotateOurKeys k rk x) = theirKeyID k.
Proof. unfold rotateOurKeys. destruct (rk =? ourKeyID k); [|reflexivity]. destruct (forgetMACKeys _ _); reflexivity. Qed.

Theorem replay_rejected k d x pl k' xk : recvDataMsg k d x = Ok (pl, k', xk) ->
  forall x', match recvDataMsg k' d x' with Ok _ => False | _ => True end.
Proof.
  intros H x'. pose proof H as H0.
  unfold recvDataMsg in H.
  destruct (d_wellformed d) eqn:Ew; cbn [negb] in H; [|discriminate].
  set (f := d_fields d) in *.
  destruct (sessionKeysFor k (af_rk f) (af_sk f)) as [keys| |] eqn:Ek; cbn [bindR] in H; try discriminate.
  destruct (mac_valid d (receivingKey keys)); cbn [negb] in H; [|discriminate].
  destruct (checkMessageCounter k (af_rk f) (af_sk f) (af_ctr f)) as [k1| |] eqn:Ec; cbn [bindR] in H; try discriminate.
  destruct (skey_eqb _ _ && _ && _); [|discriminate].
  injection H as _ Hk' _.
  (* the stored counter of the pair is the message counter, and survives the rotations *)
  destruct (checkMessageCounter_spec k (af_rk f) (af_sk f) (af_ctr f)) as [S1 S2].
  destruct (N.le_gt_cases (af_ctr f) (ctr_of (counters k) (af_rk f) (af_sk f))) as [Hle|Hgt].
  { rewrite (S1 Hle) in Ec. discriminate. }
  destruct (S2 Hgt) as [k1' [E1 [Hc [_ [Ho [Ht _]]]]]]. rewrite Ec in E1. injection E1 as <-.
  destruct (sessionKeys_window _ _ _ _ Ek) as [Hrk0 [Hsk0 [Hrk Hsk]]].
  set (k2 := addKeys k1 (af_rk f) (af_sk f) (receivingKey keys)) in *.
  assert (Hc2 : ctr_of (counters k2) (af_rk f) (af_sk f) = af_ctr f) by (unfold k2; rewrite counters_addKeys; exact Hc).
  destruct (ids_addKeys k1 (af_rk f) (af_sk f) (receivingKey keys)) as [Ho2 Ht2]. fold k2 in Ho2, Ht2.
  set (k3 := rotateOurKeys k2 (af_rk f) x) in *.
  assert (Hc3 : ctr_of (counters k3) (af_rk f) (af_sk f) = af_ctr f).
  { unfold k3. rewrite ctr_of_rotateOurs; [exact Hc2|].
    unfold rotates_ours. destruct (N.eqb_spec (af_rk f) (ourKeyID k2)) as [E|E]; [left; lia | right; reflexivity]. }
  assert (Ht3 : theirKeyID k3 = theirKeyID k) by (unfold k3; rewrite ids_rotateOurs; lia).
  assert (Hc4 : ctr_of (counters k') (af_rk f) (af_sk f) = af_ctr f).
  { rewrite <- Hk'. rewrite ctr_of_rotateTheirs; [exact Hc3|].
    destruct (N.eqb_spec (af_sk f) (theirKeyID k3)) as [E|E]; [left; lia | right; reflexivity]. }
  (* the replay *)
  unfold recvDataMsg. rewrite Ew. cbn [negb]. fold f.
  destruct (sessionKeysFor k' (af_rk f) (af_sk f)) as [keys'| |]; cbn [bindR]; try exact I.
  destruct (mac_valid d (receivingKey keys')); cbn [negb]; [|exact I].
  destruct (checkMessageCounter_spec k' (af_rk f) (af_sk f) (af_ctr f)) as [S1' _].
  rewrite S1' by lia. exact I.
Qed.

(* ---------- C19 / C09: window and size invariants of one party, whatever it sends or receives ---------- *)
Definition in_window (k : keyctx) (o t : N) : Prop :=
  (o = ourKeyID k \/ o + 1 = ourKeyID k) /\ (t = theirKeyID k \/ t + 1 = theirKeyID k).

Definition KInv (k : keyctx) : Prop :=
  NoDup (map (fun c => (kc_our c, kc_their c)) (counters k)) /\
  Forall (fun c => in_window k (kc_our c) (kc_their c)) (counters k) /\
  NoDup (map (fun u => (mu_our u, mu_their u)) (macHistory k)) /\
  Forall (fun u => in_window k (mu_our u) (mu_their u)) (macHistory k).

(* at most four key pairs are in the window, so at most four entries in either list *)
Lemma window_pairs_bound (l : list (N * N)) (a b : N) : NoDup l ->
  Forall (fun p => (fst p = a \/ fst p + 1 = a) /\ (snd p = b \/ snd p + 1 = b)) l -> (length l <= 4)%nat.
Proof.
  intros ND F.
  assert (I : incl l [(a, b); (a, b - 1); (a - 1, b); (a - 1, b - 1)]).
  { intros [o t] Hin. rewrite Forall_forall in F. specialize (F _ Hin). cbn in F.
    destruct F as [[Ho|Ho] [Ht|Ht]]; subst; cbn.
    - left; reflexivity.
    - right; left. f_equal. lia.
    - right; right; left. f_equal. lia.
    - right; right; right; left. f_equal; lia. }
  apply (NoDup_incl_length ND I).
Qed.

Theorem KInv_bounded k : KInv k -> (length (counters k) <= 4)%nat /\ (length (macHistory k) <= 4)%nat.
Proof.
  intros [ND1 [F1 [ND2 F2]]]. split.
  - rewrite <- (map_length (fun c => (kc_our c, kc_their c))).
    apply (window_pairs_bound _ (ourKeyID k) (theirKeyID k) ND1).
    apply Forall_map. eapply Forall_impl; [|exact F1]. intros c H. exact H.
  - rewrite <- (map_length (fun u => (mu_our u, mu_their u))).
    apply (window_pairs_bound _ (ourKeyID k) (theirKeyID k) ND2).
    apply Forall_map. eapply Forall_impl; [|exact F2]. intros c H. exact H.
Qed.

(* --- preservation of KInv --- *)
Lemma NoDup_map_filter {A B} (f : A -> B) (g : A -> bool) l : NoDup (map f l) -> NoDup (map f (filter g l)).
Proof.
  induction l as [|x l IH]; cbn; intros H; [constructor|].
  inversion H as [|? ? Hn Hd]; subst. destruct (g x); cbn; [|apply IH; exact Hd].
  constructor; [|apply IH; exact Hd].
  intros Hin. apply Hn. apply in_map_iff in Hin as [y [Ey Hy]]. apply filter_In in Hy as [Hy _].
  apply in_map_iff. exists y. split; assumption.
Qed.

Lemma update_counter_pairs cs o t g : keeps_ids g ->
  map (fun c => (kc_our c, kc_their c)) (update_counter cs o t g) = map (fun c => (kc_our c, kc_their c)) cs.
Proof.
  intros K. induction cs as [|x cs IH]; cbn; [reflexivity|].
  destruct ((kc_our x =? o) && (kc_their x =? t)); cbn; [destruct (K x) as [-> ->]; reflexivity | rewrite IH; reflexivity].
Qed.

Lemma find_counter_none_notin cs o t : find_counter cs o t = None ->
  ~ In (o, t) (map (fun c => (kc_our c, kc_their c)) cs).
Proof.
  unfold find_counter. induction cs as [|x cs IH]; cbn; [tauto|].
  destruct (N.eqb_spec (kc_our x) o), (N.eqb_spec (kc_their x) t); cbn; try discriminate;
    intros H [E|Hin]; try (injection E as E1 E2; congruence); apply (IH H Hin).
Qed.

Lemma NoDup_snoc {A} (l : list A) x : NoDup l -> ~ In x l -> NoDup (l ++ [x]).
Proof.
  induction l as [|y l IH]; cbn; intros ND Hn; [repeat constructor; tauto|].
  inversion ND as [|? ? Hy Hl]; subst. constructor.
  - intros Hin. apply in_app_or in Hin as [?|[<-|[]]]; [tauto|]. apply Hn. left; reflexivity.
  - apply IH; [exact Hl | tauto].
Qed.

Lemma ensure_counter_pairs cs o t : NoDup (map (fun c => (kc_our c, kc_their c)) cs) ->
  NoDup (map (fun c => (kc_our c, kc_their c)) (ensure_counter cs o t)) /\
  (forall c, In c (ensure_counter cs o t) -> In c cs \/ (kc_our c = o /\ kc_their c = t)).
Proof.
  intros ND. unfold ensure_counter. destruct (find_counter cs o t) eqn:E.
  - split; [exact ND | auto].
  - split.
    + rewrite map_app. cbn. apply NoDup_snoc; [exact ND | exact (find_counter_none_notin _ _ _ E)].
    + intros c Hc. apply in_app_or in Hc as [?|[<-|[]]]; auto.
Qed.

Lemma in_update_counter cs o t g c : In c (update_counter cs o t g) -> exists c0, In c0 cs /\ (c = c0 \/ c = g c0).
Proof.
  induction cs as [|x cs IH]; cbn; [tauto|].
  destruct ((kc_our x =? o) && (kc_their x =? t)); cbn.
  - intros [E|H]; [exists x; auto | exists c; auto].
  - intros [E|H]; [exists c; subst; auto|]. destruct (IH H) as [c0 [H0 H1]]. exists c0; auto.
Qed.

Definition KInvC (k : keyctx) : Prop :=
  NoDup (map (fun c => (kc_our c, kc_their c)) (counters k)) /\
  Forall (fun c => in_window k (kc_our c) (kc_their c)) (counters k).
Definition KInvM (k : keyctx) : Prop :=
  NoDup (map (fun u => (mu_our u, mu_their u)) (macHistory k)) /\
  Forall (fun u => in_window k (mu_our u) (mu_their u)) (macHistory k).
Lemma KInv_split k : KInv k <-> KInvC k /\ KInvM k.
Proof. unfold KInv, KInvC, KInvM. tauto. Qed.

(* touching (ensuring + updating) the counter of an in-window pair keeps the counter invariant *)
Lemma KInvC_touch k o t g : keeps_ids g -> in_window k o t -> KInvC k ->
  KInvC (set_counters k (update_counter (ensure_counter (counters k) o t) o t g)).
Proof.
  intros K W [ND F]. unfold KInvC. cbn [counters set_counters].
  destruct (ensure_counter_pairs (counters k) o t ND) as [ND' Hin]. split.
  - rewrite update_counter_pairs by exact K. exact ND'.
  - apply Forall_forall. intros c Hc. apply in_update_counter in Hc as [c0 [H0 H1]].
    assert (W0 : in_window k (kc_our c0) (kc_their c0)).
    { destruct (Hin c0 H0) as [H|[-> ->]]; [|exact W]. rewrite Forall_forall in F. exact (F c0 H). }
    unfold in_window in *. cbn [ourKeyID theirKeyID set_counters].
    destruct H1 as [->| ->]; [exact W0|]. destruct (K c0) as [-> ->]. exact W0.
Qed.

Lemma in_window_same_ids k k' o t : ourKeyID k' = ourKeyID k -> theirKeyID k' = theirKeyID k ->
  in_window k o t -> in_window k' o t.
Proof. unfold in_window. intros -> ->. tauto. Qed.

Lemma KInvM_addKeys k o t key : in_window k o t -> KInvM k -> KInvM (addKeys k o t key).
Proof.
  intros W [ND F]. unfold addKeys, KInvM. destruct (has_mac_entry (macHistory k) o t) eqn:E; [split; assumption|].
  cbn [macHistory set_macHistory]. split.
  - rewrite map_app. cbn. apply NoDup_snoc; [exact ND|].
    intros Hin. apply in_map_iff in Hin as [u [Eu Hu]]. injection Eu as E1 E2.
    unfold has_mac_entry in E. apply (f_equal negb) in E. cbn in E.
    assert (X : existsb (fun u0 => (mu_our u0 =? o) && (mu_their u0 =? t)) (macHistory k) = true).
    { apply existsb_exists. exists u. split; [exact Hu|]. rewrite E1, E2, !N.eqb_refl. reflexivity. }
    rewrite X in E. discriminate.
  - apply Forall_app. split.
    + eapply Forall_impl; [|exact F]. intros u Hu. exact Hu.
    + constructor; [exact W | constructor].
Qed.

Lemma KInvC_addKeys k o t key : KInvC k -> KInvC (addKeys k o t key).
Proof. unfold addKeys, KInvC. destruct (has_mac_entry _ _ _); auto. Qed.
Lemma KInvM_set_counters k cs : KInvM k -> KInvM (set_counters k cs).
Proof. unfold KInvM. auto. Qed.

(* our rotation: entries of the retired key id leave, all others are in the new window *)
Lemma KInv_rotateOurs k rk x : KInv k -> KInv (rotateOurKeys k rk x).
Proof.
  intros [ND1 [F1 [ND2 F2]]]. unfold rotateOurKeys. destruct (rk =? ourKeyID k) eqn:E; [|unfold KInv; auto].
  unfold forgetMACKeys. unfold KInv. cbn [counters macHistory ourKeyID theirKeyID].
  split; [apply NoDup_map_filter; exact ND1|]. split.
  - apply Forall_forall. intros c Hc. apply filter_In in Hc as [Hc Hn].
    rewrite Forall_forall in F1. specialize (F1 c Hc). apply negb_true_iff, N.eqb_neq in Hn.
    unfold in_window in *. cbn [ourKeyID theirKeyID]. destruct F1 as [[Ho|Ho] Ht]; split; try exact Ht; lia.
  - split; [apply NoDup_map_filter; exact ND2|].
    apply Forall_forall. intros u Hu. apply filter_In in Hu as [Hu Hn].
    rewrite Forall_forall in F2. specialize (F2 u Hu). apply negb_true_iff in Hn.
    unfold in_window in *. cbn [ourKeyID theirKeyID].
    destruct (N.eqb_spec (mu_our u) (ourKeyID k - 1)) as [Ex|Ex]; [discriminate|].
    destruct F2 as [[Ho|Ho] Ht]; split; try exact Ht; lia.
Qed.

Lemma KInv_rotateTheirs k sk y : KInv k -> KInv (rotateTheirKey k sk y).
Proof.
  intros [ND1 [F1 [ND2 F2]]]. unfold rotateTheirKey. destruct (sk =? theirKeyID k) eqn:E; [|unfold KInv; auto].
  unfold forgetMACKeys. unfold KInv. cbn [counters macHistory ourKeyID theirKeyID].
  split; [apply NoDup_map_filter; exact ND1|]. split.
  - apply Forall_forall. intros c Hc. apply filter_In in Hc as [Hc Hn].
    rewrite Forall_forall in F1. specialize (F1 c Hc). apply negb_true_iff, N.eqb_neq in Hn.
    unfold in_window in *. cbn [ourKeyID theirKeyID]. destruct F1 as [Ho [Ht|Ht]]; split; try exact Ho; lia.
  - split; [apply NoDup_map_filter; exact ND2|].
    apply Forall_forall. intros u Hu. apply filter_In in Hu as [Hu Hn].
    rewrite Forall_forall in F2. specialize (F2 u Hu). apply negb_true_iff in Hn.
    unfold in_window in *. cbn [ourKeyID theirKeyID].
    destruct (N.eqb_spec (mu_their u) (theirKeyID k - 1)) as [Ex|Ex]; [discriminate|].
    destruct F2 as [Ho [Ht|Ht]]; split; try exact Ho; lia.
Qed.

Lemma window_of_keys k o t keys : sessionKeysFor k o t = Ok keys -> in_window k o t.
Proof.
  intros H. destruct (sessionKeys_window _ _ _ _ H) as [Ho [Ht [Hw1 Hw2]]]. unfold in_window. lia.
Qed.

(* C19: whatever is received — genuine, forged, replayed, garbage — the invariant and hence the
   size bound is preserved *)
Theorem KInv_recv k d x pl k' xk : KInv k -> recvDataMsg k d x = Ok (pl, k', xk) -> KInv k'.
Proof.
  intros I H. unfold recvDataMsg in H.
  destruct (d_wellformed d); cbn [negb] in H; [|discriminate].
  set (f := d_fields d) in *.
  destruct (sessionKeysFor k (af_rk f) (af_sk f)) as [keys| |] eqn:Ek; cbn [bindR] in H; try discriminate.
  destruct (mac_valid d (receivingKey keys)); cbn [negb] in H; [|discriminate].
  destruct (checkMessageCounter k (af_rk f) (af_sk f) (af_ctr f)) as [k1| |] eqn:Ec; cbn [bindR] in H; try discriminate.
  destruct (skey_eqb _ _ && _ && _); [|discriminate].
  injection H as _ <- _.
  pose proof (window_of_keys _ _ _ _ Ek) as W.
  apply KInv_rotateTheirs, KInv_rotateOurs.
  (* the counter step *)
  unfold checkMessageCounter in Ec.
  destruct (find_counter (ensure_counter (counters k) (af_rk f) (af_sk f)) (af_rk f) (af_sk f)); [|discriminate].
  destruct (af_ctr f <=? kc_theirCtr k0); [discriminate|]. injection Ec as <-.
  apply KInv_split in I as [IC IM]. apply KInv_split. split.
  - apply KInvC_addKeys. apply KInvC_touch; [intros c; cbn; auto | exact W | exact IC].
  - apply KInvM_addKeys; [exact W | apply KInvM_set_counters; exact IM].
Qed.

Theorem KInv_gen k h flag pl d k' xk : KInv k -> genDataMsg k h flag pl = Ok (d, k', xk) -> KInv k'.
Proof.
  intros I H. unfold genDataMsg in H.
  destruct (sessionKeysFor k (ourKeyID k - 1) (theirKeyID k)) as [keys| |] eqn:Ek; cbn [bindR] in H; try discriminate.
  pose proof (window_of_keys _ _ _ _ Ek) as W.
  set (k1 := addKeys k (ourKeyID k - 1) (theirKeyID k) (receivingKey keys)) in *.
  destruct (find_counter (ensure_counter (counters k1) _ _) _ _) as [c|]; [|discriminate].
  match type of H with context [set_counters k1 ?cs] => set (cs' := cs) in * end.
  destruct (ourCurrent (set_counters k1 cs')); [|discriminate].
  cbn [revealMACKeys] in H. injection H as _ <- _.
  apply KInv_split in I as [IC IM].
  assert (W1 : in_window k1 (ourKeyID k - 1) (theirKeyID k)).
  { destruct (ids_addKeys k (ourKeyID k - 1) (theirKeyID k) (receivingKey keys)) as [E1 E2].
    apply (in_window_same_ids k k1); auto. }
  assert (IC1 : KInvC k1) by (apply KInvC_addKeys; exact IC).
  assert (IM1 : KInvM k1) by (apply KInvM_addKeys; [exact W | exact IM]).
  apply KInv_split. split.
  - pose proof (KInvC_touch k1 (ourKeyID k - 1) (theirKeyID k)
      (fun c0 => {| kc_our := kc_our c0; kc_their := kc_their c0;
                    kc_ourCtr := (if kc_ourCtr c =? 0 then 1 else kc_ourCtr c) + 1; kc_theirCtr := kc_theirCtr c0 |})
      ltac:(intros c0; cbn; auto) W1 IC1) as T.
    unfold KInvC in *. cbn [counters set_counters set_oldMACKeys] in *. exact T.
  - unfold KInvM in *. cbn [macHistory set_counters set_oldMACKeys]. exact IM1.
Qed.

Lemma KInv_fresh_session k : counters k = [] -> macHistory k = [] -> KInv k.
Proof. intros E1 E2. unfold KInv. rewrite E1, E2. cbn. repeat split; constructor. Qed.

(* ---------- C09: disclosure ---------- *)
(* sending discloses everything that is pending, and nothing stays pending *)
Theorem gen_discloses_all_pending k h flag pl d k' xk : genDataMsg k h flag pl = Ok (d, k', xk) ->
  d_old d = oldMACKeys k /\ oldMACKeys k' = [].
Proof.
  unfold genDataMsg. destruct (sessionKeysFor _ _ _) as [keys| |]; cbn [bindR]; try discriminate.
  set (k1 := addKeys k _ _ _).
  assert (E1 : oldMACKeys k1 = oldMACKeys k) by (unfold k1, addKeys; destruct (has_mac_entry _ _ _); reflexivity).
  destruct (find_counter _ _ _); [|discriminate].
  match goal with |- context [set_counters k1 ?cs] => set (cs' := cs) end.
  destruct (ourCurrent (set_counters k1 cs')); [|discriminate].
  cbn [revealMACKeys]. intros H. injection H as <- <- _. cbn [d_old oldMACKeys set_counters set_oldMACKeys].
  split; [exact E1 | reflexivity].
Qed.

(* a key enters the pending list only when its key pair leaves the window: after the rotation the
   pair's key id is below "previous", so pickOurKeys / pickTheirKey refuse it *)
Theorem our_rotation_discloses_only_retired k rk x key : 0 < ourKeyID k ->
  In key (oldMACKeys (rotateOurKeys k rk x)) -> In key (oldMACKeys k) \/
  exists u, In u (macHistory k) /\ mu_key u = key /\ mu_our u + 1 < ourKeyID (rotateOurKeys k rk x).
Proof.
  intros Hpos. unfold rotateOurKeys. destruct (rk =? ourKeyID k); [|auto].
  unfold forgetMACKeys. cbn [oldMACKeys ourKeyID]. intros H. apply in_app_or in H as [H|H]; [auto|].
  right. apply in_map_iff in H as [u [E Hu]]. apply filter_In in Hu as [Hu Hf]. apply N.eqb_eq in Hf.
  exists u. repeat split; auto. lia.
Qed.

Theorem their_rotation_discloses_only_retired k sk y key : 0 < theirKeyID k ->
  In key (oldMACKeys (rotateTheirKey k sk y)) -> In key (oldMACKeys k) \/
  exists u, In u (macHistory k) /\ mu_key u = key /\ mu_their u + 1 < theirKeyID (rotateTheirKey k sk y).
Proof.
  intros Hpos. unfold rotateTheirKey. destruct (sk =? theirKeyID k); [|auto].
  unfold forgetMACKeys. cbn [oldMACKeys theirKeyID]. intros H. apply in_app_or in H as [H|H]; [auto|].
  right. apply in_map_iff in H as [u [E Hu]]. apply filter_In in Hu as [Hu Hf]. apply N.eqb_eq in Hf.
  exists u. repeat split; auto. lia.
Qed.

(* and a retired pair is refused by the key lookup *)
Theorem retired_pair_refused k o t : (o + 1 < ourKeyID k \/ t + 1 < theirKeyID k) ->
  forall keys, sessionKeysFor k o t <> Ok keys.
Proof.
  intros H keys E. destruct (sessionKeys_window _ _ _ _ E) as [Ho [Ht [W1 W2]]]. lia.
Qed.

(* entries of the rotating side that stay are exactly those of the surviving key ids: nothing is lost *)
Theorem our_rotation_keeps_or_discloses k rk x u : In u (macHistory k) ->
  In u (macHistory (rotateOurKeys k rk x)) \/ In (mu_key u) (oldMACKeys (rotateOurKeys k rk x)).
Proof.
  intros Hu. unfold rotateOurKeys. destruct (rk =? ourKeyID k); [|auto].
  unfold forgetMACKeys. cbn [macHistory oldMACKeys].
  destruct (mu_our u =? ourKeyID k - 1) eqn:E.
  - right. apply in_or_app. right. apply in_map. apply filter_In. auto.
  - left. apply filter_In. split; [exact Hu|]. rewrite E. reflexivity.
Qed.

Theorem their_rotation_keeps_or_discloses k sk y u : In u (macHistory k) ->
  In u (macHistory (rotateTheirKey k sk y)) \/ In (mu_key u) (oldMACKeys (rotateTheirKey k sk y)).
Proof.
  intros Hu. unfold rotateTheirKey. destruct (sk =? theirKeyID k); [|auto].
  unfold forgetMACKeys. cbn [macHistory oldMACKeys].
  destruct (mu_their u =? theirKeyID k - 1) eqn:E.
  - right. apply in_or_app. right. apply in_map. apply filter_In. auto.
  - left. apply filter_In. split; [exact Hu|]. rewrite E. reflexivity.
Qed.

(* what a generated data message looks like *)
Theorem genDataMsg_spec k h flag pl d k' x : genDataMsg k h flag pl = Ok (d, k', x) ->
  exists keys, sessionKeysFor k (ourKeyID k - 1) (theirKeyID k) = Ok keys /\
    af_enckey (d_fields d) = sendingKey keys /\ d_mackey d = sendingKey keys /\ d_macover d = d_fields d /\
    d_payload d = pl /\ d_enc_intact d = true /\ d_mac_intact d = true /\ d_macenc_intact d = true /\ d_wellformed d = true /\
    af_sk (d_fields d) = ourKeyID k - 1 /\ af_rk (d_fields d) = theirKeyID k /\ af_encctr (d_fields d) = af_ctr (d_fields d) /\
    af_flag (d_fields d) = flag /\ af_ver (d_fields d) = h_ver h /\ af_stag (d_fields d) = h_stag h /\ af_rtag (d_fields d) = h_rtag h /\
    ourCurrent k = Some (af_y (d_fields d)) /\ x = extraKey keys /\
    ourKeyID k' = ourKeyID k /\ theirKeyID k' = theirKeyID k.
Proof.
  unfold genDataMsg. destruct (sessionKeysFor _ _ _) as [keys| |] eqn:Ek; cbn [bindR]; try discriminate.
  set (k1 := addKeys k _ _ _).
  destruct (find_counter _ _ _) as [c0|]; [|discriminate].
  match goal with |- context [set_counters k1 ?cs] => set (cs' := cs) end.
  destruct (ourCurrent (set_counters k1 cs')) as [y|] eqn:Ey; [|discriminate].
  cbn [revealMACKeys]. intros H. injection H as <- <- <-. exists keys.
  cbn [d_fields d_mackey d_macover d_payload d_enc_intact d_mac_intact d_macenc_intact d_wellformed
       af_enckey af_sk af_rk af_encctr af_ctr af_flag af_ver af_stag af_rtag af_y ourKeyID theirKeyID set_counters set_oldMACKeys].
  destruct (ids_addKeys k (ourKeyID k - 1) (theirKeyID k) (receivingKey keys)) as [E1 E2]. fold k1 in E1, E2.
  assert (Ey' : ourCurrent k = Some y).
  { cbn [ourCurrent set_counters] in Ey. unfold k1, addKeys in Ey. destruct (has_mac_entry _ _ _); exact Ey. }
  repeat split; auto.
Qed.
