(* C02 at conversation level, for every call and every history: a text comes out of Receive only
   (a) as a plaintext message, passed on with the received-unencrypted event whenever encryption was due, or
   (b) as the text of a data message that arrived while the conversation was encrypted, is well-formed, names key ids
       inside the window, carries a MAC that verifies under the receiving key of exactly that key pair over every
       field, and a counter above the one recorded for the pair (C02_accept_checks / C05).
   Nothing else returns a text: no key-exchange message, no rejected or unparsable data message, no user call.
   Proved by inversion through receive -> receiveDecoded -> receiveDataMessage -> processDataMessage. *)
From OTR Require Import Go.Base Gen.Consts Bytes.Text Proto.SmpTypes Proto.Keys Proto.KeysProofs Proto.Smp Proto.SmpInst Proto.Conv Proto.ConvProofs Proto.Lifecycle Proto.AkeAuth.
From RecordUpdate Require Import RecordSet.
Import RecordSetNotations.
Open Scope N_scope.

(* frame for an arbitrary projection of the conversation *)
Section Frame.
  Context {X : Type} (pi : conv -> X).
  Definition fp {A} (m : M A) : Prop := forall c ev a c' ev', m c ev = (a, c', ev') -> pi c' = pi c.
  Lemma fp_bind {A B} (m : M A) (f : A -> M B) : fp m -> (forall a, fp (f a)) -> fp (bind m f).
  Proof.
    intros Hm Hf c ev b c' ev' E. apply bind_eq in E as [a [c1 [ev1 [E1 E]]]].
    rewrite (Hf a _ _ _ _ _ E). exact (Hm _ _ _ _ _ E1).
  Qed.
  Lemma fp_ret {A} (a : A) : fp (ret a). Proof. intros c ev a' c' ev' E. injection E as <- <- <-. reflexivity. Qed.
  Lemma fp_get : fp get. Proof. intros c ev a' c' ev' E. injection E as <- <- <-. reflexivity. Qed.
  Lemma fp_event e : fp (event e). Proof. intros c ev a' c' ev' E. injection E as <- <- <-. reflexivity. Qed.
  Lemma fp_modify f : (forall c, pi (f c) = pi c) -> fp (modify f).
  Proof. intros H c ev a' c' ev' E. injection E as <- <- <-. apply H. Qed.
End Frame.

Ltac fp_tac :=
  repeat first
  [ apply fp_ret | apply fp_get | apply fp_event
  | (apply fp_modify; intros ?; reflexivity)
  | progress cbv zeta
  | (apply fp_bind; [|intros ?])
  | match goal with
    | |- fp _ (if ?b then _ else _) => destruct b
    | |- fp _ (match ?x with _ => _ end) => destruct x
    end ].

Definition km (c : conv) := (c_keys c, c_msgState c, c_fresh c).
Lemma km_commitToVersionFrom v : fp km (commitToVersionFrom v). Proof. unfold commitToVersionFrom. fp_tac. Qed.
Lemma km_malformedMessage : fp km malformedMessage. Proof. unfold malformedMessage. fp_tac. Qed.
Lemma km_verifyInstanceTags a b : fp km (verifyInstanceTags a b).
Proof. unfold verifyInstanceTags. fp_tac; apply km_malformedMessage. Qed.

(* the data message [d] is accepted by the key management of conversation [c] and carries the text [t] *)
Definition accepted_text (c : conv) (d : sdata) (t : bytes) : Prop :=
  c_msgState c = c_encrypted /\ t <> [] /\
  exists pl k' xk, recvDataMsg (c_keys c) d (fst (draw c)) = Ok (pl, k', xk) /\ p_text pl = t.

Lemma match_eq_R {A B} (r : R A) (f : A -> M B) (g : N -> M B) (h : M B) c ev res :
  match r with Ok a => f a | Err e => g e | Panic => h end c ev = res ->
  (exists a, r = Ok a /\ f a c ev = res) \/ (exists e, r = Err e /\ g e c ev = res) \/ (r = Panic /\ h c ev = res).
Proof. destruct r; eauto. Qed.

Lemma pdm_plain now d rnd c ev a c' ev' t : processDataMessage now d rnd c ev = (a, c', ev') ->
  fst (fst a) = Some t -> accepted_text c d t.
Proof.
  intros E Ht. unfold processDataMessage in E. apply bind_eq in E as [cg [c0 [ev0 [Eg E]]]]. apply get_eq in Eg. injection Eg as -> -> ->.
  apply if_eq in E as [[Hb E]|[Hb E]].
  { apply bind_eq in E as [u [c1 [ev1 [_ E]]]]. apply ret_eq in E. injection E as -> _ _. discriminate. }
  apply negb_false_iff, N.eqb_eq in Hb. cbv zeta in E.
  destruct (recvDataMsg (c_keys c) d (fst (draw c))) as [[[pl k'] xk]|e|] eqn:Er.
  2:{ apply ret_eq in E. injection E as -> _ _. discriminate. }
  2:{ apply ret_eq in E. injection E as -> _ _. discriminate. }
  assert (Hp : fst (fst a) = match p_text pl with [] => None | t0 => Some t0 end).
  { apply bind_eq in E as [u1 [c1 [ev1 [_ E]]]]. apply bind_eq in E as [u2 [c2 [ev2 [_ E]]]].
    apply bind_eq in E as [tl [c3 [ev3 [_ E]]]].
    destruct tl as [[|t0 reply]|e].
    - apply ret_eq in E. injection E as -> _ _. reflexivity.
    - apply bind_eq in E as [g [c4 [ev4 [_ E]]]]. destruct g as [[w x]|e|]; apply ret_eq in E; injection E as -> _ _; reflexivity.
    - apply ret_eq in E. injection E as -> _ _. reflexivity. }
  rewrite Hp in Ht. split; [exact Hb|]. destruct (p_text pl) as [|b0 t0] eqn:Et; [discriminate|].
  injection Ht as <-. split; [discriminate|]. exists pl, k', xk. split; [exact Er | exact Et].
Qed.

Lemma rdm_plain now d rnd c ev a c' ev' t : receiveDataMessage now d rnd c ev = (a, c', ev') ->
  fst (fst a) = Some t -> accepted_text c d t.
Proof.
  intros E Ht. unfold receiveDataMessage in E. apply bind_eq in E as [r [c1 [ev1 [E1 E]]]].
  destruct r as [[plain out] err0]. cbv zeta in E.
  apply bind_eq in E as [r2 [c2 [ev2 [E2 E]]]]. destruct r2 as [[plain2 out2] err2].
  apply bind_eq in E as [u [c3 [ev3 [_ E]]]]. apply ret_eq in E. injection E as -> _ _. cbn [fst] in Ht. subst plain2.
  apply (pdm_plain _ _ _ _ _ _ _ _ _ E1). cbn [fst].
  apply if_eq in E2 as [[_ E2]|[_ E2]].
  - apply if_eq in E2 as [[_ E2]|[_ E2]].
    + apply ret_eq in E2. injection E2 as E2 _ _ _ _. discriminate.
    + apply bind_eq in E2 as [hb [c4 [ev4 [_ E2]]]]. apply ret_eq in E2. injection E2 as E2 _ _ _ _. congruence.
  - apply ret_eq in E2. injection E2 as E2 _ _ _ _. discriminate.
Qed.

(* nothing the key exchange returns is a text *)
Lemma rdec_plain now ver stag rtag body aux rnd c ev a c' ev' t :
  receiveDecoded now ver stag rtag body aux rnd c ev = (a, c', ev') -> fst (fst a) = Some t ->
  exists d c1, body = EData d /\ km c1 = km c /\ accepted_text c1 d t.
Proof.
  intros E Ht. unfold receiveDecoded in E. apply bind_eq in E as [e [c1 [ev1 [E1 E]]]].
  pose proof (km_commitToVersionFrom _ _ _ _ _ _ E1) as K1.
  apply if_eq in E as [[_ E]|[_ E]]; [apply ret_eq in E; injection E as -> _ _; discriminate|].
  apply bind_eq in E as [cg [c1' [ev1' [Eg E]]]]. apply get_eq in Eg. injection Eg as -> -> ->.
  apply if_eq in E as [[_ E]|[_ E]]; [apply ret_eq in E; injection E as -> _ _; discriminate|].
  apply bind_eq in E as [tg [c2 [ev2 [E2 E]]]].
  assert (K2 : km c2 = km c1).
  { apply if_eq in E2 as [[_ E2]|[_ E2]]; [exact (km_verifyInstanceTags _ _ _ _ _ _ _ E2) | apply ret_eq in E2; injection E2 as _ -> _; reflexivity]. }
  apply if_eq in E as [[_ E]|[_ E]]; [apply ret_eq in E; injection E as -> _ _; discriminate|].
  apply if_eq in E as [[_ E]|[_ E]]; [apply ret_eq in E; injection E as -> _ _; discriminate|].
  destruct body as [b|d|ty bflag].
  - apply bind_eq in E as [r [c3 [ev3 [_ E]]]]. apply ret_eq in E. injection E as -> _ _. discriminate.
  - exists d, c2. split; [reflexivity|]. split; [congruence|]. exact (rdm_plain _ _ _ _ _ _ _ _ _ E Ht).
  - apply if_eq in E as [[_ E]|[_ E]].
    + (* a data message whose body does not parse is never accepted *)
      destruct (rdm_plain _ _ _ _ _ _ _ _ _ E Ht) as [_ [_ [pl [k' [xk [Hr _]]]]]].
      unfold recvDataMsg in Hr. cbn in Hr. discriminate.
    + apply bind_eq in E as [r [c3 [ev3 [_ E]]]]. apply ret_eq in E. injection E as -> _ _. discriminate.
Qed.

Definition mp (c : conv) := (c_msgState c, c_policies c).
Lemma mp_commitToVersionFrom v : fp mp (commitToVersionFrom v). Proof. unfold commitToVersionFrom. fp_tac. Qed.
Lemma mp_generateInstanceTag : fp mp generateInstanceTag.
Proof. unfold generateInstanceTag. fp_tac. Qed.
Lemma mp_messageHeader : fp mp messageHeader. Proof. unfold messageHeader. fp_tac. Qed.
Lemma mp_wrap b : fp mp (wrap b). Proof. unfold wrap. fp_tac. Qed.
Lemma mp_fresh : fp mp fresh. Proof. intros c ev a c' ev' E. unfold fresh, draw in E. injection E as _ <- _. reflexivity. Qed.
Lemma mp_set_ake f : fp mp (set_ake f). Proof. unfold set_ake. fp_tac. Qed.
Lemma mp_sendDHCommit : fp mp sendDHCommit.
Proof. unfold sendDHCommit. fp_tac; first [apply mp_fresh | apply mp_set_ake | apply mp_wrap]. Qed.

Definition evUnenc := c_MessageEventReceivedMessageUnencrypted.

Lemma cpp_event c ev u c1 ev1 : checkPlaintextPolicies c ev = (u, c1, ev1) ->
  (c_msgState c <> c_plainText \/ has (c_policies c) c_requireEncryption = true) -> In evUnenc ev1.
Proof.
  intros E H. unfold checkPlaintextPolicies in E. apply bind_eq in E as [cg [c0 [ev0 [Eg E]]]]. apply get_eq in Eg. injection Eg as -> -> ->.
  apply bind_eq in E as [u1 [c2 [ev2 [E2 E]]]].
  assert (K : mp c2 = mp c /\ ev2 = ev).
  { apply if_eq in E2 as [[_ E2]|[_ E2]]; [unfold modify in E2 | apply ret_eq in E2]; injection E2 as _ <- <-; split; reflexivity. }
  destruct K as [K ->]. unfold mp in K. injection K as K1 K2.
  apply bind_eq in E as [cg [c0 [ev0 [Eg E]]]]. apply get_eq in Eg. injection Eg as -> -> ->.
  apply if_eq in E as [[_ E]|[Hb E]].
  - unfold event in E. injection E as _ _ <-. apply in_or_app. right. left. reflexivity.
  - exfalso. apply orb_false_iff in Hb as [B1 B2]. apply negb_false_iff, N.eqb_eq in B1. rewrite K1 in B1. rewrite K2 in B2.
    destruct H as [H|H]; [contradiction | congruence].
Qed.

Lemma finish_plain p o e c ev r c' ev' : finish p o e c ev = (r, c', ev') -> r_plain r = p /\ r_events r = ev' /\ exists new, ev' = ev ++ new.
Proof.
  intros E. unfold finish in E. apply bind_eq in E as [o' [c1 [ev1 [E1 E]]]].
  destruct (fr_withInjects _ _ _ _ _ _ E1) as [_ [new [-> _]]]. injection E as <- _ <-. cbn. repeat split. exists new. reflexivity.
Qed.

(* a text that Receive returns is either a plaintext message, passed on with a warning whenever encryption was due, or the
   text of a data message that the key management accepted in the encrypted state *)
Lemma receive_plain now w aux rnd c ev r c' ev' t : receive now w aux rnd c ev = (r, c', ev') -> r_plain r = Some t ->
  (exists tag, w = WPlain t tag /\
     (isOTREnabled (c_policies c) = true ->
      (c_msgState c <> c_plainText \/ has (c_policies c) c_requireEncryption = true) -> In evUnenc (r_events r))) \/
  (exists ver stag rtag d c1, w = WEnc ver stag rtag (EData d) /\ km c1 = km c /\ accepted_text c1 d t).
Proof.
  intros E Ht. unfold receive in E. apply bind_eq in E as [cg [c0 [ev0 [Eg E]]]]. apply get_eq in Eg. injection Eg as -> -> ->.
  apply if_eq in E as [[Hb E]|[Hb E]].
  { injection E as <- _ _. cbn [r_plain] in Ht. destruct w; try discriminate. injection Ht as ->. left. eexists. split; [reflexivity|].
    intros Hen. apply negb_true_iff in Hb. congruence. }
  destruct w as [t0 [vs|]|vs|t0|ver stag rtag body|ver| |].
  - (* plaintext with a whitespace tag *)
    apply bind_eq in E as [cg [c0 [ev0 [Eg E]]]]. apply get_eq in Eg. injection Eg as -> -> ->.
    apply bind_eq in E as [r1 [c1 [ev1 [E1 E]]]].
    assert (K1 : mp c1 = mp c).
    { apply if_eq in E1 as [[_ E1]|[_ E1]]; [apply ret_eq in E1; injection E1 as _ -> _; reflexivity|].
      apply bind_eq in E1 as [e [c2 [ev2 [E2 E1]]]]. pose proof (mp_commitToVersionFrom _ _ _ _ _ _ E2) as K2.
      apply if_eq in E1 as [[_ E1]|[_ E1]]; [apply ret_eq in E1; injection E1 as _ -> _; exact K2|].
      apply bind_eq in E1 as [w1 [c3 [ev3 [E3 E1]]]]. pose proof (mp_sendDHCommit _ _ _ _ _ E3) as K3.
      apply ret_eq in E1. injection E1 as _ -> _. congruence. }
    unfold mp in K1. injection K1 as K11 K12.
    apply bind_eq in E as [u [c2 [ev2 [E2 E]]]].
    destruct (finish_plain _ _ _ _ _ _ _ _ E) as [F1 [F2 [new F3]]]. rewrite F1 in Ht. injection Ht as ->.
    left. eexists. split; [reflexivity|]. intros _ H. rewrite F2, F3. apply in_or_app. left.
    apply (cpp_event _ _ _ _ _ E2). rewrite K11, K12. exact H.
  - apply bind_eq in E as [u [c2 [ev2 [E2 E]]]].
    destruct (finish_plain _ _ _ _ _ _ _ _ E) as [F1 [F2 [new F3]]]. rewrite F1 in Ht. injection Ht as ->.
    left. eexists. split; [reflexivity|]. intros _ H. rewrite F2, F3. apply in_or_app. left. exact (cpp_event _ _ _ _ _ E2 H).
  - apply bind_eq in E as [r1 [c1 [ev1 [_ E]]]]. destruct (finish_plain _ _ _ _ _ _ _ _ E) as [F1 _]. congruence.
  - apply bind_eq in E as [cg [c0 [ev0 [_ E]]]]. apply bind_eq in E as [u1 [c1 [ev1 [_ E]]]]. apply bind_eq in E as [u2 [c2 [ev2 [_ E]]]].
    apply bind_eq in E as [o [c3 [ev3 [_ E]]]]. injection E as <- _ _. discriminate.
  - apply bind_eq in E as [cg [c0 [ev0 [Eg E]]]]. apply get_eq in Eg. injection Eg as -> -> ->.
    apply bind_eq in E as [r1 [c1 [ev1 [E1 E]]]]. destruct r1 as [[plain out] err].
    apply bind_eq in E as [u1 [c2 [ev2 [_ E]]]]. apply bind_eq in E as [u2 [c3 [ev3 [_ E]]]].
    destruct (finish_plain _ _ _ _ _ _ _ _ E) as [F1 _]. rewrite F1 in Ht. subst plain.
    destruct (rdec_plain _ _ _ _ _ _ _ _ _ _ _ _ t E1 eq_refl) as [d [cx [-> [Kx Ax]]]].
    right. exists ver, stag, rtag, d, cx. auto.
  - apply bind_eq in E as [cg [c0 [ev0 [_ E]]]]. apply bind_eq in E as [e [c1 [ev1 [_ E]]]].
    apply if_eq in E as [[_ E]|[_ E]].
    + apply bind_eq in E as [u1 [c2 [ev2 [_ E]]]]. destruct (finish_plain _ _ _ _ _ _ _ _ E) as [F1 _]. congruence.
    + apply bind_eq in E as [cg' [c2 [ev2 [_ E]]]]. apply if_eq in E as [[_ E]|[_ E]].
      * destruct (finish_plain _ _ _ _ _ _ _ _ E) as [F1 _]. congruence.
      * apply bind_eq in E as [u1 [c3 [ev3 [_ E]]]]. apply bind_eq in E as [u2 [c4 [ev4 [_ E]]]].
        destruct (finish_plain _ _ _ _ _ _ _ _ E) as [F1 _]. congruence.
  - destruct (finish_plain _ _ _ _ _ _ _ _ E) as [F1 _]. congruence.
  - apply bind_eq in E as [u1 [c2 [ev2 [_ E]]]]. destruct (finish_plain _ _ _ _ _ _ _ _ E) as [F1 _]. congruence.
Qed.

(* what it takes for a text to come out of Receive *)
Definition authentic (c : conv) (d : sdata) (t : bytes) : Prop :=
  c_msgState c = c_encrypted /\ t <> [] /\ d_wellformed d = true /\ p_text (d_payload d) = t /\
  exists keys, sessionKeysFor (c_keys c) (af_rk (d_fields d)) (af_sk (d_fields d)) = Ok keys /\
    mac_valid d (receivingKey keys) = true /\
    ctr_of (counters (c_keys c)) (af_rk (d_fields d)) (af_sk (d_fields d)) < af_ctr (d_fields d).

Lemma accepted_authentic c1 c d t : km c1 = km c -> accepted_text c1 d t -> authentic c d t.
Proof.
  intros K [Hs [Hn [pl [k' [xk [Hr Ht]]]]]]. unfold km in K. injection K as K1 K2 K3.
  destruct (recv_accept_checks _ _ _ _ _ _ Hr) as [Hw [keys [Hk [Hm [[k1 Hc] [Hp _]]]]]].
  split; [congruence|]. split; [exact Hn|]. split; [exact Hw|]. split; [congruence|].
  exists keys. rewrite <- K1. split; [exact Hk|]. split; [exact Hm|].
  destruct (checkMessageCounter_spec (c_keys c1) (af_rk (d_fields d)) (af_sk (d_fields d)) (af_ctr (d_fields d))) as [S1 _].
  destruct (N.le_gt_cases (af_ctr (d_fields d)) (ctr_of (counters (c_keys c1)) (af_rk (d_fields d)) (af_sk (d_fields d)))) as [Hle|Hgt]; [|exact Hgt].
  rewrite (S1 Hle) in Hc. discriminate.
Qed.

Definition delivered_ok (c : conv) (op : call) (r : result) : Prop :=
  forall t, r_plain r = Some t ->
  exists w aux rnd, op = CReceive w aux rnd /\
    ((exists tag, w = WPlain t tag /\
        (isOTREnabled (c_policies c) = true ->
         (c_msgState c <> c_plainText \/ has (c_policies c) c_requireEncryption = true) -> In evUnenc (r_events r))) \/
     (exists ver stag rtag d, w = WEnc ver stag rtag (EData d) /\ authentic c d t)).

Lemma no_plain_result {A} (m : M A) (f : A -> conv -> list N -> result) c ev r c' ev' :
  bind m (fun a => fun c ev => (f a c ev, c, ev)) c ev = (r, c', ev') -> (forall a c ev, r_plain (f a c ev) = None) -> r_plain r = None.
Proof. intros E H. apply bind_eq in E as [a [c1 [ev1 [_ E]]]]. injection E as <- _ _. apply H. Qed.

Theorem step_delivers_authentic now c op : let '(c', r) := step now c op in delivered_ok c op r.
Proof.
  unfold step. destruct op as [t0|w aux rnd| |s rnd|u d|tlvs].
  - destruct (send now t0 c []) as [[r c'] ev'] eqn:E. intros t Ht. exfalso.
    unfold send in E. apply bind_eq in E as [cg [c0 [ev0 [Eg E]]]].
    assert (Hf : forall o e c ev r c' ev', finishSend o e c ev = (r, c', ev') -> r_plain r = None).
    { intros o e c1 ev1 r1 c1' ev1' E1. unfold finishSend in E1. apply bind_eq in E1 as [a [c2 [ev2 [_ E1]]]]. injection E1 as <- _ _. reflexivity. }
    apply if_eq in E as [[_ E]|[_ E]]; [injection E as <- _ _; discriminate|].
    apply if_eq in E as [[_ E]|[_ E]].
    + apply if_eq in E as [[_ E]|[_ E]].
      * apply bind_eq in E as [u1 [c1 [ev1 [_ E]]]]. apply bind_eq in E as [u2 [c2 [ev2 [_ E]]]]. apply bind_eq in E as [u3 [c3 [ev3 [_ E]]]].
        apply bind_eq in E as [cg' [c4 [ev4 [_ E]]]]. rewrite (Hf _ _ _ _ _ _ _ E) in Ht. discriminate.
      * apply if_eq in E as [[_ E]|[_ E]]; [rewrite (Hf _ _ _ _ _ _ _ E) in Ht; discriminate|].
        apply bind_eq in E as [u1 [c1 [ev1 [_ E]]]]. rewrite (Hf _ _ _ _ _ _ _ E) in Ht. discriminate.
    + apply if_eq in E as [[_ E]|[_ E]].
      * apply bind_eq in E as [r1 [c1 [ev1 [_ E]]]]. destruct r1 as [[ws x]|e|].
        -- rewrite (Hf _ _ _ _ _ _ _ E) in Ht. discriminate.
        -- apply bind_eq in E as [u1 [c2 [ev2 [_ E]]]]. apply bind_eq in E as [u2 [c3 [ev3 [_ E]]]]. rewrite (Hf _ _ _ _ _ _ _ E) in Ht. discriminate.
        -- apply bind_eq in E as [u1 [c2 [ev2 [_ E]]]]. apply bind_eq in E as [u2 [c3 [ev3 [_ E]]]]. rewrite (Hf _ _ _ _ _ _ _ E) in Ht. discriminate.
      * apply bind_eq in E as [u1 [c1 [ev1 [_ E]]]]. rewrite (Hf _ _ _ _ _ _ _ E) in Ht. discriminate.
  - destruct (receive now w aux rnd c []) as [[r c'] ev'] eqn:E. intros t Ht. exists w, aux, rnd. split; [reflexivity|].
    destruct (receive_plain _ _ _ _ _ _ _ _ _ _ E Ht) as [[tag [-> H]]|[ver [stag [rtag [d [c1 [-> [K A]]]]]]]].
    + left. exists tag. auto.
    + right. exists ver, stag, rtag, d. split; [reflexivity | exact (accepted_authentic _ _ _ _ K A)].
  - destruct (endConv now c []) as [[r c'] ev'] eqn:E. intros t Ht. exfalso. unfold endConv in E.
    apply bind_eq in E as [cg [c0 [ev0 [_ E]]]]. apply bind_eq in E as [r1 [c1 [ev1 [_ E]]]]. apply bind_eq in E as [u1 [c2 [ev2 [_ E]]]].
    apply bind_eq in E as [u2 [c3 [ev3 [_ E]]]]. apply bind_eq in E as [u3 [c4 [ev4 [_ E]]]]. injection E as <- _ _. discriminate.
  - destruct (userSMP now s rnd c []) as [[r c'] ev'] eqn:E. intros t Ht. exfalso. unfold userSMP in E.
    apply bind_eq in E as [cg [c0 [ev0 [_ E]]]]. cbv zeta in E. apply bind_eq in E as [u1 [c1 [ev1 [_ E]]]]. apply bind_eq in E as [u2 [c2 [ev2 [_ E]]]].
    apply if_eq in E as [[_ E]|[_ E]]; [injection E as <- _ _; discriminate|].
    apply if_eq in E as [[_ E]|[_ E]]; [injection E as <- _ _; discriminate|].
    apply bind_eq in E as [g [c3 [ev3 [_ E]]]]. injection E as <- _ _. destruct g as [[ws x]|e|]; discriminate.
  - destruct (useExtraKey now u d c []) as [[r c'] ev'] eqn:E. intros t Ht. exfalso. unfold useExtraKey in E.
    apply bind_eq in E as [cg [c0 [ev0 [_ E]]]]. apply if_eq in E as [[_ E]|[_ E]]; [injection E as <- _ _; discriminate|].
    apply bind_eq in E as [g [c3 [ev3 [_ E]]]]. injection E as <- _ _. destruct g as [[ws x]|e|]; discriminate.
  - destruct (sendTLVs now tlvs c []) as [[r c'] ev'] eqn:E. intros t Ht. exfalso. unfold sendTLVs in E.
    apply bind_eq in E as [g [c3 [ev3 [_ E]]]]. injection E as <- _ _. destruct g as [[ws x]|e|]; discriminate.
Qed.

Fixpoint all_delivered_ok (c : conv) (h : list (N * call)) : Prop :=
  match h with
  | [] => True
  | (now, op) :: r => let '(c1, res) := step now c op in delivered_ok c op res /\ all_delivered_ok c1 r
  end.
Theorem history_delivers_authentic h : forall c, all_delivered_ok c h.
Proof.
  induction h as [|[now op] r IH]; intros c; cbn [all_delivered_ok]; [exact I|].
  pose proof (step_delivers_authentic now c op) as H. destruct (step now c op) as [c1 res]. split; [exact H | apply IH].
Qed.
