(* The range check applied to received group elements, on numbers (the symbolic machines use [Smp.in_range] and
   [Conv.isGroupElement] on element classes; the harness compares this function with the Go code on boundary and
   random values, for the key exchange (v = 0) and for SMP under both protocol versions). *)
From OTR Require Import Go.Base Gen.Consts.
Open Scope N_scope.

(* isGroupElement: 2 <= n <= p - 2; the SMP of protocol version 2 performs no check *)
Definition isGroupElementN (v n : N) : bool :=
  if v =? 2 then true else (2 <=? n) && (n <=? g_p - 2).

Lemma isGroupElementN_spec v n : v <> 2 -> (isGroupElementN v n = true <-> 2 <= n <= g_p - 2).
Proof.
  intros Hv. unfold isGroupElementN. destruct (N.eqb_spec v 2); [contradiction|].
  rewrite Bool.andb_true_iff, !N.leb_le. tauto.
Qed.

(* the values of order one and two, zero and the values congruent to them are refused *)
Example boundary_values_refused :
  map (isGroupElementN 3) [0; 1; g_p - 1; g_p; g_p + 1] = [false; false; false; false; false] /\
  map (isGroupElementN 0) [0; 1; g_p - 1; g_p; g_p + 1] = [false; false; false; false; false] /\
  map (isGroupElementN 3) [2; g_p - 2; g_q] = [true; true; true].
Proof. vm_compute. repeat split. Qed.
