(* C15 over histories: the instance tags of a conversation.
   - Whatever happens, our own tag is 0 (not drawn yet) or at least 0x100, and the peer tag the conversation is bound to
     is 0 (not bound) or at least 0x100: a tag below 0x100 never gets into the conversation.
   - Once our tag is drawn it never changes; once the conversation is bound to a peer instance no call changes that -
     in particular no message, whatever tags it claims.
   Method as in Proto/Lifecycle.v / Proto/Bounded.v: an invariant (relative to the tags at the start of the call)
   closed under bind, a tactic walking every definition of Proto/Conv.v, hand proofs where the new state depends on a
   value that was read (verifyInstanceTags, forgetTag in receive). *)
From OTR Require Import Go.Base Gen.Consts Bytes.Text Proto.SmpTypes Proto.Keys Proto.Smp Proto.SmpInst Proto.Conv Proto.ConvProofs Proto.Lifecycle Proto.AkeAuth.
From RecordUpdate Require Import RecordSet.
Import RecordSetNotations.
From Coq Require Import ZifyBool ZifyN.
Open Scope N_scope.

Definition tag_ok (x : N) : Prop := x = 0 \/ c_minValidInstanceTag <= x.

Section Tags.
(* the tags at the start of the call *)
Variables o0 b0 : N.

Definition TJ (c : conv) : Prop :=
  (o0 <> 0 -> c_ourTag c = o0) /\ (b0 <> 0 -> c_theirTag c = b0) /\ tag_ok (c_ourTag c) /\ tag_ok (c_theirTag c).

Definition tj {A} (m : M A) : Prop := forall c ev a c' ev', m c ev = (a, c', ev') -> TJ c -> TJ c'.

Lemma tj_bind {A B} (m : M A) (f : A -> M B) : tj m -> (forall a, tj (f a)) -> tj (bind m f).
Proof. intros Hm Hf c ev b c' ev' E I. apply bind_eq in E as [a [c1 [ev1 [E1 E]]]]. exact (Hf a _ _ _ _ _ E (Hm _ _ _ _ _ E1 I)). Qed.
Lemma tj_ret {A} (a : A) : tj (ret a). Proof. intros c ev a' c' ev' E I. injection E as _ <- _. exact I. Qed.
Lemma tj_get : tj get. Proof. intros c ev a' c' ev' E I. injection E as _ <- _. exact I. Qed.
Lemma tj_event e : tj (event e). Proof. intros c ev a' c' ev' E I. injection E as _ <- _. exact I. Qed.
Lemma tj_evs (g : list N -> list N) : tj (fun c ev => (tt, c, g ev)). Proof. intros c ev a' c' ev' E I. injection E as _ <- _. exact I. Qed.
Lemma tj_pure {A} (f : conv -> list N -> A) : tj (fun c ev => (f c ev, c, ev)). Proof. intros c ev a' c' ev' E I. injection E as _ <- _. exact I. Qed.
Lemma TJ_same c c' : c_ourTag c' = c_ourTag c -> c_theirTag c' = c_theirTag c -> TJ c -> TJ c'.
Proof. unfold TJ. intros -> ->. auto. Qed.
Lemma tj_fresh : tj fresh.
Proof. intros c ev a' c' ev' E I. unfold fresh, draw in E. injection E as _ <- _. eapply TJ_same; [reflexivity|reflexivity|exact I]. Qed.
Lemma tj_modify f : (forall c, TJ c -> TJ (f c)) -> tj (modify f).
Proof. intros H c ev a' c' ev' E I. injection E as _ <- _. apply H. exact I. Qed.

Create HintDb tj.
Ltac tj_tac :=
  repeat first
  [ solve [auto with tj]
  | progress cbv zeta
  | apply tj_get | apply tj_fresh | apply tj_event | apply tj_evs | apply tj_ret | apply tj_pure
  | (apply tj_modify; intros ? ?; eapply TJ_same; [reflexivity | reflexivity | eassumption])
  | (apply tj_bind; [|intros ?])
  | match goal with
    | |- tj (if ?b then _ else _) => destruct b
    | |- tj (match ?x with _ => _ end) => destruct x
    | |- tj (let '(_, _) := ?x in _) => destruct x
    end ].

Lemma tj_commitToVersionFrom v : tj (commitToVersionFrom v). Proof. unfold commitToVersionFrom. tj_tac. Qed.
#[local] Hint Resolve tj_commitToVersionFrom : tj.

(* drawing our tag: only when there is none, and then a legal one *)
Lemma tj_generateInstanceTag : tj generateInstanceTag.
Proof.
  intros c ev a c' ev' E I. unfold generateInstanceTag in E.
  apply bind_eq in E as [cg [c0 [ev0 [Eg E]]]]. apply get_eq in Eg. injection Eg as -> -> ->.
  apply if_eq in E as [[_ E]|[Hb E]]; [apply ret_eq in E; injection E as _ -> _; exact I|].
  apply negb_false_iff, N.eqb_eq in Hb.
  apply bind_eq in E as [x [c1 [ev1 [E1 E]]]]. unfold fresh, draw in E1. injection E1 as _ <- _.
  unfold modify in E. injection E as _ <- _.
  destruct I as [I1 [I2 [I3 I4]]]. unfold TJ. cbn. repeat split.
  - intros Ho. rewrite (I1 Ho) in Hb. contradiction.
  - exact I2.
  - right. lia.
  - exact I4.
Qed.
#[local] Hint Resolve tj_generateInstanceTag : tj.
Lemma tj_malformedMessage : tj malformedMessage. Proof. unfold malformedMessage. tj_tac. Qed.
#[local] Hint Resolve tj_malformedMessage : tj.

(* binding to a peer instance: only when not bound, and only to a legal tag *)
Lemma tj_verifyInstanceTags a b : tj (verifyInstanceTags a b).
Proof.
  intros c ev r c' ev' E I. unfold verifyInstanceTags in E.
  apply bind_eq in E as [cg [c0 [ev0 [Eg E]]]]. apply get_eq in Eg. injection Eg as -> -> ->.
  apply if_eq in E as [[_ E]|[_ E]].
  { apply bind_eq in E as [u [c1 [ev1 [E1 E]]]]. apply ret_eq in E. injection E as _ -> _. exact (tj_malformedMessage _ _ _ _ _ E1 I). }
  apply if_eq in E as [[_ E]|[Ha E]].
  { apply bind_eq in E as [u [c1 [ev1 [E1 E]]]]. apply ret_eq in E. injection E as _ -> _. exact (tj_malformedMessage _ _ _ _ _ E1 I). }
  apply if_eq in E as [[_ E]|[_ E]].
  { apply bind_eq in E as [u [c1 [ev1 [E1 E]]]]. apply ret_eq in E. injection E as _ -> _. injection E1 as _ <- _. exact I. }
  apply bind_eq in E as [u [c1 [ev1 [E1 E]]]]. apply ret_eq in E. injection E as _ -> _.
  apply if_eq in E1 as [[Hz E1]|[_ E1]]; [|apply ret_eq in E1; injection E1 as _ -> _; exact I].
  apply N.eqb_eq in Hz. unfold modify in E1. injection E1 as _ <- _.
  destruct I as [I1 [I2 [I3 I4]]]. unfold TJ. cbn. repeat split.
  - exact I1.
  - intros Hb. rewrite (I2 Hb) in Hz. contradiction.
  - exact I3.
  - right. lia.
Qed.
#[local] Hint Resolve tj_verifyInstanceTags : tj.

Lemma tj_messageHeader : tj messageHeader. Proof. unfold messageHeader. tj_tac. Qed.
#[local] Hint Resolve tj_messageHeader : tj.
Lemma tj_wrap b : tj (wrap b). Proof. unfold wrap. tj_tac. Qed.
#[local] Hint Resolve tj_wrap : tj.
Lemma tj_generatePotentialErrorMessage x : tj (generatePotentialErrorMessage x). Proof. unfold generatePotentialErrorMessage. tj_tac. Qed.
#[local] Hint Resolve tj_generatePotentialErrorMessage : tj.
Lemma tj_withInjects x : tj (withInjects x). Proof. unfold withInjects. tj_tac. Qed.
#[local] Hint Resolve tj_withInjects : tj.
Lemma tj_updateLastSent x : tj (updateLastSent x). Proof. unfold updateLastSent. tj_tac. Qed.
#[local] Hint Resolve tj_updateLastSent : tj.
Lemma tj_genDataMsgWithFlag t f l r : tj (genDataMsgWithFlag t f l r). Proof. unfold genDataMsgWithFlag. tj_tac. Qed.
#[local] Hint Resolve tj_genDataMsgWithFlag : tj.
Lemma tj_createSerializedDataMessage n t f l : tj (createSerializedDataMessage n t f l). Proof. unfold createSerializedDataMessage. tj_tac. Qed.
#[local] Hint Resolve tj_createSerializedDataMessage : tj.
Lemma tj_retransmit_loop msgs : forall p acc, tj (retransmit_loop msgs p acc).
Proof. induction msgs as [|m r IH]; intros p acc; cbn [retransmit_loop]; tj_tac. Qed.
#[local] Hint Resolve tj_retransmit_loop : tj.
Lemma tj_emit_n n e : tj (emit_n n e).
Proof. induction n as [|k IH]; cbn [emit_n]; [tj_tac|]. apply tj_bind; [apply tj_event | intros _; exact IH]. Qed.
#[local] Hint Resolve tj_emit_n : tj.
Lemma tj_maybeRetransmit n : tj (maybeRetransmit n). Proof. unfold maybeRetransmit. tj_tac. Qed.
#[local] Hint Resolve tj_maybeRetransmit : tj.
Lemma tj_retransmitAfterAKE n : tj (retransmitAfterAKE n). Proof. unfold retransmitAfterAKE. tj_tac. Qed.
#[local] Hint Resolve tj_retransmitAfterAKE : tj.
Lemma tj_set_ake f : tj (set_ake f). Proof. unfold set_ake. tj_tac. Qed.
#[local] Hint Resolve tj_set_ake : tj.
Lemma tj_sendDHCommit : tj sendDHCommit. Proof. unfold sendDHCommit. tj_tac. Qed.
#[local] Hint Resolve tj_sendDHCommit : tj.
Lemma tj_calcAKEKeys s : tj (calcAKEKeys s). Proof. unfold calcAKEKeys. tj_tac. Qed.
#[local] Hint Resolve tj_calcAKEKeys : tj.
Lemma tj_setSentRevealSig s : tj (setSentRevealSig s). Proof. unfold setSentRevealSig. tj_tac. Qed.
#[local] Hint Resolve tj_setSentRevealSig : tj.
Lemma tj_generateEncryptedSignature s : tj (generateEncryptedSignature s). Proof. unfold generateEncryptedSignature. tj_tac. Qed.
#[local] Hint Resolve tj_generateEncryptedSignature : tj.
Lemma tj_processEncryptedSig a b s : tj (processEncryptedSig a b s). Proof. unfold processEncryptedSig. tj_tac. Qed.
#[local] Hint Resolve tj_processEncryptedSig : tj.
Lemma tj_akeHasFinished now : tj (akeHasFinished now). Proof. unfold akeHasFinished. tj_tac. Qed.
#[local] Hint Resolve tj_akeHasFinished : tj.
Lemma tj_receiveDHCommit_none b : tj (receiveDHCommit_none b). Proof. unfold receiveDHCommit_none. tj_tac. Qed.
#[local] Hint Resolve tj_receiveDHCommit_none : tj.
Lemma tj_processAKE_body now ty body aux : tj (processAKE_body now ty body aux). Proof. unfold processAKE_body. tj_tac. Qed.
#[local] Hint Resolve tj_processAKE_body : tj.
Lemma tj_processAKE now ty body aux : tj (processAKE now ty body aux). Proof. unfold processAKE. tj_tac. Qed.
#[local] Hint Resolve tj_processAKE : tj.
Lemma tj_processTLVs rnd tlvs : forall x acc, tj (processTLVs rnd tlvs x acc).
Proof. induction tlvs as [|t r IH]; intros x acc; cbn [processTLVs]; [tj_tac|]. destruct t; tj_tac; try apply IH. Qed.
#[local] Hint Resolve tj_processTLVs : tj.
Lemma tj_processDataMessage now d rnd : tj (processDataMessage now d rnd). Proof. unfold processDataMessage. tj_tac. Qed.
#[local] Hint Resolve tj_processDataMessage : tj.
Lemma tj_potentialHeartbeat now p : tj (potentialHeartbeat now p). Proof. unfold potentialHeartbeat. tj_tac. Qed.
#[local] Hint Resolve tj_potentialHeartbeat : tj.
Lemma tj_receiveDataMessage now d rnd : tj (receiveDataMessage now d rnd). Proof. unfold receiveDataMessage. tj_tac. Qed.
#[local] Hint Resolve tj_receiveDataMessage : tj.
Lemma tj_checkPlaintextPolicies : tj checkPlaintextPolicies. Proof. unfold checkPlaintextPolicies. tj_tac. Qed.
#[local] Hint Resolve tj_checkPlaintextPolicies : tj.
Lemma tj_receiveQueryMessage now v : tj (receiveQueryMessage now v). Proof. unfold receiveQueryMessage. tj_tac. Qed.
#[local] Hint Resolve tj_receiveQueryMessage : tj.
Lemma tj_receiveDecoded now ver stag rtag body aux rnd : tj (receiveDecoded now ver stag rtag body aux rnd).
Proof. unfold receiveDecoded. tj_tac. Qed.
#[local] Hint Resolve tj_receiveDecoded : tj.
Lemma tj_forgetVersion b e : tj (forgetVersion b e). Proof. unfold forgetVersion. tj_tac. Qed.
#[local] Hint Resolve tj_forgetVersion : tj.
Lemma tj_finish p o e : tj (finish p o e). Proof. unfold finish. tj_tac. Qed.
#[local] Hint Resolve tj_finish : tj.
Lemma tj_finishSend o e : tj (finishSend o e). Proof. unfold finishSend. tj_tac. Qed.
#[local] Hint Resolve tj_finishSend : tj.

(* a rejected message unbinds only what it had bound itself *)
Lemma tj_forgetTag before e : (b0 <> 0 -> before = b0) -> tj (forgetTag before e).
Proof.
  intros Hb c ev a c' ev' E I. unfold forgetTag in E.
  apply if_eq in E as [[Hc E]|[_ E]]; [|apply ret_eq in E; injection E as _ -> _; exact I].
  apply andb_true_iff in Hc as [Hz _]. apply N.eqb_eq in Hz.
  unfold modify in E. injection E as _ <- _.
  destruct I as [I1 [I2 [I3 I4]]]. unfold TJ. cbn. repeat split.
  - exact I1.
  - intros H0. exfalso. apply H0. rewrite <- (Hb H0). exact Hz.
  - exact I3.
  - left. reflexivity.
Qed.

Lemma tj_receive now w aux rnd : tj (receive now w aux rnd).
Proof.
  unfold receive. apply tj_bind; [apply tj_get|intros cg].
  destruct (negb (isOTREnabled (c_policies cg))); [apply tj_pure|].
  destruct w as [t tag| | |ver stag rtag body| | |]; try solve [tj_tac].
  (* an encoded message *)
  intros c ev a c' ev' E I.
  apply bind_eq in E as [c0 [c1 [ev1 [Eg E]]]]. apply get_eq in Eg. injection Eg as -> -> ->.
  apply bind_eq in E as [r [c2 [ev2 [E2 E]]]]. pose proof (tj_receiveDecoded _ _ _ _ _ _ _ _ _ _ _ _ E2 I) as I2.
  destruct r as [[plain out] err].
  apply bind_eq in E as [u3 [c3 [ev3 [E3 E]]]]. pose proof (tj_forgetVersion _ _ _ _ _ _ _ E3 I2) as I3.
  apply bind_eq in E as [u4 [c4 [ev4 [E4 E]]]].
  assert (Hb : b0 <> 0 -> c_theirTag c = b0) by (destruct I as [_ [H _]]; exact H).
  pose proof (tj_forgetTag _ _ Hb _ _ _ _ _ E4 I3) as I4.
  exact (tj_finish _ _ _ _ _ _ _ _ E I4).
Qed.
Lemma tj_endConv now : tj (endConv now). Proof. unfold endConv. tj_tac. Qed.
Lemma tj_userSMP now s rnd : tj (userSMP now s rnd). Proof. unfold userSMP. tj_tac. Qed.
Lemma tj_sendTLVs now t : tj (sendTLVs now t). Proof. unfold sendTLVs. tj_tac. Qed.
Lemma tj_useExtraKey now u d : tj (useExtraKey now u d). Proof. unfold useExtraKey. tj_tac. Qed.
Lemma tj_send now t : tj (send now t). Proof. unfold send. tj_tac. Qed.

Lemma tj_step now op c : TJ c -> TJ (fst (step now c op)).
Proof.
  intros I. unfold step. destruct op as [t|w aux rnd| |s rnd|u d|tlvs].
  - destruct (send now t c []) as [[r c'] ev'] eqn:E. exact (tj_send now t _ _ _ _ _ E I).
  - destruct (receive now w aux rnd c []) as [[r c'] ev'] eqn:E. exact (tj_receive now w aux rnd _ _ _ _ _ E I).
  - destruct (endConv now c []) as [[r c'] ev'] eqn:E. exact (tj_endConv now _ _ _ _ _ E I).
  - destruct (userSMP now s rnd c []) as [[r c'] ev'] eqn:E. exact (tj_userSMP now s rnd _ _ _ _ _ E I).
  - destruct (useExtraKey now u d c []) as [[r c'] ev'] eqn:E. exact (tj_useExtraKey now u d _ _ _ _ _ E I).
  - destruct (sendTLVs now tlvs c []) as [[r c'] ev'] eqn:E. exact (tj_sendTLVs now tlvs _ _ _ _ _ E I).
Qed.
End Tags.

(* one call: legal tags stay legal, a tag that is set stays what it is *)
Theorem step_tags now c op : tag_ok (c_ourTag c) -> tag_ok (c_theirTag c) ->
  let c' := fst (step now c op) in
  tag_ok (c_ourTag c') /\ tag_ok (c_theirTag c') /\
  (c_ourTag c <> 0 -> c_ourTag c' = c_ourTag c) /\ (c_theirTag c <> 0 -> c_theirTag c' = c_theirTag c).
Proof.
  intros Ho Ht. assert (I : TJ (c_ourTag c) (c_theirTag c) c) by (unfold TJ; auto).
  destruct (tj_step (c_ourTag c) (c_theirTag c) now op c I) as [I1 [I2 [I3 I4]]]. cbv zeta. auto.
Qed.

(* every history *)
Definition end_of (c : conv) (h : list (N * call)) : conv := fst (run_calls c h).
Lemma end_of_cons c now op r : end_of c ((now, op) :: r) = end_of (fst (step now c op)) r.
Proof. unfold end_of. cbn [run_calls]. destruct (step now c op) as [c1 res]. cbn [fst]. destruct (run_calls c1 r). reflexivity. Qed.

Theorem history_tags h : forall c, tag_ok (c_ourTag c) -> tag_ok (c_theirTag c) ->
  tag_ok (c_ourTag (end_of c h)) /\ tag_ok (c_theirTag (end_of c h)) /\
  (c_ourTag c <> 0 -> c_ourTag (end_of c h) = c_ourTag c) /\ (c_theirTag c <> 0 -> c_theirTag (end_of c h) = c_theirTag c).
Proof.
  induction h as [|[now op] r IH]; intros c Ho Ht; [cbn; auto|]. rewrite end_of_cons.
  destruct (step_tags now c op Ho Ht) as [Ho1 [Ht1 [So St]]]. cbv zeta in *.
  destruct (IH _ Ho1 Ht1) as [A [B [C D]]]. repeat split; auto.
  - intros H. rewrite <- (So H). apply C. rewrite (So H). exact H.
  - intros H. rewrite <- (St H). apply D. rewrite (St H). exact H.
Qed.

(* a new conversation: after any history its own tag and the peer tag it is bound to are 0 or legal *)
Theorem tags_of_a_new_conversation who pol key h :
  let c := end_of (conv_init who pol key) h in tag_ok (c_ourTag c) /\ tag_ok (c_theirTag c).
Proof.
  destruct (history_tags h (conv_init who pol key)) as [A [B _]]; [left; reflexivity|left; reflexivity|]. cbv zeta. auto.
Qed.
