(* C11: what an honest party generates passes the peer's checks, and with equal secrets the final comparisons hold -
   on the SMP model itself (elements in exponent representation, all arithmetic modulo the group order q), for every
   choice of exponents and every hash function.  Congruence modulo q is a setoid ([eqm]); the identities are closed by
   [ring_simplify] after the definition of subMod ([subq]) has been replaced by what it is congruent to. *)
From OTR Require Import Go.Base Gen.Consts Proto.SmpTypes Proto.Smp.
From Coq Require Import ZifyBool ZifyN ZifyNat Setoid Morphisms.
Open Scope N_scope.

Section Honest.
  Variable q : N.
  Hypothesis q1 : 1 < q.
  Variable H : N -> list elem -> N.

  Notation K := (EKnown false).
  Notation el_exp := (el_exp q). Notation el_mul := (el_mul q). Notation el_div := (el_div q).
  Notation el_eqb := (el_eqb q). Notation in_range := (in_range q). Notation subq := (subq q).

  Lemma exp_K e x : el_exp (K e) x = K ((e * x) mod q).
  Proof.
    unfold Smp.el_exp. destruct (N.eqb_spec x 0) as [->|Hx]; [rewrite N.mul_0_r, N.mod_0_l by lia; reflexivity|]. reflexivity.
  Qed.
  Lemma mul_K a b : el_mul (K a) (K b) = K ((a + b) mod q). Proof. reflexivity. Qed.
  Lemma div_K a b : el_div (K a) (K b) = Some (K ((a + (q - b mod q) mod q) mod q)). Proof. reflexivity. Qed.
  Lemma eqb_K a b : el_eqb (K a) (K b) = (a mod q =? b mod q). Proof. reflexivity. Qed.
  Lemma g1_K : g1e = K 1. Proof. reflexivity. Qed.

  (* arithmetic modulo q *)
  Lemma subq_add r m : (subq r m + m) mod q = r mod q.
  Proof.
    unfold Smp.subq. rewrite N.add_mod_idemp_l by lia.
    assert (Hm : m mod q < q) by (apply N.mod_lt; lia).
    rewrite <- (N.add_mod_idemp_r (r + (q - m mod q)) m) by lia.
    replace (r + (q - m mod q) + m mod q) with (r + q) by lia.
    rewrite <- N.add_mod_idemp_r by lia. rewrite N.mod_same by lia. rewrite N.add_0_r. reflexivity.
  Qed.

  (* congruence modulo q *)
  Definition eqm (a b : N) : Prop := a mod q = b mod q.
  #[local] Instance eqm_equiv : Equivalence eqm.
  Proof. split; [intros a; reflexivity | intros a b E; symmetry; exact E | intros a b c E1 E2; unfold eqm in *; congruence]. Qed.
  #[local] Instance add_eqm : Proper (eqm ==> eqm ==> eqm) N.add.
  Proof. intros a a' Ea b b' Eb. unfold eqm in *. rewrite (N.add_mod a b), (N.add_mod a' b') by lia. congruence. Qed.
  #[local] Instance mul_eqm : Proper (eqm ==> eqm ==> eqm) N.mul.
  Proof. intros a a' Ea b b' Eb. unfold eqm in *. rewrite (N.mul_mod a b), (N.mul_mod a' b') by lia. congruence. Qed.
  Lemma mod_eqm a : eqm (a mod q) a.
  Proof. unfold eqm. apply N.mod_mod. lia. Qed.
  Lemma subq_eqm r m : eqm (subq r m + m) r. Proof. exact (subq_add r m). Qed.
  Lemma eqm_K a b : eqm a b -> K (a mod q) = K (b mod q). Proof. intros E. f_equal. exact E. Qed.

  (* a zero-knowledge proof of knowledge of the exponent, as generated, verifies *)
  Lemma zkp1_ok r a ix : let '(c, d) := genZKP q H r a ix in verifyZKP q H d (el_exp g1e a) c ix = true.
  Proof.
    unfold genZKP, verifyZKP. rewrite g1_K, !exp_K, mul_K, !N.mul_1_l. apply N.eqb_eq. f_equal. f_equal. f_equal.
    match goal with |- ?a mod q = ?b mod q => change (eqm a b) end.
    set (c := H ix [K (r mod q)]). rewrite !mod_eqm. rewrite <- (subq_eqm r (a * c)) at 1. reflexivity.
  Qed.

  Ltac to_eqm := match goal with |- ?a mod q = ?b mod q => change (eqm a b) end.

  (* the proof that Pb / Qb (or Pa / Qa) are well formed, as generated, verifies *)
  Lemma zkp2_ok e2 e3 r4 r5 r6 y ix :
    let g2 := K e2 in let g3 := K e3 in
    let pb := el_exp g3 r4 in
    let qb := el_mul (el_exp g1e r4) (el_exp g2 y) in
    let cp := H ix [el_exp g3 r5; el_mul (el_exp g1e r5) (el_exp g2 r6)] in
    verifyZKP2 q H g2 g3 (subq r5 (r4 * cp)) (subq r6 (y * cp)) pb qb cp ix = true.
  Proof.
    cbv zeta. unfold verifyZKP2. rewrite g1_K, !exp_K, !mul_K, !exp_K, !mul_K, !N.mul_1_l.
    set (cp := H ix _). apply N.eqb_eq. unfold cp at 1. f_equal. f_equal; [|f_equal]; f_equal; to_eqm; rewrite !mod_eqm.
    - rewrite <- (subq_eqm r5 (r4 * cp)) at 1. ring_simplify. reflexivity.
    - rewrite <- (subq_eqm r5 (r4 * cp)) at 1. rewrite <- (subq_eqm r6 (y * cp)) at 1. ring_simplify. reflexivity.
  Qed.

  (* the proof that Ra (Rb) was raised with the exponent behind g3a (g3b), as generated, verifies *)
  Lemma zkp4_ok e a3 r7 ix :
    let qaqb := K e in
    let ra := el_exp qaqb a3 in
    let cr := H ix [el_exp g1e r7; el_exp qaqb r7] in
    verifyZKP4 q H cr (el_exp g1e a3) (subq r7 (a3 * cr)) qaqb ra ix = true.
  Proof.
    cbv zeta. unfold verifyZKP4. rewrite g1_K, !exp_K, !mul_K, !N.mul_1_l.
    set (cr := H ix _). apply N.eqb_eq. unfold cr at 1. f_equal. f_equal; [|f_equal]; f_equal; to_eqm; rewrite !mod_eqm.
    - rewrite <- (subq_eqm r7 (a3 * cr)) at 1. ring_simplify. reflexivity.
    - rewrite <- (subq_eqm r7 (a3 * cr)) at 1. ring_simplify. reflexivity.
  Qed.

  (* additive inverses modulo q *)
  Definition negq (m : N) : N := (q - m mod q) mod q.
  Lemma negq_eqm m : eqm (negq m + m) 0.
  Proof.
    unfold eqm, negq. rewrite N.add_mod_idemp_l by lia. assert (Hm : m mod q < q) by (apply N.mod_lt; lia).
    rewrite <- (N.add_mod_idemp_r (q - m mod q) m) by lia. replace (q - m mod q + m mod q) with q by lia.
    rewrite N.mod_same, N.mod_0_l by lia. reflexivity.
  Qed.
  #[local] Instance negq_proper : Proper (eqm ==> eqm) negq.
  Proof. intros a a' E. unfold eqm, negq in *. rewrite E. reflexivity. Qed.
  Lemma eqm_cancel a b m : eqm (a + m) (b + m) -> eqm a b.
  Proof.
    intros E. transitivity (a + m + negq m).
    - rewrite <- N.add_assoc, (N.add_comm m), negq_eqm, N.add_0_r. reflexivity.
    - rewrite E. rewrite <- N.add_assoc, (N.add_comm m), negq_eqm, N.add_0_r. reflexivity.
  Qed.
  Lemma div_K' a b : el_div (K a) (K b) = Some (K ((a + negq b) mod q)). Proof. reflexivity. Qed.

  Opaque negq.
  (* with equal secrets the final comparisons of both sides hold: Ra^b3 = Pa/Pb and Rb^a3 = Pa/Pb
     (g2 = g1^e2, g3 = g1^e3 with e3 = a3*b3 modulo q; r4a, r4b the blinding exponents of the two sides) *)
  Lemma final_equations e2 e3 a3 b3 r4a r4b x y :
    eqm e3 (a3 * b3) -> x = y ->
    let g2 := K e2 in let g3 := K e3 in
    let pa := el_exp g3 r4a in let qa := el_mul (el_exp g1e r4a) (el_exp g2 x) in
    let pb := el_exp g3 r4b in let qb := el_mul (el_exp g1e r4b) (el_exp g2 y) in
    exists qaqb papb, el_div qa qb = Some qaqb /\ el_div pa pb = Some papb /\
      el_eqb (el_exp (el_exp qaqb a3) b3) papb = true /\      (* the responder's check on Ra = (Qa/Qb)^a3 *)
      el_eqb (el_exp (el_exp qaqb b3) a3) papb = true.         (* the initiator's check on Rb = (Qa/Qb)^b3 *)
  Proof.
    intros E3 <-. cbv zeta. rewrite g1_K, !exp_K, !mul_K, !N.mul_1_l, !div_K'.
    eexists. eexists. split; [reflexivity|]. split; [reflexivity|].
    rewrite !exp_K, !eqb_K. split; apply N.eqb_eq; rewrite !N.mod_mod by lia; to_eqm; repeat setoid_rewrite mod_eqm.
    - apply (eqm_cancel _ _ (e3 * r4b)).
      transitivity (e3 * r4a); [|rewrite <- (N.add_assoc (e3 * r4a)); setoid_rewrite negq_eqm; rewrite N.add_0_r; reflexivity].
      apply (eqm_cancel _ _ ((r4b + e2 * x) * a3 * b3)).
      transitivity ((r4a + e2 * x + (negq (r4b + e2 * x) + (r4b + e2 * x))) * a3 * b3 + e3 * r4b); [ring_simplify; reflexivity|].
      setoid_rewrite negq_eqm. setoid_rewrite E3. ring_simplify. reflexivity.
    - apply (eqm_cancel _ _ (e3 * r4b)).
      transitivity (e3 * r4a); [|rewrite <- (N.add_assoc (e3 * r4a)); setoid_rewrite negq_eqm; rewrite N.add_0_r; reflexivity].
      apply (eqm_cancel _ _ ((r4b + e2 * x) * b3 * a3)).
      transitivity ((r4a + e2 * x + (negq (r4b + e2 * x) + (r4b + e2 * x))) * b3 * a3 + e3 * r4b); [ring_simplify; reflexivity|].
      setoid_rewrite negq_eqm. setoid_rewrite E3. ring_simplify. reflexivity.
  Qed.
End Honest.

(* the statement does not involve the hash function *)
Definition final_equations_both q (q1 : 1 < q) := final_equations q q1 (fun _ _ => 0).
