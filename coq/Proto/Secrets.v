(* C08 — which secrets a conversation still holds.  In the symbolic machine a secret is held iff its identifier
   occurs in the state: the Go code's "wipe and drop" is the model's reset of the field. The harness compares this
   projection, after every call, with a scan of the object graph reachable from the real *Conversation. *)
From OTR Require Import Go.Base Corr.Val Proto.SmpTypes Proto.Keys Proto.Smp Proto.Conv.
Open Scope N_scope.

Definition opt_list {A} (o : option A) : list A := match o with Some x => [x] | None => [] end.
Definition is_some {A} (o : option A) : bool := match o with Some _ => true | None => false end.

Fixpoint nodupN (l : list N) : list N :=
  match l with
  | [] => []
  | x :: r => if existsb (N.eqb x) r then nodupN r else x :: nodupN r
  end.

(* DH private keys of the established session *)
Definition dh_exps (k : keyctx) : list eid := opt_list (ourCurrent k) ++ opt_list (ourPrevious k).
(* what a key exchange in progress holds: its secret exponent and the key context it is preparing *)
Definition ake_exps (c : conv) : list eid :=
  match c_ake c with
  | Some a => opt_list (a_exp a) ++ dh_exps (a_keys a)
  | None => []
  end.
Definition held_exps (c : conv) : list eid := nodupN (dh_exps (c_keys c) ++ ake_exps c).

Definition ake_r_held (c : conv) : bool :=
  match c_ake c with Some a => negb (a_r a =? 0) | None => false end.
Definition ake_keys_held (c : conv) : bool :=
  match c_ake c with Some a => is_some (a_shared a) | None => false end.
Definition smp_held (c : conv) : bool :=
  let s := c_smp c in is_some (sm_s1 s) || is_some (sm_s2 s) || is_some (sm_s3 s) || is_some (sm_secret s).

Definition secrets_obs (c : conv) : val :=
  VL [VN (lenN (held_exps c)); vbool (ake_r_held c); vbool (ake_keys_held c); vbool (smp_held c);
      VL (map VB (c_resendMsgs c))].

(* nothing secret is left *)
Definition clean (c : conv) : Prop :=
  held_exps c = [] /\ ake_r_held c = false /\ ake_keys_held c = false /\ smp_held c = false /\ c_resendMsgs c = [].
