(* C05 over whole histories: once a data message has been accepted, it is refused at every later moment, whatever
   the party receives and sends in between (any number of rotations on either axis). *)
From OTR Require Import Go.Base Proto.SmpTypes Proto.Keys Proto.KeysProofs.
Open Scope N_scope.

(* a message for key pair (o, t) with counter c cannot be accepted in context k: the pair has left the window, or
   the counter recorded for it is at least c *)
Definition blocked (k : keyctx) (o t c : N) : Prop :=
  (o + 1 < ourKeyID k \/ t + 1 < theirKeyID k) \/ c <= ctr_of (counters k) o t.

Lemma blocked_rejects k d x :
  blocked k (af_rk (d_fields d)) (af_sk (d_fields d)) (af_ctr (d_fields d)) ->
  match recvDataMsg k d x with Ok _ => False | _ => True end.
Proof.
  intros [Hret|Hctr]; unfold recvDataMsg.
  - destruct (negb (d_wellformed d)); [exact I|].
    destruct (sessionKeysFor k _ _) as [keys| |] eqn:Ek; cbn [bindR]; try exact I.
    exfalso. exact (retired_pair_refused k _ _ Hret keys Ek).
  - destruct (negb (d_wellformed d)); [exact I|].
    destruct (sessionKeysFor k _ _) as [keys| |]; cbn [bindR]; try exact I.
    destruct (negb (mac_valid d (receivingKey keys))); [exact I|].
    destruct (checkMessageCounter_spec k (af_rk (d_fields d)) (af_sk (d_fields d)) (af_ctr (d_fields d))) as [S1 _].
    rewrite (S1 Hctr). exact I.
Qed.

(* key ids never decrease *)
Lemma ids_rotateOurs_le k rk x : ourKeyID k <= ourKeyID (rotateOurKeys k rk x).
Proof. unfold rotateOurKeys. destruct (rk =? ourKeyID k); [|lia]. destruct (forgetMACKeys _ _). cbn. lia. Qed.
Lemma ids_rotateTheirs_le k sk y : theirKeyID k <= theirKeyID (rotateTheirKey k sk y) /\ ourKeyID (rotateTheirKey k sk y) = ourKeyID k.
Proof. unfold rotateTheirKey. destruct (sk =? theirKeyID k); [|split; [lia|reflexivity]]. destruct (forgetMACKeys _ _). cbn. split; [lia|reflexivity]. Qed.

Lemma blocked_rotateOurs k rk x o t c : ourKeyID k <> 0 -> blocked k o t c -> blocked (rotateOurKeys k rk x) o t c.
Proof.
  intros H0 [[H|H]|H].
  - left. left. pose proof (ids_rotateOurs_le k rk x). lia.
  - left. right. rewrite ids_rotateOurs. exact H.
  - destruct (rotates_ours k rk) eqn:Er.
    + destruct (N.eq_dec o (ourKeyID k - 1)) as [->|Hne].
      * (* the pair retires with this rotation *)
        left. left. unfold rotateOurKeys. unfold rotates_ours in Er. rewrite Er. destruct (forgetMACKeys _ _). cbn. lia.
      * right. rewrite ctr_of_rotateOurs; [exact H | left; exact Hne].
    + right. rewrite ctr_of_rotateOurs; [exact H | right; exact Er].
Qed.

Lemma blocked_rotateTheirs k sk y o t c : theirKeyID k <> 0 -> blocked k o t c -> blocked (rotateTheirKey k sk y) o t c.
Proof.
  intros H0 [[H|H]|H]; destruct (ids_rotateTheirs_le k sk y) as [I1 I2].
  - left. left. rewrite I2. exact H.
  - left. right. lia.
  - destruct (sk =? theirKeyID k) eqn:Er.
    + destruct (N.eq_dec t (theirKeyID k - 1)) as [->|Hne].
      * left. right. unfold rotateTheirKey. rewrite Er. destruct (forgetMACKeys _ _). cbn. lia.
      * right. rewrite ctr_of_rotateTheirs; [exact H | left; exact Hne].
    + right. rewrite ctr_of_rotateTheirs; [exact H | right; exact Er].
Qed.

Lemma blocked_addKeys k o' t' key o t c : blocked k o t c -> blocked (addKeys k o' t' key) o t c.
Proof.
  unfold blocked. destruct (ids_addKeys k o' t' key) as [-> ->]. rewrite counters_addKeys. tauto.
Qed.

(* receiving: an accepted message moves the context forward and keeps every blocked message blocked *)
Lemma blocked_recv k d x pl k' xk o t c : recvDataMsg k d x = Ok (pl, k', xk) -> blocked k o t c -> blocked k' o t c.
Proof.
  unfold recvDataMsg. destruct (negb (d_wellformed d)); [discriminate|].
  set (f := d_fields d).
  destruct (sessionKeysFor k (af_rk f) (af_sk f)) as [keys| |] eqn:Ek; cbn [bindR]; try discriminate.
  destruct (negb (mac_valid d (receivingKey keys))); [discriminate|].
  destruct (checkMessageCounter k (af_rk f) (af_sk f) (af_ctr f)) as [k1| |] eqn:Ec; cbn [bindR]; try discriminate.
  destruct (_ && _); [|discriminate]. intros H B. injection H as _ <- _.
  destruct (sessionKeys_window _ _ _ _ Ek) as [Hrk0 [Hsk0 [Hrk Hsk]]].
  destruct (checkMessageCounter_spec k (af_rk f) (af_sk f) (af_ctr f)) as [S1 S2].
  destruct (N.le_gt_cases (af_ctr f) (ctr_of (counters k) (af_rk f) (af_sk f))) as [Hle|Hgt].
  { rewrite (S1 Hle) in Ec. discriminate. }
  destruct (S2 Hgt) as [k1' [E1 [Hc [Hoth [Ho [Ht _]]]]]]. rewrite Ec in E1. injection E1 as <-.
  assert (B1 : blocked k1 o t c).
  { destruct B as [B|B]; [left; rewrite Ho, Ht; exact B|]. right.
    destruct (N.eq_dec o (af_rk f)) as [->|Hno]; [destruct (N.eq_dec t (af_sk f)) as [->|Hnt]|].
    - rewrite Hc. lia.
    - rewrite Hoth by (right; exact Hnt). exact B.
    - rewrite Hoth by (left; exact Hno). exact B. }
  apply blocked_rotateTheirs.
  - rewrite ids_rotateOurs. destruct (ids_addKeys k1 (af_rk f) (af_sk f) (receivingKey keys)) as [_ ->]. rewrite Ht. lia.
  - apply blocked_rotateOurs.
    + destruct (ids_addKeys k1 (af_rk f) (af_sk f) (receivingKey keys)) as [-> _]. rewrite Ho. lia.
    + apply blocked_addKeys. exact B1.
Qed.

(* sending does not touch the receiving counters or the key ids *)
Lemma ctr_of_update_ours cs o t v o' t' :
  ctr_of (update_counter cs o t (fun c => {| kc_our := kc_our c; kc_their := kc_their c; kc_ourCtr := v; kc_theirCtr := kc_theirCtr c |})) o' t'
  = ctr_of cs o' t'.
Proof.
  assert (K : keeps_ids (fun c => {| kc_our := kc_our c; kc_their := kc_their c; kc_ourCtr := v; kc_theirCtr := kc_theirCtr c |}))
    by (intros c; split; reflexivity).
  unfold ctr_of. destruct (N.eq_dec o' o) as [->|Ho]; [destruct (N.eq_dec t' t) as [->|Ht]|].
  - destruct (find_counter cs o t) as [c|] eqn:E.
    + rewrite (find_update_same cs o t _ c K E). reflexivity.
    + (* no entry: update changes nothing *)
      assert (U : forall l, find_counter l o t = None -> update_counter l o t
                 (fun c => {| kc_our := kc_our c; kc_their := kc_their c; kc_ourCtr := v; kc_theirCtr := kc_theirCtr c |}) = l).
      { induction l as [|x l IH]; cbn; [reflexivity|]. unfold find_counter. cbn.
        destruct ((kc_our x =? o) && (kc_their x =? t)); [discriminate|]. intros H. f_equal. apply IH. exact H. }
      rewrite (U cs E), E. reflexivity.
  - rewrite find_update_other by (auto). reflexivity.
  - rewrite find_update_other by (auto). reflexivity.
Qed.

Lemma blocked_gen k h flag pl d k' xk o t c : genDataMsg k h flag pl = Ok (d, k', xk) -> blocked k o t c -> blocked k' o t c.
Proof.
  unfold genDataMsg. destruct (sessionKeysFor _ _ _) as [keys| |]; cbn [bindR]; try discriminate.
  set (k1 := addKeys k _ _ _).
  destruct (find_counter _ _ _) as [c0|]; [|discriminate].
  match goal with |- context [set_counters k1 ?cs] => set (cs' := cs) end.
  destruct (ourCurrent (set_counters k1 cs')) as [y|]; [|discriminate].
  cbn [revealMACKeys]. intros H B. injection H as _ <- _.
  apply (blocked_addKeys k (ourKeyID k - 1) (theirKeyID k) (receivingKey keys)) in B. fold k1 in B.
  unfold blocked in *. cbn [ourKeyID theirKeyID counters set_oldMACKeys set_counters].
  destruct B as [B|B]; [left; exact B|right].
  unfold cs'. rewrite ctr_of_update_ours, ctr_of_ensure. exact B.
Qed.

(* ---------- histories ---------- *)
Inductive kev : Type :=
| KRecv (d : sdata) (x : eid)                 (* a data message arrives; x is the exponent drawn if our key rotates *)
| KGen (h : hdr) (flag : N) (pl : payload).   (* the party sends a data message *)

Definition kstep (k : keyctx) (e : kev) : keyctx :=
  match e with
  | KRecv d x => match recvDataMsg k d x with Ok (_, k', _) => k' | _ => k end
  | KGen h flag pl => match genDataMsg k h flag pl with Ok (_, k', _) => k' | _ => k end
  end.

Lemma blocked_history evs : forall k o t c, blocked k o t c -> blocked (fold_left kstep evs k) o t c.
Proof.
  induction evs as [|e evs IH]; intros k o t c B; [exact B|].
  cbn [fold_left]. apply IH. destruct e as [d x|h flag pl]; cbn [kstep].
  - destruct (recvDataMsg k d x) as [[[pl k'] xk]| |] eqn:E; try exact B. exact (blocked_recv _ _ _ _ _ _ _ _ _ E B).
  - destruct (genDataMsg k h flag pl) as [[[d k'] xk]| |] eqn:E; try exact B. exact (blocked_gen _ _ _ _ _ _ _ _ _ _ E B).
Qed.

(* a data message that has been accepted is never accepted again, whatever happens in between *)
Theorem accepted_at_most_once k d x pl k' xk : recvDataMsg k d x = Ok (pl, k', xk) ->
  forall evs x', match recvDataMsg (fold_left kstep evs k') d x' with Ok _ => False | _ => True end.
Proof.
  intros H evs x'. apply blocked_rejects. apply blocked_history.
  (* right after acceptance the counter recorded for the pair is the message's counter (or the pair has retired) *)
  pose proof H as H0. unfold recvDataMsg in H. destruct (negb (d_wellformed d)); [discriminate|].
  set (f := d_fields d) in *.
  destruct (sessionKeysFor k (af_rk f) (af_sk f)) as [keys| |] eqn:Ek; cbn [bindR] in H; try discriminate.
  destruct (negb (mac_valid d (receivingKey keys))); [discriminate|].
  destruct (checkMessageCounter k (af_rk f) (af_sk f) (af_ctr f)) as [k1| |] eqn:Ec; cbn [bindR] in H; try discriminate.
  clear H.
  destruct (checkMessageCounter_spec k (af_rk f) (af_sk f) (af_ctr f)) as [S1 S2].
  destruct (N.le_gt_cases (af_ctr f) (ctr_of (counters k) (af_rk f) (af_sk f))) as [Hle|Hgt].
  { rewrite (S1 Hle) in Ec. discriminate. }
  (* blocked in k1, hence (same argument as for any other message) in k' *)
  destruct (S2 Hgt) as [k1' [E1 [Hc _]]]. rewrite Ec in E1. injection E1 as <-.
  (* reuse blocked_recv with the message itself: start from "blocked after the counter update" *)
  assert (Bk : forall o t c, blocked k o t c -> blocked k' o t c) by (intros; eapply blocked_recv; eauto).
  (* the pair itself: not blocked in k (it was accepted), so argue on k1 directly *)
  revert H0. unfold recvDataMsg. destruct (negb (d_wellformed d)); [discriminate|]. fold f. rewrite Ek. cbn [bindR].
  destruct (negb (mac_valid d (receivingKey keys))); [discriminate|]. rewrite Ec. cbn [bindR].
  destruct (_ && _); [|discriminate]. intros H0. injection H0 as _ <- _.
  destruct (sessionKeys_window _ _ _ _ Ek) as [Hrk0 [Hsk0 [Hrk Hsk]]].
  destruct (S2 Hgt) as [k1'' [E1 [_ [_ [Ho [Ht _]]]]]]. rewrite Ec in E1. injection E1 as <-.
  apply blocked_rotateTheirs.
  - rewrite ids_rotateOurs. destruct (ids_addKeys k1 (af_rk f) (af_sk f) (receivingKey keys)) as [_ ->]. rewrite Ht. lia.
  - apply blocked_rotateOurs.
    + destruct (ids_addKeys k1 (af_rk f) (af_sk f) (receivingKey keys)) as [-> _]. rewrite Ho. lia.
    + apply blocked_addKeys. right. rewrite Hc. lia.
Qed.
