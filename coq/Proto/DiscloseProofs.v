(* C09, second half, over whole histories: a receiving MAC key that has been recorded as used is, at every later
   moment, still recorded, or waiting to be disclosed, or has been put into a data message that was sent - it is never
   silently lost, whatever is received and sent in between. *)
From OTR Require Import Go.Base Proto.SmpTypes Proto.Keys Proto.KeysProofs Proto.ReplayProofs.
Open Scope N_scope.

(* run a history, collecting what the emitted data messages disclose *)
Fixpoint krun (k : keyctx) (evs : list kev) (out : list skey) : keyctx * list skey :=
  match evs with
  | [] => (k, out)
  | KRecv d x :: r =>
      match recvDataMsg k d x with
      | Ok (_, k', _) => krun k' r out
      | _ => krun k r out
      end
  | KGen h flag pl :: r =>
      match genDataMsg k h flag pl with
      | Ok (d, k', _) => krun k' r (out ++ d_old d)
      | _ => krun k r out
      end
  end.

Definition accounted (key : skey) (k : keyctx) (out : list skey) : Prop :=
  In key (map mu_key (macHistory k)) \/ In key (oldMACKeys k) \/ In key out.

Lemma accounted_addKeys key k o t k0 out : accounted key k out -> accounted key (addKeys k o t k0) out.
Proof.
  unfold accounted, addKeys. destruct (has_mac_entry _ _ _); [tauto|].
  cbn [macHistory oldMACKeys set_macHistory]. rewrite map_app, in_app_iff. tauto.
Qed.

Lemma accounted_rotateOurs key k rk x out : accounted key k out -> accounted key (rotateOurKeys k rk x) out.
Proof.
  intros [H|[H|H]].
  - apply in_map_iff in H as [u [<- Hu]].
    destruct (our_rotation_keeps_or_discloses k rk x u Hu) as [H|H]; [left; apply in_map; exact H | right; left; exact H].
  - right. left. unfold rotateOurKeys. destruct (rk =? ourKeyID k); [|exact H].
    destruct (forgetMACKeys _ _). cbn. apply in_or_app. left. exact H.
  - right. right. exact H.
Qed.
Lemma accounted_rotateTheirs key k sk y out : accounted key k out -> accounted key (rotateTheirKey k sk y) out.
Proof.
  intros [H|[H|H]].
  - apply in_map_iff in H as [u [<- Hu]].
    destruct (their_rotation_keeps_or_discloses k sk y u Hu) as [H|H]; [left; apply in_map; exact H | right; left; exact H].
  - right. left. unfold rotateTheirKey. destruct (sk =? theirKeyID k); [|exact H].
    destruct (forgetMACKeys _ _). cbn. apply in_or_app. left. exact H.
  - right. right. exact H.
Qed.

Lemma accounted_recv key k d x pl k' xk out : recvDataMsg k d x = Ok (pl, k', xk) -> accounted key k out -> accounted key k' out.
Proof.
  unfold recvDataMsg. destruct (negb (d_wellformed d)); [discriminate|].
  set (f := d_fields d).
  destruct (sessionKeysFor k (af_rk f) (af_sk f)) as [keys| |]; cbn [bindR]; try discriminate.
  destruct (negb (mac_valid d (receivingKey keys))); [discriminate|].
  destruct (checkMessageCounter k (af_rk f) (af_sk f) (af_ctr f)) as [k1| |] eqn:Ec; cbn [bindR]; try discriminate.
  destruct (_ && _); [|discriminate]. intros H A. injection H as _ <- _.
  apply accounted_rotateTheirs, accounted_rotateOurs, accounted_addKeys.
  destruct (checkMessageCounter_spec k (af_rk f) (af_sk f) (af_ctr f)) as [S1 S2].
  destruct (N.le_gt_cases (af_ctr f) (ctr_of (counters k) (af_rk f) (af_sk f))) as [Hle|Hgt].
  { rewrite (S1 Hle) in Ec. discriminate. }
  destruct (S2 Hgt) as [k1' [E1 [_ [_ [_ [_ [_ [_ [_ [_ [Hm Ho]]]]]]]]]]]. rewrite Ec in E1. injection E1 as <-.
  unfold accounted in *. rewrite Hm, Ho. exact A.
Qed.

Lemma accounted_gen key k h flag pl d k' xk out : genDataMsg k h flag pl = Ok (d, k', xk) ->
  accounted key k out -> accounted key k' (out ++ d_old d).
Proof.
  intros H A. destruct (gen_discloses_all_pending _ _ _ _ _ _ _ H) as [Hd _].
  revert H. unfold genDataMsg. destruct (sessionKeysFor _ _ _) as [keys| |]; cbn [bindR]; try discriminate.
  set (k1 := addKeys k _ _ _).
  destruct (find_counter _ _ _); [|discriminate].
  match goal with |- context [set_counters k1 ?cs] => set (cs' := cs) end.
  destruct (ourCurrent (set_counters k1 cs')); [|discriminate].
  cbn [revealMACKeys]. intros H. injection H as _ <- _.
  apply (accounted_addKeys key k (ourKeyID k - 1) (theirKeyID k) (receivingKey keys)) in A. fold k1 in A.
  unfold accounted in *. cbn [macHistory oldMACKeys set_oldMACKeys set_counters]. rewrite in_app_iff, Hd.
  assert (E1 : oldMACKeys k1 = oldMACKeys k) by (unfold k1, addKeys; destruct (has_mac_entry _ _ _); reflexivity).
  rewrite E1 in A. tauto.
Qed.

Theorem used_key_never_lost evs : forall k out key, accounted key k out ->
  accounted key (fst (krun k evs out)) (snd (krun k evs out)).
Proof.
  induction evs as [|e evs IH]; intros k out key A; [exact A|].
  destruct e as [d x|h flag pl]; cbn [krun].
  - destruct (recvDataMsg k d x) as [[[pl k'] xk]| |] eqn:E; try (apply IH; exact A).
    apply IH. exact (accounted_recv _ _ _ _ _ _ _ _ E A).
  - destruct (genDataMsg k h flag pl) as [[[d k'] xk]| |] eqn:E; try (apply IH; exact A).
    apply IH. exact (accounted_gen _ _ _ _ _ _ _ _ _ E A).
Qed.

(* and whatever is waiting goes out with the next data message that is sent *)
Corollary pending_key_disclosed_by_next_send k h flag pl d k' xk key :
  genDataMsg k h flag pl = Ok (d, k', xk) -> In key (oldMACKeys k) -> In key (d_old d).
Proof. intros H Hk. destruct (gen_discloses_all_pending _ _ _ _ _ _ _ H) as [-> _]. exact Hk. Qed.
