(* C16 at conversation level, over histories: a conversation whose policy set is [pol] never commits to a version the
   policy forbids, and every encoded message it emits (key exchange messages, data messages, what is released from the
   queue or stored for retransmission) carries the version it has committed to - never version 2 without ALLOW_V2,
   never version 3 without ALLOW_V3.  Same method as Proto/NoPlain.v / Proto/Provenance.v. *)
From OTR Require Import Go.Base Gen.Consts Bytes.Text Bytes.TextProofs Proto.SmpTypes Proto.Keys Proto.Smp Proto.SmpInst Proto.Conv Proto.ConvProofs Proto.Lifecycle Proto.AkeAuth Proto.NoPlain.
From RecordUpdate Require Import RecordSet.
Import RecordSetNotations.
Open Scope N_scope.

Section Ver.
Variable pol : N.

(* 0: no version committed (the header such a conversation would build does not exist in the code: nil version) *)
Definition ver_ok (v : N) : Prop :=
  v = 0 \/ (v = 2 /\ has pol c_allowV2 = true) \/ (v = 3 /\ has pol c_allowV3 = true).
Definition okw (w : wire) : Prop := match w with WEnc ver _ _ _ => ver_ok ver | _ => True end.
Definition okl (l : list wire) : Prop := Forall okw l.
Lemma okl_nil : okl []. Proof. constructor. Qed.
Lemma okl_app l1 l2 : okl (l1 ++ l2) <-> okl l1 /\ okl l2. Proof. apply Forall_app. Qed.
Lemma okl_cons w l : okl (w :: l) <-> okw w /\ okl l.
Proof. split; [intros H; inversion H; auto | intros [H1 H2]; constructor; auto]. Qed.

Definition PInv (c : conv) : Prop := c_policies c = pol /\ ver_ok (c_version c) /\ okl (wires c).

Definition pv {A} {WA : Wires A} (m : M A) : Prop := forall c ev a c' ev', m c ev = (a, c', ev') ->
  PInv c -> PInv c' /\ okl (wires a).

Lemma pv_bind {A B} {WA : Wires A} {WB : Wires B} (m : M A) (f : A -> M B) :
  pv m -> (forall a, okl (wires a) -> pv (f a)) -> pv (bind m f).
Proof.
  intros Hm Hf c ev b c' ev' E I. apply bind_eq in E as [a [c1 [ev1 [E1 E]]]].
  destruct (Hm _ _ _ _ _ E1 I) as [I1 Ca]. exact (Hf a Ca _ _ _ _ _ E I1).
Qed.
Lemma pv_ret {A} {WA : Wires A} (a : A) : okl (wires a) -> pv (ret a).
Proof. intros Ca c ev a' c' ev' E I. injection E as <- <- <-. auto. Qed.
Lemma pv_get : pv get.
Proof. intros c ev a' c' ev' E I. injection E as <- <- <-. split; [exact I|exact (proj2 (proj2 I))]. Qed.
Lemma pv_fresh : pv fresh.
Proof. intros c ev a' c' ev' E I. unfold fresh, draw in E. injection E as <- <- <-. split; [exact I | constructor]. Qed.
Lemma pv_event e : pv (event e).
Proof. intros c ev a' c' ev' E I. injection E as <- <- <-. split; [exact I | constructor]. Qed.
Lemma pv_modify f : (forall c, PInv c -> PInv (f c)) -> pv (modify f).
Proof. intros H c ev a' c' ev' E I. injection E as <- <- <-. split; [apply H; exact I | constructor]. Qed.
Lemma pv_pure {A} {WA : Wires A} (f : conv -> list N -> A) : (forall c ev, PInv c -> okl (wires (f c ev))) -> pv (fun c ev => (f c ev, c, ev)).
Proof. intros H c ev a' c' ev' E I. injection E as <- <- <-. split; [exact I | apply H; exact I]. Qed.
Lemma pv_evs (g : list N -> list N) : pv (fun c ev => (tt, c, g ev)).
Proof. intros c ev a' c' ev' E I. injection E as <- <- <-. split; [exact I | constructor]. Qed.

Lemma PInv_same c c' : c_injections c' = c_injections c -> c_ake c' = c_ake c -> c_policies c' = c_policies c ->
  c_version c' = c_version c -> PInv c -> PInv c'.
Proof. unfold PInv, wires, W_conv, reveal_of. intros -> -> -> ->. auto. Qed.

Ltac cw1 :=
  repeat first
   [ progress (cbv beta delta [wires W_prod W_option W_R W_sum W_wire W_unit W_N W_bool W_hdr W_skey W_encsig W_emac W_stlv W_result W_conv] in * )
   | progress (cbn [fst snd r_out app] in * )
   | rewrite Wl_wire in *
   | rewrite Wl_N in *
   | rewrite Wl_stlv in *
   | rewrite okl_app in *
   | rewrite okl_cons in * ].
Ltac cw :=
  cw1;
  repeat (match goal with |- context [match ?x with _ => _ end] => destruct x end; cw1);
  repeat match goal with H : _ /\ _ |- _ => destruct H end;
  repeat split; auto using okl_nil; try reflexivity; try exact I.

Ltac sinv :=
  first
  [ (eapply PInv_same; [reflexivity | reflexivity | reflexivity | reflexivity | eassumption])
  | (unfold PInv, wires, W_conv, reveal_of, the_ake in *; cbn in *;
     repeat match goal with
            | |- context [match c_ake ?c with _ => _ end] => destruct (c_ake c)
            | H : context [match c_ake ?c with _ => _ end] |- _ => destruct (c_ake c)
            end;
     cbn in *; cw; try (left; reflexivity); try constructor) ].

Create HintDb pv.
Ltac pv_tac :=
  repeat first
  [ solve [auto with pv]
  | progress cbv zeta
  | apply pv_get | apply pv_fresh | apply pv_event | apply pv_evs
  | (apply pv_ret; solve [cw])
  | (apply pv_modify; intros ? ?; solve [sinv])
  | (apply pv_pure; intros ? ? ?; solve [cw])
  | (apply pv_bind; [|intros ? ?])
  | match goal with
    | |- pv (if ?b then _ else _) => destruct b
    | |- pv (match ?x with _ => _ end) => destruct x
    | |- pv (let '(_, _) := ?x in _) => destruct x
    end ].

Lemma pv_commitToVersionFrom v : pv (commitToVersionFrom v).
Proof.
  intros c ev a c' ev' E I. unfold commitToVersionFrom in E.
  apply bind_eq in E as [cg [c0 [ev0 [Eg E]]]]. apply get_eq in Eg. injection Eg as -> -> ->.
  apply if_eq in E as [[_ E]|[_ E]]; [apply ret_eq in E; injection E as -> -> _; split; [exact I|constructor]|].
  cbv zeta in E. apply if_eq in E as [[_ E]|[Hv E]]; [apply ret_eq in E; injection E as -> -> _; split; [exact I|constructor]|].
  apply bind_eq in E as [u [c1 [ev1 [E1 E]]]]. unfold modify in E1. injection E1 as _ <- _.
  apply ret_eq in E. injection E as -> -> _. split; [|constructor].
  destruct I as [Ip [Iv Iw]]. split; [exact Ip|]. split; [|exact Iw]. cbn.
  apply N.eqb_neq in Hv. destruct (pickVersion_allowed _ _ _ eq_refl Hv) as [[E3 [H3 _]]|[E2 [H2 _]]].
  - right. right. rewrite <- Ip. auto.
  - right. left. rewrite <- Ip. auto.
Qed.
#[local] Hint Resolve pv_commitToVersionFrom : pv.
Lemma pv_generateInstanceTag : pv generateInstanceTag. Proof. unfold generateInstanceTag. pv_tac. Qed.
#[local] Hint Resolve pv_generateInstanceTag : pv.
Lemma pv_malformedMessage : pv malformedMessage. Proof. unfold malformedMessage. pv_tac. Qed.
#[local] Hint Resolve pv_malformedMessage : pv.
Lemma pv_verifyInstanceTags a b : pv (verifyInstanceTags a b). Proof. unfold verifyInstanceTags. pv_tac. Qed.
#[local] Hint Resolve pv_verifyInstanceTags : pv.
Lemma pv_messageHeader : pv messageHeader. Proof. unfold messageHeader. pv_tac. Qed.
#[local] Hint Resolve pv_messageHeader : pv.
(* the header carries the version the conversation has committed to *)
Lemma messageHeader_ver c ev h c' ev' : messageHeader c ev = (h, c', ev') -> PInv c -> PInv c' /\ ver_ok (h_ver h).
Proof.
  intros E I. destruct (pv_messageHeader _ _ _ _ _ E I) as [I' _]. split; [exact I'|].
  unfold messageHeader in E. apply bind_eq in E as [cg [c0 [ev0 [Eg E]]]]. apply get_eq in Eg. injection Eg as -> -> ->.
  apply if_eq in E as [[Hv E]|[_ E]].
  - apply bind_eq in E as [u [c1 [ev1 [_ E]]]]. apply bind_eq in E as [cg [c2 [ev2 [_ E]]]]. apply ret_eq in E. injection E as -> _ _.
    cbn. apply N.eqb_eq in Hv. destruct I as [_ [Iv _]]. rewrite Hv in Iv. exact Iv.
  - apply ret_eq in E. injection E as -> _ _. cbn. destruct I as [_ [Iv _]]. exact Iv.
Qed.
Lemma pv_wrap b : pv (wrap b).
Proof.
  intros c ev a c' ev' E I. unfold wrap in E. apply bind_eq in E as [h [c1 [ev1 [E1 E]]]].
  destruct (messageHeader_ver _ _ _ _ _ E1 I) as [I1 Hh]. apply ret_eq in E. injection E as -> -> _.
  split; [exact I1|]. constructor; [exact Hh|constructor].
Qed.
#[local] Hint Resolve pv_wrap : pv.
Lemma pv_generatePotentialErrorMessage x : pv (generatePotentialErrorMessage x). Proof. unfold generatePotentialErrorMessage. pv_tac. Qed.
#[local] Hint Resolve pv_generatePotentialErrorMessage : pv.

Lemma pv_withInjects x : okl x -> pv (withInjects x). Proof. intros Hx. unfold withInjects. pv_tac. Qed.
Lemma pv_updateLastSent x : pv (updateLastSent x). Proof. unfold updateLastSent. pv_tac. Qed.
#[local] Hint Resolve pv_updateLastSent : pv.
Lemma pv_genDataMsgWithFlag t f l r : pv (genDataMsgWithFlag t f l r).
Proof.
  intros c ev a c' ev' E I. unfold genDataMsgWithFlag in E.
  apply bind_eq in E as [cg [c0 [ev0 [Eg E]]]]. apply get_eq in Eg. injection Eg as -> -> ->.
  apply if_eq in E as [[_ E]|[_ E]]; [apply ret_eq in E; injection E as -> -> _; split; [exact I|constructor]|].
  destruct (sessionKeysFor (c_keys c) (ourKeyID (c_keys c) - 1) (theirKeyID (c_keys c))) as [keys|e|].
  2:{ apply ret_eq in E; injection E as -> -> _; split; [exact I|constructor]. }
  2:{ apply ret_eq in E; injection E as -> -> _; split; [exact I|constructor]. }
  apply bind_eq in E as [h [c1 [ev1 [E1 E]]]]. destruct (messageHeader_ver _ _ _ _ _ E1 I) as [I1 Hh].
  apply bind_eq in E as [cg [c1' [ev1' [Eg E]]]]. apply get_eq in Eg. injection Eg as -> -> ->.
  destruct (genDataMsg (c_keys c1) h f {| p_text := t; p_tlvs := l |}) as [[[d k'] x]|e|] eqn:Eg.
  2:{ apply ret_eq in E; injection E as -> -> _; split; [exact I1|constructor]. }
  2:{ apply ret_eq in E; injection E as -> -> _; split; [exact I1|constructor]. }
  apply bind_eq in E as [u [c2 [ev2 [E2 E]]]]. unfold modify in E2. injection E2 as _ Ec2 _. subst c2.
  apply ret_eq in E. injection E as -> -> _.
  split; [eapply PInv_same; [reflexivity|reflexivity|reflexivity|reflexivity|exact I1]|].
  cw1. split; [|constructor]. exact Hh.
Qed.
#[local] Hint Resolve pv_genDataMsgWithFlag : pv.
Lemma pv_createSerializedDataMessage n t f l : pv (createSerializedDataMessage n t f l).
Proof. unfold createSerializedDataMessage. pv_tac. Qed.
#[local] Hint Resolve pv_createSerializedDataMessage : pv.
Lemma pv_retransmit_loop msgs : forall p acc, okl acc -> pv (retransmit_loop msgs p acc).
Proof.
  induction msgs as [|m r IH]; intros p acc Ha; cbn [retransmit_loop]; [pv_tac|].
  cbv zeta. apply pv_bind; [apply pv_genDataMsgWithFlag|intros g Hg].
  destruct g as [[w x]| |]; [|pv_tac..]. apply IH. cw.
Qed.
Lemma pv_emit_n n e : pv (emit_n n e).
Proof. induction n as [|k IH]; cbn [emit_n]; [pv_tac|]. apply pv_bind; [apply pv_event | intros _ _; exact IH]. Qed.
#[local] Hint Resolve pv_emit_n : pv.
Lemma pv_maybeRetransmit n : pv (maybeRetransmit n).
Proof. unfold maybeRetransmit. pv_tac. apply pv_retransmit_loop. constructor. Qed.
#[local] Hint Resolve pv_maybeRetransmit : pv.
Lemma pv_retransmitAfterAKE n : pv (retransmitAfterAKE n). Proof. unfold retransmitAfterAKE. pv_tac. Qed.
#[local] Hint Resolve pv_retransmitAfterAKE : pv.

Lemma pv_set_ake f : (forall a, okl (wires (a_revealSigMsg a)) -> okl (wires (a_revealSigMsg (f a)))) -> pv (set_ake f).
Proof.
  intros H c ev a c' ev' E I. unfold set_ake, modify in E. injection E as _ <- _. split; [|constructor].
  destruct I as [Q [Q2 I]]. split; [exact Q|]. split; [exact Q2|].
  unfold wires, W_conv, reveal_of in *. cbn. apply okl_app in I as [I1 I2]. apply okl_app. split; [exact I1|].
  destruct (c_ake c) as [a0|]; [apply H; exact I2 | constructor].
Qed.
Ltac pv_tac2 :=
  repeat first
  [ solve [auto with pv]
  | progress cbv zeta
  | apply pv_get | apply pv_fresh | apply pv_event | apply pv_evs
  | (apply pv_ret; solve [cw])
  | (apply pv_set_ake; intros ? ?; cbn; solve [cw])
  | (apply pv_modify; intros ? ?; solve [sinv])
  | (apply pv_pure; intros ? ? ?; solve [cw])
  | (apply pv_bind; [|intros ? ?])
  | match goal with
    | |- pv (if ?b then _ else _) => destruct b
    | |- pv (match ?x with _ => _ end) => destruct x
    | |- pv (let '(_, _) := ?x in _) => destruct x
    end ].

Lemma pv_sendDHCommit : pv sendDHCommit. Proof. unfold sendDHCommit. pv_tac2. Qed.
#[local] Hint Resolve pv_sendDHCommit : pv.
Lemma pv_calcAKEKeys s : pv (calcAKEKeys s). Proof. unfold calcAKEKeys. pv_tac2. Qed.
#[local] Hint Resolve pv_calcAKEKeys : pv.
Lemma pv_setSentRevealSig s : pv (setSentRevealSig s). Proof. unfold setSentRevealSig. pv_tac2. Qed.
#[local] Hint Resolve pv_setSentRevealSig : pv.
Lemma pv_generateEncryptedSignature s : pv (generateEncryptedSignature s). Proof. unfold generateEncryptedSignature. pv_tac2. Qed.
#[local] Hint Resolve pv_generateEncryptedSignature : pv.
Lemma pv_processEncryptedSig a b s : pv (processEncryptedSig a b s). Proof. unfold processEncryptedSig. pv_tac2. Qed.
#[local] Hint Resolve pv_processEncryptedSig : pv.
Lemma pv_akeHasFinished now : pv (akeHasFinished now). Proof. unfold akeHasFinished. pv_tac2. Qed.
#[local] Hint Resolve pv_akeHasFinished : pv.
Lemma pv_receiveDHCommit_none b : pv (receiveDHCommit_none b). Proof. unfold receiveDHCommit_none. pv_tac2. Qed.
#[local] Hint Resolve pv_receiveDHCommit_none : pv.

Lemma okl_reveal (c : conv) : okl (wires c) -> okl (wires (a_revealSigMsg (the_ake c))).
Proof.
  unfold wires, W_conv, reveal_of, the_ake. intros H. apply okl_app in H as [_ H].
  destruct (c_ake c); [exact H | constructor].
Qed.

Ltac pv_tac3 :=
  repeat first
  [ solve [auto with pv]
  | progress cbv zeta
  | apply pv_get | apply pv_fresh | apply pv_event | apply pv_evs
  | (apply pv_ret; solve [cw])
  | (apply pv_ret; match goal with H : okl (wires ?c) |- context [a_revealSigMsg (the_ake ?c)] => pose proof (okl_reveal c H) end; solve [cw])
  | (apply pv_set_ake; intros ? ?; cbn; solve [cw])
  | (apply pv_modify; intros ? ?; solve [sinv])
  | (apply pv_pure; intros ? ? ?; solve [cw])
  | (apply pv_bind; [|intros ? ?])
  | match goal with
    | |- pv (if ?b then _ else _) => destruct b
    | |- pv (match ?x with _ => _ end) => destruct x
    | |- pv (let '(_, _) := ?x in _) => destruct x
    end ].

Lemma pv_processAKE_body now ty body aux : pv (processAKE_body now ty body aux).
Proof. unfold processAKE_body. pv_tac3. Qed.
#[local] Hint Resolve pv_processAKE_body : pv.

Lemma pv_processAKE now ty body aux : pv (processAKE now ty body aux).
Proof. unfold processAKE. pv_tac3. Qed.
#[local] Hint Resolve pv_processAKE : pv.
Lemma pv_processTLVs rnd tlvs : forall x acc, pv (processTLVs rnd tlvs x acc).
Proof.
  induction tlvs as [|t r IH]; intros x acc; cbn [processTLVs]; [pv_tac3|].
  destruct t; pv_tac3; try apply IH.
Qed.
#[local] Hint Resolve pv_processTLVs : pv.
Lemma pv_processDataMessage now d rnd : pv (processDataMessage now d rnd).
Proof. unfold processDataMessage. pv_tac3. Qed.
#[local] Hint Resolve pv_processDataMessage : pv.
Lemma pv_potentialHeartbeat now p : pv (potentialHeartbeat now p). Proof. unfold potentialHeartbeat. pv_tac3. Qed.
#[local] Hint Resolve pv_potentialHeartbeat : pv.
Lemma pv_receiveDataMessage now d rnd : pv (receiveDataMessage now d rnd).
Proof. unfold receiveDataMessage. pv_tac3. Qed.
#[local] Hint Resolve pv_receiveDataMessage : pv.
Lemma pv_checkPlaintextPolicies : pv checkPlaintextPolicies. Proof. unfold checkPlaintextPolicies. pv_tac3. Qed.
#[local] Hint Resolve pv_checkPlaintextPolicies : pv.
Lemma pv_receiveQueryMessage now v : pv (receiveQueryMessage now v). Proof. unfold receiveQueryMessage. pv_tac3. Qed.
#[local] Hint Resolve pv_receiveQueryMessage : pv.
Lemma pv_receiveDecoded now ver stag rtag body aux rnd : pv (receiveDecoded now ver stag rtag body aux rnd).
Proof. unfold receiveDecoded. pv_tac3. Qed.
#[local] Hint Resolve pv_receiveDecoded : pv.
Lemma pv_forgetVersion b e : pv (forgetVersion b e). Proof. unfold forgetVersion. pv_tac3. Qed.
#[local] Hint Resolve pv_forgetVersion : pv.
Lemma pv_forgetTag b e : pv (forgetTag b e). Proof. unfold forgetTag. pv_tac3. Qed.
#[local] Hint Resolve pv_forgetTag : pv.

Ltac pv_tac4 :=
  repeat first
  [ solve [auto with pv]
  | progress cbv zeta
  | apply pv_get | apply pv_fresh | apply pv_event | apply pv_evs
  | (apply pv_ret; solve [cw])
  | (apply pv_withInjects; solve [cw])
  | (apply pv_set_ake; intros ? ?; cbn; solve [cw])
  | (apply pv_modify; intros ? ?; solve [sinv])
  | (apply pv_pure; intros ? ? ?; solve [cw])
  | (apply pv_bind; [|intros ? ?])
  | match goal with
    | |- pv (if ?b then _ else _) => destruct b
    | |- pv (match ?x with _ => _ end) => destruct x
    | |- pv (let '(_, _) := ?x in _) => destruct x
    end ].

Lemma pv_finish p o e : okl o -> pv (finish p o e).
Proof. intros Ho. unfold finish. pv_tac4. Qed.
Lemma pv_finishSend o e : okl o -> pv (finishSend o e).
Proof. intros Ho. unfold finishSend. pv_tac4. Qed.

Lemma pv_receive now w aux rnd : pv (receive now w aux rnd).
Proof. unfold receive. pv_tac4; apply pv_finish; cw. Qed.
Lemma pv_endConv now : pv (endConv now). Proof. unfold endConv. pv_tac4. Qed.
Lemma pv_userSMP now s rnd : pv (userSMP now s rnd). Proof. unfold userSMP. pv_tac4. Qed.
Lemma pv_sendTLVs now t : pv (sendTLVs now t). Proof. unfold sendTLVs. pv_tac4. Qed.
Lemma pv_useExtraKey now u d : pv (useExtraKey now u d). Proof. unfold useExtraKey. pv_tac4. Qed.


Lemma pv_send now t : pv (send now t).
Proof. unfold send. pv_tac4. all: try (apply pv_finishSend; solve [cw]). Qed.

Lemma pv_step now op c : PInv c -> let '(c', r) := step now c op in PInv c' /\ okl (r_out r).
Proof.
  intros I. unfold step. destruct op as [t|w aux rnd| |s rnd|u d|tlvs].
  - destruct (send now t c []) as [[r c'] ev'] eqn:E. exact (pv_send now t _ _ _ _ _ E I).
  - destruct (receive now w aux rnd c []) as [[r c'] ev'] eqn:E. exact (pv_receive now w aux rnd _ _ _ _ _ E I).
  - destruct (endConv now c []) as [[r c'] ev'] eqn:E. exact (pv_endConv now _ _ _ _ _ E I).
  - destruct (userSMP now s rnd c []) as [[r c'] ev'] eqn:E. exact (pv_userSMP now s rnd _ _ _ _ _ E I).
  - destruct (useExtraKey now u d c []) as [[r c'] ev'] eqn:E. exact (pv_useExtraKey now u d _ _ _ _ _ E I).
  - destruct (sendTLVs now tlvs c []) as [[r c'] ev'] eqn:E. exact (pv_sendTLVs now tlvs _ _ _ _ _ E I).
Qed.

(* every call of a history emits only encoded messages of a version the policy allows *)
Fixpoint all_versions_ok (c : conv) (h : list (N * call)) : Prop :=
  match h with
  | [] => True
  | (now, op) :: r => let '(c1, res) := step now c op in okl (r_out res) /\ ver_ok (c_version c1) /\ all_versions_ok c1 r
  end.
Theorem history_versions h : forall c, PInv c -> all_versions_ok c h.
Proof.
  induction h as [|[now op] r IH]; intros c I; cbn [all_versions_ok]; [exact Logic.I|].
  pose proof (pv_step now op c I) as H. destruct (step now c op) as [c1 res]. destruct H as [I1 P].
  split; [exact P|]. split; [exact (proj1 (proj2 I1))|apply IH; exact I1].
Qed.
End Ver.

Lemma VInv_init who pol key : PInv pol (conv_init who pol key).
Proof. split; [reflexivity|]. split; [left; reflexivity|constructor]. Qed.

(* C16 over every history of a new conversation with policy set [pol]: after every call the version it has committed to
   is none, or 2 with ALLOW_V2, or 3 with ALLOW_V3, and every encoded message it emits carries such a version *)
Theorem only_allowed_versions who pol key h : all_versions_ok pol (conv_init who pol key) h.
Proof. apply history_versions, VInv_init. Qed.
