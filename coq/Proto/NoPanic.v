(* C13, the protocol logic: the key management never dereferences a key that is not there, in any reachable state.
   The Go code panics when a nil D-H private key or a nil peer value reaches the big-number code; the mirror reports it
   as the [Panic] outcome of pickOurKeys / pickTheirKey / genDataMsg.  Invariant: [KP] - the keys the key ids point to
   are present - for the session's key context, and [AP] - while the Signature message is awaited the exchange context
   holds the peer's D-H value and our key - which is what completion installs.  Same method as Proto/AkeAuth.v. *)
From OTR Require Import Go.Base Gen.Consts Bytes.Text Proto.SmpTypes Proto.Keys Proto.KeysProofs Proto.Smp Proto.SmpInst Proto.Conv Proto.ConvProofs Proto.Lifecycle Proto.AkeAuth Proto.Delivery.
From RecordUpdate Require Import RecordSet.
Import RecordSetNotations.
Open Scope N_scope.

(* the keys the ids point to are there (the code dereferences them) *)
Definition KP (k : keyctx) : Prop :=
  (ourKeyID k <> 0 -> ourCurrent k <> None) /\ (2 <= ourKeyID k -> ourPrevious k <> None) /\
  (theirKeyID k <> 0 -> theirCurrent k <> None).

Lemma sessionKeysFor_no_panic k o t : KP k -> sessionKeysFor k o t <> Panic.
Proof.
  intros [P1 [P2 P3]]. unfold sessionKeysFor, pickOurKeys, pickTheirKey.
  destruct (N.eqb_spec o 0); cbn [orb bindR]; [discriminate|].
  destruct (N.eqb_spec (ourKeyID k) 0) as [E0|E0]; cbn [orb bindR]; [discriminate|].
  assert (Q : forall e, (do t0 <- (if (t =? 0) || (theirKeyID k =? 0) then Err errConflict
        else if t =? theirKeyID k then match theirCurrent k with Some e0 => Ok e0 | None => Panic end
        else if t =? theirKeyID k - 1 then match theirPrevious k with Some e0 => Ok e0 | None => Err errConflict end
        else Err errConflict); Ok (calcSessionKeys e t0)) <> Panic).
  { intros e. destruct (N.eqb_spec t 0); cbn [orb bindR]; [discriminate|].
    destruct (N.eqb_spec (theirKeyID k) 0) as [F0|F0]; cbn [orb bindR]; [discriminate|].
    destruct (t =? theirKeyID k).
    - destruct (theirCurrent k) eqn:Et; cbn [bindR]; [discriminate | exfalso; exact (P3 F0 eq_refl)].
    - destruct (t =? theirKeyID k - 1); [destruct (theirPrevious k)|]; cbn [bindR]; discriminate. }
  destruct (N.eqb_spec o (ourKeyID k)) as [E1|E1].
  - destruct (ourCurrent k) eqn:Eo; cbn [bindR]; [apply Q | exfalso; exact (P1 E0 eq_refl)].
  - destruct (N.eqb_spec o (ourKeyID k - 1)) as [E2|E2]; cbn [bindR]; [|discriminate].
    destruct (ourPrevious k) eqn:Eo; cbn [bindR]; [apply Q | exfalso; apply (P2 ltac:(lia) eq_refl)].
Qed.

Lemma checkMessageCounter_no_panic k rk sk ctr : checkMessageCounter k rk sk ctr <> Panic.
Proof.
  destruct (checkMessageCounter_spec k rk sk ctr) as [S1 S2].
  destruct (N.le_gt_cases ctr (ctr_of (counters k) rk sk)) as [H|H].
  - rewrite (S1 H). discriminate.
  - destruct (S2 H) as [k1 [E _]]. rewrite E. discriminate.
Qed.

Lemma recv_no_panic k d x : KP k -> recvDataMsg k d x <> Panic.
Proof.
  intros P. unfold recvDataMsg. destruct (negb (d_wellformed d)); [discriminate|].
  destruct (sessionKeysFor k _ _) as [keys|e|] eqn:Ek; cbn [bindR]; [|discriminate | exfalso; exact (sessionKeysFor_no_panic _ _ _ P Ek)].
  destruct (negb (mac_valid d (receivingKey keys))); [discriminate|].
  destruct (checkMessageCounter k _ _ _) as [k1|e|] eqn:Ec; cbn [bindR]; [|discriminate | exfalso; exact (checkMessageCounter_no_panic _ _ _ _ Ec)].
  destruct (_ && _); discriminate.
Qed.

Lemma KP_addKeys k o t key : KP k -> KP (addKeys k o t key).
Proof. unfold addKeys. destruct (has_mac_entry _ _ _); auto. Qed.
Lemma KP_rotateOurs k rk x : KP k -> KP (rotateOurKeys k rk x).
Proof.
  intros [P1 [P2 P3]]. unfold rotateOurKeys. destruct (N.eqb_spec rk (ourKeyID k)) as [E|E]; [|repeat split; assumption].
  destruct (forgetMACKeys _ _) as [ks h']. unfold KP; cbn. repeat split.
  - discriminate.
  - intros H. destruct (N.eq_dec (ourKeyID k) 0) as [Z|Z]; [lia|]. exact (P1 Z).
  - exact P3.
Qed.
Lemma KP_rotateTheirs k sk y : KP k -> KP (rotateTheirKey k sk y).
Proof.
  intros [P1 [P2 P3]]. unfold rotateTheirKey. destruct (sk =? theirKeyID k); [|repeat split; assumption].
  destruct (forgetMACKeys _ _) as [ks h']. unfold KP; cbn. repeat split; auto. discriminate.
Qed.

Lemma KP_recv k d x pl k' xk : KP k -> recvDataMsg k d x = Ok (pl, k', xk) -> KP k'.
Proof.
  intros P. unfold recvDataMsg. destruct (negb (d_wellformed d)); [discriminate|].
  destruct (sessionKeysFor k _ _) as [keys|e|]; cbn [bindR]; try discriminate.
  destruct (negb (mac_valid d (receivingKey keys))); [discriminate|].
  destruct (checkMessageCounter_spec k (af_rk (d_fields d)) (af_sk (d_fields d)) (af_ctr (d_fields d))) as [S1 S2].
  destruct (N.le_gt_cases (af_ctr (d_fields d)) (ctr_of (counters k) (af_rk (d_fields d)) (af_sk (d_fields d)))) as [H|H].
  { rewrite (S1 H). discriminate. }
  destruct (S2 H) as [k1 [E [_ [_ [A1 [A2 [A3 [A4 [A5 _]]]]]]]]]. rewrite E. cbn [bindR].
  destruct (_ && _); [|discriminate]. intros Q. injection Q as _ <- _.
  apply KP_rotateTheirs, KP_rotateOurs, KP_addKeys.
  destruct P as [P1 [P2 P3]]. unfold KP. rewrite A1, A2, A3, A4, A5. auto.
Qed.

Lemma gen_no_panic k h flag pl : KP k -> genDataMsg k h flag pl <> Panic.
Proof.
  intros P. unfold genDataMsg.
  destruct (sessionKeysFor k _ _) as [keys|e|] eqn:Ek; cbn [bindR]; [|discriminate | exfalso; exact (sessionKeysFor_no_panic _ _ _ P Ek)].
  destruct (sessionKeys_window _ _ _ _ Ek) as [Ho _].
  set (k1 := addKeys k _ _ _).
  destruct (find_counter_ensure (counters k1) (ourKeyID k - 1) (theirKeyID k)) as [c0 Ef]. rewrite Ef.
  cbn [ourCurrent set_counters]. assert (Ek1 : ourCurrent k1 = ourCurrent k) by (unfold k1, addKeys; destruct (has_mac_entry _ _ _); reflexivity).
  rewrite Ek1. destruct P as [P1 _].
  destruct (ourCurrent k) eqn:Eo; [cbn; discriminate|]. exfalso. apply (P1 ltac:(lia) eq_refl).
Qed.

Lemma KP_gen k h flag pl d k' xk : KP k -> genDataMsg k h flag pl = Ok (d, k', xk) -> KP k'.
Proof.
  intros [P1 [P2 P3]] E. pose proof (genDataMsg_spec _ _ _ _ _ _ _ E) as [keys [_ H]].
  revert E. unfold genDataMsg. destruct (sessionKeysFor k _ _) as [keys'|e|]; cbn [bindR]; try discriminate.
  set (k1 := addKeys k _ _ _). destruct (find_counter _ _ _) as [c0|]; [|discriminate].
  cbn [ourCurrent set_counters]. destruct (ourCurrent k1) as [y|] eqn:Ey; [|discriminate].
  cbn [revealMACKeys]. intros Q. injection Q as _ <- _.
  assert (A : ourKeyID k1 = ourKeyID k /\ theirKeyID k1 = theirKeyID k /\ ourCurrent k1 = ourCurrent k /\ ourPrevious k1 = ourPrevious k /\ theirCurrent k1 = theirCurrent k).
  { unfold k1, addKeys. destruct (has_mac_entry _ _ _); repeat split. }
  destruct A as [A1 [A2 [A3 [A4 A5]]]]. unfold KP. cbn. rewrite A1, A2, A3, A4, A5. auto.
Qed.

(* while the Signature message is awaited the exchange context holds the peer's D-H value and our key *)
Definition AP (c : conv) : Prop :=
  a_state (the_ake c) = 3 -> a_their (the_ake c) <> None /\ ourCurrent (a_keys (the_ake c)) <> None.
Definition PInv (c : conv) : Prop := KP (c_keys c) /\ AP c.
Definition pq (c : conv) := (c_keys c, a_state (the_ake c), a_their (the_ake c), ourCurrent (a_keys (the_ake c))).
Lemma PInv_same c c' : pq c' = pq c -> PInv c -> PInv c'.
Proof. unfold pq, PInv, AP. intros E. injection E as -> -> -> ->. auto. Qed.

Definition pk {A} (m : M A) : Prop := forall c ev a c' ev', m c ev = (a, c', ev') -> PInv c -> PInv c'.
Lemma pk_bind {A B} (m : M A) (f : A -> M B) : pk m -> (forall a, pk (f a)) -> pk (bind m f).
Proof.
  intros Hm Hf c ev b c' ev' E I. apply bind_eq in E as [a [c1 [ev1 [E1 E]]]].
  exact (Hf a _ _ _ _ _ E (Hm _ _ _ _ _ E1 I)).
Qed.
Lemma fp_pk {A} (m : M A) : fp pq m -> pk m.
Proof. intros H c ev a c' ev' E I. exact (PInv_same _ _ (H _ _ _ _ _ E) I). Qed.
Lemma pk_fresh : pk fresh. Proof. intros c ev a' c' ev' E I. unfold fresh, draw in E. injection E as _ <- _. exact I. Qed.
Lemma pk_pure {A} (f : conv -> list N -> A) : pk (fun c ev => (f c ev, c, ev)).
Proof. intros c ev a' c' ev' E I. injection E as _ <- _. exact I. Qed.
Lemma pk_evs {A} (x : A) (g : list N -> list N) : pk (fun c ev => (x, c, g ev)).
Proof. intros c ev a' c' ev' E I. injection E as _ <- _. exact I. Qed.
Lemma pk_modify f : (forall c, PInv c -> PInv (f c)) -> pk (modify f).
Proof. intros H c ev a' c' ev' E I. injection E as _ <- _. apply H; exact I. Qed.

(* set_ake: the context stays fine when the three fields are left alone or the resulting state is not 3 *)
Lemma pk_set_ake_frame f :
  (forall a, (a_state (f a), a_their (f a), ourCurrent (a_keys (f a))) = (a_state a, a_their a, ourCurrent (a_keys a))) -> pk (set_ake f).
Proof.
  intros H. apply fp_pk. intros c ev a c' ev' E. unfold set_ake, modify in E. injection E as _ <- _.
  unfold pq, the_ake. cbn. destruct (c_ake c) as [a0|]; [|reflexivity]. specialize (H a0). injection H as -> -> ->. reflexivity.
Qed.
Lemma pk_set_ake_state f : (forall a, a_state (f a) <> 3) -> pk (set_ake f).
Proof.
  intros H c ev a c' ev' E [K A]. unfold set_ake, modify in E. injection E as _ <- _. split; [exact K|].
  intros St. exfalso. unfold the_ake in St. cbn in St. destruct (c_ake c) as [a0|]; [exact (H a0 St) | discriminate].
Qed.
Lemma KP_zero k : ourKeyID k = 0 -> theirKeyID k = 0 -> KP k.
Proof. intros H1 H2. unfold KP. rewrite H1, H2. repeat split; intros; try contradiction; lia. Qed.

Ltac pinv :=
  first
  [ (eapply PInv_same; [reflexivity | eassumption])
  | (* the exchange context is re-initialised or dropped, the session keys stay or are torn down *)
    match goal with H : PInv _ |- PInv _ =>
      destruct H as [Hk Ha]; split;
      [ first [exact Hk | apply KP_zero; reflexivity]
      | intros St; exfalso; unfold the_ake in St; cbn in St; discriminate ]
    end ].

Create HintDb pk.
Ltac pk_tac :=
  repeat first
  [ solve [auto with pk]
  | progress cbv zeta
  | apply pk_fresh | apply pk_pure | apply pk_evs
  | (apply fp_pk; solve [fp_tac])
  | (apply pk_set_ake_frame; intros ?; reflexivity)
  | (apply pk_set_ake_state; intros ?; discriminate)
  | (apply pk_modify; intros ? ?; solve [pinv])
  | (apply pk_bind; [|intros ?])
  | match goal with
    | |- pk (if ?b then _ else _) => destruct b
    | |- pk (match ?x with _ => _ end) => destruct x
    | |- pk (let '(_, _) := ?x in _) => destruct x
    end ].

Lemma pk_commitToVersionFrom v : pk (commitToVersionFrom v). Proof. unfold commitToVersionFrom. pk_tac. Qed.
#[export] Hint Resolve pk_commitToVersionFrom : pk.
Lemma pk_generateInstanceTag : pk generateInstanceTag. Proof. unfold generateInstanceTag. pk_tac. Qed.
#[export] Hint Resolve pk_generateInstanceTag : pk.
Lemma pk_malformedMessage : pk malformedMessage. Proof. unfold malformedMessage. pk_tac. Qed.
#[export] Hint Resolve pk_malformedMessage : pk.
Lemma pk_verifyInstanceTags a b : pk (verifyInstanceTags a b). Proof. unfold verifyInstanceTags. pk_tac. Qed.
#[export] Hint Resolve pk_verifyInstanceTags : pk.
Lemma pk_messageHeader : pk messageHeader. Proof. unfold messageHeader. pk_tac. Qed.
#[export] Hint Resolve pk_messageHeader : pk.
Lemma pk_wrap b : pk (wrap b). Proof. unfold wrap. pk_tac. Qed.
#[export] Hint Resolve pk_wrap : pk.
Lemma pk_generatePotentialErrorMessage x : pk (generatePotentialErrorMessage x). Proof. unfold generatePotentialErrorMessage. pk_tac. Qed.
#[export] Hint Resolve pk_generatePotentialErrorMessage : pk.
Lemma pk_withInjects x : pk (withInjects x). Proof. unfold withInjects. pk_tac. Qed.
#[export] Hint Resolve pk_withInjects : pk.
Lemma pk_updateLastSent x : pk (updateLastSent x). Proof. unfold updateLastSent. pk_tac. Qed.
#[export] Hint Resolve pk_updateLastSent : pk.

Lemma pq_messageHeader : fp pq messageHeader. Proof. unfold messageHeader. fp_tac. Qed.

Lemma pk_genDataMsgWithFlag t f l r : pk (genDataMsgWithFlag t f l r).
Proof.
  intros c ev a c' ev' E I. unfold genDataMsgWithFlag in E.
  apply bind_eq in E as [cg [c0 [ev0 [Eg E]]]]. apply get_eq in Eg. injection Eg as -> -> ->.
  apply if_eq in E as [[_ E]|[_ E]]; [apply ret_eq in E; injection E as _ <- _; exact I|].
  destruct (sessionKeysFor (c_keys c) (ourKeyID (c_keys c) - 1) (theirKeyID (c_keys c))) as [keys|e|].
  2:{ apply ret_eq in E; injection E as _ <- _; exact I. }
  2:{ apply ret_eq in E; injection E as _ <- _; exact I. }
  apply bind_eq in E as [h [c1 [ev1 [E1 E]]]]. pose proof (PInv_same _ _ (pq_messageHeader _ _ _ _ _ E1) I) as I1.
  apply bind_eq in E as [cg [c1' [ev1' [Eg E]]]]. apply get_eq in Eg. injection Eg as -> -> ->.
  destruct (genDataMsg (c_keys c1) h f {| p_text := t; p_tlvs := l |}) as [[[d k'] x]|e|] eqn:Eg.
  2:{ apply ret_eq in E; injection E as _ <- _. exact I1. }
  2:{ apply ret_eq in E; injection E as _ <- _. exact I1. }
  apply bind_eq in E as [u [c2 [ev2 [E2 E]]]]. unfold modify in E2. injection E2 as _ Ec2 _. subst c2.
  apply ret_eq in E. injection E as _ Ec _. subst c'. destruct I1 as [K1 A1]. split; [exact (KP_gen _ _ _ _ _ _ _ K1 Eg) | exact A1].
Qed.
#[export] Hint Resolve pk_genDataMsgWithFlag : pk.

Lemma pk_createSerializedDataMessage n t f l : pk (createSerializedDataMessage n t f l). Proof. unfold createSerializedDataMessage. pk_tac. Qed.
#[export] Hint Resolve pk_createSerializedDataMessage : pk.
Lemma pk_retransmit_loop msgs : forall p acc, pk (retransmit_loop msgs p acc).
Proof. induction msgs as [|m r IH]; intros p acc; cbn [retransmit_loop]; pk_tac. Qed.
#[export] Hint Resolve pk_retransmit_loop : pk.
Lemma pk_emit_n n e : pk (emit_n n e).
Proof. induction n as [|k IH]; cbn [emit_n]; [pk_tac|]. apply pk_bind; [pk_tac | intros _; exact IH]. Qed.
#[export] Hint Resolve pk_emit_n : pk.
Lemma pk_maybeRetransmit n : pk (maybeRetransmit n). Proof. unfold maybeRetransmit. pk_tac. Qed.
#[export] Hint Resolve pk_maybeRetransmit : pk.
Lemma pk_retransmitAfterAKE n : pk (retransmitAfterAKE n). Proof. unfold retransmitAfterAKE. pk_tac. Qed.
#[export] Hint Resolve pk_retransmitAfterAKE : pk.
Lemma pk_calcAKEKeys s : pk (calcAKEKeys s). Proof. unfold calcAKEKeys. pk_tac. Qed.
#[export] Hint Resolve pk_calcAKEKeys : pk.
Lemma pk_setSentRevealSig s : pk (setSentRevealSig s). Proof. unfold setSentRevealSig. pk_tac. Qed.
#[export] Hint Resolve pk_setSentRevealSig : pk.
Lemma pk_generateEncryptedSignature s : pk (generateEncryptedSignature s). Proof. unfold generateEncryptedSignature. pk_tac. Qed.
#[export] Hint Resolve pk_generateEncryptedSignature : pk.
Lemma pk_processEncryptedSig a b s : pk (processEncryptedSig a b s). Proof. unfold processEncryptedSig. pk_tac. Qed.
#[export] Hint Resolve pk_processEncryptedSig : pk.

(* sequences that start by re-initialising the exchange context *)
Definition pk0 {A} (m : M A) : Prop := forall c ev a c' ev', m c ev = (a, c', ev') ->
  a_state (the_ake c) <> 3 -> a_state (the_ake c') <> 3 /\ c_keys c' = c_keys c.
Lemma pk0_bind {A B} (m : M A) (f : A -> M B) : pk0 m -> (forall a, pk0 (f a)) -> pk0 (bind m f).
Proof.
  intros Hm Hf c ev b c' ev' E N3. apply bind_eq in E as [a [c1 [ev1 [E1 E]]]].
  destruct (Hm _ _ _ _ _ E1 N3) as [N1 O1]. destruct (Hf a _ _ _ _ _ E N1) as [N2 O2]. split; [exact N2 | congruence].
Qed.
Lemma fp_pk0 {A} (m : M A) : fp pq m -> pk0 m.
Proof. intros H c ev a c' ev' E N3. pose proof (H _ _ _ _ _ E) as Q. unfold pq in Q. injection Q as Q1 Q2 _ _. split; congruence. Qed.
Lemma pk0_fresh : pk0 fresh. Proof. intros c ev a' c' ev' E N3. unfold fresh, draw in E. injection E as _ <- _. auto. Qed.
Lemma pk0_set_ake f : (forall a, a_state a <> 3 -> a_state (f a) <> 3) -> pk0 (set_ake f).
Proof.
  intros H c ev a c' ev' E N3. unfold set_ake, modify in E. injection E as _ <- _. split; [|reflexivity].
  unfold the_ake in *. cbn. destruct (c_ake c) as [a0|]; [apply H; exact N3 | exact N3].
Qed.
Lemma pk0_messageHeader : pk0 messageHeader. Proof. apply fp_pk0, pq_messageHeader. Qed.
Lemma pk0_wrap b : pk0 (wrap b).
Proof. unfold wrap. apply pk0_bind; [apply pk0_messageHeader | intros h; apply fp_pk0; fp_tac]. Qed.
Ltac pk0_tac :=
  repeat first
  [ apply pk0_fresh | apply pk0_wrap
  | (apply pk0_set_ake; intros ? ?; first [assumption | discriminate])
  | (apply fp_pk0; solve [fp_tac])
  | progress cbv zeta
  | (apply pk0_bind; [|intros ?])
  | match goal with
    | |- pk0 (if ?b then _ else _) => destruct b
    | |- pk0 (match ?x with _ => _ end) => destruct x
    end ].
Lemma pk_reset_then {A} f (m : M A) :
  (forall c, c_keys (f c) = c_keys c) -> (forall c, c_ake (f c) = Some ake_init) -> pk0 m -> pk (modify f ;;; m).
Proof.
  intros Hk Ha Hm c ev a c' ev' E [K AA]. apply bind_eq in E as [u [c1 [ev1 [E1 E]]]].
  unfold modify in E1. injection E1 as _ Ec1 _. subst c1.
  assert (N1 : a_state (the_ake (f c)) <> 3) by (unfold the_ake; rewrite Ha; discriminate).
  destruct (Hm _ _ _ _ _ E N1) as [N2 O2]. split; [rewrite O2, Hk; exact K | intros H3; contradiction].
Qed.
Lemma pk_sendDHCommit : pk sendDHCommit.
Proof. unfold sendDHCommit. apply pk_reset_then; [intros ?; reflexivity | intros ?; reflexivity | pk0_tac]. Qed.
#[export] Hint Resolve pk_sendDHCommit : pk.
Lemma pk_receiveDHCommit_none b : pk (receiveDHCommit_none b).
Proof. unfold receiveDHCommit_none. apply pk_reset_then; [intros ?; reflexivity | intros ?; reflexivity | pk0_tac]. Qed.
#[export] Hint Resolve pk_receiveDHCommit_none : pk.
#[export] Hint Extern 3 (pk (bind (modify _) _)) => (apply pk_reset_then; [intros ?; reflexivity | intros ?; reflexivity | pk0_tac]) : pk.

(* frames for pq that go through set_ake *)
Lemma pq_set_ake f :
  (forall a, (a_state (f a), a_their (f a), ourCurrent (a_keys (f a))) = (a_state a, a_their a, ourCurrent (a_keys a))) -> fp pq (set_ake f).
Proof.
  intros H c ev a c' ev' E. unfold set_ake, modify in E. injection E as _ <- _.
  unfold pq, the_ake. cbn. destruct (c_ake c) as [a0|]; [|reflexivity]. specialize (H a0). injection H as -> -> ->. reflexivity.
Qed.
Ltac fpq_tac :=
  repeat first
  [ apply fp_ret | apply fp_get | apply fp_event
  | (apply pq_set_ake; intros ?; reflexivity)
  | (apply fp_modify; intros ?; reflexivity)
  | progress cbv zeta
  | (apply fp_bind; [|intros ?])
  | match goal with
    | |- fp _ (if ?b then _ else _) => destruct b
    | |- fp _ (match ?x with _ => _ end) => destruct x
    end ].
Lemma pq_wrap b : fp pq (wrap b). Proof. unfold wrap. fpq_tac. Qed.
Lemma pq_calcAKEKeys s : fp pq (calcAKEKeys s). Proof. unfold calcAKEKeys. fpq_tac. Qed.
Lemma pq_setSentRevealSig s : fp pq (setSentRevealSig s). Proof. unfold setSentRevealSig. fpq_tac. Qed.
Lemma pq_generateEncryptedSignature s : fp pq (generateEncryptedSignature s). Proof. unfold generateEncryptedSignature. fpq_tac. Qed.
Lemma pq_processEncryptedSig a b s : fp pq (processEncryptedSig a b s). Proof. unfold processEncryptedSig. fpq_tac. Qed.

Lemma akeHasFinished_kp now c ev :
  let '(_, c', _) := akeHasFinished now c ev in
  ourCurrent (c_keys c') <> None /\ ourPrevious (c_keys c') = ourCurrent (a_keys (the_ake c)) /\
  theirKeyID (c_keys c') = theirKeyID (a_keys (the_ake c)) /\ theirCurrent (c_keys c') = theirCurrent (a_keys (the_ake c)) /\
  a_state (the_ake c') = a_state (the_ake c).
Proof. unfold akeHasFinished, fresh, draw. msimpl. repeat split. discriminate. Qed.

(* completion: needs our key and, if a key id was announced, the peer's value in the prepared context *)
Lemma fin_tail now (w : option wire) c2 ev (r : option wire * list wire * N) c' ev' :
  (akeHasFinished now ;;; LET ex <- retransmitAfterAKE now IN ret (w, ex, 0)) c2 ev = (r, c', ev') ->
  a_state (the_ake c2) <> 3 -> ourCurrent (a_keys (the_ake c2)) <> None ->
  (theirKeyID (a_keys (the_ake c2)) <> 0 -> theirCurrent (a_keys (the_ake c2)) <> None) -> PInv c'.
Proof.
  intros E N3 Ho Ht. apply bind_eq in E as [u [c3 [ev3 [E3 E]]]].
  pose proof (akeHasFinished_kp now c2 ev) as F. rewrite E3 in F. destruct F as [F1 [F2 [F3 [F4 F5]]]].
  assert (I3 : PInv c3).
  { split.
    - unfold KP. rewrite F2, F3, F4. repeat split; auto.
    - intros H3. exfalso. rewrite F5 in H3. contradiction. }
  apply bind_eq in E as [ex [c4 [ev4 [E4 E]]]]. pose proof (pk_retransmitAfterAKE now _ _ _ _ _ E4 I3) as I4.
  apply ret_eq in E. injection E as _ Ec _. subst c'. exact I4.
Qed.

Lemma pq_fields c c' : pq c' = pq c ->
  c_keys c' = c_keys c /\ a_state (the_ake c') = a_state (the_ake c) /\ a_their (the_ake c') = a_their (the_ake c) /\
  ourCurrent (a_keys (the_ake c')) = ourCurrent (a_keys (the_ake c)).
Proof. unfold pq. intros E. injection E as E1 E2 E3 E4. auto. Qed.

Lemma has_ake_state c : a_state (the_ake c) <> 0 -> has_ake c = true.
Proof. intros H. destruct (has_ake c) eqn:Ha; [reflexivity|]. rewrite (has_ake_the c Ha) in H. contradiction. Qed.

(* the Signature message while it is awaited *)
Lemma sig_block_pk now es mac c ev (r : option wire * list wire * N) c' ev' :
  (LET ok <- processEncryptedSig es mac 4 IN
   if negb ok then ret (None, [], 1)
   else
     LET c <- get IN
     let a := the_ake c in
     set_ake (fun a' => (a' <| a_keys := ((a_keys a') <| theirCurrent := a_their a |>) |> <| a_state := 0 |>)) ;;;
     akeHasFinished now ;;;
     LET ex <- retransmitAfterAKE now IN
     ret (@None wire, ex, 0)) c ev = (r, c', ev') ->
  a_state (the_ake c) = 3 -> PInv c -> PInv c'.
Proof.
  intros E St [K A]. destruct (A St) as [A1 A2].
  apply bind_eq in E as [ok [c1 [ev1 [E1 E]]]].
  destruct (pq_fields _ _ (pq_processEncryptedSig _ _ _ _ _ _ _ _ E1)) as [Q1 [Q2 [Q3 Q4]]].
  apply if_eq in E as [[_ E]|[_ E]].
  { apply ret_eq in E. injection E as _ Ec _. subst c'. apply (PInv_same c); [unfold pq; congruence | split; assumption]. }
  apply bind_eq in E as [cg [c1' [ev1' [Eg E]]]]. apply get_eq in Eg. injection Eg as -> -> ->. cbv zeta in E.
  apply bind_eq in E as [u [c2 [ev2 [E2 E]]]].
  assert (Ha : has_ake c1 = true) by (apply has_ake_state; rewrite Q2, St; discriminate).
  destruct (set_ake_proj _ _ _ _ _ _ E2 Ha) as [-> [_ [T2 _]]].
  apply (fin_tail _ _ _ _ _ _ _ E); rewrite T2.
  - discriminate.
  - change (ourCurrent (a_keys (the_ake c1)) <> None). congruence.
  - intros _. change (a_their (the_ake c1) <> None). congruence.
Qed.

Lemma PInv_state c c' : c_keys c' = c_keys c -> a_state (the_ake c') <> 3 -> PInv c -> PInv c'.
Proof. intros Ek N3 [K _]. split; [rewrite Ek; exact K | intros H; contradiction]. Qed.

Lemma set_ake_keys f c ev u c2 ev2 : set_ake f c ev = (u, c2, ev2) -> c_keys c2 = c_keys c.
Proof. intros E. unfold set_ake, modify in E. injection E as _ <- _. reflexivity. Qed.

(* the Reveal Signature message while it is awaited (exchange state 2) *)
Lemma reveal_block_pk now r es mac c ev (res : option wire * list wire * N) c' ev' :
  (LET c <- get IN
   let a := the_ake c in
   match a_encGx a, a_hashGx a with
   | Some (kr, gx), Some h =>
       if negb ((kr =? r) && (gx =? h)) then ret (None, [], 1)
       else
         set_ake (fun a => (a <| a_their := Some gx |>)) ;;;
         if negb (isGroupElement gx) then ret (None, [], 1)
         else
           let y := match a_exp a with Some e => e | None => 0 end in
           calcAKEKeys (mk_shared y gx) ;;;
           LET ok <- processEncryptedSig es mac 1 IN
           if negb ok then ret (None, [], 1)
           else
             set_ake (fun a => (a <| a_keys := ((a_keys a) <| ourKeyID := ourKeyID (a_keys a) + 1 |>) |>)) ;;;
             LET em <- generateEncryptedSignature 4 IN
             LET w <- wrap (EAke (BSig (fst em) (snd em))) IN
             set_ake (fun a => (a <| a_keys := ((a_keys a) <| theirCurrent := Some gx |> <| ourCurrent := Some y |>) |>)) ;;;
             setSentRevealSig false ;;;
             set_ake (fun a => (a <| a_state := 0 |>)) ;;;
             akeHasFinished now ;;;
             LET ex <- retransmitAfterAKE now IN
             ret (Some w, ex, 0)
   | _, _ => ret (None, [], 1)
   end) c ev = (res, c', ev') ->
  a_state (the_ake c) = 2 -> PInv c -> PInv c'.
Proof.
  intros E St I.
  apply bind_eq in E as [cg [c0 [ev0 [Eg E]]]]. apply get_eq in Eg. injection Eg as -> -> ->. cbv zeta in E.
  assert (Ha : has_ake c = true) by (apply has_ake_state; rewrite St; discriminate).
  destruct (a_encGx (the_ake c)) as [[kr gx]|]; [|apply ret_eq in E; injection E as _ <- _; exact I].
  destruct (a_hashGx (the_ake c)) as [h|]; [|apply ret_eq in E; injection E as _ <- _; exact I].
  apply if_eq in E as [[_ E]|[_ E]]; [apply ret_eq in E; injection E as _ <- _; exact I|].
  apply bind_eq in E as [u1 [c1 [ev1 [E1 E]]]].
  pose proof (set_ake_keys _ _ _ _ _ _ E1) as K1.
  destruct (set_ake_proj _ _ _ _ _ _ E1 Ha) as [-> [_ [T1 H1]]].
  assert (S1 : a_state (the_ake c1) = 2) by (rewrite T1; exact St).
  apply if_eq in E as [[_ E]|[_ E]].
  { apply ret_eq in E. injection E as _ Ec _. subst c'. apply (PInv_state c); [exact K1 | rewrite S1; discriminate | exact I]. }
  apply bind_eq in E as [u2 [c2 [ev2 [E2 E]]]].
  destruct (pq_fields _ _ (pq_calcAKEKeys _ _ _ _ _ _ E2)) as [K2 [S2 _]].
  apply bind_eq in E as [ok [c3 [ev3 [E3 E]]]].
  destruct (pq_fields _ _ (pq_processEncryptedSig _ _ _ _ _ _ _ _ E3)) as [K3 [S3 _]].
  apply if_eq in E as [[_ E]|[_ E]].
  { apply ret_eq in E. injection E as _ Ec _. subst c'. apply (PInv_state c); [congruence | rewrite S3, S2, S1; discriminate | exact I]. }
  assert (H3 : has_ake c3 = true) by (apply has_ake_state; rewrite S3, S2, S1; discriminate).
  apply bind_eq in E as [u4 [c4 [ev4 [E4 E]]]].
  destruct (set_ake_proj _ _ _ _ _ _ E4 H3) as [-> [_ [T4 H4]]].
  apply bind_eq in E as [em [c5 [ev5 [E5 E]]]].
  assert (H5 : has_ake c5 = true).
  { destruct (fa_eq _ _ _ _ _ _ (fa_generateEncryptedSignature 4) E5) as [_ [_ [_ [_ [_ [_ [_ [_ G]]]]]]]]. congruence. }
  apply bind_eq in E as [w [c6 [ev6 [E6 E]]]].
  assert (H6 : has_ake c6 = true).
  { destruct (fa_eq _ _ _ _ _ _ (fa_wrap _) E6) as [_ [_ [_ [_ [_ [_ [_ [_ G]]]]]]]]. congruence. }
  apply bind_eq in E as [u7 [c7 [ev7 [E7 E]]]].
  destruct (set_ake_proj _ _ _ _ _ _ E7 H6) as [-> [_ [T7 H7]]].
  apply bind_eq in E as [u8 [c8 [ev8 [E8 E]]]].
  assert (H8 : has_ake c8 = true).
  { destruct (fa_eq _ _ _ _ _ _ (fa_setSentRevealSig false) E8) as [_ [_ [_ [_ [_ [_ [_ [_ G]]]]]]]]. congruence. }
  assert (Q8 : ourCurrent (a_keys (the_ake c8)) <> None /\ theirCurrent (a_keys (the_ake c8)) <> None).
  { assert (F : a_keys (the_ake c8) = a_keys (the_ake c7)).
    { revert E8. unfold setSentRevealSig. intros E8. apply bind_eq in E8 as [v1 [d1 [e1 [G1 E8]]]].
      destruct (set_ake_proj _ _ _ _ _ _ G1 H7) as [_ [_ [Td _]]].
      apply bind_eq in E8 as [cg [d2 [e2 [Gg E8]]]]. apply get_eq in Gg. injection Gg as -> -> ->.
      apply if_eq in E8 as [[_ E8]|[_ E8]]; [apply ret_eq in E8 | unfold modify in E8]; injection E8 as _ <- _.
      - rewrite Td. reflexivity.
      - change (a_keys (the_ake d1) = a_keys (the_ake c7)). rewrite Td. reflexivity. }
    rewrite F, T7. cbn. split; discriminate. }
  destruct Q8 as [Q81 Q82].
  apply bind_eq in E as [u9 [c9 [ev9 [E9 E]]]].
  destruct (set_ake_proj _ _ _ _ _ _ E9 H8) as [-> [_ [T9 H9]]].
  apply (fin_tail _ _ _ _ _ _ _ E); rewrite T9.
  - discriminate.
  - exact Q81.
  - intros _. exact Q82.
Qed.

Definition ck (c : conv) := c_keys c.
Lemma ck_set_ake f : fp ck (set_ake f). Proof. unfold set_ake. fp_tac. Qed.

(* the D-H Key message while it is awaited (exchange state 1) *)
Lemma dhkey_block_pk gy c ev (res : option wire * list wire * N) c' ev' :
  (if negb (isGroupElement gy) then ret (None, [], 1)
   else
     set_ake (fun a => (a <| a_their := Some gy |>)) ;;;
     LET c <- get IN
     let a := the_ake c in
     let x := match a_exp a with Some e => e | None => 0 end in
     calcAKEKeys (mk_shared x gy) ;;;
     set_ake (fun a => (a <| a_keys := ((a_keys a) <| ourKeyID := ourKeyID (a_keys a) + 1 |>) |>)) ;;;
     LET em <- generateEncryptedSignature 1 IN
     LET c <- get IN
     LET w <- wrap (EAke (BReveal (a_r (the_ake c)) (fst em) (snd em))) IN
     set_ake (fun a => (a <| a_keys := ((a_keys a) <| theirCurrent := Some gy |> <| ourCurrent := Some x |>) |>)) ;;;
     setSentRevealSig true ;;;
     set_ake (fun a => (a <| a_state := 3 |> <| a_revealSigMsg := Some w |>)) ;;;
     ret (Some w, [], 0)) c ev = (res, c', ev') ->
  a_state (the_ake c) = 1 -> PInv c -> PInv c'.
Proof.
  intros E St [K A].
  assert (Ha : has_ake c = true) by (apply has_ake_state; rewrite St; discriminate).
  apply if_eq in E as [[_ E]|[_ E]]; [apply ret_eq in E; injection E as _ <- _; split; assumption|].
  apply bind_eq in E as [u1 [c1 [ev1 [E1 E]]]]. pose proof (set_ake_keys _ _ _ _ _ _ E1) as K1.
  destruct (set_ake_proj _ _ _ _ _ _ E1 Ha) as [-> [_ [T1 H1]]].
  apply bind_eq in E as [cg [c1' [ev1' [Eg E]]]]. apply get_eq in Eg. injection Eg as -> -> ->. cbv zeta in E.
  apply bind_eq in E as [u2 [c2 [ev2 [E2 E]]]].
  destruct (pq_fields _ _ (pq_calcAKEKeys _ _ _ _ _ _ E2)) as [K2 [S2 [Th2 _]]].
  destruct (calcAKEKeys_eq _ _ _ _ _ _ E2 H1) as [H2 _].
  apply bind_eq in E as [u4 [c4 [ev4 [E4 E]]]]. pose proof (set_ake_keys _ _ _ _ _ _ E4) as K4.
  destruct (set_ake_proj _ _ _ _ _ _ E4 H2) as [-> [_ [T4 H4]]].
  apply bind_eq in E as [em [c5 [ev5 [E5 E]]]].
  destruct (pq_fields _ _ (pq_generateEncryptedSignature _ _ _ _ _ _ E5)) as [K5 [S5 [Th5 _]]].
  assert (H5 : has_ake c5 = true).
  { destruct (fa_eq _ _ _ _ _ _ (fa_generateEncryptedSignature 1) E5) as [_ [_ [_ [_ [_ [_ [_ [_ G]]]]]]]]. congruence. }
  apply bind_eq in E as [cg [c5' [ev5' [Eg E]]]]. apply get_eq in Eg. injection Eg as -> -> ->.
  apply bind_eq in E as [w [c6 [ev6 [E6 E]]]].
  destruct (pq_fields _ _ (pq_wrap _ _ _ _ _ _ E6)) as [K6 [S6 [Th6 _]]].
  assert (H6 : has_ake c6 = true).
  { destruct (fa_eq _ _ _ _ _ _ (fa_wrap _) E6) as [_ [_ [_ [_ [_ [_ [_ [_ G]]]]]]]]. congruence. }
  apply bind_eq in E as [u7 [c7 [ev7 [E7 E]]]]. pose proof (set_ake_keys _ _ _ _ _ _ E7) as K7.
  destruct (set_ake_proj _ _ _ _ _ _ E7 H6) as [-> [_ [T7 H7]]].
  apply bind_eq in E as [u8 [c8 [ev8 [E8 E]]]].
  destruct (pq_fields _ _ (pq_setSentRevealSig _ _ _ _ _ _ E8)) as [K8 [S8 [Th8 Oc8]]].
  assert (H8 : has_ake c8 = true).
  { destruct (fa_eq _ _ _ _ _ _ (fa_setSentRevealSig true) E8) as [_ [_ [_ [_ [_ [_ [_ [_ G]]]]]]]]. congruence. }
  apply bind_eq in E as [u9 [c9 [ev9 [E9 E]]]]. pose proof (set_ake_keys _ _ _ _ _ _ E9) as K9.
  destruct (set_ake_proj _ _ _ _ _ _ E9 H8) as [-> [_ [T9 H9]]].
  apply ret_eq in E. injection E as _ Ec _. subst c'.
  split; [rewrite K9, K8, K7, K6, K5, K4, K2, K1; exact K|].
  intros _. rewrite T9. split.
  - change (a_their (the_ake c8) <> None). rewrite Th8, T7. change (a_their (the_ake c6) <> None).
    rewrite Th6, Th5, T4. change (a_their (the_ake c2) <> None). rewrite Th2, T1. discriminate.
  - change (ourCurrent (a_keys (the_ake c8)) <> None). rewrite Oc8, T7. discriminate.
Qed.

Lemma pk_apply {A} (m : M A) c ev res c' ev' : pk m -> m c ev = (res, c', ev') -> PInv c -> PInv c'.
Proof. intros H E I. exact (H _ _ _ _ _ E I). Qed.
Ltac close_pk E I := eapply pk_apply; [| exact E | exact I]; pk_tac.
Lemma pk0_apply {A} (m : M A) c ev res c' ev' : pk0 m -> m c ev = (res, c', ev') -> a_state (the_ake c) <> 3 -> PInv c -> PInv c'.
Proof. intros H E N3 I. destruct (H _ _ _ _ _ E N3) as [N3' Ek]. exact (PInv_state _ _ Ek N3' I). Qed.
Ltac close_pk0 E I Hst := eapply pk0_apply; [| exact E | rewrite Hst; discriminate | exact I]; pk0_tac.

Lemma pk_processAKE_body now ty body aux : pk (processAKE_body now ty body aux).
Proof.
  intros c ev res c' ev' E I. unfold processAKE_body in E.
  apply bind_eq in E as [cg [c0 [ev0 [Eg E]]]]. apply get_eq in Eg. injection Eg as -> -> ->. cbv zeta in E.
  remember (a_state (the_ake c)) as st eqn:Hst. symmetry in Hst.
  apply if_eq in E as [[_ E]|[_ E]].
  { destruct st as [|[[q|q|]|[q|q|]|]]; first [solve [close_pk E I] | solve [close_pk0 E I Hst]]. }
  apply if_eq in E as [[_ E]|[_ E]].
  { destruct st as [|[[q|q|]|[q|q|]|]]; try solve [close_pk E I].
    destruct body as [[r0 g0 h0|gy|r0 es0 m0|es0 m0]|]; try solve [close_pk E I].
    exact (dhkey_block_pk gy _ _ _ _ _ E Hst I). }
  apply if_eq in E as [[_ E]|[_ E]].
  { destruct st as [|[[q|q|]|[q|q|]|]]; try solve [close_pk E I].
    destruct body as [[r0 g0 h0|gy|r0 es0 m0|es0 m0]|]; try solve [close_pk E I].
    exact (reveal_block_pk now r0 es0 m0 _ _ _ _ _ E Hst I). }
  apply if_eq in E as [[_ E]|[_ E]].
  { destruct st as [|[[q|q|]|[q|q|]|]]; try solve [close_pk E I].
    destruct body as [[r0 g0 h0|gy|r0 es0 m0|es0 m0]|]; try solve [close_pk E I].
    exact (sig_block_pk now es0 m0 _ _ _ _ _ E Hst I). }
  close_pk E I.
Qed.
#[export] Hint Resolve pk_processAKE_body : pk.

Lemma pk_modify_teardown f : (forall c, c_ake (f c) = None) -> (forall c, ourKeyID (c_keys (f c)) = 0 /\ theirKeyID (c_keys (f c)) = 0) -> pk (modify f).
Proof.
  intros Ha Hk c ev a c' ev' E I. unfold modify in E. injection E as _ <- _. split.
  - destruct (Hk c) as [H1 H2]. apply KP_zero; assumption.
  - intros H3. unfold the_ake in H3. rewrite Ha in H3. discriminate.
Qed.
Lemma pk_modify_ake_init f : (forall c, c_keys (f c) = c_keys c) -> (forall c, c_ake (f c) = Some ake_init) -> pk (modify f).
Proof.
  intros Hk Ha c ev a c' ev' E [K A]. unfold modify in E. injection E as _ <- _. split; [rewrite Hk; exact K|].
  intros H3. unfold the_ake in H3. rewrite Ha in H3. discriminate.
Qed.
Ltac pk_tac2 :=
  repeat first
  [ solve [auto with pk]
  | progress cbv zeta
  | apply pk_fresh | apply pk_pure | apply pk_evs
  | (apply fp_pk; solve [fp_tac])
  | (apply pk_set_ake_frame; intros ?; reflexivity)
  | (apply pk_set_ake_state; intros ?; discriminate)
  | (apply pk_modify_ake_init; intros ?; reflexivity)
  | (apply pk_modify_teardown; intros ?; [reflexivity | split; reflexivity])
  | (apply pk_modify; intros ? ?; solve [pinv])
  | (apply pk_bind; [|intros ?])
  | match goal with
    | |- pk (if ?b then _ else _) => destruct b
    | |- pk (match ?x with _ => _ end) => destruct x
    | |- pk (let '(_, _) := ?x in _) => destruct x
    end ].

Lemma pk_processAKE now ty body aux : pk (processAKE now ty body aux). Proof. unfold processAKE. pk_tac2. Qed.
#[export] Hint Resolve pk_processAKE : pk.
Lemma pk_processTLVs rnd tlvs : forall x acc, pk (processTLVs rnd tlvs x acc).
Proof. induction tlvs as [|t r IH]; intros x acc; cbn [processTLVs]; [pk_tac2|]. destruct t; pk_tac2; try apply IH. Qed.
#[export] Hint Resolve pk_processTLVs : pk.

Lemma pk_processDataMessage now d rnd : pk (processDataMessage now d rnd).
Proof.
  intros c ev a c' ev' E I. unfold processDataMessage in E.
  apply bind_eq in E as [cg [c0 [ev0 [Eg E]]]]. apply get_eq in Eg. injection Eg as -> -> ->.
  apply if_eq in E as [[_ E]|[_ E]].
  { apply bind_eq in E as [u [c1 [ev1 [E1 E]]]]. unfold event in E1. injection E1 as _ Ec1 _. subst c1.
    apply ret_eq in E. injection E as _ <- _. exact I. }
  cbv zeta in E.
  destruct (recvDataMsg (c_keys c) d (fst (draw c))) as [[[pl k'] xk]|e|] eqn:Er.
  2:{ apply ret_eq in E. injection E as _ <- _. exact I. }
  2:{ apply ret_eq in E. injection E as _ <- _. exact I. }
  apply bind_eq in E as [u1 [c1 [ev1 [E1 E]]]].
  assert (S1 : pq c1 = pq c).
  { destruct (p_text pl); [unfold event in E1 | apply ret_eq in E1]; injection E1 as _ Ec _; subst c1; reflexivity. }
  apply bind_eq in E as [u2 [c2 [ev2 [E2 E]]]]. unfold modify in E2. injection E2 as _ Ec2 _. subst c2.
  match type of E with ?m _ _ = _ => assert (Hn : pk m) by pk_tac2 end.
  apply (Hn _ _ _ _ _ E). destruct (PInv_same _ _ S1 I) as [K1 A1]. destruct (pq_fields _ _ S1) as [Q1 _].
  split; [cbn; destruct I as [K _]; exact (KP_recv _ _ _ _ _ _ K Er) | exact A1].
Qed.
#[export] Hint Resolve pk_processDataMessage : pk.
Lemma pk_potentialHeartbeat now p : pk (potentialHeartbeat now p). Proof. unfold potentialHeartbeat. pk_tac2. Qed.
#[export] Hint Resolve pk_potentialHeartbeat : pk.
Lemma pk_receiveDataMessage now d rnd : pk (receiveDataMessage now d rnd). Proof. unfold receiveDataMessage. pk_tac2. Qed.
#[export] Hint Resolve pk_receiveDataMessage : pk.
Lemma pk_checkPlaintextPolicies : pk checkPlaintextPolicies. Proof. unfold checkPlaintextPolicies. pk_tac2. Qed.
#[export] Hint Resolve pk_checkPlaintextPolicies : pk.
Lemma pk_receiveQueryMessage now v : pk (receiveQueryMessage now v). Proof. unfold receiveQueryMessage. pk_tac2. Qed.
#[export] Hint Resolve pk_receiveQueryMessage : pk.
Lemma pk_receiveDecoded now ver stag rtag body aux rnd : pk (receiveDecoded now ver stag rtag body aux rnd).
Proof. unfold receiveDecoded. pk_tac2. Qed.
#[export] Hint Resolve pk_receiveDecoded : pk.
Lemma pk_forgetVersion b e : pk (forgetVersion b e). Proof. unfold forgetVersion. pk_tac2. Qed.
#[export] Hint Resolve pk_forgetVersion : pk.
Lemma pk_forgetTag b e : pk (forgetTag b e). Proof. unfold forgetTag. pk_tac2. Qed.
#[export] Hint Resolve pk_forgetTag : pk.
Lemma pk_finish p o e : pk (finish p o e). Proof. unfold finish. pk_tac2. Qed.
#[export] Hint Resolve pk_finish : pk.
Lemma pk_finishSend o e : pk (finishSend o e). Proof. unfold finishSend. pk_tac2. Qed.
#[export] Hint Resolve pk_finishSend : pk.
Lemma pk_receive now w aux rnd : pk (receive now w aux rnd). Proof. unfold receive. pk_tac2. Qed.
Lemma pk_send now t : pk (send now t). Proof. unfold send. pk_tac2. Qed.
Lemma pk_endConv now : pk (endConv now). Proof. unfold endConv. pk_tac2. Qed.
Lemma pk_userSMP now s rnd : pk (userSMP now s rnd). Proof. unfold userSMP. pk_tac2. Qed.
Lemma pk_sendTLVs now t : pk (sendTLVs now t). Proof. unfold sendTLVs. pk_tac2. Qed.
Lemma pk_useExtraKey now u d : pk (useExtraKey now u d). Proof. unfold useExtraKey. pk_tac2. Qed.

Lemma step_PInv now c op : PInv c -> PInv (fst (step now c op)).
Proof.
  intros I. unfold step. destruct op as [t|w aux rnd| |s rnd|u d|tlvs].
  - destruct (send now t c []) as [[r c'] ev'] eqn:E. exact (pk_send now t _ _ _ _ _ E I).
  - destruct (receive now w aux rnd c []) as [[r c'] ev'] eqn:E. exact (pk_receive now w aux rnd _ _ _ _ _ E I).
  - destruct (endConv now c []) as [[r c'] ev'] eqn:E. exact (pk_endConv now _ _ _ _ _ E I).
  - destruct (userSMP now s rnd c []) as [[r c'] ev'] eqn:E. exact (pk_userSMP now s rnd _ _ _ _ _ E I).
  - destruct (useExtraKey now u d c []) as [[r c'] ev'] eqn:E. exact (pk_useExtraKey now u d _ _ _ _ _ E I).
  - destruct (sendTLVs now tlvs c []) as [[r c'] ev'] eqn:E. exact (pk_sendTLVs now tlvs _ _ _ _ _ E I).
Qed.
Lemma run_PInv h : forall c, PInv c -> PInv (fst (run_calls c h)).
Proof.
  induction h as [|[now op] r IH]; intros c I; cbn [run_calls]; [exact I|].
  pose proof (step_PInv now c op I) as H. destruct (step now c op) as [c1 res]. cbn [fst] in H.
  specialize (IH c1 H). destruct (run_calls c1 r) as [c2 evs]. exact IH.
Qed.
Lemma PInv_init who pol key : PInv (conv_init who pol key).
Proof. split; [apply KP_zero; reflexivity | intros H; discriminate]. Qed.

(* C13, the protocol logic: in every state a conversation can reach - whatever was sent to it - the key management never
   dereferences a key that is not there: looking up session keys, accepting a data message and building one never reach
   the panic outcome (a nil private key or a nil peer value handed to the big-number code) *)
Theorem key_management_never_panics who pol key h :
  let c := fst (run_calls (conv_init who pol key) h) in
  (forall o t, sessionKeysFor (c_keys c) o t <> Panic) /\
  (forall d x, recvDataMsg (c_keys c) d x <> Panic) /\
  (forall hd flag pl, genDataMsg (c_keys c) hd flag pl <> Panic).
Proof.
  cbv zeta. destruct (run_PInv h _ (PInv_init who pol key)) as [K _]. split; [|split].
  - intros o t. apply sessionKeysFor_no_panic. exact K.
  - intros d x. apply recv_no_panic. exact K.
  - intros hd flag pl. apply gen_no_panic. exact K.
Qed.
