(* C19: the MAC keys that wait for disclosure (keyManagementContext.oldMACKeys) are bounded for EVERY two-party history.

   A party appends to that list only when a reception rotates a key pair out of the window (rotateOurKeys /
   rotateTheirKey: the receiving MAC keys recorded for the retired id, at most two per id because the window is 2 x 2),
   and empties it with the next data message it sends (revealMACKeys).  One party alone could be made to rotate again and
   again without ever sending (by a peer that keeps announcing new keys), so a bound needs the peer to follow the
   protocol: it is a fact about the two-party system.  This file proves it over the same system as C04 (Proto/RatchetKeys.v:
   the real key contexts of both sides, two FIFO queues, any interleaving of sends and deliveries, any number of messages
   in flight): between two of its own sends a party rotates its own key at most once and the peer's key at most once,
   because the peer can only name keys the party has announced and only announces a new key after it was named one.
   Hence at most 4 keys ever wait.

   Ghost state: for each side the key ids it had when it last sent ([marks]). *)
From Coq Require Import List NArith Lia Bool.
Import ListNotations.
From OTR Require Import Go.Base Proto.SmpTypes Proto.Keys Proto.KeysProofs Proto.Ratchet Proto.RatchetKeys.
Open Scope N_scope.

(* ---------- key-id level ---------- *)
Record marks := { lo : N; lt : N }.
Definition marks_of (x : side) : marks := {| lo := our x; lt := their x |}.

(* s: this side (sender of queue q to r), ms: its ids at its last send *)
Record mark_inv (s r : side) (ms : marks) (q : list msg) : Prop := {
  mk_lo : lo ms <= our s;
  mk_lt : lt ms <= their s;
  mk_peer_knows : their (after r q) <= lo ms;          (* all the peer will have learnt of our keys is what we sent *)
  mk_peer_rot : our (after r q) <= lt ms + 1;          (* the peer rotates its own key at most once per key we named *)
  mk_our : our s <= lo ms + 1;                         (* at most one rotation of our key since the last send *)
  mk_their : their s <= lt ms + 1                      (* at most one rotation of the peer's key since then *)
}.

Lemma mark_send s r ms q : dir_inv s r q -> mark_inv s r ms q -> mark_inv s r (marks_of s) (q ++ [emit s]).
Proof.
  intros [_ _ [T1 T2] [O1 O2] [P1 [P2 [P3 P4]]]] _. set (f := after r q) in *.
  constructor; unfold marks_of; cbn [lo lt]; try lia.
  - rewrite after_app. fold f. unfold absorb, emit; cbn. destruct (N.eqb_spec (our s - 1) (their f)); lia.
  - rewrite after_app. fold f. unfold absorb, emit; cbn. destruct (N.eqb_spec (their s) (our f)); lia.
Qed.

Lemma mark_recv s r ms m q : mark_inv s r ms (m :: q) -> mark_inv s (absorb r m) ms q.
Proof. intros [H1 H2 H3 H4 H5 H6]. constructor; auto. Qed.

(* this side absorbs a message m' of the other direction, whose ids are ones the peer r really had *)
Lemma mark_absorbs s r ms q m' : mark_inv s r ms q ->
  m_rk m' <= their r -> m_sk m' + 1 <= our r -> mark_inv (absorb s m') r ms q.
Proof.
  intros [H1 H2 H3 H4 H5 H6] Hrk Hsk.
  destruct (after_mono q r) as [Mo Mt]. destruct (absorb_mono s m') as [Ao At].
  constructor; auto; try lia.
  - unfold absorb; cbn. destruct (N.eqb_spec (m_rk m') (our s)); lia.
  - unfold absorb; cbn. destruct (N.eqb_spec (m_sk m') (their s)); lia.
Qed.

(* ---------- key level: what one reception / one send does to the waiting list ---------- *)
Definition pending (k : keyctx) : N := N.of_nat (length (oldMACKeys k)).

Lemma pairs_with_our_le2 (h : list macKeyUsage) (o a b : N) :
  NoDup (map (fun u => (mu_our u, mu_their u)) h) ->
  Forall (fun u => (mu_our u = a \/ mu_our u + 1 = a) /\ (mu_their u = b \/ mu_their u + 1 = b)) h ->
  (length (filter (fun u => (mu_our u =? o)%N) h) <= 2)%nat.
Proof.
  intros ND F.
  rewrite <- (map_length (fun u => (mu_our u, mu_their u))).
  apply (NoDup_incl_length (l' := [(o, b); (o, b - 1)])).
  - apply NoDup_map_filter. exact ND.
  - intros [x y] Hin. apply in_map_iff in Hin as [u [Eu Hu]]. apply filter_In in Hu as [Hu Ho].
    apply N.eqb_eq in Ho. rewrite Forall_forall in F. destruct (F _ Hu) as [_ [Ht|Ht]]; injection Eu as <- <-; cbn.
    + left. f_equal; [symmetry; exact Ho | symmetry; exact Ht].
    + right; left. f_equal; [symmetry; exact Ho | lia].
Qed.

Lemma pairs_with_their_le2 (h : list macKeyUsage) (t a b : N) :
  NoDup (map (fun u => (mu_our u, mu_their u)) h) ->
  Forall (fun u => (mu_our u = a \/ mu_our u + 1 = a) /\ (mu_their u = b \/ mu_their u + 1 = b)) h ->
  (length (filter (fun u => (mu_their u =? t)%N) h) <= 2)%nat.
Proof.
  intros ND F.
  rewrite <- (map_length (fun u => (mu_our u, mu_their u))).
  apply (NoDup_incl_length (l' := [(a, t); (a - 1, t)])).
  - apply NoDup_map_filter. exact ND.
  - intros [x y] Hin. apply in_map_iff in Hin as [u [Eu Hu]]. apply filter_In in Hu as [Hu Ho].
    apply N.eqb_eq in Ho. rewrite Forall_forall in F. destruct (F _ Hu) as [[Ht|Ht] _]; injection Eu as <- <-; cbn.
    + left. f_equal; [symmetry; exact Ht | symmetry; exact Ho].
    + right; left. f_equal; [lia | symmetry; exact Ho].
Qed.

Lemma pending_rotateOurs k rk x : KInv k ->
  pending (rotateOurKeys k rk x) <= pending k + (if rk =? ourKeyID k then 2 else 0).
Proof.
  intros [_ [_ [ND F]]]. unfold rotateOurKeys, pending. destruct (rk =? ourKeyID k); [|lia].
  unfold forgetMACKeys. cbn [oldMACKeys]. rewrite app_length, map_length.
  pose proof (pairs_with_our_le2 (macHistory k) (ourKeyID k - 1) (ourKeyID k) (theirKeyID k) ND F). lia.
Qed.

Lemma pending_rotateTheirs k sk y : KInv k ->
  pending (rotateTheirKey k sk y) <= pending k + (if sk =? theirKeyID k then 2 else 0).
Proof.
  intros [_ [_ [ND F]]]. unfold rotateTheirKey, pending. destruct (sk =? theirKeyID k); [|lia].
  unfold forgetMACKeys. cbn [oldMACKeys]. rewrite app_length, map_length.
  pose proof (pairs_with_their_le2 (macHistory k) (theirKeyID k - 1) (ourKeyID k) (theirKeyID k) ND F). lia.
Qed.

Lemma pending_addKeys k o t key : pending (addKeys k o t key) = pending k.
Proof. unfold addKeys, pending. destruct (has_mac_entry _ _ _); reflexivity. Qed.

(* an accepted message lengthens the waiting list by at most 2 per key pair it rotates out *)
Lemma pending_recv k d x pl k' xk : KInv k -> recvDataMsg k d x = Ok (pl, k', xk) ->
  pending k' <= pending k + (if af_rk (d_fields d) =? ourKeyID k then 2 else 0)
                          + (if af_sk (d_fields d) =? theirKeyID k then 2 else 0).
Proof.
  intros I H. unfold recvDataMsg in H.
  destruct (d_wellformed d); cbn [negb] in H; [|discriminate].
  set (f := d_fields d) in *.
  destruct (sessionKeysFor k (af_rk f) (af_sk f)) as [keys| |] eqn:Ek; cbn [bindR] in H; try discriminate.
  destruct (mac_valid d (receivingKey keys)); cbn [negb] in H; [|discriminate].
  destruct (checkMessageCounter k (af_rk f) (af_sk f) (af_ctr f)) as [k1| |] eqn:Ec; cbn [bindR] in H; try discriminate.
  destruct (skey_eqb _ _ && _ && _); [|discriminate].
  injection H as _ <- _.
  pose proof (window_of_keys _ _ _ _ Ek) as W.
  (* the counter step keeps ids, MAC history and the waiting list *)
  unfold checkMessageCounter in Ec.
  destruct (find_counter (ensure_counter (counters k) (af_rk f) (af_sk f)) (af_rk f) (af_sk f)); [|discriminate].
  destruct (af_ctr f <=? kc_theirCtr k0); [discriminate|]. injection Ec as <-.
  match goal with |- context [set_counters k ?cs] => set (k1 := set_counters k cs) end.
  assert (I1 : KInv k1).
  { apply KInv_split in I as [IC IM]. apply KInv_split. split.
    - apply KInvC_touch; [intros c; cbn; auto | exact W | exact IC].
    - apply KInvM_set_counters; exact IM. }
  set (k2 := addKeys k1 (af_rk f) (af_sk f) (receivingKey keys)).
  assert (I2 : KInv k2).
  { apply KInv_split in I1 as [IC IM]. apply KInv_split. split.
    - apply KInvC_addKeys; exact IC.
    - apply KInvM_addKeys; [exact W | exact IM]. }
  destruct (ids_addKeys k1 (af_rk f) (af_sk f) (receivingKey keys)) as [A1 A2]. fold k2 in A1, A2.
  assert (P2 : pending k2 = pending k) by (unfold k2; rewrite pending_addKeys; reflexivity).
  assert (O2 : ourKeyID k2 = ourKeyID k) by (rewrite A1; reflexivity).
  assert (T2 : theirKeyID k2 = theirKeyID k) by (rewrite A2; reflexivity).
  set (k3 := rotateOurKeys k2 (af_rk f) x).
  pose proof (pending_rotateOurs k2 (af_rk f) x I2) as P3. fold k3 in P3. rewrite O2, P2 in P3.
  assert (I3 : KInv k3) by (apply KInv_rotateOurs; exact I2).
  assert (T3 : theirKeyID k3 = theirKeyID k) by (unfold k3; rewrite ids_rotateOurs; exact T2).
  pose proof (pending_rotateTheirs k3 (af_sk f) (af_y f) I3) as P4. rewrite T3 in P4.
  lia.
Qed.

Lemma pending_gen k h flag pl d k' xk : genDataMsg k h flag pl = Ok (d, k', xk) -> pending k' = 0.
Proof.
  unfold genDataMsg. destruct (sessionKeysFor _ _ _) as [keys| |]; cbn [bindR]; try discriminate.
  destruct (find_counter _ _ _); [|discriminate].
  match goal with |- context [ourCurrent ?k] => destruct (ourCurrent k) end; [|discriminate].
  cbn [revealMACKeys]. intros H. injection H as _ <- _. reflexivity.
Qed.

(* ---------- the two-party system ---------- *)
(* what waits is paid for by rotations since the last send *)
Definition paid (k : keyctx) (ms : marks) : Prop :=
  pending k + 2 * lo ms + 2 * lt ms <= 2 * ourKeyID k + 2 * theirKeyID k.

Record pinv (n : cnet) : Prop := {
  p_c : cinv n;
  p_kA : KInv (kA n);
  p_kB : KInv (kB n);
  p_marks : exists mA mB,
      mark_inv (side_of (kA n)) (side_of (kB n)) mA (map msg_of (cAB n)) /\
      mark_inv (side_of (kB n)) (side_of (kA n)) mB (map msg_of (cBA n)) /\
      paid (kA n) mA /\ paid (kB n) mB
}.

Lemma side_of_our k : our (side_of k) = ourKeyID k. Proof. reflexivity. Qed.
Lemma side_of_their k : their (side_of k) = theirKeyID k. Proof. reflexivity. Qed.

Lemma paid_recv k d x pl k' xk ms : KInv k -> recvDataMsg k d x = Ok (pl, k', xk) ->
  side_of k' = absorb (side_of k) (msg_of d) -> paid k ms -> paid k' ms.
Proof.
  intros I R S P. pose proof (pending_recv _ _ _ _ _ _ I R) as L. unfold paid in *.
  assert (Eo : ourKeyID k' = if af_rk (d_fields d) =? ourKeyID k then ourKeyID k + 1 else ourKeyID k).
  { rewrite <- (side_of_our k'), S. reflexivity. }
  assert (Et : theirKeyID k' = if af_sk (d_fields d) =? theirKeyID k then theirKeyID k + 1 else theirKeyID k).
  { rewrite <- (side_of_their k'), S. reflexivity. }
  rewrite Eo, Et. destruct (af_rk (d_fields d) =? ourKeyID k), (af_sk (d_fields d) =? theirKeyID k); lia.
Qed.

Lemma pstep_inv n e : pinv n -> cev_ok e -> pinv (cstep n e).
Proof.
  intros [C KA KB [mA [mB [MA [MB [PA PB]]]]]] Hok.
  pose proof (cstep_inv n e C Hok) as C'.
  destruct C as [IA IB FA FB].
  destruct e as [h flag pl|h flag pl|x|x]; cbn [cstep] in *.
  - destruct (vdir_send true _ _ _ h flag pl IA (v_own _ _ _ _ IB)) as [d [k' [xk [G _]]]].
    rewrite G in *. destruct (gen_is_emit _ _ _ _ _ _ _ G) as [Em Es].
    constructor; cbn; auto.
    + exact (KInv_gen _ _ _ _ _ _ _ KA G).
    + exists (marks_of (side_of (kA n))), mB. rewrite map_app. cbn [map]. rewrite Em, Es. split; [|split; [|split]].
      * apply (mark_send _ _ mA); [exact (v_ids _ _ _ _ IA) | exact MA].
      * exact MB.
      * unfold paid. rewrite (pending_gen _ _ _ _ _ _ _ G).
        assert (Eo : ourKeyID k' = ourKeyID (kA n)) by (rewrite <- (side_of_our k'), Es; reflexivity).
        assert (Et : theirKeyID k' = theirKeyID (kA n)) by (rewrite <- (side_of_their k'), Es; reflexivity).
        rewrite Eo, Et. unfold marks_of; cbn. lia.
      * exact PB.
  - destruct (vdir_send false _ _ _ h flag pl IB (v_own _ _ _ _ IA)) as [d [k' [xk [G _]]]].
    rewrite G in *. destruct (gen_is_emit _ _ _ _ _ _ _ G) as [Em Es].
    constructor; cbn; auto.
    + exact (KInv_gen _ _ _ _ _ _ _ KB G).
    + exists mA, (marks_of (side_of (kB n))). rewrite map_app. cbn [map]. rewrite Em, Es. split; [|split; [|split]].
      * exact MA.
      * apply (mark_send _ _ mB); [exact (v_ids _ _ _ _ IB) | exact MB].
      * exact PA.
      * unfold paid. rewrite (pending_gen _ _ _ _ _ _ _ G).
        assert (Eo : ourKeyID k' = ourKeyID (kB n)) by (rewrite <- (side_of_our k'), Es; reflexivity).
        assert (Et : theirKeyID k' = theirKeyID (kB n)) by (rewrite <- (side_of_their k'), Es; reflexivity).
        rewrite Eo, Et. unfold marks_of; cbn. lia.
  - destruct (cAB n) as [|d q] eqn:E; [constructor; rewrite ?E; auto; exists mA, mB; rewrite ?E; auto|].
    destruct (vdir_recv true _ _ d q x IA) as [k' [xk [R _]]]. rewrite R in *.
    destruct (recv_is_absorb _ _ _ _ _ _ R) as [_ S].
    pose proof (v_ids _ _ _ _ IA) as Vi. cbn [map] in Vi. destruct (head_sent _ _ _ _ Vi) as [H1 H2].
    constructor; cbn; auto.
    + exact (KInv_recv _ _ _ _ _ _ KB R).
    + exists mA, mB. cbn [map] in MA. rewrite S. split; [|split; [|split]].
      * apply mark_recv; exact MA.
      * apply mark_absorbs; assumption.
      * exact PA.
      * exact (paid_recv _ _ _ _ _ _ _ KB R S PB).
  - destruct (cBA n) as [|d q] eqn:E; [constructor; rewrite ?E; auto; exists mA, mB; rewrite ?E; auto|].
    destruct (vdir_recv false _ _ d q x IB) as [k' [xk [R _]]]. rewrite R in *.
    destruct (recv_is_absorb _ _ _ _ _ _ R) as [_ S].
    pose proof (v_ids _ _ _ _ IB) as Vi. cbn [map] in Vi. destruct (head_sent _ _ _ _ Vi) as [H1 H2].
    constructor; cbn; auto.
    + exact (KInv_recv _ _ _ _ _ _ KA R).
    + exists mA, mB. cbn [map] in MB. rewrite S. split; [|split; [|split]].
      * apply mark_absorbs; assumption.
      * apply mark_recv; exact MB.
      * exact (paid_recv _ _ _ _ _ _ _ KA R S PA).
      * exact PB.
Qed.

Lemma pinv_bound n : pinv n -> (length (oldMACKeys (kA n)) <= 4)%nat /\ (length (oldMACKeys (kB n)) <= 4)%nat.
Proof.
  intros [_ _ _ [mA [mB [MA [MB [PA PB]]]]]].
  destruct MA as [A1 A2 _ _ A5 A6]. destruct MB as [B1 B2 _ _ B5 B6].
  unfold paid, pending in *. rewrite side_of_our, side_of_their in *. split; lia.
Qed.

Lemma pinit_inv a1 a2 b1 b2 : own true a1 -> own true a2 -> own false b1 -> own false b2 -> pinv (cinit a1 a2 b1 b2).
Proof.
  intros H1 H2 H3 H4. constructor.
  - apply cinit_inv; assumption.
  - apply KInv_fresh_session; reflexivity.
  - apply KInv_fresh_session; reflexivity.
  - exists {| lo := 2; lt := 1 |}, {| lo := 2; lt := 1 |}. cbn.
    repeat split; cbn; unfold paid, pending; cbn; lia.
Qed.

Theorem pending_disclosure_bounded sched : forall n, pinv n -> Forall cev_ok sched -> pinv (fold_left cstep sched n).
Proof.
  induction sched as [|e r IH]; intros n Hn Hs; cbn [fold_left]; [exact Hn|].
  inversion Hs as [|? ? H1 H2]; subst. apply IH; [apply pstep_inv; assumption | exact H2].
Qed.

(* every state of every schedule after the key exchange *)
Corollary pending_disclosure_bounded_after_ake a1 a2 b1 b2 sched :
  own true a1 -> own true a2 -> own false b1 -> own false b2 -> Forall cev_ok sched ->
  let n := fold_left cstep sched (cinit a1 a2 b1 b2) in
  (length (oldMACKeys (kA n)) <= 4)%nat /\ (length (oldMACKeys (kB n)) <= 4)%nat.
Proof.
  intros H1 H2 H3 H4 Hs. apply pinv_bound, pending_disclosure_bounded; [apply pinit_inv; assumption | exact Hs].
Qed.

(* non-vacuity: in the crossing schedule of Proto/RatchetKeys.v keys do wait (and are flushed by the next send) *)
Example ex_pending_nonzero :
  let n := fold_left cstep (firstn 11 ex_sched) (cinit 2 4 1 3) in
  (length (oldMACKeys (kA n)), length (oldMACKeys (kB n))) = (0%nat, 0%nat) -> False.
Proof. vm_compute. discriminate. Qed.
