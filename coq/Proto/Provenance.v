(* C18, second half, as provenance over histories: whatever text a conversation ever puts on the wire - in the clear,
   as the payload of a data message, when the queue is released after a key exchange or when the last message is sent
   again on request - is a text the user has given to Send before (the resent one marked by the resend prefix), and
   nothing else is ever queued for sending.  Same method as Proto/NoPlain.v (values followed through the monad by the
   class [Wires]); the set S of texts given to Send so far is a section variable, the history theorem lets it grow. *)
From OTR Require Import Go.Base Gen.Consts Bytes.Text Proto.SmpTypes Proto.Keys Proto.Smp Proto.SmpInst Proto.Conv Proto.ConvProofs Proto.Lifecycle Proto.AkeAuth Proto.NoPlain.
From RecordUpdate Require Import RecordSet.
Import RecordSetNotations.
Open Scope N_scope.

Section Prov.
Variable S : list bytes.

Definition text_ok (t : bytes) : Prop := t = [] \/ In t S \/ exists t0, In t0 S /\ t = v_defaultResentPrefix ++ t0.
Definition okw (w : wire) : Prop :=
  match w with
  | WPlain t _ => text_ok t
  | WEnc _ _ _ (EData d) => text_ok (p_text (d_payload d))
  | _ => True
  end.
Definition okl (l : list wire) : Prop := Forall okw l.
Lemma okl_nil : okl []. Proof. constructor. Qed.
Lemma okl_app l1 l2 : okl (l1 ++ l2) <-> okl l1 /\ okl l2. Proof. apply Forall_app. Qed.
Lemma okl_cons w l : okl (w :: l) <-> okw w /\ okl l.
Proof. split; [intros H; inversion H; auto | intros [H1 H2]; constructor; auto]. Qed.

(* the queue holds only texts given to Send; what is stored to be sent as it is carries only such texts *)
Definition PInv (c : conv) : Prop := Forall (fun m => In m S) (c_resendMsgs c) /\ okl (wires c).

Definition pv {A} {WA : Wires A} (m : M A) : Prop := forall c ev a c' ev', m c ev = (a, c', ev') ->
  PInv c -> PInv c' /\ okl (wires a).

Lemma pv_bind {A B} {WA : Wires A} {WB : Wires B} (m : M A) (f : A -> M B) :
  pv m -> (forall a, okl (wires a) -> pv (f a)) -> pv (bind m f).
Proof.
  intros Hm Hf c ev b c' ev' E I. apply bind_eq in E as [a [c1 [ev1 [E1 E]]]].
  destruct (Hm _ _ _ _ _ E1 I) as [I1 Ca]. exact (Hf a Ca _ _ _ _ _ E I1).
Qed.
Lemma pv_ret {A} {WA : Wires A} (a : A) : okl (wires a) -> pv (ret a).
Proof. intros Ca c ev a' c' ev' E I. injection E as <- <- <-. auto. Qed.
Lemma pv_get : pv get.
Proof. intros c ev a' c' ev' E I. injection E as <- <- <-. split; [exact I|exact (proj2 I)]. Qed.
Lemma pv_fresh : pv fresh.
Proof. intros c ev a' c' ev' E I. unfold fresh, draw in E. injection E as <- <- <-. split; [exact I | constructor]. Qed.
Lemma pv_event e : pv (event e).
Proof. intros c ev a' c' ev' E I. injection E as <- <- <-. split; [exact I | constructor]. Qed.
Lemma pv_modify f : (forall c, PInv c -> PInv (f c)) -> pv (modify f).
Proof. intros H c ev a' c' ev' E I. injection E as <- <- <-. split; [apply H; exact I | constructor]. Qed.
Lemma pv_pure {A} {WA : Wires A} (f : conv -> list N -> A) : (forall c ev, PInv c -> okl (wires (f c ev))) -> pv (fun c ev => (f c ev, c, ev)).
Proof. intros H c ev a' c' ev' E I. injection E as <- <- <-. split; [exact I | apply H; exact I]. Qed.
Lemma pv_evs (g : list N -> list N) : pv (fun c ev => (tt, c, g ev)).
Proof. intros c ev a' c' ev' E I. injection E as <- <- <-. split; [exact I | constructor]. Qed.

Lemma PInv_same c c' : c_injections c' = c_injections c -> c_ake c' = c_ake c -> c_resendMsgs c' = c_resendMsgs c -> PInv c -> PInv c'.
Proof. unfold PInv, wires, W_conv, reveal_of. intros -> -> ->. auto. Qed.

Ltac cw1 :=
  repeat first
   [ progress (cbv beta delta [wires W_prod W_option W_R W_sum W_wire W_unit W_N W_bool W_hdr W_skey W_encsig W_emac W_stlv W_result W_conv] in * )
   | progress (cbn [fst snd r_out app] in * )
   | rewrite Wl_wire in *
   | rewrite Wl_N in *
   | rewrite Wl_stlv in *
   | rewrite okl_app in *
   | rewrite okl_cons in * ].
Ltac cw :=
  cw1;
  repeat (match goal with |- context [match ?x with _ => _ end] => destruct x end; cw1);
  repeat match goal with H : _ /\ _ |- _ => destruct H end;
  repeat split; auto using okl_nil; try reflexivity; try exact I.

Ltac sinv :=
  first
  [ (eapply PInv_same; [reflexivity | reflexivity | reflexivity | eassumption])
  | (unfold PInv, wires, W_conv, reveal_of, the_ake in *; cbn in *;
     repeat match goal with
            | |- context [match c_ake ?c with _ => _ end] => destruct (c_ake c)
            | H : context [match c_ake ?c with _ => _ end] |- _ => destruct (c_ake c)
            end;
     cbn in *; cw; try constructor) ].

Create HintDb pv.
Ltac pv_tac :=
  repeat first
  [ solve [auto with pv]
  | progress cbv zeta
  | apply pv_get | apply pv_fresh | apply pv_event | apply pv_evs
  | (apply pv_ret; solve [cw])
  | (apply pv_modify; intros ? ?; solve [sinv])
  | (apply pv_pure; intros ? ? ?; solve [cw])
  | (apply pv_bind; [|intros ? ?])
  | match goal with
    | |- pv (if ?b then _ else _) => destruct b
    | |- pv (match ?x with _ => _ end) => destruct x
    | |- pv (let '(_, _) := ?x in _) => destruct x
    end ].

Lemma pv_commitToVersionFrom v : pv (commitToVersionFrom v). Proof. unfold commitToVersionFrom. pv_tac. Qed.
#[local] Hint Resolve pv_commitToVersionFrom : pv.
Lemma pv_generateInstanceTag : pv generateInstanceTag. Proof. unfold generateInstanceTag. pv_tac. Qed.
#[local] Hint Resolve pv_generateInstanceTag : pv.
Lemma pv_malformedMessage : pv malformedMessage. Proof. unfold malformedMessage. pv_tac. Qed.
#[local] Hint Resolve pv_malformedMessage : pv.
Lemma pv_verifyInstanceTags a b : pv (verifyInstanceTags a b). Proof. unfold verifyInstanceTags. pv_tac. Qed.
#[local] Hint Resolve pv_verifyInstanceTags : pv.
Lemma pv_messageHeader : pv messageHeader. Proof. unfold messageHeader. pv_tac. Qed.
#[local] Hint Resolve pv_messageHeader : pv.
Lemma pv_wrap x : pv (wrap (EAke x)). Proof. unfold wrap. pv_tac. Qed.
#[local] Hint Resolve pv_wrap : pv.
Lemma pv_generatePotentialErrorMessage x : pv (generatePotentialErrorMessage x). Proof. unfold generatePotentialErrorMessage. pv_tac. Qed.
#[local] Hint Resolve pv_generatePotentialErrorMessage : pv.

Lemma pv_withInjects x : okl x -> pv (withInjects x). Proof. intros Hx. unfold withInjects. pv_tac. Qed.
Lemma pv_updateLastSent x : pv (updateLastSent x). Proof. unfold updateLastSent. pv_tac. Qed.
#[local] Hint Resolve pv_updateLastSent : pv.
(* building a data message: the text it carries is the text it was given; what it remembers for a resend is that text *)
Lemma genDataMsg_payload k h f pl d k' x : genDataMsg k h f pl = Ok (d, k', x) -> d_payload d = pl.
Proof.
  unfold genDataMsg. destruct (sessionKeysFor _ _ _) as [keys| |]; cbn [bindR]; try discriminate.
  destruct (find_counter _ _ _); [|discriminate].
  match goal with |- context [ourCurrent ?k2] => destruct (ourCurrent k2) end; [|discriminate].
  cbn [revealMACKeys]. intros H. injection H as <- _ _. reflexivity.
Qed.

Lemma pv_genDataMsgWithFlag t f l r : (t = [] \/ In t S \/ (r = true /\ text_ok t)) -> pv (genDataMsgWithFlag t f l r).
Proof.
  intros Ht c ev a c' ev' E I. unfold genDataMsgWithFlag in E.
  apply bind_eq in E as [cg [c0 [ev0 [Eg E]]]]. apply get_eq in Eg. injection Eg as -> -> ->.
  apply if_eq in E as [[_ E]|[_ E]]; [apply ret_eq in E; injection E as -> -> _; split; [exact I|constructor]|].
  destruct (sessionKeysFor (c_keys c) (ourKeyID (c_keys c) - 1) (theirKeyID (c_keys c))) as [keys|e|].
  2:{ apply ret_eq in E; injection E as -> -> _; split; [exact I|constructor]. }
  2:{ apply ret_eq in E; injection E as -> -> _; split; [exact I|constructor]. }
  apply bind_eq in E as [h [c1 [ev1 [E1 E]]]]. destruct (pv_messageHeader _ _ _ _ _ E1 I) as [I1 _].
  apply bind_eq in E as [cg [c1' [ev1' [Eg E]]]]. apply get_eq in Eg. injection Eg as -> -> ->.
  destruct (genDataMsg (c_keys c1) h f {| p_text := t; p_tlvs := l |}) as [[[d k'] x]|e|] eqn:Eg.
  2:{ apply ret_eq in E; injection E as -> -> _; split; [exact I1|constructor]. }
  2:{ apply ret_eq in E; injection E as -> -> _; split; [exact I1|constructor]. }
  apply bind_eq in E as [u [c2 [ev2 [E2 E]]]]. unfold modify in E2. injection E2 as _ Ec2 _. subst c2.
  apply ret_eq in E. injection E as -> -> _.
  pose proof (genDataMsg_payload _ _ _ _ _ _ _ Eg) as Hp.
  destruct I1 as [Q1 W1]. split.
  - split; [|exact W1]. cbn.
    destruct (r || match t with [] => true | _ :: _ => false end) eqn:Er; [exact Q1|].
    apply orb_false_iff in Er as [Er1 Er2]. constructor; [|constructor].
    destruct Ht as [->|[Ht|[Ht _]]]; [discriminate|exact Ht|congruence].
  - cw1. split; [|constructor]. cbn. rewrite Hp. cbn.
    destruct Ht as [->|[Ht|[_ Ht]]]; [left; reflexivity|right; left; exact Ht|exact Ht].
Qed.
Lemma pv_genDataMsgWithFlag_nil f l r : pv (genDataMsgWithFlag [] f l r).
Proof. apply pv_genDataMsgWithFlag. left. reflexivity. Qed.
#[local] Hint Resolve pv_genDataMsgWithFlag_nil : pv.
Lemma pv_createSerializedDataMessage n t f l : (t = [] \/ In t S) -> pv (createSerializedDataMessage n t f l).
Proof.
  intros Ht. unfold createSerializedDataMessage. apply pv_bind; [apply pv_genDataMsgWithFlag; tauto|intros g Hg]. pv_tac.
Qed.
Lemma pv_createSerializedDataMessage_nil n f l : pv (createSerializedDataMessage n [] f l).
Proof. apply pv_createSerializedDataMessage. left. reflexivity. Qed.
#[local] Hint Resolve pv_createSerializedDataMessage_nil : pv.

Lemma pv_retransmit_loop msgs : forall p acc, Forall (fun m => In m S) msgs -> okl acc -> pv (retransmit_loop msgs p acc).
Proof.
  induction msgs as [|m r IH]; intros p acc Hm Ha; cbn [retransmit_loop]; [pv_tac|].
  inversion Hm as [|? ? Hm1 Hm2]; subst.
  cbv zeta. apply pv_bind.
  - apply pv_genDataMsgWithFlag. destruct p; [right; right; split; [reflexivity|right; right; exists m; auto]|right; left; exact Hm1].
  - intros g Hg. destruct g as [[w x]| |]; [|pv_tac..]. apply IH; [exact Hm2|]. cw.
Qed.
Lemma pv_emit_n n e : pv (emit_n n e).
Proof. induction n as [|k IH]; cbn [emit_n]; [pv_tac|]. apply pv_bind; [apply pv_event | intros _ _; exact IH]. Qed.
#[local] Hint Resolve pv_emit_n : pv.
Lemma pv_maybeRetransmit n : pv (maybeRetransmit n).
Proof.
  intros c ev a c' ev' E I. unfold maybeRetransmit in E.
  apply bind_eq in E as [cg [c0 [ev0 [Eg E]]]]. apply get_eq in Eg. injection Eg as -> -> ->.
  apply if_eq in E as [[_ E]|[_ E]]; [apply ret_eq in E; injection E as -> -> _; split; [exact I|constructor]|].
  cbv zeta in E. revert E.
  match goal with |- ?m c ev = _ -> _ => assert (Hm : pv m) end.
  { destruct I as [Q _]. apply pv_bind; [apply pv_modify; intros ? ?; solve [sinv]|intros ? ?].
    apply pv_bind; [apply pv_retransmit_loop; [exact Q|constructor]|intros ? ?]. pv_tac. }
  intros E. exact (Hm _ _ _ _ _ E I).
Qed.
#[local] Hint Resolve pv_maybeRetransmit : pv.
Lemma pv_retransmitAfterAKE n : pv (retransmitAfterAKE n). Proof. unfold retransmitAfterAKE. pv_tac. Qed.
#[local] Hint Resolve pv_retransmitAfterAKE : pv.

Lemma pv_set_ake f : (forall a, okl (wires (a_revealSigMsg a)) -> okl (wires (a_revealSigMsg (f a)))) -> pv (set_ake f).
Proof.
  intros H c ev a c' ev' E I. unfold set_ake, modify in E. injection E as _ <- _. split; [|constructor].
  destruct I as [Q I]. split; [exact Q|].
  unfold wires, W_conv, reveal_of in *. cbn. apply okl_app in I as [I1 I2]. apply okl_app. split; [exact I1|].
  destruct (c_ake c) as [a0|]; [apply H; exact I2 | constructor].
Qed.
Ltac pv_tac2 :=
  repeat first
  [ solve [auto with pv]
  | progress cbv zeta
  | apply pv_get | apply pv_fresh | apply pv_event | apply pv_evs
  | (apply pv_ret; solve [cw])
  | (apply pv_set_ake; intros ? ?; cbn; solve [cw])
  | (apply pv_modify; intros ? ?; solve [sinv])
  | (apply pv_pure; intros ? ? ?; solve [cw])
  | (apply pv_bind; [|intros ? ?])
  | match goal with
    | |- pv (if ?b then _ else _) => destruct b
    | |- pv (match ?x with _ => _ end) => destruct x
    | |- pv (let '(_, _) := ?x in _) => destruct x
    end ].

Lemma pv_sendDHCommit : pv sendDHCommit. Proof. unfold sendDHCommit. pv_tac2. Qed.
#[local] Hint Resolve pv_sendDHCommit : pv.
Lemma pv_calcAKEKeys s : pv (calcAKEKeys s). Proof. unfold calcAKEKeys. pv_tac2. Qed.
#[local] Hint Resolve pv_calcAKEKeys : pv.
Lemma pv_setSentRevealSig s : pv (setSentRevealSig s). Proof. unfold setSentRevealSig. pv_tac2. Qed.
#[local] Hint Resolve pv_setSentRevealSig : pv.
Lemma pv_generateEncryptedSignature s : pv (generateEncryptedSignature s). Proof. unfold generateEncryptedSignature. pv_tac2. Qed.
#[local] Hint Resolve pv_generateEncryptedSignature : pv.
Lemma pv_processEncryptedSig a b s : pv (processEncryptedSig a b s). Proof. unfold processEncryptedSig. pv_tac2. Qed.
#[local] Hint Resolve pv_processEncryptedSig : pv.
Lemma pv_akeHasFinished now : pv (akeHasFinished now). Proof. unfold akeHasFinished. pv_tac2. Qed.
#[local] Hint Resolve pv_akeHasFinished : pv.
Lemma pv_receiveDHCommit_none b : pv (receiveDHCommit_none b). Proof. unfold receiveDHCommit_none. pv_tac2. Qed.
#[local] Hint Resolve pv_receiveDHCommit_none : pv.

Lemma okl_reveal (c : conv) : okl (wires c) -> okl (wires (a_revealSigMsg (the_ake c))).
Proof.
  unfold wires, W_conv, reveal_of, the_ake. intros H. apply okl_app in H as [_ H].
  destruct (c_ake c); [exact H | constructor].
Qed.

Ltac pv_tac3 :=
  repeat first
  [ solve [auto with pv]
  | progress cbv zeta
  | apply pv_get | apply pv_fresh | apply pv_event | apply pv_evs
  | (apply pv_ret; solve [cw])
  | (apply pv_ret; match goal with H : okl (wires ?c) |- context [a_revealSigMsg (the_ake ?c)] => pose proof (okl_reveal c H) end; solve [cw])
  | (apply pv_set_ake; intros ? ?; cbn; solve [cw])
  | (apply pv_modify; intros ? ?; solve [sinv])
  | (apply pv_pure; intros ? ? ?; solve [cw])
  | (apply pv_bind; [|intros ? ?])
  | match goal with
    | |- pv (if ?b then _ else _) => destruct b
    | |- pv (match ?x with _ => _ end) => destruct x
    | |- pv (let '(_, _) := ?x in _) => destruct x
    end ].

Lemma pv_processAKE_body now ty body aux : pv (processAKE_body now ty body aux).
Proof. unfold processAKE_body. pv_tac3. Qed.
#[local] Hint Resolve pv_processAKE_body : pv.

Lemma pv_processAKE now ty body aux : pv (processAKE now ty body aux).
Proof. unfold processAKE. pv_tac3. Qed.
#[local] Hint Resolve pv_processAKE : pv.
Lemma pv_processTLVs rnd tlvs : forall x acc, pv (processTLVs rnd tlvs x acc).
Proof.
  induction tlvs as [|t r IH]; intros x acc; cbn [processTLVs]; [pv_tac3|].
  destruct t; pv_tac3; try apply IH.
Qed.
#[local] Hint Resolve pv_processTLVs : pv.
Lemma pv_processDataMessage now d rnd : pv (processDataMessage now d rnd).
Proof. unfold processDataMessage. pv_tac3. Qed.
#[local] Hint Resolve pv_processDataMessage : pv.
Lemma pv_potentialHeartbeat now p : pv (potentialHeartbeat now p). Proof. unfold potentialHeartbeat. pv_tac3. Qed.
#[local] Hint Resolve pv_potentialHeartbeat : pv.
Lemma pv_receiveDataMessage now d rnd : pv (receiveDataMessage now d rnd).
Proof. unfold receiveDataMessage. pv_tac3. Qed.
#[local] Hint Resolve pv_receiveDataMessage : pv.
Lemma pv_checkPlaintextPolicies : pv checkPlaintextPolicies. Proof. unfold checkPlaintextPolicies. pv_tac3. Qed.
#[local] Hint Resolve pv_checkPlaintextPolicies : pv.
Lemma pv_receiveQueryMessage now v : pv (receiveQueryMessage now v). Proof. unfold receiveQueryMessage. pv_tac3. Qed.
#[local] Hint Resolve pv_receiveQueryMessage : pv.
Lemma pv_receiveDecoded now ver stag rtag body aux rnd : pv (receiveDecoded now ver stag rtag body aux rnd).
Proof. unfold receiveDecoded. pv_tac3. Qed.
#[local] Hint Resolve pv_receiveDecoded : pv.
Lemma pv_forgetVersion b e : pv (forgetVersion b e). Proof. unfold forgetVersion. pv_tac3. Qed.
#[local] Hint Resolve pv_forgetVersion : pv.
Lemma pv_forgetTag b e : pv (forgetTag b e). Proof. unfold forgetTag. pv_tac3. Qed.
#[local] Hint Resolve pv_forgetTag : pv.

Ltac pv_tac4 :=
  repeat first
  [ solve [auto with pv]
  | progress cbv zeta
  | apply pv_get | apply pv_fresh | apply pv_event | apply pv_evs
  | (apply pv_ret; solve [cw])
  | (apply pv_withInjects; solve [cw])
  | (apply pv_set_ake; intros ? ?; cbn; solve [cw])
  | (apply pv_modify; intros ? ?; solve [sinv])
  | (apply pv_pure; intros ? ? ?; solve [cw])
  | (apply pv_bind; [|intros ? ?])
  | match goal with
    | |- pv (if ?b then _ else _) => destruct b
    | |- pv (match ?x with _ => _ end) => destruct x
    | |- pv (let '(_, _) := ?x in _) => destruct x
    end ].

Lemma pv_finish p o e : okl o -> pv (finish p o e).
Proof. intros Ho. unfold finish. pv_tac4. Qed.
Lemma pv_finishSend o e : okl o -> pv (finishSend o e).
Proof. intros Ho. unfold finishSend. pv_tac4. Qed.

Lemma pv_receive now w aux rnd : pv (receive now w aux rnd).
Proof. unfold receive. pv_tac4; apply pv_finish; cw. Qed.
Lemma pv_endConv now : pv (endConv now). Proof. unfold endConv. pv_tac4. Qed.
Lemma pv_userSMP now s rnd : pv (userSMP now s rnd). Proof. unfold userSMP. pv_tac4. Qed.
Lemma pv_sendTLVs now t : pv (sendTLVs now t). Proof. unfold sendTLVs. pv_tac4. Qed.
Lemma pv_useExtraKey now u d : pv (useExtraKey now u d). Proof. unfold useExtraKey. pv_tac4. Qed.


Lemma pv_send now t : In t S -> pv (send now t).
Proof.
  intros Ht. assert (Hto : text_ok t) by (right; left; exact Ht).
  assert (Hc : forall n f l, pv (createSerializedDataMessage n t f l)) by (intros; apply pv_createSerializedDataMessage; right; exact Ht).
  unfold send. pv_tac4.
  all: try (apply pv_finishSend; solve [cw]).
  apply pv_modify. intros c1 [Q W]. split; [|exact W].
  cbn. apply Forall_app. split; [exact Q|]. constructor; [exact Ht|constructor].
Qed.

Lemma pv_step now op : (match op with CSend t => In t S | _ => True end) ->
  forall c, PInv c -> let '(c', r) := step now c op in PInv c' /\ okl (r_out r).
Proof.
  intros Hop c I. unfold step. destruct op as [t|w aux rnd| |s rnd|u d|tlvs].
  - destruct (send now t c []) as [[r c'] ev'] eqn:E. exact (pv_send now t Hop _ _ _ _ _ E I).
  - destruct (receive now w aux rnd c []) as [[r c'] ev'] eqn:E. exact (pv_receive now w aux rnd _ _ _ _ _ E I).
  - destruct (endConv now c []) as [[r c'] ev'] eqn:E. exact (pv_endConv now _ _ _ _ _ E I).
  - destruct (userSMP now s rnd c []) as [[r c'] ev'] eqn:E. exact (pv_userSMP now s rnd _ _ _ _ _ E I).
  - destruct (useExtraKey now u d c []) as [[r c'] ev'] eqn:E. exact (pv_useExtraKey now u d _ _ _ _ _ E I).
  - destruct (sendTLVs now tlvs c []) as [[r c'] ev'] eqn:E. exact (pv_sendTLVs now tlvs _ _ _ _ _ E I).
Qed.
End Prov.

(* more texts given to Send: everything stays fine *)
Lemma text_ok_mono S S' t : incl S S' -> text_ok S t -> text_ok S' t.
Proof. intros Hi [H|[H|[t0 [H1 H2]]]]; [left; exact H|right; left; exact (Hi _ H)|right; right; exists t0; auto]. Qed.
Lemma okl_mono S S' l : incl S S' -> okl S l -> okl S' l.
Proof.
  intros Hi H. unfold okl in *. eapply Forall_impl; [|exact H]. intros w Hw.
  destruct w as [t tag| | |v s r b| | |]; try exact Hw; [exact (text_ok_mono _ _ _ Hi Hw)|].
  destruct b; try exact Hw. exact (text_ok_mono _ _ _ Hi Hw).
Qed.
Lemma PInv_mono S S' c : incl S S' -> PInv S c -> PInv S' c.
Proof.
  intros Hi [Q W]. split; [|exact (okl_mono _ _ _ Hi W)].
  eapply Forall_impl; [|exact Q]. intros m Hm. exact (Hi _ Hm).
Qed.

(* the texts given to Send in a history *)
Definition sent_by (op : call) : list bytes := match op with CSend t => [t] | _ => [] end.
(* every call of a history: what it puts on the wire carries only texts given to Send up to and including this call *)
Fixpoint all_provenance (S : list bytes) (c : conv) (h : list (N * call)) : Prop :=
  match h with
  | [] => True
  | (now, op) :: r =>
      let S1 := sent_by op ++ S in
      let '(c1, res) := step now c op in okl S1 (r_out res) /\ all_provenance S1 c1 r
  end.

Theorem history_provenance h : forall S c, PInv S c -> all_provenance S c h.
Proof.
  induction h as [|[now op] r IH]; intros S c I; cbn [all_provenance]; [exact Logic.I|].
  set (S1 := sent_by op ++ S).
  assert (I1 : PInv S1 c) by (apply (PInv_mono S); [apply incl_appr, incl_refl|exact I]).
  assert (Hop : match op with CSend t => In t S1 | _ => True end) by (destruct op; try exact Logic.I; left; reflexivity).
  pose proof (pv_step S1 now op Hop c I1) as H. destruct (step now c op) as [c1 res]. destruct H as [I2 P].
  split; [exact P | apply IH; exact I2].
Qed.

Lemma PInv_init who pol key : PInv [] (conv_init who pol key).
Proof. split; constructor. Qed.

(* C18, texts on the wire: in every history of a new conversation, whatever it is sent and whatever the user does, every
   text that leaves - in the clear, as payload of a data message, released from the queue after a key exchange or sent
   again on the peer's request - is empty (heartbeats, TLV carriers), a text the user has given to Send up to that
   call, or such a text behind the resend marker *)
Theorem only_sent_texts_travel who pol key h : all_provenance [] (conv_init who pol key) h.
Proof. apply history_provenance, PInv_init. Qed.
