(* C20 — package-level state.
   1. [safe]: the decision rule over the generated table Gen/Globals.v (every place where memory reachable from a
      package-level variable may be written or handed out).
   2. a model of Go slices over a store of arrays: [append] on a slice without spare capacity never writes the
      array the slice points to.
   3. a system of conversations over a read-only shared part: every interleaving gives each conversation the
      trace it has alone. *)
From Coq Require Import String List Bool Arith NArith Lia.
From OTR Require Import Gen.Globals.
Import ListNotations.

(* ---------- 1. the decision rule ---------- *)
Open Scope string_scope.

(* package-level byte slices that are used as append prefixes; the harness checks on every run, through the hook
   VerifGlobalSlices, that each of them has len = cap in the running program *)
Definition exact_cap_vars : list string :=
  ["msgMarker"; "errorMarker"; "dsaKeyType"; "defaultResentPrefix"; "whitespaceTagHeader"].

Definition mem (x : string) (l : list string) : bool := existsb (String.eqb x) l.

Fixpoint has_suffix (suf s : string) : bool :=
  if String.eqb suf s then true
  else match s with EmptyString => false | String _ r => has_suffix suf r end.

Definition in_init (w : gwrite) : bool :=
  existsb (fun '(p, f) => String.eqb p (gw_pkg w) && String.eqb f (gw_fn w)) init_only_functions.

(* a record is harmless when
   - it is in a function that only runs during package initialisation (before any conversation exists), or
   - it is the once-only notification guarded by sync.Once, or
   - it concerns an exact-capacity slice and is an [append] with that slice (or the result of such an append) as
     prefix — by [append_exact_cap_preserves] below this allocates — or hands out the result of such an append, or
     returns the slice itself from an unexported function (the callers are analysed in turn). *)
Definition safe (w : gwrite) : bool :=
  in_init w
  || String.eqb (gw_kind w) "sync-once"
  || (mem (gw_var w) exact_cap_vars
      && (prefix "append-prefix" (gw_kind w)
          || (prefix "escape:" (gw_kind w)
              && (has_suffix "@appended" (gw_kind w)
                  || (negb (gw_exported w) && String.eqb (gw_kind w) "escape:returned"))))).

Definition unsafe_writes : list gwrite := filter (fun w => negb (safe w)) global_writes.

(* every variable that is used as an append prefix is one whose capacity the harness checks *)
Definition append_prefix_vars : list string :=
  map gw_var (filter (fun w => prefix "append-prefix" (gw_kind w) && negb (in_init w)) global_writes).

Close Scope string_scope.
Close Scope string_scope.
Open Scope list_scope.

(* ---------- 2. slices ---------- *)
Section Slices.
  Variable A : Type.

  (* a store of arrays; a slice is (array, offset, length, capacity) with offset + capacity <= array length *)
  Definition store := list (list A).
  Record slice := { s_arr : nat; s_off : nat; s_len : nat; s_cap : nat }.

  Definition arr (m : store) (i : nat) : list A := nth i m [].
  Definition contents (m : store) (s : slice) : list A := firstn (s_len s) (skipn (s_off s) (arr m (s_arr s))).

  Fixpoint write_at (l : list A) (pos : nat) (xs : list A) : list A :=
    match pos, l with
    | O, _ => xs ++ skipn (length xs) l
    | S p, y :: r => y :: write_at r p xs
    | S p, [] => []
    end.

  Fixpoint set_arr (m : store) (i : nat) (a : list A) : store :=
    match m, i with
    | [], _ => []
    | _ :: r, O => a :: r
    | x :: r, S j => x :: set_arr r j a
    end.

  (* Go's append: in place when the capacity suffices, otherwise a new array (its capacity is the new length
     here; the runtime may round up, which only matters for the *new* array) *)
  Definition append (m : store) (s : slice) (xs : list A) : store * slice :=
    if Nat.leb (s_len s + length xs) (s_cap s) then
      (set_arr m (s_arr s) (write_at (arr m (s_arr s)) (s_off s + s_len s) xs),
       {| s_arr := s_arr s; s_off := s_off s; s_len := s_len s + length xs; s_cap := s_cap s |})
    else
      (m ++ [contents m s ++ xs],
       {| s_arr := length m; s_off := 0; s_len := s_len s + length xs; s_cap := s_len s + length xs |}).

  Lemma write_at_nil l pos : pos <= length l -> write_at l pos [] = l.
  Proof.
    revert pos; induction l as [|y r IH]; intros [|p] H; simpl in *; auto; try lia.
    f_equal. apply IH. lia.
  Qed.

  Lemma set_arr_same m i : set_arr m i (arr m i) = m.
  Proof.
    revert i; induction m as [|x r IH]; intros [|j]; simpl; auto.
    unfold arr in *. simpl. f_equal. apply IH.
  Qed.

  Lemma arr_app_old m extra i : i < length m -> arr (m ++ extra) i = arr m i.
  Proof. intros H. unfold arr. apply app_nth1. exact H. Qed.

  (* a slice without spare capacity: append never changes any array that existed before *)
  Theorem append_exact_cap_preserves m s xs :
    s_cap s = s_len s -> s_off s + s_len s <= length (arr m (s_arr s)) ->
    forall i, i < length m -> arr (fst (append m s xs)) i = arr m i.
  Proof.
    intros Hc Hb i Hi. unfold append.
    destruct (Nat.leb (s_len s + length xs) (s_cap s)) eqn:E.
    - apply Nat.leb_le in E. assert (length xs = 0) by lia.
      destruct xs; [|discriminate]. simpl fst.
      rewrite write_at_nil by exact Hb. rewrite set_arr_same. reflexivity.
    - simpl fst. apply arr_app_old. exact Hi.
  Qed.

  (* and what it returns has the old contents followed by the new elements *)
  Theorem append_exact_cap_contents m s xs :
    s_cap s = s_len s -> xs <> [] ->
    contents (fst (append m s xs)) (snd (append m s xs)) = contents m s ++ xs.
  Proof.
    intros Hc Hx. unfold append.
    destruct (Nat.leb (s_len s + length xs) (s_cap s)) eqn:E.
    - apply Nat.leb_le in E. destruct xs; [congruence|simpl in E; lia].
    - simpl. unfold contents at 1. simpl. unfold arr. rewrite nth_middle.
      assert (L : length (contents m s) <= s_len s) by (unfold contents; rewrite firstn_length; lia).
      rewrite firstn_all2; [reflexivity|]. rewrite app_length. lia.
  Qed.

  (* with spare capacity the same call does write the shared array: this is what the capacity check is about *)
  Example append_spare_cap_writes (a b x : A) :
    arr (fst (append [[a; b]] {| s_arr := 0; s_off := 0; s_len := 1; s_cap := 2 |} [x])) 0 = [a; x].
  Proof. reflexivity. Qed.
End Slices.

(* ---------- 3. conversations over a read-only shared part ---------- *)
Section Interleaving.
  Variables (shared conv input output : Type).
  (* one API call on one conversation: reads the shared part, returns the conversation's new state *)
  Variable step : shared -> conv -> input -> conv * output.

  Fixpoint upd (l : list conv) (i : nat) (c : conv) : list conv :=
    match l, i with
    | [], _ => []
    | _ :: r, O => c :: r
    | x :: r, S j => x :: upd r j c
    end.

  (* a schedule is a sequence of (conversation index, input); the run logs (index, output) *)
  Fixpoint run (g : shared) (cs : list conv) (sched : list (nat * input)) : list conv * list (nat * output) :=
    match sched with
    | [] => (cs, [])
    | (i, x) :: rest =>
        match nth_error cs i with
        | None => run g cs rest
        | Some c => let '(c', o) := step g c x in
                    let '(cs', log) := run g (upd cs i c') rest in (cs', (i, o) :: log)
        end
    end.

  Fixpoint alone (g : shared) (c : conv) (xs : list input) : conv * list output :=
    match xs with
    | [] => (c, [])
    | x :: rest => let '(c', o) := step g c x in let '(c'', log) := alone g c' rest in (c'', o :: log)
    end.

  Definition proj {B} (i : nat) (l : list (nat * B)) : list B :=
    map snd (filter (fun p => Nat.eqb (fst p) i) l).

  Lemma nth_error_upd_same l i c : i < length l -> nth_error (upd l i c) i = Some c.
  Proof. revert i; induction l as [|x r IH]; intros [|j] H; simpl in *; try lia; auto. apply IH. lia. Qed.

  Lemma nth_error_upd_other l i j c : i <> j -> nth_error (upd l i c) j = nth_error l j.
  Proof. revert i j; induction l as [|x r IH]; intros [|i] [|j] H; simpl; auto; try congruence. Qed.

  Lemma upd_length l i c : length (upd l i c) = length l.
  Proof. revert i; induction l as [|x r IH]; intros [|j]; simpl; auto. Qed.

  Lemma proj_cons_eq {B} k (x : B) l : proj k ((k, x) :: l) = x :: proj k l.
  Proof. unfold proj. simpl. rewrite Nat.eqb_refl. reflexivity. Qed.
  Lemma proj_cons_neq {B} i k (x : B) l : i <> k -> proj k ((i, x) :: l) = proj k l.
  Proof. intros H. unfold proj. simpl. apply Nat.eqb_neq in H. rewrite H. reflexivity. Qed.

  (* whatever the interleaving, conversation k ends in the state, and produces the outputs, it has when the
     calls addressed to it are made with nothing else running *)
  Theorem interleaving_eq_sequential g sched : forall cs k c,
    nth_error cs k = Some c ->
    nth_error (fst (run g cs sched)) k = Some (fst (alone g c (proj k sched))) /\
    proj k (snd (run g cs sched)) = snd (alone g c (proj k sched)).
  Proof.
    induction sched as [|[i x] rest IH]; intros cs k c Hk.
    - simpl. split; [exact Hk|reflexivity].
    - cbn [run]. destruct (nth_error cs i) as [ci|] eqn:Ei.
      + destruct (step g ci x) as [ci' o] eqn:Es.
        destruct (run g (upd cs i ci') rest) as [cs' log] eqn:Er.
        destruct (Nat.eq_dec i k) as [->|Hik].
        * rewrite Hk in Ei. inversion Ei; subst ci.
          rewrite !proj_cons_eq. cbn [alone]. rewrite Es.
          assert (Hlen : k < length cs) by (apply nth_error_Some; congruence).
          specialize (IH (upd cs k ci') k ci' (nth_error_upd_same cs k ci' Hlen)).
          rewrite Er in IH. destruct IH as [IH1 IH2].
          destruct (alone g ci' (proj k rest)) as [c'' l''] eqn:Ea. cbn [fst snd] in *.
          rewrite proj_cons_eq. split; [exact IH1|]. f_equal. exact IH2.
        * assert (Hk' : nth_error (upd cs i ci') k = Some c) by (rewrite nth_error_upd_other; auto).
          specialize (IH (upd cs i ci') k c Hk'). rewrite Er in IH. destruct IH as [IH1 IH2].
          cbn [fst snd] in *. rewrite !proj_cons_neq by exact Hik. split; [exact IH1|exact IH2].
      + destruct (Nat.eq_dec i k) as [->|Hik]; [congruence|].
        rewrite proj_cons_neq by exact Hik. apply IH. exact Hk.
  Qed.
End Interleaving.
