(* C09, first half, over whole histories and at the level of key values: whatever a party has waiting for disclosure -
   which is exactly what its next data message discloses (KeysProofs.gen_discloses_all_pending) - is a MAC key that the
   party itself no longer accepts anything under: no key pair it can still look up yields that key.

   The invariant: every recorded MAC key is the receiving key of two exponents that are both still in the window under
   the ids it is recorded for; every waiting key is the receiving key of two exponents of which at least one has left
   the window for good.  "For good" needs what the protocol needs: the exponents a party draws are new, and the next
   keys the peer announces are new (a peer that announces an old key again gives away the authenticity of its own
   messages; nothing the discloser can do about it).  Own exponents and the peer's public values are kept apart by
   parity, as in Proto/RatchetKeys.v. *)
From OTR Require Import Go.Base Proto.SmpTypes Proto.Keys Proto.KeysProofs Proto.ReplayProofs Proto.DiscloseProofs Proto.Ratchet Proto.RatchetKeys.
From Coq Require Import ZifyBool ZifyN.
Open Scope N_scope.

Definition keyof (eo et : eid) : skey := receivingKey (calcSessionKeys eo et).
Definition ours (e : eid) : Prop := N.even e = true.
Definition theirs (e : eid) : Prop := N.even e = false.

Lemma mk_shared_inj a b a' b' : mk_shared a b = mk_shared a' b' -> (a = a' /\ b = b') \/ (a = b' /\ b = a').
Proof.
  unfold mk_shared. destruct (N.leb_spec a b), (N.leb_spec a' b'); intros E; injection E as E1 E2; subst; auto.
Qed.
Lemma keyof_inj eo et eo' et' : ours eo -> theirs et -> ours eo' -> theirs et' ->
  keyof eo et = keyof eo' et' -> eo = eo' /\ et = et'.
Proof.
  unfold ours, theirs, keyof, calcSessionKeys. intros Ho Ht Ho' Ht' H.
  assert (Hs : mk_shared eo et = mk_shared eo' et').
  { destruct (et <? eo), (et' <? eo'); cbn in H; injection H; auto. }
  destruct (mk_shared_inj _ _ _ _ Hs) as [[-> ->]|[-> ->]]; [auto|]. congruence.
Qed.

Definition win_our (k : keyctx) (e : eid) : Prop := ourCurrent k = Some e \/ ourPrevious k = Some e.
Definition win_their (k : keyctx) (e : eid) : Prop := theirCurrent k = Some e \/ theirPrevious k = Some e.

Lemma key_at_win k id e : key_at k id = Some e -> win_our k e.
Proof. unfold key_at, win_our. destruct (id =? ourKeyID k); [auto|]. destruct (id + 1 =? ourKeyID k); [auto|discriminate]. Qed.
Lemma peer_at_win k id e : peer_at k id = Some e -> win_their k e.
Proof. unfold peer_at, win_their. destruct (id =? theirKeyID k); [auto|]. destruct (id + 1 =? theirKeyID k); [auto|discriminate]. Qed.

(* a pair that can be looked up is a pair of window exponents *)
Lemma sessionKeysFor_inv k o t keys : sessionKeysFor k o t = Ok keys ->
  exists eo et, key_at k o = Some eo /\ peer_at k t = Some et /\ keys = calcSessionKeys eo et.
Proof.
  unfold sessionKeysFor, pickOurKeys, pickTheirKey, key_at, peer_at.
  destruct (N.eqb_spec o 0); cbn [orb bindR]; [discriminate|].
  destruct (N.eqb_spec (ourKeyID k) 0); cbn [orb bindR]; [discriminate|].
  destruct (N.eqb_spec o (ourKeyID k)) as [E1|E1].
  - destruct (ourCurrent k) as [eo|]; cbn [bindR]; [|discriminate].
    destruct (N.eqb_spec t 0); cbn [orb bindR]; [discriminate|].
    destruct (N.eqb_spec (theirKeyID k) 0); cbn [orb bindR]; [discriminate|].
    destruct (N.eqb_spec t (theirKeyID k)) as [F1|F1].
    + destruct (theirCurrent k) as [et|]; cbn [bindR]; [|discriminate]. intros H. injection H as <-. eauto.
    + destruct (N.eqb_spec t (theirKeyID k - 1)) as [F2|F2]; [|discriminate].
      destruct (theirPrevious k) as [et|]; cbn [bindR]; [|discriminate]. intros H. injection H as <-.
      destruct (N.eqb_spec (t + 1) (theirKeyID k)); [eauto|lia].
  - destruct (N.eqb_spec o (ourKeyID k - 1)) as [E2|E2]; [|discriminate].
    destruct (ourPrevious k) as [eo|]; cbn [bindR]; [|discriminate].
    destruct (N.eqb_spec (o + 1) (ourKeyID k)); [|lia].
    destruct (N.eqb_spec t 0); cbn [orb bindR]; [discriminate|].
    destruct (N.eqb_spec (theirKeyID k) 0); cbn [orb bindR]; [discriminate|].
    destruct (N.eqb_spec t (theirKeyID k)) as [F1|F1].
    + destruct (theirCurrent k) as [et|]; cbn [bindR]; [|discriminate]. intros H. injection H as <-. eauto.
    + destruct (N.eqb_spec t (theirKeyID k - 1)) as [F2|F2]; [|discriminate].
      destruct (theirPrevious k) as [et|]; cbn [bindR]; [|discriminate]. intros H. injection H as <-.
      destruct (N.eqb_spec (t + 1) (theirKeyID k)); [eauto|lia].
Qed.

Record DInv (k : keyctx) (RO RT : list eid) : Prop := {
  di_hist : forall u, In u (macHistory k) ->
            exists eo et, key_at k (mu_our u) = Some eo /\ peer_at k (mu_their u) = Some et /\ mu_key u = keyof eo et;
  di_pend : forall key, In key (oldMACKeys k) ->
            exists eo et, ours eo /\ theirs et /\ key = keyof eo et /\ (In eo RO \/ In et RT);
  di_ro : forall e, In e RO -> ~ win_our k e;
  di_rt : forall e, In e RT -> ~ win_their k e;
  di_wo : forall e, win_our k e -> ours e;
  di_wt : forall e, win_their k e -> theirs e;
  di_od : forall e, ourCurrent k = Some e -> ourPrevious k <> Some e;
  di_td : forall e, theirCurrent k = Some e -> theirPrevious k <> Some e;
  di_oid : 1 <= ourKeyID k;
  di_tid : 1 <= theirKeyID k
}.

(* what the invariant is for: nothing that waits for disclosure is still accepted *)
Theorem pending_not_accepted k RO RT : DInv k RO RT ->
  forall key, In key (oldMACKeys k) -> forall o t keys, sessionKeysFor k o t = Ok keys -> receivingKey keys <> key.
Proof.
  intros I key Hk o t keys Hs Heq.
  destruct (di_pend _ _ _ I key Hk) as [eo [et [Ho [Ht [-> Hr]]]]].
  destruct (sessionKeysFor_inv _ _ _ _ Hs) as [eo' [et' [Ko [Kt ->]]]].
  pose proof (key_at_win _ _ _ Ko) as Wo. pose proof (peer_at_win _ _ _ Kt) as Wt.
  destruct (keyof_inj eo' et' eo et (di_wo _ _ _ I _ Wo) (di_wt _ _ _ I _ Wt) Ho Ht Heq) as [-> ->].
  destruct Hr as [Hr|Hr]; [exact (di_ro _ _ _ I _ Hr Wo) | exact (di_rt _ _ _ I _ Hr Wt)].
Qed.

(* ---- the steps ---- *)
Lemma DInv_counters k cs RO RT : DInv k RO RT -> DInv (set_counters k cs) RO RT.
Proof. intros [H1 H2 H3 H4 H5 H6 H7 H8 H9 H10]. constructor; assumption. Qed.

Lemma DInv_addKeys k o t keys RO RT : DInv k RO RT -> sessionKeysFor k o t = Ok keys ->
  DInv (addKeys k o t (receivingKey keys)) RO RT.
Proof.
  intros I Hs. unfold addKeys. destruct (has_mac_entry _ _ _); [exact I|].
  destruct I as [H1 H2 H3 H4 H5 H6 H7 H8 H9 H10]. constructor; try assumption.
  intros u Hu. cbn [macHistory set_macHistory] in Hu. apply in_app_or in Hu as [Hu|[<-|[]]]; [exact (H1 u Hu)|].
  destruct (sessionKeysFor_inv _ _ _ _ Hs) as [eo [et [Ko [Kt ->]]]]. exists eo, et. auto.
Qed.

Lemma DInv_rotateOur k rk x RO RT : DInv k RO RT -> ours x -> ~ win_our k x -> ~ In x RO ->
  exists RO', DInv (rotateOurKeys k rk x) RO' RT /\ (forall e, In e RO' -> In e RO \/ win_our k e) /\
              (forall e, win_our (rotateOurKeys k rk x) e -> e = x \/ win_our k e) /\
              (rk <> ourKeyID k -> rotateOurKeys k rk x = k).
Proof.
  intros I Hx Hxw Hxr. unfold rotateOurKeys. destruct (N.eqb_spec rk (ourKeyID k)) as [E|E].
  2:{ exists RO. split; [exact I|]. repeat split; auto. }
  destruct I as [H1 H2 H3 H4 H5 H6 H7 H8 H9 H10].
  set (ret := ourKeyID k - 1). unfold forgetMACKeys.
  exists (match ourPrevious k with Some p => p :: RO | None => RO end).
  split; [constructor|split; [|split; [|contradiction]]].
  - (* recorded keys *)
    cbn [macHistory]. intros u Hu. apply filter_In in Hu as [Hu Hf]. apply negb_true_iff, N.eqb_neq in Hf.
    destruct (H1 u Hu) as [eo [et [Ko [Kt Hk]]]]. exists eo, et. split; [|split; [exact Kt|exact Hk]].
    revert Ko. unfold key_at. cbn [ourKeyID ourCurrent ourPrevious].
    destruct (N.eqb_spec (mu_our u) (ourKeyID k)) as [A|A].
    + intros Ko. destruct (N.eqb_spec (mu_our u) (ourKeyID k + 1)); [lia|].
      destruct (N.eqb_spec (mu_our u + 1) (ourKeyID k + 1)); [exact Ko|lia].
    + destruct (N.eqb_spec (mu_our u + 1) (ourKeyID k)); [|discriminate]. subst ret. lia.
  - (* waiting keys *)
    cbn [oldMACKeys]. intros key Hk. apply in_app_or in Hk as [Hk|Hk].
    + destruct (H2 key Hk) as [eo [et [A [B [C D]]]]]. exists eo, et. repeat split; auto.
      destruct D as [D|D]; [left|right; exact D]. destruct (ourPrevious k); [right; exact D|exact D].
    + apply in_map_iff in Hk as [u [<- Hu]]. apply filter_In in Hu as [Hu Hf]. apply N.eqb_eq in Hf.
      destruct (H1 u Hu) as [eo [et [Ko [Kt Hk]]]]. exists eo, et.
      split; [exact (H5 _ (key_at_win _ _ _ Ko))|]. split; [exact (H6 _ (peer_at_win _ _ _ Kt))|]. split; [exact Hk|].
      left. revert Ko. unfold key_at. destruct (N.eqb_spec (mu_our u) (ourKeyID k)); [subst ret; lia|].
      destruct (N.eqb_spec (mu_our u + 1) (ourKeyID k)); [|discriminate]. intros ->. left. reflexivity.
  - (* retired exponents are outside the new window *)
    intros e He [W|W]; cbn [ourCurrent ourPrevious] in W.
    + injection W as <-. destruct (ourPrevious k) as [p|] eqn:Ep.
      * destruct He as [<-|He]; [apply Hxw; right; exact Ep|exact (Hxr He)].
      * exact (Hxr He).
    + destruct (ourPrevious k) as [p|] eqn:Ep.
      * destruct He as [<-|He]; [exact (H7 _ W eq_refl)|exact (H3 _ He (or_introl W))].
      * exact (H3 _ He (or_introl W)).
  - exact H4.
  - intros e [W|W]; cbn [ourCurrent ourPrevious] in W; [injection W as <-; exact Hx|exact (H5 _ (or_introl W))].
  - exact H6.
  - cbn [ourCurrent ourPrevious]. intros e W Wp. injection W as <-. apply Hxw. left. exact Wp.
  - exact H8.
  - cbn [ourKeyID]. lia.
  - exact H10.
  - intros e He. destruct (ourPrevious k) as [p|] eqn:Ep; [|left; exact He].
    destruct He as [<-|He]; [right; right; exact Ep|left; exact He].
  - intros e [W|W]; cbn [ourCurrent ourPrevious] in W; [injection W as <-; left; reflexivity|right; left; exact W].
Qed.

Lemma DInv_rotateTheir k sk y RO RT : DInv k RO RT -> theirs y -> ~ win_their k y -> ~ In y RT ->
  exists RT', DInv (rotateTheirKey k sk y) RO RT' /\ (forall e, In e RT' -> In e RT \/ win_their k e) /\
              (forall e, win_their (rotateTheirKey k sk y) e -> e = y \/ win_their k e) /\
              (forall e, win_our (rotateTheirKey k sk y) e <-> win_our k e) /\
              (sk <> theirKeyID k -> rotateTheirKey k sk y = k).
Proof.
  intros I Hx Hxw Hxr. unfold rotateTheirKey. destruct (N.eqb_spec sk (theirKeyID k)) as [E|E].
  2:{ exists RT. split; [exact I|]. repeat split; auto. }
  destruct I as [H1 H2 H3 H4 H5 H6 H7 H8 H9 H10].
  set (ret := theirKeyID k - 1). unfold forgetMACKeys.
  exists (match theirPrevious k with Some p => p :: RT | None => RT end).
  split; [constructor|split; [|split; [|split; [|contradiction]]]].
  - cbn [macHistory]. intros u Hu. apply filter_In in Hu as [Hu Hf]. apply negb_true_iff, N.eqb_neq in Hf.
    destruct (H1 u Hu) as [eo [et [Ko [Kt Hk]]]]. exists eo, et. split; [exact Ko|split; [|exact Hk]].
    revert Kt. unfold peer_at. cbn [theirKeyID theirCurrent theirPrevious].
    destruct (N.eqb_spec (mu_their u) (theirKeyID k)) as [A|A].
    + intros Kt. destruct (N.eqb_spec (mu_their u) (theirKeyID k + 1)); [lia|].
      destruct (N.eqb_spec (mu_their u + 1) (theirKeyID k + 1)); [exact Kt|lia].
    + destruct (N.eqb_spec (mu_their u + 1) (theirKeyID k)); [|discriminate]. subst ret. lia.
  - cbn [oldMACKeys]. intros key Hk. apply in_app_or in Hk as [Hk|Hk].
    + destruct (H2 key Hk) as [eo [et [A [B [C D]]]]]. exists eo, et. repeat split; auto.
      destruct D as [D|D]; [left; exact D|right]. destruct (theirPrevious k); [right; exact D|exact D].
    + apply in_map_iff in Hk as [u [<- Hu]]. apply filter_In in Hu as [Hu Hf]. apply N.eqb_eq in Hf.
      destruct (H1 u Hu) as [eo [et [Ko [Kt Hk]]]]. exists eo, et.
      split; [exact (H5 _ (key_at_win _ _ _ Ko))|]. split; [exact (H6 _ (peer_at_win _ _ _ Kt))|]. split; [exact Hk|].
      right. revert Kt. unfold peer_at. destruct (N.eqb_spec (mu_their u) (theirKeyID k)); [subst ret; lia|].
      destruct (N.eqb_spec (mu_their u + 1) (theirKeyID k)); [|discriminate]. intros ->. left. reflexivity.
  - exact H3.
  - intros e He [W|W]; cbn [theirCurrent theirPrevious] in W.
    + injection W as <-. destruct (theirPrevious k) as [p|] eqn:Ep.
      * destruct He as [<-|He]; [apply Hxw; right; exact Ep|exact (Hxr He)].
      * exact (Hxr He).
    + destruct (theirPrevious k) as [p|] eqn:Ep.
      * destruct He as [<-|He]; [exact (H8 _ W eq_refl)|exact (H4 _ He (or_introl W))].
      * exact (H4 _ He (or_introl W)).
  - exact H5.
  - intros e [W|W]; cbn [theirCurrent theirPrevious] in W; [injection W as <-; exact Hx|exact (H6 _ (or_introl W))].
  - exact H7.
  - cbn [theirCurrent theirPrevious]. intros e W Wp. injection W as <-. apply Hxw. left. exact Wp.
  - exact H9.
  - cbn [theirKeyID]. lia.
  - intros e He. destruct (theirPrevious k) as [p|] eqn:Ep; [|left; exact He].
    destruct He as [<-|He]; [right; right; exact Ep|left; exact He].
  - intros e [W|W]; cbn [theirCurrent theirPrevious] in W; [injection W as <-; left; reflexivity|right; left; exact W].
  - intros e. unfold win_our. cbn [ourCurrent ourPrevious]. tauto.
Qed.

Lemma checkMessageCounter_shape k rk sk ctr k1 : checkMessageCounter k rk sk ctr = Ok k1 -> exists cs, k1 = set_counters k cs.
Proof.
  unfold checkMessageCounter. destruct (find_counter _ _ _); [|discriminate].
  destruct (_ <=? _); [discriminate|]. intros H. injection H as <-. eexists. reflexivity.
Qed.

(* everything a party has ever used as an exponent / seen as a peer key: the sets new values are new against *)
Definition DI (k : keyctx) (UO UT : list eid) : Prop :=
  exists RO RT, DInv k RO RT /\ (forall e, In e RO -> In e UO) /\ (forall e, win_our k e -> In e UO) /\
                (forall e, In e RT -> In e UT) /\ (forall e, win_their k e -> In e UT).

Lemma DI_recv k d x pl k' xk UO UT : recvDataMsg k d x = Ok (pl, k', xk) -> DI k UO UT ->
  ours x -> ~ In x UO ->
  (af_sk (d_fields d) = theirKeyID k -> theirs (af_y (d_fields d)) /\ ~ In (af_y (d_fields d)) UT) ->
  DI k' (x :: UO) (af_y (d_fields d) :: UT).
Proof.
  unfold recvDataMsg. destruct (negb (d_wellformed d)); [discriminate|].
  set (f := d_fields d).
  destruct (sessionKeysFor k (af_rk f) (af_sk f)) as [keys| |] eqn:Es; cbn [bindR]; try discriminate.
  destruct (negb (mac_valid d (receivingKey keys))); [discriminate|].
  destruct (checkMessageCounter k (af_rk f) (af_sk f) (af_ctr f)) as [k1| |] eqn:Ec; cbn [bindR]; try discriminate.
  destruct (_ && _); [|discriminate]. intros H. injection H as _ <- _.
  intros [RO [RT [I [Ho [Hwo [Ht Hwt]]]]]] Hx Hxu Hy.
  destruct (checkMessageCounter_shape _ _ _ _ _ Ec) as [cs ->].
  assert (Es1 : sessionKeysFor (set_counters k cs) (af_rk f) (af_sk f) = Ok keys) by exact Es.
  pose proof (DInv_addKeys _ _ _ _ _ _ (DInv_counters k cs RO RT I) Es1) as I2.
  set (k2 := addKeys (set_counters k cs) (af_rk f) (af_sk f) (receivingKey keys)) in *.
  assert (S2 : keys_same k k2).
  { destruct (keys_same_addKeys (set_counters k cs) (af_rk f) (af_sk f) (receivingKey keys)). constructor; assumption. }
  assert (Wo2 : forall e, win_our k2 e <-> win_our k e).
  { intros e. unfold win_our. rewrite (ks_oc _ _ S2), (ks_op _ _ S2). tauto. }
  assert (Wt2 : forall e, win_their k2 e <-> win_their k e).
  { intros e. unfold win_their. rewrite (ks_tc _ _ S2), (ks_tp _ _ S2). tauto. }
  destruct (DInv_rotateOur k2 (af_rk f) x RO RT I2 Hx) as [RO' [I3 [Hro [Hwo3 _]]]].
  { intros W. apply Hxu, Hwo, Wo2, W. }
  { intros W. apply Hxu, Ho, W. }
  set (k3 := rotateOurKeys k2 (af_rk f) x) in *.
  assert (T3 : theirKeyID k3 = theirKeyID k /\ forall e, win_their k3 e <-> win_their k e).
  { unfold k3, rotateOurKeys. destruct (af_rk f =? ourKeyID k2).
    - destruct (forgetMACKeys _ _). unfold win_their. cbn [theirKeyID theirCurrent theirPrevious].
      rewrite (ks_their _ _ S2), (ks_tc _ _ S2), (ks_tp _ _ S2). split; [reflexivity|tauto].
    - split; [exact (ks_their _ _ S2)|exact Wt2]. }
  destruct T3 as [T3 Wt3].
  destruct (N.eq_dec (af_sk f) (theirKeyID k)) as [Er|Er].
  - destruct (Hy Er) as [Hy1 Hy2].
    destruct (DInv_rotateTheir k3 (af_sk f) (af_y f) RO' RT I3 Hy1) as [RT' [I4 [Hrt [Hwt4 [Hwo4 _]]]]].
    { intros W. apply Hy2, Hwt, Wt3, W. }
    { intros W. apply Hy2, Ht, W. }
    exists RO', RT'. split; [exact I4|]. repeat split.
    + intros e0 He. destruct (Hro e0 He) as [A|A]; [right; exact (Ho _ A)|right; apply Hwo, Wo2, A].
    + intros e0 W. apply Hwo4 in W. destruct (Hwo3 e0 W) as [->|A]; [left; reflexivity|right; apply Hwo, Wo2, A].
    + intros e0 He. destruct (Hrt e0 He) as [A|A]; [right; exact (Ht _ A)|right; apply Hwt, Wt3, A].
    + intros e0 W. destruct (Hwt4 e0 W) as [->|A]; [left; reflexivity|right; apply Hwt, Wt3, A].
  - assert (E4 : rotateTheirKey k3 (af_sk f) (af_y f) = k3).
    { unfold rotateTheirKey. rewrite T3. destruct (N.eqb_spec (af_sk f) (theirKeyID k)); [contradiction|reflexivity]. }
    rewrite E4. exists RO', RT. split; [exact I3|]. repeat split.
    + intros e0 He. destruct (Hro e0 He) as [A|A]; [right; exact (Ho _ A)|right; apply Hwo, Wo2, A].
    + intros e0 W. destruct (Hwo3 e0 W) as [->|A]; [left; reflexivity|right; apply Hwo, Wo2, A].
    + intros e0 He. right. exact (Ht _ He).
    + intros e0 W. right. apply Hwt, Wt3, W.
Qed.

Lemma DI_gen k h flag pl d k' xk UO UT : genDataMsg k h flag pl = Ok (d, k', xk) -> DI k UO UT -> DI k' UO UT.
Proof.
  unfold genDataMsg. destruct (sessionKeysFor _ _ _) as [keys| |] eqn:Es; cbn [bindR]; try discriminate.
  set (k1 := addKeys k _ _ _).
  destruct (find_counter _ _ _); [|discriminate].
  match goal with |- context [set_counters k1 ?cs] => set (cs' := cs) end.
  destruct (ourCurrent (set_counters k1 cs')); [|discriminate].
  cbn [revealMACKeys]. intros H. injection H as _ <- _.
  intros [RO [RT [I [Ho [Hwo [Ht Hwt]]]]]].
  pose proof (DInv_counters _ cs' _ _ (DInv_addKeys _ _ _ _ _ _ I Es)) as I2. fold k1 in I2.
  assert (S1 : keys_same k k1) by apply keys_same_addKeys.
  exists RO, RT. split.
  - destruct I2 as [H1 H2 H3 H4 H5 H6 H7 H8 H9 H10]. constructor; try assumption. intros key [].
  - repeat split; try assumption.
    + intros e0 W. apply Hwo. revert W. unfold win_our. cbn [ourCurrent ourPrevious set_oldMACKeys set_counters].
      rewrite (ks_oc _ _ S1), (ks_op _ _ S1). tauto.
    + intros e0 W. apply Hwt. revert W. unfold win_their. cbn [theirCurrent theirPrevious set_oldMACKeys set_counters].
      rewrite (ks_tc _ _ S1), (ks_tp _ _ S1). tauto.
Qed.

(* a history in which what is drawn and what the peer announces as its next key is new *)
Fixpoint fresh_hist (k : keyctx) (UO UT : list eid) (evs : list kev) : Prop :=
  match evs with
  | [] => True
  | KRecv d x :: r =>
      match recvDataMsg k d x with
      | Ok (_, k', _) =>
          ours x /\ ~ In x UO /\
          (af_sk (d_fields d) = theirKeyID k -> theirs (af_y (d_fields d)) /\ ~ In (af_y (d_fields d)) UT) /\
          fresh_hist k' (x :: UO) (af_y (d_fields d) :: UT) r
      | _ => fresh_hist k UO UT r
      end
  | KGen h flag pl :: r =>
      match genDataMsg k h flag pl with
      | Ok (_, k', _) => fresh_hist k' UO UT r
      | _ => fresh_hist k UO UT r
      end
  end.

Lemma DI_history evs : forall k UO UT out, DI k UO UT -> fresh_hist k UO UT evs ->
  exists UO' UT', DI (fst (krun k evs out)) UO' UT'.
Proof.
  induction evs as [|e evs IH]; intros k UO UT out I F; [exists UO, UT; exact I|].
  destruct e as [d x|h flag pl]; cbn [krun fresh_hist] in *.
  - destruct (recvDataMsg k d x) as [[[pl k'] xk]| |] eqn:E; try (exact (IH _ _ _ _ I F)).
    destruct F as [F1 [F2 [F3 F4]]]. exact (IH _ _ _ _ (DI_recv _ _ _ _ _ _ _ _ E I F1 F2 F3) F4).
  - destruct (genDataMsg k h flag pl) as [[[d k'] xk]| |] eqn:E; try (exact (IH _ _ _ _ I F)).
    exact (IH _ _ _ _ (DI_gen _ _ _ _ _ _ _ _ _ E I) F).
Qed.

(* the state right after a key exchange satisfies the invariant *)
Lemma DI_after_ake a1 a2 b1 : ours a1 -> ours a2 -> a1 <> a2 -> theirs b1 -> DI (after_ake a1 a2 b1) [a1; a2] [b1].
Proof.
  intros H1 H2 Hd H3. exists [], []. split; [constructor|]; cbn.
  - intros u [].
  - intros key [].
  - intros e [].
  - intros e [].
  - intros e [W|W]; injection W as <-; assumption.
  - intros e [W|W]; [injection W as <-; assumption|discriminate].
  - intros e W Wp. injection W as <-. injection Wp as Wp. congruence.
  - intros e _. discriminate.
  - lia.
  - lia.
  - repeat split.
    + intros e [].
    + intros e [W|W]; injection W as <-; auto.
    + intros e [].
    + intros e [W|W]; [injection W as <-; auto|discriminate].
Qed.

(* THE THEOREM: in every history after a key exchange in which new values are new, whatever the next data message would
   disclose (gen_discloses_all_pending: d_old d = oldMACKeys k) is a key under which the discloser accepts nothing any
   more: no key pair it can still look up has it as its receiving MAC key *)
Theorem disclosed_keys_are_dead evs a1 a2 b1 out :
  ours a1 -> ours a2 -> a1 <> a2 -> theirs b1 ->
  fresh_hist (after_ake a1 a2 b1) [a1; a2] [b1] evs ->
  let k := fst (krun (after_ake a1 a2 b1) evs out) in
  forall key, In key (oldMACKeys k) -> forall o t keys, sessionKeysFor k o t = Ok keys -> receivingKey keys <> key.
Proof.
  intros H1 H2 Hd H3 F k.
  destruct (DI_history evs _ _ _ out (DI_after_ake a1 a2 b1 H1 H2 Hd H3) F) as [UO [UT [RO [RT [I _]]]]].
  exact (pending_not_accepted _ _ _ I).
Qed.

(* and the message that discloses them leaves the windows as they are: what it carries is dead afterwards too *)
Theorem disclosed_keys_stay_dead k UO UT h flag pl d k' xk : DI k UO UT -> genDataMsg k h flag pl = Ok (d, k', xk) ->
  forall key, In key (d_old d) -> forall o t keys, sessionKeysFor k' o t = Ok keys -> receivingKey keys <> key.
Proof.
  intros [RO [RT [I _]]] E key Hk o t keys Hs.
  destruct (gen_discloses_all_pending _ _ _ _ _ _ _ E) as [Hd _]. rewrite Hd in Hk.
  assert (Hs' : sessionKeysFor k o t = Ok keys).
  { revert E Hs. unfold genDataMsg. destruct (sessionKeysFor k (ourKeyID k - 1) (theirKeyID k)) as [ks| |]; cbn [bindR]; try discriminate.
    set (k1 := addKeys k _ _ _). destruct (find_counter _ _ _); [|discriminate].
    match goal with |- context [set_counters k1 ?cs] => set (cs' := cs) end.
    destruct (ourCurrent (set_counters k1 cs')); [|discriminate].
    cbn [revealMACKeys]. intros H. injection H as _ <- _.
    assert (S1 : keys_same k k1) by apply keys_same_addKeys.
    unfold sessionKeysFor, pickOurKeys, pickTheirKey.
    cbn [ourKeyID theirKeyID ourCurrent ourPrevious theirCurrent theirPrevious set_oldMACKeys set_counters].
    rewrite (ks_our _ _ S1), (ks_their _ _ S1), (ks_oc _ _ S1), (ks_op _ _ S1), (ks_tc _ _ S1), (ks_tp _ _ S1). auto. }
  exact (pending_not_accepted _ _ _ I key Hk o t keys Hs').
Qed.

(* the hypotheses are met, and something does wait for disclosure, in a concrete exchange: B writes, A answers,
   B writes again (A's first key pair is retired by that) *)
Definition ex_hist : list kev := Eval vm_compute in
  let kA0 := after_ake 2 4 1 in
  let kB0 := after_ake 1 3 2 in
  match genDataMsg kB0 ex_h 0 (ex_pl 1) with
  | Ok (d1, kB1, _) =>
      match recvDataMsg kA0 d1 6 with
      | Ok (_, kA1, _) =>
          match genDataMsg kA1 ex_h 0 (ex_pl 2) with
          | Ok (d2, kA2, _) =>
              match recvDataMsg kB1 d2 5 with
              | Ok (_, kB2, _) =>
                  match genDataMsg kB2 ex_h 0 (ex_pl 3) with
                  | Ok (d3, _, _) => [KRecv d1 6; KGen ex_h 0 (ex_pl 2); KRecv d3 8]
                  | _ => []
                  end
              | _ => []
              end
          | _ => []
          end
      | _ => []
      end
  | _ => []
  end.
Example ex_hist_fresh_and_pending :
  fresh_hist (after_ake 2 4 1) [2; 4] [1] ex_hist /\
  length (oldMACKeys (fst (krun (after_ake 2 4 1) ex_hist []))) = 2%nat.
Proof. split; [vm_compute; intuition (try discriminate; try reflexivity) | vm_compute; reflexivity]. Qed.
