(* Scenario runner for the abstract conversation machine: up to three parties, every wire output is
   logged per sender, deliveries refer to logged outputs (optionally through a symbolic mutation).
   The Go harness executes the same scenario on real Conversations and prints, per step, the same
   observation; Corr/ScenDispatch compares them. *)
From OTR Require Import Go.Base Gen.Consts Corr.Val Proto.SmpTypes Proto.Keys Proto.Smp Proto.Conv Proto.Secrets.
From RecordUpdate Require Import RecordSet.
Import RecordSetNotations.
Open Scope N_scope.

(* tag classes used by mutations: 0 zero, 1 malformed (<0x100), 2 the sender's own tag, 3 the receiver's tag,
   4 another valid tag *)
Inductive mutation : Type :=
| MNone
| MFlipMac                 (* authenticator bytes damaged *)
| MFlipEnc                 (* ciphertext damaged *)
| MCtr (delta : N)         (* counter field raised by delta, MAC untouched *)
| MSk (v : N)              (* sender key id replaced *)
| MRk (v : N)              (* recipient key id replaced *)
| MFlag (v : N)
| MY                       (* next DH key replaced by another valid value *)
| MTruncate                (* cut inside the body: does not deserialize *)
| MDropOldKeys             (* revealed MAC keys removed (not authenticated) *)
| MReMac (who idx : N)     (* authenticator recomputed with the idx-th key disclosed so far by party who *)
| MStag (cls : N)
| MRtag (cls : N)
| MVersion (v : N)
| MAkeDamage (field : N)   (* AKE message: field-th component damaged *)
| MAkeGroup (v : N)        (* DH-Key: g^y replaced by the out-of-range value number v (0, 1, p-1, p, p+1) *)
| MImpersonate (victim : N)  (* Reveal-Signature / Signature: public key inside X replaced by the victim's, MAC recomputed with m2 *)
| MBadX (kind : N).          (* X replaced by something that does not parse as key + key id + signature, encrypted and MACed correctly *)

Record sys := {
  s_convs : list conv;                (* index = party number - 1 *)
  s_outs : list (list wire);          (* everything each party has emitted, oldest first *)
  s_disclosed : list (list skey)      (* MAC keys seen in the clear on the wire, per sender *)
}.

Definition nth_conv (s : sys) (who : N) : conv := nth (N.to_nat who - 1) (s_convs s) (conv_init 0 0 0).
Fixpoint set_nth {A} (l : list A) (i : nat) (x : A) : list A :=
  match l, i with
  | [], _ => []
  | _ :: r, O => x :: r
  | y :: r, S j => y :: set_nth r j x
  end.

Definition junk_wire : wire := WUnknown.

Definition tag_of_class (s : sys) (cls from to : N) : N :=
  if cls =? 0 then 0 else if cls =? 1 then 5
  else if cls =? 2 then c_ourTag (nth_conv s from)
  else if cls =? 3 then c_ourTag (nth_conv s to)
  else 900000.

Definition bad_fields : authfields :=
  {| af_ver := 0; af_stag := 0; af_rtag := 0; af_flag := 0; af_sk := 0; af_rk := 0; af_y := 0; af_ctr := 0;
     af_enckey := {| k_sh := mk_shared 0 0; k_role := 0 |}; af_encctr := 0 |}.

#[export] Instance eta_af : Settable _ := settable! Build_authfields <af_ver; af_stag; af_rtag; af_flag; af_sk; af_rk; af_y; af_ctr; af_enckey; af_encctr>.
#[export] Instance eta_sdata : Settable _ := settable! Build_sdata <d_fields; d_payload; d_enc_intact; d_mackey; d_macover; d_macenc_intact; d_mac_intact; d_old; d_wellformed>.

Definition mut_data (s : sys) (m : mutation) (from to : N) (d : sdata) : sdata :=
  let f := d_fields d in
  match m with
  | MFlipMac => d <| d_mac_intact := false |>
  | MFlipEnc => d <| d_enc_intact := false |>
  | MCtr delta => d <| d_fields := f <| af_ctr := af_ctr f + delta |> |>
  | MSk v => d <| d_fields := f <| af_sk := v |> |>
  | MRk v => d <| d_fields := f <| af_rk := v |> |>
  | MFlag v => d <| d_fields := f <| af_flag := v |> |>
  | MY => d <| d_fields := f <| af_y := junk_base + 100 |> |>
  | MTruncate => d <| d_wellformed := false |>
  | MDropOldKeys => d <| d_old := [] |>
  | MReMac who idx =>
      match nth_error (nth (N.to_nat who - 1) (s_disclosed s) []) (N.to_nat idx) with
      | Some k => d <| d_mackey := k |>
      | None => d <| d_mac_intact := false |>
      end
  | _ => d
  end.

Definition mut_ake (m : mutation) (b : akebody) : akebody :=
  match m, b with
  | MAkeDamage 0, BCommit r gx h => BCommit r (junk_base + 200) h           (* ciphertext of g^x damaged *)
  | MAkeDamage _, BCommit r gx h => BCommit r gx (junk_base + 201)          (* hash damaged *)
  | MAkeDamage _, BKey gy => BKey (junk_base + 202)                         (* another in-range value *)
  | MAkeGroup v, BKey gy => BKey (junk_base + v)                            (* out of range *)
  | MImpersonate v, BReveal r es mac =>
      let es' := {| es_ckey := es_ckey es; es_pub := v; es_keyid := es_keyid es; es_signer := es_signer es;
                    es_over := es_over es; es_parses := true |} in
      BReveal r es' {| em_key := em_key mac; em_over := es'; em_intact := true |}
  | MImpersonate v, BSig es mac =>
      let es' := {| es_ckey := es_ckey es; es_pub := v; es_keyid := es_keyid es; es_signer := es_signer es;
                    es_over := es_over es; es_parses := true |} in
      BSig es' {| em_key := em_key mac; em_over := es'; em_intact := true |}
  | MBadX _, BReveal r es mac =>
      let es' := {| es_ckey := es_ckey es; es_pub := es_pub es; es_keyid := es_keyid es; es_signer := es_signer es;
                    es_over := es_over es; es_parses := false |} in
      BReveal r es' {| em_key := em_key mac; em_over := es'; em_intact := true |}
  | MBadX _, BSig es mac =>
      let es' := {| es_ckey := es_ckey es; es_pub := es_pub es; es_keyid := es_keyid es; es_signer := es_signer es;
                    es_over := es_over es; es_parses := false |} in
      BSig es' {| em_key := em_key mac; em_over := es'; em_intact := true |}
  | MAkeDamage 0, BReveal r es mac => BReveal (r + 7777) es mac             (* revealed key damaged *)
  | MAkeDamage 1, BReveal r es mac => BReveal r {| es_ckey := es_ckey es; es_pub := es_pub es; es_keyid := es_keyid es;
                                                    es_signer := es_signer es; es_over := es_over es; es_parses := false |} mac
  | MAkeDamage _, BReveal r es mac => BReveal r es {| em_key := em_key mac; em_over := em_over mac; em_intact := false |}
  | MAkeDamage 1, BSig es mac => BSig {| es_ckey := es_ckey es; es_pub := es_pub es; es_keyid := es_keyid es;
                                          es_signer := es_signer es; es_over := es_over es; es_parses := false |} mac
  | MAkeDamage _, BSig es mac => BSig es {| em_key := em_key mac; em_over := em_over mac; em_intact := false |}
  | _, _ => b
  end.

Definition body_type (b : ebody) : N :=
  match b with
  | EData _ => c_msgTypeData
  | EAke (BCommit _ _ _) => c_msgTypeDHCommit
  | EAke (BKey _) => c_msgTypeDHKey
  | EAke (BReveal _ _ _) => c_msgTypeRevealSig
  | EAke (BSig _ _) => c_msgTypeSig
  | EBadBody ty _ => ty
  end.

Definition mutate (s : sys) (m : mutation) (from to : N) (w : wire) : wire :=
  match w with
  | WEnc ver stag rtag body =>
      match m with
      | MNone => w
      | MStag cls =>
          if negb (ver =? 3) then w else
          let t := tag_of_class s cls from to in
          WEnc ver t rtag (match body with
                           | EData d => EData (d <| d_fields := (d_fields d) <| af_stag := t |> |>)
                           | _ => body end)
      | MRtag cls =>
          if negb (ver =? 3) then w else
          let t := tag_of_class s cls from to in
          WEnc ver stag t (match body with
                           | EData d => EData (d <| d_fields := (d_fields d) <| af_rtag := t |> |>)
                           | _ => body end)
      | MVersion v =>
          WEnc v stag rtag (match body with
                            | EData d => EData (d <| d_fields := (d_fields d) <| af_ver := v |> |>)
                            | _ => body end)
      | MTruncate => WEnc ver stag rtag (EBadBody (body_type body) (match body with EData d => af_flag (d_fields d) | _ => 0 end))
      | _ =>
          match body with
          | EData d => WEnc ver stag rtag (EData (mut_data s m from to d))
          | EAke b => WEnc ver stag rtag (EAke (mut_ake m b))
          | EBadBody _ _ => w
          end
      end
  | _ => w
  end.

(* ---------------- operations ---------------- *)
Inductive sop : Type :=
| OSend (who : N) (now : N) (text : bytes)
| ODeliver (from : N) (idx : N) (to : N) (m : mutation) (aux : N) (rnd : list N) (now : N)
| OInject (to : N) (w : wire) (now : N)                       (* a message the network made up *)
| OEnd (who : N) (now : N)
| OSmp (who : N) (now : N) (c : smp_call) (rnd : list N)
| OExtraKey (who : N) (now : N) (usage : N) (data : bytes)
| OSendTLVs (who : N) (now : N) (tlvs : list stlv)
(* party [sender] sends, through its own session, the SMP TLVs found in output [idx] of party [src], after
   replacing value number [field] by the boundary value class [cls] (cls = 99: unchanged; cls >= 20: drop cls-20 values) *)
| OForwardSmp (src : N) (idx : N) (sender : N) (now : N) (field : N) (cls : N)
(* no call: observe which secrets party [who] still holds *)
| OProbe (who : N)
(* a message built outside the conversation from party [who]'s secrets (the independent reference sender): what the
   call would emit is logged as [who]'s output, [who]'s state does not advance *)
| OForge (who : N) (now : N) (c : call)
(* no call: the user changes the policy set of party [who] (the public Policies field) *)
| OSetPolicy (who : N) (p : N).

(* ---------------- observations ---------------- *)
Definition tag_class (s : sys) (t from : N) : N :=
  (* 0 zero, 1 malformed, 2 sender's own, 3 some party's tag other than the sender, 4 other *)
  if t =? 0 then 0 else if t <? c_minValidInstanceTag then 1
  else if t =? c_ourTag (nth_conv s from) then 2
  else if existsb (fun c => c_ourTag c =? t) (s_convs s) then 3 else 4.

Definition obs_wire (s : sys) (from : N) (w : wire) : val :=
  match w with
  | WPlain t tag => VL [VN 0; VB t; VN (match tag with Some v => v | None => 0 end)]
  | WQuery v => VL [VN 1; VN v]
  | WError t => VL [VN 2; VB t]
  | WEnc ver stag rtag (EData d) =>
      let f := d_fields d in
      VL [VN 4; VN ver; VN (tag_class s stag from); VN (tag_class s rtag from); VN (af_flag f); VN (af_sk f);
          VN (af_rk f); VN (af_ctr f); VN (lenN (d_old d))]
  | WEnc ver stag rtag b => VL [VN 3; VN ver; VN (body_type b); VN (tag_class s stag from); VN (tag_class s rtag from)]
  | _ => VL [VN 9]
  end.

Definition ssid_eqb (a b : option shared) : bool :=
  match a, b with Some x, Some y => shared_eqb x y | None, None => true | _, _ => false end.

Definition obs_state (s : sys) (who : N) : val :=
  let c := nth_conv s who in
  let k := c_keys c in
  VL [VN (c_msgState c); VN (c_version c); VN (if c_theirTag c =? 0 then 0 else 1);
      VN (match c_theirKey c with Some k => k | None => 0 end);
      VL (map (fun o => vbool (ssid_eqb (c_ssid c) (c_ssid o))) (s_convs s));
      vbool (c_sentRevealSig c);
      VL [VN (ourKeyID k); VN (theirKeyID k); VN (lenN (counters k)); VN (lenN (macHistory k)); VN (lenN (oldMACKeys k))];
      VN (lenN (c_resendMsgs c)); VN (c_mayRetransmit c); VN (sm_state (c_smp c));
      VN (match c_ake c with Some a => a_state a | None => 0 end)].

Definition obs (s : sys) (who : N) (r : result) : val :=
  VL [vopt VB (r_plain r); VN (if r_err r =? 0 then 0 else if r_err r =? 9 then 9 else 1); VL (map VN (r_events r)); VL (map (obs_wire s who) (r_out r));
      obs_state s who].

Fixpoint disclosed_in (ws : list wire) : list skey :=
  match ws with
  | [] => []
  | WEnc _ _ _ (EData d) :: r => d_old d ++ disclosed_in r
  | _ :: r => disclosed_in r
  end.

Definition apply_call (s : sys) (who now : N) (c : call) : sys * val :=
  let i := (N.to_nat who - 1)%nat in
  let '(cv', r) := step now (nth_conv s who) c in
  let s' := {| s_convs := set_nth (s_convs s) i cv';
               s_outs := set_nth (s_outs s) i (nth i (s_outs s) [] ++ r_out r);
               s_disclosed := set_nth (s_disclosed s) i (nth i (s_disclosed s) [] ++ disclosed_in (r_out r)) |} in
  (s', obs s' who r).

(* boundary value classes of the deviant-message sweep: 0 -> 0, 1 -> 1, 2 -> p-1, 3 -> p, 4 -> p+1, 5 -> q,
   6 -> random, 7 -> value + 1 *)
Definition mut_sval (cls : N) (v : sval) : sval :=
  match v with
  | VEl e =>
      VEl (if cls =? 0 then EZero else if cls =? 1 then EKnown false 0 else if cls =? 2 then EKnown true 0
           else if cls =? 3 then EZero else if cls =? 4 then EKnown false 0 else ETainted (50 + cls))
  | VNum n =>
      VNum (if cls =? 0 then 0 else if cls =? 1 then 1 else if cls =? 7 then n + 1 else 123456789 + cls)
  end.
Fixpoint mut_nth (l : list sval) (i : nat) (cls : N) : list sval :=
  match l, i with
  | [], _ => []
  | v :: r, O => mut_sval cls v :: r
  | v :: r, S j => v :: mut_nth r j cls
  end.
Definition mut_smp_tlv (field cls : N) (t : stlv) : stlv :=
  match t with
  | TSmp ty pl =>
      if cls =? 99 then t
      else if 20 <=? cls then TSmp ty {| sp_question := sp_question pl;
                                         sp_vals := firstn (length (sp_vals pl) - N.to_nat (cls - 20)) (sp_vals pl) |}
      else TSmp ty {| sp_question := sp_question pl; sp_vals := mut_nth (sp_vals pl) (N.to_nat field) cls |}
  | _ => t
  end.
Definition smp_tlvs_of (w : wire) : list stlv :=
  match w with
  | WEnc _ _ _ (EData d) => filter (fun t => match t with TSmp _ _ => true | _ => false end) (p_tlvs (d_payload d))
  | _ => []
  end.

Definition run_op (s : sys) (o : sop) : sys * val :=
  match o with
  | OSend who now t => apply_call s who now (CSend t)
  | ODeliver from idx to m aux rnd now =>
      let w := nth (N.to_nat idx) (nth (N.to_nat from - 1) (s_outs s) []) junk_wire in
      apply_call s to now (CReceive (mutate s m from to w) aux rnd)
  | OInject to w now => apply_call s to now (CReceive w 0 [])
  | OEnd who now => apply_call s who now CEnd
  | OSmp who now c rnd => apply_call s who now (CSmp c rnd)
  | OExtraKey who now u d => apply_call s who now (CExtraKey u d)
  | OSendTLVs who now tlvs => apply_call s who now (CSendTLVs tlvs)
  | OForwardSmp src idx sender now field cls =>
      let w := nth (N.to_nat idx) (nth (N.to_nat src - 1) (s_outs s) []) junk_wire in
      apply_call s sender now (CSendTLVs (map (mut_smp_tlv field cls) (smp_tlvs_of w)))
  | OProbe who => (s, secrets_obs (nth_conv s who))
  | OSetPolicy who p =>
      let i := (N.to_nat who - 1)%nat in
      ({| s_convs := set_nth (s_convs s) i ((nth_conv s who) <| c_policies := p |>); s_outs := s_outs s; s_disclosed := s_disclosed s |}, VL [])
  | OForge who now c =>
      let i := (N.to_nat who - 1)%nat in
      let '(_, r) := step now (nth_conv s who) c in
      ({| s_convs := s_convs s; s_outs := set_nth (s_outs s) i (nth i (s_outs s) [] ++ r_out r); s_disclosed := s_disclosed s |},
       VL (map (fun w => match w with
                         | WEnc ver _ _ (EData d) => let f := d_fields d in VL [VN 4; VN ver; VN (af_flag f); VN (af_sk f); VN (af_rk f); VN (af_ctr f)]
                         | _ => VL [VN 9]
                         end) (r_out r)))
  end.

Fixpoint run_ops (s : sys) (ops : list sop) : list val :=
  match ops with
  | [] => []
  | o :: r => let '(s', v) := run_op s o in v :: run_ops s' r
  end.

(* party i (1-based) has policy set [p_i] and long-term key i *)
Definition sys_init (policies : list N) : sys :=
  {| s_convs := map (fun '(i, p) => conv_init (N.of_nat (S i)) p (N.of_nat (S i))) (combine (seq 0 (length policies)) policies);
     s_outs := map (fun _ => []) policies;
     s_disclosed := map (fun _ => []) policies |}.

Record scenario := { sc_policies : list N; sc_ops : list sop; sc_observed : list val }.

(* index of the first step whose observation differs, with the model's observation *)
Fixpoint first_diff (i : N) (model observed : list val) : option (N * val) :=
  match model, observed with
  | [], [] => None
  | m :: mr, o :: or => if val_eqb m o then first_diff (i + 1) mr or else Some (i, m)
  | m :: _, [] => Some (i, m)
  | [], o :: _ => Some (i, VNone)
  end.

Definition check_scenario (sc : scenario) : option (N * val) :=
  first_diff 0 (run_ops (sys_init (sc_policies sc)) (sc_ops sc)) (sc_observed sc).

Fixpoint scen_mismatches (i : N) (l : list scenario) : list (N * (N * val)) :=
  match l with
  | [] => []
  | sc :: r => match check_scenario sc with
               | None => scen_mismatches (i + 1) r
               | Some d => (i, d) :: scen_mismatches (i + 1) r
               end
  end.
