(* C03 over histories: user text leaves in the clear only as the direct output of Send at a moment when that is allowed.

   Same method as Proto/Lifecycle.v and Proto/AkeAuth.v, this time following VALUES: [wires a] collects the wire messages
   a value of any result type of the conversation monad carries (type class [Wires]); [np m] says that action m keeps
   the wires STORED in the conversation (pending injections, the Reveal Signature message kept for retransmission) free
   of plaintext messages and returns only such wires.  Closed under bind (the continuation may assume the value it
   receives is clean); every definition of Proto/Conv.v is walked through by a tactic; [send] is the one place that
   produces a plaintext message and is proved by hand. *)
From OTR Require Import Go.Base Gen.Consts Bytes.Text Proto.SmpTypes Proto.Keys Proto.Smp Proto.SmpInst Proto.Conv Proto.ConvProofs Proto.Lifecycle Proto.AkeAuth.
From RecordUpdate Require Import RecordSet.
Import RecordSetNotations.
Open Scope N_scope.

Definition isplain (w : wire) : bool := match w with WPlain _ _ => true | _ => false end.
Definition clean (l : list wire) : Prop := Forall (fun w => isplain w = false) l.
Lemma clean_nil : clean []. Proof. constructor. Qed.
Lemma clean_app l1 l2 : clean (l1 ++ l2) <-> clean l1 /\ clean l2. Proof. apply Forall_app. Qed.
Lemma clean_cons w l : clean (w :: l) <-> isplain w = false /\ clean l.
Proof. split; [intros H; inversion H; auto | intros [H1 H2]; constructor; auto]. Qed.
Lemma clean_one w : isplain w = false -> clean [w]. Proof. intros H. constructor; [exact H|constructor]. Qed.

(* the wires a value carries *)
Class Wires (A : Type) := wires : A -> list wire.
#[export] Instance W_unit : Wires unit := fun _ => [].
#[export] Instance W_N : Wires N := fun _ => [].
#[export] Instance W_bool : Wires bool := fun _ => [].
#[export] Instance W_hdr : Wires hdr := fun _ => [].
#[export] Instance W_skey : Wires skey := fun _ => [].
#[export] Instance W_encsig : Wires encsig := fun _ => [].
#[export] Instance W_emac : Wires emac := fun _ => [].
#[export] Instance W_stlv : Wires stlv := fun _ => [].
#[export] Instance W_wire : Wires wire := fun w => [w].
#[export] Instance W_list {A} {WA : Wires A} : Wires (list A) := fun l => flat_map wires l.
#[export] Instance W_option {A} {WA : Wires A} : Wires (option A) := fun o => match o with Some a => wires a | None => [] end.
#[export] Instance W_prod {A B} {WA : Wires A} {WB : Wires B} : Wires (A * B) := fun p => wires (fst p) ++ wires (snd p).
#[export] Instance W_R {A} {WA : Wires A} : Wires (R A) := fun r => match r with Ok a => wires a | _ => [] end.
#[export] Instance W_sum {A B} {WA : Wires A} {WB : Wires B} : Wires (A + B) := fun s => match s with inl a => wires a | inr b => wires b end.
Definition reveal_of (c : conv) : option wire := match c_ake c with Some a => a_revealSigMsg a | None => None end.
#[export] Instance W_conv : Wires conv := fun c => c_injections c ++ wires (reveal_of c).
#[export] Instance W_result : Wires result := fun r => r_out r.

Lemma wires_list_wire (l : list wire) : wires l = l.
Proof. unfold wires, W_list. induction l as [|w r IH]; cbn; [reflexivity|]. rewrite IH. reflexivity. Qed.
Lemma wires_list_N (l : list N) : wires l = [].
Proof. unfold wires, W_list. induction l as [|w r IH]; cbn; auto. Qed.
Lemma wires_list_stlv (l : list stlv) : wires l = [].
Proof. unfold wires, W_list. induction l as [|w r IH]; cbn; auto. Qed.

(* what the conversation stores and later sends as it is *)
Definition SInv (c : conv) : Prop := clean (wires c).

Definition np {A} {WA : Wires A} (m : M A) : Prop := forall c ev a c' ev', m c ev = (a, c', ev') ->
  SInv c -> SInv c' /\ clean (wires a).

Lemma np_bind {A B} {WA : Wires A} {WB : Wires B} (m : M A) (f : A -> M B) :
  np m -> (forall a, clean (wires a) -> np (f a)) -> np (bind m f).
Proof.
  intros Hm Hf c ev b c' ev' E I. apply bind_eq in E as [a [c1 [ev1 [E1 E]]]].
  destruct (Hm _ _ _ _ _ E1 I) as [I1 Ca]. exact (Hf a Ca _ _ _ _ _ E I1).
Qed.
Lemma np_ret {A} {WA : Wires A} (a : A) : clean (wires a) -> np (ret a).
Proof. intros Ca c ev a' c' ev' E I. injection E as <- <- <-. auto. Qed.
Lemma np_get : np get.
Proof. intros c ev a' c' ev' E I. injection E as <- <- <-. auto. Qed.
Lemma np_fresh : np fresh.
Proof. intros c ev a' c' ev' E I. unfold fresh, draw in E. injection E as <- <- <-. split; [exact I | constructor]. Qed.
Lemma np_event e : np (event e).
Proof. intros c ev a' c' ev' E I. injection E as <- <- <-. split; [exact I | constructor]. Qed.
Lemma np_modify f : (forall c, SInv c -> SInv (f c)) -> np (modify f).
Proof. intros H c ev a' c' ev' E I. injection E as <- <- <-. split; [apply H; exact I | constructor]. Qed.
Lemma np_pure {A} {WA : Wires A} (f : conv -> list N -> A) : (forall c ev, SInv c -> clean (wires (f c ev))) -> np (fun c ev => (f c ev, c, ev)).
Proof. intros H c ev a' c' ev' E I. injection E as <- <- <-. split; [exact I | apply H; exact I]. Qed.
Lemma np_evs (g : list N -> list N) : np (fun c ev => (tt, c, g ev)).
Proof. intros c ev a' c' ev' E I. injection E as <- <- <-. split; [exact I | constructor]. Qed.

(* modifications that leave the stored wires alone *)
Lemma SInv_same c c' : c_injections c' = c_injections c -> c_ake c' = c_ake c -> SInv c -> SInv c'.
Proof. unfold SInv, wires, W_conv, reveal_of. intros -> ->. auto. Qed.

Lemma Wl_wire (l : list wire) : @W_list wire W_wire l = l. Proof. exact (wires_list_wire l). Qed.
Lemma Wl_N (l : list N) : @W_list N W_N l = []. Proof. exact (wires_list_N l). Qed.
Lemma Wl_stlv (l : list stlv) : @W_list stlv W_stlv l = []. Proof. exact (wires_list_stlv l). Qed.
Ltac cw1 :=
  repeat first
   [ progress (cbv beta delta [wires W_prod W_option W_R W_sum W_wire W_unit W_N W_bool W_hdr W_skey W_encsig W_emac W_stlv W_result W_conv] in * )
   | progress (cbn [fst snd r_out app] in * )
   | rewrite Wl_wire in *
   | rewrite Wl_N in *
   | rewrite Wl_stlv in *
   | rewrite clean_app in *
   | rewrite clean_cons in * ].
Ltac cw :=
  cw1;
  repeat (match goal with |- context [match ?x with _ => _ end] => destruct x end; cw1);
  repeat match goal with H : _ /\ _ |- _ => destruct H end;
  repeat split; auto using clean_nil; try reflexivity.

Ltac sinv :=
  first
  [ (eapply SInv_same; [reflexivity | reflexivity | eassumption])
  | (unfold SInv, wires, W_conv, reveal_of, the_ake in *; cbn in *;
     repeat match goal with
            | |- context [match c_ake ?c with _ => _ end] => destruct (c_ake c)
            | H : context [match c_ake ?c with _ => _ end] |- _ => destruct (c_ake c)
            end;
     cbn in *; cw) ].

Create HintDb np.
Ltac np_tac :=
  repeat first
  [ solve [auto with np]
  | progress cbv zeta
  | apply np_get | apply np_fresh | apply np_event | apply np_evs
  | (apply np_ret; solve [cw])
  | (apply np_modify; intros ? ?; solve [sinv])
  | (apply np_pure; intros ? ? ?; solve [cw])
  | (apply np_bind; [|intros ? ?])
  | match goal with
    | |- np (if ?b then _ else _) => destruct b
    | |- np (match ?x with _ => _ end) => destruct x
    | |- np (let '(_, _) := ?x in _) => destruct x
    end ].

Lemma np_commitToVersionFrom v : np (commitToVersionFrom v). Proof. unfold commitToVersionFrom. np_tac. Qed.
#[export] Hint Resolve np_commitToVersionFrom : np.
Lemma np_generateInstanceTag : np generateInstanceTag. Proof. unfold generateInstanceTag. np_tac. Qed.
#[export] Hint Resolve np_generateInstanceTag : np.
Lemma np_malformedMessage : np malformedMessage. Proof. unfold malformedMessage. np_tac. Qed.
#[export] Hint Resolve np_malformedMessage : np.
Lemma np_verifyInstanceTags a b : np (verifyInstanceTags a b). Proof. unfold verifyInstanceTags. np_tac. Qed.
#[export] Hint Resolve np_verifyInstanceTags : np.
Lemma np_messageHeader : np messageHeader. Proof. unfold messageHeader. np_tac. Qed.
#[export] Hint Resolve np_messageHeader : np.
Lemma np_wrap b : np (wrap b). Proof. unfold wrap. np_tac. Qed.
#[export] Hint Resolve np_wrap : np.
Lemma np_generatePotentialErrorMessage x : np (generatePotentialErrorMessage x). Proof. unfold generatePotentialErrorMessage. np_tac. Qed.
#[export] Hint Resolve np_generatePotentialErrorMessage : np.

Lemma np_withInjects x : clean x -> np (withInjects x). Proof. intros Hx. unfold withInjects. np_tac. Qed.
Lemma np_updateLastSent x : np (updateLastSent x). Proof. unfold updateLastSent. np_tac. Qed.
#[export] Hint Resolve np_updateLastSent : np.
Lemma np_genDataMsgWithFlag t f l r : np (genDataMsgWithFlag t f l r). Proof. unfold genDataMsgWithFlag. np_tac. Qed.
#[export] Hint Resolve np_genDataMsgWithFlag : np.
Lemma np_createSerializedDataMessage n t f l : np (createSerializedDataMessage n t f l). Proof. unfold createSerializedDataMessage. np_tac. Qed.
#[export] Hint Resolve np_createSerializedDataMessage : np.

Lemma np_retransmit_loop msgs : forall p acc, clean acc -> np (retransmit_loop msgs p acc).
Proof.
  induction msgs as [|m r IH]; intros p acc Ha; cbn [retransmit_loop]; [np_tac|].
  cbv zeta. apply np_bind; [apply np_genDataMsgWithFlag|intros g Hg].
  destruct g as [[w x]| |]; [|np_tac..]. apply IH. cw.
Qed.
Lemma np_emit_n n e : np (emit_n n e).
Proof. induction n as [|k IH]; cbn [emit_n]; [np_tac|]. apply np_bind; [apply np_event | intros _ _; exact IH]. Qed.
#[export] Hint Resolve np_emit_n : np.
Lemma np_maybeRetransmit n : np (maybeRetransmit n).
Proof. unfold maybeRetransmit. np_tac. apply np_retransmit_loop. constructor. Qed.
#[export] Hint Resolve np_maybeRetransmit : np.
Lemma np_retransmitAfterAKE n : np (retransmitAfterAKE n). Proof. unfold retransmitAfterAKE. np_tac. Qed.
#[export] Hint Resolve np_retransmitAfterAKE : np.

Lemma np_set_ake f : (forall a, clean (wires (a_revealSigMsg a)) -> clean (wires (a_revealSigMsg (f a)))) -> np (set_ake f).
Proof.
  intros H c ev a c' ev' E I. unfold set_ake, modify in E. injection E as _ <- _. split; [|constructor].
  unfold SInv, wires, W_conv, reveal_of in *. cbn. apply clean_app in I as [I1 I2]. apply clean_app. split; [exact I1|].
  destruct (c_ake c) as [a0|]; [apply H; exact I2 | constructor].
Qed.
Ltac np_tac2 :=
  repeat first
  [ solve [auto with np]
  | progress cbv zeta
  | apply np_get | apply np_fresh | apply np_event | apply np_evs
  | (apply np_ret; solve [cw])
  | (apply np_set_ake; intros ? ?; cbn; solve [cw])
  | (apply np_modify; intros ? ?; solve [sinv])
  | (apply np_pure; intros ? ? ?; solve [cw])
  | (apply np_bind; [|intros ? ?])
  | match goal with
    | |- np (if ?b then _ else _) => destruct b
    | |- np (match ?x with _ => _ end) => destruct x
    | |- np (let '(_, _) := ?x in _) => destruct x
    end ].

Lemma np_sendDHCommit : np sendDHCommit. Proof. unfold sendDHCommit. np_tac2. Qed.
#[export] Hint Resolve np_sendDHCommit : np.
Lemma np_calcAKEKeys s : np (calcAKEKeys s). Proof. unfold calcAKEKeys. np_tac2. Qed.
#[export] Hint Resolve np_calcAKEKeys : np.
Lemma np_setSentRevealSig s : np (setSentRevealSig s). Proof. unfold setSentRevealSig. np_tac2. Qed.
#[export] Hint Resolve np_setSentRevealSig : np.
Lemma np_generateEncryptedSignature s : np (generateEncryptedSignature s). Proof. unfold generateEncryptedSignature. np_tac2. Qed.
#[export] Hint Resolve np_generateEncryptedSignature : np.
Lemma np_processEncryptedSig a b s : np (processEncryptedSig a b s). Proof. unfold processEncryptedSig. np_tac2. Qed.
#[export] Hint Resolve np_processEncryptedSig : np.
Lemma np_akeHasFinished now : np (akeHasFinished now). Proof. unfold akeHasFinished. np_tac2. Qed.
#[export] Hint Resolve np_akeHasFinished : np.
Lemma np_receiveDHCommit_none b : np (receiveDHCommit_none b). Proof. unfold receiveDHCommit_none. np_tac2. Qed.
#[export] Hint Resolve np_receiveDHCommit_none : np.

Lemma clean_reveal (c : conv) : clean (wires c) -> clean (wires (a_revealSigMsg (the_ake c))).
Proof.
  unfold wires, W_conv, reveal_of, the_ake. intros H. apply clean_app in H as [_ H].
  destruct (c_ake c); [exact H | constructor].
Qed.

Ltac np_tac3 :=
  repeat first
  [ solve [auto with np]
  | progress cbv zeta
  | apply np_get | apply np_fresh | apply np_event | apply np_evs
  | (apply np_ret; solve [cw])
  | (apply np_ret; match goal with H : clean (wires ?c) |- context [a_revealSigMsg (the_ake ?c)] => pose proof (clean_reveal c H) end; solve [cw])
  | (apply np_set_ake; intros ? ?; cbn; solve [cw])
  | (apply np_modify; intros ? ?; solve [sinv])
  | (apply np_pure; intros ? ? ?; solve [cw])
  | (apply np_bind; [|intros ? ?])
  | match goal with
    | |- np (if ?b then _ else _) => destruct b
    | |- np (match ?x with _ => _ end) => destruct x
    | |- np (let '(_, _) := ?x in _) => destruct x
    end ].

Lemma np_processAKE_body now ty body aux : np (processAKE_body now ty body aux).
Proof. unfold processAKE_body. np_tac3. Qed.
#[export] Hint Resolve np_processAKE_body : np.

Lemma np_processAKE now ty body aux : np (processAKE now ty body aux).
Proof. unfold processAKE. np_tac3. Qed.
#[export] Hint Resolve np_processAKE : np.
Lemma np_processTLVs rnd tlvs : forall x acc, np (processTLVs rnd tlvs x acc).
Proof.
  induction tlvs as [|t r IH]; intros x acc; cbn [processTLVs]; [np_tac3|].
  destruct t; np_tac3; try apply IH.
Qed.
#[export] Hint Resolve np_processTLVs : np.
Lemma np_processDataMessage now d rnd : np (processDataMessage now d rnd).
Proof. unfold processDataMessage. np_tac3. Qed.
#[export] Hint Resolve np_processDataMessage : np.
Lemma np_potentialHeartbeat now p : np (potentialHeartbeat now p). Proof. unfold potentialHeartbeat. np_tac3. Qed.
#[export] Hint Resolve np_potentialHeartbeat : np.
Lemma np_receiveDataMessage now d rnd : np (receiveDataMessage now d rnd).
Proof. unfold receiveDataMessage. np_tac3. Qed.
#[export] Hint Resolve np_receiveDataMessage : np.
Lemma np_checkPlaintextPolicies : np checkPlaintextPolicies. Proof. unfold checkPlaintextPolicies. np_tac3. Qed.
#[export] Hint Resolve np_checkPlaintextPolicies : np.
Lemma np_receiveQueryMessage now v : np (receiveQueryMessage now v). Proof. unfold receiveQueryMessage. np_tac3. Qed.
#[export] Hint Resolve np_receiveQueryMessage : np.
Lemma np_receiveDecoded now ver stag rtag body aux rnd : np (receiveDecoded now ver stag rtag body aux rnd).
Proof. unfold receiveDecoded. np_tac3. Qed.
#[export] Hint Resolve np_receiveDecoded : np.
Lemma np_forgetVersion b e : np (forgetVersion b e). Proof. unfold forgetVersion. np_tac3. Qed.
#[export] Hint Resolve np_forgetVersion : np.
Lemma np_forgetTag b e : np (forgetTag b e). Proof. unfold forgetTag. np_tac3. Qed.
#[export] Hint Resolve np_forgetTag : np.

Ltac np_tac4 :=
  repeat first
  [ solve [auto with np]
  | progress cbv zeta
  | apply np_get | apply np_fresh | apply np_event | apply np_evs
  | (apply np_ret; solve [cw])
  | (apply np_withInjects; solve [cw])
  | (apply np_set_ake; intros ? ?; cbn; solve [cw])
  | (apply np_modify; intros ? ?; solve [sinv])
  | (apply np_pure; intros ? ? ?; solve [cw])
  | (apply np_bind; [|intros ? ?])
  | match goal with
    | |- np (if ?b then _ else _) => destruct b
    | |- np (match ?x with _ => _ end) => destruct x
    | |- np (let '(_, _) := ?x in _) => destruct x
    end ].

Lemma np_finish p o e : clean o -> np (finish p o e).
Proof. intros Ho. unfold finish. np_tac4. Qed.
Lemma np_finishSend o e : clean o -> np (finishSend o e).
Proof. intros Ho. unfold finishSend. np_tac4. Qed.

Lemma np_receive now w aux rnd : np (receive now w aux rnd).
Proof. unfold receive. np_tac4; apply np_finish; cw. Qed.
Lemma np_endConv now : np (endConv now). Proof. unfold endConv. np_tac4. Qed.
Lemma np_userSMP now s rnd : np (userSMP now s rnd). Proof. unfold userSMP. np_tac4. Qed.
Lemma np_sendTLVs now t : np (sendTLVs now t). Proof. unfold sendTLVs. np_tac4. Qed.
Lemma np_useExtraKey now u d : np (useExtraKey now u d). Proof. unfold useExtraKey. np_tac4. Qed.

(* when may user text leave in the clear: OTR switched off, or plaintext state without the require-encryption policy *)
Definition plain_allowed (c : conv) : Prop :=
  isOTREnabled (c_policies c) = false \/
  (c_msgState c = c_plainText /\ has (c_policies c) c_requireEncryption = false).
(* every plaintext message among the outputs of a call is the text just given to Send, at a moment when that is allowed *)
Definition plain_ok (c : conv) (op : call) (r : result) : Prop :=
  forall t tag, In (WPlain t tag) (r_out r) -> op = CSend t /\ plain_allowed c.

Lemma clean_no_plain l t tag : clean l -> ~ In (WPlain t tag) l.
Proof. intros H Hin. unfold clean in H. rewrite Forall_forall in H. specialize (H _ Hin). discriminate. Qed.

Lemma finishSend_out out err c ev r c' ev' : finishSend out err c ev = (r, c', ev') -> SInv c ->
  SInv c' /\ exists inj, r_out r = out ++ inj /\ clean inj.
Proof.
  intros E I. unfold finishSend in E. apply bind_eq in E as [o [c1 [ev1 [E1 E]]]].
  unfold withInjects in E1. apply bind_eq in E1 as [cg [c0 [ev0 [Eg E1]]]]. apply get_eq in Eg. injection Eg as -> -> ->.
  apply bind_eq in E1 as [u [c2 [ev2 [E2 E1]]]]. unfold modify in E2. injection E2 as _ <- <-.
  apply ret_eq in E1. injection E1 as -> -> ->. injection E as <- <- <-. cbn [r_out].
  split.
  - unfold SInv, wires, W_conv, reveal_of in *. cbn. apply clean_app in I as [_ I2]. exact I2.
  - exists (c_injections c). split; [reflexivity|]. unfold SInv, wires, W_conv in I. apply clean_app in I as [I1 _]. exact I1.
Qed.

Lemma send_plain now t c ev r c' ev' : send now t c ev = (r, c', ev') -> SInv c ->
  SInv c' /\ (forall t' tag, In (WPlain t' tag) (r_out r) -> t' = t /\ plain_allowed c).
Proof.
  intros E I. unfold send in E. apply bind_eq in E as [cg [c0 [ev0 [Eg E]]]]. apply get_eq in Eg. injection Eg as -> -> ->.
  apply if_eq in E as [[Hb E]|[Hb E]].
  { (* OTR switched off *)
    injection E as <- <- <-. split; [exact I|]. cbn [r_out]. intros t' tag [H|[]]. injection H as <- _.
    split; [reflexivity | left; apply negb_true_iff; exact Hb]. }
  apply if_eq in E as [[Hp E]|[Hp E]].
  - apply N.eqb_eq in Hp. apply if_eq in E as [[Hr E]|[Hr E]].
    + (* encryption required: the text is queued, a query goes out *)
      match type of E with ?m c ev = _ => assert (Hn : np m) by (np_tac4; apply np_finishSend; cw) end.
      destruct (Hn _ _ _ _ _ E I) as [I' Cr]. split; [exact I'|].
      intros t' tag Hin. exfalso. exact (clean_no_plain _ _ _ Cr Hin).
    + apply if_eq in E as [[_ E]|[_ E]].
      * destruct (finishSend_out _ _ _ _ _ _ _ E I) as [I' [inj [Ho Ci]]]. split; [exact I'|].
        intros t' tag Hin. rewrite Ho in Hin. apply in_app_or in Hin as [[H|[]]|H]; [|exfalso; exact (clean_no_plain _ _ _ Ci H)].
        injection H as <- _. split; [reflexivity | right; split; assumption].
      * apply bind_eq in E as [u [c1 [ev1 [E1 E]]]]. unfold modify in E1. injection E1 as _ <- <-.
        assert (I1 : SInv (c <| c_wsState := c_whitespaceSent |>)) by (eapply SInv_same; [reflexivity | reflexivity | exact I]).
        destruct (finishSend_out _ _ _ _ _ _ _ E I1) as [I' [inj [Ho Ci]]]. split; [exact I'|].
        intros t' tag Hin. rewrite Ho in Hin. apply in_app_or in Hin as [[H|[]]|H]; [|exfalso; exact (clean_no_plain _ _ _ Ci H)].
        injection H as <- _. split; [reflexivity | right; split; assumption].
  - (* encrypted or finished: nothing in the clear *)
    match type of E with ?m c ev = _ => assert (Hn : np m) by (np_tac4; apply np_finishSend; cw) end.
    destruct (Hn _ _ _ _ _ E I) as [I' Cr]. split; [exact I'|].
    intros t' tag Hin. exfalso. exact (clean_no_plain _ _ _ Cr Hin).
Qed.

Lemma step_plain now c op : SInv c -> let '(c', r) := step now c op in SInv c' /\ plain_ok c op r.
Proof.
  intros I. unfold step. destruct op as [t|w aux rnd| |s rnd|u d|tlvs].
  - destruct (send now t c []) as [[r c'] ev'] eqn:E. destruct (send_plain _ _ _ _ _ _ _ E I) as [I' P]. split; [exact I'|].
    intros t' tag Hin. destruct (P t' tag Hin) as [-> A]. split; [reflexivity | exact A].
  - destruct (receive now w aux rnd c []) as [[r c'] ev'] eqn:E. destruct (np_receive now w aux rnd _ _ _ _ _ E I) as [I' Cr].
    split; [exact I'|]. intros t' tag Hin. exfalso. exact (clean_no_plain _ _ _ Cr Hin).
  - destruct (endConv now c []) as [[r c'] ev'] eqn:E. destruct (np_endConv now _ _ _ _ _ E I) as [I' Cr].
    split; [exact I'|]. intros t' tag Hin. exfalso. exact (clean_no_plain _ _ _ Cr Hin).
  - destruct (userSMP now s rnd c []) as [[r c'] ev'] eqn:E. destruct (np_userSMP now s rnd _ _ _ _ _ E I) as [I' Cr].
    split; [exact I'|]. intros t' tag Hin. exfalso. exact (clean_no_plain _ _ _ Cr Hin).
  - destruct (useExtraKey now u d c []) as [[r c'] ev'] eqn:E. destruct (np_useExtraKey now u d _ _ _ _ _ E I) as [I' Cr].
    split; [exact I'|]. intros t' tag Hin. exfalso. exact (clean_no_plain _ _ _ Cr Hin).
  - destruct (sendTLVs now tlvs c []) as [[r c'] ev'] eqn:E. destruct (np_sendTLVs now tlvs _ _ _ _ _ E I) as [I' Cr].
    split; [exact I'|]. intros t' tag Hin. exfalso. exact (clean_no_plain _ _ _ Cr Hin).
Qed.

(* every call of a history *)
Fixpoint all_plain_ok (c : conv) (h : list (N * call)) : Prop :=
  match h with
  | [] => True
  | (now, op) :: r => let '(c1, res) := step now c op in plain_ok c op res /\ all_plain_ok c1 r
  end.

Theorem history_plain h : forall c, SInv c -> all_plain_ok c h.
Proof.
  induction h as [|[now op] r IH]; intros c I; cbn [all_plain_ok]; [exact Logic.I|].
  pose proof (step_plain now c op I) as H. destruct (step now c op) as [c1 res]. destruct H as [I1 P].
  split; [exact P | apply IH; exact I1].
Qed.

Lemma SInv_init who pol key : SInv (conv_init who pol key).
Proof. constructor. Qed.

(* C03 over every history of a new conversation: whatever is sent to it and whatever the user does, a plaintext message
   leaves only as the direct output of Send(t), carrying that very text, at a moment when OTR is switched off or the
   conversation is in plaintext state without the require-encryption policy.  Everything else that leaves - also the
   texts queued while waiting for encryption and the message resent on request - is a query, an error message or an
   encoded message; texts travel only as payload of data messages built by genDataMsg (encrypted under the current
   sending key, C03_send_encrypted). *)
Theorem no_plaintext_when_encryption_is_due who pol key h : all_plain_ok (conv_init who pol key) h.
Proof. apply history_plain, SInv_init. Qed.
