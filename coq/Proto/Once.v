(* C05 at conversation level: a data message whose text was delivered is never delivered again within the session.
   [ke m]: after action m the session's key context is reached from the one before by receptions and sends of data
   messages (the events of Proto/ReplayProofs.v) - unless a security event reports that the session was replaced or
   ended.  Lifted through every definition of Proto/Conv.v; combined with the key-management theorem
   accepted_at_most_once and the delivery theorem of Proto/Delivery.v. *)
From OTR Require Import Go.Base Gen.Consts Bytes.Text Proto.SmpTypes Proto.Keys Proto.KeysProofs Proto.ReplayProofs Proto.Smp Proto.SmpInst Proto.Conv Proto.ConvProofs Proto.Lifecycle Proto.AkeAuth Proto.Delivery.
From RecordUpdate Require Import RecordSet.
Import RecordSetNotations.
Open Scope N_scope.

(* the session's key context after an action: reached from the one before by accepted data messages and data messages
   sent (the events of Proto/ReplayProofs.v) - unless the action raised a security event (the session was replaced or
   ended) *)
Definition kevolve (k k' : keyctx) : Prop := exists evs, k' = fold_left kstep evs k.
Lemma kevolve_refl k : kevolve k k. Proof. exists []. reflexivity. Qed.
Lemma kevolve_trans a b c : kevolve a b -> kevolve b c -> kevolve a c.
Proof. intros [e1 ->] [e2 ->]. exists (e1 ++ e2). rewrite fold_left_app. reflexivity. Qed.
Definition has_sec (l : list N) : Prop := ~ nosec l.
Lemma has_sec_app_l l1 l2 : has_sec l1 -> has_sec (l1 ++ l2).
Proof. intros H N. apply H. unfold nosec in *. apply Forall_app in N. tauto. Qed.
Lemma has_sec_app_r l1 l2 : has_sec l2 -> has_sec (l1 ++ l2).
Proof. intros H N. apply H. unfold nosec in *. apply Forall_app in N. tauto. Qed.

Definition ke_out (c : conv) (ev : list N) (c' : conv) (ev' : list N) : Prop :=
  exists new, ev' = ev ++ new /\ ((nosec new /\ kevolve (c_keys c) (c_keys c')) \/ has_sec new).
Definition ke {A} (m : M A) : Prop := forall c ev a c' ev', m c ev = (a, c', ev') -> ke_out c ev c' ev'.

Lemma ke_out_trans c ev c1 ev1 c2 ev2 : ke_out c ev c1 ev1 -> ke_out c1 ev1 c2 ev2 -> ke_out c ev c2 ev2.
Proof.
  intros [n1 [E1 H1]] [n2 [E2 H2]]. exists (n1 ++ n2). split; [rewrite E2, E1, app_assoc; reflexivity|].
  destruct H1 as [[N1 K1]|S1]; [|right; apply has_sec_app_l; exact S1].
  destruct H2 as [[N2 K2]|S2]; [|right; apply has_sec_app_r; exact S2].
  left. split; [apply Forall_app; split; assumption | exact (kevolve_trans _ _ _ K1 K2)].
Qed.
Lemma ke_bind {A B} (m : M A) (f : A -> M B) : ke m -> (forall a, ke (f a)) -> ke (bind m f).
Proof.
  intros Hm Hf c ev b c' ev' E. apply bind_eq in E as [a [c1 [ev1 [E1 E]]]].
  exact (ke_out_trans _ _ _ _ _ _ (Hm _ _ _ _ _ E1) (Hf a _ _ _ _ _ E)).
Qed.
Lemma ke_same c ev c' : c_keys c' = c_keys c -> ke_out c ev c' ev.
Proof. intros E. exists []. rewrite app_nil_r. split; [reflexivity|]. left. split; [constructor | rewrite E; apply kevolve_refl]. Qed.
Lemma ke_ret {A} (a : A) : ke (ret a). Proof. intros c ev a' c' ev' E. injection E as _ <- <-. apply ke_same. reflexivity. Qed.
Lemma ke_get : ke get. Proof. intros c ev a' c' ev' E. injection E as _ <- <-. apply ke_same. reflexivity. Qed.
Lemma ke_fresh : ke fresh. Proof. intros c ev a' c' ev' E. unfold fresh, draw in E. injection E as _ <- <-. apply ke_same. reflexivity. Qed.
Lemma ke_modify f : (forall c, c_keys (f c) = c_keys c) -> ke (modify f).
Proof. intros H c ev a' c' ev' E. injection E as _ <- <-. apply ke_same. apply H. Qed.
Lemma ke_pure {A} (f : conv -> list N -> A) : ke (fun c ev => (f c ev, c, ev)).
Proof. intros c ev a' c' ev' E. injection E as _ <- <-. apply ke_same. reflexivity. Qed.
Lemma ke_event e : ke (event e).
Proof.
  intros c ev a' c' ev' E. injection E as _ <- <-. exists [e]. split; [reflexivity|].
  destruct (is_sec e) eqn:Es.
  - right. intros N. inversion N as [|? ? H _]. congruence.
  - left. split; [constructor; [exact Es | constructor] | apply kevolve_refl].
Qed.
Lemma ke_smp_events l : ke (fun c ev => (tt, c, ev ++ map evSmp l)).
Proof.
  intros c ev a' c' ev' E. pose proof (fr_smp_events l _ _ _ _ _ E) as [_ [new [En Nn]]]. injection E as _ <- _.
  exists new. split; [exact En|]. left. split; [exact Nn | apply kevolve_refl].
Qed.

Create HintDb ke.
Ltac ke_tac :=
  repeat first
  [ solve [auto with ke]
  | progress cbv zeta
  | apply ke_ret | apply ke_get | apply ke_fresh | apply ke_pure | apply ke_event | apply ke_smp_events
  | (apply ke_modify; intros ?; reflexivity)
  | (apply ke_bind; [|intros ?])
  | match goal with
    | |- ke (if ?b then _ else _) => destruct b
    | |- ke (match ?x with _ => _ end) => destruct x
    | |- ke (let '(_, _) := ?x in _) => destruct x
    end ].

Lemma ke_commitToVersionFrom v : ke (commitToVersionFrom v). Proof. unfold commitToVersionFrom. ke_tac. Qed.
#[export] Hint Resolve ke_commitToVersionFrom : ke.
Lemma ke_generateInstanceTag : ke generateInstanceTag. Proof. unfold generateInstanceTag. ke_tac. Qed.
#[export] Hint Resolve ke_generateInstanceTag : ke.
Lemma ke_malformedMessage : ke malformedMessage. Proof. unfold malformedMessage. ke_tac. Qed.
#[export] Hint Resolve ke_malformedMessage : ke.
Lemma ke_verifyInstanceTags a b : ke (verifyInstanceTags a b). Proof. unfold verifyInstanceTags. ke_tac. Qed.
#[export] Hint Resolve ke_verifyInstanceTags : ke.
Lemma ke_messageHeader : ke messageHeader. Proof. unfold messageHeader. ke_tac. Qed.
#[export] Hint Resolve ke_messageHeader : ke.
Lemma ke_wrap b : ke (wrap b). Proof. unfold wrap. ke_tac. Qed.
#[export] Hint Resolve ke_wrap : ke.
Lemma ke_generatePotentialErrorMessage x : ke (generatePotentialErrorMessage x). Proof. unfold generatePotentialErrorMessage. ke_tac. Qed.
#[export] Hint Resolve ke_generatePotentialErrorMessage : ke.
Lemma ke_withInjects x : ke (withInjects x). Proof. unfold withInjects. ke_tac. Qed.
#[export] Hint Resolve ke_withInjects : ke.
Lemma ke_updateLastSent x : ke (updateLastSent x). Proof. unfold updateLastSent. ke_tac. Qed.
#[export] Hint Resolve ke_updateLastSent : ke.

Definition ck' (c : conv) := c_keys c.
Lemma ckk_messageHeader : fp ck' messageHeader. Proof. unfold messageHeader. fp_tac. Qed.

Lemma ke_genDataMsgWithFlag t f l r : ke (genDataMsgWithFlag t f l r).
Proof.
  intros c ev a c' ev' E. unfold genDataMsgWithFlag in E.
  apply bind_eq in E as [cg [c0 [ev0 [Eg E]]]]. apply get_eq in Eg. injection Eg as -> -> ->.
  apply if_eq in E as [[_ E]|[_ E]]; [apply ret_eq in E; injection E as _ <- <-; apply ke_same; reflexivity|].
  destruct (sessionKeysFor (c_keys c) (ourKeyID (c_keys c) - 1) (theirKeyID (c_keys c))) as [keys|e|].
  2:{ apply ret_eq in E; injection E as _ <- <-; apply ke_same; reflexivity. }
  2:{ apply ret_eq in E; injection E as _ <- <-; apply ke_same; reflexivity. }
  apply bind_eq in E as [h [c1 [ev1 [E1 E]]]]. pose proof (ckk_messageHeader _ _ _ _ _ E1) as K1. unfold ck' in K1.
  destruct (fr_messageHeader _ _ _ _ _ E1) as [_ [n1 [N1 F1]]].
  apply bind_eq in E as [cg [c1' [ev1' [Eg E]]]]. apply get_eq in Eg. injection Eg as -> -> ->.
  destruct (genDataMsg (c_keys c1) h f {| p_text := t; p_tlvs := l |}) as [[[d k'] x]|e|] eqn:Eg.
  2:{ apply ret_eq in E; injection E as _ <- <-. exists n1. split; [exact N1|]. left. split; [exact F1 | rewrite K1; apply kevolve_refl]. }
  2:{ apply ret_eq in E; injection E as _ <- <-. exists n1. split; [exact N1|]. left. split; [exact F1 | rewrite K1; apply kevolve_refl]. }
  apply bind_eq in E as [u [c2 [ev2 [E2 E]]]]. unfold modify in E2. injection E2 as _ Ec2 Ee2. subst c2 ev2.
  apply ret_eq in E. injection E as _ Ec Ee. subst c' ev'.
  exists n1. split; [exact N1|]. left. split; [exact F1|].
  exists [KGen h f {| p_text := t; p_tlvs := l |}]. cbn [fold_left kstep c_keys]. rewrite <- K1, Eg. reflexivity.
Qed.
#[export] Hint Resolve ke_genDataMsgWithFlag : ke.

Lemma ke_createSerializedDataMessage n t f l : ke (createSerializedDataMessage n t f l). Proof. unfold createSerializedDataMessage. ke_tac. Qed.
#[export] Hint Resolve ke_createSerializedDataMessage : ke.
Lemma ke_retransmit_loop msgs : forall p acc, ke (retransmit_loop msgs p acc).
Proof. induction msgs as [|m r IH]; intros p acc; cbn [retransmit_loop]; ke_tac. Qed.
#[export] Hint Resolve ke_retransmit_loop : ke.
Lemma ke_emit_n n e : ke (emit_n n e).
Proof. induction n as [|k IH]; cbn [emit_n]; [ke_tac|]. apply ke_bind; [apply ke_event | intros _; exact IH]. Qed.
#[export] Hint Resolve ke_emit_n : ke.
Lemma ke_maybeRetransmit n : ke (maybeRetransmit n). Proof. unfold maybeRetransmit. ke_tac. Qed.
#[export] Hint Resolve ke_maybeRetransmit : ke.
Lemma ke_retransmitAfterAKE n : ke (retransmitAfterAKE n). Proof. unfold retransmitAfterAKE. ke_tac. Qed.
#[export] Hint Resolve ke_retransmitAfterAKE : ke.
Lemma ke_set_ake f : ke (set_ake f). Proof. unfold set_ake. ke_tac. Qed.
#[export] Hint Resolve ke_set_ake : ke.
Lemma ke_sendDHCommit : ke sendDHCommit. Proof. unfold sendDHCommit. ke_tac. Qed.
#[export] Hint Resolve ke_sendDHCommit : ke.
Lemma ke_calcAKEKeys s : ke (calcAKEKeys s). Proof. unfold calcAKEKeys. ke_tac. Qed.
#[export] Hint Resolve ke_calcAKEKeys : ke.
Lemma ke_setSentRevealSig s : ke (setSentRevealSig s). Proof. unfold setSentRevealSig. ke_tac. Qed.
#[export] Hint Resolve ke_setSentRevealSig : ke.
Lemma ke_generateEncryptedSignature s : ke (generateEncryptedSignature s). Proof. unfold generateEncryptedSignature. ke_tac. Qed.
#[export] Hint Resolve ke_generateEncryptedSignature : ke.
Lemma ke_processEncryptedSig a b s : ke (processEncryptedSig a b s). Proof. unfold processEncryptedSig. ke_tac. Qed.
#[export] Hint Resolve ke_processEncryptedSig : ke.
Lemma ke_receiveDHCommit_none b : ke (receiveDHCommit_none b). Proof. unfold receiveDHCommit_none. ke_tac. Qed.
#[export] Hint Resolve ke_receiveDHCommit_none : ke.
(* completion of an exchange replaces the session: it raises GoneSecure or StillSecure *)
Lemma ke_akeHasFinished now : ke (akeHasFinished now).
Proof.
  intros c ev a c' ev' E. pose proof (akeHasFinished_spec now c ev) as H. rewrite E in H. destruct H as [_ [He _]].
  eexists. split; [exact He|]. right. intros N. inversion N as [|? ? H1 _]. subst.
  destruct (c_msgState c =? c_encrypted); discriminate.
Qed.
#[export] Hint Resolve ke_akeHasFinished : ke.
Lemma ke_processAKE_body now ty body aux : ke (processAKE_body now ty body aux). Proof. unfold processAKE_body. ke_tac. Qed.
#[export] Hint Resolve ke_processAKE_body : ke.
Lemma ke_processAKE now ty body aux : ke (processAKE now ty body aux). Proof. unfold processAKE. ke_tac. Qed.
#[export] Hint Resolve ke_processAKE : ke.

Definition tl_out (c : conv) (ev : list N) (c' : conv) (ev' : list N) : Prop :=
  exists new, ev' = ev ++ new /\
    ((nosec new /\ c_keys c' = c_keys c /\ c_msgState c' = c_encrypted) \/ has_sec new).

(* the TLVs of an accepted data message: either nothing happens to the session, or the peer's disconnect ends it with
   the GoneInsecure event *)
Lemma processTLVs_out rnd tlvs : forall x acc c ev a c' ev', processTLVs rnd tlvs x acc c ev = (a, c', ev') ->
  c_msgState c = c_encrypted -> tl_out c ev c' ev'.
Proof.
  induction tlvs as [|t r IH]; intros x acc c ev a c' ev' E He; cbn [processTLVs] in E.
  - apply ret_eq in E. injection E as _ <- <-. exists []. rewrite app_nil_r. split; [reflexivity|]. left. repeat split; [constructor | exact He].
  - destruct t as [| |ty pl|usage data|ty].
    + exact (IH _ _ _ _ _ _ _ E He).
    + (* the peer's disconnect *)
      apply bind_eq in E as [cg [c0 [ev0 [Eg E]]]]. apply get_eq in Eg. injection Eg as -> -> ->. cbv zeta in E.
      apply bind_eq in E as [u1 [c1 [ev1 [E1 E]]]]. unfold modify in E1. injection E1 as _ Ec1 Ee1. subst c1 ev1.
      apply bind_eq in E as [u2 [c2 [ev2 [E2 E]]]].
      rewrite He, N.eqb_refl in E2. unfold event in E2. injection E2 as _ Ec2 Ee2. subst c2 ev2.
      apply ret_eq in E. injection E as _ Ec' Ee'. subst c' ev'.
      exists ([evSec c_GoneInsecure] ++ []). split; [rewrite app_nil_r; reflexivity|].
      right. apply has_sec_app_l. intros N. inversion N as [|? ? H1 _]. discriminate.
    + (* SMP *)
      apply bind_eq in E as [cg [c0 [ev0 [Eg E]]]]. apply get_eq in Eg. injection Eg as -> -> ->. cbv zeta in E.
      apply bind_eq in E as [u1 [c1 [ev1 [E1 E]]]]. unfold modify in E1. injection E1 as _ Ec1 Ee1. subst c1 ev1.
      apply bind_eq in E as [u2 [c2 [ev2 [E2 E]]]].
      destruct (fr_smp_events _ _ _ _ _ _ E2) as [_ [n2 [N2 F2]]]. injection E2 as _ Ec2 _. subst c2.
      assert (Base : tl_out c ev (c <| c_smp := sr_st (smp_receive_i (smp_ensure (c_smp c)) (smp_ctx_of c) ty pl rnd) |>) ev2).
      { exists n2. split; [exact N2|]. left. repeat split; [exact F2 | exact He]. }
      apply if_eq in E as [[_ E]|[_ E]]; [apply ret_eq in E; injection E as _ -> ->; exact Base|].
      apply if_eq in E as [[_ E]|[_ E]]; [apply ret_eq in E; injection E as _ -> ->; exact Base|].
      destruct (IH _ _ _ _ _ _ _ E He) as [n3 [N3 H3]].
      exists (n2 ++ n3). split; [rewrite N3, N2, app_assoc; reflexivity|].
      destruct H3 as [[F3 [K3 S3]]|S3]; [left | right; apply has_sec_app_r; exact S3].
      repeat split; [apply Forall_app; split; assumption | rewrite K3; reflexivity | exact S3].
    + (* extra symmetric key *)
      apply bind_eq in E as [u1 [c1 [ev1 [E1 E]]]]. unfold event in E1. injection E1 as _ Ec1 Ee1. subst c1 ev1.
      destruct (IH _ _ _ _ _ _ _ E He) as [n3 [N3 H3]].
      exists ([evKey] ++ n3). split; [rewrite N3, <- app_assoc; reflexivity|].
      destruct H3 as [[F3 [K3 S3]]|S3]; [left | right; apply has_sec_app_r; exact S3].
      repeat split; [constructor; [reflexivity | exact F3] | exact K3 | exact S3].
    + exact (IH _ _ _ _ _ _ _ E He).
Qed.

Definition mk (c : conv) := (c_msgState c, c_keys c).

(* a data message: rejected (nothing moves), or accepted - the key context moves by exactly that reception and by the
   reply, if any - unless a disconnect inside it ends the session *)
Lemma ke_processDataMessage now d rnd : ke (processDataMessage now d rnd).
Proof.
  intros c ev a c' ev' E. unfold processDataMessage in E.
  apply bind_eq in E as [cg [c0 [ev0 [Eg E]]]]. apply get_eq in Eg. injection Eg as -> -> ->.
  apply if_eq in E as [[_ E]|[Hb E]].
  { match type of E with ?m c ev = _ => assert (Hn : ke m) by ke_tac end. exact (Hn _ _ _ _ _ E). }
  apply negb_false_iff, N.eqb_eq in Hb. cbv zeta in E.
  destruct (recvDataMsg (c_keys c) d (fst (draw c))) as [[[pl k'] xk]|e|] eqn:Er.
  2:{ apply ret_eq in E. injection E as _ <- <-. apply ke_same. reflexivity. }
  2:{ apply ret_eq in E. injection E as _ <- <-. apply ke_same. reflexivity. }
  apply bind_eq in E as [u1 [c1 [ev1 [E1 E]]]].
  assert (S1 : mk c1 = mk c /\ exists n1, ev1 = ev ++ n1 /\ nosec n1).
  { destruct (p_text pl); [unfold event in E1 | apply ret_eq in E1]; injection E1 as _ Ec Ee; subst c1 ev1.
    - split; [reflexivity|]. eexists. split; [reflexivity|]. constructor; [reflexivity | constructor].
    - split; [reflexivity|]. exists []. rewrite app_nil_r. split; [reflexivity | constructor]. }
  destruct S1 as [S1 [n1 [N1 F1]]]. unfold mk in S1. injection S1 as S11 S12.
  apply bind_eq in E as [u2 [c2 [ev2 [E2 E]]]]. unfold modify in E2. injection E2 as _ Ec2 Ee2. subst c2 ev2.
  apply bind_eq in E as [tl [c3 [ev3 [E3 E]]]].
  assert (He2 : c_msgState (c1 <| c_keys := k' |> <| c_fresh := c_fresh c1 + 1 |>) = c_encrypted) by (cbn; congruence).
  destruct (processTLVs_out _ _ _ _ _ _ _ _ _ E3 He2) as [n3 [N3 H3]].
  assert (K2 : kevolve (c_keys c) k') by (exists [KRecv d (fst (draw c))]; cbn [fold_left kstep]; rewrite Er; reflexivity).
  match type of E with ?m c3 ev3 = _ => assert (Hn : ke m) by ke_tac end.
  destruct (Hn _ _ _ _ _ E) as [n4 [N4 H4]].
  exists (n1 ++ n3 ++ n4). split; [rewrite N4, N3, N1, <- !app_assoc; reflexivity|].
  destruct H3 as [[F3 [K3 _]]|S3]; [|right; apply has_sec_app_r, has_sec_app_l; exact S3].
  destruct H4 as [[F4 K4]|S4]; [|right; apply has_sec_app_r, has_sec_app_r; exact S4].
  left. split; [apply Forall_app; split; [exact F1 | apply Forall_app; split; assumption]|].
  apply (kevolve_trans _ k'); [exact K2|]. assert (K3' : c_keys c3 = k') by exact K3. rewrite <- K3'. exact K4.
Qed.
#[export] Hint Resolve ke_processDataMessage : ke.

Lemma ke_potentialHeartbeat now p : ke (potentialHeartbeat now p). Proof. unfold potentialHeartbeat. ke_tac. Qed.
#[export] Hint Resolve ke_potentialHeartbeat : ke.
Lemma ke_receiveDataMessage now d rnd : ke (receiveDataMessage now d rnd). Proof. unfold receiveDataMessage. ke_tac. Qed.
#[export] Hint Resolve ke_receiveDataMessage : ke.
Lemma ke_checkPlaintextPolicies : ke checkPlaintextPolicies. Proof. unfold checkPlaintextPolicies. ke_tac. Qed.
#[export] Hint Resolve ke_checkPlaintextPolicies : ke.
Lemma ke_receiveQueryMessage now v : ke (receiveQueryMessage now v). Proof. unfold receiveQueryMessage. ke_tac. Qed.
#[export] Hint Resolve ke_receiveQueryMessage : ke.
Lemma ke_receiveDecoded now ver stag rtag body aux rnd : ke (receiveDecoded now ver stag rtag body aux rnd).
Proof. unfold receiveDecoded. ke_tac. Qed.
#[export] Hint Resolve ke_receiveDecoded : ke.
Lemma ke_forgetVersion b e : ke (forgetVersion b e). Proof. unfold forgetVersion. ke_tac. Qed.
#[export] Hint Resolve ke_forgetVersion : ke.
Lemma ke_forgetTag b e : ke (forgetTag b e). Proof. unfold forgetTag. ke_tac. Qed.
#[export] Hint Resolve ke_forgetTag : ke.
Lemma ke_finish p o e : ke (finish p o e). Proof. unfold finish. ke_tac. Qed.
#[export] Hint Resolve ke_finish : ke.
Lemma ke_finishSend o e : ke (finishSend o e). Proof. unfold finishSend. ke_tac. Qed.
#[export] Hint Resolve ke_finishSend : ke.
Lemma ke_receive now w aux rnd : ke (receive now w aux rnd). Proof. unfold receive. ke_tac. Qed.
Lemma ke_send now t : ke (send now t). Proof. unfold send. ke_tac. Qed.
Lemma ke_userSMP now s rnd : ke (userSMP now s rnd). Proof. unfold userSMP. ke_tac. Qed.
Lemma ke_sendTLVs now t : ke (sendTLVs now t). Proof. unfold sendTLVs. ke_tac. Qed.
Lemma ke_useExtraKey now u d : ke (useExtraKey now u d). Proof. unfold useExtraKey. ke_tac. Qed.

(* one call other than End that raises no security event: the session's key context moves only by receptions and sends *)
Theorem step_kevolve now c op : op <> CEnd ->
  let '(c', r) := step now c op in nosec (r_events r) -> kevolve (c_keys c) (c_keys c').
Proof.
  intros Hop. unfold step. destruct op as [t|w aux rnd| |s rnd|u d|tlvs]; try contradiction.
  - destruct (send now t c []) as [[r c'] ev'] eqn:E. rewrite (reports_send _ _ _ _ _ _ _ E).
    destruct (ke_send now t _ _ _ _ _ E) as [new [-> [[_ K]|S]]]; [auto | intros N; contradiction].
  - destruct (receive now w aux rnd c []) as [[r c'] ev'] eqn:E. rewrite (reports_receive _ _ _ _ _ _ _ _ _ E).
    destruct (ke_receive now w aux rnd _ _ _ _ _ E) as [new [-> [[_ K]|S]]]; [auto | intros N; contradiction].
  - destruct (userSMP now s rnd c []) as [[r c'] ev'] eqn:E. rewrite (reports_userSMP _ _ _ _ _ _ _ _ E).
    destruct (ke_userSMP now s rnd _ _ _ _ _ E) as [new [-> [[_ K]|S]]]; [auto | intros N; contradiction].
  - destruct (useExtraKey now u d c []) as [[r c'] ev'] eqn:E. rewrite (reports_useExtraKey _ _ _ _ _ _ _ _ E).
    destruct (ke_useExtraKey now u d _ _ _ _ _ E) as [new [-> [[_ K]|S]]]; [auto | intros N; contradiction].
  - destruct (sendTLVs now tlvs c []) as [[r c'] ev'] eqn:E. rewrite (reports_sendTLVs _ _ _ _ _ _ _ E).
    destruct (ke_sendTLVs now tlvs _ _ _ _ _ E) as [new [-> [[_ K]|S]]]; [auto | intros N; contradiction].
Qed.

(* a stretch of a history inside one session: no End, no security event *)
Fixpoint no_end (h : list (N * call)) : Prop :=
  match h with [] => True | (_, op) :: r => op <> CEnd /\ no_end r end.
Theorem run_kevolve h : forall c, no_end h ->
  let '(c', evs) := run_calls c h in nosec evs -> kevolve (c_keys c) (c_keys c').
Proof.
  induction h as [|[now op] r IH]; intros c Hn; cbn [run_calls]; [intros _; apply kevolve_refl|].
  destruct Hn as [Ho Hr]. pose proof (step_kevolve now c op Ho) as H1. destruct (step now c op) as [c1 res].
  specialize (IH c1 Hr). destruct (run_calls c1 r) as [c2 evs]. intros N. unfold nosec in N. apply Forall_app in N as [N1 N2].
  exact (kevolve_trans _ _ _ (H1 N1) (IH N2)).
Qed.

(* after the acceptance of d (key context k' right after it): the context evolves from k' unless a security event shows *)
Definition core_out (k' : keyctx) (ev : list N) (c' : conv) (ev' : list N) : Prop :=
  exists new, ev' = ev ++ new /\ ((nosec new /\ kevolve k' (c_keys c')) \/ has_sec new).
Lemma core_suffix k' ev c1 ev1 c2 ev2 : core_out k' ev c1 ev1 -> ke_out c1 ev1 c2 ev2 -> core_out k' ev c2 ev2.
Proof.
  intros [n1 [E1 H1]] [n2 [E2 H2]]. exists (n1 ++ n2). split; [rewrite E2, E1, app_assoc; reflexivity|].
  destruct H1 as [[N1 K1]|S1]; [|right; apply has_sec_app_l; exact S1].
  destruct H2 as [[N2 K2]|S2]; [|right; apply has_sec_app_r; exact S2].
  left. split; [apply Forall_app; split; assumption | exact (kevolve_trans _ _ _ K1 K2)].
Qed.
Lemma core_prefix k' ev n0 c2 ev2 : nosec n0 -> core_out k' (ev ++ n0) c2 ev2 -> core_out k' ev c2 ev2.
Proof.
  intros N0 [n1 [E1 H1]]. exists (n0 ++ n1). split; [rewrite E1, app_assoc; reflexivity|].
  destruct H1 as [[N1 K1]|S1]; [left; split; [apply Forall_app; split; assumption | exact K1] | right; apply has_sec_app_r; exact S1].
Qed.

Definition accepted_core (c : conv) (d : sdata) (t : bytes) (ev : list N) (c' : conv) (ev' : list N) : Prop :=
  exists x pl k' xk, recvDataMsg (c_keys c) d x = Ok (pl, k', xk) /\ core_out k' ev c' ev'.

Lemma pdm_core now d rnd c ev a c' ev' t : processDataMessage now d rnd c ev = (a, c', ev') ->
  fst (fst a) = Some t -> accepted_core c d t ev c' ev'.
Proof.
  intros E Ht. unfold processDataMessage in E.
  apply bind_eq in E as [cg [c0 [ev0 [Eg E]]]]. apply get_eq in Eg. injection Eg as -> -> ->.
  apply if_eq in E as [[_ E]|[Hb E]].
  { apply bind_eq in E as [u [c1 [ev1 [_ E]]]]. apply ret_eq in E. injection E as -> _ _. discriminate. }
  apply negb_false_iff, N.eqb_eq in Hb. cbv zeta in E.
  destruct (recvDataMsg (c_keys c) d (fst (draw c))) as [[[pl k'] xk]|e|] eqn:Er.
  2:{ apply ret_eq in E. injection E as -> _ _. discriminate. }
  2:{ apply ret_eq in E. injection E as -> _ _. discriminate. }
  exists (fst (draw c)), pl, k', xk. split; [exact Er|].
  apply bind_eq in E as [u1 [c1 [ev1 [E1 E]]]].
  assert (S1 : mk c1 = mk c /\ exists n1, ev1 = ev ++ n1 /\ nosec n1).
  { destruct (p_text pl); [unfold event in E1 | apply ret_eq in E1]; injection E1 as _ Ec Ee; subst c1 ev1.
    - split; [reflexivity|]. eexists. split; [reflexivity|]. constructor; [reflexivity | constructor].
    - split; [reflexivity|]. exists []. rewrite app_nil_r. split; [reflexivity | constructor]. }
  destruct S1 as [S1 [n1 [N1 F1]]]. unfold mk in S1. injection S1 as S11 S12. subst ev1.
  apply (core_prefix _ _ n1 _ _ F1).
  apply bind_eq in E as [u2 [c2 [ev2 [E2 E]]]]. unfold modify in E2. injection E2 as _ Ec2 Ee2. subst c2 ev2.
  apply bind_eq in E as [tl [c3 [ev3 [E3 E]]]].
  assert (He2 : c_msgState (c1 <| c_keys := k' |> <| c_fresh := c_fresh c1 + 1 |>) = c_encrypted) by (cbn; congruence).
  destruct (processTLVs_out _ _ _ _ _ _ _ _ _ E3 He2) as [n3 [N3 H3]].
  match type of E with ?m c3 ev3 = _ => assert (Hn : ke m) by ke_tac end.
  apply (core_suffix _ _ c3 ev3); [|exact (Hn _ _ _ _ _ E)].
  exists n3. split; [exact N3|]. destruct H3 as [[F3 [K3 _]]|S3]; [left | right; exact S3].
  split; [exact F3|]. assert (K3' : c_keys c3 = k') by exact K3. rewrite K3'. apply kevolve_refl.
Qed.

Lemma rdm_core now d rnd c ev a c' ev' t : receiveDataMessage now d rnd c ev = (a, c', ev') ->
  fst (fst a) = Some t -> accepted_core c d t ev c' ev'.
Proof.
  intros E Ht. unfold receiveDataMessage in E. apply bind_eq in E as [r [c1 [ev1 [E1 E]]]].
  destruct r as [[plain out] err0]. cbv zeta in E.
  assert (Hp : plain = Some t).
  { apply bind_eq in E as [r2 [c2 [ev2 [E2 E]]]]. destruct r2 as [[plain2 out2] err2].
    apply bind_eq in E as [u [c3 [ev3 [_ E]]]]. apply ret_eq in E. injection E as -> _ _. cbn [fst] in Ht. subst plain2.
    apply if_eq in E2 as [[_ E2]|[_ E2]].
    - apply if_eq in E2 as [[_ E2]|[_ E2]].
      + apply ret_eq in E2. injection E2 as E2 _ _ _ _. discriminate.
      + apply bind_eq in E2 as [hb [c4 [ev4 [_ E2]]]]. apply ret_eq in E2. injection E2 as E2 _ _ _ _. congruence.
    - apply ret_eq in E2. injection E2 as E2 _ _ _ _. discriminate. }
  subst plain. destruct (pdm_core _ _ _ _ _ _ _ _ t E1 eq_refl) as [x [pl [k' [xk [Hr Hc]]]]].
  exists x, pl, k', xk. split; [exact Hr|].
  match type of E with ?m c1 ev1 = _ => assert (Hn : ke m) by ke_tac end.
  exact (core_suffix _ _ _ _ _ _ Hc (Hn _ _ _ _ _ E)).
Qed.

Lemma rdec_core now ver stag rtag d aux rnd c ev a c' ev' t :
  receiveDecoded now ver stag rtag (EData d) aux rnd c ev = (a, c', ev') -> fst (fst a) = Some t ->
  accepted_core c d t ev c' ev'.
Proof.
  intros E Ht. unfold receiveDecoded in E. apply bind_eq in E as [e [c1 [ev1 [E1 E]]]].
  pose proof (km_commitToVersionFrom _ _ _ _ _ _ E1) as K1. destruct (fr_commitToVersionFrom _ _ _ _ _ _ E1) as [_ [n1 [N1 F1]]].
  apply if_eq in E as [[_ E]|[_ E]]; [apply ret_eq in E; injection E as -> _ _; discriminate|].
  apply bind_eq in E as [cg [c1' [ev1' [Eg E]]]]. apply get_eq in Eg. injection Eg as -> -> ->.
  apply if_eq in E as [[_ E]|[_ E]]; [apply ret_eq in E; injection E as -> _ _; discriminate|].
  apply bind_eq in E as [tg [c2 [ev2 [E2 E]]]].
  assert (K2 : km c2 = km c1 /\ exists n2, ev2 = ev1 ++ n2 /\ nosec n2).
  { apply if_eq in E2 as [[_ E2]|[_ E2]].
    - split; [exact (km_verifyInstanceTags _ _ _ _ _ _ _ E2)|]. destruct (fr_verifyInstanceTags _ _ _ _ _ _ _ E2) as [_ H]. exact H.
    - apply ret_eq in E2. injection E2 as _ -> ->. split; [reflexivity|]. exists []. rewrite app_nil_r. split; [reflexivity | constructor]. }
  destruct K2 as [K2 [n2 [N2 F2]]].
  apply if_eq in E as [[_ E]|[_ E]]; [apply ret_eq in E; injection E as -> _ _; discriminate|].
  apply if_eq in E as [[_ E]|[_ E]]; [apply ret_eq in E; injection E as -> _ _; discriminate|].
  destruct (rdm_core _ _ _ _ _ _ _ _ t E Ht) as [x [pl [k' [xk [Hr Hc]]]]].
  exists x, pl, k', xk. split.
  - unfold km in K1, K2. injection K1 as K11 _ _. injection K2 as K21 _ _. rewrite <- K11, <- K21. exact Hr.
  - subst ev1 ev2. rewrite <- app_assoc in Hc. apply (core_prefix _ _ (n1 ++ n2)); [apply Forall_app; split; assumption | exact Hc].
Qed.

(* the call that delivers the text of data message d: d was accepted by the key management, and at the end of the call the
   key context has evolved from the one right after that acceptance - unless a security event was raised *)
Lemma receive_core now ver stag rtag d aux rnd c ev r c' ev' t :
  receive now (WEnc ver stag rtag (EData d)) aux rnd c ev = (r, c', ev') -> r_plain r = Some t ->
  accepted_core c d t ev c' ev'.
Proof.
  intros E Ht. unfold receive in E. apply bind_eq in E as [cg [c0 [ev0 [Eg E]]]]. apply get_eq in Eg. injection Eg as -> -> ->.
  apply if_eq in E as [[_ E]|[_ E]]; [injection E as <- _ _; discriminate|].
  apply bind_eq in E as [cg [c0 [ev0 [Eg E]]]]. apply get_eq in Eg. injection Eg as -> -> ->.
  apply bind_eq in E as [r1 [c1 [ev1 [E1 E]]]]. destruct r1 as [[plain out] err].
  apply bind_eq in E as [u1 [c2 [ev2 [E2 E]]]]. apply bind_eq in E as [u2 [c3 [ev3 [E3 E]]]].
  destruct (finish_plain _ _ _ _ _ _ _ _ E) as [F1 _]. rewrite F1 in Ht. subst plain.
  destruct (rdec_core _ _ _ _ _ _ _ _ _ _ _ _ t E1 eq_refl) as [x [pl [k' [xk [Hr Hc]]]]].
  exists x, pl, k', xk. split; [exact Hr|].
  apply (core_suffix _ _ c3 ev3); [|exact (ke_finish _ _ _ _ _ _ _ _ E)].
  apply (core_suffix _ _ c2 ev2); [|exact (ke_forgetTag _ _ _ _ _ _ _ E3)].
  apply (core_suffix _ _ c1 ev1); [exact Hc | exact (ke_forgetVersion _ _ _ _ _ _ _ E2)].
Qed.

(* C05 at conversation level: a data message whose text was delivered is not delivered again, however long the session
   goes on in between (any calls but End, as long as no security event reports that the session was replaced or ended) *)
Theorem delivered_once now c ver stag rtag d aux rnd t h now' ver' stag' rtag' aux' rnd' :
  let '(c1, r1) := step now c (CReceive (WEnc ver stag rtag (EData d)) aux rnd) in
  r_plain r1 = Some t -> nosec (r_events r1) ->
  no_end h ->
  let '(c2, evs) := run_calls c1 h in
  nosec evs ->
  let '(c3, r3) := step now' c2 (CReceive (WEnc ver' stag' rtag' (EData d)) aux' rnd') in
  r_plain r3 = None.
Proof.
  unfold step at 1. destruct (receive now (WEnc ver stag rtag (EData d)) aux rnd c []) as [[r1 c1] ev1] eqn:E1.
  intros Ht N1 Hn. rewrite (reports_receive _ _ _ _ _ _ _ _ _ E1) in N1.
  destruct (receive_core _ _ _ _ _ _ _ _ _ _ _ _ t E1 Ht) as [x [pl [k' [xk [Hr [new [En Hc]]]]]]].
  cbn [app] in En. subst ev1. destruct Hc as [[_ K1]|S1]; [|contradiction].
  pose proof (run_kevolve h c1 Hn) as H2. destruct (run_calls c1 h) as [c2 evs]. intros N2. specialize (H2 N2).
  pose proof (kevolve_trans _ _ _ K1 H2) as [evs' Hk].
  unfold step. destruct (receive now' (WEnc ver' stag' rtag' (EData d)) aux' rnd' c2 []) as [[r3 c3] ev3] eqn:E3.
  destruct (r_plain r3) as [t3|] eqn:Ep; [|reflexivity]. exfalso.
  destruct (receive_plain _ _ _ _ _ _ _ _ _ _ E3 Ep) as [[tag [Hw _]]|[v' [s' [r' [d' [cx [Hw [Kx Ax]]]]]]]]; [discriminate|].
  injection Hw as _ _ _ <-. destruct Ax as [_ [_ [pl3 [k3 [xk3 [Hr3 _]]]]]].
  unfold km in Kx. injection Kx as Kx _ _. rewrite Kx, Hk in Hr3.
  pose proof (accepted_at_most_once _ _ _ _ _ _ Hr evs' (fst (draw cx))) as Hno. rewrite Hr3 in Hno. exact Hno.
Qed.
