(* C01 over histories: whenever a conversation reports itself encrypted, it has received a signature made by the owner
   of the peer key it reports, over M containing exactly the two D-H values whose secret gives the session id it
   reports, the peer's value being in range - for EVERY history of calls with arbitrary input.

   Method (as in Proto/Lifecycle.v): predicates on the actions of the conversation monad, closed under bind, walked
   through every definition of Proto/Conv.v by a tactic:
     fa m     m moves neither (message state, reported peer key, session id) nor the part of the exchange context the
              Signature check rests on (state, our / their D-H value, secret, session id of the exchange);
     ak S m   m keeps the exchange context consistent ([Ksig]: while the Signature message is awaited, the secret is the
              one of our and their value, their value is in range, the exchange's session id is that secret's) and its
              outcome is fine ([out_ok]: nothing of the statement moved, or not encrypted, or authenticated by a
              signature of S).
   The accepting branches of the key exchange (D-H Key, Reveal Signature, Signature) are the hand-proved atoms; they
   are proved by inversion lemmas only (bind_eq, if_eq, ...): destructing a concrete action applied to a state leaves
   conversions that the kernel resolves by unfolding [bind] through the whole program. *)
From OTR Require Import Go.Base Gen.Consts Bytes.Text Proto.SmpTypes Proto.Keys Proto.Smp Proto.SmpInst Proto.Conv Proto.ConvProofs Proto.Lifecycle.
From RecordUpdate Require Import RecordSet.
Import RecordSetNotations.
Open Scope N_scope.

(* what the authentication statement is about, and the part of the key-exchange context it rests on *)
Definition oa (c : conv) := (c_msgState c, c_theirKey c, c_ssid c).
Definition has_ake (c : conv) : bool := match c_ake c with Some _ => true | None => false end.
Definition ka (c : conv) := let a := the_ake c in (a_state a, a_exp a, a_their a, a_shared a, a_ssid a, has_ake c).

(* while the Signature message is awaited the exchange context is consistent: the secret is the one of our and
   their D-H value, their value is in range, the session id is the one of that secret *)
Definition Ksig (c : conv) : Prop := a_state (the_ake c) = 3 ->
  ake_shared c = mk_shared (ake_ours c) (ake_theirs c) /\ a_ssid (the_ake c) = Some (ake_shared c) /\
  isGroupElement (ake_theirs c) = true.

(* the reported peer key and session id are those of a signature seen: made by the owner of the reported key over M
   with the D-H values the session secret was computed from *)
Definition authd (S : list encsig) (k : option kid) (sid : option shared) : Prop :=
  exists es x gy w, In es S /\ es_signer es = es_pub es /\ k = Some (es_pub es) /\ sid = Some (mk_shared x gy) /\
    isGroupElement gy = true /\
    es_over es = {| mb_key := {| ak_sh := mk_shared x gy; ak_which := w |}; mb_gfirst := gy; mb_gsecond := x;
                    mb_pub := es_pub es; mb_keyid := es_keyid es |}.
Definition authd_c (S : list encsig) (c : conv) : Prop := authd S (c_theirKey c) (c_ssid c).

Lemma ka_Ksig c c' : ka c' = ka c -> Ksig c -> Ksig c'.
Proof.
  unfold ka, Ksig, ake_shared, ake_ours, ake_theirs. intros E. injection E as E1 E2 E3 E4 E5 _.
  rewrite E1, E2, E3, E4, E5. auto.
Qed.
Lemma oa_authd S c c' : oa c' = oa c -> authd_c S c -> authd_c S c'.
Proof. unfold oa, authd_c. intros E. injection E as E1 E2 E3. rewrite E2, E3. auto. Qed.

(* frame for both projections *)
Definition fa {A} (m : M A) : Prop := forall c ev a c' ev', m c ev = (a, c', ev') -> oa c' = oa c /\ ka c' = ka c.
(* outcome of an action: nothing the statement is about moved, or the conversation is not encrypted, or it is
   authenticated by a signature of S *)
Definition out_ok (S : list encsig) (c c' : conv) : Prop :=
  oa c' = oa c \/ c_msgState c' <> c_encrypted \/ authd_c S c'.
Definition au0 (S : list encsig) {A} (m : M A) : Prop := forall c ev a c' ev', m c ev = (a, c', ev') -> out_ok S c c'.
Definition au (S : list encsig) {A} (m : M A) : Prop := forall c ev a c' ev', m c ev = (a, c', ev') -> Ksig c -> out_ok S c c'.
Definition kp {A} (m : M A) : Prop := forall c ev a c' ev', m c ev = (a, c', ev') -> Ksig c -> Ksig c'.

Lemma out_ok_trans S c c1 c' : out_ok S c c1 -> out_ok S c1 c' -> out_ok S c c'.
Proof.
  intros [H1|[H1|H1]] [H2|[H2|H2]]; unfold out_ok.
  - left. congruence.
  - right; left. exact H2.
  - right; right. exact H2.
  - right; left. unfold oa in H2. injection H2 as E _ _. congruence.
  - right; left. exact H2.
  - right; right. exact H2.
  - right; right. apply (oa_authd S c1); assumption.
  - right; left. exact H2.
  - right; right. exact H2.
Qed.

Lemma fa_au0 S {A} (m : M A) : fa m -> au0 S m.
Proof. intros H c ev a c' ev' E. left. apply (H _ _ _ _ _ E). Qed.
Lemma au0_au S {A} (m : M A) : au0 S m -> au S m.
Proof. intros H c ev a c' ev' E _. apply (H _ _ _ _ _ E). Qed.
Lemma fa_kp {A} (m : M A) : fa m -> kp m.
Proof. intros H c ev a c' ev' E K. apply (ka_Ksig c); [apply (H _ _ _ _ _ E) | exact K]. Qed.

Lemma fa_bind {A B} (m : M A) (f : A -> M B) : fa m -> (forall a, fa (f a)) -> fa (bind m f).
Proof.
  intros Hm Hf c ev b c' ev' E. unfold bind in E. destruct (m c ev) as [[a c1] ev1] eqn:E1.
  destruct (Hm _ _ _ _ _ E1) as [O1 K1]. destruct (Hf a _ _ _ _ _ E) as [O2 K2]. split; congruence.
Qed.
Lemma au0_bind S {A B} (m : M A) (f : A -> M B) : au0 S m -> (forall a, au0 S (f a)) -> au0 S (bind m f).
Proof.
  intros Hm Hf c ev b c' ev' E. unfold bind in E. destruct (m c ev) as [[a c1] ev1] eqn:E1.
  apply (out_ok_trans S c c1 c'); [apply (Hm _ _ _ _ _ E1) | apply (Hf a _ _ _ _ _ E)].
Qed.
Lemma au_bind_fa S {A B} (m : M A) (f : A -> M B) : fa m -> (forall a, au S (f a)) -> au S (bind m f).
Proof.
  intros Hm Hf c ev b c' ev' E K. unfold bind in E. destruct (m c ev) as [[a c1] ev1] eqn:E1.
  destruct (Hm _ _ _ _ _ E1) as [O1 K1].
  apply (out_ok_trans S c c1 c'); [left; exact O1 | apply (Hf a _ _ _ _ _ E); apply (ka_Ksig c); assumption].
Qed.
Lemma au_bind_au0 S {A B} (m : M A) (f : A -> M B) : au S m -> (forall a, au0 S (f a)) -> au S (bind m f).
Proof.
  intros Hm Hf c ev b c' ev' E K. unfold bind in E. destruct (m c ev) as [[a c1] ev1] eqn:E1.
  apply (out_ok_trans S c c1 c'); [apply (Hm _ _ _ _ _ E1 K) | apply (Hf a _ _ _ _ _ E)].
Qed.
Lemma kp_bind {A B} (m : M A) (f : A -> M B) : kp m -> (forall a, kp (f a)) -> kp (bind m f).
Proof.
  intros Hm Hf c ev b c' ev' E K. unfold bind in E. destruct (m c ev) as [[a c1] ev1] eqn:E1.
  apply (Hf a _ _ _ _ _ E). apply (Hm _ _ _ _ _ E1 K).
Qed.

Lemma fa_ret {A} (a : A) : fa (ret a).
Proof. intros c ev a' c' ev' E. injection E as <- <- <-. auto. Qed.
Lemma fa_get : fa get.
Proof. intros c ev a' c' ev' E. injection E as <- <- <-. auto. Qed.
Lemma fa_fresh : fa fresh.
Proof. intros c ev a' c' ev' E. unfold fresh, draw in E. injection E as <- <- <-. auto. Qed.
Lemma fa_modify f : (forall c, oa (f c) = oa c /\ ka (f c) = ka c) -> fa (modify f).
Proof. intros H c ev a' c' ev' E. injection E as <- <- <-. apply H. Qed.
Lemma fa_event e : fa (event e).
Proof. intros c ev a' c' ev' E. injection E as <- <- <-. auto. Qed.
Lemma fa_pure {A} (f : conv -> list N -> A) : fa (fun c ev => (f c ev, c, ev)).
Proof. intros c ev a' c' ev' E. injection E as <- <- <-. auto. Qed.
Lemma fa_evs {A} (x : A) (g : list N -> list N) : fa (fun c ev => (x, c, g ev)).
Proof. intros c ev a' c' ev' E. injection E as <- <- <-. auto. Qed.

Create HintDb fa.
Ltac fa_tac :=
  repeat first
  [ solve [auto with fa]
  | apply fa_ret | apply fa_get | apply fa_fresh | apply fa_pure | apply fa_evs | apply fa_event
  | (apply fa_modify; intros ?; split; reflexivity)
  | progress cbv zeta
  | (apply fa_bind; [|intros ?])
  | match goal with
    | |- fa (if ?b then _ else _) => destruct b
    | |- fa (match ?x with _ => _ end) => destruct x
    | |- fa (let '(_, _) := ?x in _) => destruct x
    end ].

Lemma fa_commitToVersionFrom v : fa (commitToVersionFrom v). Proof. unfold commitToVersionFrom. fa_tac. Qed.
#[export] Hint Resolve fa_commitToVersionFrom : fa.
Lemma fa_generateInstanceTag : fa generateInstanceTag. Proof. unfold generateInstanceTag. fa_tac. Qed.
#[export] Hint Resolve fa_generateInstanceTag : fa.
Lemma fa_malformedMessage : fa malformedMessage. Proof. unfold malformedMessage. fa_tac. Qed.
#[export] Hint Resolve fa_malformedMessage : fa.
Lemma fa_verifyInstanceTags a b : fa (verifyInstanceTags a b). Proof. unfold verifyInstanceTags. fa_tac. Qed.
#[export] Hint Resolve fa_verifyInstanceTags : fa.
Lemma fa_messageHeader : fa messageHeader. Proof. unfold messageHeader. fa_tac. Qed.
#[export] Hint Resolve fa_messageHeader : fa.
Lemma fa_wrap b : fa (wrap b). Proof. unfold wrap. fa_tac. Qed.
#[export] Hint Resolve fa_wrap : fa.
Lemma fa_generatePotentialErrorMessage x : fa (generatePotentialErrorMessage x). Proof. unfold generatePotentialErrorMessage. fa_tac. Qed.
#[export] Hint Resolve fa_generatePotentialErrorMessage : fa.
Lemma fa_withInjects x : fa (withInjects x). Proof. unfold withInjects. fa_tac. Qed.
#[export] Hint Resolve fa_withInjects : fa.
Lemma fa_updateLastSent x : fa (updateLastSent x). Proof. unfold updateLastSent. fa_tac. Qed.
#[export] Hint Resolve fa_updateLastSent : fa.
Lemma fa_genDataMsgWithFlag t f l r : fa (genDataMsgWithFlag t f l r). Proof. unfold genDataMsgWithFlag. fa_tac. Qed.
#[export] Hint Resolve fa_genDataMsgWithFlag : fa.
Lemma fa_createSerializedDataMessage n t f l : fa (createSerializedDataMessage n t f l). Proof. unfold createSerializedDataMessage. fa_tac. Qed.
#[export] Hint Resolve fa_createSerializedDataMessage : fa.
Lemma fa_retransmit_loop msgs : forall p acc, fa (retransmit_loop msgs p acc).
Proof. induction msgs as [|m r IH]; intros p acc; cbn [retransmit_loop]; fa_tac. Qed.
#[export] Hint Resolve fa_retransmit_loop : fa.
Lemma fa_emit_n n e : fa (emit_n n e).
Proof. induction n as [|k IH]; cbn [emit_n]; [apply fa_ret|]. apply fa_bind; [apply fa_event | intros _; exact IH]. Qed.
#[export] Hint Resolve fa_emit_n : fa.
Lemma fa_maybeRetransmit n : fa (maybeRetransmit n). Proof. unfold maybeRetransmit. fa_tac. Qed.
#[export] Hint Resolve fa_maybeRetransmit : fa.
Lemma fa_retransmitAfterAKE n : fa (retransmitAfterAKE n). Proof. unfold retransmitAfterAKE. fa_tac. Qed.
#[export] Hint Resolve fa_retransmitAfterAKE : fa.
Lemma fa_generateEncryptedSignature s : fa (generateEncryptedSignature s). Proof. unfold generateEncryptedSignature. fa_tac. Qed.
#[export] Hint Resolve fa_generateEncryptedSignature : fa.
Lemma fa_setSentRevealSig s : fa (setSentRevealSig s).
Proof. unfold setSentRevealSig, set_ake. fa_tac; apply fa_modify; intros c; split; try reflexivity; unfold ka, the_ake, has_ake; cbn; destruct (c_ake c); reflexivity. Qed.
#[export] Hint Resolve fa_setSentRevealSig : fa.
Lemma fa_potentialHeartbeat now p : fa (potentialHeartbeat now p). Proof. unfold potentialHeartbeat. fa_tac. Qed.
#[export] Hint Resolve fa_potentialHeartbeat : fa.
Lemma fa_checkPlaintextPolicies : fa checkPlaintextPolicies. Proof. unfold checkPlaintextPolicies. fa_tac. Qed.
#[export] Hint Resolve fa_checkPlaintextPolicies : fa.
Lemma fa_forgetVersion b e : fa (forgetVersion b e). Proof. unfold forgetVersion. fa_tac. Qed.
#[export] Hint Resolve fa_forgetVersion : fa.
Lemma fa_forgetTag b e : fa (forgetTag b e). Proof. unfold forgetTag. fa_tac. Qed.
#[export] Hint Resolve fa_forgetTag : fa.
Lemma fa_finish p o e : fa (finish p o e). Proof. unfold finish. fa_tac. Qed.
#[export] Hint Resolve fa_finish : fa.
Lemma fa_finishSend o e : fa (finishSend o e). Proof. unfold finishSend. fa_tac. Qed.
#[export] Hint Resolve fa_finishSend : fa.
Lemma fa_send now t : fa (send now t). Proof. unfold send. fa_tac. Qed.
Lemma fa_userSMP now s rnd : fa (userSMP now s rnd). Proof. unfold userSMP. fa_tac. Qed.
Lemma fa_sendTLVs now t : fa (sendTLVs now t). Proof. unfold sendTLVs. fa_tac. Qed.
Lemma fa_useExtraKey now u d : fa (useExtraKey now u d). Proof. unfold useExtraKey. fa_tac. Qed.

(* inversion of the monad operations (destructing a concrete action applied to a state makes Qed very slow) *)
Lemma bind_eq {A B} (m : M A) (f : A -> M B) c ev r : bind m f c ev = r ->
  exists a c1 ev1, m c ev = (a, c1, ev1) /\ f a c1 ev1 = r.
Proof. unfold bind. destruct (m c ev) as [[a c1] ev1]. intros H. exists a, c1, ev1. auto. Qed.
Lemma if_eq {A} (b : bool) (x y : M A) c ev r : (if b then x else y) c ev = r ->
  (b = true /\ x c ev = r) \/ (b = false /\ y c ev = r).
Proof. destruct b; auto. Qed.
Lemma get_eq c ev r : get c ev = r -> r = (c, c, ev). Proof. intros <-. reflexivity. Qed.
Lemma ret_eq {A} (a : A) c ev r : ret a c ev = r -> r = (a, c, ev). Proof. intros <-. reflexivity. Qed.
Lemma set_ake_eq f c ev u c2 ev2 : set_ake f c ev = (u, c2, ev2) ->
  ev2 = ev /\ c_ake c2 = match c_ake c with Some a => Some (f a) | None => None end /\ oa c2 = oa c.
Proof. intros E. unfold set_ake, modify in E. injection E as _ <- <-. repeat split. Qed.

Lemma akeHasFinished_more now c ev :
  let '(_, c', _) := akeHasFinished now c ev in
  c_theirKey c' = c_theirKey c /\ a_state (the_ake c') = a_state (the_ake c).
Proof. unfold akeHasFinished, fresh, draw. msimpl. split; reflexivity. Qed.

Lemma akeHasFinished_eq now c ev u c3 ev3 : akeHasFinished now c ev = (u, c3, ev3) ->
  c_msgState c3 = c_encrypted /\ c_ssid c3 = a_ssid (the_ake c) /\ c_theirKey c3 = c_theirKey c /\
  a_state (the_ake c3) = a_state (the_ake c).
Proof.
  intros E. pose proof (akeHasFinished_spec now c ev) as F1. pose proof (akeHasFinished_more now c ev) as F2.
  rewrite E in F1, F2. destruct F1 as [Fms [_ [Fss _]]]. destruct F2 as [Ftk Fst]. auto.
Qed.

(* completion: encrypted, session id of the exchange context, peer key as it stands, exchange state as it stands *)
Lemma finish_tail now c2 ev (w : option wire) (r : option wire * list wire * N) c' ev' :
  (akeHasFinished now ;;; LET ex <- retransmitAfterAKE now IN ret (w, ex, 0)) c2 ev = (r, c', ev') ->
  c_msgState c' = c_encrypted /\ c_ssid c' = a_ssid (the_ake c2) /\ c_theirKey c' = c_theirKey c2 /\
  a_state (the_ake c') = a_state (the_ake c2).
Proof.
  intros E. apply bind_eq in E as [u [c3 [ev3 [E3 E]]]].
  destruct (akeHasFinished_eq _ _ _ _ _ _ E3) as [Fms [Fss [Ftk Fst]]].
  apply bind_eq in E as [ex [c4 [ev4 [E4 E]]]].
  destruct (fa_retransmitAfterAKE now _ _ _ _ _ E4) as [O4 K4]. apply ret_eq in E. injection E as _ <- _.
  unfold oa in O4. injection O4 as O41 O42 O43. unfold ka in K4. injection K4 as K41 _ _ _ _ _.
  split; [rewrite O41; exact Fms|]. split; [rewrite O43; exact Fss|]. split; [rewrite O42; exact Ftk|]. rewrite K41. exact Fst.
Qed.

Lemma pes_ka es mac base c ev : let '(_, c', _) := processEncryptedSig es mac base c ev in ka c' = ka c.
Proof.
  unfold processEncryptedSig. msimpl.
  destruct (negb _); msimpl; [reflexivity|].
  destruct (negb _); msimpl; [reflexivity|].
  destruct (negb _); msimpl; [reflexivity|].
  unfold set_ake. msimpl. unfold ka, the_ake, has_ake. cbn. destruct (c_ake c); reflexivity.
Qed.

Lemma pes_eq es mac base c ev ok c1 ev1 : processEncryptedSig es mac base c ev = (ok, c1, ev1) ->
  ka c1 = ka c /\
  (ok = false -> c1 = c) /\
  (ok = true -> es_signer es = es_pub es /\
     es_over es = {| mb_key := {| ak_sh := ake_shared c; ak_which := base + 1 |};
                     mb_gfirst := ake_theirs c; mb_gsecond := ake_ours c; mb_pub := es_pub es; mb_keyid := es_keyid es |} /\
     c_theirKey c1 = Some (es_pub es) /\ c_msgState c1 = c_msgState c /\ c_ssid c1 = c_ssid c).
Proof.
  intros E. pose proof (processEncryptedSig_spec es mac base c ev) as Sp. pose proof (pes_ka es mac base c ev) as Ka.
  rewrite E in Sp, Ka. destruct Sp as [_ [Sok Sfail]].
  split; [exact Ka|]. split; [exact Sfail|].
  intros Hok. destruct (Sok Hok) as [_ [_ [_ [_ [_ [H1 [H2 [H3 [H4 H5]]]]]]]]]. auto.
Qed.

(* the Signature message while it is awaited *)
Lemma sig_block S now es mac c ev r c' ev' :
  (LET ok <- processEncryptedSig es mac 4 IN
   if negb ok then ret (None, [], 1)
   else
     LET c <- get IN
     let a := the_ake c in
     set_ake (fun a' => (a' <| a_keys := ((a_keys a') <| theirCurrent := a_their a |>) |> <| a_state := 0 |>)) ;;;
     akeHasFinished now ;;;
     LET ex <- retransmitAfterAKE now IN
     ret (@None wire, ex, 0)) c ev = (r, c', ev') ->
  In es S -> a_state (the_ake c) = 3 -> Ksig c -> Ksig c' /\ out_ok S c c'.
Proof.
  intros E Hin St K. apply bind_eq in E as [ok [c1 [ev1 [E1 E]]]].
  destruct (pes_eq _ _ _ _ _ _ _ _ E1) as [Ka [Sfail Sok]].
  apply if_eq in E as [[Hb E]|[Hb E]].
  - assert (Hok : ok = false) by (destruct ok; [discriminate|reflexivity]).
    rewrite (Sfail Hok) in E. apply ret_eq in E. injection E as _ <- _. split; [exact K | left; reflexivity].
  - assert (Hok : ok = true) by (destruct ok; [reflexivity|discriminate]).
    destruct (Sok Hok) as [Hsg [Hov [Htk [Hms Hss]]]]. clear Sok Sfail.
    apply bind_eq in E as [cg [c1' [ev1' [Eg E]]]]. apply get_eq in Eg. injection Eg as -> -> ->.
    apply bind_eq in E as [u [c2 [ev2 [E2 E]]]]. apply set_ake_eq in E2. destruct E2 as [-> [A2 O2]].
    unfold oa in O2. injection O2 as O21 O22 O23.
    destruct (finish_tail _ _ _ _ _ _ _ E) as [Fms [Fss [Ftk Fst]]].
    assert (Ea : c_ake c1 <> None).
    { intros Ea. unfold ka, the_ake in Ka. rewrite Ea in Ka. cbn in Ka. injection Ka as Ka _ _ _ _ _. unfold the_ake in St. rewrite <- Ka in St. discriminate. }
    destruct (c_ake c1) as [a1|] eqn:Ea1; [clear Ea | contradiction].
    split.
    + intros H3. exfalso. rewrite Fst in H3. unfold the_ake in H3. rewrite A2 in H3. discriminate.
    + right; right. destruct (K St) as [K1 [K2 K3]].
      exists es, (ake_ours c), (ake_theirs c), 5. split; [exact Hin|]. split; [exact Hsg|].
      split; [unfold authd_c; rewrite Ftk, O22; exact Htk|].
      split.
      * unfold authd_c. rewrite Fss. unfold the_ake at 1. rewrite A2.
        assert (Eb : a_ssid a1 = a_ssid (the_ake c)).
        { unfold ka in Ka. injection Ka as _ _ _ _ Ka _. unfold the_ake at 1 in Ka. rewrite Ea1 in Ka. exact Ka. }
        change (a_ssid a1 = Some (mk_shared (ake_ours c) (ake_theirs c))).
        rewrite Eb, K2. f_equal. exact K1.
      * split; [exact K3|]. rewrite Hov, K1. reflexivity.
Qed.

(* the combined statement carried through every action: the exchange context stays consistent and the outcome is fine *)
Definition ak (S : list encsig) {A} (m : M A) : Prop := forall c ev a c' ev', m c ev = (a, c', ev') ->
  Ksig c -> Ksig c' /\ out_ok S c c'.

Lemma fa_ak S {A} (m : M A) : fa m -> ak S m.
Proof.
  intros H c ev a c' ev' E K. destruct (H _ _ _ _ _ E) as [O1 K1]. split; [apply (ka_Ksig c); assumption | left; exact O1].
Qed.
Lemma ak_bind S {A B} (m : M A) (f : A -> M B) : ak S m -> (forall a, ak S (f a)) -> ak S (bind m f).
Proof.
  intros Hm Hf c ev b c' ev' E K. unfold bind in E. destruct (m c ev) as [[a c1] ev1] eqn:E1.
  destruct (Hm _ _ _ _ _ E1 K) as [K1 O1]. destruct (Hf a _ _ _ _ _ E K1) as [K2 O2].
  split; [exact K2 | apply (out_ok_trans S c c1 c'); assumption].
Qed.

(* set_ake: the statement's part of the conversation never moves; the context stays consistent when the five fields
   are left alone or the resulting state is not "awaiting the Signature message" *)
Lemma set_ake_oa f c ev : let '(_, c', _) := set_ake f c ev in oa c' = oa c.
Proof. reflexivity. Qed.
Lemma ak_set_ake_frame S f :
  (forall a, (a_state (f a), a_exp (f a), a_their (f a), a_shared (f a), a_ssid (f a)) =
             (a_state a, a_exp a, a_their a, a_shared a, a_ssid a)) -> ak S (set_ake f).
Proof.
  intros H. apply fa_ak. intros c ev a c' ev' E. unfold set_ake, modify in E. injection E as _ <- _.
  split; [reflexivity|]. unfold ka, the_ake, has_ake. cbn. destruct (c_ake c) as [a0|]; [rewrite (H a0); reflexivity | reflexivity].
Qed.
Lemma ak_set_ake_state S f : (forall a, a_state (f a) <> 3) -> ak S (set_ake f).
Proof.
  intros H c ev a c' ev' E K. unfold set_ake, modify in E. injection E as _ <- _. split; [|left; reflexivity].
  intros St. exfalso. unfold the_ake in St. cbn in St. destruct (c_ake c) as [a0|] eqn:Ea.
  - apply (H a0 St).
  - discriminate.
Qed.
Lemma ak_modify_reset S f : (forall c, oa (f c) = oa c) -> (forall c, c_ake (f c) = Some ake_init) -> ak S (modify f).
Proof.
  intros Ho Ha c ev a c' ev' E K. injection E as _ <- _. split; [|left; apply Ho].
  intros St. unfold the_ake in St. rewrite Ha in St. discriminate.
Qed.

Create HintDb ak.
Ltac ak_tac :=
  repeat first
  [ solve [auto with ak]
  | solve [apply fa_ak; auto with fa]
  | progress cbv zeta
  | (apply ak_bind; [|intros ?])
  | (apply ak_set_ake_frame; intros ?; reflexivity)
  | (apply ak_set_ake_state; intros ?; discriminate)
  | (apply ak_modify_reset; intros ?; reflexivity)
  | match goal with
    | |- ak _ (if ?b then _ else _) => destruct b
    | |- ak _ (match ?x with _ => _ end) => destruct x
    | |- ak _ (let '(_, _) := ?x in _) => destruct x
    end
  | solve [apply fa_ak; fa_tac] ].


(* set_ake on an existing exchange context *)
Lemma set_ake_proj f c ev u c2 ev2 : set_ake f c ev = (u, c2, ev2) -> has_ake c = true ->
  ev2 = ev /\ oa c2 = oa c /\ the_ake c2 = f (the_ake c) /\ has_ake c2 = true.
Proof.
  intros E H. unfold set_ake, modify in E. injection E as _ <- <-. unfold has_ake, the_ake in *. cbn.
  destruct (c_ake c); [repeat split | discriminate].
Qed.

Lemma calcAKEKeys_eq s c ev u c2 ev2 : calcAKEKeys s c ev = (u, c2, ev2) -> has_ake c = true ->
  has_ake c2 = true /\ a_state (the_ake c2) = a_state (the_ake c) /\ a_exp (the_ake c2) = a_exp (the_ake c) /\
  a_their (the_ake c2) = a_their (the_ake c) /\ a_shared (the_ake c2) = Some s /\ a_ssid (the_ake c2) = Some s /\
  c_msgState c2 = c_msgState c /\ c_theirKey c2 = c_theirKey c /\
  (c_msgState c = c_encrypted -> c_ssid c2 = c_ssid c).
Proof.
  intros E H. unfold calcAKEKeys in E. apply bind_eq in E as [u1 [c1 [ev1 [E1 E]]]].
  destruct (set_ake_proj _ _ _ _ _ _ E1 H) as [-> [O1 [T1 H1]]]. unfold oa in O1. injection O1 as O11 O12 O13.
  apply bind_eq in E as [cg [c1' [ev1' [Eg E]]]]. apply get_eq in Eg. injection Eg as -> -> ->.
  apply if_eq in E as [[Hb E]|[Hb E]].
  - apply ret_eq in E. injection E as _ <- _. rewrite T1. repeat split; auto.
  - unfold modify in E. injection E as _ <- _.
    assert (Ta : the_ake (c1 <| c_ssid := Some s |>) = the_ake c1) by reflexivity.
    rewrite Ta, T1. repeat split; auto.
    all: try (intros He; exfalso; apply N.eqb_neq in Hb; apply Hb; rewrite O11; exact He).
Qed.

Lemma fa_eq {A} (m : M A) c ev a c1 ev1 : fa m -> m c ev = (a, c1, ev1) ->
  c_msgState c1 = c_msgState c /\ c_theirKey c1 = c_theirKey c /\ c_ssid c1 = c_ssid c /\
  a_state (the_ake c1) = a_state (the_ake c) /\ a_exp (the_ake c1) = a_exp (the_ake c) /\
  a_their (the_ake c1) = a_their (the_ake c) /\ a_shared (the_ake c1) = a_shared (the_ake c) /\
  a_ssid (the_ake c1) = a_ssid (the_ake c) /\ has_ake c1 = has_ake c.
Proof.
  intros H E. destruct (H _ _ _ _ _ E) as [O K]. unfold oa in O. injection O as O1 O2 O3.
  unfold ka in K. injection K as K1 K2 K3 K4 K5 K6. repeat split; assumption.
Qed.

Lemma has_ake_the c : has_ake c = false -> the_ake c = ake_init.
Proof. unfold has_ake, the_ake. destruct (c_ake c); [discriminate | reflexivity]. Qed.

(* the Reveal Signature message while it is awaited (exchange state 2) *)
Lemma reveal_block S now r es mac c ev res c' ev' :
  (LET c <- get IN
   let a := the_ake c in
   match a_encGx a, a_hashGx a with
   | Some (kr, gx), Some h =>
       if negb ((kr =? r) && (gx =? h)) then ret (None, [], 1)
       else
         set_ake (fun a => (a <| a_their := Some gx |>)) ;;;
         if negb (isGroupElement gx) then ret (None, [], 1)
         else
           let y := match a_exp a with Some e => e | None => 0 end in
           calcAKEKeys (mk_shared y gx) ;;;
           LET ok <- processEncryptedSig es mac 1 IN
           if negb ok then ret (None, [], 1)
           else
             set_ake (fun a => (a <| a_keys := ((a_keys a) <| ourKeyID := ourKeyID (a_keys a) + 1 |>) |>)) ;;;
             LET em <- generateEncryptedSignature 4 IN
             LET w <- wrap (EAke (BSig (fst em) (snd em))) IN
             set_ake (fun a => (a <| a_keys := ((a_keys a) <| theirCurrent := Some gx |> <| ourCurrent := Some y |>) |>)) ;;;
             setSentRevealSig false ;;;
             set_ake (fun a => (a <| a_state := 0 |>)) ;;;
             akeHasFinished now ;;;
             LET ex <- retransmitAfterAKE now IN
             ret (Some w, ex, 0)
   | _, _ => ret (None, [], 1)
   end) c ev = (res, c', ev') ->
  In es S -> a_state (the_ake c) = 2 -> Ksig c' /\ out_ok S c c'.
Proof.
  intros E Hin St.
  assert (V : forall c1, a_state (the_ake c1) = 2 -> Ksig c1) by (intros c1 H1 H3; rewrite H1 in H3; discriminate).
  apply bind_eq in E as [cg [c0 [ev0 [Eg E]]]]. apply get_eq in Eg. injection Eg as -> -> ->. cbv zeta in E.
  destruct (has_ake c) eqn:Ha.
  2:{ rewrite (has_ake_the c Ha) in E. apply ret_eq in E. injection E as _ <- _. split; [apply V; exact St | left; reflexivity]. }
  destruct (a_encGx (the_ake c)) as [[kr gx]|].
  2:{ apply ret_eq in E. injection E as _ <- _. split; [apply V; exact St | left; reflexivity]. }
  destruct (a_hashGx (the_ake c)) as [h|].
  2:{ apply ret_eq in E. injection E as _ <- _. split; [apply V; exact St | left; reflexivity]. }
  apply if_eq in E as [[_ E]|[_ E]].
  { apply ret_eq in E. injection E as _ <- _. split; [apply V; exact St | left; reflexivity]. }
  apply bind_eq in E as [u1 [c1 [ev1 [E1 E]]]].
  destruct (set_ake_proj _ _ _ _ _ _ E1 Ha) as [-> [O1 [T1 H1]]]. unfold oa in O1. injection O1 as O11 O12 O13.
  assert (St1 : a_state (the_ake c1) = 2) by (rewrite T1; exact St).
  assert (Th1 : a_their (the_ake c1) = Some gx) by (rewrite T1; reflexivity).
  assert (Ex1 : a_exp (the_ake c1) = a_exp (the_ake c)) by (rewrite T1; reflexivity).
  apply if_eq in E as [[_ E]|[Hg E]].
  { apply ret_eq in E. injection E as _ <- _. split; [apply V; exact St1 | left; unfold oa; congruence]. }
  apply negb_false_iff in Hg.
  apply bind_eq in E as [u2 [c2 [ev2 [E2 E]]]].
  set (y := match a_exp (the_ake c) with Some e => e | None => 0 end) in *.
  destruct (calcAKEKeys_eq _ _ _ _ _ _ E2 H1) as [H2 [St2 [Ex2 [Th2 [Sh2 [Ss2 [Ms2 [Tk2 Sk2]]]]]]]].
  assert (Out2 : out_ok S c c2).
  { destruct (N.eq_dec (c_msgState c) c_encrypted) as [He|He].
    - left. unfold oa. rewrite Ms2, Tk2, O11, O12. rewrite (Sk2 ltac:(congruence)), O13. reflexivity.
    - right; left. congruence. }
  apply bind_eq in E as [ok [c3 [ev3 [E3 E]]]].
  destruct (pes_eq _ _ _ _ _ _ _ _ E3) as [Ka3 [Sfail Sok]].
  apply if_eq in E as [[Hb E]|[Hb E]].
  { assert (Hok : ok = false) by (destruct ok; [discriminate|reflexivity]).
    rewrite (Sfail Hok) in E. apply ret_eq in E. injection E as _ <- _.
    split; [apply V; congruence | exact Out2]. }
  assert (Hok : ok = true) by (destruct ok; [reflexivity|discriminate]).
  destruct (Sok Hok) as [Hsg [Hov [Htk [Hms Hss]]]]. clear Sok Sfail.
  unfold ka in Ka3. injection Ka3 as K31 K32 K33 K34 K35 K36.
  (* the tail: four context updates and three frame steps, then completion *)
  apply bind_eq in E as [u4 [c4 [ev4 [E4 E]]]].
  destruct (set_ake_proj _ _ _ _ _ _ E4 ltac:(congruence)) as [-> [O4 [T4 H4]]]. unfold oa in O4. injection O4 as O41 O42 O43.
  apply bind_eq in E as [em [c5 [ev5 [E5 E]]]].
  destruct (fa_eq _ _ _ _ _ _ (fa_generateEncryptedSignature 4) E5) as [M5 [T5 [S5 [A5 [B5 [C5 [D5 [F5 G5]]]]]]]].
  apply bind_eq in E as [w [c6 [ev6 [E6 E]]]].
  destruct (fa_eq _ _ _ _ _ _ (fa_wrap _) E6) as [M6 [T6 [S6 [A6 [B6 [C6 [D6 [F6 G6]]]]]]]].
  apply bind_eq in E as [u7 [c7 [ev7 [E7 E]]]].
  destruct (set_ake_proj _ _ _ _ _ _ E7 ltac:(congruence)) as [-> [O7 [T7 H7]]]. unfold oa in O7. injection O7 as O71 O72 O73.
  apply bind_eq in E as [u8 [c8 [ev8 [E8 E]]]].
  destruct (fa_eq _ _ _ _ _ _ (fa_setSentRevealSig false) E8) as [M8 [T8 [S8 [A8 [B8 [C8 [D8 [F8 G8]]]]]]]].
  apply bind_eq in E as [u9 [c9 [ev9 [E9 E]]]].
  destruct (set_ake_proj _ _ _ _ _ _ E9 ltac:(congruence)) as [-> [O9 [T9 H9]]]. unfold oa in O9. injection O9 as O91 O92 O93.
  destruct (finish_tail _ _ _ _ _ _ _ E) as [Fms [Fss [Ftk Fst]]].
  split.
  - intros H3. exfalso. rewrite Fst, T9 in H3. discriminate.
  - right; right. exists es, y, gx, 2. split; [exact Hin|]. split; [exact Hsg|].
    split; [unfold authd_c; rewrite Ftk, O92, T8, O72, T6, T5, O42; exact Htk|].
    split.
    + unfold authd_c. rewrite Fss, T9.
      change (a_ssid (the_ake c8) = Some (mk_shared y gx)). rewrite F8, T7.
      change (a_ssid (the_ake c6) = Some (mk_shared y gx)). rewrite F6, F5, T4.
      change (a_ssid (the_ake c3) = Some (mk_shared y gx)). rewrite K35. exact Ss2.
    + split; [exact Hg|]. rewrite Hov. unfold ake_shared, ake_theirs, ake_ours. rewrite Sh2, Th2, Th1, Ex2, Ex1. reflexivity.
Qed.

(* the D-H Key message while it is awaited (exchange state 1): the context that the Signature message will be
   checked against is set up consistently *)
Lemma dhkey_block S gy c ev (res : option wire * list wire * N) c' ev' :
  (if negb (isGroupElement gy) then ret (None, [], 1)
   else
     set_ake (fun a => (a <| a_their := Some gy |>)) ;;;
     LET c <- get IN
     let a := the_ake c in
     let x := match a_exp a with Some e => e | None => 0 end in
     calcAKEKeys (mk_shared x gy) ;;;
     set_ake (fun a => (a <| a_keys := ((a_keys a) <| ourKeyID := ourKeyID (a_keys a) + 1 |>) |>)) ;;;
     LET em <- generateEncryptedSignature 1 IN
     LET c <- get IN
     LET w <- wrap (EAke (BReveal (a_r (the_ake c)) (fst em) (snd em))) IN
     set_ake (fun a => (a <| a_keys := ((a_keys a) <| theirCurrent := Some gy |> <| ourCurrent := Some x |>) |>)) ;;;
     setSentRevealSig true ;;;
     set_ake (fun a => (a <| a_state := 3 |> <| a_revealSigMsg := Some w |>)) ;;;
     ret (Some w, [], 0)) c ev = (res, c', ev') ->
  a_state (the_ake c) = 1 -> Ksig c' /\ out_ok S c c'.
Proof.
  intros E St.
  assert (Ha : has_ake c = true).
  { destruct (has_ake c) eqn:Ha; [reflexivity|]. rewrite (has_ake_the c Ha) in St. discriminate. }
  apply if_eq in E as [[_ E]|[Hg E]].
  { apply ret_eq in E. injection E as _ <- _. split; [intros H3; rewrite St in H3; discriminate | left; reflexivity]. }
  apply negb_false_iff in Hg.
  apply bind_eq in E as [u1 [c1 [ev1 [E1 E]]]].
  destruct (set_ake_proj _ _ _ _ _ _ E1 Ha) as [-> [O1 [T1 H1]]]. unfold oa in O1. injection O1 as O11 O12 O13.
  apply bind_eq in E as [cg [c1' [ev1' [Eg E]]]]. apply get_eq in Eg. injection Eg as -> -> ->. cbv zeta in E.
  set (x := match a_exp (the_ake c1) with Some e => e | None => 0 end) in *.
  assert (Th1 : a_their (the_ake c1) = Some gy) by (rewrite T1; reflexivity).
  apply bind_eq in E as [u2 [c2 [ev2 [E2 E]]]].
  destruct (calcAKEKeys_eq _ _ _ _ _ _ E2 H1) as [H2 [St2 [Ex2 [Th2 [Sh2 [Ss2 [Ms2 [Tk2 Sk2]]]]]]]].
  assert (Out2 : out_ok S c c2).
  { destruct (N.eq_dec (c_msgState c) c_encrypted) as [He|He].
    - left. unfold oa. rewrite Ms2, Tk2, O11, O12. rewrite (Sk2 ltac:(congruence)), O13. reflexivity.
    - right; left. congruence. }
  apply bind_eq in E as [u4 [c4 [ev4 [E4 E]]]].
  destruct (set_ake_proj _ _ _ _ _ _ E4 H2) as [-> [O4 [T4 H4]]]. unfold oa in O4. injection O4 as O41 O42 O43.
  apply bind_eq in E as [em [c5 [ev5 [E5 E]]]].
  destruct (fa_eq _ _ _ _ _ _ (fa_generateEncryptedSignature 1) E5) as [M5 [T5 [S5 [A5 [B5 [C5 [D5 [F5 G5]]]]]]]].
  apply bind_eq in E as [cg [c5' [ev5' [Eg E]]]]. apply get_eq in Eg. injection Eg as -> -> ->.
  apply bind_eq in E as [w [c6 [ev6 [E6 E]]]].
  destruct (fa_eq _ _ _ _ _ _ (fa_wrap _) E6) as [M6 [T6 [S6 [A6 [B6 [C6 [D6 [F6 G6]]]]]]]].
  apply bind_eq in E as [u7 [c7 [ev7 [E7 E]]]].
  destruct (set_ake_proj _ _ _ _ _ _ E7 ltac:(congruence)) as [-> [O7 [T7 H7]]]. unfold oa in O7. injection O7 as O71 O72 O73.
  apply bind_eq in E as [u8 [c8 [ev8 [E8 E]]]].
  destruct (fa_eq _ _ _ _ _ _ (fa_setSentRevealSig true) E8) as [M8 [T8 [S8 [A8 [B8 [C8 [D8 [F8 G8]]]]]]]].
  apply bind_eq in E as [u9 [c9 [ev9 [E9 E]]]].
  destruct (set_ake_proj _ _ _ _ _ _ E9 ltac:(congruence)) as [-> [O9 [T9 H9]]]. unfold oa in O9. injection O9 as O91 O92 O93.
  apply ret_eq in E. injection E as _ <- _.
  (* the five fields at the end *)
  assert (Fshared : a_shared (the_ake c') = Some (mk_shared x gy)).
  { rewrite T9. change (a_shared (the_ake c8) = Some (mk_shared x gy)). rewrite D8, T7.
    change (a_shared (the_ake c6) = Some (mk_shared x gy)). rewrite D6, D5, T4.
    change (a_shared (the_ake c2) = Some (mk_shared x gy)). exact Sh2. }
  assert (Fssid : a_ssid (the_ake c') = Some (mk_shared x gy)).
  { rewrite T9. change (a_ssid (the_ake c8) = Some (mk_shared x gy)). rewrite F8, T7.
    change (a_ssid (the_ake c6) = Some (mk_shared x gy)). rewrite F6, F5, T4.
    change (a_ssid (the_ake c2) = Some (mk_shared x gy)). exact Ss2. }
  assert (Ftheir : a_their (the_ake c') = Some gy).
  { rewrite T9. change (a_their (the_ake c8) = Some gy). rewrite C8, T7.
    change (a_their (the_ake c6) = Some gy). rewrite C6, C5, T4.
    change (a_their (the_ake c2) = Some gy). rewrite Th2. exact Th1. }
  assert (Fexp : a_exp (the_ake c') = a_exp (the_ake c1)).
  { rewrite T9. change (a_exp (the_ake c8) = a_exp (the_ake c1)). rewrite B8, T7.
    change (a_exp (the_ake c6) = a_exp (the_ake c1)). rewrite B6, B5, T4.
    change (a_exp (the_ake c2) = a_exp (the_ake c1)). exact Ex2. }
  split.
  - intros _. unfold ake_shared, ake_ours, ake_theirs. rewrite Fshared, Fssid, Ftheir, Fexp. fold x. auto.
  - apply (out_ok_trans S c c2 c'); [exact Out2|]. left. unfold oa. congruence.
Qed.

Lemma ak_apply S {A} (m : M A) c ev res c' ev' : ak S m -> m c ev = (res, c', ev') -> Ksig c -> Ksig c' /\ out_ok S c c'.
Proof. intros H E K. exact (H _ _ _ _ _ E K). Qed.

(* sequences that start by re-initialising the exchange context: as long as the state is not "awaiting the Signature
   message" nothing has to be consistent *)
Definition ak0 {A} (m : M A) : Prop := forall c ev a c' ev', m c ev = (a, c', ev') ->
  a_state (the_ake c) <> 3 -> a_state (the_ake c') <> 3 /\ oa c' = oa c.
Lemma ak0_bind {A B} (m : M A) (f : A -> M B) : ak0 m -> (forall a, ak0 (f a)) -> ak0 (bind m f).
Proof.
  intros Hm Hf c ev b c' ev' E N3. apply bind_eq in E as [a [c1 [ev1 [E1 E]]]].
  destruct (Hm _ _ _ _ _ E1 N3) as [N1 O1]. destruct (Hf a _ _ _ _ _ E N1) as [N2 O2]. split; [exact N2 | congruence].
Qed.
Lemma fa_ak0 {A} (m : M A) : fa m -> ak0 m.
Proof.
  intros H c ev a c' ev' E N3. destruct (fa_eq _ _ _ _ _ _ H E) as [M1 [T1 [S1 [A1 _]]]].
  split; [rewrite A1; exact N3 | unfold oa; congruence].
Qed.
Lemma ak0_set_ake f : (forall a, a_state a <> 3 -> a_state (f a) <> 3) -> ak0 (set_ake f).
Proof.
  intros H c ev a c' ev' E N3. unfold set_ake, modify in E. injection E as _ <- _. split; [|reflexivity].
  unfold the_ake in *. cbn. destruct (c_ake c) as [a0|]; [apply H; exact N3 | exact N3].
Qed.
Ltac ak0_tac :=
  repeat first
  [ solve [apply fa_ak0; auto with fa]
  | progress cbv zeta
  | (apply ak0_bind; [|intros ?])
  | (apply ak0_set_ake; intros ? ?; first [assumption | discriminate])
  | match goal with
    | |- ak0 (if ?b then _ else _) => destruct b
    | |- ak0 (match ?x with _ => _ end) => destruct x
    end
  | solve [apply fa_ak0; fa_tac] ].
Lemma ak_reset_then S {A} f (m : M A) :
  (forall c, oa (f c) = oa c) -> (forall c, c_ake (f c) = Some ake_init) -> ak0 m -> ak S (modify f ;;; m).
Proof.
  intros Ho Ha Hm c ev a c' ev' E K. apply bind_eq in E as [u [c1 [ev1 [E1 E]]]].
  unfold modify in E1. injection E1 as _ <- <-.
  assert (N1 : a_state (the_ake (f c)) <> 3) by (unfold the_ake; rewrite Ha; discriminate).
  destruct (Hm _ _ _ _ _ E N1) as [N2 O2]. split; [intros H3; contradiction | left; rewrite O2; apply Ho].
Qed.

Lemma ak_receiveDHCommit_none S b : ak S (receiveDHCommit_none b).
Proof. unfold receiveDHCommit_none. apply ak_reset_then; [intros ?; reflexivity | intros ?; reflexivity | ak0_tac]. Qed.
#[export] Hint Resolve ak_receiveDHCommit_none : ak.
Lemma ak_sendDHCommit S : ak S sendDHCommit.
Proof. unfold sendDHCommit. apply ak_reset_then; [intros ?; reflexivity | intros ?; reflexivity | ak0_tac]. Qed.
#[export] Hint Resolve ak_sendDHCommit : ak.
#[export] Hint Extern 3 (ak _ (bind (modify _) _)) => (apply ak_reset_then; [intros ?; reflexivity | intros ?; reflexivity | ak0_tac]) : ak.

(* the signatures a key-exchange message carries *)
Definition sigs_of_body (b : option akebody) : list encsig :=
  match b with Some (BReveal _ es _) => [es] | Some (BSig es _) => [es] | _ => [] end.

Ltac close_ak E K := eapply ak_apply; [| exact E | exact K]; ak_tac.

Lemma ak_processAKE_body S now ty body aux : incl (sigs_of_body body) S -> ak S (processAKE_body now ty body aux).
Proof.
  intros Hs c ev res c' ev' E K. unfold processAKE_body in E.
  apply bind_eq in E as [cg [c0 [ev0 [Eg E]]]]. apply get_eq in Eg. injection Eg as -> -> ->. cbv zeta in E.
  remember (a_state (the_ake c)) as st eqn:Hst. symmetry in Hst.
  apply if_eq in E as [[_ E]|[_ E]].
  { (* D-H Commit *)
    destruct st as [|[[q|q|]|[q|q|]|]]; close_ak E K. }
  apply if_eq in E as [[_ E]|[_ E]].
  { (* D-H Key *)
    destruct st as [|[[q|q|]|[q|q|]|]]; try solve [close_ak E K].
    destruct body as [[r0 g0 h0|gy|r0 es0 m0|es0 m0]|]; try solve [close_ak E K].
    apply (dhkey_block S gy _ _ _ _ _ E Hst). }
  apply if_eq in E as [[_ E]|[_ E]].
  { (* Reveal Signature *)
    destruct st as [|[[q|q|]|[q|q|]|]]; try solve [close_ak E K].
    destruct body as [[r0 g0 h0|gy|r0 es0 m0|es0 m0]|]; try solve [close_ak E K].
    apply (reveal_block S now r0 es0 m0 _ _ _ _ _ E); [apply Hs; left; reflexivity | exact Hst]. }
  apply if_eq in E as [[_ E]|[_ E]].
  { (* Signature *)
    destruct st as [|[[q|q|]|[q|q|]|]]; try solve [close_ak E K].
    destruct body as [[r0 g0 h0|gy|r0 es0 m0|es0 m0]|]; try solve [close_ak E K].
    apply (sig_block S now es0 m0 _ _ _ _ _ E); [apply Hs; left; reflexivity | exact Hst | exact K]. }
  close_ak E K.
Qed.

(* tearing the session down: no exchange context, not encrypted *)
Lemma ak_modify_teardown S f : (forall c, c_ake (f c) = None) -> (forall c, c_msgState (f c) <> c_encrypted) -> ak S (modify f).
Proof.
  intros Ha Hm c ev a c' ev' E K. unfold modify in E. injection E as _ <- _. split.
  - intros H3. unfold the_ake in H3. rewrite Ha in H3. discriminate.
  - right; left. apply Hm.
Qed.

Ltac ak_tac2 :=
  repeat first
  [ solve [auto with ak]
  | solve [apply fa_ak; auto with fa]
  | progress cbv zeta
  | (apply ak_bind; [|intros ?])
  | (apply ak_set_ake_frame; intros ?; reflexivity)
  | (apply ak_set_ake_state; intros ?; discriminate)
  | (apply ak_modify_reset; intros ?; reflexivity)
  | (apply ak_modify_teardown; intros ?; [reflexivity | discriminate])
  | match goal with
    | |- ak _ (if ?b then _ else _) => destruct b
    | |- ak _ (match ?x with _ => _ end) => destruct x
    | |- ak _ (let '(_, _) := ?x in _) => destruct x
    end
  | solve [apply fa_ak; fa_tac] ].

Lemma ak_processAKE S now ty body aux : incl (sigs_of_body body) S -> ak S (processAKE now ty body aux).
Proof.
  intros Hs. pose proof (ak_processAKE_body S now ty body aux Hs) as Hb.
  unfold processAKE. ak_tac2; try exact Hb.
Qed.

Lemma ak_processTLVs S rnd tlvs : forall x acc, ak S (processTLVs rnd tlvs x acc).
Proof.
  induction tlvs as [|t r IH]; intros x acc; cbn [processTLVs]; [apply fa_ak, fa_ret|].
  destruct t; ak_tac2; try apply IH.
Qed.
#[export] Hint Resolve ak_processTLVs : ak.
Lemma ak_processDataMessage S now d rnd : ak S (processDataMessage now d rnd).
Proof. unfold processDataMessage. ak_tac2. Qed.
#[export] Hint Resolve ak_processDataMessage : ak.
Lemma ak_receiveDataMessage S now d rnd : ak S (receiveDataMessage now d rnd).
Proof. unfold receiveDataMessage. ak_tac2. Qed.
#[export] Hint Resolve ak_receiveDataMessage : ak.
Lemma ak_receiveQueryMessage S now v : ak S (receiveQueryMessage now v).
Proof. unfold receiveQueryMessage. ak_tac2. Qed.
#[export] Hint Resolve ak_receiveQueryMessage : ak.

Definition sigs_of_ebody (b : ebody) : list encsig := match b with EAke a => sigs_of_body (Some a) | _ => [] end.
Lemma ak_receiveDecoded S now ver stag rtag body aux rnd : incl (sigs_of_ebody body) S ->
  ak S (receiveDecoded now ver stag rtag body aux rnd).
Proof.
  intros Hs. unfold receiveDecoded.
  assert (H1 : forall b ty, body = EAke b -> ak S (processAKE now ty (Some b) aux)).
  { intros b ty ->. apply ak_processAKE. exact Hs. }
  assert (H2 : forall ty, ak S (processAKE now ty None aux)).
  { intros ty. apply ak_processAKE. intros x []. }
  ak_tac2; try (apply H1; reflexivity); try apply H2.
Qed.

Definition sigs_of_wire (w : wire) : list encsig := match w with WEnc _ _ _ b => sigs_of_ebody b | _ => [] end.
Lemma ak_receive S now w aux rnd : incl (sigs_of_wire w) S -> ak S (receive now w aux rnd).
Proof.
  intros Hs. unfold receive.
  assert (H1 : forall ver stag rtag body, w = WEnc ver stag rtag body -> ak S (receiveDecoded now ver stag rtag body aux rnd)).
  { intros ver stag rtag body ->. apply ak_receiveDecoded. exact Hs. }
  ak_tac2; try (apply H1; reflexivity).
Qed.

Lemma ak_endConv S now : ak S (endConv now).
Proof. unfold endConv. ak_tac2. Qed.

(* the signatures a call hands to the conversation *)
Definition sigs_of_call (op : call) : list encsig := match op with CReceive w _ _ => sigs_of_wire w | _ => [] end.

(* the invariant over histories: [S] collects the signatures received so far *)
Definition AInv (S : list encsig) (c : conv) : Prop :=
  Ksig c /\ (c_msgState c = c_encrypted -> authd_c S c).

Lemma authd_mono S S' k sid : incl S S' -> authd S k sid -> authd S' k sid.
Proof.
  intros Hi [es [x [gy [w [H1 H]]]]]. exists es, x, gy, w. split; [apply Hi; exact H1 | exact H].
Qed.

Lemma step_ak now c op S : incl (sigs_of_call op) S ->
  let '(c', _) := step now c op in Ksig c -> Ksig c' /\ out_ok S c c'.
Proof.
  intros Hs. unfold step. destruct op as [t|w aux rnd| |s rnd|u d|tlvs].
  - destruct (send now t c []) as [[r c'] ev'] eqn:E. apply (fa_ak S _ (fa_send now t) _ _ _ _ _ E).
  - destruct (receive now w aux rnd c []) as [[r c'] ev'] eqn:E. apply (ak_receive S now w aux rnd Hs _ _ _ _ _ E).
  - destruct (endConv now c []) as [[r c'] ev'] eqn:E. apply (ak_endConv S now _ _ _ _ _ E).
  - destruct (userSMP now s rnd c []) as [[r c'] ev'] eqn:E. apply (fa_ak S _ (fa_userSMP now s rnd) _ _ _ _ _ E).
  - destruct (useExtraKey now u d c []) as [[r c'] ev'] eqn:E. apply (fa_ak S _ (fa_useExtraKey now u d) _ _ _ _ _ E).
  - destruct (sendTLVs now tlvs c []) as [[r c'] ev'] eqn:E. apply (fa_ak S _ (fa_sendTLVs now tlvs) _ _ _ _ _ E).
Qed.

Lemma step_AInv now c op S : AInv S c -> let '(c', _) := step now c op in AInv (sigs_of_call op ++ S) c'.
Proof.
  intros [K A]. pose proof (step_ak now c op (sigs_of_call op ++ S) (incl_appl S (incl_refl _))) as H.
  destruct (step now c op) as [c' r]. destruct (H K) as [K' O]. split; [exact K'|].
  intros He. destruct O as [O|[O|O]].
  - unfold oa in O. injection O as O1 O2 O3. unfold authd_c. rewrite O2, O3.
    apply (authd_mono S); [apply incl_appr, incl_refl | apply A; congruence].
  - contradiction.
  - exact O.
Qed.

(* all signatures received in a history *)
Fixpoint sigs_of_history (h : list (N * call)) : list encsig :=
  match h with [] => [] | (_, op) :: r => sigs_of_history r ++ sigs_of_call op end.

Lemma run_AInv h : forall c S, AInv S c -> let '(c', _) := run_calls c h in AInv (sigs_of_history h ++ S) c'.
Proof.
  induction h as [|[now op] r IH]; intros c S HI; cbn [run_calls sigs_of_history]; [exact HI|].
  pose proof (step_AInv now c op S HI) as H1. destruct (step now c op) as [c1 res].
  specialize (IH c1 _ H1). destruct (run_calls c1 r) as [c2 evs]. rewrite <- app_assoc. exact IH.
Qed.

Lemma AInv_init who pol key : AInv [] (conv_init who pol key).
Proof. split; [intros H; discriminate | intros H; discriminate]. Qed.

(* C01 over every history: a conversation that reports itself encrypted reports a peer key and a session id for which
   it has RECEIVED a signature made by the owner of that very key over M = (MAC key of the session secret, the peer's
   D-H value, our D-H value, that key, key id), the session id being the one of the secret of exactly these two D-H
   values, and the peer's value being in range - whatever was sent to it, in whatever order, however often *)
Theorem encrypted_implies_signed who pol key h :
  let '(c', _) := run_calls (conv_init who pol key) h in
  c_msgState c' = c_encrypted ->
  exists es x gy w, In es (sigs_of_history h) /\ es_signer es = es_pub es /\ c_theirKey c' = Some (es_pub es) /\
    c_ssid c' = Some (mk_shared x gy) /\ isGroupElement gy = true /\
    es_over es = {| mb_key := {| ak_sh := mk_shared x gy; ak_which := w |}; mb_gfirst := gy; mb_gsecond := x;
                    mb_pub := es_pub es; mb_keyid := es_keyid es |}.
Proof.
  pose proof (run_AInv h _ _ (AInv_init who pol key)) as H. destruct (run_calls (conv_init who pol key) h) as [c' evs].
  rewrite app_nil_r in H. destruct H as [_ A]. exact A.
Qed.


(* non-vacuity: a responder that receives a D-H Commit and then a genuine Reveal Signature message becomes encrypted
   with the signer's key; the same message signed by somebody else under the same claimed key is refused *)
Definition ex_pol := N.lor c_allowV3 c_allowV2.
Definition ex_c0 := conv_init 2 ex_pol 77.
Definition ex_m1 := CReceive (WEnc 3 300 0 (EAke (BCommit 7 5 5))) 0 [].
Definition ex_sh := mk_shared 2001 5.
Definition ex_es1 : encsig := {| es_ckey := {| ak_sh := ex_sh; ak_which := 1 |}; es_pub := 88; es_keyid := 1; es_signer := 88;
  es_over := {| mb_key := {| ak_sh := ex_sh; ak_which := 2 |}; mb_gfirst := 5; mb_gsecond := 2001; mb_pub := 88; mb_keyid := 1 |};
  es_parses := true |}.
Definition ex_mac1 : emac := {| em_key := {| ak_sh := ex_sh; ak_which := 3 |}; em_over := ex_es1; em_intact := true |}.
Definition ex_es2 : encsig := {| es_ckey := {| ak_sh := ex_sh; ak_which := 1 |}; es_pub := 88; es_keyid := 1; es_signer := 99;
  es_over := es_over ex_es1; es_parses := true |}.
Definition ex_mac2 : emac := {| em_key := {| ak_sh := ex_sh; ak_which := 3 |}; em_over := ex_es2; em_intact := true |}.
Example ex_genuine_accepted :
  (let '(c', evs) := run_calls ex_c0 [(10, ex_m1); (11, CReceive (WEnc 3 300 2258 (EAke (BReveal 7 ex_es1 ex_mac1))) 0 [])] in
   (c_msgState c', c_theirKey c', c_ssid c', evs)) = (c_encrypted, Some 88, Some ex_sh, [evSec c_GoneSecure]).
Proof. vm_compute. reflexivity. Qed.
Example ex_impersonator_refused :
  (let '(c', evs) := run_calls ex_c0 [(10, ex_m1); (11, CReceive (WEnc 3 300 2258 (EAke (BReveal 7 ex_es2 ex_mac2))) 0 [])] in
   (c_msgState c', c_theirKey c')) = (c_plainText, None).
Proof. vm_compute. reflexivity. Qed.
