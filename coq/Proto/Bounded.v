(* C19 at conversation level, over every history.
   (1) [BInv]: the session's key context satisfies the size invariant KInv of Proto/KeysProofs.v (one counter entry and one
       MAC-key entry per key pair of the 2 x 2 window) and the key context a key exchange is preparing has none.  The
       values read from the state carry the invariant with them (class [Good]), because the new key context is computed
       from what was read (genDataMsg / recvDataMsg on [c_keys c]).
   (2) [J]: the resend queue holds at most the most recent message, unless no session exists and the queued texts are
       waiting for the key exchange.  Completion of an exchange and the release of the queue are one block.
   Same method as Proto/Lifecycle.v: predicates closed under bind, every definition of Conv.v walked through. *)
From OTR Require Import Go.Base Gen.Consts Bytes.Text Proto.SmpTypes Proto.Keys Proto.KeysProofs Proto.Smp Proto.SmpInst Proto.Conv Proto.ConvProofs Proto.Lifecycle Proto.AkeAuth Proto.Delivery.
From RecordUpdate Require Import RecordSet.
Import RecordSetNotations.
Open Scope N_scope.

(* the key context a key exchange prepares has no counters and no MAC-key history yet *)
Definition KFresh (k : keyctx) : Prop := counters k = [] /\ macHistory k = [].
Definition BInv (c : conv) : Prop := KInv (c_keys c) /\ KFresh (a_keys (the_ake c)).

Lemma KFresh_KInv k : KFresh k -> KInv k.
Proof. intros [H1 H2]. apply KInv_fresh_session; assumption. Qed.

(* values read from the state carry the invariant with them *)
Class Good (A : Type) := good : A -> Prop.
#[export] Instance G_conv : Good conv := BInv.
#[export] Instance G_any {A} : Good A | 100 := fun _ => True.

Definition bi {A} {GA : Good A} (m : M A) : Prop := forall c ev a c' ev', m c ev = (a, c', ev') ->
  BInv c -> BInv c' /\ good a.

Lemma bi_bind {A B} {GA : Good A} {GB : Good B} (m : M A) (f : A -> M B) :
  bi m -> (forall a, good a -> bi (f a)) -> bi (bind m f).
Proof.
  intros Hm Hf c ev b c' ev' E I. apply bind_eq in E as [a [c1 [ev1 [E1 E]]]].
  destruct (Hm _ _ _ _ _ E1 I) as [I1 Ga]. exact (Hf a Ga _ _ _ _ _ E I1).
Qed.
Lemma bi_ret {A} (a : A) : bi (GA := G_any) (ret a).
Proof. intros c ev a' c' ev' E I. injection E as <- <- <-. split; [exact I | exact Logic.I]. Qed.
Lemma bi_get : bi get.
Proof. intros c ev a' c' ev' E I. injection E as <- <- <-. split; exact I. Qed.
Lemma bi_fresh : bi fresh.
Proof. intros c ev a' c' ev' E I. unfold fresh, draw in E. injection E as <- <- <-. split; [exact I | exact Logic.I]. Qed.
Lemma bi_event e : bi (event e).
Proof. intros c ev a' c' ev' E I. injection E as <- <- <-. split; [exact I | exact Logic.I]. Qed.
Lemma bi_modify f : (forall c, BInv c -> BInv (f c)) -> bi (modify f).
Proof. intros H c ev a' c' ev' E I. injection E as <- <- <-. split; [apply H; exact I | exact Logic.I]. Qed.
Lemma bi_pure {A} (f : conv -> list N -> A) : bi (GA := G_any) (fun c ev => (f c ev, c, ev)).
Proof. intros c ev a' c' ev' E I. injection E as <- <- <-. split; [exact I | exact Logic.I]. Qed.
Lemma bi_evs (g : list N -> list N) : bi (fun c ev => (tt, c, g ev)).
Proof. intros c ev a' c' ev' E I. injection E as <- <- <-. split; [exact I | exact Logic.I]. Qed.

Lemma BInv_same c c' : c_keys c' = c_keys c -> c_ake c' = c_ake c -> BInv c -> BInv c'.
Proof. unfold BInv, the_ake. intros -> ->. auto. Qed.

Lemma bi_set_ake f : (forall a, KFresh (a_keys a) -> KFresh (a_keys (f a))) -> bi (set_ake f).
Proof.
  intros H c ev a c' ev' E [I1 I2]. unfold set_ake, modify in E. injection E as _ <- _. split; [|exact Logic.I].
  split; [exact I1|]. unfold the_ake in *. cbn. destruct (c_ake c) as [a0|]; [apply H; exact I2 | exact I2].
Qed.

Lemma KFresh_empty : KFresh keyctx_empty. Proof. split; reflexivity. Qed.

Ltac binv :=
  first
  [ (eapply BInv_same; [reflexivity | reflexivity | eassumption])
  | match goal with
    | Hg : genDataMsg (c_keys ?a) _ _ _ = Ok (_, _, _), Ha : good ?a, H : BInv _ |- BInv _ =>
        destruct Ha as [Ka _]; destruct H as [_ Hf]; split; [exact (KInv_gen _ _ _ _ _ _ _ Ka Hg) | exact Hf]
    | Hr : recvDataMsg (c_keys ?a) _ _ = Ok (_, _, _), Ha : good ?a, H : BInv _ |- BInv _ =>
        destruct Ha as [Ka _]; destruct H as [_ Hf]; split; [exact (KInv_recv _ _ _ _ _ _ Ka Hr) | exact Hf]
    end
  | match goal with
    | H : BInv _ |- BInv _ => destruct H as [Hk Hf]; split;
        [ first [exact Hk | apply KFresh_KInv; split; reflexivity]
        | first [exact Hf | exact KFresh_empty | (split; reflexivity)] ]
    end ].

Create HintDb bi.
Ltac bi_tac :=
  repeat first
  [ solve [auto with bi]
  | progress cbv zeta
  | apply bi_get | apply bi_fresh | apply bi_event | apply bi_evs | apply bi_ret | apply bi_pure
  | (apply bi_set_ake; intros ? [? ?]; split; first [assumption | reflexivity])
  | (apply bi_modify; intros ? ?; solve [binv])
  | (apply bi_bind; [|intros ? ?])
  | match goal with
    | |- bi (if ?b then _ else _) => destruct b
    | |- bi (match ?x with _ => _ end) => destruct x eqn:?
    | |- bi (let '(_, _) := ?x in _) => destruct x
    end ].

Lemma bi_commitToVersionFrom v : bi (commitToVersionFrom v). Proof. unfold commitToVersionFrom. bi_tac. Qed.
#[export] Hint Resolve bi_commitToVersionFrom : bi.
Lemma bi_generateInstanceTag : bi generateInstanceTag. Proof. unfold generateInstanceTag. bi_tac. Qed.
#[export] Hint Resolve bi_generateInstanceTag : bi.
Lemma bi_malformedMessage : bi malformedMessage. Proof. unfold malformedMessage. bi_tac. Qed.
#[export] Hint Resolve bi_malformedMessage : bi.
Lemma bi_verifyInstanceTags a b : bi (verifyInstanceTags a b). Proof. unfold verifyInstanceTags. bi_tac. Qed.
#[export] Hint Resolve bi_verifyInstanceTags : bi.
Lemma bi_messageHeader : bi messageHeader. Proof. unfold messageHeader. bi_tac. Qed.
#[export] Hint Resolve bi_messageHeader : bi.
Lemma bi_wrap b : bi (wrap b). Proof. unfold wrap. bi_tac. Qed.
#[export] Hint Resolve bi_wrap : bi.
Lemma bi_generatePotentialErrorMessage x : bi (generatePotentialErrorMessage x). Proof. unfold generatePotentialErrorMessage. bi_tac. Qed.
#[export] Hint Resolve bi_generatePotentialErrorMessage : bi.
Lemma bi_withInjects x : bi (withInjects x). Proof. unfold withInjects. bi_tac. Qed.
#[export] Hint Resolve bi_withInjects : bi.
Lemma bi_updateLastSent x : bi (updateLastSent x). Proof. unfold updateLastSent. bi_tac. Qed.
#[export] Hint Resolve bi_updateLastSent : bi.
Lemma bi_genDataMsgWithFlag t f l r : bi (genDataMsgWithFlag t f l r). Proof. unfold genDataMsgWithFlag. bi_tac. Qed.
#[export] Hint Resolve bi_genDataMsgWithFlag : bi.

Lemma bi_createSerializedDataMessage n t f l : bi (createSerializedDataMessage n t f l). Proof. unfold createSerializedDataMessage. bi_tac. Qed.
#[export] Hint Resolve bi_createSerializedDataMessage : bi.
Lemma bi_retransmit_loop msgs : forall p acc, bi (retransmit_loop msgs p acc).
Proof. induction msgs as [|m r IH]; intros p acc; cbn [retransmit_loop]; bi_tac. Qed.
#[export] Hint Resolve bi_retransmit_loop : bi.
Lemma bi_emit_n n e : bi (emit_n n e).
Proof. induction n as [|k IH]; cbn [emit_n]; [bi_tac|]. apply bi_bind; [apply bi_event | intros _ _; exact IH]. Qed.
#[export] Hint Resolve bi_emit_n : bi.
Lemma bi_maybeRetransmit n : bi (maybeRetransmit n). Proof. unfold maybeRetransmit. bi_tac. Qed.
#[export] Hint Resolve bi_maybeRetransmit : bi.
Lemma bi_retransmitAfterAKE n : bi (retransmitAfterAKE n). Proof. unfold retransmitAfterAKE. bi_tac. Qed.
#[export] Hint Resolve bi_retransmitAfterAKE : bi.
Lemma bi_sendDHCommit : bi sendDHCommit. Proof. unfold sendDHCommit. bi_tac. Qed.
#[export] Hint Resolve bi_sendDHCommit : bi.
Lemma bi_calcAKEKeys s : bi (calcAKEKeys s). Proof. unfold calcAKEKeys. bi_tac. Qed.
#[export] Hint Resolve bi_calcAKEKeys : bi.
Lemma bi_setSentRevealSig s : bi (setSentRevealSig s). Proof. unfold setSentRevealSig. bi_tac. Qed.
#[export] Hint Resolve bi_setSentRevealSig : bi.
Lemma bi_generateEncryptedSignature s : bi (generateEncryptedSignature s). Proof. unfold generateEncryptedSignature. bi_tac. Qed.
#[export] Hint Resolve bi_generateEncryptedSignature : bi.
Lemma bi_processEncryptedSig a b s : bi (processEncryptedSig a b s). Proof. unfold processEncryptedSig. bi_tac. Qed.
#[export] Hint Resolve bi_processEncryptedSig : bi.
Lemma bi_receiveDHCommit_none b : bi (receiveDHCommit_none b). Proof. unfold receiveDHCommit_none. bi_tac. Qed.
#[export] Hint Resolve bi_receiveDHCommit_none : bi.

(* completion installs the key context the exchange prepared: no counters, no history *)
Lemma akeHasFinished_keys now c ev :
  let '(_, c', _) := akeHasFinished now c ev in
  counters (c_keys c') = counters (a_keys (the_ake c)) /\ macHistory (c_keys c') = macHistory (a_keys (the_ake c)) /\
  a_keys (the_ake c') = keyctx_empty.
Proof. unfold akeHasFinished, fresh, draw. msimpl. repeat split. Qed.
Lemma bi_akeHasFinished now : bi (akeHasFinished now).
Proof.
  intros c ev a c' ev' E [I1 [F1 F2]]. pose proof (akeHasFinished_keys now c ev) as H. rewrite E in H. destruct H as [H1 [H2 H3]].
  split; [|exact Logic.I]. split.
  - apply KInv_fresh_session; congruence.
  - rewrite H3. exact KFresh_empty.
Qed.
#[export] Hint Resolve bi_akeHasFinished : bi.

Lemma bi_processAKE_body now ty body aux : bi (processAKE_body now ty body aux).
Proof. unfold processAKE_body. bi_tac. Qed.
#[export] Hint Resolve bi_processAKE_body : bi.
Lemma bi_processAKE now ty body aux : bi (processAKE now ty body aux).
Proof. unfold processAKE. bi_tac. Qed.
#[export] Hint Resolve bi_processAKE : bi.
Lemma bi_processTLVs rnd tlvs : forall x acc, bi (processTLVs rnd tlvs x acc).
Proof. induction tlvs as [|t r IH]; intros x acc; cbn [processTLVs]; [bi_tac|]. destruct t; bi_tac; try apply IH. Qed.
#[export] Hint Resolve bi_processTLVs : bi.
Lemma bi_processDataMessage now d rnd : bi (processDataMessage now d rnd).
Proof. unfold processDataMessage. bi_tac. Qed.
#[export] Hint Resolve bi_processDataMessage : bi.
Lemma bi_potentialHeartbeat now p : bi (potentialHeartbeat now p). Proof. unfold potentialHeartbeat. bi_tac. Qed.
#[export] Hint Resolve bi_potentialHeartbeat : bi.
Lemma bi_receiveDataMessage now d rnd : bi (receiveDataMessage now d rnd). Proof. unfold receiveDataMessage. bi_tac. Qed.
#[export] Hint Resolve bi_receiveDataMessage : bi.
Lemma bi_checkPlaintextPolicies : bi checkPlaintextPolicies. Proof. unfold checkPlaintextPolicies. bi_tac. Qed.
#[export] Hint Resolve bi_checkPlaintextPolicies : bi.
Lemma bi_receiveQueryMessage now v : bi (receiveQueryMessage now v). Proof. unfold receiveQueryMessage. bi_tac. Qed.
#[export] Hint Resolve bi_receiveQueryMessage : bi.
Lemma bi_receiveDecoded now ver stag rtag body aux rnd : bi (receiveDecoded now ver stag rtag body aux rnd).
Proof. unfold receiveDecoded. bi_tac. Qed.
#[export] Hint Resolve bi_receiveDecoded : bi.
Lemma bi_forgetVersion b e : bi (forgetVersion b e). Proof. unfold forgetVersion. bi_tac. Qed.
#[export] Hint Resolve bi_forgetVersion : bi.
Lemma bi_forgetTag b e : bi (forgetTag b e). Proof. unfold forgetTag. bi_tac. Qed.
#[export] Hint Resolve bi_forgetTag : bi.
Lemma bi_finish p o e : bi (finish p o e). Proof. unfold finish. bi_tac. Qed.
#[export] Hint Resolve bi_finish : bi.
Lemma bi_finishSend o e : bi (finishSend o e). Proof. unfold finishSend. bi_tac. Qed.
#[export] Hint Resolve bi_finishSend : bi.
Lemma bi_receive now w aux rnd : bi (receive now w aux rnd). Proof. unfold receive. bi_tac. Qed.
Lemma bi_send now t : bi (send now t). Proof. unfold send. bi_tac. Qed.
Lemma bi_endConv now : bi (endConv now). Proof. unfold endConv. bi_tac. Qed.
Lemma bi_userSMP now s rnd : bi (userSMP now s rnd). Proof. unfold userSMP. bi_tac. Qed.
Lemma bi_sendTLVs now t : bi (sendTLVs now t). Proof. unfold sendTLVs. bi_tac. Qed.
Lemma bi_useExtraKey now u d : bi (useExtraKey now u d). Proof. unfold useExtraKey. bi_tac. Qed.

Lemma step_BInv now c op : BInv c -> BInv (fst (step now c op)).
Proof.
  intros I. unfold step. destruct op as [t|w aux rnd| |s rnd|u d|tlvs].
  - destruct (send now t c []) as [[r c'] ev'] eqn:E. exact (proj1 (bi_send now t _ _ _ _ _ E I)).
  - destruct (receive now w aux rnd c []) as [[r c'] ev'] eqn:E. exact (proj1 (bi_receive now w aux rnd _ _ _ _ _ E I)).
  - destruct (endConv now c []) as [[r c'] ev'] eqn:E. exact (proj1 (bi_endConv now _ _ _ _ _ E I)).
  - destruct (userSMP now s rnd c []) as [[r c'] ev'] eqn:E. exact (proj1 (bi_userSMP now s rnd _ _ _ _ _ E I)).
  - destruct (useExtraKey now u d c []) as [[r c'] ev'] eqn:E. exact (proj1 (bi_useExtraKey now u d _ _ _ _ _ E I)).
  - destruct (sendTLVs now tlvs c []) as [[r c'] ev'] eqn:E. exact (proj1 (bi_sendTLVs now tlvs _ _ _ _ _ E I)).
Qed.

Lemma run_BInv h : forall c, BInv c -> BInv (fst (run_calls c h)).
Proof.
  induction h as [|[now op] r IH]; intros c I; cbn [run_calls]; [exact I|].
  pose proof (step_BInv now c op I) as H. destruct (step now c op) as [c1 res]. cbn [fst] in H.
  specialize (IH c1 H). destruct (run_calls c1 r) as [c2 evs]. exact IH.
Qed.

Lemma BInv_init who pol key : BInv (conv_init who pol key).
Proof. split; [apply KInv_fresh_session; reflexivity | exact KFresh_empty]. Qed.

(* C19 at conversation level, for every history (genuine, forged, replayed, garbage input; sends, End, SMP; any number
   of key exchanges and rotations): the per-key-pair bookkeeping of the session holds at most one counter entry and one
   MAC-key entry per pair of the 2 x 2 window, and the key context a key exchange prepares holds none *)
Theorem retained_key_state_bounded who pol key h :
  let c := fst (run_calls (conv_init who pol key) h) in
  (length (counters (c_keys c)) <= 4)%nat /\ (length (macHistory (c_keys c)) <= 4)%nat /\
  counters (a_keys (the_ake c)) = [] /\ macHistory (a_keys (the_ake c)) = [].
Proof.
  cbv zeta. destruct (run_BInv h _ (BInv_init who pol key)) as [K [F1 F2]].
  destruct (KInv_bounded _ K) as [B1 B2]. auto.
Qed.

(* the resend queue: at most the most recent message, except for texts queued while no session exists yet, which are
   waiting to be sent once the key exchange completes *)
Definition J (c : conv) : Prop :=
  (length (c_resendMsgs c) <= 1)%nat \/
  (c_msgState c <> c_encrypted /\ c_mayRetransmit c <> c_noRetransmit).
Definition jp (c : conv) := (c_resendMsgs c, c_msgState c, c_mayRetransmit c).
Lemma J_same c c' : jp c' = jp c -> J c -> J c'.
Proof. unfold jp, J. intros E. injection E as -> -> ->. auto. Qed.

Definition bj {A} (m : M A) : Prop := forall c ev a c' ev', m c ev = (a, c', ev') -> J c -> J c'.
Lemma bj_bind {A B} (m : M A) (f : A -> M B) : bj m -> (forall a, bj (f a)) -> bj (bind m f).
Proof.
  intros Hm Hf c ev b c' ev' E I. apply bind_eq in E as [a [c1 [ev1 [E1 E]]]].
  exact (Hf a _ _ _ _ _ E (Hm _ _ _ _ _ E1 I)).
Qed.
Lemma bj_ret {A} (a : A) : bj (ret a). Proof. intros c ev a' c' ev' E I. injection E as _ <- _. exact I. Qed.
Lemma bj_get : bj get. Proof. intros c ev a' c' ev' E I. injection E as _ <- _. exact I. Qed.
Lemma bj_fresh : bj fresh. Proof. intros c ev a' c' ev' E I. unfold fresh, draw in E. injection E as _ <- _. exact I. Qed.
Lemma bj_event e : bj (event e). Proof. intros c ev a' c' ev' E I. injection E as _ <- _. exact I. Qed.
Lemma bj_modify f : (forall c, J c -> J (f c)) -> bj (modify f).
Proof. intros H c ev a' c' ev' E I. injection E as _ <- _. apply H; exact I. Qed.
Lemma bj_pure {A} (f : conv -> list N -> A) : bj (fun c ev => (f c ev, c, ev)).
Proof. intros c ev a' c' ev' E I. injection E as _ <- _. exact I. Qed.
Lemma bj_evs {A} (x : A) (g : list N -> list N) : bj (fun c ev => (x, c, g ev)).
Proof. intros c ev a' c' ev' E I. injection E as _ <- _. exact I. Qed.

(* solver for J (f c) *)
Ltac jsolve :=
  first
  [ (eapply J_same; [reflexivity | eassumption])
  | (* the queue becomes empty or a single message *)
    (left; cbn; solve [auto | lia])
  | (* the queue is left alone, the state leaves "encrypted" or the retransmission mode is set *)
    match goal with H : J _ |- J _ =>
      destruct H as [H|[H1 H2]]; [left; exact H | right; split; cbn; first [exact H1 | exact H2 | discriminate]]
    end
  | match goal with H : J _ |- J _ =>
      destruct H as [H|[H1 H2]]; [left; cbn; exact H | right; split; cbn; first [assumption | discriminate]]
    end ].

Create HintDb bj.
Ltac bj_tac :=
  repeat first
  [ solve [auto with bj]
  | progress cbv zeta
  | apply bj_get | apply bj_fresh | apply bj_event | apply bj_evs | apply bj_ret | apply bj_pure
  | (apply bj_modify; intros ? ?; solve [jsolve])
  | (apply bj_bind; [|intros ?])
  | match goal with
    | |- bj (if ?b then _ else _) => destruct b eqn:?
    | |- bj (match ?x with _ => _ end) => destruct x eqn:?
    | |- bj (let '(_, _) := ?x in _) => destruct x
    end ].

Lemma bj_commitToVersionFrom v : bj (commitToVersionFrom v). Proof. unfold commitToVersionFrom. bj_tac. Qed.
#[export] Hint Resolve bj_commitToVersionFrom : bj.
Lemma bj_generateInstanceTag : bj generateInstanceTag. Proof. unfold generateInstanceTag. bj_tac. Qed.
#[export] Hint Resolve bj_generateInstanceTag : bj.
Lemma bj_malformedMessage : bj malformedMessage. Proof. unfold malformedMessage. bj_tac. Qed.
#[export] Hint Resolve bj_malformedMessage : bj.
Lemma bj_verifyInstanceTags a b : bj (verifyInstanceTags a b). Proof. unfold verifyInstanceTags. bj_tac. Qed.
#[export] Hint Resolve bj_verifyInstanceTags : bj.
Lemma bj_messageHeader : bj messageHeader. Proof. unfold messageHeader. bj_tac. Qed.
#[export] Hint Resolve bj_messageHeader : bj.
Lemma bj_wrap b : bj (wrap b). Proof. unfold wrap. bj_tac. Qed.
#[export] Hint Resolve bj_wrap : bj.
Lemma bj_generatePotentialErrorMessage x : bj (generatePotentialErrorMessage x). Proof. unfold generatePotentialErrorMessage. bj_tac. Qed.
#[export] Hint Resolve bj_generatePotentialErrorMessage : bj.
Lemma bj_withInjects x : bj (withInjects x). Proof. unfold withInjects. bj_tac. Qed.
#[export] Hint Resolve bj_withInjects : bj.
Lemma bj_updateLastSent x : bj (updateLastSent x). Proof. unfold updateLastSent. bj_tac. Qed.
#[export] Hint Resolve bj_updateLastSent : bj.

Lemma jp_messageHeader : fp jp messageHeader. Proof. unfold messageHeader. fp_tac. Qed.

Lemma J_enc c : J c -> c_msgState c = c_encrypted -> (length (c_resendMsgs c) <= 1)%nat.
Proof. intros [H|[H _]] He; [exact H | contradiction]. Qed.

(* building a data message happens only while encrypted, where the queue holds at most the last message *)
Lemma bj_genDataMsgWithFlag t f l r : bj (genDataMsgWithFlag t f l r).
Proof.
  intros c ev a c' ev' E I. unfold genDataMsgWithFlag in E.
  apply bind_eq in E as [cg [c0 [ev0 [Eg E]]]]. apply get_eq in Eg. injection Eg as -> -> ->.
  apply if_eq in E as [[_ E]|[Hb E]]; [apply ret_eq in E; injection E as _ <- _; exact I|].
  apply negb_false_iff, N.eqb_eq in Hb.
  destruct (sessionKeysFor (c_keys c) (ourKeyID (c_keys c) - 1) (theirKeyID (c_keys c))) as [keys|e|].
  2:{ apply ret_eq in E; injection E as _ <- _; exact I. }
  2:{ apply ret_eq in E; injection E as _ <- _; exact I. }
  apply bind_eq in E as [h [c1 [ev1 [E1 E]]]]. pose proof (jp_messageHeader _ _ _ _ _ E1) as K1.
  unfold jp in K1. injection K1 as K11 K12 K13.
  apply bind_eq in E as [cg [c1' [ev1' [Eg E]]]]. apply get_eq in Eg. injection Eg as -> -> ->.
  destruct (genDataMsg (c_keys c1) h f {| p_text := t; p_tlvs := l |}) as [[[d k'] x]|e|].
  2:{ apply ret_eq in E; injection E as _ <- _. apply (J_same c); [unfold jp; congruence | exact I]. }
  2:{ apply ret_eq in E; injection E as _ <- _. apply (J_same c); [unfold jp; congruence | exact I]. }
  apply bind_eq in E as [u [c2 [ev2 [E2 E]]]]. unfold modify in E2. injection E2 as _ Ec2 _. subst c2.
  apply ret_eq in E. injection E as _ Ec _. subst c'.
  pose proof (J_enc c I Hb) as L. left. cbn. rewrite K11. destruct (r || match t with [] => true | _ => false end); [exact L | cbn; lia].
Qed.
#[export] Hint Resolve bj_genDataMsgWithFlag : bj.

Lemma bj_createSerializedDataMessage n t f l : bj (createSerializedDataMessage n t f l). Proof. unfold createSerializedDataMessage. bj_tac. Qed.
#[export] Hint Resolve bj_createSerializedDataMessage : bj.
Lemma bj_retransmit_loop msgs : forall p acc, bj (retransmit_loop msgs p acc).
Proof. induction msgs as [|m r IH]; intros p acc; cbn [retransmit_loop]; bj_tac. Qed.
#[export] Hint Resolve bj_retransmit_loop : bj.
Lemma bj_emit_n n e : bj (emit_n n e).
Proof. induction n as [|k IH]; cbn [emit_n]; [bj_tac|]. apply bj_bind; [apply bj_event | intros _; exact IH]. Qed.
#[export] Hint Resolve bj_emit_n : bj.
Lemma bj_maybeRetransmit n : bj (maybeRetransmit n). Proof. unfold maybeRetransmit. bj_tac. Qed.
#[export] Hint Resolve bj_maybeRetransmit : bj.
Lemma bj_retransmitAfterAKE n : bj (retransmitAfterAKE n). Proof. unfold retransmitAfterAKE. bj_tac. Qed.
#[export] Hint Resolve bj_retransmitAfterAKE : bj.
Lemma bj_set_ake f : bj (set_ake f). Proof. unfold set_ake. bj_tac. Qed.
#[export] Hint Resolve bj_set_ake : bj.
Lemma bj_sendDHCommit : bj sendDHCommit. Proof. unfold sendDHCommit. bj_tac. Qed.
#[export] Hint Resolve bj_sendDHCommit : bj.
Lemma bj_calcAKEKeys s : bj (calcAKEKeys s). Proof. unfold calcAKEKeys. bj_tac. Qed.
#[export] Hint Resolve bj_calcAKEKeys : bj.
Lemma bj_setSentRevealSig s : bj (setSentRevealSig s). Proof. unfold setSentRevealSig. bj_tac. Qed.
#[export] Hint Resolve bj_setSentRevealSig : bj.
Lemma bj_generateEncryptedSignature s : bj (generateEncryptedSignature s). Proof. unfold generateEncryptedSignature. bj_tac. Qed.
#[export] Hint Resolve bj_generateEncryptedSignature : bj.
Lemma bj_processEncryptedSig a b s : bj (processEncryptedSig a b s). Proof. unfold processEncryptedSig. bj_tac. Qed.
#[export] Hint Resolve bj_processEncryptedSig : bj.
Lemma bj_receiveDHCommit_none b : bj (receiveDHCommit_none b). Proof. unfold receiveDHCommit_none. bj_tac. Qed.
#[export] Hint Resolve bj_receiveDHCommit_none : bj.

Lemma akeHasFinished_jp now c ev :
  let '(_, c', _) := akeHasFinished now c ev in
  c_resendMsgs c' = c_resendMsgs c /\ c_mayRetransmit c' = c_mayRetransmit c /\ c_msgState c' = c_encrypted.
Proof. unfold akeHasFinished, fresh, draw. msimpl. repeat split. Qed.

(* completion of a key exchange followed at once by the release of the queue *)
Lemma bj_finish_block now {B} (k : list wire -> M B) : (forall ex, bj (k ex)) ->
  bj (akeHasFinished now ;;; LET ex <- retransmitAfterAKE now IN k ex).
Proof.
  intros Hk c ev b c' ev' E I. apply bind_eq in E as [u [c1 [ev1 [E1 E]]]].
  pose proof (akeHasFinished_jp now c ev) as F. rewrite E1 in F. destruct F as [F1 [F2 F3]].
  apply bind_eq in E as [ex [c2 [ev2 [E2 E]]]]. apply (Hk ex _ _ _ _ _ E). clear E Hk.
  unfold retransmitAfterAKE in E2. apply bind_eq in E2 as [cg [c0 [ev0 [Eg E2]]]]. apply get_eq in Eg. injection Eg as -> -> ->.
  rewrite F3, N.eqb_refl in E2.
  apply bind_eq in E2 as [ws [cm [evm [Em E2]]]].
  (* what follows the release of the queue (a heartbeat when MAC keys wait to be revealed) keeps the bound *)
  assert (T : bj (LET c1 <- get IN
                  match ws, oldMACKeys (c_keys c1) with
                  | [], _ :: _ =>
                      LET g <- genDataMsgWithFlag [] c_messageFlagIgnoreUnreadable [] false IN
                      match g with
                      | Ok (w, _) => updateLastSent now ;;; event c_MessageEventLogHeartbeatSent ;;; ret [w]
                      | _ => ret []
                      end
                  | _, _ => ret ws
                  end)) by bj_tac.
  apply (T _ _ _ _ _ E2). clear T E2.
  unfold maybeRetransmit in Em. apply bind_eq in Em as [cg [c0 [ev0 [Eg E2]]]]. apply get_eq in Eg. injection Eg as -> -> ->.
  apply if_eq in E2 as [[Hb E2]|[Hb E2]].
  - apply ret_eq in E2. injection E2 as _ Ec _. subst cm. left. rewrite F1.
    destruct I as [I|[_ I2]]; [exact I|]. apply orb_true_iff in Hb as [Hb|Hb].
    + rewrite F1 in Hb. destruct (c_resendMsgs c); [cbn; lia | discriminate].
    + apply N.eqb_eq in Hb. rewrite F2 in Hb. contradiction.
  - cbv zeta in E2. apply bind_eq in E2 as [u1 [c3 [ev3 [E3 E2]]]]. unfold modify in E3. injection E3 as _ Ec3 _. subst c3.
    assert (J3 : J (c1 <| c_resendMsgs := [] |>)) by (left; cbn; lia).
    apply bind_eq in E2 as [r [c4 [ev4 [E4 E2]]]]. pose proof (bj_retransmit_loop _ _ _ _ _ _ _ _ E4 J3) as J4.
    destruct r as [ws'|].
    + apply bind_eq in E2 as [u5 [c5 [ev5 [E5 E2]]]]. pose proof (bj_emit_n _ _ _ _ _ _ _ E5 J4) as J5.
      apply bind_eq in E2 as [u6 [c6 [ev6 [E6 E2]]]]. pose proof (bj_updateLastSent _ _ _ _ _ _ E6 J5) as J6.
      apply ret_eq in E2. injection E2 as _ Ec _. subst cm. exact J6.
    + apply ret_eq in E2. injection E2 as _ Ec _. subst cm. exact J4.
Qed.

Ltac bj_tac2 :=
  repeat first
  [ solve [auto with bj]
  | progress cbv zeta
  | match goal with |- bj (bind (akeHasFinished _) _) => apply bj_finish_block; intros ? end
  | apply bj_get | apply bj_fresh | apply bj_event | apply bj_evs | apply bj_ret | apply bj_pure
  | (apply bj_modify; intros ? ?; solve [jsolve])
  | (apply bj_bind; [|intros ?])
  | match goal with
    | |- bj (if ?b then _ else _) => destruct b eqn:?
    | |- bj (match ?x with _ => _ end) => destruct x eqn:?
    | |- bj (let '(_, _) := ?x in _) => destruct x
    end ].

Lemma bj_processAKE_body now ty body aux : bj (processAKE_body now ty body aux).
Proof. unfold processAKE_body. bj_tac2. Qed.
#[export] Hint Resolve bj_processAKE_body : bj.
Lemma bj_processAKE now ty body aux : bj (processAKE now ty body aux). Proof. unfold processAKE. bj_tac2. Qed.
#[export] Hint Resolve bj_processAKE : bj.
Lemma bj_processTLVs rnd tlvs : forall x acc, bj (processTLVs rnd tlvs x acc).
Proof. induction tlvs as [|t r IH]; intros x acc; cbn [processTLVs]; [bj_tac2|]. destruct t; bj_tac2; try apply IH. Qed.
#[export] Hint Resolve bj_processTLVs : bj.
Lemma bj_processDataMessage now d rnd : bj (processDataMessage now d rnd). Proof. unfold processDataMessage. bj_tac2. Qed.
#[export] Hint Resolve bj_processDataMessage : bj.
Lemma bj_potentialHeartbeat now p : bj (potentialHeartbeat now p). Proof. unfold potentialHeartbeat. bj_tac2. Qed.
#[export] Hint Resolve bj_potentialHeartbeat : bj.
Lemma bj_receiveDataMessage now d rnd : bj (receiveDataMessage now d rnd). Proof. unfold receiveDataMessage. bj_tac2. Qed.
#[export] Hint Resolve bj_receiveDataMessage : bj.
Lemma bj_checkPlaintextPolicies : bj checkPlaintextPolicies. Proof. unfold checkPlaintextPolicies. bj_tac2. Qed.
#[export] Hint Resolve bj_checkPlaintextPolicies : bj.
Lemma bj_receiveQueryMessage now v : bj (receiveQueryMessage now v). Proof. unfold receiveQueryMessage. bj_tac2. Qed.
#[export] Hint Resolve bj_receiveQueryMessage : bj.
Lemma bj_receiveDecoded now ver stag rtag body aux rnd : bj (receiveDecoded now ver stag rtag body aux rnd).
Proof. unfold receiveDecoded. bj_tac2. Qed.
#[export] Hint Resolve bj_receiveDecoded : bj.
Lemma bj_forgetVersion b e : bj (forgetVersion b e). Proof. unfold forgetVersion. bj_tac2. Qed.
#[export] Hint Resolve bj_forgetVersion : bj.
Lemma bj_forgetTag b e : bj (forgetTag b e). Proof. unfold forgetTag. bj_tac2. Qed.
#[export] Hint Resolve bj_forgetTag : bj.
Lemma bj_finish p o e : bj (finish p o e). Proof. unfold finish. bj_tac2. Qed.
#[export] Hint Resolve bj_finish : bj.
Lemma bj_finishSend o e : bj (finishSend o e). Proof. unfold finishSend. bj_tac2. Qed.
#[export] Hint Resolve bj_finishSend : bj.
Lemma bj_userSMP now s rnd : bj (userSMP now s rnd). Proof. unfold userSMP. bj_tac2. Qed.
Lemma bj_sendTLVs now t : bj (sendTLVs now t). Proof. unfold sendTLVs. bj_tac2. Qed.
Lemma bj_useExtraKey now u d : bj (useExtraKey now u d). Proof. unfold useExtraKey. bj_tac2. Qed.

Lemma bj_receive now w aux rnd : bj (receive now w aux rnd). Proof. unfold receive. bj_tac2. Qed.
Lemma bj_endConv now : bj (endConv now). Proof. unfold endConv. bj_tac2. Qed.

Lemma bj_send now t : bj (send now t).
Proof.
  intros c ev a c' ev' E I. unfold send in E.
  apply bind_eq in E as [cg [c0 [ev0 [Eg E]]]]. apply get_eq in Eg. injection Eg as -> -> ->.
  apply if_eq in E as [[_ E]|[_ E]]; [injection E as _ <- _; exact I|].
  apply if_eq in E as [[Hp E]|[Hp E]].
  - apply N.eqb_eq in Hp. apply if_eq in E as [[_ E]|[_ E]].
    + (* the text is queued: the conversation is in plaintext state and the queue is marked for retransmission *)
      apply bind_eq in E as [u1 [c1 [ev1 [E1 E]]]]. unfold event in E1. injection E1 as _ Ec1 _. subst c1.
      apply bind_eq in E as [u2 [c2 [ev2 [E2 E]]]]. unfold updateLastSent, modify in E2. injection E2 as _ Ec2 _. subst c2.
      apply bind_eq in E as [u3 [c3 [ev3 [E3 E]]]]. unfold modify in E3. injection E3 as _ Ec3 _. subst c3.
      apply bind_eq in E as [cg [c4 [ev4 [Eg E]]]]. apply get_eq in Eg. injection Eg as _ Ec4 _. subst c4.
      apply (bj_finishSend _ _ _ _ _ _ _ E). right. cbn. split; [rewrite Hp; discriminate | discriminate].
    + match type of E with ?m c ev = _ => assert (Hn : bj m) by bj_tac2 end. exact (Hn _ _ _ _ _ E I).
  - match type of E with ?m c ev = _ => assert (Hn : bj m) by bj_tac2 end. exact (Hn _ _ _ _ _ E I).
Qed.

Lemma step_J now c op : J c -> J (fst (step now c op)).
Proof.
  intros I. unfold step. destruct op as [t|w aux rnd| |s rnd|u d|tlvs].
  - destruct (send now t c []) as [[r c'] ev'] eqn:E. exact (bj_send now t _ _ _ _ _ E I).
  - destruct (receive now w aux rnd c []) as [[r c'] ev'] eqn:E. exact (bj_receive now w aux rnd _ _ _ _ _ E I).
  - destruct (endConv now c []) as [[r c'] ev'] eqn:E. exact (bj_endConv now _ _ _ _ _ E I).
  - destruct (userSMP now s rnd c []) as [[r c'] ev'] eqn:E. exact (bj_userSMP now s rnd _ _ _ _ _ E I).
  - destruct (useExtraKey now u d c []) as [[r c'] ev'] eqn:E. exact (bj_useExtraKey now u d _ _ _ _ _ E I).
  - destruct (sendTLVs now tlvs c []) as [[r c'] ev'] eqn:E. exact (bj_sendTLVs now tlvs _ _ _ _ _ E I).
Qed.
Lemma run_J h : forall c, J c -> J (fst (run_calls c h)).
Proof.
  induction h as [|[now op] r IH]; intros c I; cbn [run_calls]; [exact I|].
  pose proof (step_J now c op I) as H. destruct (step now c op) as [c1 res]. cbn [fst] in H.
  specialize (IH c1 H). destruct (run_calls c1 r) as [c2 evs]. exact IH.
Qed.
Lemma J_init who pol key : J (conv_init who pol key). Proof. left. cbn. lia. Qed.

(* C19, the resend queue, for every history: while a session is established it holds at most the most recent message;
   more than one text is held only while no session exists and the texts are waiting for the key exchange *)
Theorem resend_queue_bounded who pol key h :
  let c := fst (run_calls (conv_init who pol key) h) in
  (length (c_resendMsgs c) <= 1)%nat \/ (c_msgState c <> c_encrypted /\ c_mayRetransmit c <> c_noRetransmit).
Proof. exact (run_J h _ (J_init who pol key)). Qed.
