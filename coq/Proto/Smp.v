(* Symbolic mirror of the Socialist Millionaires' Protocol code: smp.go, smp_state_machine.go,
   smp_msg1..4.go, authenticate.go (user calls), in exponent representation (Proto/SmpTypes.v).
   The hash used for the zero-knowledge proofs is a parameter [H]; the group order is [q]. *)
From OTR Require Import Go.Base Gen.Consts Proto.SmpTypes.
Open Scope N_scope.

(* context the conversation supplies *)
Record smp_ctx := { x_encrypted : bool; x_v3 : bool; x_ourFp : N; x_theirFp : N; x_ssid : N * N }.

Inductive smp_call : Type :=
| SStart (question : bytes) (secret : bytes)
| SProvide (secret : bytes)
| SAbort.

Record smp1st := { s1_a2 : N; s1_a3 : N; s1_r2 : N; s1_r3 : N }.
Record smp1msg := { m1_g2a : elem; m1_c2 : N; m1_d2 : N; m1_g3a : elem; m1_c3 : N; m1_d3 : N;
                    m1_question : option bytes }.
Record smp2st := { s2_y : N; s2_b2 : N; s2_b3 : N; s2_g3a : elem; s2_g2 : elem; s2_g3 : elem;
                   s2_pb : elem; s2_qb : elem }.
Record smp3st := { s3_x : N; s3_g3b : elem; s3_qaqb : elem; s3_papb : elem }.

Record smpst := {
  sm_state : N;                      (* 0 nil, 1 expect1, 2 expect2, 3 expect3, 4 expect4, 5 waiting for secret *)
  sm_question : option bytes;
  sm_secret : option N;
  sm_s1 : option smp1st; sm_s2 : option smp2st; sm_s3 : option smp3st;
  sm_waiting : option smp1msg
}.
Definition smp_init : smpst :=
  {| sm_state := 0; sm_question := None; sm_secret := None; sm_s1 := None; sm_s2 := None; sm_s3 := None;
     sm_waiting := None |}.
Definition smp_wiped : smpst := smp_init.
Definition smp_ensure (s : smpst) : smpst :=
  if sm_state s =? 0 then
    {| sm_state := 1; sm_question := sm_question s; sm_secret := sm_secret s; sm_s1 := sm_s1 s; sm_s2 := sm_s2 s;
       sm_s3 := sm_s3 s; sm_waiting := sm_waiting s |}
  else s.
Definition set_state (s : smpst) (n : N) : smpst :=
  {| sm_state := n; sm_question := sm_question s; sm_secret := sm_secret s; sm_s1 := sm_s1 s; sm_s2 := sm_s2 s;
     sm_s3 := sm_s3 s; sm_waiting := sm_waiting s |}.

(* events, as the generated SMPEvent constants *)
Definition evError := c_SMPEventError.
Definition evAbort := c_SMPEventAbort.
Definition evCheated := c_SMPEventCheated.
Definition evAskForAnswer := c_SMPEventAskForAnswer.
Definition evAskForSecret := c_SMPEventAskForSecret.
Definition evInProgress := c_SMPEventInProgress.
Definition evSuccess := c_SMPEventSuccess.
Definition evFailure := c_SMPEventFailure.

Section SMP.
  Variable q : N.                               (* group order *)
  Variable H : N -> list elem -> N.             (* hash to a number: the c values of the proofs *)
  Variable secretHash : bool -> N -> N -> N * N -> bytes -> N.   (* generateSMPSecret *)

  (* ---- group operations in exponent representation ---- *)
  Definition g1e : elem := EKnown false 1.
  Definition el_exp (g : elem) (x : N) : elem :=          (* modExpP(g, x) *)
    if x =? 0 then EKnown false 0 else
    match g with
    | EKnown s e => EKnown (s && N.odd x) ((e * x) mod q)
    | EZero => EZero
    | ETainted i => ETainted i
    end.
  Definition el_mul (a b : elem) : elem :=                (* mulMod(a, b, p) *)
    match a, b with
    | EZero, _ | _, EZero => EZero
    | ETainted i, _ => ETainted i
    | _, ETainted i => ETainted i
    | EKnown s1 e1, EKnown s2 e2 => EKnown (xorb s1 s2) ((e1 + e2) mod q)
    end.
  (* divMod(a, b, p): None = ModInverse returned nil (b = 0 mod p), the Go code then panics *)
  Definition el_div (a b : elem) : option elem :=
    match b with
    | EZero => None
    | ETainted i => Some (match a with EZero => EZero | _ => ETainted i end)
    | EKnown s2 e2 => Some (el_mul a (EKnown s2 ((q - e2 mod q) mod q)))
    end.
  Definition el_eqb (a b : elem) : bool :=
    match a, b with
    | EKnown s1 e1, EKnown s2 e2 => Bool.eqb s1 s2 && (e1 mod q =? e2 mod q)
    | EZero, EZero => true
    | _, _ => false
    end.
  (* isGroupElement: 2 <= n <= p-2; version 2 performs no check *)
  Definition in_range (v3 : bool) (g : elem) : bool :=
    if negb v3 then true else
    match g with EKnown _ e => negb (e mod q =? 0) | EZero => false | ETainted _ => true end.

  Definition subq (r m : N) : N := (r + (q - m mod q)) mod q.      (* subMod(r, m, q) *)

  (* generateZKP / verifyZKP *)
  Definition genZKP (r a ix : N) : N * N :=
    let c := H ix [el_exp g1e r] in (c, subq r (a * c)).
  Definition verifyZKP (d : N) (gen : elem) (c ix : N) : bool :=
    c =? H ix [el_mul (el_exp g1e d) (el_exp gen c)].
  Definition verifyZKP2 (g2 g3 : elem) (d5 d6 : N) (pb qb : elem) (cp ix : N) : bool :=
    let l := el_mul (el_exp g3 d5) (el_exp pb cp) in
    let r := el_mul (el_mul (el_exp g1e d5) (el_exp g2 d6)) (el_exp qb cp) in
    cp =? H ix [l; r].
  Definition verifyZKP4 (cr : N) (g3a : elem) (d7 : N) (qaqb ra : elem) (ix : N) : bool :=
    let l := el_mul (el_exp g1e d7) (el_exp g3a cr) in
    let r := el_mul (el_exp qaqb d7) (el_exp ra cr) in
    cr =? H ix [l; r].

  (* ---- messages <-> TLV payloads ---- *)
  Definition num_at (l : list sval) (i : nat) : N := match nth i l (VNum 0) with VNum n => n | VEl _ => 0 end.
  Definition el_at (l : list sval) (i : nat) : elem := match nth i l (VNum 0) with VEl e => e | VNum _ => ETainted 0 end.

  Definition tlv1 (m : smp1msg) : N * smp_payload :=
    ((match m1_question m with Some _ => c_tlvTypeSMP1WithQuestion | None => c_tlvTypeSMP1 end),
     {| sp_question := m1_question m;
        sp_vals := [VEl (m1_g2a m); VNum (m1_c2 m); VNum (m1_d2 m); VEl (m1_g3a m); VNum (m1_c3 m); VNum (m1_d3 m)] |}).

  (* result of a step: new state, reply TLV (type, payload), parse error, panic, events *)
  Record sres := { sr_st : smpst; sr_reply : list (N * smp_payload); sr_err : bool; sr_panic : bool;
                   sr_events : list N }.
  Definition abort_tlv : N * smp_payload := (c_tlvTypeSMPAbort, {| sp_question := None; sp_vals := [] |}).
  Definition abort_with (s : smpst) (ev : list N) : sres :=
    {| sr_st := set_state s 1; sr_reply := [abort_tlv]; sr_err := false; sr_panic := false; sr_events := ev |}.
  Definition panicked (s : smpst) (ev : list N) : sres :=
    {| sr_st := s; sr_reply := []; sr_err := false; sr_panic := true; sr_events := ev |}.

  Definition wipe_keep_state1 (s : smpst) : smpst := set_state smp_init 1.

  (* ---- user calls ---- *)
  Definition startAuthenticate (s : smpst) (x : smp_ctx) (question secret : bytes) (rnd : list N) : sres :=
    if negb (x_encrypted x) then
      {| sr_st := s; sr_reply := []; sr_err := true; sr_panic := false; sr_events := [] |}
    else
      let sec := secretHash (x_v3 x) (x_ourFp x) (x_theirFp x) (x_ssid x) secret in
      let a2 := nth 0 rnd 0 in let a3 := nth 1 rnd 0 in let r2 := nth 2 rnd 0 in let r3 := nth 3 rnd 0 in
      let '(c2, d2) := genZKP r2 a2 1 in
      let '(c3, d3) := genZKP r3 a3 2 in
      let m := {| m1_g2a := el_exp g1e a2; m1_c2 := c2; m1_d2 := d2; m1_g3a := el_exp g1e a3; m1_c3 := c3; m1_d3 := d3;
                  m1_question := match question with [] => None | _ => Some question end |} in
      {| sr_st := {| sm_state := 2; sm_question := sm_question s; sm_secret := Some sec;
                     sm_s1 := Some {| s1_a2 := a2; s1_a3 := a3; s1_r2 := r2; s1_r3 := r3 |};
                     sm_s2 := sm_s2 s; sm_s3 := sm_s3 s; sm_waiting := sm_waiting s |};
         sr_reply := [tlv1 m]; sr_err := false; sr_panic := false; sr_events := [] |}.

  Definition generateSMP2 (s : smpst) (y : N) (m1 : smp1msg) (rnd : list N) : smpst * (N * smp_payload) :=
    let b2 := nth 0 rnd 0 in let b3 := nth 1 rnd 0 in let r2 := nth 2 rnd 0 in let r3 := nth 3 rnd 0 in
    let r4 := nth 4 rnd 0 in let r5 := nth 5 rnd 0 in let r6 := nth 6 rnd 0 in
    let '(c2, d2) := genZKP r2 b2 3 in
    let '(c3, d3) := genZKP r3 b3 4 in
    let g2 := el_exp (m1_g2a m1) b2 in
    let g3 := el_exp (m1_g3a m1) b3 in
    let pb := el_exp g3 r4 in
    let qb := el_mul (el_exp g1e r4) (el_exp g2 y) in
    let cp := H 5 [el_exp g3 r5; el_mul (el_exp g1e r5) (el_exp g2 r6)] in
    let d5 := subq r5 (r4 * cp) in
    let d6 := subq r6 (y * cp) in
    ({| sm_state := 3; sm_question := sm_question s; sm_secret := Some y; sm_s1 := sm_s1 s;
        sm_s2 := Some {| s2_y := y; s2_b2 := b2; s2_b3 := b3; s2_g3a := m1_g3a m1; s2_g2 := g2; s2_g3 := g3;
                         s2_pb := pb; s2_qb := qb |};
        sm_s3 := sm_s3 s; sm_waiting := sm_waiting s |},
     (c_tlvTypeSMP2, {| sp_question := None;
                        sp_vals := [VEl (el_exp g1e b2); VNum c2; VNum d2; VEl (el_exp g1e b3); VNum c3; VNum d3;
                                    VEl pb; VEl qb; VNum cp; VNum d5; VNum d6] |})).

  Definition provideSecret (s : smpst) (x : smp_ctx) (secret : bytes) (rnd : list N) : sres :=
    let s := smp_ensure s in
    if sm_state s =? 5 then
      if negb (x_encrypted x) then
        {| sr_st := set_state s 1; sr_reply := []; sr_err := true; sr_panic := false; sr_events := [] |}
      else
        match sm_waiting s with
        | None => panicked s []
        | Some m1 =>
            let y := secretHash (x_v3 x) (x_theirFp x) (x_ourFp x) (x_ssid x) secret in
            let '(s', t) := generateSMP2 s y m1 rnd in
            {| sr_st := s'; sr_reply := [t]; sr_err := false; sr_panic := false; sr_events := [] |}
        end
    else {| sr_st := set_state s 1; sr_reply := []; sr_err := true; sr_panic := false; sr_events := [] |}.

  Definition smp_user (s : smpst) (x : smp_ctx) (c : smp_call) (rnd : list N) : sres :=
    match c with
    | SStart question secret =>
        let s := smp_ensure s in
        if sm_state s =? 1 then startAuthenticate s x question secret rnd
        else
          let r := startAuthenticate s x question secret rnd in
          if sr_err r then r
          else {| sr_st := sr_st r; sr_reply := abort_tlv :: sr_reply r; sr_err := false; sr_panic := false;
                  sr_events := sr_events r |}
    | SProvide secret => provideSecret s x secret rnd
    | SAbort => {| sr_st := set_state s 1; sr_reply := [abort_tlv]; sr_err := false; sr_panic := false; sr_events := [] |}
    end.

  (* ---- received messages ---- *)
  Definition receive1 (s : smpst) (x : smp_ctx) (pl : smp_payload) (withQ : bool) : sres :=
    if negb (sm_state s =? 1) then abort_with s [evError]
    else
      let v := sp_vals pl in
      let g2a := el_at v 0 in let c2 := num_at v 1 in let d2 := num_at v 2 in
      let g3a := el_at v 3 in let c3 := num_at v 4 in let d3 := num_at v 5 in
      if negb (in_range (x_v3 x) g2a && in_range (x_v3 x) g3a && verifyZKP d2 g2a c2 1 && verifyZKP d3 g3a c3 2)
      then abort_with s [evCheated]
      else
        let m := {| m1_g2a := g2a; m1_c2 := c2; m1_d2 := d2; m1_g3a := g3a; m1_c3 := c3; m1_d3 := d3;
                    m1_question := if withQ then sp_question pl else None |} in
        {| sr_st := {| sm_state := 5; sm_question := if withQ then sp_question pl else sm_question s;
                       sm_secret := sm_secret s; sm_s1 := sm_s1 s; sm_s2 := sm_s2 s; sm_s3 := sm_s3 s;
                       sm_waiting := Some m |};
           sr_reply := []; sr_err := false; sr_panic := false;
           sr_events := [if withQ then evAskForAnswer else evAskForSecret] |}.

  Definition receive2 (s : smpst) (x : smp_ctx) (pl : smp_payload) (rnd : list N) : sres :=
    if negb (sm_state s =? 2) then abort_with s [evError]
    else
      match sm_s1 s, sm_secret s with
      | Some s1, Some xsec =>
          let v := sp_vals pl in
          let g2b := el_at v 0 in let c2 := num_at v 1 in let d2 := num_at v 2 in
          let g3b := el_at v 3 in let c3 := num_at v 4 in let d3 := num_at v 5 in
          let pb := el_at v 6 in let qb := el_at v 7 in
          let cp := num_at v 8 in let d5 := num_at v 9 in let d6 := num_at v 10 in
          let g2 := el_exp g2b (s1_a2 s1) in
          let g3 := el_exp g3b (s1_a3 s1) in
          if negb (in_range (x_v3 x) g2b && in_range (x_v3 x) g3b && in_range (x_v3 x) pb && in_range (x_v3 x) qb &&
                   verifyZKP d2 g2b c2 3 && verifyZKP d3 g3b c3 4 && verifyZKP2 g2 g3 d5 d6 pb qb cp 5)
          then abort_with s [evCheated]
          else
            let r4 := nth 0 rnd 0 in let r5 := nth 1 rnd 0 in let r6 := nth 2 rnd 0 in let r7 := nth 3 rnd 0 in
            let pa := el_exp g3 r4 in
            let qa := el_mul (el_exp g1e r4) (el_exp g2 xsec) in
            match el_div qa qb, el_div pa pb with
            | Some qaqb, Some papb =>
                let cp' := H 6 [el_exp g3 r5; el_mul (el_exp g1e r5) (el_exp g2 r6)] in
                let d5' := subq r5 (r4 * cp') in
                let d6' := subq r6 (xsec * cp') in
                let ra := el_exp qaqb (s1_a3 s1) in
                let cr := H 7 [el_exp g1e r7; el_exp qaqb r7] in
                let d7 := subq r7 (s1_a3 s1 * cr) in
                {| sr_st := {| sm_state := 4; sm_question := sm_question s; sm_secret := sm_secret s; sm_s1 := sm_s1 s;
                               sm_s2 := sm_s2 s;
                               sm_s3 := Some {| s3_x := xsec; s3_g3b := g3b; s3_qaqb := qaqb; s3_papb := papb |};
                               sm_waiting := sm_waiting s |};
                   sr_reply := [(c_tlvTypeSMP3, {| sp_question := None;
                       sp_vals := [VEl pa; VEl qa; VNum cp'; VNum d5'; VNum d6'; VEl ra; VNum cr; VNum d7] |})];
                   sr_err := false; sr_panic := false; sr_events := [evInProgress] |}
            | _, _ => panicked s []
            end
      | _, _ => panicked s []
      end.

  Definition receive3 (s : smpst) (x : smp_ctx) (pl : smp_payload) (rnd : list N) : sres :=
    if negb (sm_state s =? 3) then abort_with s [evError]
    else
      match sm_s2 s with
      | Some s2 =>
          let v := sp_vals pl in
          let pa := el_at v 0 in let qa := el_at v 1 in let cp := num_at v 2 in
          let d5 := num_at v 3 in let d6 := num_at v 4 in let ra := el_at v 5 in
          let cr := num_at v 6 in let d7 := num_at v 7 in
          if negb (in_range (x_v3 x) pa && in_range (x_v3 x) qa && in_range (x_v3 x) ra &&
                   verifyZKP2 (s2_g2 s2) (s2_g3 s2) d5 d6 pa qa cp 6)
          then abort_with s [evCheated]
          else
            match el_div qa (s2_qb s2) with
            | None => panicked s []
            | Some qaqb =>
                if negb (verifyZKP4 cr (s2_g3a s2) d7 qaqb ra 7) then abort_with s [evCheated]
                else
                  match el_div pa (s2_pb s2) with
                  | None => panicked s []
                  | Some papb =>
                      if negb (el_eqb (el_exp ra (s2_b3 s2)) papb) then abort_with s [evFailure]
                      else
                        let r7 := nth 0 rnd 0 in
                        let rb := el_exp qaqb (s2_b3 s2) in
                        let cr' := H 8 [el_exp g1e r7; el_exp qaqb r7] in
                        let d7' := subq r7 (s2_b3 s2 * cr') in
                        {| sr_st := wipe_keep_state1 s;
                           sr_reply := [(c_tlvTypeSMP4, {| sp_question := None; sp_vals := [VEl rb; VNum cr'; VNum d7'] |})];
                           sr_err := false; sr_panic := false; sr_events := [evSuccess] |}
                  end
            end
      | None => panicked s []
      end.

  Definition receive4 (s : smpst) (x : smp_ctx) (pl : smp_payload) : sres :=
    if negb (sm_state s =? 4) then abort_with s [evError]
    else
      match sm_s1 s, sm_s3 s with
      | Some s1, Some s3 =>
          let v := sp_vals pl in
          let rb := el_at v 0 in let cr := num_at v 1 in let d7 := num_at v 2 in
          if negb (in_range (x_v3 x) rb && verifyZKP4 cr (s3_g3b s3) d7 (s3_qaqb s3) rb 8)
          then abort_with s [evCheated]
          else if negb (el_eqb (el_exp rb (s1_a3 s1)) (s3_papb s3)) then abort_with s [evFailure]
          else {| sr_st := wipe_keep_state1 s; sr_reply := []; sr_err := false; sr_panic := false;
                  sr_events := [evSuccess] |}
      | _, _ => panicked s []
      end.

  Definition needed (ty : N) : nat :=
    if (ty =? c_tlvTypeSMP1) || (ty =? c_tlvTypeSMP1WithQuestion) then 6%nat
    else if ty =? c_tlvTypeSMP2 then 11%nat else if ty =? c_tlvTypeSMP3 then 8%nat
    else if ty =? c_tlvTypeSMP4 then 3%nat else 0%nat.

  (* processSMPTLV: [s] has been through ensureSMP *)
  Definition smp_receive (s : smpst) (x : smp_ctx) (ty : N) (pl : smp_payload) (rnd : list N) : sres :=
    if (length (sp_vals pl) <? needed ty)%nat ||
       ((ty =? c_tlvTypeSMP1WithQuestion) && match sp_question pl with None => true | Some _ => false end)
    then {| sr_st := s; sr_reply := []; sr_err := true; sr_panic := false; sr_events := [] |}
    else if ty =? c_tlvTypeSMP1 then receive1 s x pl false
    else if ty =? c_tlvTypeSMP1WithQuestion then receive1 s x pl true
    else if ty =? c_tlvTypeSMP2 then receive2 s x pl rnd
    else if ty =? c_tlvTypeSMP3 then receive3 s x pl rnd
    else if ty =? c_tlvTypeSMP4 then receive4 s x pl
    else (* abort *)
      {| sr_st := set_state s 1; sr_reply := []; sr_err := false; sr_panic := false; sr_events := [evAbort] |}.
End SMP.
