(* C18: the security events track the encrypted status, for every call and every history.

   A small frame calculus over the conversation monad M of Proto/Conv.v: [fr m] says that action m neither moves the
   message state nor raises a security event, [lc m] that the events it raises track the change of the encrypted
   status ([track]: GoneSecure only from not-encrypted to encrypted, StillSecure only while encrypted, GoneInsecure only
   from encrypted to not-encrypted, nothing else moves it).  Both are closed under bind; every definition of Conv.v is
   walked through once by a tactic; the three places that do change the state (akeHasFinished, the peer's disconnect
   TLV, End) are the only hand-proved atoms.  Result: [step_tracks] for every call on every state, [history_tracks]
   for every history, [step_user_calls_frame]: only Receive and End ever change the state. *)
From OTR Require Import Go.Base Gen.Consts Bytes.Text Proto.SmpTypes Proto.Keys Proto.Smp Proto.SmpInst Proto.Conv Proto.ConvProofs.
From RecordUpdate Require Import RecordSet.
Import RecordSetNotations.
Open Scope N_scope.

Definition is_sec (e : N) : bool :=
  (e =? evSec c_GoneSecure) || (e =? evSec c_StillSecure) || (e =? evSec c_GoneInsecure).
Definition nosec (l : list N) : Prop := Forall (fun e => is_sec e = false) l.
Definition encb (s : N) : bool := s =? c_encrypted.

(* the encrypted status as the security events tell it: GoneSecure only from not-encrypted to encrypted,
   StillSecure only while encrypted, GoneInsecure only from encrypted to not-encrypted; None = an event out of place *)
Fixpoint track (b : bool) (evs : list N) : option bool :=
  match evs with
  | [] => Some b
  | e :: r => if e =? evSec c_GoneSecure then (if b then None else track true r)
              else if e =? evSec c_StillSecure then (if b then track true r else None)
              else if e =? evSec c_GoneInsecure then (if b then track false r else None)
              else track b r
  end.

Lemma track_nosec l : nosec l -> forall b, track b l = Some b.
Proof.
  induction 1 as [|e r He _ IH]; intros b; cbn; [reflexivity|].
  unfold is_sec in He. apply orb_false_iff in He as [He H3]. apply orb_false_iff in He as [H1 H2].
  rewrite H1, H2, H3. apply IH.
Qed.
Lemma track_app l1 : forall b b1 l2, track b l1 = Some b1 -> track b (l1 ++ l2) = track b1 l2.
Proof.
  induction l1 as [|e r IH]; intros b b1 l2; cbn.
  - intros H; injection H as <-; reflexivity.
  - destruct (e =? evSec c_GoneSecure); [destruct b; [discriminate|apply IH]|].
    destruct (e =? evSec c_StillSecure); [destruct b; [apply IH|discriminate]|].
    destruct (e =? evSec c_GoneInsecure); [destruct b; [apply IH|discriminate]|]. apply IH.
Qed.

(* frame: the message state does not move and no security event is raised *)
Definition fr {A} (m : M A) : Prop := forall c ev a c' ev', m c ev = (a, c', ev') ->
  c_msgState c' = c_msgState c /\ exists new, ev' = ev ++ new /\ nosec new.
(* lifecycle: the new events track the change of the encrypted status *)
Definition lc {A} (m : M A) : Prop := forall c ev a c' ev', m c ev = (a, c', ev') ->
  exists new, ev' = ev ++ new /\ track (encb (c_msgState c)) new = Some (encb (c_msgState c')).

Lemma fr_lc {A} (m : M A) : fr m -> lc m.
Proof.
  intros H c ev a c' ev' E. destruct (H _ _ _ _ _ E) as [Hs [new [Hn Hns]]].
  exists new. split; [exact Hn|]. rewrite Hs. apply track_nosec. exact Hns.
Qed.

Lemma fr_ret {A} (a : A) : fr (ret a).
Proof. intros c ev a' c' ev' E. injection E as <- <- <-. split; [reflexivity|]. exists []. rewrite app_nil_r. split; [reflexivity|constructor]. Qed.
Lemma fr_get : fr get.
Proof. intros c ev a' c' ev' E. injection E as <- <- <-. split; [reflexivity|]. exists []. rewrite app_nil_r. split; [reflexivity|constructor]. Qed.
Lemma fr_fresh : fr fresh.
Proof. intros c ev a' c' ev' E. unfold fresh, draw in E. injection E as <- <- <-. split; [reflexivity|]. exists []. rewrite app_nil_r. split; [reflexivity|constructor]. Qed.
Lemma fr_modify f : (forall c, c_msgState (f c) = c_msgState c) -> fr (modify f).
Proof. intros H c ev a' c' ev' E. injection E as <- <- <-. split; [apply H|]. exists []. rewrite app_nil_r. split; [reflexivity|constructor]. Qed.
Lemma fr_event e : is_sec e = false -> fr (event e).
Proof. intros H c ev a' c' ev' E. injection E as <- <- <-. split; [reflexivity|]. exists [e]. split; [reflexivity|]. constructor; [exact H|constructor]. Qed.
Lemma fr_pure {A} (f : conv -> list N -> A) : fr (fun c ev => (f c ev, c, ev)).
Proof. intros c ev a' c' ev' E. injection E as <- <- <-. split; [reflexivity|]. exists []. rewrite app_nil_r. split; [reflexivity|constructor]. Qed.
Lemma fr_smp_events l : fr (fun c ev => (tt, c, ev ++ map evSmp l)).
Proof.
  intros c ev a' c' ev' E. injection E as <- <- <-. split; [reflexivity|]. exists (map evSmp l). split; [reflexivity|].
  apply Forall_forall. intros e He. apply in_map_iff in He as [x [<- _]]. unfold is_sec, evSmp, evSec.
  repeat (apply orb_false_iff; split); apply N.eqb_neq; unfold c_GoneSecure, c_StillSecure, c_GoneInsecure; lia.
Qed.
Lemma fr_bind {A B} (m : M A) (f : A -> M B) : fr m -> (forall a, fr (f a)) -> fr (bind m f).
Proof.
  intros Hm Hf c ev b c' ev' E. unfold bind in E. destruct (m c ev) as [[a c1] ev1] eqn:E1.
  destruct (Hm _ _ _ _ _ E1) as [S1 [n1 [N1 F1]]]. destruct (Hf a _ _ _ _ _ E) as [S2 [n2 [N2 F2]]].
  split; [congruence|]. exists (n1 ++ n2). split; [rewrite N2, N1, app_assoc; reflexivity | apply Forall_app; auto].
Qed.
Lemma lc_bind {A B} (m : M A) (f : A -> M B) : lc m -> (forall a, lc (f a)) -> lc (bind m f).
Proof.
  intros Hm Hf c ev b c' ev' E. unfold bind in E. destruct (m c ev) as [[a c1] ev1] eqn:E1.
  destruct (Hm _ _ _ _ _ E1) as [n1 [N1 T1]]. destruct (Hf a _ _ _ _ _ E) as [n2 [N2 T2]].
  exists (n1 ++ n2). split; [rewrite N2, N1, app_assoc; reflexivity|]. rewrite (track_app _ _ _ _ T1). exact T2.
Qed.

Create HintDb fr.
Ltac fr_tac :=
  repeat first
  [ solve [auto with fr]
  | apply fr_ret | apply fr_get | apply fr_fresh | apply fr_pure | apply fr_smp_events
  | (apply fr_modify; intros ?; reflexivity)
  | (apply fr_event; reflexivity)
  | (apply fr_bind; [|intros ?])
  | match goal with
    | |- fr (if ?b then _ else _) => destruct b
    | |- fr (match ?x with _ => _ end) => destruct x
    | |- fr (let '(_, _) := ?x in _) => destruct x
    end ].

Lemma fr_commitToVersionFrom v : fr (commitToVersionFrom v). Proof. unfold commitToVersionFrom. fr_tac. Qed.
#[export] Hint Resolve fr_commitToVersionFrom : fr.
Lemma fr_generateInstanceTag : fr generateInstanceTag. Proof. unfold generateInstanceTag. fr_tac. Qed.
#[export] Hint Resolve fr_generateInstanceTag : fr.
Lemma fr_malformedMessage : fr malformedMessage. Proof. unfold malformedMessage. fr_tac. Qed.
#[export] Hint Resolve fr_malformedMessage : fr.
Lemma fr_verifyInstanceTags a b : fr (verifyInstanceTags a b). Proof. unfold verifyInstanceTags. fr_tac. Qed.
#[export] Hint Resolve fr_verifyInstanceTags : fr.
Lemma fr_messageHeader : fr messageHeader. Proof. unfold messageHeader. fr_tac. Qed.
#[export] Hint Resolve fr_messageHeader : fr.
Lemma fr_wrap b : fr (wrap b). Proof. unfold wrap. fr_tac. Qed.
#[export] Hint Resolve fr_wrap : fr.
Lemma fr_generatePotentialErrorMessage x : fr (generatePotentialErrorMessage x). Proof. unfold generatePotentialErrorMessage. fr_tac. Qed.
#[export] Hint Resolve fr_generatePotentialErrorMessage : fr.
Lemma fr_withInjects x : fr (withInjects x). Proof. unfold withInjects. fr_tac. Qed.
#[export] Hint Resolve fr_withInjects : fr.
Lemma fr_updateLastSent x : fr (updateLastSent x). Proof. unfold updateLastSent. fr_tac. Qed.
#[export] Hint Resolve fr_updateLastSent : fr.
Lemma fr_genDataMsgWithFlag t f l r : fr (genDataMsgWithFlag t f l r). Proof. unfold genDataMsgWithFlag. fr_tac. Qed.
#[export] Hint Resolve fr_genDataMsgWithFlag : fr.
Lemma fr_createSerializedDataMessage n t f l : fr (createSerializedDataMessage n t f l). Proof. unfold createSerializedDataMessage. fr_tac. Qed.
#[export] Hint Resolve fr_createSerializedDataMessage : fr.
Lemma fr_retransmit_loop msgs : forall p acc, fr (retransmit_loop msgs p acc).
Proof. induction msgs as [|m r IH]; intros p acc; cbn [retransmit_loop]; fr_tac. Qed.
#[export] Hint Resolve fr_retransmit_loop : fr.
Lemma fr_emit_n n e : is_sec e = false -> fr (emit_n n e).
Proof. intros H. induction n as [|k IH]; cbn [emit_n]; [apply fr_ret|]. apply fr_bind; [apply fr_event; exact H | intros _; exact IH]. Qed.
Lemma fr_maybeRetransmit n : fr (maybeRetransmit n).
Proof. unfold maybeRetransmit. fr_tac; apply fr_emit_n; destruct (_ =? _); reflexivity. Qed.
#[export] Hint Resolve fr_maybeRetransmit : fr.
Lemma fr_retransmitAfterAKE n : fr (retransmitAfterAKE n). Proof. unfold retransmitAfterAKE. fr_tac. Qed.
#[export] Hint Resolve fr_retransmitAfterAKE : fr.
Lemma fr_set_ake f : fr (set_ake f). Proof. unfold set_ake. fr_tac. Qed.
#[export] Hint Resolve fr_set_ake : fr.
Lemma fr_sendDHCommit : fr sendDHCommit. Proof. unfold sendDHCommit. fr_tac. Qed.
#[export] Hint Resolve fr_sendDHCommit : fr.
Lemma fr_calcAKEKeys s : fr (calcAKEKeys s). Proof. unfold calcAKEKeys. fr_tac. Qed.
#[export] Hint Resolve fr_calcAKEKeys : fr.
Lemma fr_setSentRevealSig s : fr (setSentRevealSig s). Proof. unfold setSentRevealSig. fr_tac. Qed.
#[export] Hint Resolve fr_setSentRevealSig : fr.
Lemma fr_generateEncryptedSignature s : fr (generateEncryptedSignature s). Proof. unfold generateEncryptedSignature. fr_tac. Qed.
#[export] Hint Resolve fr_generateEncryptedSignature : fr.
Lemma fr_processEncryptedSig a b s : fr (processEncryptedSig a b s). Proof. unfold processEncryptedSig. fr_tac. Qed.
#[export] Hint Resolve fr_processEncryptedSig : fr.
Lemma fr_receiveDHCommit_none b : fr (receiveDHCommit_none b). Proof. unfold receiveDHCommit_none. fr_tac. Qed.
#[export] Hint Resolve fr_receiveDHCommit_none : fr.

Create HintDb lc.
Ltac lc_tac :=
  repeat first
  [ solve [auto with lc]
  | solve [apply fr_lc; auto with fr]
  | progress cbv zeta
  | (apply lc_bind; [|intros ?])
  | match goal with
    | |- lc (if ?b then _ else _) => destruct b
    | |- lc (match ?x with _ => _ end) => destruct x
    | |- lc (let '(_, _) := ?x in _) => destruct x
    end
  | solve [apply fr_lc; fr_tac] ].

Lemma lc_akeHasFinished now : lc (akeHasFinished now).
Proof.
  intros c ev a c' ev' E. pose proof (akeHasFinished_spec now c ev) as H. rewrite E in H.
  destruct H as [Hs [He _]]. eexists. split; [exact He|]. rewrite Hs. unfold encb.
  destruct (c_msgState c =? c_encrypted); reflexivity.
Qed.
#[export] Hint Resolve lc_akeHasFinished : lc.

Lemma lc_processAKE_body now ty body aux : lc (processAKE_body now ty body aux).
Proof. unfold processAKE_body. lc_tac. Qed.
#[export] Hint Resolve lc_processAKE_body : lc.
Lemma lc_processAKE now ty body aux : lc (processAKE now ty body aux).
Proof. unfold processAKE. lc_tac. Qed.
#[export] Hint Resolve lc_processAKE : lc.

(* the peer's disconnect: message state and event in one block *)
Lemma lc_disconnect_block :
  lc (LET c <- get IN
      modify (fun c0 => (c0 <| c_lastMsgStateChange := None |> <| c_msgState := c_finished |> <| c_smp := smp_wiped |> <| c_ake := None |> <| c_keys := keyctx_empty |> <| c_version := 0 |>)) ;;;
      (if c_msgState c =? c_encrypted then event (evSec c_GoneInsecure) else ret tt)).
Proof.
  intros c ev a c' ev' E. unfold bind, get, modify in E. unfold encb.
  destruct (c_msgState c =? c_encrypted) eqn:Es; cbn in E; injection E as <- <- <-.
  - exists [evSec c_GoneInsecure]. split; reflexivity.
  - exists []. rewrite app_nil_r. split; reflexivity.
Qed.

Lemma lc_processTLVs rnd tlvs : forall x acc, lc (processTLVs rnd tlvs x acc).
Proof.
  induction tlvs as [|t r IH]; intros x acc; cbn [processTLVs]; [apply fr_lc, fr_ret|].
  destruct t.
  - apply IH.
  - (* TDisconnected *)
    intros c ev a c' ev' E.
    assert (E' : bind (LET c <- get IN
      modify (fun c0 => (c0 <| c_lastMsgStateChange := None |> <| c_msgState := c_finished |> <| c_smp := smp_wiped |> <| c_ake := None |> <| c_keys := keyctx_empty |> <| c_version := 0 |>)) ;;;
      (if c_msgState c =? c_encrypted then event (evSec c_GoneInsecure) else ret tt)) (fun _ => ret (inl acc)) c ev = (a, c', ev')).
    { rewrite <- E. reflexivity. }
    revert E'. apply lc_bind; [apply lc_disconnect_block | intros _; apply fr_lc, fr_ret].
  - lc_tac; apply IH.
  - lc_tac; apply IH.
  - apply IH.
Qed.
#[export] Hint Resolve lc_processTLVs : lc.

Lemma lc_processDataMessage now d rnd : lc (processDataMessage now d rnd).
Proof. unfold processDataMessage. lc_tac. Qed.
#[export] Hint Resolve lc_processDataMessage : lc.
Lemma fr_potentialHeartbeat now p : fr (potentialHeartbeat now p). Proof. unfold potentialHeartbeat. fr_tac. Qed.
#[export] Hint Resolve fr_potentialHeartbeat : fr.
Lemma lc_receiveDataMessage now d rnd : lc (receiveDataMessage now d rnd).
Proof. unfold receiveDataMessage. lc_tac. Qed.
#[export] Hint Resolve lc_receiveDataMessage : lc.
Lemma fr_checkPlaintextPolicies : fr checkPlaintextPolicies. Proof. unfold checkPlaintextPolicies. fr_tac. Qed.
#[export] Hint Resolve fr_checkPlaintextPolicies : fr.
Lemma fr_receiveQueryMessage now v : fr (receiveQueryMessage now v). Proof. unfold receiveQueryMessage. fr_tac. Qed.
#[export] Hint Resolve fr_receiveQueryMessage : fr.
Lemma lc_receiveDecoded now ver stag rtag body aux rnd : lc (receiveDecoded now ver stag rtag body aux rnd).
Proof. unfold receiveDecoded. lc_tac. Qed.
#[export] Hint Resolve lc_receiveDecoded : lc.
Lemma fr_forgetVersion b e : fr (forgetVersion b e). Proof. unfold forgetVersion. fr_tac. Qed.
#[export] Hint Resolve fr_forgetVersion : fr.
Lemma fr_forgetTag b e : fr (forgetTag b e). Proof. unfold forgetTag. fr_tac. Qed.
#[export] Hint Resolve fr_forgetTag : fr.
Lemma fr_finish p o e : fr (finish p o e). Proof. unfold finish. fr_tac. Qed.
#[export] Hint Resolve fr_finish : fr.
Lemma lc_receive now w aux rnd : lc (receive now w aux rnd).
Proof. unfold receive. lc_tac. Qed.
Lemma fr_finishSend o e : fr (finishSend o e). Proof. unfold finishSend. fr_tac. Qed.
#[export] Hint Resolve fr_finishSend : fr.
Lemma fr_send now t : fr (send now t). Proof. unfold send. fr_tac. Qed.
Lemma fr_userSMP now s rnd : fr (userSMP now s rnd). Proof. unfold userSMP. fr_tac. Qed.
Lemma fr_sendTLVs now t : fr (sendTLVs now t). Proof. unfold sendTLVs. fr_tac. Qed.
Lemma fr_useExtraKey now u d : fr (useExtraKey now u d). Proof. unfold useExtraKey. fr_tac. Qed.

Lemma lc_end_shape {A B} (X : conv -> M A) (Y : conv -> A -> M unit) (f : conv -> conv) (K : A -> M B) :
  (forall c, fr (X c)) -> (forall c a, fr (Y c a)) -> (forall c, c_msgState (f c) = c_plainText) -> (forall a, fr (K a)) ->
  lc (LET c <- get IN LET r <- X c IN Y c r ;;; modify f ;;;
      (if c_msgState c =? c_encrypted then event (evSec c_GoneInsecure) else ret tt) ;;; K r).
Proof.
  intros HX HY Hf HK c ev b c' ev' E. unfold bind at 1 in E. unfold get in E.
  unfold bind at 1 in E. destruct (X c c ev) as [[r c1] ev1] eqn:E1.
  destruct (HX c _ _ _ _ _ E1) as [S1 [n1 [N1 F1]]].
  unfold bind at 1 in E. destruct (Y c r c1 ev1) as [[u c2] ev2] eqn:E2.
  destruct (HY c r _ _ _ _ _ E2) as [S2 [n2 [N2 F2]]].
  unfold bind at 1 in E. unfold modify in E.
  unfold bind at 1 in E.
  destruct (c_msgState c =? c_encrypted) eqn:Es.
  - unfold event in E. destruct (HK r _ _ _ _ _ E) as [S3 [n3 [N3 F3]]].
    exists (n1 ++ n2 ++ [evSec c_GoneInsecure] ++ n3). split.
    + rewrite N3, N2, N1. rewrite <- !app_assoc. reflexivity.
    + unfold encb. rewrite Es, S3, Hf.
      rewrite (track_app n1 true true) by (apply track_nosec; exact F1).
      rewrite (track_app n2 true true) by (apply track_nosec; exact F2).
      cbn [app track]. change (evSec c_GoneInsecure =? evSec c_GoneSecure) with false.
      change (evSec c_GoneInsecure =? evSec c_StillSecure) with false. rewrite N.eqb_refl.
      apply track_nosec. exact F3.
  - unfold ret in E. destruct (HK r _ _ _ _ _ E) as [S3 [n3 [N3 F3]]].
    exists (n1 ++ n2 ++ n3). split.
    + rewrite N3, N2, N1. rewrite <- !app_assoc. reflexivity.
    + unfold encb. rewrite Es, S3, Hf. change (c_plainText =? c_encrypted) with false.
      apply track_nosec. apply Forall_app. split; [exact F1|]. apply Forall_app. split; assumption.
Qed.

Lemma lc_endConv now : lc (endConv now).
Proof.
  unfold endConv. cbv zeta.
  apply (lc_end_shape (fun c => _) (fun c _ => _) _ (fun r => _)).
  - intros c. fr_tac.
  - intros c _. 
    (* prev is the state read at the start; the modification of the resend queue is a frame step either way *)
    fr_tac.
  - intros c. reflexivity.
  - intros r. apply fr_pure.
Qed.

(* every API call reports exactly the events it raised *)
Definition reports {A} (m : M A) (ev_of : A -> list N) : Prop :=
  forall c ev a c' ev', m c ev = (a, c', ev') -> ev_of a = ev'.
Lemma reports_bind {A B} (m : M A) (f : A -> M B) g : (forall a, reports (f a) g) -> reports (bind m f) g.
Proof. intros H c ev b c' ev' E. unfold bind in E. destruct (m c ev) as [[a c1] ev1]. apply (H a _ _ _ _ _ E). Qed.
Lemma reports_pure (f : conv -> list N -> result) : (forall c ev, r_events (f c ev) = ev) -> reports (fun c ev => (f c ev, c, ev)) r_events.
Proof. intros H c ev a c' ev' E. injection E as <- <- <-. apply H. Qed.
Ltac rep_tac :=
  repeat first
  [ (apply reports_pure; intros ? ?; repeat match goal with |- context [match ?g with _ => _ end] => destruct g end; reflexivity)
  | progress cbv zeta
  | (apply reports_bind; intros ?)
  | match goal with
    | |- reports (if ?b then _ else _) _ => destruct b
    | |- reports (match ?x with _ => _ end) _ => destruct x
    | |- reports (let '(_, _) := ?x in _) _ => destruct x
    end ].
Lemma reports_finish p o e : reports (finish p o e) r_events. Proof. unfold finish. rep_tac. Qed.
Lemma reports_finishSend o e : reports (finishSend o e) r_events. Proof. unfold finishSend. rep_tac. Qed.
Lemma reports_receive now w aux rnd : reports (receive now w aux rnd) r_events.
Proof. unfold receive. rep_tac; try apply reports_finish. Qed.
Lemma reports_send now t : reports (send now t) r_events.
Proof. unfold send. rep_tac; try apply reports_finishSend. Qed.
Lemma reports_endConv now : reports (endConv now) r_events. Proof. unfold endConv. rep_tac. Qed.
Lemma reports_userSMP now s rnd : reports (userSMP now s rnd) r_events.
Proof. unfold userSMP. rep_tac. Qed.
Lemma reports_sendTLVs now t : reports (sendTLVs now t) r_events. Proof. unfold sendTLVs. rep_tac. Qed.
Lemma reports_useExtraKey now u d : reports (useExtraKey now u d) r_events. Proof. unfold useExtraKey. rep_tac. Qed.

(* ---------- one call ---------- *)
Theorem step_tracks now c op : let '(c', r) := step now c op in
  track (encb (c_msgState c)) (r_events r) = Some (encb (c_msgState c')).
Proof.
  unfold step. destruct op as [t|w aux rnd| |s rnd|u d|tlvs].
  - destruct (send now t c []) as [[r c'] ev'] eqn:E.
    destruct (fr_lc _ (fr_send now t) _ _ _ _ _ E) as [new [N1 T1]]. rewrite (reports_send _ _ _ _ _ _ _ E), N1. exact T1.
  - destruct (receive now w aux rnd c []) as [[r c'] ev'] eqn:E.
    destruct (lc_receive now w aux rnd _ _ _ _ _ E) as [new [N1 T1]]. rewrite (reports_receive _ _ _ _ _ _ _ _ _ E), N1. exact T1.
  - destruct (endConv now c []) as [[r c'] ev'] eqn:E.
    destruct (lc_endConv now _ _ _ _ _ E) as [new [N1 T1]]. rewrite (reports_endConv _ _ _ _ _ _ E), N1. exact T1.
  - destruct (userSMP now s rnd c []) as [[r c'] ev'] eqn:E.
    destruct (fr_lc _ (fr_userSMP now s rnd) _ _ _ _ _ E) as [new [N1 T1]]. rewrite (reports_userSMP _ _ _ _ _ _ _ _ E), N1. exact T1.
  - destruct (useExtraKey now u d c []) as [[r c'] ev'] eqn:E.
    destruct (fr_lc _ (fr_useExtraKey now u d) _ _ _ _ _ E) as [new [N1 T1]]. rewrite (reports_useExtraKey _ _ _ _ _ _ _ _ E), N1. exact T1.
  - destruct (sendTLVs now tlvs c []) as [[r c'] ev'] eqn:E.
    destruct (fr_lc _ (fr_sendTLVs now tlvs) _ _ _ _ _ E) as [new [N1 T1]]. rewrite (reports_sendTLVs _ _ _ _ _ _ _ E), N1. exact T1.
Qed.

(* only Receive and End ever move the message state or raise a security event *)
Theorem step_user_calls_frame now c op : (match op with CReceive _ _ _ | CEnd => False | _ => True end) ->
  let '(c', r) := step now c op in c_msgState c' = c_msgState c /\ nosec (r_events r).
Proof.
  intros H. unfold step. destruct op as [t|w aux rnd| |s rnd|u d|tlvs]; try contradiction.
  - destruct (send now t c []) as [[r c'] ev'] eqn:E.
    destruct (fr_send now t _ _ _ _ _ E) as [S1 [new [N1 F1]]]. rewrite (reports_send _ _ _ _ _ _ _ E), N1. auto.
  - destruct (userSMP now s rnd c []) as [[r c'] ev'] eqn:E.
    destruct (fr_userSMP now s rnd _ _ _ _ _ E) as [S1 [new [N1 F1]]]. rewrite (reports_userSMP _ _ _ _ _ _ _ _ E), N1. auto.
  - destruct (useExtraKey now u d c []) as [[r c'] ev'] eqn:E.
    destruct (fr_useExtraKey now u d _ _ _ _ _ E) as [S1 [new [N1 F1]]]. rewrite (reports_useExtraKey _ _ _ _ _ _ _ _ E), N1. auto.
  - destruct (sendTLVs now tlvs c []) as [[r c'] ev'] eqn:E.
    destruct (fr_sendTLVs now tlvs _ _ _ _ _ E) as [S1 [new [N1 F1]]]. rewrite (reports_sendTLVs _ _ _ _ _ _ _ E), N1. auto.
Qed.

(* ---------- every history ---------- *)
Fixpoint run_calls (c : conv) (h : list (N * call)) : conv * list N :=
  match h with
  | [] => (c, [])
  | (now, op) :: r => let '(c1, res) := step now c op in
                      let '(c2, evs) := run_calls c1 r in (c2, r_events res ++ evs)
  end.

Theorem history_tracks h : forall c, let '(c', evs) := run_calls c h in
  track (encb (c_msgState c)) evs = Some (encb (c_msgState c')).
Proof.
  induction h as [|[now op] r IH]; intros c; cbn [run_calls]; [reflexivity|].
  pose proof (step_tracks now c op) as H1. destruct (step now c op) as [c1 res].
  specialize (IH c1). destruct (run_calls c1 r) as [c2 evs].
  rewrite (track_app _ _ _ _ H1). exact IH.
Qed.

(* from a new conversation: it is encrypted exactly when the security events raised so far say so *)
Corollary encrypted_iff_events who pol key h : let '(c', evs) := run_calls (conv_init who pol key) h in
  track false evs = Some (c_msgState c' =? c_encrypted).
Proof. exact (history_tracks h (conv_init who pol key)). Qed.
