(* C13 / C12: the disconnect record ends the TLV loop (processTLVs, fix f9b2649 in /repo).
   The session a data message belongs to ends with its disconnect record: keys, SMP state and protocol version are gone,
   so a record behind it - an SMP message above all, whose handler reads the version - has nothing to be processed in.
   In the model as in the repaired code nothing behind the disconnect record is looked at. *)
From OTR Require Import Go.Base Gen.Consts Proto.SmpTypes Proto.Keys Proto.Smp Proto.SmpInst Proto.Conv.
From RecordUpdate Require Import RecordSet.
Import RecordSetNotations.
Open Scope N_scope.

Lemma records_behind_disconnect_ignored : forall rnd r x acc,
  processTLVs rnd (TDisconnected :: r) x acc = processTLVs rnd [TDisconnected] x acc.
Proof. reflexivity. Qed.

(* whatever follows the disconnect record: the reply records collected so far are returned, the receiver is finished,
   holds no session keys, no SMP state and no version, and the only event is GoneInsecure (when it was encrypted) *)
Lemma disconnect_ends_everything : forall rnd r x acc c ev,
  let '(res, c', ev') := processTLVs rnd (TDisconnected :: r) x acc c ev in
  res = inl acc /\ c_msgState c' = c_finished /\ c_keys c' = keyctx_empty /\ c_smp c' = smp_wiped /\ c_ake c' = None /\
  c_version c' = 0 /\
  ev' = ev ++ (if c_msgState c =? c_encrypted then [evSec c_GoneInsecure] else []).
Proof.
  intros. cbn [processTLVs]. unfold bind, get, modify, event, ret.
  destruct (c_msgState c =? c_encrypted); cbn; rewrite ?app_nil_r; repeat split; auto.
Qed.
